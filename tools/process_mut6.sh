#!/bin/sh
# usage: tools/process_mut6.sh Cxx [check ids...] -- confirm /root/work/mut6/Cxx and run the checks against it
P="$1"; shift
D=/root/work/mut6/$P
[ -f "$D/patch.diff" ] || { echo "no patch for $P"; exit 2; }
echo "== confirm $P"; tools/confirm_mutant.sh "$D" | tee "$D/confirm.json"
CHECKS="${*:-$P}"
for c in $CHECKS; do
  echo "== $c against $P mutant"
  tools/try_mutant.sh "$D/patch.diff" "$c" 2>&1 | grep -E "^KNOWN|tier=|check exit" | cut -c1-230 | head -8
done
