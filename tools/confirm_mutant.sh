#!/bin/sh
# usage: tools/confirm_mutant.sh <out_dir> : confirms patch+demo in a fresh scratch worktree; prints a one-line JSON verdict
OUT="$1"
WT=/tmp/confirm_wt_$$
git -C /repo worktree add -q --detach "$WT" HEAD || exit 2
cd "$WT"
PYTHONPATH="$WT" timeout 120 /venv/bin/python "$OUT/demo.py" >/dev/null 2>&1; base=$?
git apply "$OUT/patch.diff" || { echo '{"applies": false}'; git -C /repo worktree remove --force "$WT"; exit 1; }
PYTHONPATH="$WT" timeout 900 /venv/bin/python -m pytest -q -p no:cacheprovider >/tmp/confirm_pytest_$$.log 2>&1; t=$?
tests=$(tail -1 /tmp/confirm_pytest_$$.log)
PYTHONPATH="$WT" timeout 120 /venv/bin/python "$OUT/demo.py" >/dev/null 2>&1; mut=$?
echo "{\"applies\": true, \"pytest_exit\": $t, \"pytest_tail\": \"$tests\", \"demo_exit_unchanged\": $base, \"demo_exit_with_change\": $mut}"
cd /; git -C /repo worktree remove --force "$WT"; rm -f /tmp/confirm_pytest_$$.log
