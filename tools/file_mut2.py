#!/usr/bin/env python3
"""usage: tools/file_mut2.py Cxx "<caught_by>" [--missed] : file /root/work/mut2/Cxx as /verif/seeded/Cxx-2"""
import json, os, shutil, sys
pid, caught = sys.argv[1], sys.argv[2]
missed = "--missed" in sys.argv
src = os.environ.get("MUT_SRC", "/root/work/mut2") + "/%s" % pid
n = 2
while os.path.exists("/verif/seeded/%s-%d" % (pid, n)):
    n += 1
dst = "/verif/seeded/%s-%d" % (pid, n)
os.makedirs(dst)
for f in ("patch.diff", "demo.py"):
    shutil.copy(os.path.join(src, f), dst)
meta = json.load(open(os.path.join(src, "meta.json")))
meta["written_by"] = "independent sub-agent (round " + os.environ.get("MUT_ROUND", "2") + ") given only the property text and a scratch worktree (no access to /verif)"
meta["confirmed_by_hand"] = json.load(open(os.path.join(src, "confirm.json")))
meta["what_was_run"] = ("tools/confirm_mutant.sh (fresh worktree: demo on unchanged tree, apply patch, full pytest, demo again); "
                        "tools/try_mutant.sh patch.diff %s (quick tier, seed 0)" % pid)
meta["caught_by"] = caught
meta["missed_before_strengthening"] = missed
json.dump(meta, open(os.path.join(dst, "meta.json"), "w"), indent=1)
print(dst)
