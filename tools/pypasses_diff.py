"""Differential test of the Lean model of the textual passes of PythonRegex.__init__
(lean/Pfl/Model/PyRegexPasses.lean, driver op rx.pyPasses) against the library.

    cd <verif> && PYTHONPATH=<verif>:/repo /venv/bin/python tools/pypasses_diff.py [N_PER_GENERATOR] [SEED] [N_FUZZ]

N_FUZZ > 0 adds a third stream ("fuzz": random character soup over metacharacters, escapes, control characters),
which leaves the documented subset on purpose: it exercises the error paths (IndexError,
MisformedRegexError), nested "[", "\\b", unterminated "{" and the model's "unsupported" answers.

Patterns are drawn from both generators of harness/props/c07.py (gen_pat: free text, gen_ast+render_ast:
AST stream); patterns rejected by re.compile are skipped.  For each pattern the library's final
`_python_regex` is compared (string equality) with the model's answer.  `PythonRegex(p)` also runs
`Regex.__init__`, which can raise on its own (MisformedRegexError, RecursionError, ...) after the passes
are done; to still observe the text in that case the passes are re-run one by one on a bare instance
(`library_text`), which is also checked to agree with `PythonRegex(p)._python_regex` whenever the
constructor succeeds."""
import random
import re
import sys
import warnings

from pyformlang.regular_expression import PythonRegex
from harness.core import Drv, time_limit, CaseTimeout
from harness.props.c07 import gen_pat, gen_ast, render_ast

warnings.simplefilter("ignore")        # FutureWarning: possible nested set
SHORTCUT_IN_SET = re.compile(r"\[(?:\\.|[^\]\\])*\\[dsw]")
PASSES = ["_replace_shortcuts", "_escape_in_brackets", "_preprocess_brackets", "_preprocess_positive_closure",
          "_preprocess_optional", "_separate"]


def library_text(p, trace=None):
    """the passes of PythonRegex.__init__ without Regex.__init__: ("out", text) | ("err", ExceptionClass)"""
    obj = PythonRegex.__new__(PythonRegex)
    obj._python_regex = p
    try:
        for name in PASSES:
            getattr(obj, name)()
            if trace is not None:
                trace.append(obj._python_regex)
        return ("out", obj._python_regex.lstrip("\b"))
    except CaseTimeout:
        raise
    except Exception as exc:  # pylint: disable=broad-except
        return ("err", type(exc).__name__)


def library(p):
    """(answer of the passes, constructor outcome, consistent?)"""
    lib = library_text(p)
    try:
        full = ("out", PythonRegex(p)._python_regex)
    except CaseTimeout:
        raise
    except RecursionError:
        full = ("err", "RecursionError")
    except Exception as exc:  # pylint: disable=broad-except
        full = ("err", type(exc).__name__)
    # the constructor must show the same text when it succeeds, and must fail when a pass fails
    consistent = (full == lib) if (full[0] == "out" or lib[0] == "err") else True
    return lib, full, consistent


FUZZ_ALPHABET = list("ab19-^[](|)*+?{},.$ dswntbfrx0N\t\n") + ["\\"] * 6 + ["[", "]", "-", "{", "}", "(", ")"] * 2


def patterns(n_each, seed, n_fuzz=0):
    rng = random.Random(seed)
    for _ in range(n_fuzz):
        yield "fuzz", "".join(rng.choice(FUZZ_ALPHABET) for _ in range(rng.randint(1, 12)))
    for _ in range(n_each):
        yield "text", gen_pat(rng, rng.choice([1, 2, 3]))[0]
    for _ in range(n_each):
        yield "ast", render_ast(gen_ast(rng, rng.choice([1, 2, 3])))


def main():
    n_each = int(sys.argv[1]) if len(sys.argv) > 1 else 30000
    seed = int(sys.argv[2]) if len(sys.argv) > 2 else 20260927
    n_fuzz = int(sys.argv[3]) if len(sys.argv) > 3 else 0
    drv = Drv()
    st = {"drawn": 0, "re_rejected": 0, "tried": 0, "equal": 0, "both_error_same": 0, "both_error_other": 0,
          "model_unsupported": 0, "differences": 0, "lib_timeout": 0, "ctor_failed_after_passes": 0,
          "ctor_inconsistent": 0}
    per = {k: dict(tried=0, agree=0, diff=0) for k in ("text", "ast", "fuzz")}
    sis = dict(tried=0, agree=0, diff=0)          # shortcut inside a character set (KF-C07-1 area)
    examples, unsupported_examples, batch = [], [], []

    def flush():
        if not batch:
            return
        answers = drv.call("rx.pyPasses", _timeout=300.0, patterns=[b[1] for b in batch])
        for (stream, p, lib, full), ans in zip(batch, answers):
            st["tried"] += 1
            per[stream]["tried"] += 1
            in_sis = bool(SHORTCUT_IN_SET.search(p))
            if in_sis:
                sis["tried"] += 1
            if full[0] == "err" and lib[0] == "out":
                st["ctor_failed_after_passes"] += 1
            model = ("out", ans["out"]) if "out" in ans else ("err", ans["err"])
            if model == ("err", "unsupported"):
                st["model_unsupported"] += 1
                if len(unsupported_examples) < 10:
                    unsupported_examples.append(p)
                continue
            if model == lib:
                st["equal" if lib[0] == "out" else "both_error_same"] += 1
                ok = True
            elif model[0] == "err" and lib[0] == "err":
                st["both_error_other"] += 1      # both fail, different exception class
                ok = False
            else:
                ok = False
            if ok:
                per[stream]["agree"] += 1
                if in_sis:
                    sis["agree"] += 1
            else:
                st["differences"] += 1
                per[stream]["diff"] += 1
                if in_sis:
                    sis["diff"] += 1
                if len(examples) < 10:
                    examples.append({"pattern": p, "stream": stream, "library": lib, "model": model})
        batch.clear()

    for stream, p in patterns(n_each, seed, n_fuzz):
        st["drawn"] += 1
        try:
            re.compile(p)
        except re.error:
            st["re_rejected"] += 1
            continue
        except RecursionError:
            st["re_rejected"] += 1
            continue
        try:
            with time_limit(20.0):
                lib, full, consistent = library(p)
        except CaseTimeout:
            st["lib_timeout"] += 1
            continue
        if not consistent:
            st["ctor_inconsistent"] += 1
            if len(examples) < 10:
                examples.append({"pattern": p, "stream": stream, "library passes": lib, "constructor": full})
        batch.append((stream, p, lib, full))
        if len(batch) >= 500:
            flush()
    flush()
    drv.close()

    print("patterns drawn                      : %d  (%d per generator, seed %d)" % (st["drawn"], n_each, seed))
    print("rejected by re.compile (skipped)    : %d" % st["re_rejected"])
    print("library timeouts (skipped)          : %d" % st["lib_timeout"])
    print("patterns tried                      : %d  (text %d, ast %d)" % (st["tried"], per["text"]["tried"], per["ast"]["tried"])
          + ("  + fuzz %d" % per["fuzz"]["tried"] if n_fuzz else ""))
    print("  equal final text                  : %d" % st["equal"])
    print("  library raised / model error, same exception class : %d" % st["both_error_same"])
    print("  library raised / model error, different class      : %d  (counted as differences)" % st["both_error_other"])
    print("  model 'unsupported' (out of subset): %d %s" % (st["model_unsupported"], unsupported_examples))
    print("  DIFFERENCES                       : %d  (text %d, ast %d)" % (st["differences"], per["text"]["diff"], per["ast"]["diff"])
          + ("  + fuzz %d" % per["fuzz"]["diff"] if n_fuzz else ""))
    print("shortcut inside a set (KF-C07-1 area): tried %d, agree %d, differ %d" % (sis["tried"], sis["agree"], sis["diff"]))
    print("Regex.__init__ failed after the passes succeeded (text still compared): %d" % st["ctor_failed_after_passes"])
    print("constructor text != pass-by-pass text (harness self-check, must be 0) : %d" % st["ctor_inconsistent"])
    for e in examples:
        print("  EXAMPLE", repr(e))
    return 0 if st["differences"] == 0 and st["ctor_inconsistent"] == 0 else 1


if __name__ == "__main__":
    sys.exit(main())
