#!/bin/sh
# re-run every seeded change against the check of its property (quick tier, seed 0)
cd /verif
for d in seeded/C*/; do
  id=$(basename $d); p=$(echo $id | cut -c1-3)
  if ! git -C /repo apply --check "$PWD/$d/patch.diff" 2>/dev/null; then echo "$id NOAPPLY"; continue; fi
  out=$(tools/try_mutant.sh $d/patch.diff $p 2>&1)
  rc=$(echo "$out" | grep "check exit" | sed 's/check exit=//')
  echo "$id rc=$rc $(echo "$out" | grep tier= | sed 's/.*violations=/violations=/' | cut -c1-60)"
done
