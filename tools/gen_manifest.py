#!/usr/bin/env python3
"""Regenerates MANIFEST.json from the per-property table below (run after adding a check)."""
import json, os, subprocess
V = os.path.dirname(os.path.dirname(os.path.abspath(__file__)))
BASE = json.load(open("/root/.vp/BASELINE.json"))["cmd"].replace("--junitxml=<file>", "").strip()
FIX = subprocess.run("git -C /repo log --format=%H --grep='^fix:' ", shell=True, capture_output=True, text=True).stdout.split()

CLAIMED = {
 "C01": ("proof",
   "accepts = run semantics (acceptsE/N/D_iff), remove_epsilon_transitions, copy, subset construction (toDet_lang, toDet_shape; "
   "for every naming function that separates subsets, in particular the library's ';'-join on clean names: mergeName_keyInj) are "
   "Lean theorems about the faithful model for all automata, words and list orders; the model is tied to /repo by structural "
   "correspondence on every run and each returned automaton is checked by the verified language-equivalence oracle "
   "(langDiff_none_iff). The full claim over names that look like merged names is false (toDet_named_lang_false, KF-C01-1). "
   "minimize: language and shape decided per instance by the oracle (Hopcroft model: see C02). toDet_named_total: the subset "
   "construction with the library's naming always ends within 2^|Q| rounds.",
   "Lean kernel + {propext, Classical.choice, Quot.sound}; Spec in lean/Pfl/Spec/FA.lean; CPython set/dict/str behaviour modelled as lists/strings; "
   "the harness's value<->code table; correspondence only on explored inputs",
   "Lean 4 theorems on a faithful model + differential correspondence + verified equivalence oracle", "6 C01"),
 "C03": ("proof",
   "intersection (inter_lang + pairName_inj), reverse (reverse_lang), complement of deterministic automata (complementRaw_lang) composed "
   "with the subset construction, are theorems about the faithful model; union/concatenate/kleene_star (which go through regex "
   "text) and all seven operations are decided per instance against verified reference constructions (unionA/concatA/starA/"
   "complementRef theorems) by the verified oracle. Pair-name collisions are a proved-false region (pairName_not_inj, KF-C03-1).",
   "as C01; union/concatenate/kleene_star are modelled through state elimination + regex combinator + Thompson (unionR/concatR/starR_lang), their results decided by the oracle",
   "Lean 4 theorems + reference constructions + verified equivalence oracle + correspondence", "6 C03"),
 "C04": ("proof",
   "is_empty, is_deterministic (both classes), is_acyclic, the co-reachability analysis and get_accepted_words (bounded and unbounded) "
   "are each a Lean theorem about the faithful model (isEmpty_iff, isDeterministic*_iff, isAcyclic_iff, mem_leadingToFinal_iff, "
   "acceptedWords_exact[_unbounded]); correspondence compares every return value / yielded multiset with the model and with the "
   "bounded-language oracle (mem_langUpTo_iff).",
   "as C01; isAcyclic_total, acceptedWords_total and acceptedWords_unbounded_total prove termination with explicit bounds (the path exploration of is_acyclic is exponential: isAcyclic_no_polynomial_bound)",
   "Lean 4 theorems on a faithful model + differential correspondence", "6 C04"),
}
PLANNED = {}
for i in range(1, 21):
    pid = "C%02d" % i
    if pid not in CLAIMED:
        PLANNED[pid] = "check not built yet in this round (planned, see DESIGN.md section 6 %s); nothing is claimed" % pid

extra = os.path.join(V, "tools", "manifest_extra.json")
if os.path.exists(extra):
    e = json.load(open(extra))
    for k, v in e.get("claimed", {}).items():
        CLAIMED[k] = tuple(v)
        PLANNED.pop(k, None)
    for k, v in e.get("not_applicable", {}).items():
        PLANNED[k] = v

checks = []
for pid, (cat, text, note, tech, ref) in sorted(CLAIMED.items()):
    checks.append({"property_id": pid, "quick_cmd": "./check %s --tier quick" % pid,
                   "thorough_cmd": "./check %s --tier thorough" % pid,
                   "evidence_file": "evidence/%s.json" % pid,
                   "replay_cmd_template": "./check %s --replay {path}" % pid, "engine": "lean-proofs+harness",
                   "level_claimed": {"category": cat, "text": text, "design_ref": "DESIGN.md section 3, row " + ref.split()[-1]},
                   "level_note": note, "technique": tech})
m = {"version": 1,
     "setup_cmd": "cd lean && lake build Pfl PflDrv drv",
     "hooks": {"guard": "PYFORMLANG_VERIF", "enable": "none needed: the harness observes the library in-process, no source hooks",
               "baseline_off_cmd": BASE, "source_commits": [], "add_only": True,
               "fix_commits": FIX},
     "engines": [
        {"name": "lean-proofs", "path": "lean/Pfl", "serves_properties": sorted(CLAIMED), "kind_free_text": "Lean 4 model, spec, oracles and theorems (lake build; #print axioms audit)"},
        {"name": "drv", "path": "lean/Driver.lean", "serves_properties": sorted(CLAIMED), "kind_free_text": "compiled Lean executable exposing the model and the verified oracles over a JSON line protocol"},
        {"name": "harness", "path": "harness", "serves_properties": sorted(CLAIMED), "kind_free_text": "Python correspondence harness: generators, in-process calls of /repo, canonical forms, verdict logic, evidence"}],
     "checks": checks,
     "not_applicable": [{"property_id": k, "reason": v} for k, v in sorted(PLANNED.items())],
     "notes": "No hook or instrumentation commit exists in /repo (hooks.source_commits is empty; the harness observes the library in-process and patches nothing). Repairs of genuine defects are the unguarded 'fix:' commits listed in hooks.fix_commits (the unedited test suite passes after each); known_findings.json lists the open findings and one 'fixed:' line per repair."}
json.dump(m, open(os.path.join(V, "MANIFEST.json"), "w"), indent=1)
print("claimed", sorted(CLAIMED), "not_applicable", len(PLANNED))
