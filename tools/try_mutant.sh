#!/bin/sh
# usage: tools/try_mutant.sh <patch.diff> <Cxx> [extra check args]   -- applies the patch to /repo, runs the check, reverts
PATCH="$(readlink -f "$1")"; PROP="$2"; shift 2
cd /repo || exit 2
if ! git diff --quiet; then echo "/repo is dirty"; exit 2; fi
git apply "$PATCH" || { echo "patch does not apply"; exit 2; }
cd /verif && ./check "$PROP" --tier quick "$@"; rc=$?
git -C /repo checkout -- . 
echo "check exit=$rc"
exit $rc
