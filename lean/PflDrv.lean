import PflDrv.Json
import PflDrv.FA
import PflDrv.CFG
import PflDrv.PDA
import PflDrv.FST
import PflDrv.Indexed
import PflDrv.Regex
import PflDrv.Feature
