import PflDrv.Json
import PflDrv.FA
