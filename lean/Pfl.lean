import Pfl.Core.Closure
import Pfl.Model.FA
import Pfl.Spec.FA
import Pfl.Oracle.LangEquiv
