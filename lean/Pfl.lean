import Pfl.Core.Closure
import Pfl.Model.FA
import Pfl.Spec.FA
import Pfl.Oracle.LangEquiv
import Pfl.Proofs.FABase
import Pfl.Props.C01
import Pfl.Props.C03
import Pfl.Props.C04
