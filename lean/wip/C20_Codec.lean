/-
C20 — the text codec round-trips every symbol token: a variable or terminal written by `to_text`
is read back by `from_text` as the same symbol, including lower-case variables ("VAR:") and
capitalised terminals ("TER:"), for tokens that are not epsilon spellings.
-/
import Pfl.Model.Codec
namespace Pfl
namespace Codec

/-- a plain token: non-empty, and not itself of the quoted marker form -/
def Plain (s : List Char) : Prop := s ≠ [] ∧ isSpecial s = false

theorem read_varToText (v : List Char) (h : Plain v) : readComponent (varToText v) = .var v := by
  sorry

theorem read_terToText (t : List Char) (h : Plain t) (he : t ∉ epsilonSpellings) :
    readComponent (terToText t) = .ter t := by
  sorry

/-- the marker is what makes the difference: without it a capitalised terminal is read as a variable -/
theorem read_capitalised_unmarked (t : List Char) (c : Char) (rest : List Char) (ht : t = c :: rest)
    (hc : isUpper c = true) (h : Plain t) : readComponent t = .var t := by
  sorry

end Codec
end Pfl
