/-
C07 — end to end on the models: pattern text (rendered from an AST of the documented subset)
→ the seven rewriting passes of `PythonRegex` (`Pfl/Model/PyRegexPasses.lean`) → the reader of
`Regex` (`Pfl/Model/Regex.lean`) yields a tree that denotes exactly the meaning of the pattern
(`Pfl/Model/PyRegex.lean`: `Matches` over Python's printable characters).
Staged by the size of the fragment; every stage is a statement about ALL patterns of its fragment.
-/
import Pfl.Model.PyRegexPasses
import Pfl.Model.PyRender
import Pfl.Model.Regex
import Pfl.Spec.Regex
import Pfl.Props.C07_Desugar
namespace Pfl
namespace PyRx

/-- the tree `PythonRegex(text)` ends up with: passes, then the reader -/
def pythonRegexTree (text : List Char) (fuel : Nat) : Option Rx :=
  match PyPass.transform text with
  | .ok t =>
    match RegexReader.parse fuel t with
    | .ok r => some r
    | .error _ => none
  | .error _ => none

def printable : List Char := PyPass.printables

def plainLit (c : Char) : Bool := c.isAlphanum

/-- stage 1: plain letters and digits, concatenation, alternation, star -/
def Stage1 : P → Prop
  | .lit c => plainLit c = true
  | .cat a b => Stage1 a ∧ Stage1 b
  | .alt a b => Stage1 a ∧ Stage1 b
  | .star a => Stage1 a
  | _ => False

/-- stage 2: stage 1 plus `+`, `?`, `{m}`, `{m,n}` (with `m ≤ n`) -/
def Stage2 : P → Prop
  | .lit c => plainLit c = true
  | .cat a b => Stage2 a ∧ Stage2 b
  | .alt a b => Stage2 a ∧ Stage2 b
  | .star a => Stage2 a
  | .plus a => Stage2 a
  | .opt a => Stage2 a
  | .rep a m n => Stage2 a ∧ m ≤ n
  | _ => False

/-- stage 3: stage 2 plus every printable literal (escaped metacharacters included), `.`, `\d \s \w` -/
def Stage3 : P → Prop
  | .lit c => c ∈ printable
  | .dot => True
  | .short k => k = 'd' ∨ k = 's' ∨ k = 'w'
  | .cat a b => Stage3 a ∧ Stage3 b
  | .alt a b => Stage3 a ∧ Stage3 b
  | .star a => Stage3 a
  | .plus a => Stage3 a
  | .opt a => Stage3 a
  | .rep a m n => Stage3 a ∧ m ≤ n
  | .set _ _ => False

/-- stage 4: stage 3 plus character sets and negated sets over printable characters with
ranges `lo ≤ hi` (no shortcut inside a set: known finding KF-C07-1), sets non-empty -/
def GoodItem : Item → Prop
  | .ch c => c ∈ printable ∧ c ≠ '\n'
  | .range lo hi => lo ∈ printable ∧ hi ∈ printable ∧ lo.toNat ≤ hi.toNat ∧ lo.toNat ≥ 33 ∧ hi.toNat ≤ 126
  | .short _ => False

def Stage4 : P → Prop
  | .lit c => c ∈ printable
  | .dot => True
  | .short k => k = 'd' ∨ k = 's' ∨ k = 'w'
  | .set _ items => items ≠ [] ∧ ∀ it ∈ items, GoodItem it
  | .cat a b => Stage4 a ∧ Stage4 b
  | .alt a b => Stage4 a ∧ Stage4 b
  | .star a => Stage4 a
  | .plus a => Stage4 a
  | .opt a => Stage4 a
  | .rep a m n => Stage4 a ∧ m ≤ n

/-- what is claimed for a fragment `S` -/
def Correct (S : P → Prop) : Prop :=
  ∀ p, S p → ∃ fuel r, pythonRegexTree (render p .top) fuel = some r ∧
    ∀ w : List Char, (∀ c ∈ w, c ∈ printable) → (Rx.Denote r (word w) ↔ Matches printable p w)

theorem pythonRegex_correct_stage1 : Correct Stage1 := by
  sorry

theorem pythonRegex_correct_stage2 : Correct Stage2 := by
  sorry

theorem pythonRegex_correct_stage3 : Correct Stage3 := by
  sorry

theorem pythonRegex_correct_stage4 : Correct Stage4 := by
  sorry

end PyRx
end Pfl
