/-
C05 — `Regex.to_cfg` generates exactly the denoted language, for every tree and every start
symbol that is not one of the manufactured node names.
-/
import Pfl.Model.RegexToCFG
import Pfl.Spec.Regex
import Pfl.Spec.CFG
namespace Pfl
namespace Rx

theorem toCFG_lang (r : Rx) (start : String) (hstart : ∀ k, start ≠ nodeName k) (w : List String) :
    (r.toCFG start).Lang w ↔ Denote r w := by
  sorry

theorem toCFG_wf (r : Rx) (start : String) : (r.toCFG start).WF := by
  sorry

end Rx
end Pfl
