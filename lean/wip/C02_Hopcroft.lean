/-
C02 — the library's own refinement loop (`_get_partition`, modelled step for step in
`Pfl/Model/Hopcroft.lean`) computes the Nerode partition, and terminates within an explicit
number of iterations.
-/
import Pfl.Model.Hopcroft
import Pfl.Props.C02_Min
namespace Pfl
namespace ENFA
variable {σ : Type} [DecidableEq σ]

/-- Hopcroft's loop ends with the Nerode classes of `states ∪ {trash}` (the class of final
states may be empty when there is no final state, hence the filter) -/
theorem hopcroft_isNerodePartition (A : ENFA σ) (hA : A.WF) (hd : A.Deterministic) (he : A.EpsFree)
    (hnd : A.states.Nodup) (fuel : Nat) (gs : List (List (Option σ)))
    (h : A.hopcroft fuel = some gs) : A.IsNerodePartition (gs.filter (· ≠ [])) := by
  sorry

/-- the groups are pairwise disjoint lists without repetition (what `to_new_states` relies on) -/
theorem hopcroft_groups_nodup (A : ENFA σ) (hnd : A.states.Nodup) (fuel : Nat)
    (gs : List (List (Option σ))) (h : A.hopcroft fuel = some gs) :
    (gs.flatMap id).Nodup := by
  sorry

/-- termination: every pop is paid for by an initial insertion or by a split, and there are at most
`|states|` splits -/
theorem hopcroft_isSome (A : ENFA σ) (hnd : A.states.Nodup) (fuel : Nat)
    (hfuel : A.syms.length * (A.states.length + 2) < fuel) : (A.hopcroft fuel).isSome := by
  sorry

end ENFA
end Pfl
