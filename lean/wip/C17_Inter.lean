/-
C17 — the intersection of an indexed grammar with a regular language (triple construction over
the states of the identity transducer, model `Pfl/Model/IndexedInter.lean`) is non-empty exactly
when some word derivable from "S" with the empty stack is accepted (read) by the transducer.
-/
import Pfl.Model.IndexedInter
import Pfl.Spec.Indexed
import Pfl.Spec.FST
import Pfl.Proofs.FSTLemmas
import Pfl.Props.C17_Indexed
namespace Pfl
namespace IG
variable {σ : Type} [DecidableEq σ]

/-- name hygiene assumed by the construction (all satisfied by grammars whose non-terminals are
plain identifiers other than "T", whose terminals are not non-terminals, and transducer states
printed without quotes, commas or parentheses) -/
structure InterOK (T : FST σ) (rs : σ → String) (G : IG) : Prop where
  start : G.start = "S"
  wf : T.WF
  tripleInj : ∀ p x q p' x' q', p ∈ T.states → q ∈ T.states → p' ∈ T.states → q' ∈ T.states →
    tripleStr rs p x q = tripleStr rs p' x' q' → p = p' ∧ x = x' ∧ q = q'
  tripleNotS : ∀ p x q, tripleStr rs p x q ≠ "S"
  tripleNotT : ∀ p x q, tripleStr rs p x q ≠ "T"
  ntNotT : "T" ∉ G.nonTerminals
  /-- terminals, index symbols and "epsilon" are not non-terminals of the grammar -/
  disj : ∀ x ∈ "epsilon" :: G.ruleTerminals, x ∉ G.nonTerminals
  /-- "epsilon" is not an input symbol of the transducer -/
  inNotEps : ∀ t ∈ T.delta, t.2.1 ≠ some "epsilon"

theorem inter_nonEmpty (T : FST σ) (rs : σ → String) (G : IG) (h : InterOK T rs G) :
    (inter T rs G).NonEmpty ↔ ∃ w, G.Gen "S" [] w ∧ ∃ o, T.Rel w o := by
  sorry

/-- words and plain derivability agree -/
theorem derivable_iff_gen (G : IG) (a : String) (st : List String) :
    G.Derivable a st ↔ ∃ w, G.Gen a st w := by
  sorry

end IG
end Pfl
