/- Driver handlers for the regex model. -/
import PflDrv.FA
import Pfl.Model.Regex
import Pfl.Model.ToRegex
import Pfl.Model.RegexToCFG
import Pfl.Model.PyRegex
import Pfl.Model.PyRender
import Pfl.Model.PyRegexPasses
import Pfl.Model.RegexObject
import PflDrv.CFG
open Lean Pfl
namespace PflDrv

partial def asRx (j : Json) : R Rx := do
  match ← asArr j with
  | [k] => match ← asStr k with
    | "eps" => pure .eps
    | "empty" => pure .empty
    | _ => throw "bad rx"
  | [k, a] => match ← asStr k with
    | "sym" => pure (.sym (← asStr a))
    | "star" => pure (.star (← asRx a))
    | _ => throw "bad rx"
  | [k, a, b] => match ← asStr k with
    | "cat" => pure (.cat (← asRx a) (← asRx b))
    | "alt" => pure (.alt (← asRx a) (← asRx b))
    | _ => throw "bad rx"
  | _ => throw "bad rx"

def jRx : Rx → Json
  | .empty => Json.arr #[jStr "empty"]
  | .eps => Json.arr #[jStr "eps"]
  | .sym s => Json.arr #[jStr "sym", jStr s]
  | .cat a b => Json.arr #[jStr "cat", jRx a, jRx b]
  | .alt a b => Json.arr #[jStr "alt", jRx a, jRx b]
  | .star a => Json.arr #[jStr "star", jRx a]

def rxSyms : Rx → List String
  | .sym s => [s]
  | .cat a b => rxSyms a ++ rxSyms b
  | .alt a b => rxSyms a ++ rxSyms b
  | .star a => rxSyms a
  | _ => []

def codeOf (tbl : List String) (s : String) : Nat :=
  ((tbl.zip (List.range tbl.length)).findSome? fun e => if e.1 = s then some e.2 else none).getD tbl.length

def asChar (j : Json) : R Char := do
  match (← asStr j).toList with
  | [c] => pure c
  | _ => throw "expected a one-character string"

def asItem (j : Json) : R PyRx.Item := do
  match ← asArr j with
  | [k, a] => match ← asStr k with
    | "c" => pure (.ch (← asChar a))
    | "s" => pure (.short (← asChar a))
    | _ => throw "bad set item"
  | [k, a, b] => match ← asStr k with
    | "r" => pure (.range (← asChar a) (← asChar b))
    | _ => throw "bad set item"
  | _ => throw "bad set item"

partial def asPy (j : Json) : R PyRx.P := do
  match ← asArr j with
  | [k] => match ← asStr k with
    | "dot" => pure .dot
    | _ => throw "bad pattern"
  | [k, a] => match ← asStr k with
    | "lit" => pure (.lit (← asChar a))
    | "short" => pure (.short (← asChar a))
    | "star" => pure (.star (← asPy a))
    | "plus" => pure (.plus (← asPy a))
    | "opt" => pure (.opt (← asPy a))
    | _ => throw "bad pattern"
  | [k, a, b] => match ← asStr k with
    | "cat" => pure (.cat (← asPy a) (← asPy b))
    | "alt" => pure (.alt (← asPy a) (← asPy b))
    | "set" => pure (.set (← asBool a) (← (← asArr b).mapM asItem))
    | _ => throw "bad pattern"
  | [k, a, m, n] => match ← asStr k with
    | "rep" => pure (.rep (← asPy a) (← asNat m) (← asNat n))
    | _ => throw "bad pattern"
  | _ => throw "bad pattern"

/-- an operation of a history on regex objects (`Pfl/Model/RegexObject.lean`) -/
def asRxObjOp (j : Json) : R RxObj.Op := do
  match ← asStr (← field j "op") with
  | "new" => pure (.new (← asRx (← field j "tree")))
  | "union" => pure (.union (← asNat (← field j "i")) (← asNat (← field j "j")))
  | "concat" => pure (.concat (← asNat (← field j "i")) (← asNat (← field j "j")))
  | "star" => pure (.star (← asNat (← field j "i")))
  | "toENFA" => pure (.toENFA (← asNat (← field j "i")))
  | "accepts" => pure (.accepts (← asNat (← field j "i")) (← asStrList (← field j "w")))
  | o => throw s!"bad regex object op {o}"

def jRxObjOut : RxObj.Out → Json
  | .addr i => Json.mkObj [("addr", jNat i)]
  | .fa A => Json.mkObj [("fa", jENFA jNat A)]
  | .bool b => Json.mkObj [("bool", jBool b)]

/-- the hidden state: per object its counter, its sons and the cached automaton -/
def jRxHeap (H : RxObj.Heap) : Json :=
  jList (fun (o : RxObj.Obj) => Json.mkObj [("counter", jNat o.counter), ("sons", jNatList o.sons),
    ("acc", jOpt (jENFA jNat) o.acc)]) H

/-- a history from the empty heap: after every call the answer and the heap -/
def rxObjRun (code : String → Nat) : RxObj.Heap → List RxObj.Op → List Json
  | _, [] => []
  | H, op :: ops =>
    match RxObj.step code (H.length + 200) H op with
    | none => [Json.null]
    | some (o, H1) => Json.mkObj [("out", jRxObjOut o), ("heap", jRxHeap H1)] :: rxObjRun code H1 ops

def rxHandle (op : String) (j : Json) : R Json := do
  match op with
  | "rx.parse" =>
    let text ← asStr (← field j "text")
    match RegexReader.parse 200 text.toList with
    | .ok t => pure (Json.mkObj [("tree", jRx t)])
    | .error .misformed => pure (Json.mkObj [("err", jStr "MisformedRegexError")])
    | .error .index => pure (Json.mkObj [("err", jStr "IndexError")])
    | .error .fuel => pure (Json.mkObj [("err", jStr "fuel")])
  | "rx.matches" =>   -- oracle
    let t ← asRx (← field j "tree")
    let ws ← (← asArr (← field j "words")).mapM asStrList
    pure (jList jBool (ws.map t.matches))
  | "rx.repr" =>
    let t ← asRx (← field j "tree")
    pure (jStr t.repr')
  | "rx.thompson" =>
    let t ← asRx (← field j "tree")
    let names ← asStrList (← field j "symNames")
    let c ← asNat (← field j "counter")
    let (A, c') := t.thompson (codeOf names) c
    pure (Json.mkObj [("fa", jENFA jNat A), ("counter", jNat c')])
  | "rx.objRun" =>   -- model of Regex objects: a history of public calls (C19)
    let names ← asStrList (← field j "symNames")
    let ops ← (← asArr (← field j "ops")).mapM asRxObjOp
    pure (Json.arr (rxObjRun (codeOf names) [] ops).toArray)
  | "rx.equiv" =>   -- oracle: same language?
    let t1 ← asRx (← field j "t1")
    let t2 ← asRx (← field j "t2")
    let tbl := (rxSyms t1 ++ rxSyms t2).eraseDups
    let A := (t1.thompson (codeOf tbl) 0).1
    let B := (t2.thompson (codeOf tbl) 0).1
    match A.langDiff B bigFuel with
    | none => throw "fuel"
    | some r => pure (Json.mkObj [("equiv", jBool r.isNone),
        ("word", jOpt (jList jStr) (r.map fun w => w.map fun k => tbl.getD k "?"))])
  | "rx.faEquiv" =>   -- oracle: automaton (symbols named by symNames) against a tree
    let t ← asRx (← field j "tree")
    let A ← asENFA (← field j "A")
    let names ← asStrList (← field j "symNames")
    let tbl := (names ++ rxSyms t).eraseDups
    let B := (t.thompson (codeOf tbl) 0).1
    checkWF A
    match A.langDiff B bigFuel with
    | none => throw "fuel"
    | some r => pure (Json.mkObj [("equiv", jBool r.isNone),
        ("word", jOpt (jList jStr) (r.map fun w => w.map fun k => tbl.getD k "?"))])
  | "rx.py" =>   -- reference translation of the Python subset + its (verified) matcher
    let p ← asPy (← field j "pattern")
    let u ← asStr (← field j "universe")
    let ss ← asStrList (← field j "strings")
    let t := PyRx.desugar u.toList p
    pure (Json.mkObj [("tree", jRx t), ("text", jStr (String.ofList (PyRx.render p .top))),
      ("matches", jList (fun (x : String) => jBool (t.matches (x.toList.map String.singleton))) ss)])
  | "rx.toCFG" =>   -- model of Regex.to_cfg
    let t ← asRx (← field j "tree")
    let start ← asStr (← field j "start")
    pure (jCFG (t.toCFG start))
  | "rx.toRegex" =>   -- tree-level model of EpsilonNFA.to_regex
    let A ← asENFA (← field j "A")
    let names ← asStrList (← field j "symNames")
    -- orders: list of [final, [state | null, ...]]
    let orders ← (← asArr (← field j "orders")).mapM fun e => do
      match ← asArr e with
      | [f, l] => pure ((← asNat f), (← (← asArr l).mapM fun x => if x.isNull then pure none else some <$> asNat x))
      | _ => throw "bad order"
    let order : Nat → List (Option Nat) := fun f => ((orders.find? (·.1 = f)).map (·.2)).getD []
    pure (jRx (A.toRegexRx (fun k => names.getD k "?") order))
  | "rx.pyPasses" =>   -- model of the textual passes of PythonRegex.__init__ (Pfl/Model/PyRegexPasses.lean)
    -- answer per pattern: {"out": str} | {"err": "unsupported" | "MisformedRegexError" | "IndexError"};
    -- with "trace": true also the string after each of the six passes
    let ps ← asStrList (← field j "patterns")
    let tr := (fieldD j "trace" (jBool false)).getBool?.toOption.getD false
    let jRes : Except PyPass.Err PyPass.Tok → Json
      | .ok s => Json.mkObj [("out", jStr (String.ofList s))]
      | .error .unsupported => Json.mkObj [("err", jStr "unsupported")]
      | .error .misformed => Json.mkObj [("err", jStr "MisformedRegexError")]
      | .error .indexError => Json.mkObj [("err", jStr "IndexError")]
    pure (jList (fun (p : String) =>
      let r := jRes (PyPass.transform p.toList)
      if tr then r.setObjVal! "trace" (jList jRes (PyPass.trace p.toList)) else r) ps)
  | _ => throw s!"unknown op {op}"

end PflDrv
