/- Driver handlers for the character-level model of CFG.to_text / from_text. -/
import PflDrv.Json
import Pfl.Model.TextCodec
import Pfl.Model.Ebnf
open Lean Pfl
namespace PflDrv

def asTSym (j : Json) : R TextCodec.TSym := do
  match ← asArr j with
  | [k, v] =>
    let k ← asStr k
    let v ← asStr v
    if k == "v" then pure (.var v.toList) else pure (.ter v.toList)
  | _ => throw "bad symbol"

def jTSym : TextCodec.TSym → Json
  | .var v => Json.arr #[jStr "v", jStr (String.ofList v)]
  | .ter t => Json.arr #[jStr "t", jStr (String.ofList t)]

def asTProd (j : Json) : R TextCodec.TProd := do
  match ← asArr j with
  | [h, b] => pure ((← asStr h).toList, (← (← asArr b).mapM asTSym))
  | _ => throw "bad production"

def jTProd (p : TextCodec.TProd) : Json := Json.arr #[jStr (String.ofList p.1), jList jTSym p.2]

def txtHandle (op : String) (j : Json) : R Json := do
  match op with
  | "txt.toText" =>      -- `upper`: the characters for which Python's str.isupper() holds, among those used
    let prods ← (← asArr (← field j "prods")).mapM asTProd
    let upper := (← asStr (← field j "upper")).toList
    pure (jStr (String.ofList (TextCodec.toText (fun c => upper.contains c) prods)))
  | "txt.lines" =>
    let prods ← (← asArr (← field j "prods")).mapM asTProd
    let upper := (← asStr (← field j "upper")).toList
    pure (jList (fun p => jStr (String.ofList (TextCodec.lineOf (fun c => upper.contains c) p))) prods)
  | "txt.fromText" =>
    let texts ← asStrList (← field j "texts")
    pure (jList (fun (t : String) => jOpt (jList jTProd) (TextCodec.fromText t.toList)) texts)
  | "txt.ebnf" =>     -- the `productions` dict of RecursiveAutomaton.from_ebnf: head -> text handed to Regex
    let texts ← asStrList (← field j "texts")
    pure (jList (fun (t : String) => jOpt (jList (fun (e : List Char × List Char) =>
      Json.arr #[jStr (String.ofList e.1), jStr (String.ofList e.2)])) (Ebnf.bodies t.toList)) texts)
  | "txt.split" =>
    let texts ← asStrList (← field j "texts")
    pure (jList (fun (t : String) => Json.mkObj [
      ("lines", jList (fun l => jStr (String.ofList l)) (TextCodec.splitLines t.toList)),
      ("strip", jStr (String.ofList (TextCodec.strip t.toList))),
      ("words", jList (fun l => jStr (String.ofList l)) (TextCodec.splitWs t.toList))]) texts)
  | _ => throw s!"unknown op {op}"

end PflDrv
