/- Driver handlers for the networkx label codecs. -/
import PflDrv.Json
import Pfl.Model.LabelCodec
open Lean Pfl
namespace PflDrv

def labHandle (op : String) (j : Json) : R Json := do
  match op with
  | "lab.pda" =>   -- parts: [[i, f, t], ...] JSON texts
    let parts ← (← asArr (← field j "parts")).mapM asStrList
    pure (jList (fun (p : List String) =>
      match p with
      | [i, f, t] =>
        let l := LabelCodec.pdaLabel i.toList f.toList t.toList
        Json.mkObj [("label", jStr (String.ofList l)),
          ("read", match LabelCodec.readPdaLabel l with
            | some (a, b, c) => Json.arr #[jStr (String.ofList a), jStr (String.ofList b), jStr (String.ofList c)]
            | none => Json.null)]
      | _ => Json.null) parts)
  | "lab.fst" =>
    let parts ← (← asArr (← field j "parts")).mapM asStrList
    pure (jList (fun (p : List String) =>
      match p with
      | [i, o] =>
        let l := LabelCodec.fstLabel i.toList o.toList
        Json.mkObj [("label", jStr (String.ofList l)),
          ("read", match LabelCodec.readFstLabel l with
            | some (a, b) => Json.arr #[jStr (String.ofList a), jStr (String.ofList b)]
            | none => Json.null)]
      | _ => Json.null) parts)
  | "lab.split" =>
    let sep ← asStr (← field j "sep")
    let ss ← asStrList (← field j "texts")
    pure (jList (fun (s : String) => jList (fun x => jStr (String.ofList x)) (LabelCodec.split sep.toList s.toList)) ss)
  | _ => throw s!"unknown op {op}"

end PflDrv
