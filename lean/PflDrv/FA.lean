/- Driver handlers for the finite-automaton model and oracles. -/
import PflDrv.Json
import Pfl.Spec.FA
import Pfl.Oracle.LangEquiv
import Pfl.Oracle.RegOps
import Pfl.Model.Names
open Lean Pfl
namespace PflDrv

def mergeName (names : Nat → String) (S : List Nat) : String :=
  String.ofList (Names.mergeName (fun q => (names q).toList) S)

def pairName (na : Nat → String) (nb : Nat → String) (p : Nat × Nat) : String :=
  String.ofList (Names.pairName (fun q => (na q).toList) (fun q => (nb q).toList) p)

def nameFn (names : List String) (n : Nat) : String := names.getD n s!"?{n}"

def bigFuel : Nat := 1000000

def checkWF (A : ENFA Nat) : R Unit :=
  if decide A.WF then pure () else throw "automaton not well-formed (states/symbols not covering)"

def faHandle (op : String) (j : Json) : R Json := do
  match op with
  | "fa.accepts" =>
    let A ← asENFA (← field j "A")
    let cls ← asStr (← field j "cls")
    let ws ← (← asArr (← field j "words")).mapM asOptNatList
    let f := match cls with
      | "E" => A.acceptsE | "N" => A.acceptsN | _ => A.acceptsD
    pure (jList jBool (ws.map f))
  | "fa.member" =>   -- oracle: spec-level membership (acceptsE is proved equal to Lang)
    let A ← asENFA (← field j "A")
    checkWF A
    let ws ← (← asArr (← field j "words")).mapM asNatList
    pure (jList jBool (ws.map A.member))
  | "fa.eclose" =>
    let A ← asENFA (← field j "A")
    let qs ← asNatList (← field j "qs")
    pure (jList jNatList (qs.map A.eclose))
  | "fa.removeEps" =>
    let A ← asENFA (← field j "A")
    pure (jENFA jNat A.removeEps)
  | "fa.copy" =>
    let A ← asENFA (← field j "A")
    let cls ← asStr (← field j "cls")
    pure (jENFA jNat (if cls == "D" then A.copyD else A.copyE))
  | "fa.toDet" =>
    let A ← asENFA (← field j "A")
    let names ← asStrList (← field j "names")
    let useE ← asBool (← field j "useE")
    match A.toDet (mergeName (nameFn names)) useE bigFuel with
    | none => throw "fuel"
    | some D => pure (jENFA jStr D)
  | "fa.inter" =>
    let A ← asENFA (← field j "A")
    let B ← asENFA (← field j "B")
    let na ← asStrList (← field j "namesA")
    let nb ← asStrList (← field j "namesB")
    match A.inter B bigFuel with
    | none => throw "fuel"
    | some P => pure (jENFA jStr (P.mapStates (pairName (nameFn na) (nameFn nb))))
  | "fa.reverse" =>
    let A ← asENFA (← field j "A")
    pure (jENFA jNat A.reverse)
  | "fa.complementRaw" =>
    let A ← asENFA (← field j "A")
    let cls ← asStr (← field j "cls")
    let trash ← asNat (← field j "trash")
    pure (jENFA jNat (A.complementRaw (if cls == "D" then A.copyD else A.copyE) trash))
  | "fa.preds" =>
    let A ← asENFA (← field j "A")
    pure (Json.mkObj [("isEmpty", jBool A.isEmpty), ("isDetE", jBool A.isDeterministicE),
      ("isDetN", jBool A.isDeterministicN),
      ("isAcyclic", jOpt jBool (A.isAcyclic 200000)),
      ("leading", jNatList A.leadingToFinal)])
  | "fa.words" =>
    let A ← asENFA (← field j "A")
    let mx ← asOptNat (← field j "max")
    match A.acceptedWords mx 200000 with
    | none => pure Json.null
    | some ws => pure (jList jNatList ws)
  | "fa.diff" =>   -- oracle
    let A ← asENFA (← field j "A")
    let B ← asENFA (← field j "B")
    checkWF A; checkWF B
    match A.langDiff B bigFuel with
    | none => throw "fuel"
    | some r => pure (Json.mkObj [("equiv", jBool r.isNone), ("word", jOpt jNatList r)])
  | "fa.langUpTo" =>   -- oracle
    let A ← asENFA (← field j "A")
    checkWF A
    let n ← asNat (← field j "n")
    pure (jList jNatList (A.langUpTo n))
  | "fa.cycle" =>   -- oracle
    let A ← asENFA (← field j "A")
    checkWF A
    pure (jBool A.reachableCycle)
  | _ => throw s!"unknown op {op}"

end PflDrv
