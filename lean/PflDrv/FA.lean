/- Driver handlers for the finite-automaton model and oracles. -/
import PflDrv.Json
import Pfl.Spec.FA
import Pfl.Oracle.LangEquiv
import Pfl.Oracle.RegOps
import Pfl.Model.Names
import Pfl.Model.Minimize
import Pfl.Model.Hopcroft
import Pfl.Model.FAObject
open Lean Pfl
namespace PflDrv

def mergeName (names : Nat → String) (S : List Nat) : String :=
  String.ofList (Names.mergeName (fun q => (names q).toList) S)

def pairName (na : Nat → String) (nb : Nat → String) (p : Nat × Nat) : String :=
  String.ofList (Names.pairName (fun q => (na q).toList) (fun q => (nb q).toList) p)

def nameFn (names : List String) (n : Nat) : String := names.getD n s!"?{n}"

def bigFuel : Nat := 1000000

def checkWF (A : ENFA Nat) : R Unit :=
  if decide A.WF then pure () else throw "automaton not well-formed (states/symbols not covering)"

/-- the trash state's name: "TrashNode", "TrashNode0", "TrashNode1", … first one not in use -/
def freshTrash (used : List String) : String :=
  if "TrashNode" ∉ used then "TrashNode" else
    match (List.range (used.length + 1)).find? (fun i => s!"TrashNode{i}" ∉ used) with
    | some i => s!"TrashNode{i}"
    | none => "TrashNode?"

/-- `get_complement` after the repairs: determinise first unless deterministic with a start state;
fresh trash name. Left = original states (Nat codes; `trash` is a fresh code), right = merged names.
Also returns the trash state's name. -/
def complementModel (A : ENFA Nat) (cls : String) (names : Nat → String) (trash : Nat) :
    R (Bool × ENFA (Nat ⊕ String) × String) := do
  let det := match cls with
    | "D" => true
    | "N" => A.isDeterministicN
    | _ => A.isDeterministicE
  if !A.starts.isEmpty && det then
    let C := if cls == "D" then A.copyD else A.copyE
    pure (true, (A.complementRaw C trash).mapStates Sum.inl, freshTrash (A.states.map names))
  else match A.toDet (mergeName names) true bigFuel with
    | none => throw "fuel"
    | some D =>
      let D' := D.addSyms A.syms
      let t := freshTrash D'.states
      pure (false, (D'.complementRaw D'.copyD t).mapStates Sum.inr, t)

/-- `to_single_state` on a partition group: `None` prints as "TRASH" -/
def groupName {σ} (names : σ → String) (g : List (Option σ)) : String :=
  String.ofList (Names.mergeName (fun q : Option σ => match q with
    | none => "TRASH".toList
    | some q => (names q).toList) g)

def minimizeNamed {σ} [DecidableEq σ] (A : ENFA σ) (names : σ → String) : R (ENFA String) :=
  match A.nerodeGroups bigFuel with
  | none => throw "fuel"
  | some gs => pure (A.minimizeOf gs (groupName names) "Empty")

def jSum : Nat ⊕ String → Json
  | .inl n => jNat n
  | .inr s => jStr s

/-- a mutator call of a history on an automaton object (`Pfl/Model/FAObject.lean`) -/
def asFAObjOp (j : Json) : R FAObj.Op := do
  match ← asArr j with
  | [k, q, a, r] => match ← asStr k with
    | "add_t" => pure (.addT (← asNat q) (← asOptNat a) (← asNat r))
    | "rm_t" => pure (.remT (← asNat q) (← asOptNat a) (← asNat r))
    | o => throw s!"bad automaton object op {o}"
  | [k, q] => match ← asStr k with
    | "add_s" => pure (.addStart (← asNat q))
    | "rm_s" => pure (.remStart (← asNat q))
    | "add_f" => pure (.addFinal (← asNat q))
    | "rm_f" => pure (.remFinal (← asNat q))
    | "add_y" => pure (.addSym (← asNat q))
    | o => throw s!"bad automaton object op {o}"
  | _ => throw "bad automaton object op"

def jFAObj (o : FAObj.Obj) : Json :=
  Json.mkObj [("states", jNatList o.states), ("syms", jNatList o.syms), ("starts", jNatList o.starts),
    ("finals", jNatList o.finals),
    ("trans", jList (fun (e : Nat × List (Option Nat × List Nat)) =>
      Json.arr #[jNat e.1, jList (fun (f : Option Nat × List Nat) => Json.arr #[jOpt jNat f.1, jNatList f.2]) e.2]) o.trans),
    ("num", jNat (FAObj.numTransitions o.trans)), ("tfdet", jBool (FAObj.tfDeterministic o.trans)),
    ("edges", jList (fun (t : Nat × Option Nat × Nat) => Json.arr #[jNat t.1, jOpt jNat t.2.1, jNat t.2.2]) (FAObj.edges o.trans))]

/-- a history on one object: after every call the returned integer (or the exception) and the object -/
def faObjRun : FAObj.Obj → List FAObj.Op → List Json
  | _, [] => []
  | o, op :: ops =>
    match FAObj.step o op with
    | .ok (o', n) => Json.mkObj [("out", jNat n), ("obj", jFAObj o')] :: faObjRun o' ops
    | .error e => Json.mkObj [("err", jStr (match e with
        | .epsilon => "InvalidEpsilonTransition" | .duplicate => "DuplicateTransitionError")), ("obj", jFAObj o)]
        :: faObjRun o ops

def faHandle (op : String) (j : Json) : R Json := do
  match op with
  | "fa.accepts" =>
    let A ← asENFA (← field j "A")
    let cls ← asStr (← field j "cls")
    let ws ← (← asArr (← field j "words")).mapM asOptNatList
    let f := match cls with
      | "E" => A.acceptsE | "N" => A.acceptsN | _ => A.acceptsD
    pure (jList jBool (ws.map f))
  | "fa.objRun" =>   -- model of an automaton object edited through its API (C19)
    let det ← asBool (← field j "det")
    let ops ← (← asArr (← field j "ops")).mapM asFAObjOp
    -- "init": the sets given to the constructor (absent: the constructor called without arguments)
    let o₀ ← match (j.getObjVal? "init").toOption with
      | none => pure (FAObj.new det)
      | some i => do
        let T ← match (i.getObjVal? "trans").toOption with
          | none => pure ([] : FAObj.Table)
          | some t => (← asArr t).mapM fun e => do
            match ← asArr e with
            | [q, row] => do
              let r ← (← asArr row).mapM fun f => do
                match ← asArr f with
                | [a, ts] => pure ((← asOptNat a), (← asNatList ts))
                | _ => throw "bad table row"
              pure ((← asNat q), r)
            | _ => throw "bad table"
        pure (FAObj.mkT det (← asNatList (← field i "states")) (← asNatList (← field i "syms"))
          (← asNatList (← field i "starts")) (← asNatList (← field i "finals")) T)
    pure (Json.mkObj [("init", jFAObj o₀), ("steps", Json.arr (faObjRun o₀ ops).toArray)])
  | "fa.member" =>   -- oracle: spec-level membership (acceptsE is proved equal to Lang)
    let A ← asENFA (← field j "A")
    checkWF A
    let ws ← (← asArr (← field j "words")).mapM asNatList
    pure (jList jBool (ws.map A.member))
  | "fa.eclose" =>
    let A ← asENFA (← field j "A")
    let qs ← asNatList (← field j "qs")
    pure (jList jNatList (qs.map A.eclose))
  | "fa.removeEps" =>
    let A ← asENFA (← field j "A")
    pure (jENFA jNat A.removeEps)
  | "fa.copy" =>
    let A ← asENFA (← field j "A")
    let cls ← asStr (← field j "cls")
    pure (jENFA jNat (if cls == "D" then A.copyD else A.copyE))
  | "fa.toDet" =>
    let A ← asENFA (← field j "A")
    let names ← asStrList (← field j "names")
    let useE ← asBool (← field j "useE")
    match A.toDet (mergeName (nameFn names)) useE bigFuel with
    | none => throw "fuel"
    | some D => pure (jENFA jStr D)
  | "fa.inter" =>
    let A ← asENFA (← field j "A")
    let B ← asENFA (← field j "B")
    let na ← asStrList (← field j "namesA")
    let nb ← asStrList (← field j "namesB")
    match A.inter B bigFuel with
    | none => throw "fuel"
    | some P => pure (jENFA jStr (P.mapStates (pairName (nameFn na) (nameFn nb))))
  | "fa.reverse" =>
    let A ← asENFA (← field j "A")
    pure (jENFA jNat A.reverse)
  | "fa.complementRaw" =>
    let A ← asENFA (← field j "A")
    let cls ← asStr (← field j "cls")
    let trash ← asNat (← field j "trash")
    pure (jENFA jNat (A.complementRaw (if cls == "D" then A.copyD else A.copyE) trash))
  | "fa.complement" =>
    let A ← asENFA (← field j "A")
    let cls ← asStr (← field j "cls")
    let names ← asStrList (← field j "names")
    let trash ← asNat (← field j "trash")
    let (det, C, t) ← complementModel A cls (nameFn names) trash
    pure (Json.mkObj [("det", jBool det), ("fa", jENFA jSum C), ("trashName", jStr t)])
  | "fa.difference" =>
    let A ← asENFA (← field j "A")
    let B ← asENFA (← field j "B")
    let clsB ← asStr (← field j "clsB")
    let na ← asStrList (← field j "namesA")
    let nb ← asStrList (← field j "namesB")
    let trash ← asNat (← field j "trash")
    let B' := ((if clsB == "D" then B.copyD else B.copyE).addSyms A.syms)
    let (_, C, t) ← complementModel B' (if clsB == "D" then "D" else "E") (nameFn nb) trash
    let nc : Nat ⊕ String → String := fun x => match x with
      | .inl n => if n == trash then t else nameFn nb n
      | .inr s => s
    match A.inter C bigFuel with
    | none => throw "fuel"
    | some P => pure (jENFA jStr (P.mapStates fun p =>
        String.ofList (Names.pairName (fun q => (nameFn na q).toList) (fun q => (nc q).toList) p)))
  | "fa.nerode" =>
    let A ← asENFA (← field j "A")
    match A.nerodeGroups bigFuel with
    | none => throw "fuel"
    | some gs => pure (jList (jList (jOpt jNat)) gs)
  | "fa.hopcroft" =>
    let A ← asENFA (← field j "A")
    let order ← asNatList (← field j "order")
    let symorder ← asNatList (← field j "symorder")
    match ({ A with states := order, syms := symorder } : ENFA Nat).hopcroft bigFuel with
    | none => throw "fuel"
    | some gs => pure (jList (jList (jOpt jNat)) gs)
  | "fa.minimize" =>
    let A ← asENFA (← field j "A")
    let names ← asStrList (← field j "names")
    pure (jENFA jStr (← minimizeNamed A (nameFn names)))
  | "fa.isReduced" =>
    let A ← asENFA (← field j "A")
    pure (jOpt jBool (A.isReduced bigFuel))
  | "fa.iso" =>
    let A ← asENFA (← field j "A")
    let B ← asENFA (← field j "B")
    match A.isoPairs B bigFuel with
    | none => pure (jBool false)
    | some m => pure (jBool (A.checkIso B m))
  | "fa.isEquivalent" =>
    let A ← asENFA (← field j "A")
    let B ← asENFA (← field j "B")
    let clsA ← asStr (← field j "clsA")
    let clsB ← asStr (← field j "clsB")
    let na ← asStrList (← field j "namesA")
    let nb ← asStrList (← field j "namesB")
    let prep (X : ENFA Nat) (cls : String) (nm : List String) : R (ENFA String) := do
      if cls == "D" then minimizeNamed X (nameFn nm)
      else match X.toDet (mergeName (nameFn nm)) (cls == "E") bigFuel with
        | none => throw "fuel"
        | some D => minimizeNamed D id
    let MA ← prep A clsA na
    let MB ← prep B clsB nb
    pure (jOpt jBool (MA.isoWalk MB bigFuel))
  | "fa.preds" =>
    let A ← asENFA (← field j "A")
    pure (Json.mkObj [("isEmpty", jBool A.isEmpty), ("isDetE", jBool A.isDeterministicE),
      ("isDetN", jBool A.isDeterministicN),
      ("isAcyclic", jOpt jBool (A.isAcyclic 200000)),
      ("leading", jNatList A.leadingToFinal)])
  | "fa.words" =>
    let A ← asENFA (← field j "A")
    let mx ← asOptNat (← field j "max")
    match A.acceptedWords mx 200000 with
    | none => pure Json.null
    | some ws => pure (jList jNatList ws)
  | "fa.diff" =>   -- oracle
    let A ← asENFA (← field j "A")
    let B ← asENFA (← field j "B")
    checkWF A; checkWF B
    match A.langDiff B bigFuel with
    | none => throw "fuel"
    | some r => pure (Json.mkObj [("equiv", jBool r.isNone), ("word", jOpt jNatList r)])
  | "fa.langop" =>   -- oracle: R against the reference construction for `kind`
    let kind ← asStr (← field j "kind")
    let A ← asENFA (← field j "A")
    let Rr ← asENFA (← field j "R")
    checkWF A; checkWF Rr
    let B ← (match j.getObjVal? "B" with
      | .ok b => asENFA b
      | .error _ => pure { states := [], syms := [], starts := [], finals := [], delta := [] })
    checkWF B
    let fresh (X : ENFA Nat) : List Nat := [X.states.foldl max 0 + 1]
    let res (r : Option (Option (List Nat))) : R Json := match r with
      | none => throw "fuel"
      | some r => pure (Json.mkObj [("equiv", jBool r.isNone), ("word", jOpt jNatList r)])
    match kind with
    | "inter" => match A.inter B bigFuel with
      | none => throw "fuel"
      | some P => res (Rr.langDiff P bigFuel)
    | "complement" => match A.complementRef (fresh A) bigFuel with
      | none => throw "fuel"
      | some C => res (Rr.langDiff C bigFuel)
    | "difference" =>
      let B' := B.addSyms A.syms
      match B'.complementRef (fresh B') bigFuel with
      | none => throw "fuel"
      | some C => match A.inter C bigFuel with
        | none => throw "fuel"
        | some P => res (Rr.langDiff P bigFuel)
    | "reverse" => res (Rr.langDiff A.reverse bigFuel)
    | "union" => res (Rr.langDiff (A.unionA B) bigFuel)
    | "concat" => res (Rr.langDiff (A.concatA B) bigFuel)
    | "star" => res (Rr.langDiff A.starA bigFuel)
    | _ => throw s!"unknown langop {kind}"
  | "fa.langUpTo" =>   -- oracle
    let A ← asENFA (← field j "A")
    checkWF A
    let n ← asNat (← field j "n")
    pure (jList jNatList (A.langUpTo n))
  | "fa.cycle" =>   -- oracle
    let A ← asENFA (← field j "A")
    checkWF A
    pure (jBool A.reachableCycle)
  | _ => throw s!"unknown op {op}"

end PflDrv
