/- Driver handlers for the FST model and oracle. -/
import PflDrv.PDA
import Pfl.Model.FST
import Pfl.Oracle.FstRel
import Pfl.Model.ToFST
import Pfl.Model.FSTObject
import PflDrv.FA
open Lean Pfl
namespace PflDrv

def asFST (j : Json) : R (FST String) := do
  let states ← asStrList (← field j "states")
  let starts ← asStrList (← field j "starts")
  let finals ← asStrList (← field j "finals")
  let delta ← (← asArr (← field j "delta")).mapM fun t => do
    match ← asArr t with
    | [q, a, r, o] => pure ((← asStr q), (← asOptStr a), (← asStr r), (← asStrList o))
    | _ => throw "bad fst transition"
  pure { states, inputs := [], outputs := [], starts, finals, delta }

def jFST (T : FST String) : Json :=
  Json.mkObj [("states", jList jStr T.states), ("inputs", jList jStr T.inputs), ("outputs", jList jStr T.outputs),
    ("starts", jList jStr T.starts), ("finals", jList jStr T.finals),
    ("delta", jList (fun t => Json.arr #[jStr t.1, jOpt jStr t.2.1, jStr t.2.2.1, jList jStr t.2.2.2]) T.delta)]

/-- a mutator call of a history on an FST object (`Pfl/Model/FSTObject.lean`) -/
def asFSTObjOp (j : Json) : R FSTObj.Op := do
  match ← asArr j with
  | [k, q, a, r, o] => match ← asStr k with
    | "add_t" => pure (.addT (← asStr q) (← asOptStr a) (← asStr r) (← asStrList o))
    | x => throw s!"bad FST object op {x}"
  | [k, q] => match ← asStr k with
    | "add_s" => pure (.addStart (← asStr q))
    | "add_f" => pure (.addFinal (← asStr q))
    | x => throw s!"bad FST object op {x}"
  | _ => throw "bad FST object op"

def jFSTObj (o : FSTObj.Obj) : Json :=
  Json.mkObj [("states", jList jStr o.states), ("inputs", jList jStr o.inputs), ("outputs", jList jStr o.outputs),
    ("starts", jList jStr o.starts), ("finals", jList jStr o.finals),
    ("delta", jList (fun (e : FSTObj.Key × List (String × List String)) =>
      Json.arr #[Json.arr #[jStr e.1.1, jOpt jStr e.1.2],
        jList (fun (out : String × List String) => Json.arr #[jStr out.1, jList jStr out.2]) e.2]) o.delta),
    ("num", jNat (FSTObj.numTransitions o.delta))]

def fstObjRun : FSTObj.Obj → List FSTObj.Op → List Json
  | _, [] => []
  | o, op :: ops => let o' := FSTObj.step o op; jFSTObj o' :: fstObjRun o' ops

def fstHandle (op : String) (j : Json) : R Json := do
  if op == "fst.ofFA" then   -- model of FiniteAutomaton.to_fst; states are printed as their codes
    let A ← asENFA (← field j "A")
    let names ← asStrList (← field j "symNames")
    let T := A.toFST (fun k => names.getD k "?")
    return jFST { states := T.states.map toString, inputs := T.inputs, outputs := T.outputs,
                  starts := T.starts.map toString, finals := T.finals.map toString,
                  delta := T.delta.map fun t => (toString t.1, t.2.1, toString t.2.2.1, t.2.2.2) }
  if op == "fst.objRun" then   -- model of an FST object built through its API (C19)
    let ops ← (← asArr (← field j "ops")).mapM asFSTObjOp
    return Json.arr (fstObjRun FSTObj.new ops).toArray
  let T ← asFST (← field j "T")
  match op with
  | "fst.translate" =>
    let ws ← (← asArr (← field j "words")).mapM asStrList
    let mx ← asOptNat (fieldD j "max" Json.null)
    pure (jList (jOpt jWords) (ws.map fun w => T.translate w mx 200000))
  | "fst.rel" =>   -- oracle
    let ws ← (← asArr (← field j "words")).mapM asStrList
    pure (jList (jOpt jWords) (ws.map fun w => T.relOutputs w 20000))
  | "fst.union" => pure (jFST (T.union (← asFST (← field j "U"))))
  | "fst.concatenate" => pure (jFST (T.concatenate (← asFST (← field j "U"))))
  | "fst.kleeneStar" => pure (jFST T.kleeneStar)
  | _ => throw s!"unknown op {op}"

end PflDrv
