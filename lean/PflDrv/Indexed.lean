/- Driver handlers for the indexed-grammar model. -/
import PflDrv.Json
import Pfl.Model.Indexed
import Pfl.Model.IndexedInter
import Pfl.Model.IndexedMark
import PflDrv.FST
open Lean Pfl
namespace PflDrv

def asIRule (j : Json) : R IRule := do
  match ← asArr j with
  | [k, a, b] =>
    match ← asStr k with
    | "end" => pure (.end_ (← asStr a) (← asStr b))
    | _ => throw "bad rule"
  | [k, a, b, c] =>
    match ← asStr k with
    | "prod" => pure (.prod (← asStr a) (← asStr b) (← asStr c))
    | "cons" => pure (.cons (← asStr a) (← asStr b) (← asStr c))
    | "dup" => pure (.dup (← asStr a) (← asStr b) (← asStr c))
    | _ => throw "bad rule"
  | _ => throw "bad rule"

def jIRule : IRule → Json
  | .end_ a t => Json.arr #[jStr "end", jStr a, jStr t]
  | .prod a b f => Json.arr #[jStr "prod", jStr a, jStr b, jStr f]
  | .cons f a b => Json.arr #[jStr "cons", jStr f, jStr a, jStr b]
  | .dup a b c => Json.arr #[jStr "dup", jStr a, jStr b, jStr c]

def igHandle (op : String) (j : Json) : R Json := do
  let rules ← (← asArr (← field j "rules")).mapM asIRule
  let start ← asStr (← field j "start")
  let G : IG := { rules, start }
  match op with
  | "ig.isEmpty" =>
    let sat := G.markSaturate 10000 G.initMarks
    pure (Json.mkObj [("isEmpty", jOpt jBool (G.isEmpty 10000)),
      ("marks", jOpt (jList (jPair jStr (jList jStr))) sat),
      ("derivable", jBool (G.derivable 12 G.start [])),
      ("reachable", jList jStr G.reachableNT), ("generating", jList jStr G.generatingNT)])
  | "ig.inter" =>   -- triple construction; transducer states are given by their Python repr
    let T ← asFST (← field j "T")
    let R := IG.inter T (fun (q : String) => q) G   -- states arrive as their Python repr
    pure (Json.mkObj [("rules", jList jIRule R.rules), ("isEmpty", jOpt jBool (R.isEmpty 10000))])
  | "ig.libRun" =>    -- the library's own loop (Pfl/Model/IndexedMark.lean): verdict, initial and final table
    pure (Json.mkObj [("isEmpty", jOpt jBool (IG.Lib.isEmptyLib G 10000)),
      ("init", jList (jPair jStr (jList (jList jStr))) (IG.Lib.initTable G)),
      ("final", jList (jPair jStr (jList (jList jStr))) (IG.Lib.finalTable G 10000))])
  | "ig.libStep" =>   -- one call of _duplication_processing / _production_process on a given `marked`
    let r ← asIRule (← field j "rule")
    let tbl ← (← asArr (← field j "table")).mapM fun e => do
      match ← asArr e with
      | [k, v] => pure ((← asStr k), (← (← asArr v).mapM asStrList))
      | _ => throw "bad table entry"
    let res := IG.Lib.stepLib G r tbl
    pure (Json.mkObj [("table", jList (jPair jStr (jList (jList jStr))) res.1),
      ("modified", jBool res.2.1), ("stop", jBool res.2.2)])
  | "ig.removeUseless" => pure (jList jIRule G.removeUseless.rules)
  | _ => throw s!"unknown op {op}"

end PflDrv
