/- Driver handlers for the CFG model and oracles. -/
import PflDrv.Json
import Pfl.Model.CFG
import Pfl.Oracle.CfgMem
open Lean Pfl
namespace PflDrv

def asSym (j : Json) : R Sym := do
  match ← asArr j with
  | [k, v] =>
    let k ← asStr k
    let v ← asStr v
    if k == "v" then pure (.var v) else pure (.ter v)
  | _ => throw "bad symbol"

def jSym : Sym → Json
  | .var v => Json.arr #[jStr "v", jStr v]
  | .ter t => Json.arr #[jStr "t", jStr t]

def asProd (j : Json) : R Prod := do
  match ← asArr j with
  | [h, b] => pure ((← asStr h), (← (← asArr b).mapM asSym))
  | _ => throw "bad production"

def jProd (p : Prod) : Json := Json.arr #[jStr p.1, jList jSym p.2]

def asCFG (j : Json) : R CFG := do
  let vars ← asStrList (← field j "vars")
  let ters ← asStrList (← field j "ters")
  let s := fieldD j "start" Json.null
  let start ← (if s.isNull then pure none else some <$> asStr s)
  let prods ← (← asArr (← field j "prods")).mapM asProd
  pure { vars, ters, start, prods }

def jCFG (G : CFG) : Json :=
  Json.mkObj [("vars", jList jStr G.vars), ("ters", jList jStr G.ters),
    ("start", jOpt jStr G.start), ("prods", jList jProd G.prods)]

def jSymList (l : List Sym) : Json := jList jSym l
def jWords (l : List (List String)) : Json := jList (jList jStr) l

def cfgFuel : Nat := 100000

def cfgHandle (op : String) (j : Json) : R Json := do
  let G ← asCFG (← field j "G")
  match op with
  | "cfg.classes" =>
    pure (Json.mkObj [("generating", jSymList G.generating), ("nullable", jSymList G.nullable),
      ("reachable", jSymList G.reachable), ("isEmpty", jBool G.isEmpty),
      ("generateEpsilon", jBool G.generateEpsilon),
      ("unitPairs", jList (jPair jStr jStr) G.unitPairs),
      ("isNormalForm", jBool G.isNormalForm), ("isFinite", jOpt jBool (G.isFinite 10))])
  | "cfg.transform" =>
    let kind ← asStr (← field j "kind")
    match kind with
    | "removeUseless" => pure (jCFG G.removeUseless)
    | "removeEpsilon" => pure (jCFG G.removeEpsilon)
    | "elimUnit" => pure (jCFG G.elimUnit)
    | "toNormalForm" => pure (jOpt jCFG (G.toNormalForm 10))
    | "reverse" => pure (jCFG G.reverse)
    | "closure" => pure (jCFG G.closure)
    | "posClosure" => pure (jCFG G.posClosure)
    | "union" => pure (jCFG (G.union (← asCFG (← field j "H"))))
    | "concatenate" => pure (jCFG (G.concatenate (← asCFG (← field j "H"))))
    | _ => throw s!"unknown transform {kind}"
  | "cfg.contains" =>
    let ws ← (← asArr (← field j "words")).mapM asStrList
    pure (jList (jOpt jBool) (ws.map fun w => G.contains w 10))
  | "cfg.member" =>   -- oracle
    let ws ← (← asArr (← field j "words")).mapM asStrList
    pure (jList (jOpt jBool) (ws.map fun w => G.cfgMem w cfgFuel))
  | "cfg.langUpTo" =>   -- oracle
    let n ← asNat (← field j "n")
    pure (jOpt jWords (G.langUpTo n cfgFuel))
  | "cfg.getWords" =>
    let mx ← asOptNat (← field j "max")
    pure (jOpt jWords (G.getWords mx 60))
  | _ => throw s!"unknown op {op}"

end PflDrv
