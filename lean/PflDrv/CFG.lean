/- Driver handlers for the CFG model and oracles. -/
import PflDrv.Json
import Pfl.Model.CFG
import Pfl.Oracle.CfgMem
import Pfl.Oracle.Trees
import Pfl.Model.BarHillel
import Pfl.Model.CFGCounters
import Pfl.Model.CFGObject
import Pfl.Model.Codec
import Pfl.Model.LL1Lib
import Pfl.Model.RecDescent
import PflDrv.FA
open Lean Pfl
namespace PflDrv

def asSym (j : Json) : R Sym := do
  match ← asArr j with
  | [k, v] =>
    let k ← asStr k
    let v ← asStr v
    if k == "v" then pure (.var v) else pure (.ter v)
  | _ => throw "bad symbol"

def jSym : Sym → Json
  | .var v => Json.arr #[jStr "v", jStr v]
  | .ter t => Json.arr #[jStr "t", jStr t]

def asProd (j : Json) : R Prod := do
  match ← asArr j with
  | [h, b] => pure ((← asStr h), (← (← asArr b).mapM asSym))
  | _ => throw "bad production"

def jProd (p : Prod) : Json := Json.arr #[jStr p.1, jList jSym p.2]

def asCFG (j : Json) : R CFG := do
  let vars ← asStrList (← field j "vars")
  let ters ← asStrList (← field j "ters")
  let s := fieldD j "start" Json.null
  let start ← (if s.isNull then pure none else some <$> asStr s)
  let prods ← (← asArr (← field j "prods")).mapM asProd
  pure { vars, ters, start, prods }

def jCFG (G : CFG) : Json :=
  Json.mkObj [("vars", jList jStr G.vars), ("ters", jList jStr G.ters),
    ("start", jOpt jStr G.start), ("prods", jList jProd G.prods)]

def jSymList (l : List Sym) : Json := jList jSym l
def jWords (l : List (List String)) : Json := jList (jList jStr) l

partial def asTree (j : Json) : R PTree := do
  match ← asArr j with
  | [k, v, sons] =>
    let s ← asSym (Json.arr #[k, v])
    let ss ← (← asArr sons).mapM asTree
    pure (.node s ss)
  | _ => throw "bad tree"

partial def jTree : PTree → Json
  | .node s sons => match jSym s with
    | Json.arr a => Json.arr (a.push (Json.arr (sons.map jTree).toArray))
    | x => x

def cfgFuel : Nat := 100000

def asObjOp (j : Json) : R CFG.Obj.Op := do
  match ← asStr (← field j "op") with
  | "generating" => pure .generating
  | "nullable" => pure .nullable
  | "isEmpty" => pure .isEmpty
  | "generateEpsilon" => pure .generateEpsilon
  | "removeUseless" => pure .removeUseless
  | "removeEpsilon" => pure .removeEpsilon
  | "normalForm" => pure .normalForm
  | "contains" => pure (.contains (← asStrList (← field j "w")))
  | "getWords" => pure (.getWords (← asOptNat (← field j "max")))
  | "isFinite" => pure .isFinite
  | o => throw s!"unknown object op {o}"

def jObjOut : CFG.Obj.Out → Json
  | .syms l => jSymList l
  | .bool b => jBool b
  | .cfg g => jCFG g
  | .words l => jWords l

def jObjState (s : CFG.Obj.State) : Json :=
  Json.mkObj [("rem", jOpt (fun (t : CFG.Remaining × CFG.Impacts × List String) => jList (jPair jStr (jList jNat)) t.1) s.tables),
    ("gen", jOpt jSymList s.gen), ("nul", jOpt jSymList s.nul), ("nf", jOpt jCFG s.nf)]

/-- a history on one object: after every call the answer and the hidden state -/
def objRun (G : CFG) : CFG.Obj.State → List CFG.Obj.Op → List Json
  | _, [] => []
  | s, op :: ops =>
    match CFG.Obj.step G cfgFuel s op with
    | none => [Json.null]
    | some (s1, o) => Json.mkObj [("out", jObjOut o), ("state", jObjState s1)] :: objRun G s1 ops

/-- the cleaned grammar on which `to_normal_form` finally runs its fast path (harness helper: its
variables are the names that fresh binarisation variables must avoid) -/
def cnfBase (G : CFG) : Nat → Option CFG
  | 0 => none
  | fuel+1 =>
    if G.isFastPath then some G
    else if G.prods.length = 0 then some G
    else cnfBase (G.removeUseless.removeEpsilon.removeUseless.elimUnit.removeUseless) fuel

def jComp : Codec.Comp → Json
  | .var v => Json.arr #[jStr "v", jStr (String.ofList v)]
  | .ter t => Json.arr #[jStr "t", jStr (String.ofList t)]
  | .eps => Json.arr #[jStr "e", jStr ""]

def cfgHandle (op : String) (j : Json) : R Json := do
  if op == "cfg.codec" then
    let toks ← asStrList (← field j "toks")
    return jList (fun (t : String) => Json.mkObj [
      ("varText", jStr (String.ofList (Codec.varToText t.toList))),
      ("terText", jStr (String.ofList (Codec.terToText t.toList))),
      ("read", jComp (Codec.readComponent t.toList))]) toks
  let G ← asCFG (← field j "G")
  match op with
  | "cfg.ll1lib" =>   -- faithful model of LLOneParser
    let jLook : LL1Lib.Look → Json := fun l => match l with
      | .ter t => Json.arr #[jStr "t", jStr t]
      | .eps => Json.arr #[jStr "eps"]
      | .eof => Json.arr #[jStr "$"]
    let ws ← (← asArr (fieldD j "words" (Json.arr #[]))).mapM asStrList
    let fuel := 100000
    match LL1Lib.firstSet G fuel, LL1Lib.followSet G fuel, LL1Lib.table G fuel, LL1Lib.isLLOne G fuel with
    | some F, some Fo, some tb, some b =>
      pure (Json.mkObj [("first", jList (jPair jSym (jList jLook)) F),
        ("follow", jList (jPair (jOpt jSym) (jList jLook)) Fo),
        ("table", jList (fun (e : String × LL1Lib.Look × Prod) => Json.arr #[jStr e.1, jLook e.2.1, jProd e.2.2]) tb),
        ("isLLOne", jBool b),
        ("parse", jList (fun w => match LL1Lib.parse G w fuel with
          | none => jStr "fuel"
          | some none => Json.null
          | some (some t) => jTree t) ws)])
    | _, _, _, _ => throw "fuel"
  | "cfg.recDescent" =>   -- faithful model of RecursiveDecentParser
    let ws ← (← asArr (← field j "words")).mapM asStrList
    let left ← asBool (← field j "left")
    let fuel ← asNat (← field j "fuel")
    pure (jList (fun w => match RecDescent.parse G w left fuel with
      | none => jStr "fuel"
      | some none => Json.null
      | some (some t) => jTree t) ws)
  | "cfg.cykTable" =>     -- G is a grammar in normal form: the cells of the recogniser's table, per word
    let ws ← (← asArr (← field j "words")).mapM asStrList
    pure (jList (fun (w : List String) =>
      jList (fun (e : (Nat × Nat) × List String) => Json.arr #[jNat e.1.1, jNat e.1.2, jList jStr e.2]) (G.cykTable w)) ws)
  | "cfg.objRun" =>
    let ops ← (← asArr (← field j "ops")).mapM asObjOp
    pure (Json.arr (objRun G {} ops).toArray)
  | "cfg.counters" =>
    let nullable ← asBool (← field j "nullable")
    let (rem, imp, added) := G.buildTables
    match G.genCounters nullable rem imp added cfgFuel with
    | none => throw "fuel"
    | some (found, rem') =>
      pure (Json.mkObj [("found", jSymList found),
        ("rem0", jList (jPair jStr (jList jNat)) rem), ("rem", jList (jPair jStr (jList jNat)) rem'),
        ("imp", jList (fun (e : Sym × String × Nat) => Json.arr #[jSym e.1, jStr e.2.1, jNat e.2.2]) imp),
        ("added", jList jStr added)])
  | "cfg.classes" =>
    pure (Json.mkObj [("generating", jSymList G.generating), ("nullable", jSymList G.nullable),
      ("reachable", jSymList G.reachable), ("isEmpty", jBool G.isEmpty),
      ("generateEpsilon", jBool G.generateEpsilon),
      ("unitPairs", jList (jPair jStr jStr) G.unitPairs),
      ("isNormalForm", jBool G.isNormalForm), ("isFinite", jOpt jBool (G.isFinite 10))])
  | "cfg.transform" =>
    let kind ← asStr (← field j "kind")
    match kind with
    | "removeUseless" => pure (jCFG G.removeUseless)
    | "removeEpsilon" => pure (jCFG G.removeEpsilon)
    | "elimUnit" => pure (jCFG G.elimUnit)
    | "toNormalForm" => pure (jOpt jCFG (G.toNormalForm 10))
    | "cnfBase" => pure (jOpt jCFG (cnfBase G 10))
    | "reverse" => pure (jCFG G.reverse)
    | "closure" => pure (jCFG G.closure)
    | "posClosure" => pure (jCFG G.posClosure)
    | "union" => pure (jCFG (G.union (← asCFG (← field j "H"))))
    | "concatenate" => pure (jCFG (G.concatenate (← asCFG (← field j "H"))))
    | _ => throw s!"unknown transform {kind}"
  | "cfg.contains" =>
    let ws ← (← asArr (← field j "words")).mapM asStrList
    pure (jList (jOpt jBool) (ws.map fun w => G.contains w 10))
  | "cfg.member" =>   -- oracle
    let ws ← (← asArr (← field j "words")).mapM asStrList
    pure (jList (jOpt jBool) (ws.map fun w => G.cfgMem w cfgFuel))
  | "cfg.langUpTo" =>   -- oracle
    let n ← asNat (← field j "n")
    pure (jOpt jWords (G.langUpTo n cfgFuel))
  | "cfg.ll1" =>   -- oracle
    pure (Json.mkObj [("first", jList (jPair jStr jStr) G.firstSets),
      ("follow", jList (jPair jStr (jOpt jStr)) G.followSets),
      ("nullable", jSymList G.nullable), ("isLL1", jBool G.isLL1),
      ("predict", jList (fun p => Json.arr #[jProd p, jList (jOpt jStr) (G.predict p)]) G.prods.eraseDups)])
  | "cfg.llParse" =>   -- oracle
    let ws ← (← asArr (← field j "words")).mapM asStrList
    pure (jList (jOpt jTree) (ws.map fun w => G.llParse w 2000))
  | "cfg.treeValid" =>   -- oracle
    let t ← asTree (← field j "tree")
    let w ← asStrList (← field j "word")
    pure (jBool (G.treeValid t w))
  | "cfg.derivValid" =>   -- oracle
    let left ← asBool (← field j "left")
    let root ← asSym (← field j "root")
    let lines ← (← asArr (← field j "lines")).mapM fun l => do (← asArr l).mapM asSym
    let w ← asStrList (← field j "word")
    pure (jBool (G.derivationValid left root lines w))
  | "cfg.interD" =>
    let D ← asENFA (← field j "D")
    let symNames ← asStrList (← field j "symNames")
    let stateNames ← asStrList (← field j "stateNames")
    let symOf : String → Option Nat := fun c => (symNames.zip (List.range symNames.length)).findSome?
      fun e => if e.1 = c then some e.2 else none
    pure (jOpt jCFG (G.interD D symOf (fun q => stateNames.getD q s!"?{q}") 10))
  | "cfg.getWords" =>
    let mx ← asOptNat (← field j "max")
    pure (jOpt jWords (G.getWords mx 60))
  | _ => throw s!"unknown op {op}"

end PflDrv
