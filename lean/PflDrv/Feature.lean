/- Driver handlers for feature structures. -/
import PflDrv.Json
import Pfl.Model.Feature
import Pfl.Oracle.FsGround
import Pfl.Model.FeatureDag
import Pfl.Model.Earley
open Lean Pfl
namespace PflDrv

partial def asFS (j : Json) : R FS := do
  if j.isNull then pure .unspec
  else match j with
    | .str s => pure (.atom s)
    | .arr a => do
      let fs ← a.toList.mapM fun e => do
        match ← asArr e with
        | [f, x] => pure ((← asStr f), (← asFS x))
        | _ => throw "bad field"
      pure (.node fs)
    | _ => throw "bad fs"

def jLeaves (l : List (List String × Option String)) : Json :=
  jList (fun e => Json.arr #[jList jStr e.1, jOpt jStr e.2]) l

open FsGround in
def asSFS (j : Json) : R SFS := do
  (← asArr j).mapM fun e => do
    match ← asArr e with
    | [p, k, v] =>
      let p ← asStrList p
      let k ← asStr k
      let v ← asStr v
      pure (p, if k == "atom" then Leaf.atom v else if k == "var" then Leaf.var v else Leaf.free)
    | _ => throw "bad leaf"

def fsHandle (op : String) (j : Json) : R Json := do
  match op with
  | "fs.meaning" =>   -- oracle
    let paths ← (← asArr (← field j "paths")).mapM asStrList
    let vals ← asStrList (← field j "vals")
    let ss ← (← asArr (← field j "structures")).mapM asSFS
    pure (jList jNatList (ss.map (FsGround.meaning paths vals)))
  | "fs.earley" =>   -- faithful model of FCFG.contains on the harness's agreement grammars
    let start ← asStr (← field j "start")
    let ws ← (← asArr (← field j "words")).mapM asStrList
    let asFeat : Json → R (Option String) := fun x => if x.isNull then pure none else some <$> asStr x
    let prods ← (← asArr (← field j "prods")).mapM fun pr => do
      match ← asArr pr with
      | [hd, body] =>
        match ← asArr hd with
        | [h, hf] =>
          let items ← (← asArr body).mapM fun it => do
            match ← asArr it with
            | [k, x] => if (← asStr k) == "t" then pure (Sym.ter (← asStr x), (none : Option String)) else pure (Sym.var (← asStr x), none)
            | [k, x, f] => if (← asStr k) == "t" then pure (Sym.ter (← asStr x), none) else pure (Sym.var (← asStr x), (← asFeat f))
            | _ => throw "bad body item"
          pure (((← asStr h), (← asFeat hf)), items)
        | _ => throw "bad head"
      | _ => throw "bad production"
    pure (jList (jOpt jBool) (ws.map fun w => Earley.containsSpec prods start w 20000))
  | "fs.unifyDag" =>   -- faithful store model of unify with sharing, on structures built like build_sfs
    let paths ← (← asArr (← field j "paths")).mapM asStrList
    let a ← asSFS (← field j "a")
    let b ← asSFS (← field j "b")
    let jLeaf : FsGround.Leaf → Json := fun l => match l with
      | .atom v => Json.arr #[jStr "atom", jStr v]
      | .var x => Json.arr #[jStr "var", jStr x]
      | .free => Json.arr #[jStr "free", jStr ""]
    match FsDag.unifySFS a b 200 with
    | (.ok st, r) => pure (Json.mkObj [("ok", jList (fun (e : List String × FsGround.Leaf) =>
        match jLeaf e.2 with
        | Json.arr x => Json.arr (#[jList jStr e.1] ++ x)
        | y => y) (FsDag.read st r paths))])
    | (.conflict, _) => pure (Json.mkObj [("conflict", jBool true)])
    | (.fuel, _) => throw "fuel"
  | "fs.unify" =>
    let a ← asFS (← field j "a")
    let b ← asFS (← field j "b")
    match FS.unify a b with
    | none => pure Json.null
    | some c => pure (jLeaves c.leaves)
  | _ => throw s!"unknown op {op}"

end PflDrv
