/- Driver handlers for feature structures. -/
import PflDrv.Json
import Pfl.Model.Feature
open Lean Pfl
namespace PflDrv

partial def asFS (j : Json) : R FS := do
  if j.isNull then pure .unspec
  else match j with
    | .str s => pure (.atom s)
    | .arr a => do
      let fs ← a.toList.mapM fun e => do
        match ← asArr e with
        | [f, x] => pure ((← asStr f), (← asFS x))
        | _ => throw "bad field"
      pure (.node fs)
    | _ => throw "bad fs"

def jLeaves (l : List (List String × Option String)) : Json :=
  jList (fun e => Json.arr #[jList jStr e.1, jOpt jStr e.2]) l

def fsHandle (op : String) (j : Json) : R Json := do
  match op with
  | "fs.unify" =>
    let a ← asFS (← field j "a")
    let b ← asFS (← field j "b")
    match FS.unify a b with
    | none => pure Json.null
    | some c => pure (jLeaves c.leaves)
  | _ => throw s!"unknown op {op}"

end PflDrv
