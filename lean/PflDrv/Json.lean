/- JSON helpers for the line-protocol driver (not part of the verified model). -/
import Lean.Data.Json
import Pfl.Model.FA
open Lean
namespace PflDrv

abbrev R := Except String

def field (j : Json) (k : String) : R Json := j.getObjVal? k
def fieldD (j : Json) (k : String) (d : Json) : Json := (j.getObjVal? k).toOption.getD d
def asNat (j : Json) : R Nat := j.getNat?
def asStr (j : Json) : R String := j.getStr?
def asBool (j : Json) : R Bool := j.getBool?
def asArr (j : Json) : R (List Json) := do return (← j.getArr?).toList
def asNatList (j : Json) : R (List Nat) := do (← asArr j).mapM asNat
def asStrList (j : Json) : R (List String) := do (← asArr j).mapM asStr
def asOptNat (j : Json) : R (Option Nat) := if j.isNull then pure none else some <$> asNat j
def asOptNatList (j : Json) : R (List (Option Nat)) := do (← asArr j).mapM asOptNat

def jNat (n : Nat) : Json := Json.num n
def jList {α} (f : α → Json) (l : List α) : Json := Json.arr (l.map f).toArray
def jOpt {α} (f : α → Json) : Option α → Json
  | none => Json.null
  | some a => f a
def jNatList (l : List Nat) : Json := jList jNat l
def jStr (s : String) : Json := Json.str s
def jBool (b : Bool) : Json := Json.bool b
def jPair {α β} (f : α → Json) (g : β → Json) (p : α × β) : Json := Json.arr #[f p.1, g p.2]

open Pfl in
def asENFA (j : Json) : R (ENFA Nat) := do
  let states ← asNatList (← field j "states")
  let syms ← asNatList (← field j "syms")
  let starts ← asNatList (← field j "starts")
  let finals ← asNatList (← field j "finals")
  let delta ← (← asArr (← field j "delta")).mapM fun t => do
    match ← asArr t with
    | [q, a, r] => pure ((← asNat q), (← asOptNat a), (← asNat r))
    | _ => throw "bad transition"
  pure { states, syms, starts, finals, delta }

open Pfl in
def jENFA {σ} (f : σ → Json) (A : ENFA σ) : Json :=
  Json.mkObj [("states", jList f A.states), ("syms", jNatList A.syms),
    ("starts", jList f A.starts), ("finals", jList f A.finals),
    ("delta", jList (fun t => Json.arr #[f t.1, jOpt jNat t.2.1, f t.2.2]) A.delta)]

end PflDrv
