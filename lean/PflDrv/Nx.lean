/- Driver handlers for the networkx export / import model. -/
import PflDrv.Json
import Pfl.Model.Networkx
open Lean Pfl
open Pfl.Nx (Val Attrs Graph)
namespace PflDrv

def asVal (j : Json) : R Val :=
  match j with
  | Json.str s => pure (.str s)
  | _ => match j.getInt? with
    | .ok n => pure (.int n)
    | .error e => throw s!"bad value: {e}"

def jVal : Val → Json
  | .int n => Json.num (JsonNumber.fromInt n)
  | .str s => Json.str s

def asOptVal (j : Json) : R (Option Val) := if j.isNull then pure none else some <$> asVal j
def asValList (j : Json) : R (List Val) := do (← asArr j).mapM asVal

def jAttrs (a : Attrs) : Json :=
  Json.mkObj [("isStart", jOpt jBool a.isStart), ("isFinal", jOpt jBool a.isFinal), ("label", jOpt jVal a.label),
    ("initialStack", jOpt (fun (t : List Char) => Json.str (String.ofList t)) a.initialStack)]

def asAttrs (j : Json) : R Attrs := do
  let s := fieldD j "isStart" Json.null
  let f := fieldD j "isFinal" Json.null
  let l := fieldD j "label" Json.null
  let i := fieldD j "initialStack" Json.null
  pure { initialStack := (← if i.isNull then pure none else (fun (x : String) => some x.toList) <$> asStr i), isStart := (← if s.isNull then pure none else some <$> asBool s),
         isFinal := (← if f.isNull then pure none else some <$> asBool f),
         label := (← asOptVal l) }

def jGraph {L : Type} (jl : L → Json) (g : Graph L) : Json :=
  Json.mkObj [("nodes", jList (fun (n : Val × Attrs) => Json.arr #[jVal n.1, jAttrs n.2]) g.nodes),
    ("edges", jList (fun (e : Val × Val × Option L) => Json.arr #[jVal e.1, jVal e.2.1, jOpt jl e.2.2]) g.edges)]

def asGraph {L : Type} (al : Json → R L) (j : Json) : R (Graph L) := do
  let nodes ← (← asArr (← field j "nodes")).mapM fun n => do
    match ← asArr n with
    | [v, a] => pure ((← asVal v), (← asAttrs a))
    | _ => throw "bad node"
  let edges ← (← asArr (← field j "edges")).mapM fun e => do
    match ← asArr e with
    | [u, v, l] => pure ((← asVal u), (← asVal v), (← if l.isNull then pure none else some <$> al l))
    | _ => throw "bad edge"
  pure { nodes, edges }

def jText (t : List Char) : Json := Json.str (String.ofList t)
def asText (j : Json) : R (List Char) := do pure (← asStr j).toList

/-- `json.dumps` / `json.loads` restricted to the values of the case, given as tables by the harness -/
def asJsonTables (j : Json) : R Nx.Json := do
  let d ← (← asArr (← field j "dumps")).mapM fun e => do
    match ← asArr e with
    | [v, t] => pure ((← asVal v), (← asText t))
    | _ => throw "bad dumps entry"
  let dl ← (← asArr (← field j "dumpsL")).mapM fun e => do
    match ← asArr e with
    | [v, t] => pure ((← asValList v), (← asText t))
    | _ => throw "bad dumpsL entry"
  pure { dumps := fun v => ((d.find? (·.1 = v)).map (·.2)).getD "?".toList
         loads := fun t => (d.find? (·.2 = t)).map (·.1)
         dumpsL := fun v => ((dl.find? (·.1 = v)).map (·.2)).getD "?".toList
         loadsL := fun t => (dl.find? (·.2 = t)).map (·.1) }

def asNxFA (j : Json) : R Nx.FA := do
  let delta ← (← asArr (← field j "delta")).mapM fun t => do
    match ← asArr t with
    | [q, a, r] => pure ((← asVal q), (← asOptVal a), (← asVal r))
    | _ => throw "bad transition"
  pure { states := (← asValList (← field j "states")), starts := (← asValList (← field j "starts")),
         finals := (← asValList (← field j "finals")), delta }

def jNxFA (A : Nx.FA) : Json :=
  Json.mkObj [("states", jList jVal A.states), ("starts", jList jVal A.starts), ("finals", jList jVal A.finals),
    ("delta", jList (fun (t : Val × Option Val × Val) => Json.arr #[jVal t.1, jOpt jVal t.2.1, jVal t.2.2]) A.delta)]

def asNxPDA (j : Json) : R Nx.PDA := do
  let delta ← (← asArr (← field j "delta")).mapM fun t => do
    match ← asArr t with
    | [q, a, x, r, w] => pure ((← asVal q), (← asVal a), (← asVal x), (← asVal r), (← asValList w))
    | _ => throw "bad transition"
  pure { states := (← asValList (← field j "states")), start := (← asOptVal (fieldD j "start" Json.null)),
         startStack := (← asOptVal (fieldD j "startStack" Json.null)),
         finals := (← asValList (← field j "finals")), delta }

def jNxPDA (P : Nx.PDA) : Json :=
  Json.mkObj [("states", jList jVal P.states), ("start", jOpt jVal P.start), ("startStack", jOpt jVal P.startStack),
    ("finals", jList jVal P.finals),
    ("delta", jList (fun (t : Val × Val × Val × Val × List Val) =>
      Json.arr #[jVal t.1, jVal t.2.1, jVal t.2.2.1, jVal t.2.2.2.1, jList jVal t.2.2.2.2]) P.delta)]

def asNxFST (j : Json) : R Nx.FST := do
  let delta ← (← asArr (← field j "delta")).mapM fun t => do
    match ← asArr t with
    | [q, a, r, w] => pure ((← asVal q), (← asVal a), (← asVal r), (← asValList w))
    | _ => throw "bad transition"
  pure { states := (← asValList (← field j "states")), starts := (← asValList (← field j "starts")),
         finals := (← asValList (← field j "finals")), delta }

def jNxFST (T : Nx.FST) : Json :=
  Json.mkObj [("states", jList jVal T.states), ("starts", jList jVal T.starts), ("finals", jList jVal T.finals),
    ("delta", jList (fun (t : Val × Val × Val × List Val) =>
      Json.arr #[jVal t.1, jVal t.2.1, jVal t.2.2.1, jList jVal t.2.2.2]) T.delta)]

def nxHandle (op : String) (j : Json) : R Json := do
  match op with
  | "nx.faExport" => pure (jGraph jVal (← asNxFA (← field j "A")).toNetworkx)
  | "nx.faImport" => pure (jNxFA (Nx.FA.fromNetworkx (← asGraph asVal (← field j "G"))))
  | "nx.pdaExport" => pure (jGraph jText ((← asNxPDA (← field j "P")).toNetworkx (← asJsonTables j)))
  | "nx.pdaImport" => pure (jOpt jNxPDA (Nx.PDA.fromNetworkx (← asJsonTables j) (← asGraph asText (← field j "G"))))
  | "nx.fstExport" => pure (jGraph jText ((← asNxFST (← field j "T")).toNetworkx (← asJsonTables j)))
  | "nx.fstImport" => pure (jOpt jNxFST (Nx.FST.fromNetworkx (← asJsonTables j) (← asGraph asText (← field j "G"))))
  | _ => throw s!"unknown op {op}"

end PflDrv
