/- Driver handlers for the PDA model and the acceptance oracle. -/
import PflDrv.CFG
import Pfl.Model.PDA
import Pfl.Oracle.PdaAcc
open Lean Pfl
namespace PflDrv

def asOptStr (j : Json) : R (Option String) := if j.isNull then pure none else some <$> asStr j

def asPDA (j : Json) : R (PDA String String) := do
  let states ← asStrList (← field j "states")
  let inputs ← asStrList (← field j "inputs")
  let stack ← asStrList (← field j "stack")
  let start ← asOptStr (fieldD j "start" Json.null)
  let startStack ← asOptStr (fieldD j "startStack" Json.null)
  let finals ← asStrList (← field j "finals")
  let delta ← (← asArr (← field j "delta")).mapM fun t => do
    match ← asArr t with
    | [q, a, x, q2, push] =>
      pure ((← asStr q), (← asOptStr a), (← asStr x), (← asStr q2), (← asStrList push))
    | _ => throw "bad pda transition"
  pure { states, inputs, stack, start, startStack, finals, delta }

def jPDA {σ γ} (fs : σ → Json) (fg : γ → Json) (P : PDA σ γ) : Json :=
  Json.mkObj [("states", jList fs P.states), ("inputs", jList jStr P.inputs), ("stack", jList fg P.stack),
    ("start", jOpt fs P.start), ("startStack", jOpt fg P.startStack), ("finals", jList fs P.finals),
    ("delta", jList (fun t => Json.arr #[fs t.1, jOpt jStr t.2.1, fg t.2.2.1, fs t.2.2.2.1, jList fg t.2.2.2.2]) P.delta)]

def pdaFuel : Nat := 100000

def pdaHandle (op : String) (j : Json) : R Json := do
  match op with
  | "pda.ofCFG" =>
    let G ← asCFG (← field j "G")
    pure (jPDA jStr jStr (PDA.ofCFG G))
  | _ =>
  let P ← asPDA (← field j "P")
  match op with
  | "pda.toFinalState" => pure (jPDA jStr jStr P.toFinalState)
  | "pda.toEmptyStack" => pure (jPDA jStr jStr P.toEmptyStack)
  | "pda.toCFG" => pure (jOpt jCFG (P.toCFG id id))
  | "pda.acc" =>   -- oracle
    let mode ← asStr (← field j "mode")
    let ws ← (← asArr (← field j "words")).mapM asStrList
    pure (jList (jOpt jBool) (ws.map fun w =>
      if mode == "final" then P.accFinal w pdaFuel else P.accEmpty w pdaFuel))
  | "pda.inter" =>
    let D ← asENFA (← field j "D")
    let symNames ← asStrList (← field j "symNames")
    let symOf : String → Option Nat := fun c => (symNames.zip (List.range symNames.length)).findSome?
      fun e => if e.1 = c then some e.2 else none
    match P.inter D symOf pdaFuel with
    | none => pure Json.null
    | some Q => pure (jPDA (jPair jStr jNat) jStr Q)
  | _ => throw s!"unknown op {op}"

end PflDrv
