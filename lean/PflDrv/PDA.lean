/- Driver handlers for the PDA model and the acceptance oracle. -/
import PflDrv.CFG
import Pfl.Model.PDA
import Pfl.Oracle.PdaAcc
import Pfl.Model.PDAObject
open Lean Pfl
namespace PflDrv

def asOptStr (j : Json) : R (Option String) := if j.isNull then pure none else some <$> asStr j

def asPDA (j : Json) : R (PDA String String) := do
  let states ← asStrList (← field j "states")
  let inputs ← asStrList (← field j "inputs")
  let stack ← asStrList (← field j "stack")
  let start ← asOptStr (fieldD j "start" Json.null)
  let startStack ← asOptStr (fieldD j "startStack" Json.null)
  let finals ← asStrList (← field j "finals")
  let delta ← (← asArr (← field j "delta")).mapM fun t => do
    match ← asArr t with
    | [q, a, x, q2, push] =>
      pure ((← asStr q), (← asOptStr a), (← asStr x), (← asStr q2), (← asStrList push))
    | _ => throw "bad pda transition"
  pure { states, inputs, stack, start, startStack, finals, delta }

def jPDA {σ γ} (fs : σ → Json) (fg : γ → Json) (P : PDA σ γ) : Json :=
  Json.mkObj [("states", jList fs P.states), ("inputs", jList jStr P.inputs), ("stack", jList fg P.stack),
    ("start", jOpt fs P.start), ("startStack", jOpt fg P.startStack), ("finals", jList fs P.finals),
    ("delta", jList (fun t => Json.arr #[fs t.1, jOpt jStr t.2.1, fg t.2.2.1, fs t.2.2.2.1, jList fg t.2.2.2.2]) P.delta)]

def pdaFuel : Nat := 100000

/-- a mutator call of a history on a PDA object (`Pfl/Model/PDAObject.lean`) -/
def asPDAObjOp (j : Json) : R PDAObj.Op := do
  match ← asArr j with
  | [k, q, a, x, q2, push] => match ← asStr k with
    | "add_t" => pure (.addT (← asStr q) (← asOptStr a) (← asStr x) (← asStr q2) (← asStrList push))
    | o => throw s!"bad PDA object op {o}"
  | [k, q] => match ← asStr k with
    | "set_s" => pure (.setStart (← asStr q))
    | "set_z" => pure (.setStartStack (← asStr q))
    | "add_f" => pure (.addFinal (← asStr q))
    | o => throw s!"bad PDA object op {o}"
  | _ => throw "bad PDA object op"

def jPDAObj (o : PDAObj.Obj) : Json :=
  Json.mkObj [("states", jList jStr o.states), ("inputs", jList jStr o.inputs), ("stack", jList jStr o.stack),
    ("start", jOpt jStr o.start), ("startStack", jOpt jStr o.startStack), ("finals", jList jStr o.finals),
    ("trans", jList (fun (e : PDAObj.Key × List PDAObj.Outcome) =>
      Json.arr #[Json.arr #[jStr e.1.1, jOpt jStr e.1.2.1, jStr e.1.2.2],
        jList (fun (out : PDAObj.Outcome) => Json.arr #[jStr out.1, jList jStr out.2]) e.2]) o.trans),
    ("num", jNat (PDAObj.numTransitions o.trans)),
    ("copyTrans", jList (fun (e : PDAObj.Key × List PDAObj.Outcome) =>
      Json.arr #[Json.arr #[jStr e.1.1, jOpt jStr e.1.2.1, jStr e.1.2.2],
        jList (fun (out : PDAObj.Outcome) => Json.arr #[jStr out.1, jList jStr out.2]) e.2]) (PDAObj.copyT o.trans))]

def pdaObjRun : PDAObj.Obj → List PDAObj.Op → List Json
  | _, [] => []
  | o, op :: ops => let o' := PDAObj.step o op; jPDAObj o' :: pdaObjRun o' ops

def pdaHandle (op : String) (j : Json) : R Json := do
  match op with
  | "pda.ofCFG" =>
    let G ← asCFG (← field j "G")
    pure (jPDA jStr jStr (PDA.ofCFG G))
  | "pda.objRun" =>   -- model of a PDA object built and extended through its API (C19)
    let i ← field j "init"
    let o₀ := PDAObj.mk (← asStrList (← field i "states")) (← asStrList (← field i "inputs"))
      (← asStrList (← field i "stack")) (← asOptStr (fieldD i "start" Json.null))
      (← asOptStr (fieldD i "startStack" Json.null)) (← asStrList (← field i "finals"))
    let ops ← (← asArr (← field j "ops")).mapM asPDAObjOp
    pure (Json.mkObj [("init", jPDAObj o₀), ("steps", Json.arr (pdaObjRun o₀ ops).toArray)])
  | _ =>
  let P ← asPDA (← field j "P")
  match op with
  | "pda.toFinalState" => pure (jPDA jStr jStr P.toFinalState)
  | "pda.toEmptyStack" => pure (jPDA jStr jStr P.toEmptyStack)
  | "pda.toCFG" => pure (jOpt jCFG (P.toCFG id id))
  | "pda.acc" =>   -- oracle
    let mode ← asStr (← field j "mode")
    let ws ← (← asArr (← field j "words")).mapM asStrList
    pure (jList (jOpt jBool) (ws.map fun w =>
      if mode == "final" then P.accFinal w pdaFuel else P.accEmpty w pdaFuel))
  | "pda.inter" =>
    let D ← asENFA (← field j "D")
    let symNames ← asStrList (← field j "symNames")
    let symOf : String → Option Nat := fun c => (symNames.zip (List.range symNames.length)).findSome?
      fun e => if e.1 = c then some e.2 else none
    match P.inter D symOf pdaFuel with
    | none => pure Json.null
    | some Q => pure (jPDA (jPair jStr jNat) jStr Q)
  | _ => throw s!"unknown op {op}"

end PflDrv
