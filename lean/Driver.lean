/- Line protocol: one JSON request per line on stdin, one JSON answer per line on stdout. -/
import PflDrv.FA
import PflDrv.CFG
import PflDrv.PDA
import PflDrv.FST
import PflDrv.Indexed
import PflDrv.Regex
import PflDrv.Feature
import PflDrv.Label
import PflDrv.Nx
import PflDrv.Text
open Lean PflDrv

def dispatch (j : Json) : R Json := do
  let op ← asStr (← field j "op")
  if op.startsWith "fa." then faHandle op j
  else if op.startsWith "cfg." then cfgHandle op j
  else if op.startsWith "pda." then pdaHandle op j
  else if op.startsWith "fst." then fstHandle op j
  else if op.startsWith "ig." then igHandle op j
  else if op.startsWith "rx." then rxHandle op j
  else if op.startsWith "fs." then fsHandle op j
  else if op.startsWith "lab." then labHandle op j
  else if op.startsWith "nx." then nxHandle op j
  else if op.startsWith "txt." then txtHandle op j
  else if op == "ping" then pure (Json.str "pong")
  else throw s!"unknown op {op}"

partial def loop (hin hout : IO.FS.Stream) : IO Unit := do
  let line ← hin.getLine
  if line.isEmpty then return ()
  let out := match Json.parse line with
    | .error e => Json.mkObj [("err", Json.str s!"parse: {e}")]
    | .ok j => match dispatch j with
      | .ok r => Json.mkObj [("ok", r)]
      | .error e => Json.mkObj [("err", Json.str e)]
  hout.putStrLn out.compress
  hout.flush
  loop hin hout

def main : IO Unit := do loop (← IO.getStdin) (← IO.getStdout)
