/-
C09 — remove_useless_symbols, remove_epsilon, eliminate_unit_productions keep the language
(the empty word excepted for remove_epsilon) and have the promised shape.
-/
import Pfl.Proofs.CFGBase
import Pfl.Props.C12_Classes
import Pfl.Proofs.CFGClean
namespace Pfl
namespace CFG

theorem mk'_prods (vars ters : List String) (start : Option String) (prods : List Prod) :
    (mk' vars ters start prods).prods = prods ∧ (mk' vars ters start prods).start = start := by
  exact ⟨rfl, rfl⟩

theorem mk'_wf (vars ters : List String) (start : Option String) (prods : List Prod) :
    (mk' vars ters start prods).WF := by
  exact Clean.mk'_wf vars ters start prods

theorem removeUseless_lang (G : CFG) (hG : G.WF) (w : List String) :
    G.removeUseless.Lang w ↔ G.Lang w := by
  exact Clean.removeUseless_lang G hG w

/-- in the result every symbol of every production is generating and reachable -/
theorem removeUseless_useful (G : CFG) (hG : G.WF) :
    ∀ p ∈ G.removeUseless.prods, ∀ s ∈ Sym.var p.1 :: p.2,
      s ∈ G.removeUseless.generating ∧ s ∈ G.removeUseless.reachable := by
  exact Clean.removeUseless_useful G hG

theorem removeEpsilon_lang (G : CFG) (w : List String) :
    G.removeEpsilon.Lang w ↔ G.Lang w ∧ w ≠ [] := by
  exact Clean.removeEpsilon_lang G w

theorem removeEpsilon_noEps (G : CFG) : ∀ p ∈ G.removeEpsilon.prods, p.2 ≠ [] := by
  exact Clean.removeEpsilon_noEps G

theorem elimUnit_lang (G : CFG) (hG : G.WF) (w : List String) : G.elimUnit.Lang w ↔ G.Lang w := by
  exact Clean.elimUnit_lang G hG w

theorem elimUnit_noUnit (G : CFG) : ∀ p ∈ G.elimUnit.prods, isUnit p = false := by
  exact Clean.elimUnit_noUnit G

end CFG
end Pfl
