/-
C03 — Boolean operations on automata compute the set-theoretic result.
-/
import Pfl.Proofs.FABase
namespace Pfl
namespace ENFA
variable {σ τ : Type} [DecidableEq σ] [DecidableEq τ]

theorem inter_lang (A : ENFA σ) (B : ENFA τ) (hA : A.WF) (hB : B.WF) (fuel : Nat)
    (P : ENFA (σ × τ)) (h : A.inter B fuel = some P) (w : List Nat) :
    P.Lang w ↔ A.Lang w ∧ B.Lang w := by
  sorry

/-- flip-and-complete is the complement relative to the automaton's own alphabet, for
deterministic automata with a start state and a fresh trash state -/
theorem complementRaw_lang (A : ENFA σ) (hA : A.WF) (hd : A.Deterministic)
    (hs : A.starts ≠ []) (trash : σ) (ht : trash ∉ A.states) (w : List Nat) :
    (A.complementRaw A.copyE trash).Lang w ↔ (∀ a ∈ w, a ∈ A.syms) ∧ ¬ A.Lang w := by
  sorry

theorem complementRaw_lang_dfa (A : ENFA σ) (hA : A.WF) (hd : A.Deterministic) (he : A.EpsFree)
    (hs : A.starts ≠ []) (trash : σ) (ht : trash ∉ A.states) (w : List Nat) :
    (A.complementRaw A.copyD trash).Lang w ↔ (∀ a ∈ w, a ∈ A.syms) ∧ ¬ A.Lang w := by
  sorry

end ENFA
end Pfl
