/-
C03 — Boolean operations on automata compute the set-theoretic result.
-/
import Pfl.Proofs.FABase
import Pfl.Proofs.FABool
namespace Pfl
namespace ENFA
variable {σ τ : Type} [DecidableEq σ] [DecidableEq τ]

theorem inter_lang (A : ENFA σ) (B : ENFA τ) (hA : A.WF) (hB : B.WF) (fuel : Nat)
    (P : ENFA (σ × τ)) (h : A.inter B fuel = some P) (w : List Nat) :
    P.Lang w ↔ A.Lang w ∧ B.Lang w :=
  inter_lang_aux A B hA hB fuel P h w

/-- flip-and-complete is the complement relative to the automaton's own alphabet, for
deterministic automata with a start state and a fresh trash state -/
theorem complementRaw_lang (A : ENFA σ) (hA : A.WF) (hd : A.Deterministic)
    (hs : A.starts ≠ []) (trash : σ) (ht : trash ∉ A.states) (w : List Nat) :
    (A.complementRaw A.copyE trash).Lang w ↔ (∀ a ∈ w, a ∈ A.syms) ∧ ¬ A.Lang w :=
  complementRaw_core A A.copyE hA hd hs trash ht
    (fun q => mem_ofParts_starts _ _ _ q) (fun q => mem_ofParts_finals _ _ _ q)
    (mem_copyE_delta A hA) w

theorem complementRaw_lang_dfa (A : ENFA σ) (hA : A.WF) (hd : A.Deterministic) (he : A.EpsFree)
    (hs : A.starts ≠ []) (trash : σ) (ht : trash ∉ A.states) (w : List Nat) :
    (A.complementRaw A.copyD trash).Lang w ↔ (∀ a ∈ w, a ∈ A.syms) ∧ ¬ A.Lang w :=
  complementRaw_core A A.copyD hA hd hs trash ht
    (mem_copyD_starts A hd) (fun q => mem_ofParts_finals _ _ _ q)
    (mem_copyD_delta A hA hd he) w

end ENFA
end Pfl
