/-
C19 — `Regex` objects behave as values.  Model: `Pfl/Model/RegexObject.lean` (a heap of objects
sharing their operands by address, the private state counter that is never reset, the counter lent to
and taken back from the sons, the automaton cached by `accepts`).

What is proved, for every history of public calls (`Regex(text)`, `union`, `concatenate`,
`kleene_star` — also with the same object as both operands —, `to_epsilon_nfa`, `accepts`):
* a call changes nothing but the counter (and the `accepts` cache) of the object it is called on:
  the sons get their counters back (`process_spec`, `toENFA_spec`);
* the automaton handed out is the Thompson automaton of the tree the object stands for, numbered from
  the object's current counter — the automaton a fresh object hands out, shifted (`thompson_shift`) —
  and it accepts exactly the denoted language whatever the counter (`toENFA_lang`);
* the tree an address stands for never changes (`step_inv`), every cache holds a Thompson automaton of
  that tree, and every answer of `accepts` is membership in the denoted language (`step_answer`,
  `history_independent`);
* every call ends (`process_isSome`, `step_isSome`).
-/
import Pfl.Spec.RegexObject
import Pfl.Proofs.RegexObject
import Pfl.Proofs.RegexObjectShift
import Pfl.Proofs.RegexObjectHist
import Pfl.Props.C05_Regex
import Pfl.Props.C01_Accepts
namespace Pfl
namespace RxObj
open Pfl.Rx

/-- on a well-formed heap every address stands for a tree; fuel `i + 1` suffices -/
theorem treeOf_isSome {H : Heap} (hwf : WF H = true) {i : Nat} (hi : i < H.length) :
    (treeOf (i + 1) H i).isSome :=
  P.treeOf_isSome hwf hi

/-- more fuel does not change the tree -/
theorem treeOf_mono {H : Heap} {fuel fuel' i : Nat} {r : Rx} (h : treeOf fuel H i = some r)
    (hle : fuel ≤ fuel') : treeOf fuel' H i = some r :=
  P.treeOf_mono h hle

/-- (1) `_process_to_enfa` on object `i` of a well-formed heap adds exactly the edges of the Thompson
construction of its tree, numbered from the object's counter, and leaves the heap as it was except for
that counter: the sons have their counters back -/
theorem process_spec (code : String → Nat) {fuel : Nat} {H H' : Heap} {i f t : Nat} {es : List Edge}
    (hwf : WF H = true) (h : process code fuel H i f t = some (es, H')) :
    ∃ r c, treeOf (i + 1) H i = some r ∧ counterOf H i = some c ∧
      es = (thompsonAux code r f t c).1 ∧ H' = setCounter H i (thompsonAux code r f t c).2 :=
  P.process_spec code hwf h

/-- (1') `_process_to_enfa` ends: fuel `i + 1` suffices -/
theorem process_isSome (code : String → Nat) {H : Heap} (hwf : WF H = true) {i : Nat}
    (hi : i < H.length) (f t : Nat) {fuel : Nat} (hf : i + 1 ≤ fuel) :
    (process code fuel H i f t).isSome :=
  P.process_isSome code hwf hi f t hf

/-- (2) `to_epsilon_nfa()`: the automaton of the tree, numbered from the current counter; only the
counter of the object itself moves -/
theorem toENFA_spec (code : String → Nat) {fuel : Nat} {H H' : Heap} {i : Nat} {A : ENFA Nat}
    (hwf : WF H = true) (h : toENFA code fuel H i = some (A, H')) :
    ∃ r c, treeOf (i + 1) H i = some r ∧ counterOf H i = some c ∧
      A = (r.thompson code c).1 ∧ H' = setCounter H i (r.thompson code c).2 :=
  P.toENFA_spec code hwf h

/-- (2') whatever the counter, the automaton handed out accepts exactly the denoted language -/
theorem toENFA_lang (code : String → Nat) {fuel : Nat} {H H' : Heap} {i : Nat} {A : ENFA Nat}
    (hwf : WF H = true) (h : toENFA code fuel H i = some (A, H')) :
    ∃ r, treeOf (i + 1) H i = some r ∧ ∀ ks, A.Lang ks ↔ ∃ w, Denote r w ∧ w.map code = ks :=
  P.toENFA_lang code hwf h

/-- the edges built from counter `c + k` (between `f + k` and `t + k`) are those built from `c`
(between `f` and `t`) with every state shifted by `k` -/
theorem thompsonAux_shift (code : String → Nat) (r : Rx) (f t c k : Nat) :
    thompsonAux code r (f + k) (t + k) (c + k) =
      ((thompsonAux code r f t c).1.map (fun e => (e.1 + k, e.2.1, e.2.2 + k)),
       (thompsonAux code r f t c).2 + k) :=
  PS.thompsonAux_shift code r f t c k

/-- (3) the automaton an object hands out after any history is the automaton a fresh object hands
out (counter `0`) with every state shifted by the current counter -/
theorem thompson_shift (code : String → Nat) (r : Rx) (c : Nat) :
    (r.thompson code c).1 = ((r.thompson code 0).1).mapStates (· + c) ∧
    (r.thompson code c).2 = (r.thompson code 0).2 + c :=
  PS.thompson_shift code r c

/-- the addresses a call creates are new, the old objects keep their trees -/
theorem step_inv (code : String → Nat) {fuel : Nat} {H H' : Heap} {op : Op} {out : Out}
    (hinv : Inv code H) (h : step code fuel H op = some (out, H')) :
    Inv code H' ∧ H.length ≤ H'.length ∧
      ∀ i, i < H.length → treeOf (i + 1) H' i = treeOf (i + 1) H i :=
  PH.step_inv code hinv h

/-- (4) every call answers what the trees determine, whatever the counters and caches are -/
theorem step_answer (code : String → Nat) {fuel : Nat} {H H' : Heap} {op : Op} {out : Out}
    (hinv : Inv code H) (h : step code fuel H op = some (out, H')) : Answer code H H' op out :=
  PH.step_answer code hinv h

/-- with an injective coding of the symbols, `accepts` is membership of the word itself -/
theorem accepts_exact (code : String → Nat) (hcode : Function.Injective code) {fuel : Nat}
    {H H' : Heap} {i : Nat} {w : List String} {b : Bool} (hinv : Inv code H)
    (h : accepts code fuel H i w = some (b, H')) :
    ∃ r, treeOf (i + 1) H i = some r ∧ b = r.matches w :=
  PH.accepts_exact code hcode hinv h

/-- (5) history independence: along any history from the empty heap the invariant holds and every
call answers what the trees determine — and the tree of an address is fixed when it is created -/
theorem history_independent (code : String → Nat) (fuel : Nat) (ops : List Op) :
    ∀ e ∈ trace code fuel [] ops, Inv code e.1 ∧ Inv code e.2.2.2 ∧ Answer code e.1 e.2.2.2 e.2.1 e.2.2.1 ∧
      ∀ i, i < e.1.length → treeOf (i + 1) e.2.2.2 i = treeOf (i + 1) e.1 i :=
  PH.history_independent code fuel ops

/-- (6) every call on valid addresses ends, fuel `|heap| + 1` suffices (a fresh tree is allocated
without fuel) -/
theorem step_isSome (code : String → Nat) {H : Heap} (hwf : WF H = true) {fuel : Nat}
    (hf : H.length + 1 ≤ fuel) (op : Op)
    (hop : match op with
      | .new _ => True
      | .union i j | .concat i j => i < H.length ∧ j < H.length
      | .star i | .toENFA i | .accepts i _ => i < H.length) :
    (step code fuel H op).isSome :=
  PH.step_isSome code hwf hf op hop

/-- the empty heap satisfies the invariant (the start of every history) -/
theorem inv_nil (code : String → Nat) : Inv code [] :=
  ⟨by decide, fun i o A h => by simp at h⟩

/-- non-vacuity: a concrete history with shared operands (`r.union(r)`), two conversions of the same
object and a cached `accepts` runs to the end, leaves a well-formed heap, and the counters have moved
(object 2 stands at 4 after one conversion, the union at 20 after two) while the sons of the union are
back at their own values -/
example :
    ((run (fun _ => 0) 20 [] [.new (.cat (.sym "a") (.sym "b")), .union 2 2, .toENFA 3,
        .accepts 3 ["a", "b"], .toENFA 2]).map fun r => (WF r.2, r.2.map (·.counter))) =
      some (true, [0, 0, 4, 20]) := by decide +kernel

end RxObj
end Pfl
