/-
C20 — the edge labels written by `to_networkx` for PDAs and transducers are read back by
`from_networkx` as the same components, for component texts that keep clear of the separators.
-/
import Pfl.Model.LabelCodec
namespace Pfl.LabelCodec.Lem
open Pfl.LabelCodec

theorem sepArrow_eq : sepArrow = [' ', '-', '>', ' '] := by decide
theorem sepSlash_eq : sepSlash = [' ', '/', ' '] := by decide

theorem splitOn_fuel (sep : List Char) (hsep : sep ≠ []) :
    ∀ (f1 f2 : Nat) (s cur : List Char), s.length ≤ f1 → s.length ≤ f2 →
      splitOn sep f1 s cur = splitOn sep f2 s cur := by
  intro f1
  induction f1 with
  | zero =>
    intro f2 s cur h1 h2
    have : s = [] := List.eq_nil_of_length_eq_zero (by omega)
    subst this
    cases f2 <;> simp [splitOn]
  | succ n ih =>
    intro f2 s cur h1 h2
    cases s with
    | nil => cases f2 <;> simp [splitOn]
    | cons c rest =>
      cases f2 with
      | zero => simp at h2
      | succ m =>
        have hl : 1 ≤ sep.length := by
          cases sep with
          | nil => exact absurd rfl hsep
          | cons _ _ => simp
        simp only [splitOn]
        split
        · congr 1
          apply ih
          · simp only [List.length_drop, List.length_cons] at *; omega
          · simp only [List.length_drop, List.length_cons] at *; omega
        · apply ih
          · simp only [List.length_cons] at *; omega
          · simp only [List.length_cons] at *; omega

theorem splitOn_none (sep : List Char) :
    ∀ (s : List Char) (fuel : Nat) (cur : List Char), ¬ sep <:+: s → s.length ≤ fuel →
      splitOn sep fuel s cur = [cur.reverse ++ s] := by
  intro s
  induction s with
  | nil => intro fuel cur _ _; cases fuel <;> simp [splitOn]
  | cons c rest ih =>
    intro fuel cur h hl
    cases fuel with
    | zero => simp at hl
    | succ n =>
      simp only [splitOn]
      have hnp : ¬ (sep.isPrefixOf (c :: rest) = true ∧ sep ≠ []) := by
        rintro ⟨hp, _⟩
        exact h (List.isPrefixOf_iff_prefix.mp hp).isInfix
      rw [if_neg hnp, ih]
      · simp
      · intro hi; exact h (hi.trans (List.suffix_cons c rest).isInfix)
      · simp at hl; omega

theorem split_none (sep s : List Char) (h : ¬ sep <:+: s) : split sep s = [s] := by
  unfold split
  rw [splitOn_none sep s _ [] h (by omega)]
  simp

theorem splitOn_first (sep : List Char) (hsep : sep ≠ []) (rest : List Char) :
    ∀ (a : List Char) (fuel : Nat) (cur : List Char), ¬ sep <:+: a ++ sep.dropLast →
      (a ++ sep ++ rest).length ≤ fuel →
      splitOn sep fuel (a ++ sep ++ rest) cur = (cur.reverse ++ a) :: split sep rest := by
  intro a
  induction a with
  | nil =>
    intro fuel cur _ hl
    obtain ⟨c, sep', rfl⟩ := List.exists_cons_of_ne_nil hsep
    cases fuel with
    | zero => simp at hl
    | succ n =>
      have hp : (c :: sep').isPrefixOf (c :: (sep' ++ rest)) = true := by
        rw [List.isPrefixOf_iff_prefix]
        exact List.prefix_append (c :: sep') rest
      simp only [List.nil_append, List.cons_append, splitOn]
      rw [if_pos ⟨hp, hsep⟩]
      have hd : List.drop (c :: sep').length (c :: (sep' ++ rest)) = rest := by
        simp
      rw [hd]
      simp only [List.append_nil, split]
      congr 1
      apply splitOn_fuel _ hsep
      · simp at hl; omega
      · omega
  | cons x a' ih =>
    intro fuel cur h hl
    cases fuel with
    | zero => simp at hl
    | succ n =>
      have hnp : ¬ (sep.isPrefixOf (x :: (a' ++ sep ++ rest)) = true ∧ sep ≠ []) := by
        rintro ⟨hp, _⟩
        rw [List.isPrefixOf_iff_prefix] at hp
        apply h
        apply List.IsPrefix.isInfix
        have h2 : (x :: a' ++ sep.dropLast) <+: x :: (a' ++ sep ++ rest) := by
          have : x :: (a' ++ sep ++ rest) = (x :: a' ++ sep.dropLast) ++ (sep.drop (sep.length - 1) ++ rest) := by
            rw [List.dropLast_eq_take]
            simp only [List.cons_append, List.append_assoc]
            congr 2
            rw [← List.append_assoc, List.take_append_drop]
          rw [this]
          exact List.prefix_append _ _
        refine List.prefix_of_prefix_length_le hp h2 ?_
        have : 1 ≤ sep.length := by
          cases sep with
          | nil => exact absurd rfl hsep
          | cons _ _ => simp
        simp; omega
      simp only [List.cons_append, splitOn]
      rw [if_neg hnp, ih]
      · simp
      · intro hi; exact h (hi.trans (List.suffix_cons x _).isInfix)
      · simp at hl ⊢; omega

theorem split_first (sep : List Char) (hsep : sep ≠ []) (a rest : List Char)
    (h : ¬ sep <:+: a ++ sep.dropLast) : split sep (a ++ sep ++ rest) = a :: split sep rest := by
  have := splitOn_first sep hsep rest a ((a ++ sep ++ rest).length + 1) [] h (by omega)
  simpa [split] using this


/-- an occurrence of `u :: v :: sep'` in `a ++ b` has its first two characters in `a`, or straddles
the boundary, or lies in `b` -/
theorem infix_append_cases (u v : Char) (sep' b : List Char) :
    ∀ a : List Char, (u :: v :: sep') <:+: a ++ b →
      [u, v] <:+: a ∨ (a.getLast? = some u ∧ b.head? = some v) ∨ (u :: v :: sep') <:+: b := by
  intro a
  induction a with
  | nil => intro h; exact Or.inr (Or.inr (by simpa using h))
  | cons x a' ih =>
    intro h
    rw [List.cons_append, List.infix_cons_iff] at h
    rcases h with h | h
    · rw [List.cons_prefix_cons] at h
      obtain ⟨rfl, h⟩ := h
      cases a' with
      | nil =>
        cases b with
        | nil => simp at h
        | cons y b' =>
          rw [List.nil_append, List.cons_prefix_cons] at h
          exact Or.inr (Or.inl ⟨by simp, by simp [h.1]⟩)
      | cons y a'' =>
        rw [List.cons_append, List.cons_prefix_cons] at h
        obtain ⟨rfl, -⟩ := h
        exact Or.inl (List.IsPrefix.isInfix (List.prefix_append [u, v] a''))
    · rcases ih h with h | ⟨h1, h2⟩ | h
      · exact Or.inl (h.trans (List.suffix_cons x a').isInfix)
      · refine Or.inr (Or.inl ⟨?_, h2⟩)
        cases a' with
        | nil => simp at h1
        | cons y a'' => simpa using h1
      · exact Or.inr (Or.inr h)

end Pfl.LabelCodec.Lem

namespace Pfl
namespace LabelCodec
open Pfl.LabelCodec.Lem

/-- exact side conditions: the first occurrence of each separator is the one written -/
theorem readPdaLabel_pdaLabel (i f t : List Char)
    (h1 : ¬ sepArrow <:+: i ++ sepArrow.dropLast)
    (h2 : ¬ sepArrow <:+: f ++ sepSlash ++ t)
    (h3 : ¬ sepSlash <:+: f ++ sepSlash.dropLast)
    (h4 : ¬ sepSlash <:+: t) :
    readPdaLabel (pdaLabel i f t) = some (i, f, t) := by
  have e : pdaLabel i f t = i ++ sepArrow ++ (f ++ sepSlash ++ t) := by
    simp [pdaLabel, List.append_assoc]
  have ha : sepArrow ≠ [] := by decide
  have hs : sepSlash ≠ [] := by decide
  unfold readPdaLabel
  rw [e, split_first sepArrow ha i _ h1, split_none sepArrow _ h2]
  simp only
  rw [split_first sepSlash hs f _ h3, split_none sepSlash _ h4]

theorem readFstLabel_fstLabel (i o : List Char)
    (h1 : ¬ sepArrow <:+: i ++ sepArrow.dropLast)
    (h2 : ¬ sepArrow <:+: o) :
    readFstLabel (fstLabel i o) = some (i, o) := by
  have ha : sepArrow ≠ [] := by decide
  unfold readFstLabel fstLabel
  rw [split_first sepArrow ha i _ h1, split_none sepArrow _ h2]

/-- a simple sufficient class (what property C20 quantifies over, seen through `json.dumps`):
texts in which a blank is never followed by '-' or '/', which do not end with a blank and do not
start with "-> " (the last condition is needed: see `readPdaLabel_clear_needs_prefix_condition`) -/
def Clear (s : List Char) : Prop :=
  ¬ [' ', '-'] <:+: s ∧ ¬ [' ', '/'] <:+: s ∧ s.getLast? ≠ some ' ' ∧ ¬ ['-', '>', ' '] <+: s

namespace Lem

theorem clear_arrow_dropLast {s : List Char} (h : Clear s) :
    ¬ sepArrow <:+: s ++ sepArrow.dropLast := by
  intro hi
  rw [sepArrow_eq] at hi
  rcases infix_append_cases _ _ _ _ s hi with h' | ⟨h', -⟩ | h'
  · exact h.1 h'
  · exact h.2.2.1 h'
  · have := h'.length_le; simp at this

theorem clear_slash_dropLast {s : List Char} (h : Clear s) :
    ¬ sepSlash <:+: s ++ sepSlash.dropLast := by
  intro hi
  rw [sepSlash_eq] at hi
  rcases infix_append_cases _ _ _ _ s hi with h' | ⟨h', -⟩ | h'
  · exact h.2.1 h'
  · exact h.2.2.1 h'
  · have := h'.length_le; simp at this

theorem clear_arrow {s : List Char} (h : Clear s) : ¬ sepArrow <:+: s := by
  intro hi
  rw [sepArrow_eq] at hi
  exact h.1 ((List.prefix_append [' ', '-'] ['>', ' ']).isInfix.trans hi)

theorem clear_slash {s : List Char} (h : Clear s) : ¬ sepSlash <:+: s := by
  intro hi
  rw [sepSlash_eq] at hi
  exact h.2.1 ((List.prefix_append [' ', '/'] [' ']).isInfix.trans hi)

theorem clear_arrow_mid {f t : List Char} (hf : Clear f) (ht : Clear t) :
    ¬ sepArrow <:+: f ++ sepSlash ++ t := by
  intro hi
  rw [List.append_assoc, sepArrow_eq, sepSlash_eq] at hi
  rcases infix_append_cases _ _ _ _ f hi with h' | ⟨h', -⟩ | h'
  · exact hf.1 h'
  · exact hf.2.2.1 h'
  · have h'' : [' ', '-', '>', ' '] <:+: ' ' :: '/' :: ' ' :: t := h'
    rw [List.infix_cons_iff, List.infix_cons_iff, List.infix_cons_iff] at h''
    rcases h'' with h'' | h'' | h'' | h''
    · simp [List.cons_prefix_cons] at h''
    · simp [List.cons_prefix_cons] at h''
    · rw [List.cons_prefix_cons] at h''
      exact ht.2.2.2 h''.2
    · exact clear_arrow ht (by rw [sepArrow_eq]; exact h'')

end Lem

theorem readPdaLabel_pdaLabel_clear (i f t : List Char) (hi : Clear i) (hf : Clear f) (ht : Clear t) :
    readPdaLabel (pdaLabel i f t) = some (i, f, t) :=
  readPdaLabel_pdaLabel i f t (clear_arrow_dropLast hi) (clear_arrow_mid hf ht)
    (clear_slash_dropLast hf) (clear_slash ht)

theorem readFstLabel_fstLabel_clear (i o : List Char) (hi : Clear i) (ho : Clear o) :
    readFstLabel (fstLabel i o) = some (i, o) :=
  readFstLabel_fstLabel i o (clear_arrow_dropLast hi) (clear_arrow ho)

/-- the side conditions matter: a component containing the separator is not read back -/
theorem readFstLabel_counterexample :
    readFstLabel (fstLabel "\"a -> b\"".toList "[]".toList) = none := by
  decide

/-- the fourth conjunct of `Clear` is needed: three texts satisfying the first three conjuncts
whose label is not read back (the trailing blank of " / " and a stack text starting with "-> "
form a new " -> "): "1 -> a / -> x" splits into "1", "a /", "x" -/
theorem readPdaLabel_clear_needs_prefix_condition :
    (∀ s ∈ ["1".toList, "a".toList, "-> x".toList],
      ¬ [' ', '-'] <:+: s ∧ ¬ [' ', '/'] <:+: s ∧ s.getLast? ≠ some ' ') ∧
    readPdaLabel (pdaLabel "1".toList "a".toList "-> x".toList) = none := by
  decide

end LabelCodec
end Pfl
