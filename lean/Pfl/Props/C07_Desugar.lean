/-
C07 — the reference translation of the Python subset into plain regular expressions denotes
exactly the meaning of the pattern (so the executable matcher `Rx.matches (desugar U p)` decides
`Matches U p`, which is what the harness compares with CPython's `re.fullmatch` on every case and
with the tree built by `PythonRegex` through the verified equivalence oracle).
-/
import Pfl.Model.PyRegex
import Pfl.Spec.Regex
import Pfl.Props.C05_Regex
import Pfl.Proofs.PyRegexLemmas
namespace Pfl
namespace PyRx

open Pfl.PyRx.Lem Rx

def word (w : List Char) : List String := w.map String.singleton

/-- every `{m,n}` inside the pattern has `m ≤ n` (Python rejects the others at compile time) -/
def WellFormed : P → Prop
  | .lit _ => True
  | .dot => True
  | .short _ => True
  | .set _ _ => True
  | .cat a b => WellFormed a ∧ WellFormed b
  | .alt a b => WellFormed a ∧ WellFormed b
  | .star a => WellFormed a
  | .plus a => WellFormed a
  | .opt a => WellFormed a
  | .rep a m n => WellFormed a ∧ m ≤ n

/-- counterexample to the unrestricted `desugar_denote`: `a{2,1}` on the word `aa` -/
theorem desugar_denote_needs_wellformed :
    ¬ (∀ (U : List Char) (p : P) (w : List Char),
        Rx.Denote (desugar U p) (word w) ↔ Matches U p w) := by
  intro h
  have h1 : Rx.Denote (desugar [] (.rep (.lit 'a') 2 1)) (word ['a', 'a']) := by
    rw [← Rx.matches_iff]; decide
  obtain ⟨ws, -, h2, h3, -⟩ := (Lem.rep_iff _ _ _ _ _).mp ((h _ _ _).mp h1)
  omega

theorem desugar_denote (U : List Char) (p : P) (hp : WellFormed p) (w : List Char) :
    Rx.Denote (desugar U p) (word w) ↔ Matches U p w := by
  induction p generalizing w with
  | lit c =>
    show Denote (.sym (String.singleton c)) (wd w) ↔ _
    rw [sym_denote, wd_eq_single]
    constructor
    · rintro rfl; exact Matches.lit c
    · intro h; cases h; rfl
  | dot =>
    show Denote (anyOf _) (wd w) ↔ _
    rw [anyOf_denote_wd]
    constructor
    · rintro ⟨c, hc, rfl⟩
      rw [List.mem_filter] at hc
      exact Matches.dot hc.1 (by simpa using hc.2)
    · intro h
      cases h with
      | @dot c h1 h2 => exact ⟨c, by simp [List.mem_filter, h1, h2], rfl⟩
  | short k =>
    show Denote (anyOf _) (wd w) ↔ _
    rw [anyOf_denote_wd]
    constructor
    · rintro ⟨c, hc, rfl⟩; exact Matches.short hc
    · intro h
      cases h with
      | @short _ c h1 => exact ⟨c, h1, rfl⟩
  | set neg items =>
    show Denote (anyOf _) (wd w) ↔ _
    rw [anyOf_denote_wd]
    constructor
    · rintro ⟨c, hc, rfl⟩
      rcases (mem_setChars _ _ _ _).mp hc with ⟨rfl, h1, h2⟩ | ⟨rfl, h1⟩
      · exact Matches.setNeg h1 h2
      · exact Matches.setPos h1
    · intro h
      cases h with
      | @setPos _ c h1 => exact ⟨c, (mem_setChars _ _ _ _).mpr (Or.inr ⟨rfl, h1⟩), rfl⟩
      | @setNeg _ c h1 h2 => exact ⟨c, (mem_setChars _ _ _ _).mpr (Or.inl ⟨rfl, h1, h2⟩), rfl⟩
  | cat a b iha ihb =>
    show Denote (.cat _ _) (wd w) ↔ _
    rw [cat_denote]
    constructor
    · rintro ⟨u, v, h, hu, hv⟩
      obtain ⟨u', v', rfl, rfl, rfl⟩ := wd_eq_append.mp h
      exact Matches.cat ((iha hp.1 _).mp hu) ((ihb hp.2 _).mp hv)
    · intro h
      cases h with
      | @cat _ _ u v hu hv =>
        exact ⟨wd u, wd v, by simp [wd], (iha hp.1 _).mpr hu, (ihb hp.2 _).mpr hv⟩
  | alt a b iha ihb =>
    show Denote (.alt _ _) (wd w) ↔ _
    rw [alt_denote]
    constructor
    · rintro (h | h)
      · exact Matches.altL ((iha hp.1 _).mp h)
      · exact Matches.altR ((ihb hp.2 _).mp h)
    · intro h
      cases h with
      | altL h => exact Or.inl ((iha hp.1 _).mpr h)
      | altR h => exact Or.inr ((ihb hp.2 _).mpr h)
  | star a iha =>
    show Denote (.star _) (wd w) ↔ _
    rw [star_denote, star_iff]
    simpa using blocks_transfer (fun _ => True) (iha hp) w
  | plus a iha =>
    have hstar : ∀ v, Denote (.star (desugar U a)) (wd v) ↔ Matches U (.star a) v := by
      intro v
      rw [star_denote, star_iff]
      simpa using blocks_transfer (fun _ => True) (iha hp) v
    show Denote (.cat _ (.star _)) (wd w) ↔ _
    rw [cat_denote]
    constructor
    · rintro ⟨u, v, h, hu, hv⟩
      obtain ⟨u', v', rfl, rfl, rfl⟩ := wd_eq_append.mp h
      exact Matches.plus ((iha hp _).mp hu) ((hstar _).mp hv)
    · intro h
      cases h with
      | @plus _ u v hu hv =>
        exact ⟨wd u, wd v, by simp [wd], (iha hp _).mpr hu, (hstar _).mpr hv⟩
  | opt a iha =>
    show Denote (.alt _ .eps) (wd w) ↔ _
    rw [alt_denote, eps_denote, wd_eq_nil]
    constructor
    · rintro (h | rfl)
      · exact Matches.optSome ((iha hp _).mp h)
      · exact Matches.optNone
    · intro h
      cases h with
      | optNone => exact Or.inr rfl
      | optSome h => exact Or.inl ((iha hp _).mpr h)
  | rep a m n iha =>
    show Denote (.cat (copies _ m) (optCopies _ (n - m))) (wd w) ↔ _
    rw [repRx_denote, Lem.rep_iff]
    have hmn : m + (n - m) = n := by have := hp.2; omega
    rw [hmn]
    simpa only [and_assoc] using blocks_transfer (fun k => m ≤ k ∧ k ≤ n) (iha hp.1) w

/-- the translation only speaks about single characters -/
theorem desugar_chars (U : List Char) (p : P) (ws : List String) (h : Rx.Denote (desugar U p) ws) :
    ∃ w, ws = word w := by
  have hany : ∀ cs ws, Denote (anyOf cs) ws → ∃ w, ws = word w := by
    intro cs ws h
    obtain ⟨c, -, rfl⟩ := (anyOf_denote cs ws).mp h
    exact ⟨[c], rfl⟩
  induction p generalizing ws with
  | lit c =>
    have h : Denote (.sym (String.singleton c)) ws := h
    rw [sym_denote] at h
    exact ⟨[c], h⟩
  | dot => exact hany _ _ h
  | short k => exact hany _ _ h
  | set neg items => exact hany _ _ h
  | cat a b iha ihb =>
    have h : Denote (.cat (desugar U a) (desugar U b)) ws := h
    obtain ⟨u, v, rfl, hu, hv⟩ := (cat_denote _ _ _).mp h
    obtain ⟨u', rfl⟩ := iha _ hu
    obtain ⟨v', rfl⟩ := ihb _ hv
    exact ⟨u' ++ v', by simp [word]⟩
  | alt a b iha ihb =>
    have h : Denote (.alt (desugar U a) (desugar U b)) ws := h
    rcases (alt_denote _ _ _).mp h with h | h
    · exact iha _ h
    · exact ihb _ h
  | star a iha =>
    have h : Denote (.star (desugar U a)) ws := h
    obtain ⟨ls, rfl, hall⟩ := (star_denote _ _).mp h
    exact flatten_is_wd (fun x hx => iha x (hall x hx))
  | plus a iha =>
    have h : Denote (.cat (desugar U a) (.star (desugar U a))) ws := h
    obtain ⟨u, v, rfl, hu, hv⟩ := (cat_denote _ _ _).mp h
    obtain ⟨ls, rfl, hall⟩ := (star_denote _ _).mp hv
    exact flatten_is_wd (ls := u :: ls) (fun x hx => by
      rcases List.mem_cons.mp hx with rfl | hx
      · exact iha _ hu
      · exact iha x (hall x hx))
  | opt a iha =>
    have h : Denote (.alt (desugar U a) .eps) ws := h
    rcases (alt_denote _ _ _).mp h with h | h
    · exact iha _ h
    · exact ⟨[], (eps_denote _).mp h⟩
  | rep a m n iha =>
    have h : Denote (.cat (copies (desugar U a) m) (optCopies (desugar U a) (n - m))) ws := h
    obtain ⟨ls, rfl, -, -, hall⟩ := (repRx_denote _ _ _ _).mp h
    exact flatten_is_wd (fun x hx => iha x (hall x hx))

/-- the executable matcher decides the meaning (for patterns whose `{m,n}` have `m ≤ n`) -/
theorem matches_iff_Matches (U : List Char) (p : P) (hp : WellFormed p) (w : List Char) :
    (desugar U p).matches (word w) = true ↔ Matches U p w := by
  rw [Rx.matches_iff]; exact desugar_denote U p hp w

/-- `{m,n}` means between `m` and `n` copies -/
theorem rep_iff (U : List Char) (a : P) (m n : Nat) (w : List Char) :
    Matches U (.rep a m n) w ↔
      ∃ ws : List (List Char), w = ws.flatten ∧ m ≤ ws.length ∧ ws.length ≤ n ∧ ∀ x ∈ ws, Matches U a x :=
  Lem.rep_iff U a m n w

end PyRx
end Pfl
