/-
C17 — the library's own marking loop (`IndexedGrammar.is_empty()` as written: rule-by-rule
passes, subset shortcuts and delayed additions in `_duplication_processing`, `addrec_bis` /
`addrec_ter`, the 'is it useful' branch, the edge case, the early stops), modelled step by step in
`Pfl/Model/IndexedMark.lean`, is exact: whenever it answers, the verdict is emptiness of the
language.  Hence the verdict depends neither on the order of the rules nor on the order in which
Python iterates its sets.
-/
import Pfl.Spec.Indexed
import Pfl.Proofs.IndexedMarkClosed
import Pfl.Props.C17_Indexed
namespace Pfl
namespace IG
open Pfl.IG.Lib Pfl.IG.LibP Pfl.IG.Lem

/-- a table between the initial one and a closed one is closed as soon as a whole pass reports no
modification and no stop -/
theorem closed_of_pass {G : IG} {ord : List SetS → List SetS} (hord : OrdOK ord) {T : Table}
    (hinit : Sub (initTable G) T)
    (hm : (pass ord G (libRules G) T false).2.1 = false)
    (hs : (pass ord G (libRules G) T false).2.2 = false) :
    (pass ord G (libRules G) T false).1 = T ∧ ClosedT G T := by
  obtain ⟨h1, h2⟩ := pass_clean hord G (libRules G) T hm hs
  refine ⟨h1, ?_, ?_, ?_, ?_⟩
  · intro a ha
    exact hinit _ _ (mem_get_initTable.mpr (Or.inl ⟨ha, rfl⟩))
  · intro a t hr
    exact hinit _ _ (mem_get_initTable.mpr (Or.inr
      ⟨mem_nonTerminals_of_rule hr (by simp), hasEnd_iff.mpr ⟨t, hr⟩, rfl⟩))
  · intro a b c hr
    exact h2 _ (mem_libRules.mpr ⟨hr, rfl⟩)
  · intro a b f hr
    exact h2 _ (mem_libRules.mpr ⟨hr, rfl⟩)

/-- the `while` loop from any sound table above the initial one -/
theorem loop_iff {G : IG} {ord : List SetS → List SetS} (hord : OrdOK ord) :
    ∀ (fuel : Nat) (T : Table) (b : Bool), Sub (initTable G) T → GoodT G T →
      loop ord G fuel T = some b → (b = true ↔ ¬ G.NonEmpty) := by
  intro fuel
  induction fuel with
  | zero => intro T b _ _ h; simp [loop] at h
  | succ n ih =>
    intro T b hinit hgood h
    obtain ⟨hsub, hg, hstop⟩ := pass_sound hord (libRules G)
      (fun r hr => (mem_libRules.mp hr).1) T false hgood
    unfold loop at h
    simp only [] at h
    split at h
    · rename_i hs
      simp only [Option.some.injEq] at h
      subst h
      simp only [Bool.false_eq_true, false_iff]
      exact fun hn => hn (hstop hs)
    · rename_i hs
      split at h
      · exact ih _ b (hinit.trans hsub) hg h
      · rename_i hm
        simp only [Option.some.injEq] at h
        subst h
        have hm' : (pass ord G (libRules G) T false).2.1 = false := by simpa using hm
        have hs' : (pass ord G (libRules G) T false).2.2 = false := by simpa using hs
        obtain ⟨h1, hcl⟩ := closed_of_pass hord hinit hm' hs'
        rw [h1]
        simp only [Bool.not_eq_true', decide_eq_false_iff_not]
        constructor
        · intro hn hne
          exact hn (closed_complete hcl G.start (start_mem_nonTerminals G) hne)
        · intro hne hmem
          exact hne (nonEmpty_of_good (hgood _ _ hmem))

/-- exactness of the library loop for every iteration order of the sets -/
theorem isEmptyLibO_iff (G : IG) (ord : List SetS → List SetS)
    (hord : ∀ l x, x ∈ ord l ↔ x ∈ l) (fuel : Nat) (b : Bool)
    (h : isEmptyLibO ord G fuel = some b) : b = true ↔ ¬ G.NonEmpty :=
  loop_iff hord fuel (initTable G) b (Sub.refl _) (initTable_good G) h

/-- `is_empty()` as the library computes it: whenever the loop answers, the verdict is the exact one -/
theorem isEmptyLib_iff (G : IG) (fuel : Nat) (b : Bool) (h : isEmptyLib G fuel = some b) :
    b = true ↔ ¬ G.NonEmpty :=
  isEmptyLibO_iff G id (fun _ _ => Iff.rfl) fuel b h

/-- soundness half: the answer "not empty" (in particular every early stop) is justified -/
theorem isEmptyLib_false_nonEmpty (G : IG) (fuel : Nat) (h : isEmptyLib G fuel = some false) :
    G.NonEmpty := by
  have := (isEmptyLib_iff G fuel false h)
  simpa using this

/-- the library loop and the saturation model agree whenever both answer -/
theorem isEmptyLib_eq_isEmpty (G : IG) (fuel fuel' : Nat) (b b' : Bool)
    (h : isEmptyLib G fuel = some b) (h' : G.isEmpty fuel' = some b') : b = b' := by
  have h1 := isEmptyLib_iff G fuel b h
  have h2 := isEmpty_iff G fuel' b' h'
  cases b <;> cases b' <;> simp_all

/-- the language does not depend on the order (nor the multiplicity) of the rules -/
theorem nonEmpty_congr {G G' : IG} (hr : ∀ r, r ∈ G.rules ↔ r ∈ G'.rules)
    (hs : G.start = G'.start) : G.NonEmpty ↔ G'.NonEmpty := by
  unfold NonEmpty
  rw [hs]
  exact ⟨derivable_mono (fun r h => (hr r).mp h), derivable_mono (fun r h => (hr r).mpr h)⟩

theorem nonEmpty_perm {G G' : IG} (hp : G.rules.Perm G'.rules) (hs : G.start = G'.start) :
    G.NonEmpty ↔ G'.NonEmpty :=
  nonEmpty_congr (fun _ => hp.mem_iff) hs

/-- the verdict of the library loop does not depend on the order of the rules, nor on the
iteration order of the sets -/
theorem isEmptyLibO_perm {G G' : IG} (ord ord' : List SetS → List SetS)
    (hord : ∀ l x, x ∈ ord l ↔ x ∈ l) (hord' : ∀ l x, x ∈ ord' l ↔ x ∈ l)
    (hp : G.rules.Perm G'.rules) (hs : G.start = G'.start) {f f' : Nat} {b b' : Bool}
    (h : isEmptyLibO ord G f = some b) (h' : isEmptyLibO ord' G' f' = some b') : b = b' := by
  have h1 := isEmptyLibO_iff G ord hord f b h
  have h2 := isEmptyLibO_iff G' ord' hord' f' b' h'
  have h3 := nonEmpty_perm hp hs
  cases b <;> cases b' <;> simp_all

/-- property C17 for the library loop: permuting the rules keeps the verdict -/
theorem isEmptyLib_perm {G G' : IG} (hp : G.rules.Perm G'.rules) (hs : G.start = G'.start)
    {f f' : Nat} {b b' : Bool}
    (h : isEmptyLib G f = some b) (h' : isEmptyLib G' f' = some b') : b = b' :=
  isEmptyLibO_perm id id (fun _ _ => Iff.rfl) (fun _ _ => Iff.rfl) hp hs h h'

/-- same grammar, two iteration orders of the sets (e.g. two values of PYTHONHASHSEED) -/
theorem isEmptyLibO_ord (G : IG) (ord ord' : List SetS → List SetS)
    (hord : ∀ l x, x ∈ ord l ↔ x ∈ l) (hord' : ∀ l x, x ∈ ord' l ↔ x ∈ l) {f f' : Nat}
    {b b' : Bool} (h : isEmptyLibO ord G f = some b) (h' : isEmptyLibO ord' G f' = some b') :
    b = b' :=
  isEmptyLibO_perm ord ord' hord hord' (List.Perm.refl _) rfl h h'

/-- at a regular end of the loop (no early stop) the table is closed under all rules and sound:
it marks `∅` for exactly the non-terminals that derive a terminal word with the empty stack -/
theorem regular_end_table {G : IG} {ord : List SetS → List SetS}
    (hord : ∀ l x, x ∈ ord l ↔ x ∈ l) {T : Table} (hinit : Sub (initTable G) T) (hgood : GoodT G T)
    (hm : (pass ord G (libRules G) T false).2.1 = false)
    (hs : (pass ord G (libRules G) T false).2.2 = false) (a : String) (ha : a ∈ G.nonTerminals) :
    [] ∈ get T a ↔ G.Derivable a [] := by
  obtain ⟨_, hcl⟩ := closed_of_pass hord hinit hm hs
  constructor
  · intro h
    exact hgood _ _ h [] (fun _ hb => by cases hb)
  · exact closed_complete hcl a ha

/-- the trace function runs the same pass -/
theorem passTr_pass (ord : List SetS → List SetS) (G : IG) (rs : List IRule) :
    ∀ (T : Table) (mod : Bool), (passTr ord G rs T mod).2 = pass ord G rs T mod := by
  induction rs with
  | nil => intro T mod; rfl
  | cons r rs ih =>
    intro T mod
    unfold passTr pass
    simp only []
    split
    · rfl
    · exact ih _ _

/-! ### the hypotheses are satisfiable: the loop answers on concrete grammars -/

/-- all four rule kinds; `S[] ⇒ T[g] ⇒ T[fg] ⇒ A[fg] B[fg] ⇒* a a` -/
def nvLib1 : IG :=
  { start := "S"
    rules := [.prod "S" "T" "g", .prod "T" "T" "f", .dup "T" "A" "B", .cons "f" "A" "A",
              .cons "g" "A" "E", .cons "f" "B" "B", .cons "g" "B" "E", .end_ "E" "a"] }

/-- the same with `B` waiting for an index `h` that is never pushed: empty language (regular end
of the loop) -/
def nvLib2 : IG :=
  { start := "S"
    rules := [.prod "S" "T" "g", .prod "T" "T" "f", .dup "T" "A" "B", .cons "f" "A" "A",
              .cons "g" "A" "E", .cons "f" "B" "B", .cons "h" "B" "E", .end_ "E" "a"] }

theorem nv_isEmptyLib :
    isEmptyLib nvLib1 20 = some false ∧ isEmptyLib nvLib2 20 = some true ∧
    isEmptyLib { nvLib1 with rules := nvLib1.rules.reverse } 20 = some false ∧
    isEmptyLibO List.reverse nvLib2 20 = some true ∧
    (traceLib nvLib2 20).length = 6 := by decide +kernel

end IG
end Pfl
