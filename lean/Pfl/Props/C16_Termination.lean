/-
C16 — termination (fuel sufficiency) of `FST.translate`.

The exploration pops configurations `(remaining input, generated output, state)`; a configuration
already seen is skipped (its pop still consumes fuel), a new one is expanded once and pushes at most
`|delta|` successors.  Hence `|starts| + |delta| * N` pops are enough when all configurations met
lie in a set of `N` configurations.  With `L = maxOut T` (the longest output of a transition) the
configurations whose generated word has length at most `B` number at most

  `cfgCount T w B = (|w| + 1) * ((|delta| * L + 1) ^ B * (|starts| + |delta|))`

(suffixes of `w` × words of length ≤ `B` over the ≤ `|delta| * L` output symbols of `delta` ×
start states and targets of transitions) and `fuelFor T w B = |starts| + |delta| * cfgCount T w B`.

(T1) `translate_bounded_isSome`: with `max_length = m` every generated word has length at most
     `m + L * (|w| + 1)`; no hypothesis on the transducer.
(T2) `translate_isSome`: without bound, when ε-cycles are silent an ε-path writes at most
     `|delta| * L` symbols (`eps_out_le`: cut the cycles out), so every generated word has length at
     most `silentBound T w = (|delta| * L + L) * |w| + |delta| * L`.
(T3) `translate_total`: total correctness; `translate_diverges`: with an output-writing ε-loop
     and no bound the model runs out of every fuel (the generator of the library runs for ever).

Helper lemmas: `Pfl/Proofs/FSTTermination.lean`, `Pfl/Proofs/FSTTerminationBounds.lean`
(namespace `Pfl.FST.Term`).
-/
import Pfl.Proofs.FSTTerminationBounds
import Pfl.Props.C16_FST

namespace Pfl
namespace FST
open Lem Term
variable {σ : Type} [DecidableEq σ]

/-! ## (T1) with a length bound -/

/-- with `max_length = m` the exploration ends within
`|starts| + |delta| * cfgCount T w (m + L * (|w| + 1))` pops, for every transducer -/
theorem translate_bounded_isSome (T : FST σ) (w : List String) (m fuel : Nat)
    (hf : fuelFor T w (m + maxOut T * (w.length + 1)) ≤ fuel) :
    (T.translate w (some m) fuel).isSome :=
  Term.translate_bounded_isSome T w m fuel hf

omit [DecidableEq σ] in
/-- the bound of (T1) spelled out -/
theorem bounded_fuel_eq (T : FST σ) (w : List String) (m : Nat) :
    fuelFor T w (m + maxOut T * (w.length + 1)) =
      T.starts.length + T.delta.length * ((w.length + 1) *
        ((T.delta.length * maxOut T + 1) ^ (m + maxOut T * (w.length + 1)) *
          (T.starts.length + T.delta.length))) := rfl

/-! ## (T2) without bound, silent ε-cycles -/

/-- an ε-path of a transducer with silent ε-cycles writes at most `|delta| * L` symbols -/
theorem eps_out_le (T : FST σ) (hS : EpsCyclesSilent T) (q r : σ) (o : List String)
    (h : T.Path q [] o r) : o.length ≤ T.delta.length * maxOut T :=
  Term.eps_out_le hS h

/-- without length bound the exploration ends within
`|starts| + |delta| * cfgCount T w (silentBound T w)` pops when ε-cycles write nothing -/
theorem translate_isSome (T : FST σ) (hS : EpsCyclesSilent T) (w : List String) (fuel : Nat)
    (hf : fuelFor T w (silentBound T w) ≤ fuel) : (T.translate w none fuel).isSome :=
  Term.translate_isSome T hS w fuel hf

omit [DecidableEq σ] in
/-- the bound of (T2) spelled out -/
theorem silent_fuel_eq (T : FST σ) (w : List String) :
    fuelFor T w (silentBound T w) =
      T.starts.length + T.delta.length * ((w.length + 1) *
        ((T.delta.length * maxOut T + 1) ^
            ((T.delta.length * maxOut T + maxOut T) * w.length + T.delta.length * maxOut T) *
          (T.starts.length + T.delta.length))) := rfl

/-- a decidable sufficient criterion for `EpsCyclesSilent`: a rank that no ε-move increases and
every writing ε-move decreases -/
theorem epsCyclesSilent_of_rank (T : FST σ) (rk : σ → Nat)
    (h : ∀ t ∈ T.delta, t.2.1 = none →
      rk t.2.2.1 ≤ rk t.1 ∧ (t.2.2.2 ≠ [] → rk t.2.2.1 < rk t.1)) : EpsCyclesSilent T :=
  Term.epsCyclesSilent_of_rank T rk h

/-! ## (T3) total correctness, and divergence without the hypothesis -/

/-- for a transducer with silent ε-cycles and fuel above the bound, `translate` answers, and the
answer lists exactly the outputs of `w` -/
theorem translate_total (T : FST σ) (hS : EpsCyclesSilent T) (w : List String) (fuel : Nat)
    (hf : fuelFor T w (silentBound T w) ≤ fuel) :
    ∃ outs, T.translate w none fuel = some outs ∧ ∀ o, o ∈ outs ↔ T.Rel w o := by
  obtain ⟨outs, h⟩ := Option.isSome_iff_exists.mp (translate_isSome T hS w fuel hf)
  exact ⟨outs, h, translate_exact T w fuel outs h⟩

/-- one state with an ε-loop that writes `x` -/
def loopX : FST String :=
  { states := ["q"], inputs := [], outputs := ["x"], starts := ["q"], finals := ["q"]
    delta := [("q", none, "q", ["x"])] }

theorem loopX_wf : loopX.WF := by
  constructor <;> decide

theorem loopX_not_silent : ¬ EpsCyclesSilent loopX := by
  intro h
  have := h "q" ["x"] (path_eps_one (by decide))
  cases this

theorem loopX_tnext (w g : List String) : tnext loopX (w, g, "q") = [(w, g ++ ["x"], "q")] := by
  cases w <;> simp [tnext, loopX]

theorem loopX_loop (w : List String) : ∀ (fuel k : Nat) (seen : List (Cfg String))
    (out : List (List String)), (∀ c ∈ seen, c.2.1.length < k) →
    translateLoop loopX none fuel [(w, List.replicate k "x", "q")] seen out = none
  | 0, _, _, _, _ => rfl
  | fuel + 1, k, seen, out, hseen => by
    rw [translateLoop_succ, if_neg, loopX_tnext]
    · have e : List.replicate k "x" ++ ["x"] = List.replicate (k + 1) "x" := by
        rw [List.replicate_succ']
      simp only [List.reverse_cons, List.reverse_nil, List.nil_append, List.append_nil, e]
      apply loopX_loop w fuel (k + 1)
      intro c hc
      rcases List.mem_cons.mp hc with rfl | hc
      · simp
      · have := hseen c hc
        omega
    · intro hmem
      have := hseen _ hmem
      simp at this

/-- with an output-writing ε-loop and no length bound the exploration never ends: the model is out
of fuel for every fuel and every input word -/
theorem translate_diverges (w : List String) (fuel : Nat) : loopX.translate w none fuel = none := by
  have := loopX_loop w fuel 0 [] [] (by simp)
  simpa [translate, loopX] using this

/-! ## non-vacuity -/

/-- (T1) applies to the diverging transducer: `fuelFor loopX [] (2 + 1 * 1) = 17` -/
example : (loopX.translate [] (some 2) 17).isSome :=
  translate_bounded_isSome loopX [] 2 17 (by decide +kernel)

example : fuelFor loopX [] (2 + maxOut loopX * 1) = 17 ∧
    loopX.translate [] (some 2) 17 = some [[], ["x"], ["x", "x"]] ∧
    loopX.translate [] (some 2) 3 = some [[], ["x"], ["x", "x"]] ∧
    loopX.translate [] (some 2) 2 = none := by decide +kernel

/-- a silent ε-loop at `p`, a writing ε-move `p → q` that lies on no cycle, and a reading move -/
def silentEx : FST String :=
  { states := ["p", "q"], inputs := ["a"], outputs := ["b", "c"], starts := ["p"], finals := ["q"]
    delta := [("p", none, "p", []), ("p", some "a", "q", ["b"]), ("p", none, "q", ["c"]),
      ("q", some "a", "q", [])] }

theorem silentEx_silent : EpsCyclesSilent silentEx :=
  epsCyclesSilent_of_rank silentEx (fun s => if s = "p" then 1 else 0) (by decide)

theorem silentEx_fuel : fuelFor silentEx ["a"] (silentBound silentEx ["a"]) = 78125001 := by
  decide +kernel

/-- (T2), (T3) on `silentEx` -/
example : (silentEx.translate ["a"] none 78125001).isSome :=
  translate_isSome silentEx silentEx_silent ["a"] 78125001 (by rw [silentEx_fuel])

example : ∃ outs, silentEx.translate ["a"] none 78125001 = some outs ∧
    ∀ o, o ∈ outs ↔ silentEx.Rel ["a"] o :=
  translate_total silentEx silentEx_silent ["a"] 78125001 (by rw [silentEx_fuel])

/-- the value: `a ↦ c` (ε-move to `q` first, then read) and `a ↦ b` (read in `p`); 5 pops are
needed (four configurations and one that was already seen) -/
example : silentEx.translate ["a"] none 78125001 = some [["c"], ["b"]] ∧
    silentEx.translate ["a"] none 5 = some [["c"], ["b"]] ∧
    silentEx.translate ["a"] none 4 = none := by decide +kernel

/-- the hypothesis of (T2) cannot be dropped, and the ε-path bound is met with equality -/
example : ¬ EpsCyclesSilent loopX := loopX_not_silent

example : silentEx.Path "p" [] ["c"] "q" ∧ 1 ≤ silentEx.delta.length * maxOut silentEx :=
  ⟨path_eps_one (by decide), by decide⟩

end FST
end Pfl
