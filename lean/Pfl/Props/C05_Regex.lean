/-
C05 — the derivative matcher (oracle) and the Thompson construction denote the language of the
regular expression; the combinators build the corresponding languages.
-/
import Pfl.Spec.Regex
import Pfl.Spec.FA
import Pfl.Proofs.FABase
namespace Pfl
namespace Rx

theorem nullable_iff (r : Rx) : r.nullable = true ↔ Denote r [] := by
  sorry

theorem deriv_iff (c : String) (r : Rx) (w : List String) : Denote (deriv c r) w ↔ Denote r (c :: w) := by
  sorry

/-- the matcher decides membership in the denoted language -/
theorem matches_iff (r : Rx) (w : List String) : r.matches w = true ↔ Denote r w := by
  sorry

/-- `to_epsilon_nfa()`: for every value of the state counter, the automaton accepts exactly the
(coded) words of the denoted language -/
theorem thompson_lang (code : String → Nat) (r : Rx) (c : Nat) (ks : List Nat) :
    (r.thompson code c).1.Lang ks ↔ ∃ w, Denote r w ∧ w.map code = ks := by
  sorry

/-- the states allocated by the construction are exactly `c, c+1, …, c' - 1` -/
theorem thompson_counter (code : String → Nat) (r : Rx) (c : Nat) :
    c + 2 ≤ (r.thompson code c).2 ∧
    ∀ q ∈ (r.thompson code c).1.states, c ≤ q ∧ q < (r.thompson code c).2 := by
  sorry

theorem thompson_wf (code : String → Nat) (r : Rx) (c : Nat) : (r.thompson code c).1.WF := by
  sorry

/-- `union` / `concatenate` / `kleene_star` of regex objects -/
theorem alt_denote (a b : Rx) (w : List String) : Denote (.alt a b) w ↔ Denote a w ∨ Denote b w := by
  sorry

theorem cat_denote (a b : Rx) (w : List String) :
    Denote (.cat a b) w ↔ ∃ u v, w = u ++ v ∧ Denote a u ∧ Denote b v := by
  sorry

theorem star_denote (a : Rx) (w : List String) :
    Denote (.star a) w ↔ ∃ ws : List (List String), w = ws.flatten ∧ ∀ x ∈ ws, Denote a x := by
  sorry

end Rx
end Pfl
