/-
C05 — the derivative matcher (oracle) and the Thompson construction denote the language of the
regular expression; the combinators build the corresponding languages.
-/
import Pfl.Spec.Regex
import Pfl.Spec.FA
import Pfl.Proofs.FABase
import Pfl.Proofs.RegexLemmas
namespace Pfl
namespace Rx

theorem nullable_iff (r : Rx) : r.nullable = true ↔ Denote r [] :=
  Lem.nullable_iff r

theorem deriv_iff (c : String) (r : Rx) (w : List String) : Denote (deriv c r) w ↔ Denote r (c :: w) :=
  Lem.deriv_iff c r w

/-- the matcher decides membership in the denoted language -/
theorem matches_iff (r : Rx) (w : List String) : r.matches w = true ↔ Denote r w :=
  Lem.matches_iff r w

/-- `to_epsilon_nfa()`: for every value of the state counter, the automaton accepts exactly the
(coded) words of the denoted language -/
theorem thompson_lang (code : String → Nat) (r : Rx) (c : Nat) (ks : List Nat) :
    (r.thompson code c).1.Lang ks ↔ ∃ w, Denote r w ∧ w.map code = ks :=
  Lem.thompson_lang code r c ks

/-- the states allocated by the construction are exactly `c, c+1, …, c' - 1` -/
theorem thompson_counter (code : String → Nat) (r : Rx) (c : Nat) :
    c + 2 ≤ (r.thompson code c).2 ∧
    ∀ q ∈ (r.thompson code c).1.states, c ≤ q ∧ q < (r.thompson code c).2 :=
  Lem.thompson_counter code r c

theorem thompson_wf (code : String → Nat) (r : Rx) (c : Nat) : (r.thompson code c).1.WF :=
  Lem.thompson_wf code r c

/-- `union` / `concatenate` / `kleene_star` of regex objects -/
theorem alt_denote (a b : Rx) (w : List String) : Denote (.alt a b) w ↔ Denote a w ∨ Denote b w :=
  Lem.alt_denote a b w

theorem cat_denote (a b : Rx) (w : List String) :
    Denote (.cat a b) w ↔ ∃ u v, w = u ++ v ∧ Denote a u ∧ Denote b v :=
  Lem.cat_denote a b w

theorem star_denote (a : Rx) (w : List String) :
    Denote (.star a) w ↔ ∃ ws : List (List String), w = ws.flatten ∧ ∀ x ∈ ws, Denote a x :=
  Lem.star_denote a w

end Rx
end Pfl
