/-
C19 — an `IndexedGrammar` object behaves as a value: `is_empty()` never resets `self.marked`
(filled by `__init__`, extended by every call, also by a call that stops early), yet every call of
a history returns the exact verdict, the one a fresh object returns.  Model:
`Pfl/Model/IndexedObject.lean` (`loopT`: one call, verdict and table left; `runCalls` /
`runCallsO`: a history of calls on one object).

The reason is `loop_iff` (`Pfl/Props/C17_Lib.lean`): the loop is exact from any table that is above
the initial one and sound, and a call leaves such a table (`loopT_keeps`).
-/
import Pfl.Model.IndexedObject
import Pfl.Proofs.IndexedObject
import Pfl.Props.C17_Lib
namespace Pfl
namespace IG
namespace Obj
open Pfl.IG.Lib Pfl.IG.LibP Pfl.IG.ObjP
open Pfl.Term (WFT total initTable_wft total_initTable)

/-- (1) the verdict of a call is the one of `Lib.loop` run on the same table -/
theorem loopT_fst (ord : List SetS → List SetS) (G : IG) (fuel : Nat) (T : Table) :
    (loopT ord G fuel T).map (·.1) = loop ord G fuel T :=
  ObjP.loopT_fst ord G fuel T

/-- a call on a fresh object is `isEmptyLibO` -/
theorem loopT_fresh (ord : List SetS → List SetS) (G : IG) (fuel : Nat) :
    (loopT ord G fuel (initTable G)).map (·.1) = isEmptyLibO ord G fuel :=
  ObjP.loopT_fst ord G fuel (initTable G)

/-- (2) the table a call leaves (also on an early stop) is again above the initial one and
sound -/
theorem loopT_keeps {G : IG} {ord : List SetS → List SetS} (hord : OrdOK ord) {fuel : Nat}
    {T T' : Table} {b : Bool} (hinit : Sub (initTable G) T) (hgood : GoodT G T)
    (h : loopT ord G fuel T = some (b, T')) : Sub (initTable G) T' ∧ GoodT G T' := by
  obtain ⟨h1, h2⟩ := loopT_sound hord G fuel T T' b hgood h
  exact ⟨hinit.trans h1, h2⟩

/-- a call only adds sets to `marked` -/
theorem loopT_grows {G : IG} {ord : List SetS → List SetS} (hord : OrdOK ord) {fuel : Nat}
    {T T' : Table} {b : Bool} (hgood : GoodT G T) (h : loopT ord G fuel T = some (b, T')) :
    Sub T T' :=
  (loopT_sound hord G fuel T T' b hgood h).1

/-- one call on any sound table above the initial one: exact verdict -/
theorem loopT_iff {G : IG} {ord : List SetS → List SetS} (hord : OrdOK ord) {fuel : Nat}
    {T T' : Table} {b : Bool} (hinit : Sub (initTable G) T) (hgood : GoodT G T)
    (h : loopT ord G fuel T = some (b, T')) : b = true ↔ ¬ G.NonEmpty :=
  loop_iff hord fuel T b hinit hgood (loop_of_loopT h)

/-- a history of calls, each with its own iteration order of the sets, started on any sound table
above the initial one: every verdict is exact, and the table left is sound and above the initial
one -/
theorem runCallsO_exact {G : IG} {fuel : Nat} :
    ∀ (ords : List (List SetS → List SetS)) (T T' : Table) (bs : List Bool),
      (∀ ord ∈ ords, OrdOK ord) → Sub (initTable G) T → GoodT G T →
      runCallsO G fuel ords T = some (bs, T') →
      (∀ b ∈ bs, (b = true ↔ ¬ G.NonEmpty)) ∧ bs.length = ords.length ∧
        Sub (initTable G) T' ∧ GoodT G T' := by
  intro ords
  induction ords with
  | nil =>
    intro T T' bs _ hinit hgood h
    simp only [runCallsO, Option.some.injEq, Prod.mk.injEq] at h
    obtain ⟨rfl, rfl⟩ := h
    exact ⟨fun _ hb => (by cases hb), rfl, hinit, hgood⟩
  | cons ord ords ih =>
    intro T T'' bs hords hinit hgood h
    obtain ⟨b, T', bs', h1, h2, rfl⟩ := runCallsO_cons h
    have hord := hords ord List.mem_cons_self
    obtain ⟨hi', hg'⟩ := loopT_keeps hord hinit hgood h1
    obtain ⟨h3, h4, h5, h6⟩ := ih T' T'' bs' (fun o ho => hords o (List.mem_cons_of_mem _ ho))
      hi' hg' h2
    refine ⟨?_, by simp [h4], h5, h6⟩
    intro b' hb'
    rcases List.mem_cons.mp hb' with rfl | hb'
    · exact loopT_iff hord hinit hgood h1
    · exact h3 b' hb'

/-- (3), general form: successive calls of `is_empty()` on one object, each iterating its sets in
an order of its own — every call returns the exact verdict -/
theorem isEmpty_history_independentO (G : IG) (ords : List (List SetS → List SetS))
    (hords : ∀ ord ∈ ords, OrdOK ord) (fuel : Nat) (bs : List Bool) (T : Table)
    (h : runCallsO G fuel ords (initTable G) = some (bs, T)) :
    ∀ b ∈ bs, (b = true ↔ ¬ G.NonEmpty) :=
  (runCallsO_exact ords _ T bs hords (Sub.refl _) (initTable_good G) h).1

/-- (3) objects behave as values: `n` successive calls of `is_empty()` on one object all return
the exact verdict, whatever the earlier calls left in `self.marked` -/
theorem isEmpty_history_independent (G : IG) (ord : List SetS → List SetS) (hord : OrdOK ord)
    (fuel n : Nat) (bs : List Bool) (T : Table)
    (h : runCalls ord G fuel n (initTable G) = some (bs, T)) :
    ∀ b ∈ bs, (b = true ↔ ¬ G.NonEmpty) := by
  rw [runCalls_eq] at h
  exact isEmpty_history_independentO G _
    (fun o ho => by rw [List.eq_of_mem_replicate ho]; exact hord) fuel bs T h

/-- hence all calls of a history return the same Boolean, the one a fresh object returns -/
theorem isEmpty_history_fresh (G : IG) (ord ord' : List SetS → List SetS) (hord : OrdOK ord)
    (hord' : OrdOK ord') (fuel fuel' n : Nat) (bs : List Bool) (T : Table) (b' : Bool)
    (h : runCalls ord G fuel n (initTable G) = some (bs, T))
    (h' : isEmptyLibO ord' G fuel' = some b') : ∀ b ∈ bs, b = b' := by
  intro b hb
  have h1 := isEmpty_history_independent G ord hord fuel n bs T h b hb
  have h2 := isEmptyLibO_iff G ord' hord' fuel' b' h'
  cases b <;> cases b' <;> simp_all

/-- the table an object holds after any history marks `∅` for the start variable only if the
language is not empty (it is sound), and the number of verdicts is the number of calls -/
theorem runCalls_table (G : IG) (ord : List SetS → List SetS) (hord : OrdOK ord)
    (fuel n : Nat) (bs : List Bool) (T : Table)
    (h : runCalls ord G fuel n (initTable G) = some (bs, T)) :
    bs.length = n ∧ Sub (initTable G) T ∧ GoodT G T := by
  rw [runCalls_eq] at h
  obtain ⟨_, h2, h3, h4⟩ := runCallsO_exact _ _ T bs
    (fun o ho => by rw [List.eq_of_mem_replicate ho]; exact hord) (Sub.refl _)
    (initTable_good G) h
  exact ⟨by simpa using h2, h3, h4⟩

/-- total form: with `|N| * 2 ^ |N| + 1 - |N|` passes per call, every history answers, and every
answer is right -/
theorem runCalls_total (G : IG) (ord : List SetS → List SetS) (hord : OrdOK ord) (fuel n : Nat)
    (hf : G.nonTerminals.length * 2 ^ G.nonTerminals.length + 1 ≤ fuel + G.nonTerminals.length) :
    ∃ bs T, runCalls ord G fuel n (initTable G) = some (bs, T) ∧ bs.length = n ∧
      ∀ b ∈ bs, (b = true ↔ ¬ G.NonEmpty) := by
  have h1 : (runCalls ord G fuel n (initTable G)).isSome := by
    rw [runCalls_eq]
    apply runCallsO_isSome G fuel _ _
      (fun o ho => by rw [List.eq_of_mem_replicate ho]; exact hord) (initTable_wft G)
    have := total_initTable G
    omega
  obtain ⟨⟨bs, T⟩, h2⟩ := Option.isSome_iff_exists.mp h1
  exact ⟨bs, T, h2, (runCalls_table G ord hord fuel n bs T h2).1,
    isEmpty_history_independent G ord hord fuel n bs T h2⟩

/-! ### (4) the hypotheses are satisfiable -/

/-- `S → A B`, `C → A B`, `A → a`, `B → b`.  First call: the rule `S → A B` marks `∅` for `S` and
asks to stop, `C → A B` is not reached.  Second call: nothing new for `S`, the rule of `C` is
processed now (two passes, regular end).  Third call: one pass, nothing changes. -/
def nvObj : IG :=
  { start := "S", rules := [.dup "S" "A" "B", .dup "C" "A" "B", .end_ "A" "a", .end_ "B" "b"] }

/-- the table after the first call (early stop) -/
def nvObjT1 : Table :=
  [("S", [["S"], ["A", "B"], ["A"], ["B"], []]), ("A", [["A"], []]), ("B", [["B"], []]),
   ("C", [["C"]])]

/-- the table after the second call -/
def nvObjT2 : Table :=
  [("S", [["S"], ["A", "B"], ["A"], ["B"], []]), ("A", [["A"], []]), ("B", [["B"], []]),
   ("C", [["C"], ["A", "B"], ["A"], ["B"], []])]

/-- the first call stops early and leaves a table that is not the initial one; the second call
continues from there: no early stop, the table grows (two passes), regular end -/
theorem nv_loopT :
    (pass id nvObj (libRules nvObj) (initTable nvObj) false).2.2 = true ∧
    loopT id nvObj 1 (initTable nvObj) = some (false, nvObjT1) := by decide +kernel

theorem nv_loopT2 :
    pass id nvObj (libRules nvObj) nvObjT1 false = (nvObjT2, true, false) ∧
    loopT id nvObj 1 nvObjT1 = none := by decide +kernel

theorem nv_loopT3 : loopT id nvObj 2 nvObjT1 = some (false, nvObjT2) := by decide +kernel

/-- three calls on one object -/
theorem nv_runCalls :
    runCalls id nvObj 2 3 (initTable nvObj) = some ([false, false, false], nvObjT2) := by
  decide +kernel

/-- three calls, the iteration order of the sets changing from call to call (the table left lists
the same sets in another insertion order) -/
theorem nv_runCallsO :
    (runCallsO nvObj 2 [List.reverse, id, List.reverse] (initTable nvObj)).map (·.1)
      = some [false, false, false] ∧
    isEmptyCalls nvObj 2 3 = some [false, false, false] := by decide +kernel

/-- an empty language (`nvLib2`), three calls, and a non-empty one where the early stop comes from
`_production_process`, in the second pass of the first call (`nvLib1`) -/
theorem nv_runCalls_lib :
    isEmptyCalls nvLib2 3 3 = some [true, true, true] ∧
    (pass id nvLib1 (libRules nvLib1) (initTable nvLib1) false).2 = (true, false) ∧
    (pass id nvLib1 (libRules nvLib1)
      (pass id nvLib1 (libRules nvLib1) (initTable nvLib1) false).1 false).2.2 = true ∧
    isEmptyCalls nvLib1 2 3 = some [false, false, false] ∧
    (runCallsO nvLib1 2 [id, List.reverse] (initTable nvLib1)).map (·.1)
      = some [false, false] := by decide +kernel

example : ∀ b ∈ [false, false, false], (b = true ↔ ¬ nvObj.NonEmpty) :=
  isEmpty_history_independent nvObj id ordOK_id 2 3 _ nvObjT2 nv_runCalls

/-- four non-terminals: `4 * 2 ^ 4 + 1 - 4 = 61` passes per call are enough for any history -/
example : ∃ bs T, runCalls id nvObj 61 5 (initTable nvObj) = some (bs, T) ∧ bs.length = 5 ∧
    ∀ b ∈ bs, (b = true ↔ ¬ nvObj.NonEmpty) :=
  runCalls_total nvObj id ordOK_id 61 5 (by decide +kernel)

end Obj
end IG
end Pfl
