/-
C03 — `union`, `concatenate`, `kleene_star` of automata (`Regexable`): the library converts the
operands to regular expressions (state elimination), combines the expressions and builds the
Thompson automaton.  Composition of `toRegexRx_lang` (C06) and `thompson_lang` (C05).
-/
import Pfl.Props.C06_ToRegex
import Pfl.Props.C05_Regex
namespace Pfl
namespace ENFA
variable {σ τ : Type} [DecidableEq σ] [DecidableEq τ]

/-- `a.union(b)` -/
def unionR (A : ENFA σ) (B : ENFA τ) (symName : Nat → String) (code : String → Nat)
    (oa : σ → List (Option σ)) (ob : τ → List (Option τ)) (c : Nat) : ENFA Nat :=
  ((Rx.alt (A.toRegexRx symName oa) (B.toRegexRx symName ob)).thompson code c).1

/-- `a.concatenate(b)` -/
def concatR (A : ENFA σ) (B : ENFA τ) (symName : Nat → String) (code : String → Nat)
    (oa : σ → List (Option σ)) (ob : τ → List (Option τ)) (c : Nat) : ENFA Nat :=
  ((Rx.cat (A.toRegexRx symName oa) (B.toRegexRx symName ob)).thompson code c).1

/-- `a.kleene_star()` -/
def starR (A : ENFA σ) (symName : Nat → String) (code : String → Nat)
    (oa : σ → List (Option σ)) (c : Nat) : ENFA Nat :=
  ((Rx.star (A.toRegexRx symName oa)).thompson code c).1

variable (symName : Nat → String) (code : String → Nat) (hcode : ∀ a, code (symName a) = a)
include hcode

private theorem map_code (w : List Nat) : (w.map symName).map code = w := by
  induction w with
  | nil => rfl
  | cons a w ih => simp [hcode a, ih]

theorem unionR_lang (A : ENFA σ) (B : ENFA τ) (hA : A.WF) (hB : B.WF)
    (oa : σ → List (Option σ)) (ob : τ → List (Option τ)) (c : Nat) (w : List Nat) :
    (unionR A B symName code oa ob c).Lang w ↔ A.Lang w ∨ B.Lang w := by
  unfold unionR
  rw [Rx.thompson_lang]
  constructor
  · rintro ⟨u, hu, rfl⟩
    rcases (Rx.alt_denote _ _ _).1 hu with h | h
    · obtain ⟨w', rfl, hw'⟩ := (toRegexRx_lang A hA symName oa u).1 h
      left; rwa [map_code symName code hcode]
    · obtain ⟨w', rfl, hw'⟩ := (toRegexRx_lang B hB symName ob u).1 h
      right; rwa [map_code symName code hcode]
  · rintro (h | h)
    · exact ⟨w.map symName, (Rx.alt_denote _ _ _).2 (Or.inl ((toRegexRx_lang A hA symName oa _).2 ⟨w, rfl, h⟩)),
        map_code symName code hcode w⟩
    · exact ⟨w.map symName, (Rx.alt_denote _ _ _).2 (Or.inr ((toRegexRx_lang B hB symName ob _).2 ⟨w, rfl, h⟩)),
        map_code symName code hcode w⟩

theorem concatR_lang (A : ENFA σ) (B : ENFA τ) (hA : A.WF) (hB : B.WF)
    (oa : σ → List (Option σ)) (ob : τ → List (Option τ)) (c : Nat) (w : List Nat) :
    (concatR A B symName code oa ob c).Lang w ↔ ∃ u v, w = u ++ v ∧ A.Lang u ∧ B.Lang v := by
  unfold concatR
  rw [Rx.thompson_lang]
  constructor
  · rintro ⟨x, hx, rfl⟩
    obtain ⟨u, v, rfl, hu, hv⟩ := (Rx.cat_denote _ _ _).1 hx
    obtain ⟨u', rfl, hu'⟩ := (toRegexRx_lang A hA symName oa u).1 hu
    obtain ⟨v', rfl, hv'⟩ := (toRegexRx_lang B hB symName ob v).1 hv
    exact ⟨u', v', by rw [List.map_append, map_code symName code hcode, map_code symName code hcode], hu', hv'⟩
  · rintro ⟨u, v, rfl, hu, hv⟩
    refine ⟨(u ++ v).map symName, (Rx.cat_denote _ _ _).2 ⟨u.map symName, v.map symName, by simp, ?_, ?_⟩,
      map_code symName code hcode _⟩
    · exact (toRegexRx_lang A hA symName oa _).2 ⟨u, rfl, hu⟩
    · exact (toRegexRx_lang B hB symName ob _).2 ⟨v, rfl, hv⟩

theorem starR_lang (A : ENFA σ) (hA : A.WF) (oa : σ → List (Option σ)) (c : Nat) (w : List Nat) :
    (starR A symName code oa c).Lang w ↔ ∃ ws : List (List Nat), w = ws.flatten ∧ ∀ x ∈ ws, A.Lang x := by
  unfold starR
  rw [Rx.thompson_lang]
  constructor
  · rintro ⟨x, hx, rfl⟩
    obtain ⟨xs, rfl, hxs⟩ := (Rx.star_denote _ _).1 hx
    refine ⟨xs.map (·.map code), by simp [List.map_flatten], ?_⟩
    intro y hy
    obtain ⟨x, hxm, rfl⟩ := List.mem_map.1 hy
    obtain ⟨w', rfl, hw'⟩ := (toRegexRx_lang A hA symName oa x).1 (hxs x hxm)
    rwa [map_code symName code hcode]
  · rintro ⟨ws, rfl, hws⟩
    refine ⟨(ws.map (·.map symName)).flatten, (Rx.star_denote _ _).2 ⟨ws.map (·.map symName), rfl, ?_⟩, ?_⟩
    · intro x hx
      obtain ⟨y, hy, rfl⟩ := List.mem_map.1 hx
      exact (toRegexRx_lang A hA symName oa _).2 ⟨y, rfl, hws y hy⟩
    · rw [← List.map_flatten, map_code symName code hcode]

end ENFA
end Pfl
