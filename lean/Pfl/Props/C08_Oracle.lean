/-
C08 — the independent membership oracle (span saturation) is exact.
-/
import Pfl.Proofs.CFGBase
import Pfl.Oracle.CfgMem
import Mathlib.Data.List.Basic
import Mathlib.Data.List.Nodup
namespace Pfl
namespace CFG

namespace C08

/-! ### positions of sub-words -/

/-- `v` occurs in `w` starting at position `i` -/
def At (w : List String) (i : Nat) (v : List String) : Prop :=
  ∃ a b, w = a ++ v ++ b ∧ a.length = i

theorem at_nil {w : List String} {i : Nat} (h : i ≤ w.length) : At w i [] :=
  ⟨w.take i, w.drop i, by simp, by simp; omega⟩

theorem at_le {w : List String} {i : Nat} {v : List String} (h : At w i v) :
    i + v.length ≤ w.length := by
  obtain ⟨a, b, rfl, rfl⟩ := h
  simp only [List.length_append]; omega

theorem at_append {w : List String} {i : Nat} {v₁ v₂ : List String}
    (h₁ : At w i v₁) (h₂ : At w (i + v₁.length) v₂) : At w i (v₁ ++ v₂) := by
  obtain ⟨a, b, rfl, rfl⟩ := h₁
  obtain ⟨a', b', e, hl⟩ := h₂
  have e' : (a ++ v₁) ++ b = a' ++ (v₂ ++ b') := by rw [e]; simp
  obtain ⟨ha, hb⟩ := List.append_inj e' (by simp [hl])
  exact ⟨a, b', by simp [hb], rfl⟩

theorem at_split {w : List String} {i : Nat} {v₁ v₂ : List String}
    (h : At w i (v₁ ++ v₂)) : At w i v₁ ∧ At w (i + v₁.length) v₂ := by
  obtain ⟨a, b, rfl, rfl⟩ := h
  exact ⟨⟨a, v₂ ++ b, by simp, rfl⟩, ⟨a ++ v₁, b, by simp, by simp⟩⟩

theorem at_singleton {w : List String} {i : Nat} {t : String} :
    At w i [t] ↔ w[i]? = some t := by
  constructor
  · rintro ⟨a, b, rfl, rfl⟩
    simp
  · intro h
    obtain ⟨hi, ht⟩ := List.getElem?_eq_some_iff.mp h
    refine ⟨w.take i, w.drop (i + 1), ?_, by simp; omega⟩
    rw [List.append_assoc, List.singleton_append, ← ht, ← List.drop_eq_getElem_cons hi,
      List.take_append_drop]

theorem at_zero_full {w v : List String} (h : At w 0 v) (hl : v.length = w.length) : v = w := by
  obtain ⟨a, b, rfl, ha⟩ := h
  have : a = [] := List.length_eq_zero_iff.mp ha
  subst this
  have : b = [] := by
    apply List.length_eq_zero_iff.mp
    simp only [List.length_append, List.length_nil] at hl; omega
  subst this
  simp

theorem at_full (w : List String) : At w 0 w := ⟨[], [], by simp, rfl⟩

/-! ### generic facts on folds of extending functions -/

theorem foldl_extends {α β : Type} (f : List α → β → List α)
    (hf : ∀ S b, ∃ T, f S b = S ++ T) (l : List β) (S : List α) :
    ∃ T, l.foldl f S = S ++ T := by
  induction l generalizing S with
  | nil => exact ⟨[], by simp⟩
  | cons b l ih =>
    obtain ⟨T₁, h₁⟩ := hf S b
    obtain ⟨T₂, h₂⟩ := ih (f S b)
    exact ⟨T₁ ++ T₂, by rw [List.foldl_cons, h₂, h₁, List.append_assoc]⟩

theorem foldl_fix {α β : Type} (f : List α → β → List α)
    (hf : ∀ S b, ∃ T, f S b = S ++ T) (l : List β) (S : List α)
    (h : (l.foldl f S).length = S.length) : ∀ b ∈ l, f S b = S := by
  induction l generalizing S with
  | nil => intro b hb; cases hb
  | cons b l ih =>
    obtain ⟨T₁, h₁⟩ := hf S b
    obtain ⟨T₂, h₂⟩ := foldl_extends f hf l (f S b)
    rw [List.foldl_cons] at h
    have hT : T₁ = [] := by
      apply List.length_eq_zero_iff.mp
      rw [h₂, h₁] at h
      simp only [List.length_append] at h; omega
    have hS : f S b = S := by rw [h₁, hT]; simp
    intro c hc
    rcases List.mem_cons.mp hc with rfl | hc
    · exact hS
    · rw [hS] at h
      exact ih S h c hc

theorem extends_fix {α : Type} {S S' : List α} (he : ∃ T, S' = S ++ T)
    (h : S'.length = S.length) : S' = S := by
  obtain ⟨T, rfl⟩ := he
  have : T = [] := by
    apply List.length_eq_zero_iff.mp
    simp only [List.length_append] at h; omega
  simp [this]

theorem foldl_inv {α β : Type} (P : α → Prop) (f : α → β → α) (l : List β)
    (hf : ∀ S b, b ∈ l → P S → P (f S b)) (S : α) (h : P S) : P (l.foldl f S) := by
  induction l generalizing S with
  | nil => exact h
  | cons b l ih =>
    rw [List.foldl_cons]
    exact ih (fun S c hc => hf S c (List.mem_cons_of_mem _ hc)) _ (hf S b (by simp) h)

/-! ### the three levels of `spanStep` -/

def addSpan (X : String) (i : Nat) (S : List Span) (j : Nat) : List Span :=
  if (X, i, j) ∈ S then S else S ++ [(X, i, j)]

def inner (w : List String) (p : Prod) (S : List Span) (i : Nat) : List Span :=
  (matchBody S w p.2 i).foldl (addSpan p.1 i) S

def mid (w : List String) (S : List Span) (p : Prod) : List Span :=
  (List.range (w.length + 1)).foldl (inner w p) S

theorem spanStep_eq (G : CFG) (w : List String) (S : List Span) :
    spanStep G w S = G.prods.foldl (mid w) S := rfl

theorem addSpan_extends (X : String) (i : Nat) (S : List Span) (j : Nat) :
    ∃ T, addSpan X i S j = S ++ T := by
  unfold addSpan
  split
  · exact ⟨[], by simp⟩
  · exact ⟨_, rfl⟩

theorem addSpan_fix {X : String} {i : Nat} {S : List Span} {j : Nat}
    (h : addSpan X i S j = S) : (X, i, j) ∈ S := by
  unfold addSpan at h
  split at h
  · assumption
  · have := congrArg List.length h
    simp at this

theorem inner_extends (w : List String) (p : Prod) (S : List Span) (i : Nat) :
    ∃ T, inner w p S i = S ++ T :=
  foldl_extends _ (addSpan_extends p.1 i) _ S

theorem mid_extends (w : List String) (S : List Span) (p : Prod) :
    ∃ T, mid w S p = S ++ T :=
  foldl_extends _ (inner_extends w p) _ S

theorem spanStep_extends (G : CFG) (w : List String) (S : List Span) :
    ∃ T, spanStep G w S = S ++ T :=
  foldl_extends _ (mid_extends w) _ S

/-- a set of spans is closed under the productions -/
def Closed (G : CFG) (w : List String) (S : List Span) : Prop :=
  ∀ p ∈ G.prods, ∀ i ≤ w.length, ∀ j ∈ matchBody S w p.2 i, (p.1, i, j) ∈ S

theorem closed_of_fix (G : CFG) (w : List String) (S : List Span)
    (h : (spanStep G w S).length = S.length) : Closed G w S := by
  intro p hp i hi j hj
  have h1 : mid w S p = S := foldl_fix _ (mid_extends w) _ S h p hp
  have h2 : inner w p S i = S :=
    foldl_fix _ (inner_extends w p) _ S (by rw [show List.foldl (inner w p) S _ = mid w S p from rfl, h1]) i
      (List.mem_range.mpr (by omega))
  have h3 : addSpan p.1 i S j = S :=
    foldl_fix _ (addSpan_extends p.1 i) _ S (by rw [show List.foldl (addSpan p.1 i) S _ = inner w p S i from rfl, h2]) j hj
  exact addSpan_fix h3

/-! ### soundness -/

/-- the span fact is true -/
def Good (G : CFG) (w : List String) (s : Span) : Prop :=
  ∃ v, At w s.2.1 v ∧ s.2.2 = s.2.1 + v.length ∧ G.Gen (.var s.1) v

def Sound (G : CFG) (w : List String) (S : List Span) : Prop := ∀ s ∈ S, Good G w s

theorem matchBody_sound (G : CFG) (w : List String) (S : List Span) (hS : Sound G w S)
    (body : List Sym) (i j : Nat) (hi : i ≤ w.length) (hj : j ∈ matchBody S w body i) :
    ∃ v, At w i v ∧ j = i + v.length ∧ G.GenList body v := by
  induction body generalizing i with
  | nil =>
    simp only [matchBody, List.mem_singleton] at hj
    subst hj
    exact ⟨[], at_nil hi, rfl, .nil⟩
  | cons s rest ih =>
    cases s with
    | ter t =>
      simp only [matchBody] at hj
      split at hj
      · rename_i ht
        have hi' : i + 1 ≤ w.length := by
          have := (List.getElem?_eq_some_iff.mp ht).1; omega
        obtain ⟨v, hv, rfl, hg⟩ := ih (i + 1) hi' hj
        have h1 : At w i [t] := at_singleton.mpr ht
        exact ⟨[t] ++ v, at_append h1 hv, by simp; omega, .cons (.ter t) hg⟩
      · cases hj
    | var u =>
      simp only [matchBody, List.mem_flatMap, List.mem_filterMap] at hj
      obtain ⟨k, ⟨s, hs, hk⟩, hj⟩ := hj
      split at hk
      · rename_i hc
        obtain ⟨rfl, rfl⟩ := hc
        cases hk
        obtain ⟨v₁, hv₁, hk₁, hg₁⟩ := hS s hs
        have hk' : s.2.2 ≤ w.length := by have := at_le hv₁; omega
        obtain ⟨v₂, hv₂, rfl, hg₂⟩ := ih s.2.2 hk' hj
        rw [hk₁] at hv₂
        exact ⟨v₁ ++ v₂, at_append hv₁ hv₂, by simp; omega, .cons hg₁ hg₂⟩
      · cases hk

theorem addSpan_sound (G : CFG) (w : List String) (X : String) (i : Nat) (S : List Span) (j : Nat)
    (hS : Sound G w S) (hg : Good G w (X, i, j)) : Sound G w (addSpan X i S j) := by
  unfold addSpan
  split
  · exact hS
  · intro s hs
    rcases List.mem_append.mp hs with hs | hs
    · exact hS s hs
    · simp only [List.mem_singleton] at hs
      subst hs; exact hg

theorem inner_sound (G : CFG) (w : List String) (p : Prod) (hp : p ∈ G.prods) (S : List Span)
    (i : Nat) (hi : i ≤ w.length) (hS : Sound G w S) : Sound G w (inner w p S i) := by
  have hall : ∀ j ∈ matchBody S w p.2 i, Good G w (p.1, i, j) := by
    intro j hj
    obtain ⟨v, hv, rfl, hg⟩ := matchBody_sound G w S hS p.2 i j hi hj
    exact ⟨v, hv, rfl, .var (body := p.2) hp hg⟩
  unfold inner
  exact foldl_inv (Sound G w) _ _ (fun S' j hj hS' => addSpan_sound G w _ _ _ _ hS' (hall j hj)) S hS

theorem mid_sound (G : CFG) (w : List String) (p : Prod) (hp : p ∈ G.prods) (S : List Span)
    (hS : Sound G w S) : Sound G w (mid w S p) := by
  unfold mid
  refine foldl_inv (Sound G w) _ _ (fun S' i hi hS' => inner_sound G w p hp S' i ?_ hS') S hS
  have := List.mem_range.mp hi; omega

theorem spanStep_sound (G : CFG) (w : List String) (S : List Span) (hS : Sound G w S) :
    Sound G w (spanStep G w S) := by
  rw [spanStep_eq]
  exact foldl_inv (Sound G w) _ _ (fun S' p hp hS' => mid_sound G w p hp S' hS') S hS

theorem saturate_spec (G : CFG) (w : List String) (fuel : Nat) (S S' : List Span)
    (hS : Sound G w S) (h : saturate G w fuel S = some S') :
    Sound G w S' ∧ Closed G w S' := by
  induction fuel generalizing S with
  | zero => simp [saturate] at h
  | succ fuel ih =>
    simp only [saturate] at h
    split at h
    · rename_i hl
      rw [← Option.some.inj h]
      exact ⟨hS, closed_of_fix G w S hl⟩
    · exact ih _ (spanStep_sound G w S hS) h

/-! ### completeness -/

mutual
theorem gen_complete {G : CFG} {w : List String} {S : List Span} (hC : Closed G w S) :
    ∀ {s : Sym} {v : List String}, G.Gen s v → ∀ i, At w i v → ∀ rest k,
      k ∈ matchBody S w rest (i + v.length) → k ∈ matchBody S w (s :: rest) i
  | _, _, .ter t => by
    intro i hi rest k hk
    have := at_singleton.mp hi
    simp only [matchBody, this, if_true]
    exact hk
  | _, _, .var (h := X) (body := body) (w := v) hp hl => by
    intro i hi rest k hk
    have h1 := genList_complete hC hl i hi
    have h2 := hC (X, body) hp i (by have := at_le hi; omega) _ h1
    simp only [matchBody, List.mem_flatMap, List.mem_filterMap]
    exact ⟨i + v.length, ⟨(X, i, i + v.length), h2, by simp⟩, hk⟩
theorem genList_complete {G : CFG} {w : List String} {S : List Span} (hC : Closed G w S) :
    ∀ {u : List Sym} {v : List String}, G.GenList u v → ∀ i, At w i v →
      i + v.length ∈ matchBody S w u i
  | _, _, .nil => by
    intro i _
    simp [matchBody]
  | _, _, .cons (w₁ := v₁) (w₂ := v₂) hs hu => by
    intro i hi
    obtain ⟨h1, h2⟩ := at_split hi
    have := genList_complete hC hu _ h2
    have := gen_complete hC hs i h1 _ _ this
    rw [List.length_append, ← Nat.add_assoc]
    exact this
end

theorem mem_of_closed {G : CFG} {w : List String} {S : List Span} (hC : Closed G w S)
    {X : String} (h : G.Gen (.var X) w) : (X, 0, w.length) ∈ S := by
  obtain ⟨body, hp, hl⟩ := gen_var_iff.mp h
  have := genList_complete hC hl 0 (at_full w)
  have := hC (X, body) hp 0 (Nat.zero_le _) _ this
  simpa using this

theorem gen_of_sound {G : CFG} {w : List String} {S : List Span} (hS : Sound G w S)
    {X : String} (h : (X, 0, w.length) ∈ S) : G.Gen (.var X) w := by
  obtain ⟨v, hv, hl, hg⟩ := hS _ h
  simp only [Nat.zero_add] at hl hv
  rw [← at_zero_full hv hl.symm]
  exact hg

/-! ### the bounded language -/

theorem nodup_eraseDups {α : Type} [DecidableEq α] (l : List α) : l.eraseDups.Nodup := by
  generalize hn : l.length = n
  induction n using Nat.strongRecOn generalizing l with
  | _ n ih =>
    cases l with
    | nil => simp
    | cons a as =>
      rw [List.eraseDups_cons, List.nodup_cons]
      refine ⟨?_, ?_⟩
      · simp [List.mem_eraseDups, List.mem_filter]
      · refine ih _ ?_ _ rfl
        have := List.length_filter_le (fun b => !b == a) as
        simp at hn; omega

theorem mem_wordsOfLenS (syms : List String) (k : Nat) (w : List String) :
    w ∈ wordsOfLenS syms k ↔ w.length = k ∧ ∀ a ∈ w, a ∈ syms := by
  induction k generalizing w with
  | zero =>
    simp only [wordsOfLenS, List.mem_singleton, List.length_eq_zero_iff]
    constructor
    · rintro rfl; simp
    · rintro ⟨h, _⟩; exact h
  | succ k ih =>
    simp only [wordsOfLenS, List.mem_flatMap, List.mem_map]
    constructor
    · rintro ⟨u, hu, a, ha, rfl⟩
      obtain ⟨h1, h2⟩ := (ih u).mp hu
      refine ⟨by simp [h1], ?_⟩
      intro b hb
      rcases List.mem_append.mp hb with hb | hb
      · exact h2 b hb
      · simp at hb; subst hb; exact ha
    · rintro ⟨hl, hs⟩
      have hne : w ≠ [] := by intro h; subst h; simp at hl
      refine ⟨w.dropLast, (ih _).mpr ⟨by simp [hl], ?_⟩, w.getLast hne, ?_, ?_⟩
      · intro a ha; exact hs a (List.dropLast_subset _ ha)
      · exact hs _ (List.getLast_mem hne)
      · exact List.dropLast_append_getLast hne

theorem wordsOfLenS_nodup (syms : List String) (hs : syms.Nodup) (k : Nat) :
    (wordsOfLenS syms k).Nodup := by
  induction k with
  | zero => simp [wordsOfLenS]
  | succ k ih =>
    simp only [wordsOfLenS]
    rw [List.nodup_flatMap]
    refine ⟨?_, ?_⟩
    · intro u _
      refine List.Nodup.map ?_ hs
      intro a b hab
      have := List.append_cancel_left hab
      simpa using this
    · refine List.Pairwise.imp_of_mem ?_ (List.Nodup.pairwise_of_forall_ne ih (fun _ _ _ _ h => h))
      intro u v _ _ huv
      simp only [Function.onFun, List.disjoint_left, List.mem_map]
      rintro w ⟨a, _, rfl⟩ ⟨b, _, hb⟩
      exact huv (List.append_inj_left' hb rfl).symm

/-- the candidate words enumerated by `langUpTo` -/
def cands (G : CFG) (n : Nat) : List (List String) :=
  (List.range (n + 1)).flatMap fun k => wordsOfLenS G.ters.eraseDups k

theorem mem_cands (G : CFG) (n : Nat) (w : List String) :
    w ∈ cands G n ↔ w.length ≤ n ∧ ∀ a ∈ w, a ∈ G.ters := by
  simp only [cands, List.mem_flatMap, List.mem_range, mem_wordsOfLenS, List.mem_eraseDups]
  constructor
  · rintro ⟨k, hk, rfl, h⟩; exact ⟨by omega, h⟩
  · rintro ⟨hl, h⟩; exact ⟨_, by omega, rfl, h⟩

theorem cands_nodup (G : CFG) (n : Nat) : (cands G n).Nodup := by
  unfold cands
  rw [List.nodup_flatMap]
  refine ⟨?_, ?_⟩
  · intro k _
    exact wordsOfLenS_nodup _ (nodup_eraseDups _) k
  · refine List.Pairwise.imp_of_mem ?_
      (List.Nodup.pairwise_of_forall_ne (List.nodup_range (n := n+1)) (fun _ _ _ _ h => h))
    intro i j _ _ hij
    simp only [Function.onFun, List.disjoint_left, mem_wordsOfLenS]
    rintro w ⟨h1, _⟩ ⟨h2, _⟩
    exact hij (h1.symm.trans h2)

theorem foldlM_filter {α : Type} (c : α → Option Bool) (l : List α) (acc ws : List α)
    (h : l.foldlM (fun acc w => (c w).map fun b => if b then acc ++ [w] else acc) acc = some ws) :
    (∀ w ∈ l, ∃ b, c w = some b) ∧ ws = acc ++ l.filter (fun w => c w == some true) := by
  induction l generalizing acc with
  | nil =>
    simp only [List.foldlM_nil] at h
    cases h
    simp
  | cons a l ih =>
    simp only [List.foldlM_cons] at h
    cases hc : c a with
    | none => simp [hc] at h
    | some b =>
      simp only [hc, Option.map_some, Option.bind_eq_bind, Option.bind_some] at h
      obtain ⟨h1, h2⟩ := ih _ h
      refine ⟨?_, ?_⟩
      · intro w hw
        rcases List.mem_cons.mp hw with rfl | hw
        · exact ⟨b, hc⟩
        · exact h1 w hw
      · rw [h2]
        cases b <;> simp [hc]

mutual
theorem gen_ters {G : CFG} (hG : G.WF) :
    ∀ {s : Sym} {v : List String}, G.Gen s v → (∀ t, s = .ter t → t ∈ G.ters) →
      ∀ a ∈ v, a ∈ G.ters
  | _, _, .ter t => by
    intro h a ha
    simp only [List.mem_singleton] at ha
    subst ha
    exact h _ rfl
  | _, _, .var hp hl => by
    intro _ a ha
    exact genList_ters hG hl (fun t ht => hG.ter_mem _ hp t ht) a ha
theorem genList_ters {G : CFG} (hG : G.WF) :
    ∀ {u : List Sym} {v : List String}, G.GenList u v → (∀ t, Sym.ter t ∈ u → t ∈ G.ters) →
      ∀ a ∈ v, a ∈ G.ters
  | _, _, .nil => by
    intro _ a ha; cases ha
  | _, _, .cons hs hu => by
    intro h a ha
    rcases List.mem_append.mp ha with ha | ha
    · exact gen_ters hG hs (fun t ht => h t (by simp [ht])) a ha
    · exact genList_ters hG hu (fun t ht => h t (List.mem_cons_of_mem _ ht)) a ha
end

theorem lang_ters {G : CFG} (hG : G.WF) {w : List String} (h : G.Lang w) :
    ∀ a ∈ w, a ∈ G.ters := by
  obtain ⟨s, _, hg⟩ := (lang_iff_gen G w).mp h
  exact gen_ters hG hg (fun t ht => by cases ht)

end C08

open C08

/-- whenever the oracle answers, the answer is derivability from the start symbol -/
theorem cfgMem_iff (G : CFG) (w : List String) (fuel : Nat) (b : Bool)
    (h : G.cfgMem w fuel = some b) : b = true ↔ G.Lang w := by
  unfold cfgMem at h
  obtain ⟨S, hS, hb⟩ := Option.map_eq_some_iff.mp h
  obtain ⟨hsound, hclosed⟩ := saturate_spec G w fuel [] S (by intro s hs; cases hs) hS
  rw [lang_iff_gen]
  subst hb
  cases hst : G.start with
  | none => simp
  | some s =>
    simp only [decide_eq_true_eq, Option.some.injEq, exists_eq_left']
    exact ⟨gen_of_sound hsound, mem_of_closed hclosed⟩

/-- the bounded-language oracle lists exactly the generated words of length `≤ n` -/
theorem mem_langUpTo_iff (G : CFG) (hG : G.WF) (n fuel : Nat) (ws : List (List String))
    (h : G.langUpTo n fuel = some ws) (w : List String) :
    w ∈ ws ↔ w.length ≤ n ∧ G.Lang w := by
  obtain ⟨h1, h2⟩ := foldlM_filter (fun w => G.cfgMem w fuel) (cands G n) [] ws h
  subst h2
  simp only [List.nil_append, List.mem_filter, mem_cands, beq_iff_eq]
  constructor
  · rintro ⟨⟨hl, _⟩, hc⟩
    exact ⟨hl, (cfgMem_iff G w fuel true hc).mp rfl⟩
  · rintro ⟨hl, hL⟩
    have hm : w.length ≤ n ∧ ∀ a ∈ w, a ∈ G.ters := ⟨hl, lang_ters hG hL⟩
    refine ⟨hm, ?_⟩
    obtain ⟨b, hb⟩ := h1 w ((mem_cands G n w).mpr hm)
    rw [hb, (cfgMem_iff G w fuel b hb).mpr hL]

theorem langUpTo_nodup (G : CFG) (n fuel : Nat) (ws : List (List String))
    (h : G.langUpTo n fuel = some ws) : ws.Nodup := by
  obtain ⟨_, h2⟩ := foldlM_filter (fun w => G.cfgMem w fuel) (cands G n) [] ws h
  subst h2
  simp only [List.nil_append]
  exact List.Nodup.filter _ (cands_nodup G n)

end CFG
end Pfl
