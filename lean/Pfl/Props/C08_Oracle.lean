/-
C08 — the independent membership oracle (span saturation) is exact.
-/
import Pfl.Proofs.CFGBase
import Pfl.Oracle.CfgMem
namespace Pfl
namespace CFG

/-- whenever the oracle answers, the answer is derivability from the start symbol -/
theorem cfgMem_iff (G : CFG) (w : List String) (fuel : Nat) (b : Bool)
    (h : G.cfgMem w fuel = some b) : b = true ↔ G.Lang w := by
  sorry

/-- the bounded-language oracle lists exactly the generated words of length `≤ n` -/
theorem mem_langUpTo_iff (G : CFG) (hG : G.WF) (n fuel : Nat) (ws : List (List String))
    (h : G.langUpTo n fuel = some ws) (w : List String) :
    w ∈ ws ↔ w.length ≤ n ∧ G.Lang w := by
  sorry

theorem langUpTo_nodup (G : CFG) (n fuel : Nat) (ws : List (List String))
    (h : G.langUpTo n fuel = some ws) : ws.Nodup := by
  sorry

end CFG
end Pfl
