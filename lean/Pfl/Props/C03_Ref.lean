/-
C03 — the reference constructions used as oracles have exactly the set-theoretic language.
-/
import Pfl.Oracle.RegOps
import Pfl.Props.C01_Det
import Pfl.Props.C03_Bool
import Pfl.Proofs.FARef
namespace Pfl
namespace ENFA
set_option linter.unusedSectionVars false
variable {σ τ : Type} [DecidableEq σ] [DecidableEq τ]

theorem unionA_lang (A : ENFA σ) (B : ENFA τ) (w : List Nat) :
    (A.unionA B).Lang w ↔ A.Lang w ∨ B.Lang w := by
  unfold Lang
  simp only [unionA, List.mem_append, List.mem_map]
  constructor
  · rintro ⟨s, (⟨s0, hs0, rfl⟩ | ⟨s0, hs0, rfl⟩), f, hf, hr⟩
    · obtain ⟨r, rfl, hr'⟩ :=
        (run_embed_iff (A := A) (K := A.unionA B) Sum.inl (mem_unionA_delta_inl A B) s0 w f).mp hr
      rcases hf with ⟨f0, hf0, h⟩ | ⟨f0, hf0, h⟩
      · cases h; exact Or.inl ⟨s0, hs0, r, hf0, hr'⟩
      · cases h
    · obtain ⟨r, rfl, hr'⟩ :=
        (run_embed_iff (A := B) (K := A.unionA B) Sum.inr (mem_unionA_delta_inr A B) s0 w f).mp hr
      rcases hf with ⟨f0, hf0, h⟩ | ⟨f0, hf0, h⟩
      · cases h
      · cases h; exact Or.inr ⟨s0, hs0, r, hf0, hr'⟩
  · rintro (⟨s, hs, f, hf, hr⟩ | ⟨s, hs, f, hf, hr⟩)
    · exact ⟨Sum.inl s, Or.inl ⟨s, hs, rfl⟩, Sum.inl f, Or.inl ⟨f, hf, rfl⟩,
        (run_embed_iff (A := A) (K := A.unionA B) Sum.inl (mem_unionA_delta_inl A B) s w _).mpr
          ⟨f, rfl, hr⟩⟩
    · exact ⟨Sum.inr s, Or.inr ⟨s, hs, rfl⟩, Sum.inr f, Or.inr ⟨f, hf, rfl⟩,
        (run_embed_iff (A := B) (K := A.unionA B) Sum.inr (mem_unionA_delta_inr A B) s w _).mpr
          ⟨f, rfl, hr⟩⟩

theorem concatA_lang (A : ENFA σ) (B : ENFA τ) (w : List Nat) :
    (A.concatA B).Lang w ↔ ∃ u v, w = u ++ v ∧ A.Lang u ∧ B.Lang v := by
  unfold Lang
  constructor
  · rintro ⟨s, hs, f, hf, hr⟩
    obtain ⟨s0, hs0, rfl⟩ : ∃ s0 ∈ A.starts, Sum.inl s0 = s := by
      simpa [concatA] using hs
    obtain ⟨f0, hf0, rfl⟩ : ∃ f0 ∈ B.finals, Sum.inr f0 = f := by
      simpa [concatA] using hf
    obtain ⟨u, v, fa, sb, hw, hu, hfa, hsb, hv⟩ := concatA_run_split A B hr s0 f0 rfl rfl
    exact ⟨u, v, hw, ⟨s0, hs0, fa, hfa, hu⟩, ⟨sb, hsb, f0, hf0, hv⟩⟩
  · rintro ⟨u, v, rfl, ⟨s0, hs0, fa, hfa, hu⟩, ⟨sb, hsb, f0, hf0, hv⟩⟩
    refine ⟨Sum.inl s0, by simp [concatA, hs0], Sum.inr f0, by simp [concatA, hf0], ?_⟩
    have h1 : (A.concatA B).Run (Sum.inl s0) u (Sum.inl fa) :=
      Run.embed (K := A.concatA B) Sum.inl
        (fun q a r he => (mem_concatA_delta_inl A B q a _).mpr (Or.inl ⟨r, rfl, he⟩)) hu
    have h2 : (A.concatA B).Run (Sum.inr sb) v (Sum.inr f0) :=
      Run.embed (K := A.concatA B) Sum.inr
        (fun q a r he => (mem_concatA_delta_inr A B q a _).mpr ⟨r, rfl, he⟩) hv
    exact Run.append h1 (Run.eps
      ((mem_concatA_delta_inl A B fa none _).mpr (Or.inr ⟨sb, rfl, rfl, hfa, hsb⟩)) h2)

theorem starA_lang (A : ENFA σ) (w : List Nat) :
    A.starA.Lang w ↔ ∃ ws : List (List Nat), w = ws.flatten ∧ ∀ x ∈ ws, A.Lang x := by
  constructor
  · rintro ⟨s, hs, f, hf, hr⟩
    have hs' : s = none := by simpa [starA] using hs
    have hf' : f = none := by simpa [starA] using hf
    subst hs'
    exact starA_run_decomp A hr hf'
  · rintro ⟨ws, rfl, hws⟩
    exact ⟨none, by simp [starA], none, by simp [starA], starA_run_of_words A ws hws⟩

theorem unionA_wf (A : ENFA σ) (B : ENFA τ) (hA : A.WF) (hB : B.WF) : (A.unionA B).WF := by
  refine ⟨?_, ?_, ?_, ?_, ?_⟩
  · intro q hq
    simp only [unionA, List.mem_append, List.mem_map] at hq ⊢
    rcases hq with ⟨s, hs, rfl⟩ | ⟨s, hs, rfl⟩
    · exact Or.inl ⟨s, hA.starts_sub s hs, rfl⟩
    · exact Or.inr ⟨s, hB.starts_sub s hs, rfl⟩
  · intro q hq
    simp only [unionA, List.mem_append, List.mem_map] at hq ⊢
    rcases hq with ⟨s, hs, rfl⟩ | ⟨s, hs, rfl⟩
    · exact Or.inl ⟨s, hA.finals_sub s hs, rfl⟩
    · exact Or.inr ⟨s, hB.finals_sub s hs, rfl⟩
  · intro t ht
    simp only [unionA, List.mem_append, List.mem_map] at ht ⊢
    rcases ht with ⟨s, hs, rfl⟩ | ⟨s, hs, rfl⟩
    · exact Or.inl ⟨_, hA.delta_src s hs, rfl⟩
    · exact Or.inr ⟨_, hB.delta_src s hs, rfl⟩
  · intro t ht
    simp only [unionA, List.mem_append, List.mem_map] at ht ⊢
    rcases ht with ⟨s, hs, rfl⟩ | ⟨s, hs, rfl⟩
    · exact Or.inl ⟨_, hA.delta_dst s hs, rfl⟩
    · exact Or.inr ⟨_, hB.delta_dst s hs, rfl⟩
  · intro t ht a ha
    simp only [unionA, List.mem_append, List.mem_map, List.mem_eraseDups] at ht ⊢
    rcases ht with ⟨s, hs, rfl⟩ | ⟨s, hs, rfl⟩
    · exact Or.inl (hA.delta_sym s hs a ha)
    · exact Or.inr (hB.delta_sym s hs a ha)

theorem concatA_wf (A : ENFA σ) (B : ENFA τ) (hA : A.WF) (hB : B.WF) : (A.concatA B).WF := by
  refine ⟨?_, ?_, ?_, ?_, ?_⟩
  · intro q hq
    simp only [concatA, List.mem_append, List.mem_map] at hq ⊢
    obtain ⟨s, hs, rfl⟩ := hq
    exact Or.inl ⟨s, hA.starts_sub s hs, rfl⟩
  · intro q hq
    simp only [concatA, List.mem_append, List.mem_map] at hq ⊢
    obtain ⟨s, hs, rfl⟩ := hq
    exact Or.inr ⟨s, hB.finals_sub s hs, rfl⟩
  · intro t ht
    simp only [concatA, List.mem_append, List.mem_map, List.mem_flatMap] at ht ⊢
    rcases ht with (⟨s, hs, rfl⟩ | ⟨s, hs, rfl⟩) | ⟨f, hf, s, hs, rfl⟩
    · exact Or.inl ⟨_, hA.delta_src s hs, rfl⟩
    · exact Or.inr ⟨_, hB.delta_src s hs, rfl⟩
    · exact Or.inl ⟨f, hA.finals_sub f hf, rfl⟩
  · intro t ht
    simp only [concatA, List.mem_append, List.mem_map, List.mem_flatMap] at ht ⊢
    rcases ht with (⟨s, hs, rfl⟩ | ⟨s, hs, rfl⟩) | ⟨f, hf, s, hs, rfl⟩
    · exact Or.inl ⟨_, hA.delta_dst s hs, rfl⟩
    · exact Or.inr ⟨_, hB.delta_dst s hs, rfl⟩
    · exact Or.inr ⟨s, hB.starts_sub s hs, rfl⟩
  · intro t ht a ha
    simp only [concatA, List.mem_append, List.mem_map, List.mem_flatMap, List.mem_eraseDups] at ht ⊢
    rcases ht with (⟨s, hs, rfl⟩ | ⟨s, hs, rfl⟩) | ⟨f, hf, s, hs, rfl⟩
    · exact Or.inl (hA.delta_sym s hs a ha)
    · exact Or.inr (hB.delta_sym s hs a ha)
    · cases ha

theorem starA_wf (A : ENFA σ) (hA : A.WF) : A.starA.WF := by
  refine ⟨?_, ?_, ?_, ?_, ?_⟩
  · intro q hq
    simp only [starA, List.mem_singleton] at hq
    subst hq
    exact List.mem_cons_self
  · intro q hq
    simp only [starA, List.mem_singleton] at hq
    subst hq
    exact List.mem_cons_self
  · intro t ht
    simp only [starA, List.mem_append, List.mem_map, List.mem_cons] at ht ⊢
    rcases ht with (⟨s, hs, rfl⟩ | ⟨s, hs, rfl⟩) | ⟨f, hf, rfl⟩
    · exact Or.inr ⟨_, hA.delta_src s hs, rfl⟩
    · exact Or.inl rfl
    · exact Or.inr ⟨f, hA.finals_sub f hf, rfl⟩
  · intro t ht
    simp only [starA, List.mem_append, List.mem_map, List.mem_cons] at ht ⊢
    rcases ht with (⟨s, hs, rfl⟩ | ⟨s, hs, rfl⟩) | ⟨f, hf, rfl⟩
    · exact Or.inr ⟨_, hA.delta_dst s hs, rfl⟩
    · exact Or.inr ⟨s, hA.starts_sub s hs, rfl⟩
    · exact Or.inl rfl
  · intro t ht a ha
    simp only [starA, List.mem_append, List.mem_map] at ht ⊢
    rcases ht with (⟨s, hs, rfl⟩ | ⟨s, hs, rfl⟩) | ⟨f, hf, rfl⟩
    · exact hA.delta_sym s hs a ha
    · cases ha
    · cases ha

/-- `canonS` separates different subsets of the states -/
theorem canonS_keyInj (A : ENFA σ) : A.KeyInj A.canonS := by
  exact canonS_keyInj' A

theorem complementRef_lang (A : ENFA σ) (hA : A.WF) (trash : List σ)
    (ht : ∃ q ∈ trash, q ∉ A.states) (fuel : Nat) (C : ENFA (List σ))
    (h : A.complementRef trash fuel = some C) (w : List Nat) :
    C.Lang w ↔ (∀ a ∈ w, a ∈ A.syms) ∧ ¬ A.Lang w := by
  unfold complementRef at h
  obtain ⟨D, hD, rfl⟩ := Option.map_eq_some_iff.mp h
  obtain ⟨seen, hseen, hDeq⟩ := toDet_eq A A.canonS true fuel D hD
  have hshape := toDet_shape A A.canonS true fuel D hD
  have hDwf : D.WF := by rw [hDeq]; exact ofParts_wf _ _ _
  have hD'wf : (D.addSyms A.syms).WF := addSyms_wf' D hDwf A.syms
  have hD'det : (D.addSyms A.syms).Deterministic := hshape.1
  have hstarts : (D.addSyms A.syms).starts ≠ [] := by
    intro h0
    have hm : A.canonS (A.detStart true) ∈ D.starts := by
      rw [hDeq]; exact (mem_detOf_starts A A.canonS true seen _).mpr rfl
    have h0' : D.starts = [] := h0
    rw [h0'] at hm
    cases hm
  have htrash : trash ∉ (D.addSyms A.syms).states := by
    intro hmem
    have hmem' : trash ∈ (A.detOf A.canonS true seen).states := by rw [← hDeq]; exact hmem
    obtain ⟨S, hS⟩ := detOf_states_canon A true seen trash hmem'
    obtain ⟨q, hq, hqn⟩ := ht
    rw [hS] at hq
    exact hqn ((mem_canonS A S q).mp hq).1
  have hlang : (D.addSyms A.syms).Lang w ↔ A.Lang w := by
    rw [← toDet_lang A hA A.canonS (canonS_keyInj' A) fuel D hD w]
    exact lang_congr (A := D.addSyms A.syms) (B := D) (fun _ => Iff.rfl) (fun _ => Iff.rfl)
      (fun _ => Iff.rfl) w
  have hsyms : ∀ a, a ∈ (D.addSyms A.syms).syms ↔ a ∈ A.syms := by
    intro a
    simp only [addSyms, List.mem_eraseDups, List.mem_append]
    constructor
    · rintro (h1 | h1)
      · rw [hDeq] at h1; exact detOf_syms_sub A A.canonS true seen a h1
      · exact h1
    · intro h1; exact Or.inr h1
  rw [complementRaw_lang (D.addSyms A.syms) hD'wf hD'det hstarts trash htrash w, hlang]
  simp only [hsyms]

theorem complementRef_wf (A : ENFA σ) (hA : A.WF) (trash : List σ) (fuel : Nat)
    (C : ENFA (List σ)) (h : A.complementRef trash fuel = some C) : C.WF := by
  have _ := hA
  unfold complementRef at h
  obtain ⟨D, _, rfl⟩ := Option.map_eq_some_iff.mp h
  exact complementRaw_wf _ _ (ofParts_wf _ _ _) trash

theorem inter_wf (A : ENFA σ) (B : ENFA τ) (hA : A.WF) (hB : B.WF) (fuel : Nat)
    (P : ENFA (σ × τ)) (h : A.inter B fuel = some P) : P.WF := by
  have _ := hA; have _ := hB
  unfold inter at h
  obtain ⟨seen, _, rfl⟩ := Option.map_eq_some_iff.mp h
  exact ofParts_wf _ _ _

theorem reverse_wf (A : ENFA σ) (hA : A.WF) : A.reverse.WF := by
  have _ := hA
  exact ofParts_wf _ _ _

theorem addSyms_lang (A : ENFA σ) (syms : List Nat) (w : List Nat) :
    (A.addSyms syms).Lang w ↔ A.Lang w := by
  exact lang_congr (A := A.addSyms syms) (B := A) (fun _ => Iff.rfl) (fun _ => Iff.rfl)
    (fun _ => Iff.rfl) w

theorem addSyms_wf (A : ENFA σ) (hA : A.WF) (syms : List Nat) : (A.addSyms syms).WF := by
  exact addSyms_wf' A hA syms

end ENFA
end Pfl
