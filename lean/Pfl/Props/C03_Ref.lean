/-
C03 — the reference constructions used as oracles have exactly the set-theoretic language.
-/
import Pfl.Oracle.RegOps
import Pfl.Props.C01_Det
import Pfl.Props.C03_Bool
namespace Pfl
namespace ENFA
variable {σ τ : Type} [DecidableEq σ] [DecidableEq τ]

theorem unionA_lang (A : ENFA σ) (B : ENFA τ) (w : List Nat) :
    (A.unionA B).Lang w ↔ A.Lang w ∨ B.Lang w := by
  sorry

theorem concatA_lang (A : ENFA σ) (B : ENFA τ) (w : List Nat) :
    (A.concatA B).Lang w ↔ ∃ u v, w = u ++ v ∧ A.Lang u ∧ B.Lang v := by
  sorry

theorem starA_lang (A : ENFA σ) (w : List Nat) :
    A.starA.Lang w ↔ ∃ ws : List (List Nat), w = ws.flatten ∧ ∀ x ∈ ws, A.Lang x := by
  sorry

theorem unionA_wf (A : ENFA σ) (B : ENFA τ) (hA : A.WF) (hB : B.WF) : (A.unionA B).WF := by
  sorry

theorem concatA_wf (A : ENFA σ) (B : ENFA τ) (hA : A.WF) (hB : B.WF) : (A.concatA B).WF := by
  sorry

theorem starA_wf (A : ENFA σ) (hA : A.WF) : A.starA.WF := by
  sorry

/-- `canonS` separates different subsets of the states -/
theorem canonS_keyInj (A : ENFA σ) : A.KeyInj A.canonS := by
  sorry

theorem complementRef_lang (A : ENFA σ) (hA : A.WF) (trash : List σ)
    (ht : ∃ q ∈ trash, q ∉ A.states) (fuel : Nat) (C : ENFA (List σ))
    (h : A.complementRef trash fuel = some C) (w : List Nat) :
    C.Lang w ↔ (∀ a ∈ w, a ∈ A.syms) ∧ ¬ A.Lang w := by
  sorry

theorem complementRef_wf (A : ENFA σ) (hA : A.WF) (trash : List σ) (fuel : Nat)
    (C : ENFA (List σ)) (h : A.complementRef trash fuel = some C) : C.WF := by
  sorry

theorem inter_wf (A : ENFA σ) (B : ENFA τ) (hA : A.WF) (hB : B.WF) (fuel : Nat)
    (P : ENFA (σ × τ)) (h : A.inter B fuel = some P) : P.WF := by
  sorry

theorem reverse_wf (A : ENFA σ) (hA : A.WF) : A.reverse.WF := by
  sorry

theorem addSyms_lang (A : ENFA σ) (syms : List Nat) (w : List Nat) :
    (A.addSyms syms).Lang w ↔ A.Lang w := by
  sorry

theorem addSyms_wf (A : ENFA σ) (hA : A.WF) (syms : List Nat) : (A.addSyms syms).WF := by
  sorry

end ENFA
end Pfl
