/-
C02 — the library's own refinement loop (`_get_partition`, modelled step for step in
`Pfl/Model/Hopcroft.lean`) computes the Nerode partition, and terminates within an explicit
number of iterations.
-/
import Pfl.Model.Hopcroft
import Pfl.Props.C02_Min
import Pfl.Proofs.HopcroftLemmas
namespace Pfl
namespace ENFA
variable {σ : Type} [DecidableEq σ]
open Pfl.ENFA.Hop

/-- Hopcroft's loop ends with the Nerode classes of `states ∪ {trash}` (the class of final
states may be empty when there is no final state, hence the filter) -/
theorem hopcroft_isNerodePartition (A : ENFA σ) (hA : A.WF) (hd : A.Deterministic) (he : A.EpsFree)
    (hnd : A.states.Nodup) (fuel : Nat) (gs : List (List (Option σ)))
    (h : A.hopcroft fuel = some gs) : A.IsNerodePartition (gs.filter (· ≠ [])) :=
  hopcroft_correct hA hd he hnd fuel gs h

/-- the groups are pairwise disjoint lists without repetition (what `to_new_states` relies on) -/
theorem hopcroft_groups_nodup (A : ENFA σ) (hnd : A.states.Nodup) (fuel : Nat)
    (gs : List (List (Option σ))) (h : A.hopcroft fuel = some gs) :
    (gs.flatMap id).Nodup := by
  rw [hopcroft_eq, Option.map_eq_some_iff] at h
  obtain ⟨st', hst', rfl⟩ := h
  have := loop_inv A (fun st => Inv1 A st.part)
    (fun st c a rest _ h1 => iter_inv1 hnd st c a rest h1) fuel _ st' (init_inv1 A hnd) hst'
  exact this.1.good.nodup_flatMap

/-- termination: every pop is paid for by an initial insertion or by a split, and there are at most
`|states|` splits -/
theorem hopcroft_isSome (A : ENFA σ) (hnd : A.states.Nodup) (fuel : Nat)
    (hfuel : A.syms.length * (A.states.length + 2) < fuel) : (A.hopcroft fuel).isSome := by
  rw [hopcroft_eq, Option.isSome_map]
  apply loop_isSome hnd fuel _ (init_inv1 A hnd)
  rw [initState_stack_length, initState_part]
  simp only [List.length_cons, List.length_nil, Nat.zero_add, Nat.reduceAdd, Nat.add_sub_cancel]
  rw [Nat.mul_add] at hfuel
  omega

end ENFA
end Pfl

namespace Pfl
namespace ENFA
variable {σ κ : Type} [DecidableEq σ] [DecidableEq κ]

theorem groupKey_filter_nonempty (gs : List (List (Option σ))) (key : List (Option σ) → κ) (q : σ) :
    groupKey (gs.filter (· ≠ [])) key q = groupKey gs key q := by
  unfold groupKey
  congr 1
  induction gs with
  | nil => rfl
  | cons g gs ih =>
    by_cases hg : g = []
    · subst hg
      have : List.filter (fun x : List (Option σ) => decide (x ≠ [])) ([] :: gs) =
          List.filter (fun x => decide (x ≠ [])) gs := by simp
      rw [this, ih]; simp
    · have : List.filter (fun x : List (Option σ) => decide (x ≠ [])) (g :: gs) =
          g :: List.filter (fun x => decide (x ≠ [])) gs := by simp [hg]
      rw [this, List.find?_cons, List.find?_cons, ih]

/-- empty classes (the class of final states when there is none) play no part in `minimize` -/
theorem minimizeOf_filter_nonempty (A : ENFA σ) (gs : List (List (Option σ)))
    (key : List (Option σ) → κ) (emptyKey : κ) :
    A.minimizeOf (gs.filter (· ≠ [])) key emptyKey = A.minimizeOf gs key emptyKey := by
  unfold minimizeOf
  have h : groupKey (gs.filter (· ≠ [])) key = groupKey gs key := by
    funext q; exact groupKey_filter_nonempty gs key q
  simp only [h]

/-- `minimize()` as the library computes it — Hopcroft's loop followed by the quotient — keeps the
language, for every well-formed DFA and every injective naming of the blocks -/
theorem minimize_hopcroft_lang (A : ENFA σ) (hA : A.WF) (hd : A.Deterministic) (he : A.EpsFree)
    (hnd : A.states.Nodup) (fuel : Nat) (gs : List (List (Option σ))) (h : A.hopcroft fuel = some gs)
    (key : List (Option σ) → κ)
    (hkey : ∀ g ∈ gs, ∀ g' ∈ gs, key g = key g' → g = g') (emptyKey : κ) (w : List Nat) :
    (A.minimizeOf gs key emptyKey).Lang w ↔ A.Lang w := by
  rw [← minimizeOf_filter_nonempty]
  exact minimizeOf_lang A hA hd he _ (hopcroft_isNerodePartition A hA hd he hnd fuel gs h) key
    (fun g hg g' hg' => hkey g (List.mem_of_mem_filter hg) g' (List.mem_of_mem_filter hg')) emptyKey w

/-- … and is deterministic, ε-free, well-formed and reduced -/
theorem minimize_hopcroft_reduced (A : ENFA σ) (hA : A.WF) (hd : A.Deterministic) (he : A.EpsFree)
    (hnd : A.states.Nodup) (fuel : Nat) (gs : List (List (Option σ))) (h : A.hopcroft fuel = some gs)
    (key : List (Option σ) → κ)
    (hkey : ∀ g ∈ gs, ∀ g' ∈ gs, key g = key g' → g = g') (emptyKey : κ) :
    (A.minimizeOf gs key emptyKey).Deterministic ∧ (A.minimizeOf gs key emptyKey).EpsFree ∧
    (A.minimizeOf gs key emptyKey).WF ∧ (A.minimizeOf gs key emptyKey).Reduced := by
  rw [← minimizeOf_filter_nonempty]
  have hP := hopcroft_isNerodePartition A hA hd he hnd fuel gs h
  have hk : ∀ g ∈ gs.filter (· ≠ []), ∀ g' ∈ gs.filter (· ≠ []), key g = key g' → g = g' :=
    fun g hg g' hg' => hkey g (List.mem_of_mem_filter hg) g' (List.mem_of_mem_filter hg')
  obtain ⟨h1, h2, h3⟩ := minimizeOf_shape A hA hd he _ hP key hk emptyKey
  exact ⟨h1, h2, h3, minimizeOf_reduced A hA hd he _ hP key hk emptyKey⟩

end ENFA
end Pfl
