/-
C16 — translation is the transduction relation; union / concatenation / star compose relations.
-/
import Pfl.Spec.FST
import Pfl.Oracle.FstRel
import Pfl.Proofs.FSTLemmas
namespace Pfl
namespace FST
open Lem
variable {σ : Type} [DecidableEq σ]
-- the `Nodup` hypotheses of the statements below turn out not to be needed
set_option linter.unusedVariables false

/-- the relational oracle: whenever it answers, it lists exactly the outputs related to `w` -/
theorem relOutputs_iff (T : FST σ) (w : List String) (fuel : Nat) (outs : List (List String))
    (h : T.relOutputs w fuel = some outs) (o : List String) : o ∈ outs ↔ T.Rel w o :=
  Lem.relOutputs_iff T w fuel outs h o

/-- `translate` without length bound: whenever the exploration finishes, every yielded word is an
output of `w` and every output of `w` is yielded -/
theorem translate_exact (T : FST σ) (w : List String) (fuel : Nat) (outs : List (List String))
    (h : T.translate w none fuel = some outs) (o : List String) : o ∈ outs ↔ T.Rel w o :=
  Lem.translate_exact T w fuel outs h o

-- `structure WF` (what `add_*` guarantees) lives in Pfl/Proofs/FSTLemmas.lean as `Pfl.FST.WF`

/-- the library's renaming gives different names to different (state, operand) pairs -/
theorem rename_injective (sa sb : List String) (ha : sa.Nodup) (hb : sb.Nodup) :
    let ren := (renameAll (renameAll ([], []) sa 0) sb 1).1
    ∀ p ∈ (sa.map fun s => (s, 0)) ++ sb.map fun s => (s, 1),
    ∀ q ∈ (sa.map fun s => (s, 0)) ++ sb.map fun s => (s, 1),
      getName ren p.1 p.2 = getName ren q.1 q.2 → p = q :=
  Lem.rename_injective sa sb

theorem union_rel (A B : FST String) (hA : A.WF) (hB : B.WF) (na : A.states.Nodup) (nb : B.states.Nodup)
    (i o : List String) : (A.union B).Rel i o ↔ A.Rel i o ∨ B.Rel i o :=
  Lem.union_rel A B hA hB i o

theorem concatenate_rel (A B : FST String) (hA : A.WF) (hB : B.WF) (na : A.states.Nodup)
    (nb : B.states.Nodup) (i o : List String) :
    (A.concatenate B).Rel i o ↔
      ∃ i₁ i₂ o₁ o₂, i = i₁ ++ i₂ ∧ o = o₁ ++ o₂ ∧ A.Rel i₁ o₁ ∧ B.Rel i₂ o₂ :=
  Lem.concatenate_rel A B hA hB i o

theorem kleeneStar_rel (A : FST String) (hA : A.WF) (na : A.states.Nodup) (i o : List String) :
    A.kleeneStar.Rel i o ↔
      ∃ ps : List (List String × List String),
        i = (ps.map (·.1)).flatten ∧ o = (ps.map (·.2)).flatten ∧ ∀ p ∈ ps, A.Rel p.1 p.2 :=
  Lem.kleeneStar_rel A hA i o

end FST
end Pfl
