/-
C15 — the tree side of the CYK table: whatever the iteration orders, the node returned by
`get_parse_tree` is a parse tree of the word in the normal form, and a tree is returned exactly when the
recogniser says yes.
-/
import Pfl.Model.CYKTree
import Pfl.Props.C15_Trees
import Pfl.Props.C09_CNF
import Pfl.Proofs.CYKTree
namespace Pfl
namespace CFG
open Pfl.CFG.CYKT

/-- every tree handed out is a parse tree of the word in the grammar the table was built for -/
theorem cykTree_valid (N : CFG) (w : List String) (hw : w ≠ []) (t : PTree)
    (h : cykTree N w = some t) : N.treeValid t w = true := by
  unfold cykTree at h
  split at h
  · simp at h
  · cases hs : N.start with
    | none => rw [hs] at h; simp at h
    | some s =>
      rw [hs] at h
      simp only at h
      have hmem : t ∈ topT N w := List.mem_of_find?_eq_some h
      have hroot := List.find?_some h
      simp only [decide_eq_true_eq] at hroot
      obtain ⟨g1, g2, g3⟩ := top_good N w hw t hmem
      unfold treeValid
      rw [hs]
      simp [g1, g2, g3, hroot]

/-- a tree exists exactly when the recogniser accepts: the heads of a cell of trees are the variables of the
recogniser's cell -/
theorem cykTree_isSome_iff (N : CFG) (w : List String) (hw : w ≠ []) :
    (cykTree N w).isSome = cyk N w := by
  unfold cykTree cyk
  split
  · rfl
  · cases hs : N.start with
    | none => rfl
    | some s =>
      simp only
      rw [Bool.eq_iff_iff, List.find?_isSome, decide_eq_true_eq, ← top_heads N w hw s]
      simp only [decide_eq_true_eq]
      rfl

/-- `get_cnf_parse_tree`: the tree is a parse tree in the normal form of the grammar, hence (for grammars
as built through the API) its yield is a word of the grammar -/
theorem cnfParseTree_valid (G : CFG) (w : List String) (hw : w ≠ []) (fuel : Nat) (N : CFG) (t : PTree)
    (hN : G.toNormalForm fuel = some N) (h : G.cnfParseTree w fuel = some (some t)) :
    N.treeValid t w = true := by
  unfold cnfParseTree at h
  rw [hN] at h
  simp only [Option.map_some, Option.some.injEq] at h
  exact cykTree_valid N w hw t h

/-- non-vacuity: the example grammar yields a tree for `a a b` -/
example : (cykTree (CFG.mk' [] [] (some "S") [("S", [.var "A", .var "B"]), ("S", [.var "A", .var "S"]),
    ("A", [.ter "a"]), ("B", [.ter "b"]), ("S", [.ter "b"])]) ["a", "a", "b"]).isSome = true := by
  decide +kernel

end CFG
end Pfl
