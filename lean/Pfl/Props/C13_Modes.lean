/-
C13 — to_final_state / to_empty_stack exchange the two acceptance modes; CFG.to_pda accepts
the grammar's language by empty stack.
-/
import Pfl.Spec.PDA
import Pfl.Proofs.CFGBase
namespace Pfl
namespace PDA

/-- `_states` / `_stack_alphabet` mention everything in use -/
structure WF {σ γ : Type} (P : PDA σ γ) : Prop where
  src : ∀ t ∈ P.delta, t.1 ∈ P.states
  dst : ∀ t ∈ P.delta, t.2.2.2.1 ∈ P.states
  pop : ∀ t ∈ P.delta, t.2.2.1 ∈ P.stack
  push : ∀ t ∈ P.delta, ∀ x ∈ t.2.2.2.2, x ∈ P.stack
  inp : ∀ t ∈ P.delta, ∀ c, t.2.1 = some c → c ∈ P.inputs
  start : ∀ s, P.start = some s → s ∈ P.states
  startStack : ∀ z, P.startStack = some z → z ∈ P.stack
  finals : ∀ f ∈ P.finals, f ∈ P.states

/-- `get_next_free` returns a name that is not in use -/
theorem nextFree_fresh (pre : String) (used : List String) : nextFree pre used ∉ used := by
  sorry

theorem toFinalState_lang (P : PDA String String) (hP : P.WF) (w : List String) :
    P.toFinalState.AccFinal w ↔ P.AccEmpty w := by
  sorry

theorem toEmptyStack_lang (P : PDA String String) (hP : P.WF) (w : List String) :
    P.toEmptyStack.AccEmpty w ↔ P.AccFinal w := by
  sorry

/-- `CFG.to_pda`, for grammars in which no variable is named like the stack symbol of a
terminal (`#TERM#t`) -/
theorem ofCFG_lang (G : CFG) (hG : G.WF) (hfresh : ∀ t ∈ G.ters, ("#TERM#" ++ t) ∉ G.vars)
    (w : List String) : (ofCFG G).AccEmpty w ↔ G.Lang w := by
  sorry

end PDA
end Pfl
