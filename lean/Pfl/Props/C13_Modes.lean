/-
C13 — to_final_state / to_empty_stack exchange the two acceptance modes; CFG.to_pda accepts
the grammar's language by empty stack.
-/
import Pfl.Spec.PDA
import Pfl.Proofs.CFGBase
import Pfl.Proofs.PDAModes
namespace Pfl
namespace PDA

/- The structure `PDA.WF` (`_states` / `_stack_alphabet` mention everything in use) is defined in
`Pfl/Proofs/PDAModes.lean` (same name `Pfl.PDA.WF`, same fields). -/

/-- `get_next_free` returns a name that is not in use -/
theorem nextFree_fresh (pre : String) (used : List String) : nextFree pre used ∉ used :=
  Modes.nextFree_fresh pre used

theorem toFinalState_lang (P : PDA String String) (hP : P.WF) (w : List String) :
    P.toFinalState.AccFinal w ↔ P.AccEmpty w :=
  ⟨Modes.toFinalState_sound hP, Modes.toFinalState_complete hP⟩

theorem toEmptyStack_lang (P : PDA String String) (hP : P.WF) (w : List String) :
    P.toEmptyStack.AccEmpty w ↔ P.AccFinal w :=
  ⟨Modes.toEmptyStack_sound hP, Modes.toEmptyStack_complete hP⟩

/-- `CFG.to_pda`, for grammars in which no variable is named like the stack symbol of a
terminal (`#TERM#t`) -/
theorem ofCFG_lang (G : CFG) (hG : G.WF) (hfresh : ∀ t ∈ G.ters, ("#TERM#" ++ t) ∉ G.vars)
    (w : List String) : (ofCFG G).AccEmpty w ↔ G.Lang w :=
  Modes.ofCFG_lang G hG hfresh w

end PDA
end Pfl
