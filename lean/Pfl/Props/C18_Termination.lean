/-
C18 — termination of the (repaired) Earley recogniser of FCFG on agreement grammars: the
`while chart[i]` loops end.  `fuel` bounds the number of pops of one chart column; with
`fuel ≥ earleyFuel vals spec w` (explicit: the number of keys `(production, begin, dot)` of a column
times the number of valuations of the leaves of a feature record, plus one) `contains(w)` answers,
and by `earley_exact` the answer is membership in the instantiated grammar.

Why: a state is pushed on a column only when `processed.add` accepts it, i.e. when no state stored
under the same key subsumes it.  Two records with the same pattern (which symbol records coincide,
which leaves coincide, the values of the leaves) subsume each other (`Term.subsumes_of_pat`).  The
symbol records of a state's record are pairwise distinct and its leaves coincide exactly as those
of its production do (`Term.TSh`, kept by `copy` and by the exactly computed `unify`), so the pattern
is determined by the values of the leaves: at most `(|vals|+2)^(L+1)` accepted states under a key.
Feature-free grammars: all patterns under a key are equal, at most one accepted state per key.
-/
import Pfl.Props.C18_EarleyComplete
import Pfl.Proofs.EarleyTerminationFeat
import Pfl.Proofs.EarleyTerminationBuild
namespace Pfl
namespace Earley

/-- the longest body (at least 1: the dummy rule `Gamma → S`) -/
def maxBody (spec : Spec) : Nat := (spec.map (·.2.length)).foldl max 1

/-- the fuel that suffices: per column at most `(|spec|+1)·(|w|+1)·(L+1)` keys, under a key at most
`(|vals|+2)^(L+1)` states (`L` the longest body: a record has `L+1` symbol records, each without
leaf, with an unbound leaf or with a leaf bound to a value); one more unit for the final test of
the empty column -/
def earleyFuel (vals : List String) (spec : Spec) (w : List String) : Nat :=
  Term.colBoundT spec.length w.length (maxBody spec) vals.length + 1

theorem earleyFuel_eq (vals : List String) (spec : Spec) (w : List String) :
    earleyFuel vals spec w =
      (spec.length + 1) * (w.length + 1) * (maxBody spec + 1) *
        (vals.length + 2) ^ (maxBody spec + 1) + 1 := rfl

namespace Term
open Lem FsDag FsDag.Lem Cmp

theorem foldl_max_le (l : List Nat) : ∀ (a : Nat), a ≤ l.foldl max a ∧ ∀ x ∈ l, x ≤ l.foldl max a := by
  induction l with
  | nil => intro a; simp
  | cons y l ih =>
    intro a
    rw [List.foldl_cons]
    obtain ⟨h1, h2⟩ := ih (max a y)
    refine ⟨by omega, fun x hx => ?_⟩
    rcases List.mem_cons.1 hx with rfl | hx
    · omega
    · exact h2 x hx

theorem one_le_maxBody (spec : Spec) : 1 ≤ maxBody spec := (foldl_max_le _ 1).1

theorem body_le_maxBody {spec : Spec} {pr : (String × Feat) × List (Sym × Feat)} (h : pr ∈ spec) :
    pr.2.length ≤ maxBody spec :=
  (foldl_max_le _ 1).2 _ (List.mem_map.2 ⟨pr, h, rfl⟩)

/-- the features of a production record are `head`, `0`, …, `|body| - 1` -/
theorem rootLab_rootN {st : Store} {F hfs : Nat} {bfs : List Nat} {L : Nat}
    (h : get st F = rootN hfs bfs) (hl : bfs.length ≤ L) : RootLab st F L := by
  have hp : ptr st F = none := by rw [ptr, h]; rfl
  intro g x hx
  rw [deref_of_none hp, cont, h] at hx
  simp only [rootN, Bld.prodContent, List.mem_cons, Prod.mk.injEq, List.mem_map] at hx
  rcases hx with ⟨rfl, _⟩ | ⟨e, he, rfl, _⟩
  · exact ⟨0, Nat.zero_le _, rfl⟩
  · have h2 := (List.of_mem_zip (show (e.1, e.2) ∈ _ from he)).2
    rw [List.mem_range] at h2
    exact ⟨e.2 + 1, by omega, rfl⟩

end Term

namespace Term
open Lem FsDag FsDag.Lem Cmp

/-- the constants of a specification -/
def specSrc (spec : Spec) : String → Prop := fun v => isVarName v = false ∧
  ∃ pr ∈ spec, ∃ f ∈ pr.1.2 :: pr.2.map (·.2), f = some v

/-- what the termination proofs use about the store and the grammar built from a specification -/
structure SpecFacts (vals : List String) (spec : Spec) (featured : Bool) (w : List String)
    (rk0 : Nat → Nat) (d : String) : Prop where
  hd : (Glue.ctx vals spec featured w).P d
  hC : CtxOK (Glue.ctx vals spec featured w)
  htc : TC (Glue.ctx vals spec featured w) vals (maxBody spec)
  hw0 : WFS (buildGrammar spec "S").1 rk0
  hlen2 : 2 ≤ (buildGrammar spec "S").1.length
  hobjs : ∀ k p, (Glue.ctx vals spec featured w).G.prods[k]? = some p →
      p.feats < (buildGrammar spec "S").1.length ∧ rk0 p.feats = 2 ∧
        GoodObj (Glue.ctx vals spec featured w) (buildGrammar spec "S").1 k p.feats
  hgam : (Glue.ctx vals spec featured w).G.gammaFeats < (buildGrammar spec "S").1.length ∧
      rk0 (Glue.ctx vals spec featured w).G.gammaFeats = 2
  hsx : SX (Glue.ctx vals spec featured w).P (buildGrammar spec "S").1 rk0
  hnv : (Glue.ctx vals spec featured w).featured = false → NoVal (buildGrammar spec "S").1
  hcov : ∀ (k : Nat) (p : FProd) (pr : (String × Feat) × List (Sym × Feat)) (env : Lem.Env),
      (Glue.ctx vals spec featured w).G.prods[k]? = some p →
      (Glue.ctx vals spec featured w).spec[k]? = some pr →
      (Glue.ctx vals spec featured w).okEnv k env →
      Cov (Glue.ctx vals spec featured w) (buildGrammar spec "S").1 p.feats k env
  hpth : ∀ (k : Nat) (p : FProd), (Glue.ctx vals spec featured w).G.prods[k]? = some p →
      HasPaths (Glue.ctx vals spec featured w) (buildGrammar spec "S").1 p.feats k
  hgpth : HasPaths (Glue.ctx vals spec featured w) (buildGrammar spec "S").1
      (Glue.ctx vals spec featured w).G.gammaFeats (Glue.ctx vals spec featured w).spec.length
  hrlo : ∀ (k : Nat) (p : FProd), (Glue.ctx vals spec featured w).G.prods[k]? = some p →
      RootLab (buildGrammar spec "S").1 p.feats (maxBody spec)
  hrlg : RootLab (buildGrammar spec "S").1 (Glue.ctx vals spec featured w).G.gammaFeats
      (maxBody spec)
  hbo : BuiltOK (specSrc spec) spec (buildGrammar spec "S").1 (buildGrammar spec "S").2
  hrkp : ∀ p ∈ (buildGrammar spec "S").2.prods, rk0 p.feats = 2

theorem spec_facts {vals : List String} {spec : Spec} {featured : Bool}
    (h : GoodSpec vals spec featured) (w : List String) :
    ∃ rk0 d, SpecFacts vals spec featured w rk0 d := by
  obtain ⟨hstart, hlen, hprods, hgf, _, rk0, hw0, hrkg, hrkp⟩ := build_spec spec "S"
  have hC := Glue.ctxOK h w
  obtain ⟨d, hd⟩ := List.exists_mem_of_ne_nil vals h.valsNe
  have hobjs : ∀ k p, (Glue.ctx vals spec featured w).G.prods[k]? = some p →
      p.feats < (buildGrammar spec "S").1.length ∧ rk0 p.feats = 2 ∧
        GoodObj (Glue.ctx vals spec featured w) (buildGrammar spec "S").1 k p.feats := by
    intro k p hp
    have hk : k < spec.length := by
      rw [← hlen]; exact (List.getElem?_eq_some_iff.1 hp).1
    obtain ⟨p', hp', _, _, hlt, hok⟩ := hprods k hk
    have : p' = p := by
      have e : (buildGrammar spec "S").2.prods[k]? = some p := hp
      rw [hp'] at e; simpa using e
    subst this
    exact ⟨hlt, hrkp p' (List.mem_of_getElem? hp'),
      Glue.goodObj h w hw0 (List.getElem?_eq_getElem hk) hok⟩
  have hbo := build_ok (Src := specSrc spec) spec "S" (by
    intro pr hpr f hf v hv hq
    refine ⟨?_, pr, hpr, f, hf, hv⟩
    cases hq' : isVarName v with
    | false => rfl
    | true => exact absurd hq' hq)
  have hsx : SX (Glue.ctx vals spec featured w).P (buildGrammar spec "S").1 rk0 :=
    ⟨hbo.kf, hbo.vr, hbo.alln hrkp hrkg, hbo.ap (fun v ⟨hq, pr, hpr, f, hf, hv⟩ =>
      h.consts pr hpr f hf v hv hq)⟩
  have hnv : (Glue.ctx vals spec featured w).featured = false → NoVal (buildGrammar spec "S").1 := by
    intro hf
    change featured = false at hf
    refine hbo.noval ?_
    rintro v ⟨_, pr, hpr, f, hfm, hv⟩
    obtain ⟨h1, h2⟩ := h.uniform pr hpr
    rw [hf] at h1 h2
    rcases List.mem_cons.1 hfm with rfl | hfm
    · rw [hv] at h1; simp at h1
    · rw [List.mem_map] at hfm
      obtain ⟨it, hit, rfl⟩ := hfm
      have := h2 it hit
      obtain ⟨sym, f'⟩ := it
      simp only at hv
      subst hv
      cases sym with
      | var x => simp at this
      | ter t => simp at this
  have hpr_of : ∀ (k : Nat) (p : FProd), (Glue.ctx vals spec featured w).G.prods[k]? = some p →
      ∃ pr, spec[k]? = some pr ∧ PR (buildGrammar spec "S").1 p.feats pr := by
    intro k p hp
    have hk : k < spec.length := by
      rw [← hlen]; exact (List.getElem?_eq_some_iff.1 hp).1
    obtain ⟨p', hp', hPR⟩ := hbo.prods k spec[k] (List.getElem?_eq_getElem hk)
    have : p' = p := by
      have e : (buildGrammar spec "S").2.prods[k]? = some p := hp
      rw [hp'] at e; simpa using e
    subst this
    exact ⟨_, List.getElem?_eq_getElem hk, hPR⟩
  have hcov : ∀ (k : Nat) (p : FProd) (pr : (String × Feat) × List (Sym × Feat)) (env : Lem.Env),
      (Glue.ctx vals spec featured w).G.prods[k]? = some p →
      (Glue.ctx vals spec featured w).spec[k]? = some pr →
      (Glue.ctx vals spec featured w).okEnv k env →
      Cov (Glue.ctx vals spec featured w) (buildGrammar spec "S").1 p.feats k env := by
    intro k p pr env hp hk ⟨pr0, hk0, henv⟩
    have hk' : spec[k]? = some pr := hk
    have : pr0 = pr := by rw [hk'] at hk0; simpa using hk0.symm
    subst this
    obtain ⟨pr1, hk1, hPR⟩ := hpr_of k p hp
    have : pr1 = pr0 := by rw [hk'] at hk1; simpa using hk1.symm
    subst this
    have hprmem : pr1 ∈ spec := List.mem_of_getElem? hk'
    refine pr_cov hw0 hk hPR env hd ?_ ?_
    · intro f hf v hv hq
      have hq' : isVarName v = false := by
        cases hq'' : isVarName v with
        | false => rfl
        | true => exact absurd hq'' hq
      exact ⟨CGlue.valOfFeat_const hq', h.consts pr1 hprmem f hf v hv hq'⟩
    · intro f hf v hv _
      exact CGlue.featVal_mem h hprmem henv (by rw [← hv]; exact hf)
  have hpth : ∀ (k : Nat) (p : FProd), (Glue.ctx vals spec featured w).G.prods[k]? = some p →
      HasPaths (Glue.ctx vals spec featured w) (buildGrammar spec "S").1 p.feats k := by
    intro k p hp
    obtain ⟨pr, hk, hPR⟩ := hpr_of k p hp
    exact pr_paths hk hPR
  obtain ⟨hglt, ga, gb, hg⟩ := hbo.gam
  have hgpth : HasPaths (Glue.ctx vals spec featured w) (buildGrammar spec "S").1
      (Glue.ctx vals spec featured w).G.gammaFeats (Glue.ctx vals spec featured w).spec.length :=
    gamma_paths hg
  -- the parameters of the bound
  have htc : TC (Glue.ctx vals spec featured w) vals (maxBody spec) := by
    refine ⟨fun v hv => hv, fun k => ?_⟩
    rw [body_prX hC, List.length_map]
    cases hk : (Glue.ctx vals spec featured w).spec[k]? with
    | none => rw [prX_gamma hk]; exact one_le_maxBody spec
    | some pr =>
      rw [prX_spec hk]
      exact body_le_maxBody (List.mem_of_getElem? (show spec[k]? = some pr from hk))
  have hrlo : ∀ (k : Nat) (p : FProd), (Glue.ctx vals spec featured w).G.prods[k]? = some p →
      RootLab (buildGrammar spec "S").1 p.feats (maxBody spec) := by
    intro k p hp
    obtain ⟨pr, hk, hfs, bfs, vars, _, hroot, hbl, _⟩ := hpr_of k p hp
    exact rootLab_rootN hroot (by rw [hbl]; exact body_le_maxBody (List.mem_of_getElem? hk))
  have hrlg : RootLab (buildGrammar spec "S").1 (Glue.ctx vals spec featured w).G.gammaFeats
      (maxBody spec) :=
    rootLab_rootN hg (by simpa using one_le_maxBody spec)
  have hlen2 : 2 ≤ (buildGrammar spec "S").1.length := by
    have hmem : ("head", ga) ∈ cont (buildGrammar spec "S").1 (buildGrammar spec "S").2.gammaFeats := by
      rw [cont, hg, rootN_single]; simp
    have h1 := hw0.rng.c _ _ _ hmem
    have h2 := (hw0.inv.rkc _ _ _ hmem).1
    unfold crE at h2
    have hne : ga ≠ (buildGrammar spec "S").2.gammaFeats := by
      intro e; rw [e] at h2; omega
    omega
  exact ⟨rk0, d, hd, hC, htc, hw0, hlen2, hobjs, ⟨hgf, hrkg⟩, hsx, hnv, hcov, hpth, hgpth, hrlo, hrlg,
    hbo, hrkp⟩

end Term

open Term in
/-- Stage B: on the agreement grammars of the harness the recogniser answers within the fuel
`earleyFuel vals spec w` (per-column bound on the pops of `while chart[i]`) -/
theorem containsSpec_isSome (vals : List String) (spec : Spec) (featured : Bool)
    (h : GoodSpec vals spec featured) (w : List String) (fuel : Nat)
    (hfuel : earleyFuel vals spec w ≤ fuel) : (containsSpec spec "S" w fuel).isSome = true := by
  obtain ⟨rk0, d, F⟩ := spec_facts h w
  show (contains (Glue.ctx vals spec featured w).G (buildGrammar spec "S").1
      (Glue.ctx vals spec featured w).word fuel).isSome = true
  obtain ⟨hrecp, hrecg⟩ := build_rec spec "S"
  have hsd : ∀ k i j c,
      slotOf (buildGrammar spec "S").1 (prodOf (Glue.ctx vals spec featured w).G k).feats i = some c →
      slotOf (buildGrammar spec "S").1 (prodOf (Glue.ctx vals spec featured w).G k).feats j = some c →
      i = j := by
    intro k i j c h1 h2
    cases hk : (Glue.ctx vals spec featured w).G.prods[k]? with
    | some p =>
      rw [prodOf_of_get hk] at h1 h2
      exact (hrecp p (List.mem_of_getElem? hk)).slots h1 h2
    | none =>
      have : prodOf (Glue.ctx vals spec featured w).G k =
          { head := (Glue.ctx vals spec featured w).G.gammaName,
            body := [.var (Glue.ctx vals spec featured w).G.start],
            feats := (Glue.ctx vals spec featured w).G.gammaFeats } := by
        unfold prodOf; rw [List.getD_eq_getElem?_getD, hk]; rfl
      rw [this] at h1 h2
      exact hrecg.slots h1 h2
  exact contains_total_feat F.hC F.htc F.hw0 F.hlen2 F.hobjs F.hgam F.hsx F.hnv F.hcov F.hpth
    F.hgpth F.hrlo F.hrlg (singSt_built F.hbo) hsd F.hd hfuel

/-- the fuel that suffices for a feature-free grammar: the number of keys of a column (at most
one state is accepted under a key) plus one -/
def earleyFuelPlain (spec : Spec) (w : List String) : Nat :=
  (spec.length + 1) * (w.length + 1) * (maxBody spec + 1) + 1

open Term in
/-- Stage A: feature-free grammars; under one key the first accepted state subsumes every later
one, so a column holds at most one state per key -/
theorem containsSpec_isSome_plain (vals : List String) (spec : Spec) (h : GoodSpec vals spec false)
    (w : List String) (fuel : Nat) (hfuel : earleyFuelPlain spec w ≤ fuel) :
    (containsSpec spec "S" w fuel).isSome = true := by
  obtain ⟨rk0, d, F⟩ := spec_facts h w
  show (contains (Glue.ctx vals spec false w).G (buildGrammar spec "S").1
      (Glue.ctx vals spec false w).word fuel).isSome = true
  have hnone : ∀ pr ∈ spec, pr.1.2 = none ∧ ∀ it ∈ pr.2, it.2 = none := by
    intro pr hpr
    obtain ⟨h1, h2⟩ := h.uniform pr hpr
    refine ⟨by simpa using h1, fun it hit => ?_⟩
    have := h2 it hit
    obtain ⟨sym, f⟩ := it
    cases sym with
    | var x => simpa using this
    | ter t => simpa using this
  have hplain := plainSt_built F.hbo F.hw0 F.hrkp F.hgam.2 (build_plain spec "S" hnone)
  exact contains_total_plain F.hC F.htc F.hw0 F.hlen2 F.hobjs F.hgam F.hsx F.hnv F.hcov F.hpth
    F.hgpth F.hrlo F.hrlg rfl hplain F.hd hfuel

/-- Stage C: with enough fuel the recogniser answers, and the answer is membership in the
instantiated grammar -/
theorem earley_total (vals : List String) (spec : Spec) (featured : Bool)
    (h : GoodSpec vals spec featured) (hinj : featured = true → InstNamesInjective vals spec)
    (w : List String) (fuel : Nat) (hfuel : earleyFuel vals spec w ≤ fuel) :
    ∃ b, containsSpec spec "S" w fuel = some b ∧
      (b = true ↔ (instantiate vals spec featured).Lang w) := by
  have hs := containsSpec_isSome vals spec featured h w fuel hfuel
  obtain ⟨b, hb⟩ := Option.isSome_iff_exists.1 hs
  exact ⟨b, hb, earley_exact vals spec featured h hinj w fuel b hb⟩

/-- feature-free grammars: the fuel "number of keys of a column plus one" suffices and no condition
on the names is needed -/
theorem earley_total_plain (vals : List String) (spec : Spec) (h : GoodSpec vals spec false)
    (w : List String) (fuel : Nat) (hfuel : earleyFuelPlain spec w ≤ fuel) :
    ∃ b, containsSpec spec "S" w fuel = some b ∧
      (b = true ↔ (instantiate vals spec false).Lang w) := by
  have hs := containsSpec_isSome_plain vals spec h w fuel hfuel
  obtain ⟨b, hb⟩ := Option.isSome_iff_exists.1 hs
  exact ⟨b, hb, earley_exact vals spec false h (fun hf => by simp at hf) w fuel b hb⟩

/-- the grammars of the harness (values `s`, `p`): no condition on the names is needed -/
theorem earley_total_harness (spec : Spec) (featured : Bool) (h : GoodSpec ["s", "p"] spec featured)
    (w : List String) (fuel : Nat) (hfuel : earleyFuel ["s", "p"] spec w ≤ fuel) :
    ∃ b, containsSpec spec "S" w fuel = some b ∧
      (b = true ↔ (instantiate ["s", "p"] spec featured).Lang w) :=
  earley_total ["s", "p"] spec featured h (fun _ => instNamesInjective_harness spec) w fuel hfuel

/-- the verdict does not depend on the fuel once it suffices -/
theorem earley_fuel_irrelevant (vals : List String) (spec : Spec) (featured : Bool)
    (h : GoodSpec vals spec featured) (hinj : featured = true → InstNamesInjective vals spec)
    (w : List String) (f1 f2 : Nat) (h1 : earleyFuel vals spec w ≤ f1)
    (h2 : earleyFuel vals spec w ≤ f2) : containsSpec spec "S" w f1 = containsSpec spec "S" w f2 := by
  obtain ⟨b1, e1, i1⟩ := earley_total vals spec featured h hinj w f1 h1
  obtain ⟨b2, e2, i2⟩ := earley_total vals spec featured h hinj w f2 h2
  rw [e1, e2]
  congr 1
  have : b1 = true ↔ b2 = true := i1.trans i2.symm
  cases b1 <;> cases b2 <;> simp_all

end Earley
end Pfl
