/-
C01 — acceptance is run semantics; determinise / ε-removal / copy keep the language and
have the advertised shape.  Property theorems only (helper lemmas live in Pfl/Proofs).
-/
import Pfl.Proofs.FABase
namespace Pfl
namespace ENFA
variable {σ κ : Type} [DecidableEq σ] [DecidableEq κ]

/-- `EpsilonNFA.accepts(w)` ⇔ some run from a start state spells `w` (ε symbols in the
word are skipped) and ends in a final state -/
theorem acceptsE_iff (A : ENFA σ) (w : List (Option Nat)) :
    A.acceptsE w = true ↔ A.Lang (w.filterMap id) := by
  sorry

/-- `NondeterministicFiniteAutomaton.accepts`, for automata of that class (no ε-edge) -/
theorem acceptsN_iff (A : ENFA σ) (h : A.EpsFree) (w : List Nat) :
    A.acceptsN (w.map some) = true ↔ A.Lang w := by
  sorry

/-- `DeterministicFiniteAutomaton.accepts`, for automata of that class -/
theorem acceptsD_iff (A : ENFA σ) (hd : A.Deterministic) (he : A.EpsFree) (w : List Nat) :
    A.acceptsD (w.map some) = true ↔ A.Lang w := by
  sorry

end ENFA
end Pfl
