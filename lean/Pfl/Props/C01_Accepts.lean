/-
C01 — acceptance is run semantics; determinise / ε-removal / copy keep the language and
have the advertised shape.  Property theorems only (helper lemmas live in Pfl/Proofs).
-/
import Pfl.Proofs.FABase
namespace Pfl
namespace ENFA
variable {σ κ : Type} [DecidableEq σ] [DecidableEq κ]

/-- `EpsilonNFA.accepts(w)` ⇔ some run from a start state spells `w` (ε symbols in the
word are skipped) and ends in a final state -/
theorem acceptsE_iff (A : ENFA σ) (w : List (Option Nat)) :
    A.acceptsE w = true ↔ A.Lang (w.filterMap id) :=
  acceptsE_iff_lang A w

/-- the fold of `acceptsN` computes the states reached by runs (ε-free automata) -/
theorem mem_foldl_nextL_iff (A : ENFA σ) (h : A.EpsFree) (S : List σ) (w : List Nat) (r : σ) :
    r ∈ (w.map some).foldl (fun cur a => A.nextL cur a) S ↔ ∃ q ∈ S, A.Run q w r := by
  induction w generalizing S with
  | nil =>
    simp only [List.map_nil, List.foldl_nil, h.run_nil_iff]
    constructor
    · intro hr; exact ⟨r, hr, rfl⟩
    · rintro ⟨q, hq, rfl⟩; exact hq
  | cons a w ih =>
    rw [List.map_cons, List.foldl_cons, ih]
    constructor
    · rintro ⟨q', hq', hrun⟩
      obtain ⟨q, hq, he⟩ := (mem_nextL_iff A _ _ _).mp hq'
      exact ⟨q, hq, Run.step he hrun⟩
    · rintro ⟨q, hq, hrun⟩
      obtain ⟨q', he, hr⟩ := (h.run_cons_iff q r a w).mp hrun
      exact ⟨q', (mem_nextL_iff A _ _ _).mpr ⟨q, hq, he⟩, hr⟩

/-- `NondeterministicFiniteAutomaton.accepts`, for automata of that class (no ε-edge) -/
theorem acceptsN_iff (A : ENFA σ) (h : A.EpsFree) (w : List Nat) :
    A.acceptsN (w.map some) = true ↔ A.Lang w := by
  unfold acceptsN Lang
  simp only [List.any_eq_true, decide_eq_true_eq, mem_foldl_nextL_iff A h, List.mem_eraseDups]
  constructor
  · rintro ⟨f, ⟨s, hs, hr⟩, hf⟩; exact ⟨s, hs, f, hf, hr⟩
  · rintro ⟨s, hs, f, hf, hr⟩; exact ⟨f, ⟨s, hs, hr⟩, hf⟩

/-- in a deterministic automaton the first listed successor is the only one -/
theorem Deterministic.head?_succs_iff {A : ENFA σ} (hd : A.Deterministic) (q r : σ)
    (a : Option Nat) : (A.succs q a).head? = some r ↔ (q, a, r) ∈ A.delta := by
  constructor
  · intro hh
    exact (mem_succs A q r a).mp (List.mem_of_head? hh)
  · intro he
    have hm := (mem_succs A q r a).mpr he
    cases hs : A.succs q a with
    | nil => rw [hs] at hm; cases hm
    | cons x xs =>
      have hx : (q, a, x) ∈ A.delta := (mem_succs A q x a).mp (by rw [hs]; exact List.mem_cons_self)
      rw [List.head?_cons, hd.2.1 q a x r hx he]

/-- the fold of `acceptsD` follows the unique run (deterministic ε-free automata) -/
theorem foldl_headSucc_iff (A : ENFA σ) (hd : A.Deterministic) (he : A.EpsFree)
    (cur : Option σ) (w : List Nat) (r : σ) :
    (w.map some).foldl (fun cur a => cur.bind (fun q => (A.succs q a).head?)) cur = some r ↔
      ∃ q, cur = some q ∧ A.Run q w r := by
  induction w generalizing cur with
  | nil =>
    simp only [List.map_nil, List.foldl_nil, he.run_nil_iff]
    constructor
    · intro hr; exact ⟨r, hr, rfl⟩
    · rintro ⟨q, hq, rfl⟩; exact hq
  | cons a w ih =>
    rw [List.map_cons, List.foldl_cons, ih]
    constructor
    · rintro ⟨q', hq', hrun⟩
      obtain ⟨q, hq, hh⟩ := Option.bind_eq_some_iff.mp hq'
      exact ⟨q, hq, Run.step ((hd.head?_succs_iff q q' _).mp hh) hrun⟩
    · rintro ⟨q, hq, hrun⟩
      obtain ⟨q', hedge, hr⟩ := (he.run_cons_iff q r a w).mp hrun
      exact ⟨q', Option.bind_eq_some_iff.mpr ⟨q, hq, (hd.head?_succs_iff q q' _).mpr hedge⟩, hr⟩

/-- `DeterministicFiniteAutomaton.accepts`, for automata of that class -/
theorem acceptsD_iff (A : ENFA σ) (hd : A.Deterministic) (he : A.EpsFree) (w : List Nat) :
    A.acceptsD (w.map some) = true ↔ A.Lang w := by
  have hstart : ∀ s, A.starts.head? = some s ↔ s ∈ A.starts := by
    intro s
    constructor
    · exact List.mem_of_head?
    · intro hs
      cases hst : A.starts with
      | nil => rw [hst] at hs; cases hs
      | cons x xs =>
        rw [List.head?_cons, hd.1 x (by rw [hst]; exact List.mem_cons_self) s hs]
  unfold acceptsD Lang
  split
  · rename_i hnone
    constructor
    · intro h; cases h
    · rintro ⟨s, hs, f, hf, hr⟩
      have := (foldl_headSucc_iff A hd he _ w f).mpr ⟨s, (hstart s).mpr hs, hr⟩
      rw [hnone] at this; cases this
  · rename_i q hq
    obtain ⟨s, hs, hr⟩ := (foldl_headSucc_iff A hd he _ w q).mp hq
    simp only [decide_eq_true_eq]
    constructor
    · intro hf; exact ⟨s, (hstart s).mp hs, q, hf, hr⟩
    · rintro ⟨s', hs', f, hf, hr'⟩
      have := (foldl_headSucc_iff A hd he _ w f).mpr ⟨s', (hstart s').mpr hs', hr'⟩
      rw [hq] at this
      cases this; exact hf

end ENFA
end Pfl
