/-
C03 — Boolean operations on automata compute the set-theoretic result.
-/
import Pfl.Proofs.FABase
namespace Pfl
namespace ENFA
variable {σ τ : Type} [DecidableEq σ] [DecidableEq τ]

/-- renaming states by a function that is injective on the states in use keeps the language -/
theorem mapStates_lang (A : ENFA σ) (hA : A.WF) (f : σ → τ)
    (hf : ∀ p ∈ A.states, ∀ q ∈ A.states, f p = f q → p = q) (w : List Nat) :
    (A.mapStates f).Lang w ↔ A.Lang w := by
  sorry

theorem reverse_lang (A : ENFA σ) (hA : A.WF) (w : List Nat) :
    A.reverse.Lang w ↔ A.Lang w.reverse := by
  sorry

end ENFA
end Pfl
