/-
C03 — Boolean operations on automata compute the set-theoretic result.
-/
import Pfl.Proofs.FABase
import Pfl.Proofs.FAEpsCopy
namespace Pfl
namespace ENFA
variable {σ τ : Type} [DecidableEq σ] [DecidableEq τ]

/-- renaming states by a function that is injective on the states in use keeps the language -/
theorem mapStates_lang (A : ENFA σ) (hA : A.WF) (f : σ → τ)
    (hf : ∀ p ∈ A.states, ∀ q ∈ A.states, f p = f q → p = q) (w : List Nat) :
    (A.mapStates f).Lang w ↔ A.Lang w :=
  mapStates_lang' A hA f hf w

theorem reverse_lang (A : ENFA σ) (hA : A.WF) (w : List Nat) :
    A.reverse.Lang w ↔ A.Lang w.reverse :=
  reverse_lang' A hA w

end ENFA
end Pfl
