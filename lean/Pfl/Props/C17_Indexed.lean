/-
C17 — the marking fixpoint decides emptiness of an indexed grammar (Aho's theorem for the
reduced form), the bounded derivation search is a sound certificate, and removing useless rules
keeps the verdict.
-/
import Pfl.Spec.Indexed
namespace Pfl
namespace IG

/-- a derivation found by the bounded search is a derivation -/
theorem derivable_sound (G : IG) (fuel : Nat) (a : String) (σ : List String)
    (h : G.derivable fuel a σ = true) : G.Derivable a σ := by
  sorry

/-- meaning of a mark `(A, E)`: whenever all of `E` derive terminal words with a stack, so does `A` -/
theorem marks_sound (G : IG) (fuel : Nat) (M : List Mark) (h : G.markSaturate fuel G.initMarks = some M)
    (a : String) (E : List String) (hm : (a, E) ∈ M) (σ : List String)
    (hE : ∀ b ∈ E, G.Derivable b σ) : G.Derivable a σ := by
  sorry

/-- completeness of the marking for the empty stack -/
theorem marks_complete (G : IG) (fuel : Nat) (M : List Mark)
    (h : G.markSaturate fuel G.initMarks = some M) (a : String) (ha : a ∈ G.nonTerminals)
    (hd : G.Derivable a []) : (a, []) ∈ M := by
  sorry

/-- `is_empty()`: whenever the fixpoint is reached, the answer is emptiness of the language -/
theorem isEmpty_iff (G : IG) (fuel : Nat) (b : Bool) (h : G.isEmpty fuel = some b) :
    b = true ↔ ¬ G.NonEmpty := by
  sorry

/-- `remove_useless_rules()` keeps the verdict -/
theorem removeUseless_nonEmpty (G : IG) : G.removeUseless.NonEmpty ↔ G.NonEmpty := by
  sorry

end IG
end Pfl
