/-
C17 — the marking fixpoint decides emptiness of an indexed grammar (Aho's theorem for the
reduced form), the bounded derivation search is a sound certificate, and removing useless rules
keeps the verdict.
-/
import Pfl.Spec.Indexed
import Pfl.Proofs.IndexedLemmas
namespace Pfl
namespace IG
open Pfl.IG.Lem

/-- a derivation found by the bounded search is a derivation -/
theorem derivable_sound (G : IG) (fuel : Nat) (a : String) (σ : List String)
    (h : G.derivable fuel a σ = true) : G.Derivable a σ := by
  induction fuel generalizing a σ with
  | zero => simp [derivable] at h
  | succ n ih =>
    simp only [derivable, List.any_eq_true] at h
    obtain ⟨r, hr, h⟩ := h
    cases r with
    | end_ a' t =>
      simp only [decide_eq_true_eq] at h
      subst h; exact .end_ hr
    | prod a' b f =>
      simp only [Bool.and_eq_true, decide_eq_true_eq] at h
      obtain ⟨rfl, h⟩ := h
      exact .prod hr (ih _ _ h)
    | cons f a' b =>
      cases σ with
      | nil => simp at h
      | cons g σ' =>
        simp only [Bool.and_eq_true, decide_eq_true_eq] at h
        obtain ⟨⟨rfl, rfl⟩, h⟩ := h
        exact .cons hr (ih _ _ h)
    | dup a' b c =>
      simp only [Bool.and_eq_true, decide_eq_true_eq] at h
      obtain ⟨⟨rfl, h1⟩, h2⟩ := h
      exact .dup hr (ih _ _ h1) (ih _ _ h2)

/-- meaning of a mark `(A, E)`: whenever all of `E` derive terminal words with a stack, so does `A` -/
theorem marks_sound (G : IG) (fuel : Nat) (M : List Mark) (h : G.markSaturate fuel G.initMarks = some M)
    (a : String) (E : List String) (hm : (a, E) ∈ M) (σ : List String)
    (hE : ∀ b ∈ E, G.Derivable b σ) : G.Derivable a σ :=
  marks_good G fuel M h (a, E) hm σ hE

/-- completeness of the marking for the empty stack -/
theorem marks_complete (G : IG) (fuel : Nat) (M : List Mark)
    (h : G.markSaturate fuel G.initMarks = some M) (a : String) (ha : a ∈ G.nonTerminals)
    (hd : G.Derivable a []) : (a, []) ∈ M :=
  marks_complete' G fuel M h a ha hd

/-- `is_empty()`: whenever the fixpoint is reached, the answer is emptiness of the language -/
theorem isEmpty_iff (G : IG) (fuel : Nat) (b : Bool) (h : G.isEmpty fuel = some b) :
    b = true ↔ ¬ G.NonEmpty := by
  unfold isEmpty at h
  obtain ⟨M, hM, rfl⟩ := Option.map_eq_some_iff.mp h
  simp only [Bool.not_eq_true', decide_eq_false_iff_not]
  constructor
  · intro hn hne
    exact hn (marks_complete G fuel M hM G.start (start_mem_nonTerminals G) hne)
  · intro hne hm
    exact hne (marks_sound G fuel M hM G.start [] hm [] (by simp))

/-- `remove_useless_rules()` keeps the verdict -/
theorem removeUseless_nonEmpty (G : IG) : G.removeUseless.NonEmpty ↔ G.NonEmpty := by
  unfold NonEmpty
  constructor
  · intro h
    exact derivable_mono (removeUseless_rules_sub G) h
  · intro h
    exact removeUseless_derivable h (Reach.refl _)

end IG
end Pfl
