/-
C01 — acceptance is run semantics; determinise / ε-removal / copy keep the language and
have the advertised shape.  Property theorems only (helper lemmas live in Pfl/Proofs).
-/
import Pfl.Proofs.FABase
namespace Pfl
namespace ENFA
variable {σ κ : Type} [DecidableEq σ] [DecidableEq κ]

/-- the naming function separates different sets of states -/
def KeyInj (A : ENFA σ) (key : List σ → κ) : Prop :=
  ∀ S T : List σ, (∀ q ∈ S, q ∈ A.states) → (∀ q ∈ T, q ∈ A.states) →
    key S = key T → ∀ q, q ∈ S ↔ q ∈ T

/-- subset construction with ε-closure (`EpsilonNFA.to_deterministic`) -/
theorem toDet_lang (A : ENFA σ) (h : A.WF) (key : List σ → κ) (hk : A.KeyInj key)
    (fuel : Nat) (D : ENFA κ) (hD : A.toDet key true fuel = some D) (w : List Nat) :
    D.Lang w ↔ A.Lang w := by
  sorry

/-- subset construction without closure (`NondeterministicFiniteAutomaton.to_deterministic`) -/
theorem toDet_lang_noEps (A : ENFA σ) (h : A.WF) (he : A.EpsFree) (key : List σ → κ)
    (hk : A.KeyInj key) (fuel : Nat) (D : ENFA κ) (hD : A.toDet key false fuel = some D)
    (w : List Nat) : D.Lang w ↔ A.Lang w := by
  sorry

theorem toDet_shape (A : ENFA σ) (key : List σ → κ) (useE : Bool) (fuel : Nat) (D : ENFA κ)
    (hD : A.toDet key useE fuel = some D) : D.Deterministic ∧ D.EpsFree := by
  sorry

end ENFA
end Pfl
