/-
C01 — acceptance is run semantics; determinise / ε-removal / copy keep the language and
have the advertised shape.  Property theorems only (helper lemmas live in Pfl/Proofs).
-/
import Pfl.Proofs.FABase
import Pfl.Proofs.FADet
namespace Pfl
namespace ENFA
variable {σ κ : Type} [DecidableEq σ] [DecidableEq κ]

/- `KeyInj A key` (the naming function separates different sets of states) is defined in
`Pfl/Proofs/FADet.lean`:
  ∀ S T, (∀ q ∈ S, q ∈ A.states) → (∀ q ∈ T, q ∈ A.states) → key S = key T → ∀ q, q ∈ S ↔ q ∈ T -/

/-- subset construction with ε-closure (`EpsilonNFA.to_deterministic`) -/
theorem toDet_lang (A : ENFA σ) (h : A.WF) (key : List σ → κ) (hk : A.KeyInj key)
    (fuel : Nat) (D : ENFA κ) (hD : A.toDet key true fuel = some D) (w : List Nat) :
    D.Lang w ↔ A.Lang w := by
  rw [toDet_lang_fold A h key hk true fuel D hD w, lang_iff_evalE, foldl_stepSet_true]
  rfl

/-- subset construction without closure (`NondeterministicFiniteAutomaton.to_deterministic`) -/
theorem toDet_lang_noEps (A : ENFA σ) (h : A.WF) (he : A.EpsFree) (key : List σ → κ)
    (hk : A.KeyInj key) (fuel : Nat) (D : ENFA κ) (hD : A.toDet key false fuel = some D)
    (w : List Nat) : D.Lang w ↔ A.Lang w := by
  rw [toDet_lang_fold A h key hk false fuel D hD w, lang_iff_evalE]
  have hmem : ∀ q, q ∈ A.detStart false ↔ q ∈ A.ecloseL A.starts := by
    intro q
    rw [mem_ecloseL_of_epsFree A he]
    simp only [detStart, Bool.false_eq_true, if_false, List.mem_eraseDups]
  constructor
  · rintro ⟨f, hf, hm⟩; exact ⟨f, hf, (foldl_stepSet_false A he w hmem f).mp hm⟩
  · rintro ⟨f, hf, hm⟩; exact ⟨f, hf, (foldl_stepSet_false A he w hmem f).mpr hm⟩

theorem toDet_shape (A : ENFA σ) (key : List σ → κ) (useE : Bool) (fuel : Nat) (D : ENFA κ)
    (hD : A.toDet key useE fuel = some D) : D.Deterministic ∧ D.EpsFree := by
  obtain ⟨seen, hs, rfl⟩ := toDet_eq A key useE fuel D hD
  exact ⟨detOf_deterministic A key useE seen (detSeen_inj A key useE fuel seen hs),
    detOf_epsFree A key useE seen⟩

end ENFA
end Pfl
