/-
Non-vacuity witnesses for the property theorems of `Pfl/Props/*.lean`.

For every hypothesis bundle / side condition assumed by those theorems this file exhibits a concrete,
non-trivial object satisfying it, and for every fuelled model function whose theorems read
"if `f … fuel = some x` then …" a concrete input on which the function does return `some`
(so that none of the implications is vacuously true).  Everything is checked by the kernel
(`decide`, `decide +kernel`, `rfl`, `simp` and short manual proofs; no `sorry`, no `native_decide`).

Sections are grouped by property; each names the theorems it serves.
-/
import Pfl.Props.C01_Accepts
import Pfl.Props.C01_Det
import Pfl.Props.C01_EpsCopy
import Pfl.Props.C01_Names
import Pfl.Props.C02_Hopcroft
import Pfl.Props.C02_Iso
import Pfl.Props.C02_Min
import Pfl.Props.C03_Bool
import Pfl.Props.C03_Ref
import Pfl.Props.C03_Regexable
import Pfl.Props.C03_Rev
import Pfl.Props.C04_Oracle
import Pfl.Props.C04_Preds
import Pfl.Props.C04_Words
import Pfl.Props.C05_Compose
import Pfl.Props.C05_Reader
import Pfl.Props.C05_Regex
import Pfl.Props.C05_ToCFG
import Pfl.Props.C06_ToRegex
import Pfl.Props.C07_Desugar
import Pfl.Props.C08_Oracle
import Pfl.Props.C09_CNF
import Pfl.Props.C09_Clean
import Pfl.Props.C10_Reverse
import Pfl.Props.C10_Substitute
import Pfl.Props.C11_BarHillel
import Pfl.Props.C11_Regex
import Pfl.Props.C12_Classes
import Pfl.Props.C12_Words
import Pfl.Props.C13_Modes
import Pfl.Props.C13_Oracle
import Pfl.Props.C13_ToCFG
import Pfl.Props.C14_LL1
import Pfl.Props.C14_Lib
import Pfl.Props.C15_RecDescent
import Pfl.Props.C15_Trees
import Pfl.Props.C16_FST
import Pfl.Props.C16_ToFST
import Pfl.Props.C17_Indexed
import Pfl.Props.C18_Unify
import Pfl.Props.C19_Counters
import Pfl.Props.C20_Boxes
import Pfl.Props.C20_Codec
import Pfl.Props.C20_Labels
import Mathlib.Data.Nat.Pairing

namespace Pfl
namespace NonVacuity

/-! ## Generic helpers (Boolean checkers for the non-decidable hypothesis bundles) -/

def isSomeSome {α : Type} : Option (Option α) → Bool
  | some (some _) => true
  | _ => false

theorem exists_of_isSomeSome {α : Type} {x : Option (Option α)} (h : isSomeSome x = true) :
    ∃ t, x = some (some t) := by
  match x, h with
  | some (some t), _ => exact ⟨t, rfl⟩

/-- `key := id` separates subsets of states (the simplest `KeyInj` witness) -/
theorem keyInj_id {σ : Type} (A : ENFA σ) : A.KeyInj id := fun S T _ _ h q => by
  have : S = T := h
  rw [this]

/-- Boolean form of `CFG.WF` -/
def wfCheck (G : CFG) : Bool :=
  (G.prods.all fun p => decide (p.1 ∈ G.vars) && p.2.all fun s =>
    match s with
    | .var v => decide (v ∈ G.vars)
    | .ter t => decide (t ∈ G.ters)) &&
  (match G.start with
   | none => true
   | some s => decide (s ∈ G.vars))

theorem wf_of_check (G : CFG) (h : wfCheck G = true) : G.WF := by
  simp only [wfCheck, Bool.and_eq_true, List.all_eq_true, decide_eq_true_eq] at h
  obtain ⟨hp, hs⟩ := h
  refine ⟨fun p hm => (hp p hm).1, fun p hm v hv => ?_, fun p hm t ht => ?_, fun s hst => ?_⟩
  · simpa using (hp p hm).2 _ hv
  · simpa using (hp p hm).2 _ ht
  · rw [hst] at hs; simpa using hs

/-- Boolean form of `CFG.AllGenerating` (through `mem_generating_iff`) -/
def genCheck (G : CFG) : Bool :=
  G.prods.all fun p => decide (Sym.var p.1 ∈ G.generating) && p.2.all fun s => decide (s ∈ G.generating)

theorem gen_of_mem_generating (G : CFG) (hG : G.WF) (s : Sym) (h : s ∈ G.generating) :
    ∃ w, G.Gen s w := by
  rcases (CFG.mem_generating_iff G hG s).mp h with ⟨t, rfl, _⟩ | ⟨v, w, rfl, hg⟩
  · exact ⟨_, CFG.Gen.ter t⟩
  · exact ⟨w, hg⟩

theorem allGenerating_of_check (G : CFG) (hG : G.WF) (h : genCheck G = true) : G.AllGenerating := by
  simp only [genCheck, Bool.and_eq_true, List.all_eq_true, decide_eq_true_eq] at h
  intro p hp
  exact ⟨gen_of_mem_generating G hG _ (h p hp).1,
    fun s hs => gen_of_mem_generating G hG s ((h p hp).2 s hs)⟩

/-- Boolean form of `PDA.WF` -/
def pdaWfCheck {σ γ : Type} [DecidableEq σ] [DecidableEq γ] (P : PDA σ γ) : Bool :=
  (P.delta.all fun t => decide (t.1 ∈ P.states) && decide (t.2.2.2.1 ∈ P.states) &&
    decide (t.2.2.1 ∈ P.stack) && t.2.2.2.2.all (fun x => decide (x ∈ P.stack)) &&
    (match t.2.1 with
     | none => true
     | some c => decide (c ∈ P.inputs))) &&
  (match P.start with
   | none => true
   | some s => decide (s ∈ P.states)) &&
  (match P.startStack with
   | none => true
   | some z => decide (z ∈ P.stack)) &&
  P.finals.all fun f => decide (f ∈ P.states)

theorem pda_wf_of_check {σ γ : Type} [DecidableEq σ] [DecidableEq γ] (P : PDA σ γ)
    (h : pdaWfCheck P = true) : P.WF := by
  simp only [pdaWfCheck, Bool.and_eq_true, List.all_eq_true, decide_eq_true_eq] at h
  obtain ⟨⟨⟨hd, hs⟩, hz⟩, hf⟩ := h
  refine ⟨fun t ht => (hd t ht).1.1.1.1, fun t ht => (hd t ht).1.1.1.2, fun t ht => (hd t ht).1.1.2,
    fun t ht => (hd t ht).1.2, fun t ht c hc => ?_, fun s hst => ?_, fun z hzt => ?_, hf⟩
  · have := (hd t ht).2
    rw [hc] at this; simpa using this
  · rw [hst] at hs; simpa using hs
  · rw [hzt] at hz; simpa using hz

/-- Boolean form of `FST.WF` -/
def fstWfCheck {σ : Type} [DecidableEq σ] (T : FST σ) : Bool :=
  T.starts.all (fun q => decide (q ∈ T.states)) && T.finals.all (fun q => decide (q ∈ T.states)) &&
  T.delta.all (fun t => decide (t.1 ∈ T.states) && decide (t.2.2.1 ∈ T.states))

theorem fst_wf_of_check {σ : Type} [DecidableEq σ] (T : FST σ) (h : fstWfCheck T = true) : T.WF := by
  simp only [fstWfCheck, Bool.and_eq_true, List.all_eq_true, decide_eq_true_eq] at h
  exact ⟨h.1.1, h.1.2, fun t ht => (h.2 t ht).1, fun t ht => (h.2 t ht).2⟩

/-- triple names `[p|a|r]` are unambiguous when every state name is one character
(the name-injectivity hypothesis of `interD_lang` / `interRegex_lang`, for *every* middle text `a`) -/
theorem tripleName_inj_of_single {σ : Type} (nm : σ → String) (sts : List σ)
    (hsingle : ∀ p ∈ sts, ∃ c, (nm p).toList = [c])
    (hnm : ∀ p ∈ sts, ∀ q ∈ sts, nm p = nm q → p = q) :
    ∀ (p : σ) (a : String) (r p' : σ) (a' : String) (r' : σ),
      p ∈ sts → r ∈ sts → p' ∈ sts → r' ∈ sts →
      PDA.tripleName nm id p a r = PDA.tripleName nm id p' a' r' → p = p' ∧ a = a' ∧ r = r' := by
  intro p a r p' a' r' hp hr hp' hr' h
  obtain ⟨c, hc⟩ := hsingle p hp
  obtain ⟨d, hd⟩ := hsingle r hr
  obtain ⟨c', hc'⟩ := hsingle p' hp'
  obtain ⟨d', hd'⟩ := hsingle r' hr'
  have h' := congrArg String.toList h
  simp only [PDA.tripleName, String.toList_append, hc, hd, hc', hd', id] at h'
  have e1 : "[".toList = ['['] := rfl
  have e2 : "|".toList = ['|'] := rfl
  have e3 : "]".toList = [']'] := rfl
  simp only [e1, e2, e3, List.cons_append, List.nil_append, List.cons.injEq, true_and,
    List.append_assoc] at h'
  obtain ⟨hcc, h2⟩ := h'
  have hl := congrArg List.length h2
  simp only [List.length_append, List.length_cons, List.length_nil] at hl
  obtain ⟨h3, h4⟩ := List.append_inj h2 (by omega)
  simp only [List.cons.injEq, and_true, true_and] at h4
  exact ⟨hnm p hp p' hp' (String.toList_injective (by rw [hc, hc', hcc])),
    String.toList_injective h3, hnm r hr r' hr' (String.toList_injective (by rw [hd, hd', h4]))⟩

/-- a triple name is never a text that does not begin with `[` -/
theorem tripleName_ne_of_head {σ : Type} (nm : σ → String) (s : String)
    (hs : ∀ l, s.toList ≠ '[' :: l) :
    ∀ (p : σ) (a : String) (r : σ), PDA.tripleName nm id p a r ≠ s := by
  intro p a r h
  have h' := congrArg String.toList h
  simp only [PDA.tripleName, String.toList_append] at h'
  have e1 : "[".toList = ['['] := rfl
  rw [e1] at h'
  exact hs _ h'.symm

theorem start_not_bracket : ∀ l, "Start".toList ≠ '[' :: l := by
  intro l h
  have : "Start".toList = ['S', 't', 'a', 'r', 't'] := by decide
  rw [this] at h
  cases h

/-- an injective coding of symbol texts by numbers (iterated Cantor pairing of the code points):
the hypothesis `hcode : ∀ s t, code s = code t → s = t` of `regexAccepts_iff`, `interRegex_lang` -/
def codeL : List Nat → Nat
  | [] => 0
  | a :: l => Nat.pair a (codeL l) + 1

def codeInj (s : String) : Nat := codeL (s.toList.map Char.toNat)

theorem codeL_inj : ∀ l l' : List Nat, codeL l = codeL l' → l = l'
  | [], [], _ => rfl
  | [], _ :: _, h => by simp [codeL] at h
  | _ :: _, [], h => by simp [codeL] at h
  | a :: l, b :: l', h => by
    simp only [codeL, Nat.add_right_cancel_iff, Nat.pair_eq_pair] at h
    rw [h.1, codeL_inj l l' h.2]

theorem nv_codeInj : ∀ s t, codeInj s = codeInj t → s = t := by
  intro s t h
  apply String.toList_injective
  have := codeL_inj _ _ h
  exact List.map_injective_iff.mpr (fun a b hab => Char.toNat_inj.mp hab) this

/-- `symOf` agreeing with the coding (`hsym` of `interRegex_lang`) -/
def symOfInj : String → Option Nat := fun s => some (codeInj s)
theorem nv_symOfInj : ∀ s, symOfInj s = some (codeInj s) := fun _ => rfl

/-- a `symName` / `code` pair with `code (symName a) = a` (`hcode` of `unionR_lang`, `concatR_lang`,
`starR_lang`, `toRegex_roundtrip_lang`): unary notation and length -/
def unaryName (a : Nat) : String := String.ofList (List.replicate a 'x')
theorem nv_code_symName : ∀ a, String.length (unaryName a) = a := by
  intro a; simp [unaryName]

/-! ## 1. Finite automata (C01 – C04, C06) -/
section FA
open ENFA

/-- four states, an ε-edge out of the start state, an ε-edge back, nondeterminism on symbol `0` -/
def enfa1 : ENFA Nat :=
  { states := [0, 1, 2, 3], syms := [0, 1], starts := [0], finals := [3],
    delta := [(0, none, 1), (0, some 0, 1), (0, some 0, 2), (1, some 1, 3), (2, some 1, 3),
              (3, none, 0)] }

def enfa2 : ENFA Nat :=
  { states := [0, 1, 2], syms := [0, 1, 2], starts := [0], finals := [2],
    delta := [(0, some 0, 1), (1, none, 2), (2, some 1, 2), (2, some 2, 0)] }

/-- a DFA in which `1`, `2` (and `4`) are Nerode-equivalent and `4` is unreachable -/
def dfa1 : ENFA Nat :=
  { states := [0, 1, 2, 3, 4], syms := [0, 1], starts := [0], finals := [3],
    delta := [(0, some 0, 1), (0, some 1, 2), (1, some 0, 3), (2, some 0, 3), (3, some 1, 3),
              (4, some 0, 3)] }

/-- a trim, reduced, acyclic DFA (language `{00, 11}`) -/
def dfa2 : ENFA Nat :=
  { states := [0, 1, 2, 3], syms := [0, 1], starts := [0], finals := [3],
    delta := [(0, some 0, 1), (0, some 1, 2), (1, some 0, 3), (2, some 1, 3)] }

/-- the partition Hopcroft's loop returns on `dfa1` -/
def dfa1Groups : List (List (Option Nat)) := [[some 3], [some 0], [some 1, some 2, some 4], [none]]

-- `WF` (all C01–C04 theorems with `hA : A.WF`), on a genuinely nondeterministic ε-NFA
theorem nv_enfa1_wf : enfa1.WF := by decide
theorem nv_enfa1_has_eps : (0, none, 1) ∈ enfa1.delta := by decide
theorem nv_enfa1_nondet : ¬ enfa1.Deterministic := by
  rw [← isDeterministicE_iff enfa1 nv_enfa1_wf]; decide
theorem nv_enfa1_lang : enfa1.Lang [0, 1, 1] ∧ ¬ enfa1.Lang [0, 0] := by
  rw [← member_iff, ← member_iff]; decide
theorem nv_enfa2_wf : enfa2.WF := by decide

-- `WF ∧ Deterministic ∧ EpsFree ∧ states.Nodup` (+ `starts ≠ []`, fresh trash state):
-- `hopcroft_isNerodePartition`, `minimize_hopcroft_*`, `minimizeOf_*`, `copyD_lang`, `acceptsD_iff`,
-- `complementRaw_lang(_dfa)`, `isoWalk_*`, `isEquivalent_exact`
theorem nv_dfa1_wf : dfa1.WF := by decide
theorem nv_dfa1_epsFree : dfa1.EpsFree := by unfold EpsFree; decide
theorem nv_dfa1_det : dfa1.Deterministic :=
  (isDeterministicN_iff dfa1 nv_dfa1_epsFree).mp (by decide)
theorem nv_dfa1_nodup : dfa1.states.Nodup := by decide
theorem nv_dfa1_starts : dfa1.starts ≠ [] := by decide
theorem nv_dfa1_trash : 9 ∉ dfa1.states := by decide
theorem nv_dfa1_unreachable : 4 ∈ dfa1.states ∧ 4 ∉ dfa1.reachable := by decide
theorem nv_dfa1_nerode_pair : (1 : Nat) ≠ 2 ∧ dfa1.Nerode (some 1) (some 2) :=
  ⟨by decide, (sameRight_iff dfa1 nv_dfa1_wf 50 (some 1) (some 2) (by decide) (by decide) true
    (by decide +kernel)).mp rfl⟩
theorem nv_dfa1_not_reduced : ¬ dfa1.Reduced := by
  rw [← isReduced_iff dfa1 nv_dfa1_wf 50 false (by decide +kernel)]; decide

-- `toDet_lang`, `toDet_lang_noEps`, `toDet_shape`, `canonS_keyInj`, `complementRef_*`
theorem nv_keyInj_id : enfa1.KeyInj id := keyInj_id enfa1
theorem nv_toDet_id : (enfa1.toDet id true 100).map (·.states) = some [[0, 1], [3, 0, 1], [1, 2]] := by
  decide +kernel
theorem nv_toDet_canon : (enfa1.toDet enfa1.canonS true 100).map (·.delta) = some
    [([0, 1], some 0, [1, 2]), ([0, 1], some 1, [0, 1, 3]), ([1, 2], some 1, [0, 1, 3]),
     ([0, 1, 3], some 0, [1, 2]), ([0, 1, 3], some 1, [0, 1, 3])] := by decide +kernel
theorem nv_reverse_epsFree : dfa1.reverse.EpsFree := by unfold EpsFree; decide +kernel
theorem nv_reverse_wf : dfa1.reverse.WF := reverse_wf dfa1 nv_dfa1_wf
theorem nv_toDet_noEps : (dfa1.reverse.toDet id false 100).isSome := by decide +kernel
theorem nv_complementRef :
    (enfa1.complementRef [7] 100).isSome ∧ (∃ q ∈ [7], q ∉ enfa1.states) := by decide +kernel

-- `mergeName_keyInj`, `toDet_named_lang_partial`, `pairName_inj`: clean names
def names1 : Nat → List Char := fun n => (toString n).toList
theorem nv_names_clean : Names.Clean enfa1.states names1 := by unfold Names.Clean; decide +kernel
theorem nv_toDet_named : (enfa1.toDet (Names.mergeName names1) true 100).map (·.states) =
    some ["0;1".toList, "0;1;3".toList, "1;2".toList] := by
  rw [Names.mergeName_eq_mergeName']; decide +kernel

-- `mapStates_lang`: a renaming injective on the states
theorem nv_mapStates_inj : ∀ p ∈ dfa1.states, ∀ q ∈ dfa1.states, (fun n => 2 * n + 1) p = (fun n => 2 * n + 1) q → p = q := by
  decide

-- `inter_lang`, `inter_wf`
theorem nv_inter : (enfa1.inter enfa2 100).map (·.finals) = some [(3, 2)] := by decide +kernel

-- `langDiff_none_iff`, `langDiff_some`
theorem nv_langDiff_some : enfa1.langDiff enfa2 100 = some (some [0]) := by decide +kernel
theorem nv_langDiff_none : enfa1.langDiff enfa1.removeEps 100 = some none := by decide +kernel

-- `hopcroft_isNerodePartition`, `hopcroft_groups_nodup`, `hopcroft_isSome`, `minimize_hopcroft_*`
theorem nv_hopcroft : dfa1.hopcroft 50 = some dfa1Groups := by decide +kernel
theorem nv_hopcroft_fuel : dfa1.syms.length * (dfa1.states.length + 2) < 50 := by decide
theorem nv_hopcroft_key : ∀ g ∈ dfa1Groups, ∀ g' ∈ dfa1Groups,
    (id g : List (Option Nat)) = id g' → g = g' := fun _ _ _ _ h => h
theorem nv_minimizeOf_states :
    (dfa1.minimizeOf dfa1Groups id []).states = [[some 0], [some 3], [some 1, some 2, some 4]] := by
  decide +kernel

-- `sameRight_iff`, `nerodeGroups_spec`, `isReduced_iff`, `minimizeOf_*` (hypothesis `IsNerodePartition`)
theorem nv_sameRight : dfa1.sameRight 50 (some 1) (some 2) = some true ∧
    dfa1.sameRight 50 (some 0) (some 1) = some false := by decide +kernel
theorem nv_nerodeGroups :
    dfa1.nerodeGroups 50 = some [[none], [some 0], [some 1, some 2, some 4], [some 3]] := by
  decide +kernel
theorem nv_isNerodePartition : dfa1.IsNerodePartition (dfa1Groups.filter (· ≠ [])) :=
  hopcroft_isNerodePartition dfa1 nv_dfa1_wf nv_dfa1_det nv_dfa1_epsFree nv_dfa1_nodup 50 _ nv_hopcroft
theorem nv_isReduced_false : dfa1.isReduced 50 = some false := by decide +kernel
theorem nv_isReduced_true : (dfa1.minimizeOf dfa1Groups id []).isReduced 50 = some true := by
  decide +kernel

-- `isoWalk_true`, `isoWalk_false` (needs `Trim`, `Reduced` for the second automaton),
-- `isEquivalent_exact`, `checkIso_iff`, `isIso_lang`
theorem nv_dfa2_wf : dfa2.WF := by decide
theorem nv_dfa2_epsFree : dfa2.EpsFree := by unfold EpsFree; decide
theorem nv_dfa2_det : dfa2.Deterministic := (isDeterministicN_iff dfa2 nv_dfa2_epsFree).mp (by decide)
theorem nv_dfa2_trim : dfa2.Trim := by
  intro t ht
  rw [← mem_leadingToFinal_iff]
  revert t
  decide
theorem nv_dfa2_reduced : dfa2.Reduced :=
  (isReduced_iff dfa2 nv_dfa2_wf 50 true (by decide +kernel)).mp rfl
theorem nv_isoWalk_true :
    (dfa1.minimizeOf dfa1Groups id []).isoWalk
      (dfa1.minimizeOf [[none], [some 0], [some 1, some 2, some 4], [some 3]] id []) 50 = some true := by
  decide +kernel
theorem nv_isoWalk_false : (dfa1.minimizeOf dfa1Groups id []).isoWalk dfa2 50 = some false := by
  decide +kernel
theorem nv_checkIso : dfa2.checkIso dfa2 [(0, 0), (1, 1), (2, 2), (3, 3)] = true := by decide +kernel

-- `isAcyclic_iff`, `acceptedWords_exact`, `acceptedWords_exact_unbounded`
theorem nv_isAcyclic : enfa1.isAcyclic 50 = some false ∧ dfa2.isAcyclic 50 = some true := by
  decide +kernel
theorem nv_acceptedWords : enfa1.acceptedWords (some 3) 100 =
    some [[1], [0, 1], [1, 1], [1, 0, 1], [0, 1, 1], [1, 1, 1]] := by decide +kernel
theorem nv_acceptedWords_unbounded : dfa2.acceptedWords none 100 = some [[0, 0], [1, 1]] := by
  decide +kernel

end FA

/-! ## 2. Context-free grammars (C08 – C12, C14, C15, C19) -/
section Grammars
open CFG

/-- ε-production (`A → ε`), unit production (`B → A`) and a useless symbol (`U`) -/
def g1 : CFG :=
  { vars := ["S", "A", "B", "U"], ters := ["a", "b"], start := some "S"
    prods := [("S", [.var "A", .var "B"]), ("A", [.ter "a", .var "A"]), ("A", []),
              ("B", [.var "A"]), ("B", [.ter "b"]), ("U", [.var "U", .ter "a"])] }

/-- the same without the useless symbol: all symbols generating, all heads reachable -/
def g2 : CFG :=
  { vars := ["S", "A", "B"], ters := ["a", "b"], start := some "S"
    prods := [("S", [.var "A", .var "B"]), ("A", [.ter "a", .var "A"]), ("A", []),
              ("B", [.var "A"]), ("B", [.ter "b"])] }

/-- an LL(1) grammar with an ε-production and a unit production: `S → a S b | T`, `T → c | ε` -/
def g3 : CFG :=
  { vars := ["S", "T"], ters := ["a", "b", "c"], start := some "S"
    prods := [("S", [.ter "a", .var "S", .ter "b"]), ("S", [.var "T"]), ("T", [.ter "c"]), ("T", [])] }

/-- a finite language: `{aa, ab, ba, bb}` -/
def gFin : CFG :=
  { vars := ["S", "A"], ters := ["a", "b"], start := some "S"
    prods := [("S", [.var "A", .var "A"]), ("A", [.ter "a"]), ("A", [.ter "b"])] }

/-- DFA for `a* b` over the codes `a ↦ 0`, `b ↦ 1` -/
def dfaAB : ENFA Nat :=
  { states := [0, 1], syms := [0, 1], starts := [0], finals := [1],
    delta := [(0, some 0, 0), (0, some 1, 1)] }

/-- DFA for `a* b b` -/
def dfaABB : ENFA Nat :=
  { states := [0, 1, 2], syms := [0, 1], starts := [0], finals := [2],
    delta := [(0, some 0, 0), (0, some 1, 1), (1, some 1, 2)] }

def symOfAB : String → Option Nat := fun s => if s = "a" then some 0 else if s = "b" then some 1 else none

-- `WF` (all CFG theorems), with ε-production, unit production and useless symbol
theorem nv_g1_wf : g1.WF := wf_of_check g1 (by decide +kernel)
theorem nv_g1_features : ("A", []) ∈ g1.prods ∧ ("B", [.var "A"]) ∈ g1.prods ∧
    Sym.var "U" ∉ g1.generating ∧ Sym.var "U" ∉ g1.reachable := by decide +kernel
theorem nv_g2_wf : g2.WF := wf_of_check g2 (by decide +kernel)
theorem nv_g3_wf : g3.WF := wf_of_check g3 (by decide +kernel)
theorem nv_gFin_wf : gFin.WF := wf_of_check gFin (by decide +kernel)
-- `generating_nodup`
theorem nv_g1_ters_nodup : g1.ters.Nodup := by decide +kernel

-- `AllGenerating` + reachability: `mem_firstSets_iff`, `mem_followSets_iff`, `firstSet_spec`,
-- `followSet_spec`, `table_spec`, `isLLOne_iff` (also `prods.Nodup`)
theorem nv_g2_allGenerating : g2.AllGenerating := allGenerating_of_check g2 nv_g2_wf (by decide +kernel)
theorem nv_g2_reach : ∀ p ∈ g2.prods, Sym.var p.1 ∈ g2.reachable := by decide +kernel
theorem nv_g3_allGenerating : g3.AllGenerating := allGenerating_of_check g3 nv_g3_wf (by decide +kernel)
theorem nv_g3_reach : ∀ p ∈ g3.prods, Sym.var p.1 ∈ g3.reachable := by decide +kernel
theorem nv_g3_nodup : g3.prods.Nodup := by decide +kernel

-- `toNormalForm_lang`, `toNormalForm_isNormalForm`, `cyk_iff`, `contains_iff`
theorem nv_toNormalForm : (g1.toNormalForm 10).map (·.prods.length) = some 10 ∧
    (g1.toNormalForm 10).map (·.isNormalForm) = some true := by decide +kernel
theorem nv_contains : g1.contains ["a", "b"] 10 = some true ∧ g1.contains ["b", "a"] 10 = some false ∧
    g1.contains [] 10 = some true := by decide +kernel

-- `cfgMem_iff`, `mem_langUpTo_iff`, `langUpTo_nodup` (C08)
theorem nv_cfgMem : g1.cfgMem ["a", "b"] 20 = some true ∧ g1.cfgMem ["b", "b"] 20 = some false := by
  decide +kernel
theorem nv_langUpTo : g1.langUpTo 2 20 = some [[], ["a"], ["b"], ["a", "a"], ["a", "b"]] := by
  decide +kernel

-- `getWords_exact`, `getWords_exact_unbounded`, `isFinite_iff`
theorem nv_getWords : g1.getWords (some 3) 20 =
    some [[], ["a"], ["b"], ["a", "b"], ["a", "a"], ["a", "a", "a"], ["a", "a", "b"]] := by
  decide +kernel
theorem nv_getWords_unbounded :
    gFin.getWords none 20 = some [["a", "a"], ["a", "b"], ["b", "a"], ["b", "b"]] := by decide +kernel
theorem nv_isFinite : gFin.isFinite 20 = some true ∧ g1.isFinite 20 = some false := by decide +kernel

-- `interD_lang`: every hypothesis discharged for `g2`, the DFA `a* b` and `nm := toString`
theorem nv_dfaAB : dfaAB.WF ∧ dfaAB.EpsFree ∧ dfaAB.Deterministic := by
  have he : dfaAB.EpsFree := by unfold ENFA.EpsFree; decide
  exact ⟨by decide, he, (ENFA.isDeterministicN_iff dfaAB he).mp (by decide)⟩
theorem nv_interD_hinj : ∀ (p : Nat) (a : String) (r p' : Nat) (a' : String) (r' : Nat),
    p ∈ dfaAB.states → r ∈ dfaAB.states → p' ∈ dfaAB.states → r' ∈ dfaAB.states →
    PDA.tripleName toString id p a r = PDA.tripleName toString id p' a' r' →
    p = p' ∧ a = a' ∧ r = r' := by
  refine tripleName_inj_of_single toString dfaAB.states ?_ (by decide)
  intro p hp
  have hp' : p = 0 ∨ p = 1 := by simpa [dfaAB] using hp
  rcases hp' with rfl | rfl
  · exact ⟨'0', by decide⟩
  · exact ⟨'1', by decide⟩
theorem nv_interD_hstart : ∀ (p : Nat) (a : String) (r : Nat),
    PDA.tripleName toString id p a r ≠ "Start" :=
  tripleName_ne_of_head toString "Start" start_not_bracket
theorem nv_interD : (g2.interD dfaAB symOfAB toString 10).map (·.prods.length) = some 39 := by
  decide +kernel
/-- the theorem `interD_lang` fully instantiated: the result generates `a b` -/
theorem nv_interD_lang : ∃ R, g2.interD dfaAB symOfAB toString 10 = some R ∧ R.Lang ["a", "b"] := by
  have h : (g2.interD dfaAB symOfAB toString 10).isSome = true := by decide +kernel
  obtain ⟨R, hR⟩ := Option.isSome_iff_exists.mp h
  refine ⟨R, hR, (interD_lang g2 nv_g2_wf dfaAB nv_dfaAB.1 nv_dfaAB.2.2 nv_dfaAB.2.1 symOfAB toString
    nv_interD_hinj nv_interD_hstart 10 R hR ["a", "b"]).mpr ⟨?_, [0, 1], by decide +kernel, ?_⟩⟩
  · exact (cfgMem_iff g2 ["a", "b"] 20 true (by decide +kernel)).mp rfl
  · rw [← ENFA.member_iff]; decide

-- `substitute_lang` (`SubstOK`), `union_lang`, `concatenate_lang`, `closure_lang`, `posClosure_lang`
theorem nv_substOK : SubstOK g3 [("c", g2), ("b", gFin)] := by
  refine ⟨nv_g3_wf, ?_, by decide +kernel, ?_⟩
  all_goals
    intro e he
    simp only [List.mem_cons, List.not_mem_nil, or_false] at he
    rcases he with rfl | rfl
  · exact nv_g2_wf
  · exact nv_gFin_wf
  · decide
  · decide
theorem nv_union_hyps : g2.start ≠ none ∧ gFin.start ≠ none := by decide +kernel
/-- a grammar whose terminal `"S"` is spelled like its variable `"S"` (allowed since the repair of
`Variable.__eq__`): the hypotheses of `substitute_lang` / `union_lang` hold for it as well -/
def gSame : CFG :=
  { vars := ["S"], ters := ["S", "a"], start := some "S"
    prods := [("S", [.ter "S", .var "S"]), ("S", [.ter "a"])] }
theorem nv_gSame_wf : gSame.WF := wf_of_check gSame (by decide +kernel)
theorem nv_substOK_same : SubstOK gSame [("S", gSame)] := by
  refine ⟨nv_gSame_wf, ?_, by decide +kernel, ?_⟩
  all_goals
    intro e he
    simp only [List.mem_cons, List.not_mem_nil, or_false] at he
    subst he
  · exact nv_gSame_wf
  · decide
/-- `union_lang` instantiated with it: the word `S a` (terminals) is in the union with `g2` -/
theorem nv_union_same : (gSame.union g2).Lang ["S", "a"] :=
  (union_lang gSame g2 nv_gSame_wf nv_g2_wf (by decide) (by decide) ["S", "a"]).mpr
    (Or.inl ((cfgMem_iff gSame ["S", "a"] 20 true (by decide +kernel)).mp rfl))

-- `firstSet_spec`, `firstSet_ter`, `followSet_spec`, `table_spec`, `isLLOne_iff`, `parse_valid` (C14_Lib),
-- `llParse_valid` (C14_LL1)
open LL1Lib in
theorem nv_ll1lib : (firstSet g3 50).isSome ∧ (followSet g3 50).isSome ∧
    (table g3 50).map (·.length) = some 7 ∧ isLLOne g3 50 = some true ∧ isLLOne g2 50 = some false := by
  decide +kernel
open LL1Lib in
theorem nv_ll1lib_parse : ∃ t, LL1Lib.parse g3 ["a", "c", "b"] 50 = some (some t) := by
  have hs : g3.start = some "S" := rfl
  obtain ⟨tb, htb⟩ := Option.isSome_iff_exists.mp (show (table g3 50).isSome = true by decide +kernel)
  have hpl : (table g3 50).bind (fun tb => parseLoop tb 50 [some (.var "S"), none] ["a", "c", "b"] []) =
      some (some [("S", [.ter "a", .var "S", .ter "b"]), ("S", [.var "T"]), ("T", [.ter "c"])]) := by
    decide +kernel
  rw [htb] at hpl
  simp only [Option.bind_some] at hpl
  unfold LL1Lib.parse
  rw [hs]
  simp only
  rw [htb]
  simp only [hpl]
  simp [buildTree, buildTree.sons]
theorem nv_llParse : (g3.llParse ["a", "c", "b"] 50).isSome := by decide +kernel

-- `parse_valid`, `parse_refuses_only_nonmembers` (C15_RecDescent), leftmost and rightmost
theorem nv_rdSub (left : Bool) : RecDescent.rdSub g3 left 5 ["a", "c", "b"] [.var "S"] =
    some (some [("S", [.ter "a", .var "S", .ter "b"]), ("S", [.var "T"]), ("T", [.ter "c"])]) := by
  cases left <;>
  simp [RecDescent.rdSub, RecDescent.rdSub.tryAll, RecDescent.rdMatch, RecDescent.indexToExtend, g3,
    List.findIdx?_cons]
theorem nv_rd_parse (left : Bool) :
    ∃ t, RecDescent.parse g3 ["a", "c", "b"] left 5 = some (some t) := by
  have hs : g3.start = some "S" := rfl
  unfold RecDescent.parse
  rw [hs]
  simp only [nv_rdSub]
  cases left <;> simp [RecDescent.build, RecDescent.build.sons]
theorem nv_rd_refuse : RecDescent.parse g3 ["a", "c"] true 5 = some none := by
  have hs : g3.start = some "S" := rfl
  unfold RecDescent.parse
  rw [hs]
  simp [RecDescent.rdSub, RecDescent.rdSub.tryAll, RecDescent.rdMatch, RecDescent.indexToExtend, g3,
    List.findIdx?_cons]

-- `treeValid_sound`, `wellFormedT_gen`, `derivationValid_sound`, `leftmostD_valid`, `rightmostD_valid`
def t3 : PTree :=
  .node (.var "S") [.node (.ter "a") [], .node (.var "S") [.node (.var "T") [.node (.ter "c") []]],
    .node (.ter "b") []]
theorem nv_treeValid : g3.treeValid t3 ["a", "c", "b"] = true ∧ g3.wellFormedT t3 = true := by
  decide +kernel
theorem nv_derivationValid : g3.derivationValid true (.var "S")
    [[.var "S"], [.ter "a", .var "S", .ter "b"], [.ter "a", .var "T", .ter "b"],
     [.ter "a", .ter "c", .ter "b"]] ["a", "c", "b"] = true ∧
    g3.derivationValid false (.var "S") (rightmostD t3) ["a", "c", "b"] = true := by decide +kernel

-- `genCounters_restores`, `genCounters_generating`, `genCounters_nullable`, `genCounters_history`
theorem nv_genCounters :
    g1.genCounters false g1.buildTables.1 g1.buildTables.2.1 g1.buildTables.2.2 50 =
      some ([.var "A", .ter "a", .ter "b", .var "B", .var "S"],
        [("S", [2]), ("A", [2]), ("B", [1, 1]), ("U", [2])]) ∧
    g1.genCounters true g1.buildTables.1 g1.buildTables.2.1 g1.buildTables.2.2 50 =
      some ([.var "A", .var "B", .var "S"], [("S", [2]), ("A", [2]), ("B", [1, 1]), ("U", [2])]) := by
  decide +kernel

end Grammars

/-! ## 3. Pushdown automata (C13, C11) -/
section Pushdown
open PDA

/-- `aⁿ bⁿ` (`n ≥ 1`), accepted both by final state and by empty stack -/
def pda1 : PDA String String :=
  { states := ["q0", "q1", "qf"], inputs := ["a", "b"], stack := ["Z", "A"], start := some "q0",
    startStack := some "Z", finals := ["qf"],
    delta := [("q0", some "a", "Z", "q0", ["A", "Z"]), ("q0", some "a", "A", "q0", ["A", "A"]),
              ("q0", some "b", "A", "q1", []), ("q1", some "b", "A", "q1", []),
              ("q1", none, "Z", "qf", [])] }

-- `WF`: `toFinalState_lang`, `toEmptyStack_lang`, `toCFG_lang`, `inter_lang`, `interRegex_lang`
theorem nv_pda1_wf : pda1.WF := pda_wf_of_check pda1 (by decide +kernel)

-- `toCFG_lang`: result and both naming hypotheses for `ns = ng = id`
theorem nv_pda1_toCFG : (pda1.toCFG id id).map (·.prods.length) = some 18 := by decide +kernel
theorem nv_pda1_toCFG_hinj : ∀ q x p q' x' p', q ∈ pda1.states → p ∈ pda1.states → q' ∈ pda1.states →
    p' ∈ pda1.states → x ∈ pda1.stack → x' ∈ pda1.stack →
    tripleName id id q x p = tripleName id id q' x' p' → q = q' ∧ x = x' ∧ p = p' := by
  have h : ∀ q ∈ pda1.states, ∀ x ∈ pda1.stack, ∀ p ∈ pda1.states, ∀ q' ∈ pda1.states,
      ∀ x' ∈ pda1.stack, ∀ p' ∈ pda1.states,
      tripleName id id q x p = tripleName id id q' x' p' → q = q' ∧ x = x' ∧ p = p' := by
    decide +kernel
  intro q x p q' x' p' hq hp hq' hp' hx hx'
  exact h q hq x hx p hp q' hq' x' hx' p' hp'
theorem nv_pda1_toCFG_hstart : ∀ q ∈ pda1.states, ∀ x ∈ pda1.stack, ∀ p ∈ pda1.states,
    tripleName id id q x p ≠ "#StartCFG#" := by decide +kernel

-- `accEmpty_iff`, `accFinal_iff`
theorem nv_pda1_acc : pda1.accFinal ["a", "a", "b", "b"] 20 = some true ∧
    pda1.accEmpty ["a", "a", "b", "b"] 20 = some true ∧
    pda1.accEmpty ["a", "b", "b"] 20 = some false ∧
    pda1.accFinal ["a", "b", "b"] 20 = some false := by decide +kernel

-- `inter_lang` (C13_ToCFG): deterministic ε-free automaton, `inter` returns, and accepts a common word
theorem nv_dfaABB : dfaABB.WF ∧ dfaABB.EpsFree ∧ dfaABB.Deterministic := by
  have he : dfaABB.EpsFree := by unfold ENFA.EpsFree; decide
  exact ⟨by decide, he, (ENFA.isDeterministicN_iff dfaABB he).mp (by decide)⟩
theorem nv_pda1_inter : (pda1.inter dfaABB symOfAB 20).map (·.finals) = some [("qf", 2)] := by
  decide +kernel
theorem nv_pda1_inter_acc :
    ((pda1.inter dfaABB symOfAB 20).bind fun Q => Q.accFinal ["a", "a", "b", "b"] 20) = some true := by
  decide +kernel

-- `toFinalState_lang`, `toEmptyStack_lang`, `ofCFG_lang` (freshness of the `#TERM#` names)
theorem nv_pda1_modes : pda1.toFinalState.accFinal ["a", "b"] 20 = some true ∧
    pda1.toEmptyStack.accEmpty ["a", "b"] 20 = some true := by decide +kernel
theorem nv_ofCFG_fresh : ∀ t ∈ g2.ters, ("#TERM#" ++ t) ∉ g2.vars := by decide +kernel
theorem nv_ofCFG_acc : (ofCFG g2).accEmpty ["a", "b"] 30 = some true := by decide +kernel

end Pushdown

/-! ## 4. Regular expressions (C05, C07, C11, C20_Boxes) -/
section Regexes
open RegexReader

theorem plainSym_of (s : String) (h1 : s.toList ≠ [])
    (h2 : s.toList.all (fun c => decide (c ≠ ' ') && decide (c ≠ '\\') && !isSpecialChar c) = true)
    (h3 : s ≠ "epsilon") : PlainSym s := by
  refine ⟨h1, fun c hc => ?_, h3⟩
  have := List.all_eq_true.mp h2 c hc
  simp only [Bool.and_eq_true, decide_eq_true_eq, Bool.not_eq_true'] at this
  exact ⟨this.1.1, this.1.2, this.2⟩

/-- nested stars, ε, multi-character and capitalised symbols -/
def rxNested : Rx := .star (.cat (.star (.alt (.sym "ab") (.star (.sym "c")))) (.alt .eps (.sym "Dd")))

/-- `(a|b)* c` -/
def rxSmall : Rx := .cat (.star (.alt (.sym "a") (.sym "b"))) (.sym "c")

-- `parse_repr` (`PlainRx`), and the reader on a hand-written text
theorem nv_plainRx_nested : PlainRx rxNested := by
  refine ⟨⟨plainSym_of _ ?_ ?_ ?_, plainSym_of _ ?_ ?_ ?_⟩, trivial, plainSym_of _ ?_ ?_ ?_⟩ <;>
    decide +kernel
theorem nv_parse_repr : parse 20 (Rx.repr' rxNested).toList = .ok rxNested := by decide +kernel
theorem nv_parse_text : parse 20 "(a b|c)* d (e*)* | $".toList = .ok
    (.alt (.cat (.star (.alt (.cat (.sym "a") (.sym "b")) (.sym "c")))
      (.cat (.sym "d") (.star (.star (.sym "e"))))) .eps) := by decide +kernel
theorem nv_parse_error : parse 20 "a)".toList = .error .misformed := by decide +kernel

-- `matches_iff`, `thompson_*`, `regexAccepts_iff` (injective `code`)
theorem nv_rx_matches : rxSmall.matches ["a", "b", "c"] = true ∧ rxSmall.matches ["c", "a"] = false := by
  decide +kernel
theorem nv_regexAccepts : (rxSmall.thompson codeInj 0).1.acceptsE
    (["a", "b", "c"].map fun s => some (codeInj s)) = true := by decide +kernel

-- `toCFG_lang` (C05_ToCFG): a start symbol that is no node name
theorem nv_rx_toCFG_start : ∀ k, "S" ≠ Rx.nodeName k := by
  intro k h
  have h' := congrArg String.toList h
  simp only [Rx.nodeName, String.toList_append] at h'
  have e1 : "S".toList = ['S'] := rfl
  have e2 : "A".toList = ['A'] := rfl
  rw [e1, e2] at h'
  simp at h'
theorem nv_rx_toCFG : (rxSmall.toCFG "S").contains ["a", "b", "c"] 10 = some true := by decide +kernel

-- `box_lang` (C20_Boxes): Thompson, subset construction (`key := id`), Hopcroft (`name := id`)
theorem nv_box_keyInj : (rxSmall.thompson codeInj 0).1.KeyInj id := keyInj_id _
theorem nv_box_toDet : ((rxSmall.thompson codeInj 0).1.toDet id true 100).isSome := by decide +kernel
theorem nv_box_hopcroft :
    (((rxSmall.thompson codeInj 0).1.toDet id true 100).bind fun D => D.hopcroft 100).isSome := by
  decide +kernel

-- `CFG.interRegex_lang` (C11_Regex) and `PDA.interRegex_lang` (C05_Compose): the determinised Thompson
-- automaton of `(a|b)* c`, one-character state names, and the products with `g3` / `pda1`
def detBox : ENFA (List Nat) :=
  match (rxSmall.thompson codeInj 0).1.toDet id true 100 with
  | some D => D
  | none => { states := [], syms := [], starts := [], finals := [], delta := [] }
theorem nv_detBox : (rxSmall.thompson codeInj 0).1.toDet id true 100 = some detBox := by
  have h := nv_box_toDet
  unfold detBox
  cases hD : (rxSmall.thompson codeInj 0).1.toDet id true 100 with
  | none => rw [hD] at h; cases h
  | some D => rfl
/-- the `i`-th state of `detBox` is called by the `i`-th capital letter -/
def nmBox (S : List Nat) : String := String.singleton (Char.ofNat (65 + detBox.states.idxOf S))
theorem nv_interRegex_hinj : ∀ (p : List Nat) (a : String) (q p' : List Nat) (a' : String) (q' : List Nat),
    p ∈ detBox.states → q ∈ detBox.states → p' ∈ detBox.states → q' ∈ detBox.states →
    PDA.tripleName nmBox id p a q = PDA.tripleName nmBox id p' a' q' → p = p' ∧ a = a' ∧ q = q' := by
  refine tripleName_inj_of_single nmBox detBox.states ?_ (by decide +kernel)
  intro p _
  exact ⟨_, String.toList_singleton _⟩
theorem nv_interRegex_hstart : ∀ (p : List Nat) (a : String) (q : List Nat),
    PDA.tripleName nmBox id p a q ≠ "Start" :=
  tripleName_ne_of_head nmBox "Start" start_not_bracket
theorem nv_interRegex_cfg : (g3.interD detBox symOfInj nmBox 10).isSome := by decide +kernel
theorem nv_interRegex_pda : (pda1.inter detBox symOfInj 30).isSome := by decide +kernel

-- `desugar_denote`, `matches_iff_Matches` (`WellFormed`), with `{m,n}`, a set with a range, a negated set
def pyPat : PyRx.P :=
  .cat (.rep (.set false [.range 'a' 'c', .ch 'x']) 1 2) (.plus (.set true [.short 'd', .ch 'a']))
theorem nv_py_wellFormed : PyRx.WellFormed pyPat := ⟨⟨trivial, by decide⟩, trivial⟩
theorem nv_py_matches :
    (PyRx.desugar "abcx019_".toList pyPat).matches (PyRx.word "bx_c".toList) = true ∧
    (PyRx.desugar "abcx019_".toList pyPat).matches (PyRx.word "bxa9".toList) = false := by
  decide +kernel

end Regexes

/-! ## 5. Transducers (C16) and indexed grammars (C17) -/
section Transducers

/-- nondeterministic, with an ε-input move; shares the state name `q0` with `fstB` -/
def fstA : FST String :=
  { states := ["q0", "q1"], inputs := ["a", "b"], outputs := ["x", "y"], starts := ["q0"],
    finals := ["q1"],
    delta := [("q0", some "a", "q0", ["x"]), ("q0", some "a", "q1", ["y", "y"]), ("q0", none, "q1", []),
              ("q1", some "b", "q1", ["x"])] }

def fstB : FST String :=
  { states := ["q0", "q2"], inputs := ["b"], outputs := ["z"], starts := ["q0"], finals := ["q2"],
    delta := [("q0", some "b", "q2", ["z"]), ("q2", none, "q0", [])] }

-- `union_rel`, `concatenate_rel`, `kleeneStar_rel`, `rename_injective`
theorem nv_fstA : fstA.WF ∧ fstA.states.Nodup := ⟨fst_wf_of_check _ (by decide +kernel), by decide +kernel⟩
theorem nv_fstB : fstB.WF ∧ fstB.states.Nodup := ⟨fst_wf_of_check _ (by decide +kernel), by decide +kernel⟩
theorem nv_fst_shared : "q0" ∈ fstA.states ∧ "q0" ∈ fstB.states ∧
    (fstA.union fstB).states = ["q0", "q00", "q1", "q2"] := by decide +kernel

-- `translate_exact`, `relOutputs_iff`
theorem nv_translate :
    fstA.translate ["a", "a", "b"] none 50 = some [["x", "y", "y", "x"], ["x", "x", "x"]] ∧
    fstB.kleeneStar.translate ["b", "b"] none 50 = some [["z", "z"]] := by decide +kernel
theorem nv_relOutputs :
    fstA.relOutputs ["a", "a", "b"] 50 = some [["x", "y", "y", "x"], ["x", "x", "x"]] ∧
    (fstA.union fstB).relOutputs ["b"] 50 = some [["x"], ["z"]] ∧
    (fstA.concatenate fstB).relOutputs ["a", "b", "b"] 50 =
      some [["y", "y", "z", "z"], ["y", "y", "x", "z"], ["x", "z", "z"], ["x", "x", "z"]] := by
  decide +kernel

/-- all four rule kinds; `S[] ⇒ T[g] ⇒ T[fg] ⇒ A[fg] B[fg] ⇒* a a` -/
def ig1 : IG :=
  { start := "S"
    rules := [.prod "S" "T" "g", .prod "T" "T" "f", .dup "T" "A" "B", .cons "f" "A" "A",
              .cons "g" "A" "E", .cons "f" "B" "B", .cons "g" "B" "E", .end_ "E" "a"] }

/-- the same with `B` waiting for an index `h` that is never pushed: empty language -/
def ig2 : IG :=
  { start := "S"
    rules := [.prod "S" "T" "g", .prod "T" "T" "f", .dup "T" "A" "B", .cons "f" "A" "A",
              .cons "g" "A" "E", .cons "f" "B" "B", .cons "h" "B" "E", .end_ "E" "a"] }

-- `isEmpty_iff`, `marks_sound`, `marks_complete`, `derivable_sound`
theorem nv_ig_isEmpty : ig1.isEmpty 20 = some false ∧ ig2.isEmpty 20 = some true := by decide +kernel
theorem nv_ig_marks : (ig1.markSaturate 20 ig1.initMarks).map (·.length) = some 9 := by decide +kernel
theorem nv_ig_derivable : ig1.derivable 10 "S" [] = true := by decide +kernel

end Transducers

/-! ## 6. Feature structures (C18) -/
section Features
open FS

def fsA : FS := .node [("agr", .node [("num", .atom "sg"), ("per", .unspec)]), ("cat", .atom "np")]
def fsB : FS := .node [("agr", .node [("per", .atom "3")]), ("case", .atom "nom")]
def fsC : FS := .node [("agr", .node [("num", .atom "pl")])]

theorem mem_of_lookup {f : String} {fs : List (String × FS)} {x : FS} (h : lookup f fs = some x) :
    (f, x) ∈ fs := by
  induction fs with
  | nil => simp [lookup] at h
  | cons e rest ih =>
    obtain ⟨g, y⟩ := e
    simp only [lookup] at h
    split at h
    · next hg => cases h; subst hg; exact List.mem_cons_self
    · exact List.mem_cons_of_mem _ (ih h)

-- `WT` (`unify_none_iff`, `unify_facts`, `unify_wt`, `unify_comm`)
theorem nv_fsA_wt : WT fsA := by
  refine .node _ (by decide) ?_
  intro e he
  simp only [List.mem_cons, List.not_mem_nil, or_false] at he
  rcases he with rfl | rfl
  · refine .node _ (by decide) ?_
    intro e he
    simp only [List.mem_cons, List.not_mem_nil, or_false] at he
    rcases he with rfl | rfl
    · exact .atom _
    · exact .unspec
  · exact .atom _
theorem nv_fsB_wt : WT fsB := by
  refine .node _ (by decide) ?_
  intro e he
  simp only [List.mem_cons, List.not_mem_nil, or_false] at he
  rcases he with rfl | rfl
  · refine .node _ (by decide) ?_
    intro e he
    simp only [List.mem_cons, List.not_mem_nil, or_false] at he
    subst he
    exact .atom _
  · exact .atom _
theorem nv_fsC_wt : WT fsC := by
  refine .node _ (by decide) ?_
  intro e he
  simp only [List.mem_cons, List.not_mem_nil, or_false] at he
  subst he
  refine .node _ (by decide) ?_
  intro e he
  simp only [List.mem_cons, List.not_mem_nil, or_false] at he
  subst he
  exact .atom _

-- two structures that `Agree` and unify
theorem nv_fsAB_agree : Agree fsA fsB := by
  refine .node _ _ ?_
  intro f x y hx hy
  have hx' := mem_of_lookup hx
  have hy' := mem_of_lookup hy
  simp only [List.mem_cons, List.not_mem_nil, or_false, Prod.mk.injEq] at hx' hy'
  rcases hx' with ⟨rfl, rfl⟩ | ⟨rfl, rfl⟩ <;> rcases hy' with ⟨h, rfl⟩ | ⟨h, rfl⟩ <;>
    first | (exact absurd h (by decide)) | skip
  refine .node _ _ ?_
  intro f x y hx hy
  have hx' := mem_of_lookup hx
  have hy' := mem_of_lookup hy
  simp only [List.mem_cons, List.not_mem_nil, or_false, Prod.mk.injEq] at hx' hy'
  rcases hx' with ⟨rfl, rfl⟩ | ⟨rfl, rfl⟩ <;> obtain ⟨h, rfl⟩ := hy'
  · exact absurd h (by decide)
  · exact .unspecL _
theorem nv_fsAB_unify : ∃ c, unify fsA fsB = some c := by
  simp [unify, unifyFields, lookup, fsA, fsB]

-- two structures that `Agree` in type and conflict in value
theorem nv_fsAC_agree : Agree fsA fsC := by
  refine .node _ _ ?_
  intro f x y hx hy
  have hx' := mem_of_lookup hx
  have hy' := mem_of_lookup hy
  simp only [List.mem_cons, List.not_mem_nil, or_false, Prod.mk.injEq] at hx' hy'
  rcases hx' with ⟨rfl, rfl⟩ | ⟨rfl, rfl⟩ <;> obtain ⟨h, rfl⟩ := hy'
  · refine .node _ _ ?_
    intro f x y hx hy
    have hx' := mem_of_lookup hx
    have hy' := mem_of_lookup hy
    simp only [List.mem_cons, List.not_mem_nil, or_false, Prod.mk.injEq] at hx' hy'
    rcases hx' with ⟨rfl, rfl⟩ | ⟨rfl, rfl⟩ <;> obtain ⟨h, rfl⟩ := hy'
    · exact .atom _ _
    · exact .unspecL _
  · exact absurd h (by decide)
theorem nv_fsAC_conflict : Conflict fsA fsC :=
  ⟨["agr", "num"], "sg", "pl", by simp [fsA, facts, facts.factsL], by simp [fsC, facts, facts.factsL],
    by decide⟩
theorem nv_fsAC_unify : unify fsA fsC = none := by
  simp [unify, unifyFields, lookup, fsA, fsC]

end Features

/-! ## 7. Codecs (C20) -/
section Codecs
open Codec LabelCodec

-- `read_varToText`, `read_terToText`, `read_capitalised_unmarked` (`Plain`, not an ε spelling)
theorem nv_plain_lower : Plain "expr".toList := ⟨by decide, by decide +kernel⟩
theorem nv_plain_capital : Plain "Plus".toList := ⟨by decide, by decide +kernel⟩
theorem nv_plain_quoted : Plain "\"x\"".toList := ⟨by decide, by decide +kernel⟩
theorem nv_not_eps : "Plus".toList ∉ epsilonSpellings ∧ "expr".toList ∉ epsilonSpellings := by
  decide +kernel
theorem nv_codec_marks : varToText "expr".toList = "\"VAR:expr\"".toList ∧
    terToText "Plus".toList = "\"TER:Plus\"".toList := by decide +kernel

-- `readPdaLabel_pdaLabel_clear`, `readFstLabel_fstLabel_clear` (`Clear`), on JSON-looking texts
theorem nv_clear_json_string : Clear "\"a\"".toList := by unfold Clear; decide +kernel
theorem nv_clear_json_list : Clear "[\"X\", \"Y\"]".toList := by unfold Clear; decide +kernel
theorem nv_clear_empty_list : Clear "[]".toList := by unfold Clear; decide +kernel
theorem nv_pdaLabel : readPdaLabel (pdaLabel "\"a\"".toList "\"Z\"".toList "[\"X\", \"Y\"]".toList) =
    some ("\"a\"".toList, "\"Z\"".toList, "[\"X\", \"Y\"]".toList) := by decide +kernel

end Codecs

end NonVacuity
end Pfl
