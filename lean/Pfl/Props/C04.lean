import Pfl.Props.C04_Preds
import Pfl.Props.C04_Oracle
