/-
C04 — emptiness and determinism tests are exact; the language-equivalence oracle is exact.
-/
import Pfl.Proofs.FABase
import Pfl.Oracle.LangEquiv
import Pfl.Proofs.FAOracle
namespace Pfl
namespace ENFA
variable {σ τ : Type} [DecidableEq σ] [DecidableEq τ]

theorem isEmpty_iff (A : ENFA σ) (hA : A.WF) : A.isEmpty = true ↔ ∀ w, ¬ A.Lang w := by
  unfold isEmpty
  simp only [Bool.not_eq_eq_eq_not, Bool.not_true, List.any_eq_false, decide_eq_true_eq,
    mem_reachable_iff A hA]
  constructor
  · rintro h w ⟨s, hs, f, hf, hr⟩
    exact h f ⟨s, hs, w, hr⟩ hf
  · rintro h q ⟨s, hs, w, hr⟩ hf
    exact h w ⟨s, hs, q, hf, hr⟩

theorem isDeterministicE_iff (A : ENFA σ) (hA : A.WF) :
    A.isDeterministicE = true ↔ A.Deterministic := by
  unfold isDeterministicE Deterministic
  rw [Bool.and_eq_true, Bool.and_eq_true, decide_eq_true_eq,
    FAOracle.eraseDups_length_le_one_iff, tfDeterministic_iff, ecloseSelf_iff A hA, and_assoc]

theorem isDeterministicN_iff (A : ENFA σ) (he : A.EpsFree) :
    A.isDeterministicN = true ↔ A.Deterministic := by
  unfold isDeterministicN Deterministic
  rw [Bool.and_eq_true, decide_eq_true_eq,
    FAOracle.eraseDups_length_le_one_iff, tfDeterministic_iff]
  constructor
  · rintro ⟨h1, h2⟩
    exact ⟨h1, h2, fun q r h => absurd rfl (he _ h)⟩
  · rintro ⟨h1, h2, _⟩
    exact ⟨h1, h2⟩

end ENFA
end Pfl
