/-
C04 — emptiness and determinism tests are exact; the language-equivalence oracle is exact.
-/
import Pfl.Proofs.FABase
import Pfl.Oracle.LangEquiv
namespace Pfl
namespace ENFA
variable {σ τ : Type} [DecidableEq σ] [DecidableEq τ]

theorem isEmpty_iff (A : ENFA σ) (hA : A.WF) : A.isEmpty = true ↔ ∀ w, ¬ A.Lang w := by
  sorry

theorem isDeterministicE_iff (A : ENFA σ) (hA : A.WF) :
    A.isDeterministicE = true ↔ A.Deterministic := by
  sorry

theorem isDeterministicN_iff (A : ENFA σ) (he : A.EpsFree) :
    A.isDeterministicN = true ↔ A.Deterministic := by
  sorry

end ENFA
end Pfl
