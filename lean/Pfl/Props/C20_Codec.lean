/-
C20 — the text codec round-trips every symbol token: a variable or terminal written by `to_text`
is read back by `from_text` as the same symbol, including lower-case variables ("VAR:") and
capitalised terminals ("TER:"), for tokens that are not epsilon spellings.
-/
import Pfl.Model.Codec
namespace Pfl
namespace Codec

/-- a plain token: non-empty, and not itself of the quoted marker form -/
def Plain (s : List Char) : Prop := s ≠ [] ∧ isSpecial s = false

namespace Lem

theorem getLast?_quote (p v : List Char) : (p ++ (v ++ ['"'])).getLast? = some '"' := by
  rw [← List.append_assoc, List.getLast?_concat]

theorem isSpecial_var (v : List Char) (hv : v ≠ []) :
    isSpecial ('"' :: 'V' :: 'A' :: 'R' :: ':' :: (v ++ ['"'])) = true := by
  have hl := getLast?_quote ['"', 'V', 'A', 'R', ':'] v
  have : 0 < v.length := List.length_pos_iff.mpr hv
  simp only [List.cons_append, List.nil_append] at hl
  simp [isSpecial, hl]

theorem isSpecial_ter (v : List Char) (hv : v ≠ []) :
    isSpecial ('"' :: 'T' :: 'E' :: 'R' :: ':' :: (v ++ ['"'])) = true := by
  have hl := getLast?_quote ['"', 'T', 'E', 'R', ':'] v
  have : 0 < v.length := List.length_pos_iff.mpr hv
  simp only [List.cons_append, List.nil_append] at hl
  simp [isSpecial, hl]

theorem read_marked_var (v : List Char) (hv : v ≠ []) :
    readComponent ('"' :: 'V' :: 'A' :: 'R' :: ':' :: (v ++ ['"'])) = .var v := by
  unfold readComponent
  rw [isSpecial_var v hv]
  simp

theorem read_marked_ter (v : List Char) (hv : v ≠ []) :
    readComponent ('"' :: 'T' :: 'E' :: 'R' :: ':' :: (v ++ ['"'])) = .ter v := by
  unfold readComponent
  rw [isSpecial_ter v hv]
  simp

theorem read_unmarked (c : Char) (rest : List Char) (h : isSpecial (c :: rest) = false) :
    readComponent (c :: rest) =
      if isUpper c = true then .var (c :: rest)
      else if (c :: rest) ∉ epsilonSpellings then .ter (c :: rest) else .eps := by
  unfold readComponent
  rw [h]
  simp

end Lem
open Lem

theorem read_varToText (v : List Char) (h : Plain v) : readComponent (varToText v) = .var v := by
  obtain ⟨hne, hs⟩ := h
  cases v with
  | nil => exact absurd rfl hne
  | cons c rest =>
    by_cases hc : isUpper c = true
    · simp [varToText, hc, read_unmarked _ _ hs]
    · simp only [varToText, hc, Bool.false_eq_true, if_false]
      exact read_marked_var (c :: rest) hne

theorem read_terToText (t : List Char) (h : Plain t) (he : t ∉ epsilonSpellings) :
    readComponent (terToText t) = .ter t := by
  obtain ⟨hne, hs⟩ := h
  cases t with
  | nil => exact absurd rfl hne
  | cons c rest =>
    by_cases hc : isUpper c = true
    · simp only [terToText, hc, if_true]
      exact read_marked_ter (c :: rest) hne
    · simp [terToText, hc, read_unmarked _ _ hs, he]

/-- the marker is what makes the difference: without it a capitalised terminal is read as a variable -/
theorem read_capitalised_unmarked (t : List Char) (c : Char) (rest : List Char) (ht : t = c :: rest)
    (hc : isUpper c = true) (h : Plain t) : readComponent t = .var t := by
  subst ht
  simp [read_unmarked _ _ h.2, hc]

end Codec
end Pfl
