/-
C19 — a `CFG` object behaves as a value: whatever public calls were issued before, every call
answers exactly what it answers on a fresh object (`history_independent`), because the hidden
state only ever holds what a fresh object would compute (`Inv`).
-/
import Pfl.Model.CFGObject
import Pfl.Props.C19_Counters
namespace Pfl
namespace CFG
namespace Obj
open Pfl.CFG.Ctr

/-- the hidden state holds nothing but what a fresh object computes -/
structure Inv (g : CFG) (fuel : Nat) (s : State) : Prop where
  tables : ∀ t, s.tables = some t → t = g.buildTables
  gen : ∀ l, s.gen = some l → ∃ r, g.genCounters false g.buildTables.1 g.buildTables.2.1 g.buildTables.2.2 fuel = some (l, r)
  nul : ∀ l, s.nul = some l → ∃ r, g.genCounters true g.buildTables.1 g.buildTables.2.1 g.buildTables.2.2 fuel = some (l, r)
  nf : ∀ n, s.nf = some n → g.toNormalForm fuel = some n

theorem inv_fresh (g : CFG) (fuel : Nat) : Inv g fuel {} :=
  { tables := fun _ h => by cases h
    gen := fun _ h => by cases h
    nul := fun _ h => by cases h
    nf := fun _ h => by cases h }

theorem ensureTables_spec (g : CFG) (fuel : Nat) (s : State) (h : Inv g fuel s) :
    (ensureTables g s).2 = g.buildTables ∧ (ensureTables g s).1.tables = some g.buildTables ∧
    (ensureTables g s).1.gen = s.gen ∧ (ensureTables g s).1.nul = s.nul ∧ (ensureTables g s).1.nf = s.nf := by
  unfold ensureTables
  cases ht : s.tables with
  | none => simp
  | some t => simp [h.tables t ht, ht]

theorem inv_ensureTables (g : CFG) (fuel : Nat) (s : State) (h : Inv g fuel s) :
    Inv g fuel (ensureTables g s).1 := by
  obtain ⟨_, h2, h3, h4, h5⟩ := ensureTables_spec g fuel s h
  exact ⟨by intro t ht; rw [h2] at ht; cases ht; rfl, by rw [h3]; exact h.gen, by rw [h4]; exact h.nul,
    by rw [h5]; exact h.nf⟩

/-- a run on the object is a run on fresh tables and leaves fresh tables -/
theorem runCounters_spec (g : CFG) (b : Bool) (fuel : Nat) (s s1 : State) (l : List Sym)
    (h : Inv g fuel s) (hr : runCounters g b fuel s = some (s1, l)) :
    g.genCounters b g.buildTables.1 g.buildTables.2.1 g.buildTables.2.2 fuel = some (l, g.buildTables.1) ∧
    s1.tables = some g.buildTables ∧ s1.gen = s.gen ∧ s1.nul = s.nul ∧ s1.nf = s.nf := by
  obtain ⟨h1, _, h3, h4, h5⟩ := ensureTables_spec g fuel s h
  unfold runCounters at hr
  generalize hE : ensureTables g s = E at hr h1 h3 h4 h5
  obtain ⟨s0, rem, imp, added⟩ := E
  simp only at hr h1
  cases hc : g.genCounters b rem imp added fuel with
  | none => rw [hc] at hr; cases hr
  | some p =>
    obtain ⟨found, rem'⟩ := p
    rw [hc] at hr
    simp only [Option.some.injEq, Prod.mk.injEq] at hr
    obtain ⟨rfl, rfl⟩ := hr
    have hbt : g.buildTables = (rem, imp, added) := h1.symm
    have e1 : g.buildTables.1 = rem := by rw [hbt]
    have e2 : g.buildTables.2.1 = imp := by rw [hbt]
    have e3 : g.buildTables.2.2 = added := by rw [hbt]
    have hc' : g.genCounters b g.buildTables.1 g.buildTables.2.1 g.buildTables.2.2 fuel = some (found, rem') := by
      rw [e1, e2, e3]; exact hc
    have hrem : rem' = g.buildTables.1 :=
      genCounters_restores g b _ _ _ fuel found rem' (buildTables_hwf g) (buildTables_hnd g)
        (buildTables_hpos g) hc'
    refine ⟨by rw [hc', hrem], ?_, h3, h4, h5⟩
    simp only
    rw [hrem, hbt]

/-- what the fresh object answers to `_get_generating_or_nullable` -/
theorem runCounters_fresh (g : CFG) (b : Bool) (fuel : Nat) (l : List Sym) (r : Remaining)
    (h : g.genCounters b g.buildTables.1 g.buildTables.2.1 g.buildTables.2.2 fuel = some (l, r)) :
    ∃ s1, runCounters g b fuel {} = some (s1, l) := by
  unfold runCounters ensureTables
  simp only
  rw [h]
  exact ⟨_, rfl⟩

/-- the same from any state that satisfies the invariant -/
theorem runCounters_of_fresh (g : CFG) (b : Bool) (fuel : Nat) (s : State) (hs : Inv g fuel s) (l : List Sym) (r : Remaining)
    (h : g.genCounters b g.buildTables.1 g.buildTables.2.1 g.buildTables.2.2 fuel = some (l, r)) :
    ∃ s1, runCounters g b fuel s = some (s1, l) := by
  obtain ⟨h1, _, _, _, _⟩ := ensureTables_spec g fuel s hs
  unfold runCounters
  generalize hE : ensureTables g s = E at h1
  obtain ⟨s0, rem, imp, added⟩ := E
  simp only at h1 ⊢
  have hbt : g.buildTables = (rem, imp, added) := h1.symm
  have e1 : g.buildTables.1 = rem := by rw [hbt]
  have e2 : g.buildTables.2.1 = imp := by rw [hbt]
  have e3 : g.buildTables.2.2 = added := by rw [hbt]
  rw [e1, e2, e3] at h
  rw [h]
  exact ⟨_, rfl⟩

/-- the answer of `get_generating_symbols` / `get_nullable_symbols` as a function of the grammar alone -/
def counterAnswer (g : CFG) (b : Bool) (fuel : Nat) : Option (List Sym) :=
  (g.genCounters b g.buildTables.1 g.buildTables.2.1 g.buildTables.2.2 fuel).map (·.1)

theorem getGenerating_spec (g : CFG) (fuel : Nat) (s s1 : State) (l : List Sym)
    (h : Inv g fuel s) (hr : getGenerating g fuel s = some (s1, l)) :
    Inv g fuel s1 ∧ counterAnswer g false fuel = some l := by
  unfold getGenerating at hr
  cases hg : s.gen with
  | some l0 =>
    rw [hg] at hr
    simp only [Option.some.injEq, Prod.mk.injEq] at hr
    obtain ⟨rfl, rfl⟩ := hr
    obtain ⟨r, hr⟩ := h.gen _ hg
    exact ⟨h, by simp [counterAnswer, hr]⟩
  | none =>
    rw [hg] at hr
    simp only at hr
    cases hc : runCounters g false fuel s with
    | none => rw [hc] at hr; cases hr
    | some p =>
      obtain ⟨s0, l0⟩ := p
      rw [hc] at hr
      simp only [Option.some.injEq, Prod.mk.injEq] at hr
      obtain ⟨rfl, rfl⟩ := hr
      obtain ⟨h1, h2, h3, h4, h5⟩ := runCounters_spec g false fuel s s0 l0 h hc
      refine ⟨⟨?_, ?_, ?_, ?_⟩, by simp [counterAnswer, h1]⟩
      · intro t ht; simp only at ht; rw [h2] at ht; cases ht; rfl
      · intro l' hl'; simp only [Option.some.injEq] at hl'; subst hl'; exact ⟨_, h1⟩
      · intro l' hl'; simp only at hl'; rw [h4] at hl'; exact h.nul _ hl'
      · intro n hn; simp only at hn; rw [h5] at hn; exact h.nf _ hn

theorem getNullable_spec (g : CFG) (fuel : Nat) (s s1 : State) (l : List Sym)
    (h : Inv g fuel s) (hr : getNullable g fuel s = some (s1, l)) :
    Inv g fuel s1 ∧ counterAnswer g true fuel = some l := by
  unfold getNullable at hr
  cases hg : s.nul with
  | some l0 =>
    rw [hg] at hr
    simp only [Option.some.injEq, Prod.mk.injEq] at hr
    obtain ⟨rfl, rfl⟩ := hr
    obtain ⟨r, hr⟩ := h.nul _ hg
    exact ⟨h, by simp [counterAnswer, hr]⟩
  | none =>
    rw [hg] at hr
    simp only at hr
    cases hc : runCounters g true fuel s with
    | none => rw [hc] at hr; cases hr
    | some p =>
      obtain ⟨s0, l0⟩ := p
      rw [hc] at hr
      simp only [Option.some.injEq, Prod.mk.injEq] at hr
      obtain ⟨rfl, rfl⟩ := hr
      obtain ⟨h1, h2, h3, h4, h5⟩ := runCounters_spec g true fuel s s0 l0 h hc
      refine ⟨⟨?_, ?_, ?_, ?_⟩, by simp [counterAnswer, h1]⟩
      · intro t ht; simp only at ht; rw [h2] at ht; cases ht; rfl
      · intro l' hl'; simp only at hl'; rw [h3] at hl'; exact h.gen _ hl'
      · intro l' hl'; simp only [Option.some.injEq] at hl'; subst hl'; exact ⟨_, h1⟩
      · intro n hn; simp only at hn; rw [h5] at hn; exact h.nf _ hn

theorem getNormalForm_spec (g : CFG) (fuel : Nat) (s s1 : State) (n : CFG)
    (h : Inv g fuel s) (hr : getNormalForm g fuel s = some (s1, n)) :
    Inv g fuel s1 ∧ g.toNormalForm fuel = some n := by
  unfold getNormalForm at hr
  cases hn : s.nf with
  | some n0 =>
    rw [hn] at hr
    simp only [Option.some.injEq, Prod.mk.injEq] at hr
    obtain ⟨rfl, rfl⟩ := hr
    exact ⟨h, h.nf _ hn⟩
  | none =>
    rw [hn] at hr
    simp only at hr
    cases h1 : getNullable g fuel s with
    | none => rw [h1] at hr; cases hr
    | some p1 =>
      obtain ⟨sa, la⟩ := p1
      rw [h1] at hr
      simp only at hr
      cases h2 : getGenerating g fuel sa with
      | none => rw [h2] at hr; cases hr
      | some p2 =>
        obtain ⟨sb, lb⟩ := p2
        rw [h2] at hr
        simp only at hr
        cases h3 : g.toNormalForm fuel with
        | none => rw [h3] at hr; cases hr
        | some n0 =>
          rw [h3] at hr
          simp only [Option.some.injEq, Prod.mk.injEq] at hr
          obtain ⟨rfl, rfl⟩ := hr
          have ia := (getNullable_spec g fuel s sa la h h1).1
          have ib := (getGenerating_spec g fuel sa sb lb ia h2).1
          exact ⟨⟨ib.tables, ib.gen, ib.nul, by intro n hn; simp only [Option.some.injEq] at hn; subst hn; exact h3⟩, rfl⟩

/-- the answer of each call as a function of the grammar alone (what a fresh object answers) -/
def answer (g : CFG) (fuel : Nat) : Op → Option Out
  | .generating => (counterAnswer g false fuel).map .syms
  | .nullable => (counterAnswer g true fuel).map .syms
  | .isEmpty => (counterAnswer g false fuel).map fun l =>
      .bool (match g.start with | none => true | some st => decide (Sym.var st ∉ l))
  | .generateEpsilon => some (.bool g.generateEpsilon)
  | .removeUseless => (counterAnswer g false fuel).map fun _ => .cfg g.removeUseless
  | .removeEpsilon => (counterAnswer g true fuel).map fun _ => .cfg g.removeEpsilon
  | .normalForm => (g.toNormalForm fuel).map .cfg
  | .contains w => if w.isEmpty then some (.bool g.generateEpsilon) else (g.toNormalForm fuel).map fun n => .bool (cyk n w)
  | .getWords maxLen => (g.getWords maxLen fuel).map .words
  | .isFinite => (g.isFinite fuel).map .bool

/-- one call from a state satisfying the invariant: the invariant is kept and the answer is the
answer that depends on the grammar alone -/
theorem step_spec (g : CFG) (fuel : Nat) (s s1 : State) (op : Op) (o : Out)
    (h : Inv g fuel s) (hr : step g fuel s op = some (s1, o)) :
    Inv g fuel s1 ∧ answer g fuel op = some o := by
  cases op with
  | generating =>
    simp only [step, Option.map_eq_some_iff, Prod.mk.injEq] at hr
    obtain ⟨⟨sa, l⟩, hq, rfl, rfl⟩ := hr
    obtain ⟨i, a⟩ := getGenerating_spec g fuel s sa l h hq
    exact ⟨i, by simp [answer, a]⟩
  | nullable =>
    simp only [step, Option.map_eq_some_iff, Prod.mk.injEq] at hr
    obtain ⟨⟨sa, l⟩, hq, rfl, rfl⟩ := hr
    obtain ⟨i, a⟩ := getNullable_spec g fuel s sa l h hq
    exact ⟨i, by simp [answer, a]⟩
  | isEmpty =>
    simp only [step, Option.map_eq_some_iff, Prod.mk.injEq] at hr
    obtain ⟨⟨sa, l⟩, hq, rfl, rfl⟩ := hr
    obtain ⟨i, a⟩ := getGenerating_spec g fuel s sa l h hq
    exact ⟨i, by simp only [answer, a, Option.map_some]; rfl⟩
  | generateEpsilon =>
    simp only [step, Option.some.injEq, Prod.mk.injEq] at hr
    obtain ⟨rfl, rfl⟩ := hr
    exact ⟨inv_ensureTables g fuel s h, rfl⟩
  | removeUseless =>
    simp only [step, Option.map_eq_some_iff, Prod.mk.injEq] at hr
    obtain ⟨⟨sa, l⟩, hq, rfl, rfl⟩ := hr
    obtain ⟨i, a⟩ := getGenerating_spec g fuel s sa l h hq
    exact ⟨i, by simp [answer, a]⟩
  | removeEpsilon =>
    simp only [step, Option.map_eq_some_iff, Prod.mk.injEq] at hr
    obtain ⟨⟨sa, l⟩, hq, rfl, rfl⟩ := hr
    obtain ⟨i, a⟩ := getNullable_spec g fuel s sa l h hq
    exact ⟨i, by simp [answer, a]⟩
  | normalForm =>
    simp only [step, Option.map_eq_some_iff, Prod.mk.injEq] at hr
    obtain ⟨⟨sa, n⟩, hq, rfl, rfl⟩ := hr
    obtain ⟨i, a⟩ := getNormalForm_spec g fuel s sa n h hq
    exact ⟨i, by simp [answer, a]⟩
  | contains w =>
    simp only [step] at hr
    by_cases hw : w.isEmpty = true
    · rw [if_pos hw] at hr
      simp only [Option.some.injEq, Prod.mk.injEq] at hr
      obtain ⟨rfl, rfl⟩ := hr
      exact ⟨inv_ensureTables g fuel s h, by simp [answer, hw]⟩
    · rw [if_neg hw] at hr
      simp only [Option.map_eq_some_iff, Prod.mk.injEq] at hr
      obtain ⟨⟨sa, n⟩, hq, rfl, rfl⟩ := hr
      obtain ⟨i, a⟩ := getNormalForm_spec g fuel s sa n h hq
      exact ⟨i, by simp [answer, a, hw]⟩
  | getWords m =>
    simp only [step] at hr
    cases h1 : getNullable g fuel s with
    | none => rw [h1] at hr; cases hr
    | some p1 =>
      obtain ⟨sa, la⟩ := p1
      rw [h1] at hr
      simp only at hr
      have ia := (getNullable_spec g fuel s sa la h h1).1
      by_cases hm : m = some 0
      · rw [if_pos hm] at hr
        simp only [Option.map_eq_some_iff, Prod.mk.injEq] at hr
        obtain ⟨ws, hq, rfl, rfl⟩ := hr
        exact ⟨ia, by simp [answer, hq]⟩
      · rw [if_neg hm] at hr
        cases h2 : getNormalForm g fuel sa with
        | none => rw [h2] at hr; cases hr
        | some p2 =>
          obtain ⟨sb, n⟩ := p2
          rw [h2] at hr
          simp only [Option.map_eq_some_iff, Prod.mk.injEq] at hr
          obtain ⟨ws, hq, rfl, rfl⟩ := hr
          exact ⟨(getNormalForm_spec g fuel sa sb n ia h2).1, by simp [answer, hq]⟩
  | isFinite =>
    simp only [step] at hr
    cases h2 : getNormalForm g fuel s with
    | none => rw [h2] at hr; cases hr
    | some p2 =>
      obtain ⟨sb, n⟩ := p2
      rw [h2] at hr
      simp only [Option.map_eq_some_iff, Prod.mk.injEq] at hr
      obtain ⟨b, hq, rfl, rfl⟩ := hr
      exact ⟨(getNormalForm_spec g fuel s sb n h h2).1, by simp [answer, hq]⟩

/-- **History independence.**  Whatever calls were issued before on the object, each call of a
history returns what the grammar alone determines: the list of outputs of any history is the list of
`answer`s, and the hidden state still satisfies the invariant. -/
theorem history_independent (g : CFG) (fuel : Nat) (ops : List Op) (s0 s : State) (outs : List Out)
    (h0 : Inv g fuel s0) (h : run g fuel s0 ops = some (s, outs)) :
    Inv g fuel s ∧ ops.map (answer g fuel) = outs.map some := by
  induction ops generalizing s0 outs with
  | nil =>
    simp only [run, Option.some.injEq, Prod.mk.injEq] at h
    obtain ⟨rfl, rfl⟩ := h
    exact ⟨h0, rfl⟩
  | cons op ops ih =>
    simp only [run] at h
    cases h1 : step g fuel s0 op with
    | none => rw [h1] at h; cases h
    | some p =>
      obtain ⟨s1, o⟩ := p
      rw [h1] at h
      simp only at h
      cases h2 : run g fuel s1 ops with
      | none => rw [h2] at h; cases h
      | some q =>
        obtain ⟨s2, os⟩ := q
        rw [h2] at h
        simp only [Option.some.injEq, Prod.mk.injEq] at h
        obtain ⟨rfl, rfl⟩ := h
        obtain ⟨i1, a1⟩ := step_spec g fuel s0 s1 op o h0 h1
        obtain ⟨i2, a2⟩ := ih s1 os i1 h2
        exact ⟨i2, by simp [a1, a2]⟩

/-- in particular from a fresh object, and the same call on another fresh object gives the same answer -/
theorem history_vs_fresh (g : CFG) (fuel : Nat) (pre : List Op) (op : Op) (s s' sf : State) (outs : List Out) (o o' : Out)
    (h : run g fuel {} pre = some (s, outs)) (hs : step g fuel s op = some (s', o))
    (hf : step g fuel {} op = some (sf, o')) : o = o' := by
  have i := (history_independent g fuel pre {} s outs (inv_fresh g fuel) h).1
  have a := (step_spec g fuel s s' op o i hs).2
  have a' := (step_spec g fuel {} sf op o' (inv_fresh g fuel) hf).2
  rw [a] at a'
  exact Option.some.inj a'

/-- the answers are the specified ones: the cached symbol sets are the generating / nullable symbols -/
theorem answer_generating (g : CFG) (hG : g.WF) (fuel : Nat) (l : List Sym)
    (h : answer g fuel .generating = some (.syms l)) (x : Sym) : x ∈ l ↔ x ∈ g.generating := by
  simp only [answer, counterAnswer, Option.map_eq_some_iff, Out.syms.injEq] at h
  obtain ⟨_, ⟨⟨f, r⟩, hc, rfl⟩, rfl⟩ := h
  exact genCounters_generating g hG fuel f r hc x

theorem answer_nullable (g : CFG) (fuel : Nat) (l : List Sym)
    (h : answer g fuel .nullable = some (.syms l)) (x : Sym) : x ∈ l ↔ x ∈ g.nullable := by
  simp only [answer, counterAnswer, Option.map_eq_some_iff, Out.syms.injEq] at h
  obtain ⟨_, ⟨⟨f, r⟩, hc, rfl⟩, rfl⟩ := h
  exact genCounters_nullable g fuel f r hc x

theorem answer_isEmpty (g : CFG) (hG : g.WF) (fuel : Nat) (b : Bool)
    (h : answer g fuel .isEmpty = some (.bool b)) : b = g.isEmpty := by
  simp only [answer, counterAnswer, Option.map_eq_some_iff, Out.bool.injEq] at h
  obtain ⟨_, ⟨⟨f, r⟩, hc, rfl⟩, rfl⟩ := h
  unfold isEmpty
  cases g.start with
  | none => rfl
  | some st =>
    simp only
    have := genCounters_generating g hG fuel f r hc (.var st)
    by_cases hm : Sym.var st ∈ f
    · simp [hm, this.mp hm]
    · have hn : Sym.var st ∉ g.generating := fun h' => hm (this.mpr h')
      simp [hm, hn]

theorem answer_contains (g : CFG) (fuel : Nat) (w : List String) (b : Bool)
    (h : answer g fuel (.contains w) = some (.bool b)) : g.contains w fuel = some b := by
  simp only [answer] at h
  unfold contains
  by_cases hw : w.isEmpty = true
  · rw [if_pos hw] at h ⊢
    simpa using h
  · rw [if_neg hw] at h ⊢
    simp only [Option.map_eq_some_iff, Out.bool.injEq] at h ⊢
    exact h

end Obj
end CFG
end Pfl

namespace Pfl.CFG.Obj
/-- non-vacuity: a history on a concrete grammar (S → a S b | ε) on which every call answers -/
def demoG : CFG := CFG.mk' [] [] (some "S") [("S", [.ter "a", .var "S", .ter "b"]), ("S", [])]
example : (run demoG 30 {} [.generating, .contains ["a", "b"], .nullable, .isEmpty, .getWords (some 2),
    .generating, .normalForm, .isFinite, .removeEpsilon, .generateEpsilon]).isSome = true := by decide +kernel
end Pfl.CFG.Obj
