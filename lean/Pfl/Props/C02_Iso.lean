/-
C02 — the lock-step walk `_is_equivalent_to_minimal` decides language equality on minimised
automata; the isomorphism oracle is sound.
-/
import Pfl.Props.C02_Min
import Pfl.Proofs.FAIso
namespace Pfl
namespace ENFA
variable {σ τ : Type} [DecidableEq σ] [DecidableEq τ]

/-- if the walk answers `True` the two deterministic automata accept the same words
(no minimality needed for this direction) -/
theorem isoWalk_true (M1 : ENFA σ) (M2 : ENFA τ) (h1 : M1.Deterministic) (e1 : M1.EpsFree)
    (h2 : M2.Deterministic) (e2 : M2.EpsFree) (fuel : Nat)
    (h : M1.isoWalk M2 fuel = some true) : ∀ w, M1.Lang w ↔ M2.Lang w := by
  unfold isoWalk at h
  split at h
  · rename_i s1 s2 hs1 hs2
    obtain ⟨S, hS1, hS2⟩ := isoWalkLoop_true M1 M2 fuel _ _ h
    have hS : ∀ x ∈ S, Checked M1 M2 S x := by
      intro x hx
      rcases hS2 x hx with ⟨h', h''⟩ | h'
      · exact absurd h' h''
      · exact h'
    intro w
    rw [h1.lang_iff_head hs1, h2.lang_iff_head hs2]
    exact checked_bisim M1 M2 e1 e2 S hS w s1 s2 (hS1 _ (by simp))
  · cases h

/-- every edge leads to a state that can reach a final state -/
def Trim (M : ENFA σ) : Prop := ∀ t ∈ M.delta, ∃ w, ∃ f ∈ M.finals, M.Run t.2.2 w f

set_option linter.unusedVariables false in
/-- if the walk answers `False` on two trim, reduced deterministic automata, some word
separates them -/
theorem isoWalk_false (M1 : ENFA σ) (M2 : ENFA τ) (w1 : M1.WF) (w2 : M2.WF)
    (h1 : M1.Deterministic) (e1 : M1.EpsFree) (h2 : M2.Deterministic) (e2 : M2.EpsFree)
    (t1 : M1.Trim) (t2 : M2.Trim) (r2 : M2.Reduced) (fuel : Nat)
    (h : M1.isoWalk M2 fuel = some false) : ¬ ∀ w, M1.Lang w ↔ M2.Lang w := by
  intro heq
  unfold isoWalk at h
  split at h
  · rename_i s1 s2 hs1 hs2
    have hstart : CoR M1 M2 s1 s2 (s1, s2) := ⟨[], Run.nil s1, Run.nil s2⟩
    refine isoWalkLoop_false M1 M2 w2 h1 e1 h2 e2 t1 t2 r2 s1 s2 hs1 hs2 heq fuel _ _ h ?_ ?_
    · intro x hx
      rw [List.mem_singleton.mp hx]; exact hstart
    · intro x hx
      rw [List.mem_singleton.mp hx]; exact hstart
  · cases h

set_option linter.unusedVariables false in
theorem minimizeOf_trim {κ : Type} [DecidableEq κ] (A : ENFA σ) (hA : A.WF) (hd : A.Deterministic)
    (he : A.EpsFree) (gs : List (List (Option σ))) (hgs : A.IsNerodePartition gs)
    (key : List (Option σ) → κ) (hkey : ∀ g ∈ gs, ∀ g' ∈ gs, key g = key g' → g = g')
    (emptyKey : κ) : (A.minimizeOf gs key emptyKey).Trim :=
  minimizeOf_trim_aux A hA he gs
    (fun q hq => (hgs.cover (some q)).mpr (Or.inr ⟨q, hq, rfl⟩)) key emptyKey

/-- `is_equivalent_to` on two DFAs (minimise both, then walk): whenever it answers, the
answer is language equality -/
theorem isEquivalent_exact {κ κ' : Type} [DecidableEq κ] [DecidableEq κ']
    (A : ENFA σ) (B : ENFA τ) (hA : A.WF) (hB : B.WF)
    (dA : A.Deterministic) (eA : A.EpsFree) (dB : B.Deterministic) (eB : B.EpsFree)
    (gA : List (List (Option σ))) (gB : List (List (Option τ)))
    (hgA : A.IsNerodePartition gA) (hgB : B.IsNerodePartition gB)
    (keyA : List (Option σ) → κ) (keyB : List (Option τ) → κ')
    (hkA : ∀ g ∈ gA, ∀ g' ∈ gA, keyA g = keyA g' → g = g')
    (hkB : ∀ g ∈ gB, ∀ g' ∈ gB, keyB g = keyB g' → g = g') (eA' : κ) (eB' : κ') (fuel : Nat)
    (b : Bool) (h : (A.minimizeOf gA keyA eA').isoWalk (B.minimizeOf gB keyB eB') fuel = some b) :
    b = true ↔ ∀ w, A.Lang w ↔ B.Lang w := by
  obtain ⟨dA', eA'', wA'⟩ := minimizeOf_shape A hA dA eA gA hgA keyA hkA eA'
  obtain ⟨dB', eB'', wB'⟩ := minimizeOf_shape B hB dB eB gB hgB keyB hkB eB'
  have lA := minimizeOf_lang A hA dA eA gA hgA keyA hkA eA'
  have lB := minimizeOf_lang B hB dB eB gB hgB keyB hkB eB'
  cases b with
  | true =>
    have := isoWalk_true _ _ dA' eA'' dB' eB'' fuel h
    simp only [true_iff]
    intro w
    rw [← lA, ← lB]; exact this w
  | false =>
    have := isoWalk_false _ _ wA' wB' dA' eA'' dB' eB''
      (minimizeOf_trim A hA dA eA gA hgA keyA hkA eA')
      (minimizeOf_trim B hB dB eB gB hgB keyB hkB eB')
      (minimizeOf_reduced B hB dB eB gB hgB keyB hkB eB') fuel h
    simp only [Bool.false_eq_true, false_iff]
    intro hall
    apply this
    intro w
    rw [lA, lB]; exact hall w

/-- the graph `m` of a bijection between the states respecting starts, finals and edges -/
def IsIso (M1 : ENFA σ) (M2 : ENFA τ) (m : List (σ × τ)) : Prop :=
  (∀ p ∈ M1.states, ∃ q, (p, q) ∈ m ∧ ∀ q', (p, q') ∈ m → q' = q) ∧
  (∀ q ∈ M2.states, ∃ p, (p, q) ∈ m ∧ ∀ p', (p', q) ∈ m → p' = p) ∧
  (∀ pq ∈ m, pq.1 ∈ M1.states ∧ pq.2 ∈ M2.states) ∧
  (∀ pq ∈ m, (pq.1 ∈ M1.starts ↔ pq.2 ∈ M2.starts) ∧ (pq.1 ∈ M1.finals ↔ pq.2 ∈ M2.finals)) ∧
  (∀ pq ∈ m, ∀ pq' ∈ m, ∀ a ∈ M1.syms ++ M2.syms,
    ((pq.1, some a, pq'.1) ∈ M1.delta ↔ (pq.2, some a, pq'.2) ∈ M2.delta))

theorem checkIso_iff (M1 : ENFA σ) (M2 : ENFA τ) (m : List (σ × τ)) :
    M1.checkIso M2 m = true ↔ M1.IsIso M2 m := by
  unfold checkIso IsIso
  simp only [Bool.and_eq_true, List.all_eq_true, decide_eq_true_eq, beq_iff_eq, decide_eq_decide,
    FAIso.filter_fst_unique, FAIso.filter_snd_unique]
  constructor
  · rintro ⟨⟨⟨⟨⟨a, b⟩, c⟩, d⟩, e⟩, f⟩
    exact ⟨a, b, c, fun pq h => ⟨d pq h, e pq h⟩, f⟩
  · rintro ⟨a, b, c, d, f⟩
    exact ⟨⟨⟨⟨⟨a, b⟩, c⟩, fun pq h => (d pq h).1⟩, fun pq h => (d pq h).2⟩, f⟩

set_option linter.unusedSectionVars false in
/-- isomorphic automata accept the same words -/
theorem isIso_lang (M1 : ENFA σ) (M2 : ENFA τ) (w1 : M1.WF) (w2 : M2.WF) (e1 : M1.EpsFree)
    (e2 : M2.EpsFree) (m : List (σ × τ)) (h : M1.IsIso M2 m) (w : List Nat) :
    M1.Lang w ↔ M2.Lang w := by
  obtain ⟨ha, hb, hc, hd, he⟩ := h
  constructor
  · rintro ⟨s, hs, f, hf, hr⟩
    obtain ⟨q, hq, _⟩ := ha s (w1.starts_sub s hs)
    obtain ⟨f', hf', hrun⟩ := Run.transport w1 e1 (fun p q => (p, q) ∈ m)
      (fun p hp => (ha p hp).imp fun q hq => hq.1)
      (fun p q p' q' a h1 h2 hedge => (he (p, q) h1 (p', q') h2 a
        (List.mem_append_left _ (w1.delta_sym _ hedge a rfl))).mp hedge) hr q hq
    exact ⟨q, (hd _ hq).1.mp hs, f', (hd _ hf').2.mp hf, hrun⟩
  · rintro ⟨s, hs, f, hf, hr⟩
    obtain ⟨p, hp, _⟩ := hb s (w2.starts_sub s hs)
    obtain ⟨f', hf', hrun⟩ := Run.transport w2 e2 (fun q p => (p, q) ∈ m)
      (fun q hq => (hb q hq).imp fun p hp => hp.1)
      (fun q p q' p' a h1 h2 hedge => (he (p, q) h1 (p', q') h2 a
        (List.mem_append_right _ (w2.delta_sym _ hedge a rfl))).mpr hedge) hr p hp
    exact ⟨p, (hd _ hp).1.mpr hs, f', (hd _ hf').2.mpr hf, hrun⟩

end ENFA
end Pfl
