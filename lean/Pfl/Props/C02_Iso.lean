/-
C02 — the lock-step walk `_is_equivalent_to_minimal` decides language equality on minimised
automata; the isomorphism oracle is sound.
-/
import Pfl.Props.C02_Min
namespace Pfl
namespace ENFA
variable {σ τ : Type} [DecidableEq σ] [DecidableEq τ]

/-- if the walk answers `True` the two deterministic automata accept the same words
(no minimality needed for this direction) -/
theorem isoWalk_true (M1 : ENFA σ) (M2 : ENFA τ) (h1 : M1.Deterministic) (e1 : M1.EpsFree)
    (h2 : M2.Deterministic) (e2 : M2.EpsFree) (fuel : Nat)
    (h : M1.isoWalk M2 fuel = some true) : ∀ w, M1.Lang w ↔ M2.Lang w := by
  sorry

/-- every edge leads to a state that can reach a final state -/
def Trim (M : ENFA σ) : Prop := ∀ t ∈ M.delta, ∃ w, ∃ f ∈ M.finals, M.Run t.2.2 w f

/-- if the walk answers `False` on two trim, reduced deterministic automata, some word
separates them -/
theorem isoWalk_false (M1 : ENFA σ) (M2 : ENFA τ) (w1 : M1.WF) (w2 : M2.WF)
    (h1 : M1.Deterministic) (e1 : M1.EpsFree) (h2 : M2.Deterministic) (e2 : M2.EpsFree)
    (t1 : M1.Trim) (t2 : M2.Trim) (r2 : M2.Reduced) (fuel : Nat)
    (h : M1.isoWalk M2 fuel = some false) : ¬ ∀ w, M1.Lang w ↔ M2.Lang w := by
  sorry

theorem minimizeOf_trim {κ : Type} [DecidableEq κ] (A : ENFA σ) (hA : A.WF) (hd : A.Deterministic)
    (he : A.EpsFree) (gs : List (List (Option σ))) (hgs : A.IsNerodePartition gs)
    (key : List (Option σ) → κ) (hkey : ∀ g ∈ gs, ∀ g' ∈ gs, key g = key g' → g = g')
    (emptyKey : κ) : (A.minimizeOf gs key emptyKey).Trim := by
  sorry

/-- `is_equivalent_to` on two DFAs (minimise both, then walk): whenever it answers, the
answer is language equality -/
theorem isEquivalent_exact {κ κ' : Type} [DecidableEq κ] [DecidableEq κ']
    (A : ENFA σ) (B : ENFA τ) (hA : A.WF) (hB : B.WF)
    (dA : A.Deterministic) (eA : A.EpsFree) (dB : B.Deterministic) (eB : B.EpsFree)
    (gA : List (List (Option σ))) (gB : List (List (Option τ)))
    (hgA : A.IsNerodePartition gA) (hgB : B.IsNerodePartition gB)
    (keyA : List (Option σ) → κ) (keyB : List (Option τ) → κ')
    (hkA : ∀ g ∈ gA, ∀ g' ∈ gA, keyA g = keyA g' → g = g')
    (hkB : ∀ g ∈ gB, ∀ g' ∈ gB, keyB g = keyB g' → g = g') (eA' : κ) (eB' : κ') (fuel : Nat)
    (b : Bool) (h : (A.minimizeOf gA keyA eA').isoWalk (B.minimizeOf gB keyB eB') fuel = some b) :
    b = true ↔ ∀ w, A.Lang w ↔ B.Lang w := by
  sorry

/-- the graph `m` of a bijection between the states respecting starts, finals and edges -/
def IsIso (M1 : ENFA σ) (M2 : ENFA τ) (m : List (σ × τ)) : Prop :=
  (∀ p ∈ M1.states, ∃ q, (p, q) ∈ m ∧ ∀ q', (p, q') ∈ m → q' = q) ∧
  (∀ q ∈ M2.states, ∃ p, (p, q) ∈ m ∧ ∀ p', (p', q) ∈ m → p' = p) ∧
  (∀ pq ∈ m, pq.1 ∈ M1.states ∧ pq.2 ∈ M2.states) ∧
  (∀ pq ∈ m, (pq.1 ∈ M1.starts ↔ pq.2 ∈ M2.starts) ∧ (pq.1 ∈ M1.finals ↔ pq.2 ∈ M2.finals)) ∧
  (∀ pq ∈ m, ∀ pq' ∈ m, ∀ a ∈ M1.syms ++ M2.syms,
    ((pq.1, some a, pq'.1) ∈ M1.delta ↔ (pq.2, some a, pq'.2) ∈ M2.delta))

theorem checkIso_iff (M1 : ENFA σ) (M2 : ENFA τ) (m : List (σ × τ)) :
    M1.checkIso M2 m = true ↔ M1.IsIso M2 m := by
  sorry

/-- isomorphic automata accept the same words -/
theorem isIso_lang (M1 : ENFA σ) (M2 : ENFA τ) (w1 : M1.WF) (w2 : M2.WF) (e1 : M1.EpsFree)
    (e2 : M2.EpsFree) (m : List (σ × τ)) (h : M1.IsIso M2 m) (w : List Nat) :
    M1.Lang w ↔ M2.Lang w := by
  sorry

end ENFA
end Pfl
