/-
C14 — the library's own LL(1) machinery (trigger-driven worklists of `get_first_set` /
`get_follow_set`, `get_llone_parsing_table`, `is_llone_parsable`, the stack machine of
`get_llone_parse_tree`; step-faithful model `Pfl/Model/LL1Lib.lean`) computes the textbook sets and
only returns valid parse trees.
-/
import Pfl.Model.LL1Lib
import Pfl.Props.C14_LL1
import Pfl.Proofs.LL1LibFirst
import Pfl.Proofs.LL1LibParse
import Pfl.Proofs.LL1LibFollow
namespace Pfl
namespace LL1Lib
open CFG Lem

/-- FIRST of a variable, as the worklist leaves it: exactly the terminals that can begin a word
of the variable, `Epsilon` exactly when the variable is nullable, never the end marker -/
theorem firstSet_spec (G : CFG) (hg : G.AllGenerating) (hG : G.WF) (fuel : Nat)
    (F : SetMap Sym Look) (h : firstSet G fuel = some F) (v : String) (hv : v ∈ G.vars) :
    (∀ t, Look.ter t ∈ getD F (.var v) ↔ ∃ w, G.Gen (.var v) (t :: w)) ∧
    (Look.eps ∈ getD F (.var v) ↔ G.Gen (.var v) []) ∧
    Look.eof ∉ getD F (.var v) :=
  firstSet_sem G (fun p hp => (hg p hp).2) hG fuel F h (.var v) (fun t e => by cases e)

/-- FIRST of a terminal is the terminal -/
theorem firstSet_ter (G : CFG) (hG : G.WF) (fuel : Nat)
    (F : SetMap Sym Look) (h : firstSet G fuel = some F) (t : String) (ht : t ∈ G.ters) :
    getD F (.ter t) = [Look.ter t] :=
  firstSet_ters G fuel F h t ht

/-- FOLLOW of a variable, as the worklist leaves it, is the reference FOLLOW (hence, by
`mem_followSets_iff`, the textbook set when every head is reachable) -/
theorem followSet_spec (G : CFG) (hg : G.AllGenerating) (hG : G.WF) (fuel : Nat)
    (Fo : SetMap (Option Sym) Look) (h : followSet G fuel = some Fo) (v : String) (hv : v ∈ G.vars) :
    (∀ t, Look.ter t ∈ getD Fo (some (.var v)) ↔ (v, some t) ∈ G.followSets) ∧
    (Look.eof ∈ getD Fo (some (.var v)) ↔ (v, none) ∈ G.followSets) ∧
    Look.eps ∉ getD Fo (some (.var v)) := by
  have h' := followSet_spec' G (fun p hp => (hg p hp).2) hG fuel Fo h v
  exact ⟨fun t => h'.1 (some t), h'.1 none, h'.2⟩

/-- the table holds production `p` in column `a` of row `p.1` exactly when `a` is in the
predict set of `p` -/
theorem table_spec (G : CFG) (hg : G.AllGenerating) (hG : G.WF) (fuel : Nat)
    (tb : List (String × Look × Prod)) (h : table G fuel = some tb) (hd : String) (a : Look) (p : Prod) :
    (hd, a, p) ∈ tb ↔ p ∈ G.prods ∧ hd = p.1 ∧
      (match a with
       | .ter t => some t ∈ G.predict p
       | .eof => none ∈ G.predict p
       | .eps => False) := by
  obtain ⟨F, Fo, hF, hFo, rfl⟩ := table_eq G fuel tb h
  rw [tableOf_spec G (fun p hp => (hg p hp).2) hG fuel F Fo hF hFo]
  cases a <;> exact Iff.rfl

/-- `is_llone_parsable` decides the LL(1) condition -/
theorem isLLOne_iff (G : CFG) (hg : G.AllGenerating) (hG : G.WF) (hnd : G.prods.Nodup) (fuel : Nat)
    (b : Bool) (h : isLLOne G fuel = some b) : b = G.isLL1 :=
  isLLOne_iff' G (fun p hp => (hg p hp).2) hG hnd fuel b h

/-- whatever tree the stack machine returns is a parse tree of the word -/
theorem parse_valid (G : CFG) (w : List String) (fuel : Nat) (t : PTree)
    (h : parse G w fuel = some (some t)) : G.treeValid t w = true :=
  parse_valid' G w fuel t h

end LL1Lib
end Pfl
