/-
C15 — the parse-tree side of the FCFG Earley parser: the tree handed out by `get_parse_tree` is a parse tree
of the word in the context-free skeleton of the grammar, whatever the order of the productions, and a tree is
handed out exactly when the recogniser accepts (so, by `earley_exact`, exactly for the members of the
instantiated grammar).
-/
import Pfl.Model.EarleyTree
import Pfl.Props.C18_EarleyComplete
import Pfl.Props.C15_Trees
import Pfl.Proofs.EarleyTreeSim
import Pfl.Proofs.EarleyTreeInv
import Pfl.Proofs.EarleyTreeNV
namespace Pfl
namespace Earley
open FsDag

/-- the tree-carrying run is the recogniser's run with trees attached: a tree is returned iff the recogniser
says yes, and the run ends (fuel) in the same cases -/
theorem parseTree_isSome (G : Grammar) (st0 : Store) (word : List String) (fuel : Nat) :
    (parseTree G st0 word fuel).map (·.isSome) = contains G st0 word fuel :=
  Tr.parseTree_isSome' G st0 word fuel

/-- every tree handed out is a parse tree of the word in the skeleton grammar -/
theorem parseTree_valid (G : Grammar) (st0 : Store) (word : List String) (fuel : Nat) (t : PTree)
    (hG : G.gammaName ∉ grammarVars G.prods G.start)
    (h : parseTree G st0 word fuel = some (some t)) :
    (skeleton G).treeValid t word = true :=
  Tr.parseTree_valid' G st0 word fuel t hG h

/-- the same for grammars given as the harness gives them -/
theorem parseTreeSpec_valid (spec : List ((String × Feat) × List (Sym × Feat))) (word : List String)
    (fuel : Nat) (t : PTree) (h : parseTreeSpec spec "S" word fuel = some (some t)) :
    (skeleton (buildGrammar spec "S").2).treeValid t word = true := by
  obtain ⟨hstart, _, _, _, hgn, _⟩ := Lem.build_spec spec "S"
  refine parseTree_valid (buildGrammar spec "S").2 (buildGrammar spec "S").1 word fuel t ?_ h
  rw [hgn, hstart]
  exact Glue.freshGamma_not_mem _

theorem parseTreeSpec_isSome (spec : List ((String × Feat) × List (Sym × Feat))) (word : List String) (fuel : Nat) :
    (parseTreeSpec spec "S" word fuel).map (·.isSome) = containsSpec spec "S" word fuel :=
  parseTree_isSome (buildGrammar spec "S").2 (buildGrammar spec "S").1 word fuel

/-! ### non-vacuity

`FsDag.unify` is compiled by well-founded recursion and does not reduce in the kernel, so the run is first
rewritten to its kernel-reducible copy (`Tr.NV.parseTreeSpec_eq_K`) and then decided by the kernel.
(`#eval parseTreeSpec nvSpec "S" ["a", "b"] 20` gives `S(A(a), b)`, `["b"]` gives `S(A(), b)`.) -/

/-- `S → A b`, `A → a | ε` -/
def nvSpec : List ((String × Feat) × List (Sym × Feat)) :=
  [(("S", none), [(Sym.var "A", none), (Sym.ter "b", none)]), (("A", none), [(Sym.ter "a", none)]),
    (("A", none), [])]

/-- a tree is handed out for `a b` and for `b` (through the ε-rule), none for `a` -/
example : (parseTreeSpec nvSpec "S" ["a", "b"] 20).map (·.isSome) = some true ∧
    (parseTreeSpec nvSpec "S" ["b"] 20).map (·.isSome) = some true ∧
    (parseTreeSpec nvSpec "S" ["a"] 20).map (·.isSome) = some false := by
  simp only [Tr.NV.parseTreeSpec_eq_K]
  decide +kernel

/-- the hypothesis of `parseTreeSpec_valid` is satisfiable, and its conclusion then holds -/
example : ∃ t, parseTreeSpec nvSpec "S" ["a", "b"] 20 = some (some t) ∧
    (skeleton (buildGrammar nvSpec "S").2).treeValid t ["a", "b"] = true := by
  have h : (parseTreeSpec nvSpec "S" ["a", "b"] 20).map (·.isSome) = some true := by
    rw [Tr.NV.parseTreeSpec_eq_K]; decide +kernel
  cases hp : parseTreeSpec nvSpec "S" ["a", "b"] 20 with
  | none => rw [hp] at h; simp at h
  | some o =>
    cases o with
    | none => rw [hp] at h; simp at h
    | some t => exact ⟨t, rfl, parseTreeSpec_valid nvSpec ["a", "b"] 20 t hp⟩

end Earley
end Pfl
