/-
C09 / C08 — Chomsky normal form keeps the language (minus the empty word) and has the
promised shape; CYK on a normal form and `contains` are exact.
-/
import Pfl.Props.C09_Clean
namespace Pfl
namespace CFG

/-- whenever `to_normal_form` returns, the result generates the same non-empty words -/
theorem toNormalForm_lang (G : CFG) (hG : G.WF) (fuel : Nat) (N : CFG)
    (h : G.toNormalForm fuel = some N) (w : List String) :
    N.Lang w ↔ G.Lang w ∧ w ≠ [] := by
  sorry

/-- and consists of productions of the two Chomsky forms only -/
theorem toNormalForm_isNormalForm (G : CFG) (fuel : Nat) (N : CFG)
    (h : G.toNormalForm fuel = some N) : N.isNormalForm = true := by
  sorry

/-- CYK on a grammar in normal form decides membership of non-empty words -/
theorem cyk_iff (N : CFG) (hN : N.isNormalForm = true) (w : List String) (hw : w ≠ []) :
    N.cyk w = true ↔ N.Lang w := by
  sorry

/-- `contains`: whenever it answers, the answer is derivability (the empty word included) -/
theorem contains_iff (G : CFG) (hG : G.WF) (w : List String) (fuel : Nat) (b : Bool)
    (h : G.contains w fuel = some b) : b = true ↔ G.Lang w := by
  sorry

end CFG
end Pfl
