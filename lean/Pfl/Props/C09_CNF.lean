/-
C09 / C08 — Chomsky normal form keeps the language (minus the empty word) and has the
promised shape; CYK on a normal form and `contains` are exact.
-/
import Pfl.Props.C09_Clean
import Pfl.Proofs.CFGCNF
namespace Pfl
namespace CFG

/-- whenever `to_normal_form` returns, the result generates the same non-empty words -/
theorem toNormalForm_lang (G : CFG) (hG : G.WF) (fuel : Nat) (N : CFG)
    (h : G.toNormalForm fuel = some N) (w : List String) :
    N.Lang w ↔ G.Lang w ∧ w ≠ [] :=
  toNormalForm_lang_aux fuel G hG N h w

/-- and consists of productions of the two Chomsky forms only (well-formedness is needed:
terminals that are not registered in `G.ters` are never lifted) -/
theorem toNormalForm_isNormalForm (G : CFG) (hG : G.WF) (fuel : Nat) (N : CFG)
    (h : G.toNormalForm fuel = some N) : N.isNormalForm = true :=
  toNormalForm_isNormalForm_wf fuel G hG N h

/-- CYK on a grammar in normal form decides membership of non-empty words -/
theorem cyk_iff (N : CFG) (hN : N.isNormalForm = true) (w : List String) (hw : w ≠ []) :
    N.cyk w = true ↔ N.Lang w := by
  rw [cyk_iff_gen N hN w hw, lang_iff_gen]

/-- `contains`: whenever it answers, the answer is derivability (the empty word included) -/
theorem contains_iff (G : CFG) (hG : G.WF) (w : List String) (fuel : Nat) (b : Bool)
    (h : G.contains w fuel = some b) : b = true ↔ G.Lang w := by
  unfold contains at h
  by_cases hw : w = []
  · subst hw
    simp only [List.isEmpty_nil, if_true, Option.some.injEq] at h
    subst h
    exact generateEpsilon_iff G
  · have he : w.isEmpty = false := by simpa using hw
    rw [he] at h
    simp only [Bool.false_eq_true, if_false, Option.map_eq_some_iff] at h
    obtain ⟨N, hN, rfl⟩ := h
    rw [cyk_iff N (toNormalForm_isNormalForm G hG fuel N hN) w hw,
      toNormalForm_lang G hG fuel N hN w]
    exact ⟨fun h => h.1, fun h => ⟨h, hw⟩⟩

end CFG
end Pfl
