/-
C04 — emptiness and determinism tests are exact; the language-equivalence oracle is exact.
-/
import Pfl.Proofs.FABase
import Pfl.Oracle.LangEquiv
import Pfl.Proofs.FAOracle
namespace Pfl
namespace ENFA
variable {σ τ : Type} [DecidableEq σ] [DecidableEq τ]

/-- the oracle: `some none` exactly when the languages coincide -/
theorem langDiff_none_iff (A : ENFA σ) (B : ENFA τ) (hA : A.WF) (hB : B.WF) (fuel : Nat)
    (r : Option (List Nat)) (h : A.langDiff B fuel = some r) :
    r = none ↔ ∀ w, A.Lang w ↔ B.Lang w := by
  rw [langDiff_eq] at h
  obtain ⟨res, hres, hr⟩ := Option.map_eq_some_iff.mp h
  have hsound := diffSeen_sound A B fuel res hres
  have hcompl := diffSeen_complete A B fuel res hres
  subst hr
  simp only [Option.map_eq_none_iff, List.find?_eq_none, bne_iff_ne, ne_eq, Decidable.not_not]
  constructor
  · intro hall w
    by_cases hw : ∀ a ∈ w, a ∈ allSyms A B
    · obtain ⟨m, hm, hmk⟩ := hcompl w hw
      have := hall m hm
      rw [hmk] at this
      rw [← hasFinal_foldl A hA, ← hasFinal_foldl B hB, this]
    · exact ⟨fun h => absurd (lang_allSyms_left A B h) hw,
        fun h => absurd (lang_allSyms_right A B h) hw⟩
  · intro hall n hn
    obtain ⟨h1, h2⟩ := hsound n hn
    have := hall n.2
    rw [← hasFinal_foldl A hA, ← hasFinal_foldl B hB, ← h1, ← h2] at this
    exact Bool.eq_iff_iff.mpr this

/-- a returned word really distinguishes the two languages -/
theorem langDiff_some (A : ENFA σ) (B : ENFA τ) (hA : A.WF) (hB : B.WF) (fuel : Nat)
    (w : List Nat) (h : A.langDiff B fuel = some (some w)) : ¬ (A.Lang w ↔ B.Lang w) := by
  rw [langDiff_eq] at h
  obtain ⟨res, hres, hr⟩ := Option.map_eq_some_iff.mp h
  obtain ⟨n, hfind, hn2⟩ := Option.map_eq_some_iff.mp hr
  have hn : n ∈ res := List.mem_of_find?_eq_some hfind
  have hp := List.find?_some hfind
  obtain ⟨h1, h2⟩ := diffSeen_sound A B fuel res hres n hn
  subst hn2
  rw [← hasFinal_foldl A hA, ← hasFinal_foldl B hB, ← h1, ← h2]
  intro hiff
  have := Bool.eq_iff_iff.mpr hiff
  simp [this] at hp

theorem member_iff (A : ENFA σ) (w : List Nat) : A.member w = true ↔ A.Lang w := by
  have h := acceptsE_iff_lang A (w.map some)
  have hw : (w.map some).filterMap id = w := by simp
  rw [hw] at h
  exact h

end ENFA
end Pfl
