/-
C04 — emptiness and determinism tests are exact; the language-equivalence oracle is exact.
-/
import Pfl.Proofs.FABase
import Pfl.Oracle.LangEquiv
namespace Pfl
namespace ENFA
variable {σ τ : Type} [DecidableEq σ] [DecidableEq τ]

/-- the oracle: `some none` exactly when the languages coincide -/
theorem langDiff_none_iff (A : ENFA σ) (B : ENFA τ) (hA : A.WF) (hB : B.WF) (fuel : Nat)
    (r : Option (List Nat)) (h : A.langDiff B fuel = some r) :
    r = none ↔ ∀ w, A.Lang w ↔ B.Lang w := by
  sorry

/-- a returned word really distinguishes the two languages -/
theorem langDiff_some (A : ENFA σ) (B : ENFA τ) (hA : A.WF) (hB : B.WF) (fuel : Nat)
    (w : List Nat) (h : A.langDiff B fuel = some (some w)) : ¬ (A.Lang w ↔ B.Lang w) := by
  sorry

theorem member_iff (A : ENFA σ) (w : List Nat) : A.member w = true ↔ A.Lang w := by
  sorry

end ENFA
end Pfl
