/-
C02 — the Nerode oracle is exact; the quotient built by `minimize` keeps the language, is
deterministic and reduced.
-/
import Pfl.Model.Minimize
import Pfl.Props.C04_Oracle
import Pfl.Props.C04_Words
namespace Pfl
namespace ENFA
variable {σ κ : Type} [DecidableEq σ] [DecidableEq κ]

/-- right language of a state; `none` is the implicit trash state -/
def RightLang (A : ENFA σ) : Option σ → List Nat → Prop
  | none, _ => False
  | some p, w => ∃ f ∈ A.finals, A.Run p w f

/-- Nerode equivalence of two states -/
def Nerode (A : ENFA σ) (p q : Option σ) : Prop := ∀ w, A.RightLang p w ↔ A.RightLang q w

theorem sameRight_iff (A : ENFA σ) (hA : A.WF) (fuel : Nat) (p q : Option σ)
    (hp : ∀ x, p = some x → x ∈ A.states) (hq : ∀ x, q = some x → x ∈ A.states) (b : Bool)
    (h : A.sameRight fuel p q = some b) : b = true ↔ A.Nerode p q := by
  sorry

/-- `gs` lists the Nerode classes of `none :: states` -/
structure IsNerodePartition (A : ENFA σ) (gs : List (List (Option σ))) : Prop where
  cover : ∀ x, (∃ g ∈ gs, x ∈ g) ↔ (x = none ∨ ∃ q ∈ A.states, x = some q)
  same : ∀ g ∈ gs, ∀ x ∈ g, ∀ y ∈ g, A.Nerode x y
  sep : ∀ g ∈ gs, ∀ g' ∈ gs, ∀ x ∈ g, ∀ y ∈ g', A.Nerode x y → g = g'

theorem nerodeGroups_spec (A : ENFA σ) (hA : A.WF) (fuel : Nat) (gs : List (List (Option σ)))
    (h : A.nerodeGroups fuel = some gs) : A.IsNerodePartition gs := by
  sorry

/-- the quotient by the Nerode partition (restricted to reachable, co-reachable states) keeps
the language, for any injective naming of the blocks -/
theorem minimizeOf_lang (A : ENFA σ) (hA : A.WF) (hd : A.Deterministic) (he : A.EpsFree)
    (gs : List (List (Option σ))) (hgs : A.IsNerodePartition gs) (key : List (Option σ) → κ)
    (hkey : ∀ g ∈ gs, ∀ g' ∈ gs, key g = key g' → g = g') (emptyKey : κ) (w : List Nat) :
    (A.minimizeOf gs key emptyKey).Lang w ↔ A.Lang w := by
  sorry

theorem minimizeOf_shape (A : ENFA σ) (hA : A.WF) (hd : A.Deterministic) (he : A.EpsFree)
    (gs : List (List (Option σ))) (hgs : A.IsNerodePartition gs) (key : List (Option σ) → κ)
    (hkey : ∀ g ∈ gs, ∀ g' ∈ gs, key g = key g' → g = g') (emptyKey : κ) :
    (A.minimizeOf gs key emptyKey).Deterministic ∧ (A.minimizeOf gs key emptyKey).EpsFree ∧
    (A.minimizeOf gs key emptyKey).WF := by
  sorry

/-- every state reachable, any two different states distinguishable -/
def Reduced (M : ENFA κ) : Prop :=
  (∀ k ∈ M.states, ∃ s ∈ M.starts, ∃ w, M.Run s w k) ∧
  (∀ k ∈ M.states, ∀ k' ∈ M.states, M.Nerode (some k) (some k') → k = k')

theorem minimizeOf_reduced (A : ENFA σ) (hA : A.WF) (hd : A.Deterministic) (he : A.EpsFree)
    (gs : List (List (Option σ))) (hgs : A.IsNerodePartition gs) (key : List (Option σ) → κ)
    (hkey : ∀ g ∈ gs, ∀ g' ∈ gs, key g = key g' → g = g') (emptyKey : κ) :
    (A.minimizeOf gs key emptyKey).Reduced := by
  sorry

/-- the reducedness oracle decides `Reduced` -/
theorem isReduced_iff (M : ENFA σ) (hM : M.WF) (fuel : Nat) (b : Bool)
    (h : M.isReduced fuel = some b) : b = true ↔ M.Reduced := by
  sorry

end ENFA
end Pfl
