/-
C02 — the Nerode oracle is exact; the quotient built by `minimize` keeps the language, is
deterministic and reduced.

The spec vocabulary (`RightLang`, `Nerode`, `IsNerodePartition`, `Reduced`) is defined in
`Pfl/Proofs/FAMin.lean` (same names and meaning), next to the helper lemmas.
-/
import Pfl.Model.Minimize
import Pfl.Props.C04_Oracle
import Pfl.Props.C04_Words
import Pfl.Proofs.FAMin
namespace Pfl
namespace ENFA
variable {σ κ : Type} [DecidableEq σ] [DecidableEq κ]

theorem sameRight_iff (A : ENFA σ) (hA : A.WF) (fuel : Nat) (p q : Option σ)
    (hp : ∀ x, p = some x → x ∈ A.states) (hq : ∀ x, q = some x → x ∈ A.states) (b : Bool)
    (h : A.sameRight fuel p q = some b) : b = true ↔ A.Nerode p q :=
  sameRight_iff' A hA fuel p q hp hq b h

theorem nerodeGroups_spec (A : ENFA σ) (hA : A.WF) (fuel : Nat) (gs : List (List (Option σ)))
    (h : A.nerodeGroups fuel = some gs) : A.IsNerodePartition gs :=
  nerodeGroups_spec' A hA fuel gs h

/-- the quotient by the Nerode partition (restricted to reachable, co-reachable states) keeps
the language, for any injective naming of the blocks -/
theorem minimizeOf_lang (A : ENFA σ) (hA : A.WF) (hd : A.Deterministic) (he : A.EpsFree)
    (gs : List (List (Option σ))) (hgs : A.IsNerodePartition gs) (key : List (Option σ) → κ)
    (hkey : ∀ g ∈ gs, ∀ g' ∈ gs, key g = key g' → g = g') (emptyKey : κ) (w : List Nat) :
    (A.minimizeOf gs key emptyKey).Lang w ↔ A.Lang w := by
  rcases minimizeOf_cases A hA hd gs key emptyKey with ⟨h, hemp⟩ | ⟨h, hst⟩
  · rw [h]
    exact ⟨fun hl => absurd hl (emptyAut_lang emptyKey w), fun hl => absurd hl (hemp w)⟩
  · rw [h]
    exact quotOf_lang A hA hd he _ (groupKey_nameOK A gs hgs key hkey) hst w

theorem minimizeOf_shape (A : ENFA σ) (hA : A.WF) (hd : A.Deterministic) (he : A.EpsFree)
    (gs : List (List (Option σ))) (hgs : A.IsNerodePartition gs) (key : List (Option σ) → κ)
    (hkey : ∀ g ∈ gs, ∀ g' ∈ gs, key g = key g' → g = g') (emptyKey : κ) :
    (A.minimizeOf gs key emptyKey).Deterministic ∧ (A.minimizeOf gs key emptyKey).EpsFree ∧
    (A.minimizeOf gs key emptyKey).WF := by
  rcases minimizeOf_cases A hA hd gs key emptyKey with ⟨h, _⟩ | ⟨h, _⟩
  · rw [h]
    exact emptyAut_shape emptyKey
  · rw [h]
    exact ⟨quotOf_deterministic A hA hd he _ (groupKey_nameOK A gs hgs key hkey),
      quotOf_epsFree A hA _, ofParts_wf _ _ _⟩

theorem minimizeOf_reduced (A : ENFA σ) (hA : A.WF) (hd : A.Deterministic) (he : A.EpsFree)
    (gs : List (List (Option σ))) (hgs : A.IsNerodePartition gs) (key : List (Option σ) → κ)
    (hkey : ∀ g ∈ gs, ∀ g' ∈ gs, key g = key g' → g = g') (emptyKey : κ) :
    (A.minimizeOf gs key emptyKey).Reduced := by
  rcases minimizeOf_cases A hA hd gs key emptyKey with ⟨h, _⟩ | ⟨h, hst⟩
  · rw [h]
    exact emptyAut_reduced emptyKey
  · rw [h]
    exact quotOf_reduced A hA hd he _ (groupKey_nameOK A gs hgs key hkey) hst

/-- the reducedness oracle decides `Reduced` -/
theorem isReduced_iff (M : ENFA σ) (hM : M.WF) (fuel : Nat) (b : Bool)
    (h : M.isReduced fuel = some b) : b = true ↔ M.Reduced :=
  isReduced_iff' M hM fuel b h

end ENFA
end Pfl
