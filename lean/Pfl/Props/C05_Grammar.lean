/-
C05 — the reader implements the documented grammar of pyformlang's regular expressions: tokens
(plain symbols, escaped characters `\c`, `$` for epsilon) separated by blanks, juxtaposition is
concatenation, `|` is union with the lowest precedence, `*` is postfix, parentheses group.
For every expression `e` of that grammar (`E`, well-formed: a starred operand is an atom, a
concatenation operand is not a union) the text is read as the tree of `e` — whatever the nesting,
not only for the fully parenthesised text that `str()` prints (`parse_repr`).
-/
import Pfl.Proofs.E2EReader
import Pfl.Proofs.E2E3Chars
namespace Pfl
namespace RegexReader
open Pfl.PyRx.E2E

theorem parse_grammar (e : E) (h : E.WF A3 e) (fuel : Nat) (hf : E.need e ≤ fuel) :
    parse fuel (joinBlank (E.flat e)) = .ok (E.tree e) :=
  parse_joinBlank toks_A3 e h fuel hf

/-- example: `a b | c *` is the union of `a.b` and `c*` -/
example : E.tree (.alt (.cat (.tok ['a']) (.tok ['b'])) (.star (.tok ['c']))) =
    .alt (.cat (.sym "a") (.sym "b")) (.star (.sym "c")) := by decide

end RegexReader
end Pfl
