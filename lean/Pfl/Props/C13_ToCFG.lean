/-
C13 / C11 — the triple construction `to_cfg` generates what the PDA accepts by empty stack;
the product with a deterministic automaton accepts the intersection by final state.
-/
import Pfl.Props.C13_Modes
import Pfl.Proofs.FABase
import Pfl.Proofs.PDAToCFG
namespace Pfl
namespace PDA
open Pfl.CFG Pfl.PDA.ToCFG
variable {σ γ τ : Type} [DecidableEq σ] [DecidableEq γ] [DecidableEq τ]

/-- `to_cfg` (with an injective naming of states and stack symbols whose names contain neither
`|` nor brackets, so that triple names are unambiguous) -/
theorem toCFG_lang (P : PDA σ γ) (hP : P.WF) (ns : σ → String) (ng : γ → String)
    (hinj : ∀ q x p q' x' p', q ∈ P.states → p ∈ P.states → q' ∈ P.states → p' ∈ P.states →
      x ∈ P.stack → x' ∈ P.stack →
      tripleName ns ng q x p = tripleName ns ng q' x' p' → q = q' ∧ x = x' ∧ p = p')
    (hstart : ∀ q ∈ P.states, ∀ x ∈ P.stack, ∀ p ∈ P.states, tripleName ns ng q x p ≠ "#StartCFG#")
    (C : CFG) (h : P.toCFG ns ng = some C) (w : List String) :
    C.Lang w ↔ P.AccEmpty w := by
  rw [lang_iff_gen, toCFG_start h]
  constructor
  · rintro ⟨s₀, hs₀, hg⟩
    simp only [Option.some.injEq] at hs₀
    subst hs₀
    obtain ⟨body, hp, hb⟩ := gen_var_iff.1 hg
    rcases (mem_toCFG_prods h _).1 hp with ⟨s, z, p, hs, hz, hpp, he⟩ |
      ⟨q, a, x, q₁, push, p, body', ht, hpp, _, _, he⟩
    · simp only [Prod.mk.injEq, true_and] at he
      subst he
      rw [genList_singleton] at hb
      exact ⟨s, z, p, hs, hz, (steps_of_gen hP hinj hstart h).1 _ _ hb s z p (hP.start s hs)
        (hP.startStack z hz) hpp rfl⟩
    · simp only [Prod.mk.injEq] at he
      exact absurd he.1.symm (hstart q (hP.src _ ht) x (hP.pop _ ht) p hpp)
  · rintro ⟨s, z, q, hs, hz, hr⟩
    obtain ⟨n, hn⟩ := steps_iff_stepsN.1 hr
    refine ⟨_, rfl, ?_⟩
    have hq : q ∈ P.states := by
      cases n with
      | zero => rw [stepsN_zero_iff] at hn; simp at hn
      | succ n => exact stepsN_last hP hn
    refine Gen.var ((mem_toCFG_prods h _).2 (Or.inl ⟨s, z, q, hs, hz, hq, rfl⟩)) ?_
    exact genList_singleton.2 (gen_of_stepsN hP h n s z q w hn)

/-- `PDA.intersection` with a deterministic ε-free automaton -/
theorem inter_lang (P : PDA σ γ) (hP : P.WF) (D : ENFA τ) (hD : D.Deterministic) (eD : D.EpsFree)
    (symOf : String → Option Nat) (fuel : Nat) (Q : PDA (σ × τ) γ)
    (h : P.inter D symOf fuel = some Q) (w : List String) :
    Q.AccFinal w ↔ P.AccFinal w ∧ ∃ ks, w.mapM symOf = some ks ∧ D.Lang ks := by
  obtain ⟨s, d, seen, hs, hd, hseen, hQs, hQz, hQf, hQd⟩ := inter_spec h
  have hdm : d ∈ D.starts := List.mem_of_head? hd
  constructor
  · rintro ⟨s₀, z, f, β, hs₀, hz, hf, hr⟩
    rw [hQs] at hs₀
    cases hs₀
    rw [hQz] at hz
    obtain ⟨_, hf1, hf2⟩ := (hQf f).1 hf
    obtain ⟨h1, ks, hks, hrun⟩ := inter_steps_sound hQd hr rfl
    exact ⟨⟨s, z, f.1, β, hs, hz, hf1, h1⟩, ks, hks, d, hdm, f.2, hf2, hrun⟩
  · rintro ⟨⟨s', z, f, β, hs', hz, hf, hr⟩, ks, hks, d', hd', f', hf', hrun⟩
    rw [hs] at hs'
    cases hs'
    have hdd : d' = d := hD.1 d' hd' d hdm
    subst hdd
    obtain ⟨h1, h2⟩ := inter_steps_complete hP eD hseen hQd hr rfl d' ks f' hseen.1 hks hrun
    exact ⟨(s, d'), z, (f, f'), β, hQs, by rw [hQz]; exact hz, (hQf _).2 ⟨h1, hf, hf'⟩, h2⟩

end PDA
end Pfl

