/-
C13 / C11 — the triple construction `to_cfg` generates what the PDA accepts by empty stack;
the product with a deterministic automaton accepts the intersection by final state.
-/
import Pfl.Props.C13_Modes
import Pfl.Proofs.FABase
namespace Pfl
namespace PDA
variable {σ γ τ : Type} [DecidableEq σ] [DecidableEq γ] [DecidableEq τ]

/-- `to_cfg` (with an injective naming of states and stack symbols whose names contain neither
`|` nor brackets, so that triple names are unambiguous) -/
theorem toCFG_lang (P : PDA σ γ) (hP : P.WF) (ns : σ → String) (ng : γ → String)
    (hinj : ∀ q x p q' x' p', q ∈ P.states → p ∈ P.states → q' ∈ P.states → p' ∈ P.states →
      x ∈ P.stack → x' ∈ P.stack →
      tripleName ns ng q x p = tripleName ns ng q' x' p' → q = q' ∧ x = x' ∧ p = p')
    (hstart : ∀ q ∈ P.states, ∀ x ∈ P.stack, ∀ p ∈ P.states, tripleName ns ng q x p ≠ "#StartCFG#")
    (C : CFG) (h : P.toCFG ns ng = some C) (w : List String) :
    C.Lang w ↔ P.AccEmpty w := by
  sorry

/-- `PDA.intersection` with a deterministic ε-free automaton -/
theorem inter_lang (P : PDA σ γ) (hP : P.WF) (D : ENFA τ) (hD : D.Deterministic) (eD : D.EpsFree)
    (symOf : String → Option Nat) (fuel : Nat) (Q : PDA (σ × τ) γ)
    (h : P.inter D symOf fuel = some Q) (w : List String) :
    Q.AccFinal w ↔ P.AccFinal w ∧ ∃ ks, w.mapM symOf = some ks ∧ D.Lang ks := by
  sorry

end PDA
end Pfl
