/-
C11 — `CFG.intersection(regex)`: the regular expression becomes its Thompson automaton, that
automaton is determinised by the subset construction and the Bar-Hillel construction is applied.
Composition of `thompson_lang` (C05), `toDet_lang` / `toDet_shape` (C01) and `interD_lang`.
-/
import Pfl.Props.C11_BarHillel
import Pfl.Props.C05_Regex
import Pfl.Props.C01_Det
namespace Pfl
namespace CFG
variable {κ : Type} [DecidableEq κ]

theorem interRegex_lang (G : CFG) (hG : G.WF) (r : Rx) (code : String → Nat) (c : Nat)
    (hcode : ∀ s t, code s = code t → s = t)
    (symOf : String → Option Nat) (hsym : ∀ s, symOf s = some (code s))
    (key : List Nat → κ) (hk : (r.thompson code c).1.KeyInj key)
    (fuel1 : Nat) (D : ENFA κ) (hD : (r.thompson code c).1.toDet key true fuel1 = some D)
    (nm : κ → String)
    (hinj : ∀ p a q p' a' q', p ∈ D.states → q ∈ D.states → p' ∈ D.states → q' ∈ D.states →
      PDA.tripleName nm id p a q = PDA.tripleName nm id p' a' q' → p = p' ∧ a = a' ∧ q = q')
    (hstart : ∀ p a q, PDA.tripleName nm id p a q ≠ "Start")
    (fuel2 : Nat) (R : CFG) (hR : G.interD D symOf nm fuel2 = some R) (w : List String) :
    R.Lang w ↔ G.Lang w ∧ Rx.Denote r w := by
  have hwfE := Rx.thompson_wf code r c
  obtain ⟨dD, eD⟩ := ENFA.toDet_shape _ key true fuel1 D hD
  have hwfD : D.WF := by
    unfold ENFA.toDet at hD
    cases hs : (r.thompson code c).1.detSeen key true fuel1 with
    | none => simp [hs] at hD
    | some seen =>
      simp only [hs, Option.map_some, Option.some.injEq] at hD
      rw [← hD]; exact ENFA.ofParts_wf _ _ _
  rw [interD_lang G hG D hwfD dD eD symOf nm hinj hstart fuel2 R hR w]
  have hmap : w.mapM symOf = some (w.map code) := by
    induction w with
    | nil => rfl
    | cons a w ih => simp [List.mapM_cons, hsym a, ih]
  constructor
  · rintro ⟨hg, ks, hks, hl⟩
    rw [hmap] at hks
    cases hks
    refine ⟨hg, ?_⟩
    obtain ⟨u, hu, hm⟩ := (Rx.thompson_lang code r c _).1
      ((ENFA.toDet_lang _ hwfE key hk fuel1 D hD _).1 hl)
    have key2 : ∀ (u w : List String), u.map code = w.map code → u = w := by
      intro u
      induction u with
      | nil => intro w h; cases w <;> simp_all
      | cons x u ih =>
        intro w h
        cases w with
        | nil => simp at h
        | cons y w =>
          simp only [List.map_cons, List.cons.injEq] at h
          rw [hcode x y h.1, ih w h.2]
    have : u = w := key2 u w hm
    rwa [← this]
  · rintro ⟨hg, hr⟩
    exact ⟨hg, w.map code, hmap,
      (ENFA.toDet_lang _ hwfE key hk fuel1 D hD _).2 ((Rx.thompson_lang code r c _).2 ⟨w, hr, rfl⟩)⟩

end CFG
end Pfl
