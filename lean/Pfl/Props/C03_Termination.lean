/-
Termination (fuel sufficiency), automata side: explicit bounds under which the remaining fuelled
loops of the finite-automaton / pushdown models always answer.  Together with the
partial-correctness theorems this gives total correctness.

(T1) product exploration of `get_intersection`    — `inter_isSome`: `|Q_A| * |Q_B|` rounds (tight)
(T2) path search of `is_acyclic`                  — `isAcyclic_isSome`: `|starts| * (D + 1) ^ |Q|`,
       `D` the out-degree; exponential growth is real: `ladder_isAcyclic` (`2 ^ |Q| - 1` rounds)
(T3) queue loop of `get_accepted_words`           — `acceptedWords_isSome` (length bound `n`),
       `acceptedWords_isSome_of_finite`, `acceptedWords_isSome_of_acyclic` (no length bound)
(T4) `PDA.intersection`, `CFG.intersection`       — `PDA.inter_isSome`, `CFG.interD_isSome`
(T5) walk of `_is_equivalent_to_minimal`, oracles — `isoWalk_isSome` (`|Q₁|` rounds, tight),
       `langDiff_isSome`, `nerodeGroups_isSome`, `isReduced_isSome` (`4 ^ |Q|`)

Helper lemmas: `Pfl/Proofs/Termination2*.lean` (namespace `Pfl.Term2`).
-/
import Pfl.Proofs.Termination2FA
import Pfl.Proofs.Termination2Words
import Pfl.Proofs.Termination2PDA
import Pfl.Proofs.Termination2Min
import Pfl.Proofs.Termination2Ladder
import Pfl.Props.C03_Bool
import Pfl.Props.C04_Words
import Pfl.Props.C02_Min
import Pfl.Props.C02_Iso
import Pfl.Props.NonVacuity

namespace Pfl

/-- `n` states on a ring, one symbol -/
def ringA (n : Nat) : ENFA Nat :=
  { states := List.range n, syms := [0], starts := [0], finals := [0]
    delta := (List.range n).map fun i => (i, some 0, (i + 1) % n) }

theorem ringA_wf2 : (ringA 2).WF := by decide +kernel
theorem ringA_wf3 : (ringA 3).WF := by decide +kernel
theorem ringA_wf5 : (ringA 5).WF := by decide +kernel

namespace ENFA
section T1
variable {σ τ : Type} [DecidableEq σ] [DecidableEq τ]

/-! ## (T1) `get_intersection`

The worklist holds pairs of states; the model's `bfs` never queues a pair twice, the seeds are a
duplicate-free list, and for well-formed automata all successors stay inside
`A.states × B.states`. -/

/-- `get_intersection` terminates within `|Q_A| * |Q_B|` rounds -/
theorem inter_isSome (A : ENFA σ) (B : ENFA τ) (hA : A.WF) (hB : B.WF) (fuel : Nat)
    (hf : A.states.length * B.states.length ≤ fuel) : (A.inter B fuel).isSome :=
  Term2.inter_isSome A B hA hB fuel hf

/-- total correctness of `get_intersection` -/
theorem inter_total (A : ENFA σ) (B : ENFA τ) (hA : A.WF) (hB : B.WF) (fuel : Nat)
    (hf : A.states.length * B.states.length ≤ fuel) :
    ∃ P, A.inter B fuel = some P ∧ ∀ w, P.Lang w ↔ A.Lang w ∧ B.Lang w := by
  obtain ⟨P, hP⟩ := Option.isSome_iff_exists.mp (inter_isSome A B hA hB fuel hf)
  exact ⟨P, hP, inter_lang A B hA hB fuel P hP⟩

end T1

/-- the bound is tight: rings of 2 and 3 states, all 6 pairs are explored -/
theorem inter_bound_tight :
    (ringA 2).states.length * (ringA 3).states.length = 6 ∧
    (ringA 2).inter (ringA 3) 5 = none ∧ ((ringA 2).inter (ringA 3) 6).isSome = true := by
  decide +kernel

/-- non-vacuity of `inter_isSome` -/
example : ((ringA 2).inter (ringA 3) 6).isSome :=
  inter_isSome _ _ ringA_wf2 ringA_wf3 6 (by decide)

section T2
variable {σ : Type} [DecidableEq σ]

/-! ## (T2) `is_acyclic`

The loop keeps a stack of pairs `(state, path that led to it)` and walks the tree of all paths from
the start states until a path closes.  A path never repeats a state, so the tree has depth `≤ |Q|`;
a node has as many children as the state has out-edges (parallel edges counted, one per symbol). -/

/-- general form: `U` lists the start states and all targets, `D` bounds the out-degree -/
theorem isAcyclic_isSome_of (A : ENFA σ) (U : List σ) (D : Nat)
    (hs : ∀ q ∈ A.starts, q ∈ U) (hU : ∀ q r, r ∈ A.outs q → r ∈ U)
    (hD : ∀ q ∈ U, (A.outs q).length ≤ D) (fuel : Nat)
    (hf : A.starts.length * (D + 1) ^ U.length ≤ fuel) : (A.isAcyclic fuel).isSome :=
  Term2.isAcyclic_isSome_of A U D hs hU hD fuel hf

/-- `is_acyclic` terminates within `|starts| * ((|Σ| + 1) * |δ| + 1) ^ |Q|` rounds -/
theorem isAcyclic_isSome (A : ENFA σ) (hA : A.WF) (fuel : Nat)
    (hf : A.starts.length * ((A.syms.length + 1) * A.delta.length + 1) ^ A.states.length ≤ fuel) :
    (A.isAcyclic fuel).isSome :=
  Term2.isAcyclic_isSome A hA fuel hf

/-- … within `|starts| * (|δ| + 1) ^ |Q|` rounds when the symbol list has no repetition (it is a
Python set) -/
theorem isAcyclic_isSome_nodup (A : ENFA σ) (hA : A.WF) (hs : A.syms.Nodup) (fuel : Nat)
    (hf : A.starts.length * (A.delta.length + 1) ^ A.states.length ≤ fuel) :
    (A.isAcyclic fuel).isSome :=
  Term2.isAcyclic_isSome_nodup A hA hs fuel hf

/-- total correctness of `is_acyclic` -/
theorem isAcyclic_total (A : ENFA σ) (hA : A.WF) (fuel : Nat)
    (hf : A.starts.length * ((A.syms.length + 1) * A.delta.length + 1) ^ A.states.length ≤ fuel) :
    ∃ b, A.isAcyclic fuel = some b ∧ (b = true ↔ ¬ A.HasReachableCycle) := by
  obtain ⟨b, hb⟩ := Option.isSome_iff_exists.mp (isAcyclic_isSome A hA fuel hf)
  exact ⟨b, hb, isAcyclic_iff A fuel b hb⟩

end T2

/-! ### no bound polynomial in `|Q|`, `|Σ|`, `|δ|` is correct

`Term2.ladder n`: states `0 … n`, two symbols, edges `i ─0→ i+1` and `i ─1→ i+1`.  The loop visits
every path from state `0`: exactly `2 ^ (n+1) - 1` rounds, with `|Q| = n + 1`, `|Σ| = 2`,
`|δ| = 2 * n`. -/

open Term2 (ladder) in
theorem ladder_sizes (n : Nat) :
    (ladder n).states.length = n + 1 ∧ (ladder n).syms.length = 2 ∧
    (ladder n).delta.length = 2 * n ∧ (ladder n).starts.length = 1 := by
  exact ⟨by simp [ladder], rfl, Term2.ladder_delta_length n, rfl⟩

open Term2 (ladder) in
/-- `is_acyclic` on the ladder answers after `2 ^ |Q| - 1` rounds and not earlier -/
theorem ladder_isAcyclic (n : Nat) :
    (ladder n).isAcyclic (2 ^ (n + 1) - 1) = some true ∧
    ∀ fuel, fuel < 2 ^ (n + 1) - 1 → (ladder n).isAcyclic fuel = none :=
  Term2.ladder_isAcyclic n

open Term2 (ladder) in
/-- hence no bound of the form `c * (|Q| + |Σ| + |δ|) ^ k` is correct -/
theorem isAcyclic_no_polynomial_bound (c k : Nat) :
    ∃ n, (ladder n).isAcyclic
      (c * ((ladder n).states.length + (ladder n).syms.length + (ladder n).delta.length) ^ k) = none :=
  Term2.isAcyclic_no_polynomial_bound c k

open Term2 (ladder) in
/-- e.g. ten rungs (11 states, 2 symbols, 20 transitions): 2047 rounds are needed, the guess
`4 * |Q| * |Σ| * |δ| = 1760` is not enough -/
theorem isAcyclic_cubic_bound_false :
    4 * (ladder 10).states.length * (ladder 10).syms.length * (ladder 10).delta.length = 1760 ∧
    (ladder 10).isAcyclic 1760 = none ∧ (ladder 10).isAcyclic 2047 = some true :=
  ⟨by decide +kernel, (ladder_isAcyclic 10).2 1760 (by decide), (ladder_isAcyclic 10).1⟩

open Term2 (ladder) in
/-- non-vacuity of `isAcyclic_isSome_nodup` / `isAcyclic_isSome` (3 states, 4 transitions) -/
example : ((ladder 2).isAcyclic 125).isSome :=
  isAcyclic_isSome_nodup (ladder 2) (by decide +kernel) (by decide +kernel) 125 (by decide +kernel)

example : ((ringA 3).isAcyclic 343).isSome :=
  isAcyclic_isSome (ringA 3) ringA_wf3 343 (by decide +kernel)

section T3
variable {σ : Type} [DecidableEq σ]

/-! ## (T3) `get_accepted_words`

Every round pops one queue entry `(state, word)`.  An entry is expanded at most once and only if
its word passes the length test; an expansion queues at most `|δ|` entries.  With words of length
`≤ n` over `s` symbols at most `|Q| * (1 + s + … + s ^ n) ≤ |Q| * (s + 1) ^ n` entries are expanded:
`wordsFuel A n = |starts| + |Q| * (|Σ| + 1) ^ n * |δ|` rounds are enough. -/

omit [DecidableEq σ] in
theorem wordsFuel_eq (A : ENFA σ) (n : Nat) :
    Term2.wordsFuel A n =
      A.starts.length + A.states.length * (A.syms.length + 1) ^ n * A.delta.length := rfl

/-- `get_accepted_words(n)` terminates -/
theorem acceptedWords_isSome (A : ENFA σ) (hA : A.WF) (n fuel : Nat)
    (hf : A.starts.length + A.states.length * (A.syms.length + 1) ^ n * A.delta.length ≤ fuel) :
    (A.acceptedWords (some n) fuel).isSome :=
  Term2.acceptedWords_some_isSome A hA n fuel hf

/-- total correctness of `get_accepted_words(n)` -/
theorem acceptedWords_total (A : ENFA σ) (hA : A.WF) (n fuel : Nat)
    (hf : A.starts.length + A.states.length * (A.syms.length + 1) ^ n * A.delta.length ≤ fuel) :
    ∃ ws, A.acceptedWords (some n) fuel = some ws ∧ ws.Nodup ∧
      ∀ w, w ∈ ws ↔ w.length ≤ n ∧ A.Lang w := by
  obtain ⟨ws, hws⟩ := Option.isSome_iff_exists.mp (acceptedWords_isSome A hA n fuel hf)
  exact ⟨ws, hws, acceptedWords_exact A n fuel ws hws⟩

/-- `get_accepted_words()` without a length bound terminates whenever the language is finite
(`n` bounds the length of the accepted words): every expanded word is a prefix of an accepted
word.  ε-cycles do no harm. -/
theorem acceptedWords_isSome_of_finite (A : ENFA σ) (hA : A.WF) (maxLen : Option Nat) (n : Nat)
    (hfin : ∀ w, A.Lang w → w.length ≤ n) (fuel : Nat)
    (hf : A.starts.length + A.states.length * (A.syms.length + 1) ^ n * A.delta.length ≤ fuel) :
    (A.acceptedWords maxLen fuel).isSome :=
  Term2.acceptedWords_isSome_of_finite A hA maxLen n hfin fuel hf

/-- no cycle among the states that are reachable from a start state and lead to a final state:
accepted words have length `≤ |Q|` -/
theorem lang_length_le_of_noTrimCycle (A : ENFA σ) (hA : A.WF) (hac : ¬ Term2.HasTrimCycle A)
    (w : List Nat) (h : A.Lang w) : w.length ≤ A.states.length :=
  Term2.lang_length_le_of_acyclic A hA hac w h

/-- `get_accepted_words()` terminates when the part between the start states and the final states
has no cycle (`Term2.HasTrimCycle`: edges with any label into states leading to a final state) -/
theorem acceptedWords_isSome_of_noTrimCycle (A : ENFA σ) (hA : A.WF) (hac : ¬ Term2.HasTrimCycle A)
    (maxLen : Option Nat) (fuel : Nat)
    (hf : A.starts.length +
        A.states.length * (A.syms.length + 1) ^ A.states.length * A.delta.length ≤ fuel) :
    (A.acceptedWords maxLen fuel).isSome :=
  Term2.acceptedWords_isSome_of_noTrimCycle A hA hac maxLen fuel hf

/-- … in particular when no cycle at all is reachable -/
theorem acceptedWords_isSome_of_acyclic (A : ENFA σ) (hA : A.WF) (hac : ¬ A.HasReachableCycle)
    (fuel : Nat)
    (hf : A.starts.length +
        A.states.length * (A.syms.length + 1) ^ A.states.length * A.delta.length ≤ fuel) :
    (A.acceptedWords none fuel).isSome :=
  acceptedWords_isSome_of_noTrimCycle A hA (Term2.not_hasTrimCycle_of A hA hac) none fuel hf

/-- … i.e. when `is_acyclic()` says so (`isAcyclic_iff`) -/
theorem acceptedWords_isSome_of_isAcyclic (A : ENFA σ) (hA : A.WF) (fuel' : Nat)
    (hac : A.isAcyclic fuel' = some true) (fuel : Nat)
    (hf : A.starts.length +
        A.states.length * (A.syms.length + 1) ^ A.states.length * A.delta.length ≤ fuel) :
    (A.acceptedWords none fuel).isSome :=
  acceptedWords_isSome_of_acyclic A hA ((isAcyclic_iff A fuel' true hac).mp rfl) fuel hf

/-- … or the cycle oracle (`reachableCycle_iff`) -/
theorem acceptedWords_isSome_of_reachableCycle (A : ENFA σ) (hA : A.WF)
    (hac : A.reachableCycle = false) (fuel : Nat)
    (hf : A.starts.length +
        A.states.length * (A.syms.length + 1) ^ A.states.length * A.delta.length ≤ fuel) :
    (A.acceptedWords none fuel).isSome :=
  acceptedWords_isSome_of_acyclic A hA
    (fun h => by rw [(reachableCycle_iff A).mpr h] at hac; cases hac) fuel hf

/-- total correctness of the unbounded enumeration on acyclic automata -/
theorem acceptedWords_unbounded_total (A : ENFA σ) (hA : A.WF) (hac : ¬ A.HasReachableCycle)
    (fuel : Nat)
    (hf : A.starts.length +
        A.states.length * (A.syms.length + 1) ^ A.states.length * A.delta.length ≤ fuel) :
    ∃ ws, A.acceptedWords none fuel = some ws ∧ ws.Nodup ∧ ∀ w, w ∈ ws ↔ A.Lang w := by
  obtain ⟨ws, hws⟩ := Option.isSome_iff_exists.mp (acceptedWords_isSome_of_acyclic A hA hac fuel hf)
  exact ⟨ws, hws, acceptedWords_exact_unbounded A fuel ws hws⟩

end T3

/-- one state, two loops: all `2 ^ (n+1) - 1` words of length `≤ n` are accepted -/
def loops2 : ENFA Nat :=
  { states := [0], syms := [0, 1], starts := [0], finals := [0]
    delta := [(0, some 0, 0), (0, some 1, 0)] }

/-- growth exponential in `n` is real: `2 ^ (n+2) - 1` rounds here (31 for `n = 3`, 63 for
`n = 4`), the bound being `1 + 3 ^ n * 2` (55, 163) -/
theorem acceptedWords_rounds_loops2 :
    loops2.acceptedWords (some 3) 30 = none ∧ (loops2.acceptedWords (some 3) 31).isSome = true ∧
    loops2.acceptedWords (some 4) 62 = none ∧ (loops2.acceptedWords (some 4) 63).isSome = true ∧
    Term2.wordsFuel loops2 3 = 55 ∧ Term2.wordsFuel loops2 4 = 163 := by decide +kernel

/-- non-vacuity of `acceptedWords_isSome` -/
example : (loops2.acceptedWords (some 3) 55).isSome :=
  acceptedWords_isSome loops2 (by decide +kernel) 3 55 (by decide +kernel)

/-- an ε-cycle between the start and the final state, finite language `{ε}`: there is a cycle in
the trimmed part, but `acceptedWords_isSome_of_finite` applies (with `n = 0`) -/
def epsRing : ENFA Nat :=
  { states := [0, 1], syms := [], starts := [0], finals := [1]
    delta := [(0, none, 1), (1, none, 0)] }

theorem epsRing_wf : epsRing.WF := by decide +kernel

theorem epsRing_lang (w : List Nat) (h : epsRing.Lang w) : w.length ≤ 0 := by
  obtain ⟨s, _, f, _, hr⟩ := h
  have : ∀ a ∈ w, a ∈ epsRing.delta.filterMap (·.2.1) := run_syms epsRing hr
  cases w with
  | nil => simp
  | cons a w =>
    have h := this a List.mem_cons_self
    simp [epsRing] at h

example : (epsRing.acceptedWords none 5).isSome :=
  acceptedWords_isSome_of_finite epsRing epsRing_wf none 0 epsRing_lang 5 (by decide +kernel)

theorem epsRing_answer : epsRing.reachableCycle = true ∧ epsRing.acceptedWords none 3 = some [[]] := by
  decide +kernel

open Term2 (ladder) in
/-- non-vacuity of the acyclic case (`ladder 2`: 3 states, the four words of length 2) -/
example : ((ladder 2).acceptedWords none 325).isSome :=
  acceptedWords_isSome_of_reachableCycle (ladder 2) (by decide +kernel) (by decide +kernel) 325
    (by decide +kernel)

open Term2 (ladder) in
example : ((ladder 2).acceptedWords none 325).isSome :=
  acceptedWords_isSome_of_isAcyclic (ladder 2) (by decide +kernel) 7 (by decide +kernel) 325
    (by decide +kernel)

section T5
variable {σ τ : Type} [DecidableEq σ] [DecidableEq τ]

/-! ## (T5) the walk of `_is_equivalent_to_minimal` and the oracles of `Pfl/Model/Minimize.lean`

A pair is pushed on the walk's stack only when its first component has no partner yet; hence at
most `|Q₁|` rounds.  The language-difference oracle `langDiff` is a `bfsK` whose keys are pairs of
sub-lists of the two state lists (`canonS` filters `A.states`); no well-formedness is needed. -/

/-- the walk terminates within `|Q₁|` rounds -/
theorem isoWalk_isSome (M1 : ENFA σ) (M2 : ENFA τ) (h1 : M1.WF) (hs1 : M1.starts ≠ [])
    (hs2 : M2.starts ≠ []) (fuel : Nat) (hf : M1.states.length ≤ fuel) :
    (isoWalk M1 M2 fuel).isSome :=
  Term2.isoWalk_isSome M1 M2 h1 hs1 hs2 fuel hf

/-- (the model answers `none` for another reason when a start state is missing: the library
raises) -/
theorem isoWalk_none (M1 : ENFA σ) (M2 : ENFA τ) (fuel : Nat)
    (h : M1.starts = [] ∨ M2.starts = []) : isoWalk M1 M2 fuel = none :=
  Term2.isoWalk_none M1 M2 fuel h

/-- total correctness of the `true` answer of the walk, and existence of an answer -/
theorem isoWalk_total (M1 : ENFA σ) (M2 : ENFA τ) (w1 : M1.WF) (h1 : M1.Deterministic)
    (e1 : M1.EpsFree) (h2 : M2.Deterministic) (e2 : M2.EpsFree) (hs1 : M1.starts ≠ [])
    (hs2 : M2.starts ≠ []) (fuel : Nat) (hf : M1.states.length ≤ fuel) :
    ∃ b, isoWalk M1 M2 fuel = some b ∧ (b = true → ∀ w, M1.Lang w ↔ M2.Lang w) := by
  obtain ⟨b, hb⟩ := Option.isSome_iff_exists.mp (isoWalk_isSome M1 M2 w1 hs1 hs2 fuel hf)
  refine ⟨b, hb, ?_⟩
  rintro rfl
  exact isoWalk_true M1 M2 h1 e1 h2 e2 fuel hb

/-- `langDiff` answers with fuel `2 ^ |Q_A| * 2 ^ |Q_B|` -/
theorem langDiff_isSome (A : ENFA σ) (B : ENFA τ) (fuel : Nat)
    (hf : 2 ^ A.states.length * 2 ^ B.states.length ≤ fuel) : (A.langDiff B fuel).isSome :=
  Term2.langDiff_isSome A B fuel hf

theorem sameRight_isSome (A : ENFA σ) (fuel : Nat) (hf : 4 ^ A.states.length ≤ fuel)
    (p q : Option σ) : (A.sameRight fuel p q).isSome :=
  Term2.sameRight_isSome A fuel hf p q

/-- the Nerode partition oracle answers with fuel `4 ^ |Q|` -/
theorem nerodeGroups_isSome (A : ENFA σ) (fuel : Nat) (hf : 4 ^ A.states.length ≤ fuel) :
    (A.nerodeGroups fuel).isSome :=
  Term2.nerodeGroups_isSome A fuel hf

theorem nerodeGroups_total (A : ENFA σ) (hA : A.WF) (fuel : Nat) (hf : 4 ^ A.states.length ≤ fuel) :
    ∃ gs, A.nerodeGroups fuel = some gs ∧ A.IsNerodePartition gs := by
  obtain ⟨gs, hgs⟩ := Option.isSome_iff_exists.mp (nerodeGroups_isSome A fuel hf)
  exact ⟨gs, hgs, nerodeGroups_spec A hA fuel gs hgs⟩

/-- `isReduced` answers with fuel `4 ^ |Q|` -/
theorem isReduced_isSome (M : ENFA σ) (fuel : Nat) (hf : 4 ^ M.states.length ≤ fuel) :
    (M.isReduced fuel).isSome :=
  Term2.isReduced_isSome M fuel hf

theorem isReduced_total (M : ENFA σ) (hM : M.WF) (fuel : Nat) (hf : 4 ^ M.states.length ≤ fuel) :
    ∃ b, M.isReduced fuel = some b ∧ (b = true ↔ M.Reduced) := by
  obtain ⟨b, hb⟩ := Option.isSome_iff_exists.mp (isReduced_isSome M fuel hf)
  exact ⟨b, hb, isReduced_iff M hM fuel b hb⟩

end T5

/-- the bound of the walk is tight: a ring of five states against itself -/
theorem isoWalk_bound_tight :
    isoWalk (ringA 5) (ringA 5) 4 = none ∧ isoWalk (ringA 5) (ringA 5) 5 = some true := by
  decide +kernel

/-- non-vacuity of `isoWalk_isSome`, `nerodeGroups_isSome`, `isReduced_isSome`, `langDiff_isSome` -/
example : (isoWalk (ringA 5) (ringA 3) 5).isSome :=
  isoWalk_isSome _ _ ringA_wf5 (by decide) (by decide) 5 (by decide)

example : ((ringA 3).nerodeGroups 64).isSome := nerodeGroups_isSome _ 64 (by decide)

example : ((ringA 3).isReduced 64).isSome := isReduced_isSome _ 64 (by decide)

example : ((ringA 2).langDiff (ringA 3) 32).isSome := langDiff_isSome _ _ 32 (by decide)

end ENFA

/-! ## (T4) `PDA.intersection` and `CFG.intersection` -/

namespace PDA
section T4
variable {σ γ τ : Type} [DecidableEq σ] [DecidableEq γ] [DecidableEq τ]

/-- the product exploration of `PDA.intersection` terminates within `|Q_P| * |Q_D|` rounds -/
theorem inter_isSome (P : PDA σ γ) (hP : P.WF) (D : ENFA τ) (hD : D.WF)
    (symOf : String → Option Nat) (hs : P.start.isSome) (hd : D.starts ≠ [])
    (fuel : Nat) (hf : P.states.length * D.states.length ≤ fuel) :
    (P.inter D symOf fuel).isSome :=
  Term2.pda_inter_isSome P hP D hD symOf hs hd fuel hf

/-- (without a start state on either side the model has no product to build) -/
theorem inter_none (P : PDA σ γ) (D : ENFA τ) (symOf : String → Option Nat) (fuel : Nat)
    (h : P.start = none ∨ D.starts = []) : P.inter D symOf fuel = none :=
  Term2.pda_inter_none P D symOf fuel h

/-- total correctness of `PDA.intersection` -/
theorem inter_total (P : PDA σ γ) (hP : P.WF) (D : ENFA τ) (hD : D.WF) (dD : D.Deterministic)
    (eD : D.EpsFree) (symOf : String → Option Nat) (hs : P.start.isSome) (hd : D.starts ≠ [])
    (fuel : Nat) (hf : P.states.length * D.states.length ≤ fuel) :
    ∃ Q, P.inter D symOf fuel = some Q ∧
      ∀ w, Q.AccFinal w ↔ P.AccFinal w ∧ ∃ ks, w.mapM symOf = some ks ∧ D.Lang ks := by
  obtain ⟨Q, hQ⟩ := Option.isSome_iff_exists.mp (inter_isSome P hP D hD symOf hs hd fuel hf)
  exact ⟨Q, hQ, inter_lang P hP D dD eD symOf fuel Q hQ⟩

end T4

open NonVacuity in
/-- non-vacuity of `PDA.inter_isSome` (3 × 3 states) -/
example : (pda1.inter dfaABB symOfAB 9).isSome :=
  inter_isSome pda1 nv_pda1_wf dfaABB nv_dfaABB.1 symOfAB (by decide) (by decide) 9 (by decide)

end PDA

namespace CFG
section T4
variable {τ : Type} [DecidableEq τ]

/-- the only fuelled part of `CFG.intersection` is `to_normal_form`: fuel 2 -/
theorem interD_isSome (G : CFG) (D : ENFA τ) (symOf : String → Option Nat) (nm : τ → String)
    (fuel : Nat) (hf : 2 ≤ fuel) : (G.interD D symOf nm fuel).isSome :=
  Term2.interD_isSome G D symOf nm fuel hf

end T4

open NonVacuity in
example : (g2.interD dfaAB symOfAB toString 2).isSome := interD_isSome _ _ _ _ 2 (by decide)

end CFG

end Pfl
