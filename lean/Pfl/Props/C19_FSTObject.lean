/-
C19 / C16 — an FST object built through the public API stands for a well-formed value.
Model: `Pfl/Model/FSTObject.lean` (the private fields, `_delta` as the dict of lists it is: the same
transition added twice is kept twice).

* `run_edges`: after any history the transitions present are, with their multiplicities, those added;
* `numTransitions_eq`: `get_number_transitions()` counts them;
* `run_wf`, `api_wf`: everything the API can build satisfies `FST.WF` and has a repetition-free state list,
  the hypotheses of `union_rel`, `concatenate_rel`, `kleeneStar_rel` (C16).
-/
import Pfl.Model.FSTObject
import Pfl.Proofs.FSTObject
namespace Pfl
namespace FSTObj

/-- adding a transition adds one occurrence of it and nothing else -/
theorem addT_spec {T : Table} (hi : TInv T) (k : Key) (out : String × List String) :
    TInv (addT T k out) ∧ (edges (addT T k out)).Perm ((k.1, k.2, out.1, out.2) :: edges T) :=
  P.addT_spec hi k out

/-- (1) after any history the transitions present are, with their multiplicities, those the object
had plus those added -/
theorem run_edges (o : Obj) (ops : List Op) (hi : TInv o.delta) :
    TInv (run o ops).delta ∧ (edges (run o ops).delta).Perm (edges o.delta ++ added ops) :=
  P.run_edges o ops hi

/-- (2) `get_number_transitions()` counts the transitions present (repetitions included) -/
theorem numTransitions_eq (T : Table) : numTransitions T = (edges T).length :=
  P.numTransitions_eq T

/-- a mutator call keeps well-formedness and the state list free of repetitions -/
theorem step_wf {o : Obj} (op : Op) (hi : TInv o.delta) (hwf : (toFST o).WF) (hn : o.states.Nodup) :
    (toFST (step o op)).WF ∧ TInv (step o op).delta ∧ (step o op).states.Nodup :=
  P.step_wf op hi hwf hn

/-- (3) everything the public API can build stands for a well-formed transducer whose state list has no
repetition — the hypotheses `WF` and `states.Nodup` of `union_rel`, `concatenate_rel`, `kleeneStar_rel` -/
theorem run_wf (o : Obj) (ops : List Op) (hi : TInv o.delta) (hwf : (toFST o).WF) (hn : o.states.Nodup) :
    (toFST (run o ops)).WF ∧ TInv (run o ops).delta ∧ (run o ops).states.Nodup :=
  P.run_wf o ops hi hwf hn

theorem api_wf (ops : List Op) : (toFST (run new ops)).WF ∧ (toFST (run new ops)).states.Nodup :=
  P.api_wf ops

/-- non-vacuity: the same transition added twice is there twice; `epsilon` is not an output symbol -/
example :
    (run new [.addT "q" (some "a") "r" ["x", "epsilon"], .addT "q" (some "a") "r" ["x", "epsilon"]]).delta =
      [(("q", some "a"), [("r", ["x", "epsilon"]), ("r", ["x", "epsilon"])])] ∧
    (run new [.addT "q" (some "a") "r" ["x", "epsilon"]]).outputs = ["x"] := by
  decide +kernel

end FSTObj
end Pfl
