/-
C14 — `LLOneParser.get_llone_parse_tree` always returns: the stack machine (`parseLoop`, whose fuel
counts machine steps) stops on EVERY well-formed grammar and every input, although the library does
not check that the grammar is LL(1) (a cell with exactly one production is used, any other cell
raises NotParsableException) and although the grammar may be left recursive, have unit cycles,
ε-productions, non-generating or unreachable symbols.

Why (`Pfl/Proofs/LL1TerminationDescent.lean`, `descent`): a step that expands a variable `X` under
the lookahead `a` uses the ONLY production `p` of the cell `(X, a)`.
* If `X` is nullable and `a ∈ FOLLOW(X)`, the production that justifies the nullability of `X` at
  least height is in the cell, so it is `p`: the whole body is nullable at smaller heights, with `a`
  in FOLLOW.
* Otherwise `a ∈ FIRST(X)`, and the production that justifies this at least height is in the cell,
  so it is `p = X → α Z β` with `α` nullable and `a ∈ FIRST(Z)` at a smaller height; the symbols of
  `α` are nullable with `a` in their FOLLOW (first case), and nothing behind `Z` can surface before
  input is consumed, because a symbol with `a` in FIRST is never popped without consuming input
  (`nofirst`).
So between two consumed input symbols the symbols on a path of open expansions strictly descend
in a well-founded order, no variable repeats on such a path, and the run is bounded
(`Pfl/Proofs/LL1TerminationRun.lean`).  The facts on FIRST / FOLLOW / the table that this uses hold
without assuming that the symbols generate (`Pfl/Proofs/LL1TerminationSets.lean`).

The bound `parseFuel` is `(|w| + 1) · (V + 1) · (1 + L · (1 + L + … + L^V)) + 1` with `V` the
number of variables and `L` the longest body.  The factor exponential in `V` is needed: with
`X₁ → X₂ X₂, …, X_{V-1} → X_V X_V, X_V → ε` the empty word takes `2^V` steps (`steps_double`).
-/
import Pfl.Props.C14_Lib
import Pfl.Props.C01_Termination
import Pfl.Props.C09_Clean
import Pfl.Proofs.LL1TerminationRun
import Pfl.Proofs.LL1TerminationTree
namespace Pfl
namespace LL1Lib
open CFG Lem _root_.Pfl.LL1Lib.Term
open Pfl.Term (firstFuel followFuel)

/-- `1 + L + … + L^d` -/
theorem epsCost_eq (L d : Nat) : epsCost L (d + 1) = 1 + L * epsCost L d := rfl

/-- machine steps that always suffice for the word `w`: `V` variables, longest body `L` -/
def parseFuel (G : CFG) (w : List String) : Nat :=
  parseSteps (maxBody G) G.vars.length w.length

theorem parseFuel_eq (G : CFG) (w : List String) :
    parseFuel G w =
      (1 + maxBody G * epsCost (maxBody G) G.vars.length) * (G.vars.length + 1) * (w.length + 1) + 1 :=
  rfl

theorem body_le_maxBody (G : CFG) (p : Pfl.Prod) (hp : p ∈ G.prods) : p.2.length ≤ maxBody G :=
  le_maxBody hp

/-- the stack machine stops, whatever the grammar: the table may come from a grammar that is not
LL(1), left recursive, with useless symbols … -/
theorem parseLoop_isSome (G : CFG) (hG : G.WF) (fuel₀ : Nat) (tb : List (String × Look × Pfl.Prod))
    (htb : table G fuel₀ = some tb) (s : String) (w : List String) (fuel : Nat)
    (hf : parseFuel G w ≤ fuel) :
    (parseLoop tb fuel [some (.var s), none] w []).isSome := by
  obtain ⟨f, fo, H⟩ := facts_of_table G hG fuel₀ tb htb
  exact Term.parseLoop_isSome H w s fuel hf

/-- more generally: any symbols on top of any stack are processed (popped completely, or
NotParsableException) within the bound — stated for one symbol -/
theorem parseLoop_segment (G : CFG) (hG : G.WF) (fuel₀ : Nat) (tb : List (String × Look × Pfl.Prod))
    (htb : table G fuel₀ = some tb) (x : Sym) (w : List String) :
    ∃ n, n + 1 ≤ parseFuel G w ∧
      ((∀ fuel stack out, parseLoop tb (fuel + n) (some x :: stack) w out = some none) ∨
       ∃ c, c ≤ w.length ∧ ∀ fuel stack out, ∃ out',
          parseLoop tb (fuel + n) (some x :: stack) w out = parseLoop tb fuel stack (w.drop c) out') := by
  obtain ⟨f, fo, H⟩ := facts_of_table G hG fuel₀ tb htb
  obtain ⟨n, r, hD, hr, hb⟩ := sym_total H w x
  have hc : r.getD w.length ≤ w.length := by
    cases r with
    | none => exact Nat.le_refl _
    | some c => exact (hr c rfl).1
  have hn := Bd_le_parseSteps (maxBody G) G.vars.length _ _ hc
  refine ⟨n, by unfold parseFuel; omega, ?_⟩
  cases r with
  | none => exact Or.inl (fun fuel stack out => by simpa using hD fuel stack out)
  | some c =>
    refine Or.inr ⟨c, (hr c rfl).1, fun fuel stack out => ?_⟩
    obtain ⟨out', e⟩ := hD fuel stack out
    exact ⟨out', by simpa using e⟩

/-- the tree is rebuilt from a leftmost sequence with a fuel of one more than its length -/
theorem buildTree_isSome (fuel : Nat) (s : Sym) (ss : List Sym) (ps : List Pfl.Prod)
    (w : List String) (h : Lm (s :: ss) ps w) (hf : ps.length + 1 ≤ fuel) :
    (buildTree fuel s ps).isSome := by
  obtain ⟨t, ps', w', e, _, _⟩ := buildTree_total fuel s ss ps w h (by omega)
  rw [e]; rfl

/-- `get_llone_parse_tree` terminates on every well-formed grammar (without a start symbol the
answer is NotParsableException at once, see `parse_no_start`) -/
theorem parse_isSome (G : CFG) (hG : G.WF) (w : List String) (fuel : Nat)
    (hf1 : firstFuel G ≤ fuel) (hf2 : followFuel G ≤ fuel) (hf3 : parseFuel G w ≤ fuel) :
    (parse G w fuel).isSome := by
  obtain ⟨tb, htb⟩ := Option.isSome_iff_exists.mp (table_isSome G fuel hf1 hf2)
  cases hst : G.start with
  | none => unfold parse; rw [hst]; rfl
  | some s =>
  have hloop := parseLoop_isSome G hG fuel tb htb s w fuel hf3
  unfold parse
  rw [hst]
  simp only
  rw [htb]
  simp only
  obtain ⟨r, hr⟩ := Option.isSome_iff_exists.mp hloop
  rw [hr]
  cases r with
  | none => rfl
  | some ps =>
    simp only
    obtain ⟨ps', h1, h2, _⟩ := parseLoop_lm (fun _ => True) tb
      (fun e he => ⟨trivial, (table_entry G fuel tb htb e he).2⟩) fuel [.var s] w [] ps hr
    simp only [List.reverse_nil, List.nil_append] at h1
    subst h1
    have hlen := parseLoop_out_length tb fuel _ w [] ps hr
    simp only [List.length_nil, Nat.zero_add] at hlen
    obtain ⟨t, ps'', w', e, hl, _⟩ := buildTree_total fuel (.var s) [] ps w h2 (by omega)
    obtain ⟨rfl, _⟩ := lm_nil_inv hl
    rw [e]
    rfl

/-- total correctness: with enough fuel the answer is NotParsableException or a parse tree of `w` -/
theorem parse_total (G : CFG) (hG : G.WF) (w : List String) (fuel : Nat)
    (hf1 : firstFuel G ≤ fuel) (hf2 : followFuel G ≤ fuel) (hf3 : parseFuel G w ≤ fuel) :
    parse G w fuel = some none ∨
      ∃ t, parse G w fuel = some (some t) ∧ G.treeValid t w = true := by
  obtain ⟨r, hr⟩ := Option.isSome_iff_exists.mp (parse_isSome G hG w fuel hf1 hf2 hf3)
  cases r with
  | none => exact Or.inl hr
  | some t => exact Or.inr ⟨t, hr, parse_valid G w fuel t hr⟩

/-- in particular for every grammar object of the library (`CFG.__init__` registers the symbols) -/
theorem parse_isSome_mk' (vars ters : List String) (start : String) (prods : List Pfl.Prod)
    (w : List String) (fuel : Nat)
    (hf1 : firstFuel (mk' vars ters (some start) prods) ≤ fuel)
    (hf2 : followFuel (mk' vars ters (some start) prods) ≤ fuel)
    (hf3 : parseFuel (mk' vars ters (some start) prods) w ≤ fuel) :
    (parse (mk' vars ters (some start) prods) w fuel).isSome :=
  parse_isSome _ (mk'_wf _ _ _ _) w fuel hf1 hf2 hf3

/-- without a start symbol the answer is NotParsableException, whatever the word and the fuel -/
theorem parse_no_start (G : CFG) (h : G.start = none) (w : List String) (fuel : Nat) :
    parse G w fuel = some none := by
  unfold parse
  rw [h]

/-! ### examples -/

/-- `S → A A, A → B B, B → ε` -/
def dbl3 : CFG :=
  CFG.mk' [] [] (some "S") [("S", [.var "A", .var "A"]), ("A", [.var "B", .var "B"]), ("B", [])]

/-- `S → A A, A → B B, B → C C, C → ε` -/
def dbl4 : CFG :=
  CFG.mk' [] [] (some "S")
    [("S", [.var "A", .var "A"]), ("A", [.var "B", .var "B"]), ("B", [.var "C", .var "C"]), ("C", [])]

/-- left recursion -/
def leftRec : CFG := CFG.mk' [] [] (some "S") [("S", [.var "S", .ter "a"]), ("S", [.ter "a"])]

/-- left recursion hidden behind a nullable variable -/
def hiddenRec : CFG :=
  CFG.mk' [] [] (some "S") [("S", [.var "A", .var "S", .ter "a"]), ("S", [.ter "b"]), ("A", [])]

/-- a unit cycle -/
def unitCycle : CFG :=
  CFG.mk' [] [] (some "S") [("S", [.var "A"]), ("A", [.var "S"]), ("A", [.ter "a"])]

/-- a non-generating left-recursive variable whose cells hold a single production each -/
def selfLoop : CFG := CFG.mk' [] [] (some "S") [("S", [.var "A", .var "S"]), ("A", [.ter "a"]), ("A", [])]

/-- not LL(1), still used by the library -/
def notLL1 : CFG :=
  CFG.mk' [] [] (some "S") [("S", [.ter "a", .var "S"]), ("S", [.ter "a"]), ("S", [.ter "b"])]

theorem examples_wf : dbl3.WF ∧ dbl4.WF ∧ leftRec.WF ∧ hiddenRec.WF ∧ unitCycle.WF ∧ selfLoop.WF ∧
    notLL1.WF :=
  ⟨mk'_wf _ _ _ _, mk'_wf _ _ _ _, mk'_wf _ _ _ _, mk'_wf _ _ _ _, mk'_wf _ _ _ _, mk'_wf _ _ _ _,
    mk'_wf _ _ _ _⟩

/-- the fuels of the theorem on the examples -/
theorem examples_fuel :
    (firstFuel dbl3, followFuel dbl3, parseFuel dbl3 []) = (15, 19, 125) ∧
    (firstFuel dbl4, followFuel dbl4, parseFuel dbl4 []) = (24, 34, 316) ∧
    (firstFuel hiddenRec, followFuel hiddenRec, parseFuel hiddenRec ["b", "a"]) = (20, 101, 361) := by
  decide +kernel

/-- non-vacuity of `parse_isSome` / `parse_total` -/
example : (parse hiddenRec ["b", "a"] 361).isSome :=
  parse_isSome hiddenRec examples_wf.2.2.2.1 _ 361 (by decide +kernel) (by decide +kernel)
    (by decide +kernel)

/-- the step bound must be exponential in the number of variables: with bodies of length 2 the
empty word takes exactly 8 steps with three variables and 16 with four -/
theorem steps_double :
    ((table dbl3 19).map fun tb =>
      ((parseLoop tb 7 [some (.var "S"), none] [] []).isSome,
       (parseLoop tb 8 [some (.var "S"), none] [] []).isSome)) = some (false, true) ∧
    ((table dbl4 34).map fun tb =>
      ((parseLoop tb 15 [some (.var "S"), none] [] []).isSome,
       (parseLoop tb 16 [some (.var "S"), none] [] []).isSome)) = some (false, true) := by
  decide +kernel

/-- `some false`: NotParsableException, `some true`: a tree, `none`: out of fuel -/
def outcome (r : Option (Option PTree)) : Option Bool := r.map Option.isSome

/-- left recursion, open or hidden, unit cycles and useless loops end in NotParsableException,
because the cell met holds two productions or none -/
theorem recursion_rejected :
    outcome (parse leftRec ["a"] 100) = some false ∧
    outcome (parse leftRec ["a", "a"] 100) = some false ∧
    outcome (parse hiddenRec ["b"] 361) = some false ∧
    outcome (parse hiddenRec ["b", "a"] 361) = some false ∧
    outcome (parse unitCycle ["a"] 100) = some false ∧
    outcome (parse selfLoop ["a"] 100) = some false ∧
    outcome (parse selfLoop [] 100) = some false := by
  decide +kernel

/-- the leftmost sequence of productions the machine emits (`buildTree` does not reduce in the
kernel, so the examples with a tree are stated on the machine and completed by the theorems) -/
def emitted (G : CFG) (w : List String) (fuel : Nat) : Option (Option (List Pfl.Prod)) :=
  match G.start with
  | none => some none
  | some s =>
    match table G fuel with
    | none => none
    | some tb => parseLoop tb fuel [some (.var s), none] w []

theorem parse_reject_inv (G : CFG) (w : List String) (fuel : Nat) (h : parse G w fuel = some none) :
    emitted G w fuel = some none := by
  unfold parse at h
  unfold emitted
  split at h
  · next hst => rw [hst]
  · next s hst =>
    rw [hst]
    split at h
    · cases h
    · next tb htb =>
      simp only [htb]
      split at h
      · cases h
      · next hl => exact hl
      · split at h <;> cases h

/-- when the machine emits a sequence, a valid tree is returned -/
theorem parse_tree_of_emitted (G : CFG) (hG : G.WF) (w : List String) (fuel : Nat)
    (hf1 : firstFuel G ≤ fuel) (hf2 : followFuel G ≤ fuel) (hf3 : parseFuel G w ≤ fuel)
    (ps : List Pfl.Prod) (h : emitted G w fuel = some (some ps)) :
    ∃ t, parse G w fuel = some (some t) ∧ G.treeValid t w = true := by
  rcases parse_total G hG w fuel hf1 hf2 hf3 with h1 | h1
  · rw [parse_reject_inv G w fuel h1] at h; cases h
  · exact h1

/-- a grammar that is not LL(1) still yields trees for the words that only meet single-entry
cells -/
theorem notLL1_used :
    isLLOne notLL1 100 = some false ∧
    emitted notLL1 ["b"] 100 = some (some [("S", [.ter "b"])]) ∧
    emitted notLL1 ["a", "b"] 100 = some none := by
  decide +kernel

theorem notLL1_tree : ∃ t, parse notLL1 ["b"] 100 = some (some t) ∧ notLL1.treeValid t ["b"] = true :=
  parse_tree_of_emitted notLL1 examples_wf.2.2.2.2.2.2 ["b"] 100 (by decide +kernel)
    (by decide +kernel) (by decide +kernel) _ notLL1_used.2.1

theorem dbl3_emitted :
    emitted dbl3 [] 125 = some (some [("S", [.var "A", .var "A"]), ("A", [.var "B", .var "B"]),
      ("B", []), ("B", []), ("A", [.var "B", .var "B"]), ("B", []), ("B", [])]) := by
  decide +kernel

theorem dbl3_tree : ∃ t, parse dbl3 [] 125 = some (some t) ∧ dbl3.treeValid t [] = true :=
  parse_tree_of_emitted dbl3 examples_wf.1 [] 125 (by decide +kernel)
    (by decide +kernel) (by decide +kernel) _ dbl3_emitted

end LL1Lib
end Pfl
