/-
C10 — substitution, and through it union / concatenation / closures, build exactly the intended
language.
-/
import Pfl.Proofs.CFGBase
import Pfl.Props.C09_Clean
import Pfl.Proofs.CFGSubst
namespace Pfl
namespace CFG
open Pfl.CFG.Sub

/-- `w` is obtained from the terminal word `u` by replacing every occurrence of a substituted
terminal by a word of its grammar (other terminals stay) -/
inductive SubstWord (subst : List (String × CFG)) : List String → List String → Prop
  | nil : SubstWord subst [] []
  | keep {t : String} {u w : List String} :
      (∀ e ∈ subst, e.1 ≠ t) → SubstWord subst u w → SubstWord subst (t :: u) (t :: w)
  | repl {t : String} {H : CFG} {v u w : List String} :
      (t, H) ∈ subst → H.Lang v → SubstWord subst u w → SubstWord subst (t :: u) (v ++ w)

/-- hypotheses of `substitute_lang`: every grammar involved is well-formed (its productions only
use its declared variables and terminals, its start symbol is one of its variables), the substituted
terminals (the keys) are pairwise different, and every substituted grammar has a start symbol (the
library leaves the terminal in place when it has none).  Nothing is asked about the spelling of
terminals and variables: a terminal may be spelled like a variable of any grammar involved, the
renaming only ever touches variables and the substituted terminals. -/
structure SubstOK (G : CFG) (subst : List (String × CFG)) : Prop where
  wfG : G.WF
  wfH : ∀ e ∈ subst, e.2.WF
  keys : (subst.map (·.1)).Nodup
  startH : ∀ e ∈ subst, e.2.start ≠ none

theorem substitute_lang (G : CFG) (subst : List (String × CFG)) (h : SubstOK G subst) (w : List String) :
    (G.substitute subst).Lang w ↔ ∃ u, G.Lang u ∧ SubstWord subst u w := by
  have ok : OK G subst :=
    { wfG := h.wfG, wfH := h.wfH, keys := h.keys, startH := h.startH }
  have e : ∀ u w, SubstWord subst u w ↔ SW subst u w := by
    intro u w
    constructor
    · intro h
      induction h with
      | nil => exact .nil
      | keep h1 _ ih => exact .keep h1 ih
      | repl h1 h2 _ ih => exact .repl h1 h2 ih
    · intro h
      induction h with
      | nil => exact .nil
      | keep h1 _ ih => exact .keep h1 ih
      | repl h1 h2 _ ih => exact .repl h1 h2 ih
  simp only [e]
  exact substitute_lang_sw ok w

theorem union_lang (G H : CFG) (hG : G.WF) (hH : H.WF) (sG : G.start ≠ none) (sH : H.start ≠ none)
    (w : List String) : (G.union H).Lang w ↔ G.Lang w ∨ H.Lang w := by
  exact union_lang' G H hG hH sG sH w

theorem concatenate_lang (G H : CFG) (hG : G.WF) (hH : H.WF) (sG : G.start ≠ none) (sH : H.start ≠ none)
    (w : List String) : (G.concatenate H).Lang w ↔ ∃ u v, w = u ++ v ∧ G.Lang u ∧ H.Lang v := by
  exact concatenate_lang' G H hG hH sG sH w

theorem closure_lang (G : CFG) (hG : G.WF) (sG : G.start ≠ none) (w : List String) :
    G.closure.Lang w ↔ ∃ ws : List (List String), w = ws.flatten ∧ ∀ x ∈ ws, G.Lang x := by
  exact closure_lang' G hG sG w

theorem posClosure_lang (G : CFG) (hG : G.WF) (sG : G.start ≠ none) (w : List String) :
    G.posClosure.Lang w ↔ ∃ ws : List (List String), ws ≠ [] ∧ w = ws.flatten ∧ ∀ x ∈ ws, G.Lang x := by
  exact posClosure_lang' G hG sG w

end CFG
end Pfl
