/-
C01 — acceptance is run semantics; determinise / ε-removal / copy keep the language and
have the advertised shape.  Property theorems only (helper lemmas live in Pfl/Proofs).
-/
import Pfl.Proofs.FABase
namespace Pfl
namespace ENFA
variable {σ κ : Type} [DecidableEq σ] [DecidableEq κ]

theorem removeEps_lang (A : ENFA σ) (h : A.WF) (w : List Nat) :
    A.removeEps.Lang w ↔ A.Lang w := by
  sorry

theorem removeEps_epsFree (A : ENFA σ) : A.removeEps.EpsFree := by
  sorry

theorem copyE_lang (A : ENFA σ) (h : A.WF) (w : List Nat) : A.copyE.Lang w ↔ A.Lang w := by
  sorry

theorem copyD_lang (A : ENFA σ) (h : A.WF) (hd : A.Deterministic) (he : A.EpsFree)
    (w : List Nat) : A.copyD.Lang w ↔ A.Lang w := by
  sorry

end ENFA
end Pfl
