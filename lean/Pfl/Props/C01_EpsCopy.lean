/-
C01 — acceptance is run semantics; determinise / ε-removal / copy keep the language and
have the advertised shape.  Property theorems only (helper lemmas live in Pfl/Proofs).
-/
import Pfl.Proofs.FABase
import Pfl.Proofs.FAEpsCopy
namespace Pfl
namespace ENFA
variable {σ κ : Type} [DecidableEq σ] [DecidableEq κ]

theorem removeEps_lang (A : ENFA σ) (h : A.WF) (w : List Nat) :
    A.removeEps.Lang w ↔ A.Lang w :=
  removeEps_lang' A h w

theorem removeEps_epsFree (A : ENFA σ) : A.removeEps.EpsFree :=
  removeEps_epsFree' A

theorem copyE_lang (A : ENFA σ) (h : A.WF) (w : List Nat) : A.copyE.Lang w ↔ A.Lang w :=
  lang_congr (fun q => by unfold copyE; rw [mem_ofParts_starts])
    (fun q => by unfold copyE; rw [mem_ofParts_finals]) (mem_copyE_delta A h) w

theorem copyD_lang (A : ENFA σ) (h : A.WF) (hd : A.Deterministic) (he : A.EpsFree)
    (w : List Nat) : A.copyD.Lang w ↔ A.Lang w :=
  lang_congr (mem_copyD_starts A hd)
    (fun q => by unfold copyD; rw [mem_ofParts_finals]) (mem_copyD_delta A h hd he) w

end ENFA
end Pfl
