/-
C20 — `RecursiveAutomaton.from_ebnf`, end to end: one box per non-terminal, whose automaton accepts
exactly the alternatives of that non-terminal's right-hand sides.

* G1 (`bodies_lines`, `group_spec`): the line reader (`splitlines`, `strip`, `"->" in`, `split("->")`,
  the `productions` dict) on a text of rule lines `head -> body` returns the heads in order of first
  appearance, each with its bodies ("epsilon" for an empty body, `Epsilon().to_text()`) joined by " | ".
* G2 (`grouped_parse`, `readRules_rules`): when every non-empty body is the blank-joined token text of a
  well-formed expression (over `A3e`: the alphabet `A3` of `parse_grammar` plus the word "epsilon",
  which `A3` excludes although the reader takes it as the ε node; `A3e_iff`, `toks_A3e`,
  `parse_grammar_e`, `wf_mono`) whose tokens are free of white space and of "->", the text of a head is the
  blank-joined token text of the alternation of its alternatives (`altAll`: re-nested to the right,
  the only nesting `E.WF` admits), and the regex reader returns the tree of that alternation.
* G3 (`fromEbnf_box_lang`): the box built from that tree (Thompson, subset construction, Hopcroft,
  quotient) accepts the coding of `w` iff `w` is denoted by one of the alternatives of the head
  (`w = []` for an empty right-hand side).

The conditions on tokens are needed and are NOT implied by the token alphabet `A3` of the regex
reader: a plain symbol of `A3` may contain "->" (then the line holds "->" twice: ValueError,
`arrow_in_symbol`), a line break or other white space (`IsPl` only excludes the blank), and the escape
`\ ` (backslash, blank) at the end of a body is cut by `strip`.
-/
import Pfl.Proofs.EbnfRegex
import Pfl.Props.C05_Grammar
import Pfl.Props.C20_Boxes
namespace Pfl
namespace Ebnf
open Pfl.TextCodec Pfl.Ebnf.Lem Pfl.PyRx.E2E Pfl.PyRx.E2E.E

/-! ### G1: the text side -/

/-- the line reader on a text of rule lines (no final newline): the fold of `addBody` over the lines.
`Head h`: non-empty, no `isSpace` character, no "->"; `Body t`: `strip t = t`, no line break, no "->" -/
theorem bodies_lines (ls : List (List Char × List Char))
    (hh : ∀ l ∈ ls, Head l.1) (hb : ∀ l ∈ ls, Body l.2) :
    bodies (joinWith ['\n'] (ls.map fun l => l.1 ++ " -> ".toList ++ l.2)) = some (group ls) :=
  bodies_textOf ls fun l hl => ⟨hh l hl, hb l hl⟩

/-- the same for a text that ends with a newline -/
theorem bodies_lines_nl (ls : List (List Char × List Char))
    (hh : ∀ l ∈ ls, Head l.1) (hb : ∀ l ∈ ls, Body l.2) :
    bodies (joinWith ['\n'] (ls.map fun l => l.1 ++ " -> ".toList ++ l.2) ++ ['\n']) =
      some (group ls) :=
  bodies_textOf_nl ls fun l hl => ⟨hh l hl, hb l hl⟩

/-- the dict: heads in order of first appearance; the text of head `h` is the bodies of the lines
with head `h`, in order, "epsilon" for an empty body, joined by " | " -/
theorem group_spec (ls : List (List Char × List Char)) :
    group ls = ((ls.map (·.1)).eraseDups).map fun h =>
      (h, joinWith " | ".toList
        ((ls.filter (·.1 = h)).map fun l => if l.2.isEmpty then "epsilon".toList else l.2)) :=
  Lem.group_spec ls

/-! ### G2: the bodies are read by the regex reader -/

/-- the rules: (head, right-hand side), `none` for the empty right-hand side.  For rules satisfying
`RuleOK` (head as in G1; expression well formed over `A3e`, its tokens free of white space and "->")
the dict holds, for every head, the token text of the alternation of its alternatives, and the
reader returns the tree of that alternation. -/
theorem grouped_parse (rs : List (List Char × Option E)) (hok : ∀ r ∈ rs, RuleOK r) :
    bodies (textOf (rawLines rs)) =
      some ((heads (rawLines rs)).map fun h =>
        (h, RegexReader.joinBlank (flat (altAll (exprs rs h))))) ∧
    ∀ h ∈ heads (rawLines rs), WF A3e (altAll (exprs rs h)) ∧
      ∀ fuel, E.need (altAll (exprs rs h)) ≤ fuel →
        RegexReader.parse fuel (RegexReader.joinBlank (flat (altAll (exprs rs h)))) =
          .ok (tree (altAll (exprs rs h))) := by
  refine ⟨?_, ?_⟩
  · rw [bodies_textOf _ (rawLines_ok rs hok), group_rawLines rs hok]
  · intro h hh
    have hwf : WF A3e (altAll (exprs rs h)) := by
      apply wf_altAll _ (exprs_ne_nil rs h hh)
      intro e he
      obtain ⟨r, hr, -, rfl⟩ := (mem_exprs rs h e).mp he
      exact wf_exprOf r (hok r hr)
    exact ⟨hwf, fun fuel hf => parse_grammar_e _ hwf fuel hf⟩

/-- the loop of `from_ebnf` up to the trees: every body text is handed to the regex reader -/
def readRules (fuel : Nat) (text : List Char) : Option (List (List Char × Except RegexReader.Err Rx)) :=
  (bodies text).map fun d => d.map fun p => (p.1, RegexReader.parse fuel p.2)

/-- one tree per head, in order of first appearance: the alternation of the head's alternatives -/
theorem readRules_rules (rs : List (List Char × Option E)) (hok : ∀ r ∈ rs, RuleOK r) (fuel : Nat)
    (hf : ∀ h ∈ heads (rawLines rs), E.need (altAll (exprs rs h)) ≤ fuel) :
    readRules fuel (textOf (rawLines rs)) =
      some ((heads (rawLines rs)).map fun h => (h, .ok (tree (altAll (exprs rs h))))) := by
  obtain ⟨h1, h2⟩ := grouped_parse rs hok
  rw [readRules, h1, Option.map_some, List.map_map]
  congr 1
  apply List.map_congr_left
  intro h hh
  simp only [Function.comp]
  rw [(h2 h hh).2 fuel (hf h hh)]

/-- the fuel the reader needs for a head: the needs of the alternatives plus their number -/
theorem need_head (rs : List (List Char × Option E)) (h : List Char) (hh : h ∈ heads (rawLines rs)) :
    E.need (altAll (exprs rs h)) + 1 = ((exprs rs h).map E.need).sum + (exprs rs h).length :=
  need_altAll _ (exprs_ne_nil rs h hh)

/-! ### G3: the boxes -/

/-- the words of a right-hand side -/
def RhsDenotes : Option E → List String → Prop
  | none, w => w = []
  | some e, w => Rx.Denote (tree e) w

theorem denote_exprOf (o : Option E) (w : List String) :
    Rx.Denote (tree (exprOf o)) w ↔ RhsDenotes o w := by
  cases o with
  | none => rw [exprOf, tree_epsilon]; exact Rx.Lem.eps_denote w
  | some e => exact Iff.rfl

/-- the tree of a head denotes the words of its alternatives -/
theorem denote_head (rs : List (List Char × Option E)) (h : List Char)
    (hh : h ∈ heads (rawLines rs)) (w : List String) :
    Rx.Denote (tree (altAll (exprs rs h))) w ↔ ∃ r ∈ rs, r.1 = h ∧ RhsDenotes r.2 w := by
  rw [denote_altAll _ w (exprs_ne_nil rs h hh)]
  constructor
  · rintro ⟨e, he, hd⟩
    obtain ⟨r, hr, e1, rfl⟩ := (mem_exprs rs h e).mp he
    exact ⟨r, hr, e1, (denote_exprOf _ w).mp hd⟩
  · rintro ⟨r, hr, e1, hd⟩
    exact ⟨exprOf r.2, (mem_exprs rs h _).mpr ⟨r, hr, e1, rfl⟩, (denote_exprOf _ w).mpr hd⟩

variable {κ μ : Type} [DecidableEq κ] [DecidableEq μ]

/-- end to end: for the text of the rules `rs`, the loop of `from_ebnf` yields one tree per head
(`readRules_rules`), and the box of head `h` — Thompson construction, subset construction,
Hopcroft's loop, quotient, under the hypotheses of `Rx.box_lang` — accepts the coding of a word iff
the word is denoted by one of the right-hand sides of `h` (the empty word for an empty one) -/
theorem fromEbnf_box_lang (rs : List (List Char × Option E)) (hok : ∀ r ∈ rs, RuleOK r) (fuel : Nat)
    (hf : ∀ h ∈ heads (rawLines rs), E.need (altAll (exprs rs h)) ≤ fuel) :
    ∃ trees : List (List Char × Rx),
      readRules fuel (textOf (rawLines rs)) = some (trees.map fun p => (p.1, .ok p.2)) ∧
      trees.map (·.1) = (rs.map (·.1)).eraseDups ∧
      ∀ p ∈ trees, ∀ (code : String → Nat) (c : Nat)
        (key : List Nat → κ) (_ : (p.2.thompson code c).1.KeyInj key)
        (fuel1 : Nat) (D : ENFA κ) (_ : (p.2.thompson code c).1.toDet key true fuel1 = some D)
        (fuel2 : Nat) (gs : List (List (Option κ))) (_ : D.hopcroft fuel2 = some gs)
        (name : List (Option κ) → μ) (_ : ∀ g ∈ gs, ∀ g' ∈ gs, name g = name g' → g = g')
        (emptyName : μ) (ks : List Nat),
        (D.minimizeOf gs name emptyName).Lang ks ↔
          ∃ w, (∃ r ∈ rs, r.1 = p.1 ∧ RhsDenotes r.2 w) ∧ w.map code = ks := by
  refine ⟨(heads (rawLines rs)).map fun h => (h, tree (altAll (exprs rs h))), ?_, ?_, ?_⟩
  · rw [readRules_rules rs hok fuel hf, List.map_map]
    rfl
  · rw [List.map_map, ← heads_rawLines]
    simp [Function.comp_def]
  · intro p hp code c key hk fuel1 D hD fuel2 gs hgs name hname emptyName ks
    obtain ⟨h, hh, rfl⟩ := List.mem_map.mp hp
    rw [Rx.box_lang _ code c key hk fuel1 D hD fuel2 gs hgs name hname emptyName ks]
    simp only [denote_head rs h hh]

/-! ### the token conditions are needed -/

/-- "a->b" is a plain symbol of the reader's alphabet `A3`, but a rule line with it holds "->"
twice: `head, body = production.split("->")` raises ValueError -/
theorem arrow_in_symbol :
    A3 "a->b".toList ∧ bodies "S -> a->b".toList = none := by
  refine ⟨Or.inr (Or.inl ⟨⟨by decide, ?_⟩, by decide⟩), by decide +kernel⟩
  intro c hc
  have : c ∈ ['a', '-', '>', 'b'] := hc
  simp only [List.mem_cons, List.not_mem_nil, or_false] at this
  rcases this with rfl | rfl | rfl | rfl <;> decide

/-- the escape `\ ` (backslash, blank) is a token of `A3`; at the end of a body it loses its blank -/
theorem escaped_blank_at_end :
    A3 ['\\', ' '] ∧ bodies "S -> a \\ ".toList = some [("S".toList, "a \\".toList)] :=
  ⟨Or.inr (Or.inr ⟨' ', rfl⟩), by decide +kernel⟩

/-- a plain symbol of `A3` may contain a line break; the rule is cut there -/
theorem linebreak_in_symbol :
    A3 "a\nb".toList ∧ bodies "S -> a\nb".toList = some [("S".toList, "a".toList)] := by
  refine ⟨Or.inr (Or.inl ⟨⟨by decide, ?_⟩, by decide⟩), by decide +kernel⟩
  intro c hc
  have : c ∈ ['a', '\n', 'b'] := hc
  simp only [List.mem_cons, List.not_mem_nil, or_false] at this
  rcases this with rfl | rfl | rfl <;> decide

/-- the spelling written for an empty right-hand side is not a token of `A3` (which is why G2 is
stated over `A3e`), but it is one of `A3e`, and the reader gives the ε tree for it -/
theorem epsilon_token :
    ¬ A3 "epsilon".toList ∧ WF A3e (.tok "epsilon".toList) ∧ tree (.tok "epsilon".toList) = .eps :=
  ⟨epsilon_not_A3, wf_epsilon, tree_epsilon⟩

/-! ### non-vacuity -/

/-- three rule lines: two for `S` (one of them empty), one for `A` -/
def exRules : List (List Char × Option E) :=
  [("S".toList, some (.cat (.tok ['a']) (.tok ['b']))),
   ("S".toList, none),
   ("A".toList, some (.alt (.star (.tok ['c'])) (.tok ['a'])))]

example : textOf (rawLines exRules) = "S -> a b\nS -> \nA -> c * | a".toList := by decide +kernel

example : bodies "S -> a b\nS -> \nA -> c * | a".toList =
    some [("S".toList, "a b | epsilon".toList), ("A".toList, "c * | a".toList)] := by decide +kernel

example : exprs exRules "S".toList = [.cat (.tok ['a']) (.tok ['b']), .tok "epsilon".toList] := by
  rfl

theorem exRules_ok : ∀ r ∈ exRules, RuleOK r := by
  have hS : Head "S".toList := head_char 'S' (by decide)
  have hA : Head "A".toList := head_char 'A' (by decide)
  have ha := wf_tok_char 'a' (by decide)
  have hb := wf_tok_char 'b' (by decide)
  have hc := wf_tok_char 'c' (by decide)
  have pa := plain_char 'a' (by decide)
  have pb := plain_char 'b' (by decide)
  have pc := plain_char 'c' (by decide)
  have pbar := plain_char '|' (by decide)
  have pst := plain_char '*' (by decide)
  intro r hr
  simp only [exRules, List.mem_cons, List.not_mem_nil, or_false] at hr
  rcases hr with rfl | rfl | rfl
  · refine ⟨hS, ?_⟩
    intro e he
    simp only [Option.some.injEq] at he
    subst he
    refine ⟨⟨ha, hb, rfl, by decide⟩, ?_⟩
    intro x hx
    simp only [flat, List.cons_append, List.nil_append, List.mem_cons, List.not_mem_nil,
      or_false] at hx
    rcases hx with rfl | rfl <;> assumption
  · exact ⟨hS, fun e he => by simp at he⟩
  · refine ⟨hA, ?_⟩
    intro e he
    simp only [Option.some.injEq] at he
    subst he
    refine ⟨⟨⟨hc, rfl⟩, ha, by decide⟩, ?_⟩
    intro x hx
    simp only [flat, List.cons_append, List.nil_append, List.mem_cons, List.not_mem_nil,
      or_false] at hx
    rcases hx with rfl | rfl | rfl | rfl <;> assumption

/-- the run observed with the real library: an empty and a spelled-out ε right-hand side -/
example : bodies "S ->  \nS -> epsilon".toList =
    some [("S".toList, "epsilon | epsilon".toList)] := by decide +kernel

/-- the general theorem on the example: the dict, as computed above, holds the alternation texts -/
example : bodies "S -> a b\nS -> \nA -> c * | a".toList =
    some [("S".toList, RegexReader.joinBlank (flat (.alt (.cat (.tok ['a']) (.tok ['b'])) (.tok "epsilon".toList)))),
      ("A".toList, RegexReader.joinBlank (flat (.alt (.star (.tok ['c'])) (.tok ['a']))))] := by
  have := (grouped_parse exRules exRules_ok).1
  rw [show textOf (rawLines exRules) = "S -> a b\nS -> \nA -> c * | a".toList by decide +kernel] at this
  rw [this]
  decide +kernel

/-- the tree read for `S` denotes "a b" and the empty word -/
example : tree (altAll (exprs exRules "S".toList)) = .alt (.cat (.sym "a") (.sym "b")) .eps := by
  decide +kernel

/-- the loop up to the trees, computed on the example -/
example : readRules 10 "S -> a b\nS -> \nA -> c * | a".toList =
    some [("S".toList, .ok (.alt (.cat (.sym "a") (.sym "b")) .eps)),
      ("A".toList, .ok (.alt (.star (.sym "c")) (.sym "a")))] := by
  have := readRules_rules exRules exRules_ok 10 (by
    intro h hh
    have : h ∈ ["S".toList, "A".toList] := hh
    simp only [List.mem_cons, List.not_mem_nil, or_false] at this
    rcases this with rfl | rfl <;> decide +kernel)
  rw [show textOf (rawLines exRules) = "S -> a b\nS -> \nA -> c * | a".toList by decide +kernel] at this
  rw [this]
  rfl

end Ebnf
end Pfl
