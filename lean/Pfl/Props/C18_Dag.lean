/-
C18 — unification of feature structures WITH shared variables, at pointer level (model
`Pfl/Model/FeatureDag.lean` of `FeatureStructure.unify` on the object graphs the harness builds):
it fails exactly when the two structures have no common ground instance, and otherwise leaves a
receiver whose ground instances are exactly the common ones.
-/
import Pfl.Model.FeatureDag
import Pfl.Proofs.FeatureDagLemmas
namespace Pfl
namespace FsDag
open FsGround
open Pfl.FsDag.Lem

/-- a consistently typed flat description over the path set `paths`: every described path is one
of `paths`, at most once; paths have one step, or two steps starting with "agr"; "agr" itself is
not described as a leaf -/
structure Typed (paths : List (List String)) (s : SFS) : Prop where
  sub : ∀ e ∈ s, e.1 ∈ paths
  nodup : (s.map (·.1)).Nodup
  shape : ∀ p ∈ paths, (∃ g, p = [g] ∧ g ≠ "agr") ∨ (∃ g, p = ["agr", g])
  pathsNodup : paths.Nodup

theorem Typed.desc {paths : List (List String)} {s : SFS} (h : Typed paths s) : Desc paths s :=
  ⟨h.sub, h.nodup, h.shape⟩

/-- unification never runs out of fuel on these two-level structures -/
theorem unifySFS_terminates (paths : List (List String)) (a b : SFS) (ha : Typed paths a) (hb : Typed paths b)
    (fuel : Nat) (hf : 4 ≤ fuel) : ∀ st r, unifySFS a b fuel ≠ (.fuel, r) ∧ (unifySFS a b fuel = (.ok st, r) → True) := by
  intro st r
  exact ⟨unifySFS_fuel ha.desc hb.desc fuel (by omega) r, fun _ => trivial⟩

/-- success: the receiver denotes exactly the common ground instances -/
theorem unifySFS_ok (paths : List (List String)) (vals : List String) (a b : SFS)
    (ha : Typed paths a) (hb : Typed paths b) (fuel : Nat) (st : Store) (r : Nat)
    (h : unifySFS a b fuel = (.ok st, r)) (asg : Asg) (hasg : asg ∈ allAsg vals paths) :
    sat (read st r paths) asg = true ↔ (sat a asg = true ∧ sat b asg = true) :=
  unifySFS_ok_desc ha.desc hb.desc h hasg

/-- failure: there is no common ground instance -/
theorem unifySFS_conflict (paths : List (List String)) (vals : List String) (a b : SFS)
    (ha : Typed paths a) (hb : Typed paths b) (fuel : Nat) (r : Nat)
    (h : unifySFS a b fuel = (.conflict, r)) (asg : Asg) (hasg : asg ∈ allAsg vals paths) :
    ¬ (sat a asg = true ∧ sat b asg = true) :=
  unifySFS_conflict_desc ha.desc hb.desc h hasg

end FsDag
end Pfl
