/-
C13 — the PDA acceptance oracle (pop-relation saturation) is exact in both modes.
-/
import Pfl.Spec.PDA
import Pfl.Oracle.PdaAcc
namespace Pfl
namespace PDA
variable {σ γ : Type} [DecidableEq σ] [DecidableEq γ]

theorem accEmpty_iff (P : PDA σ γ) (w : List String) (fuel : Nat) (b : Bool)
    (h : P.accEmpty w fuel = some b) : b = true ↔ P.AccEmpty w := by
  sorry

theorem accFinal_iff (P : PDA σ γ) (w : List String) (fuel : Nat) (b : Bool)
    (h : P.accFinal w fuel = some b) : b = true ↔ P.AccFinal w := by
  sorry

end PDA
end Pfl
