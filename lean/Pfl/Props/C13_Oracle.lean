/-
C13 — the PDA acceptance oracle (pop-relation saturation) is exact in both modes.
-/
import Pfl.Spec.PDA
import Pfl.Oracle.PdaAcc
import Pfl.Proofs.PDAAcc
namespace Pfl
namespace PDA
open Pfl.PDA.Acc
variable {σ γ : Type} [DecidableEq σ] [DecidableEq γ]

theorem accEmpty_iff (P : PDA σ γ) (w : List String) (fuel : Nat) (b : Bool)
    (h : P.accEmpty w fuel = some b) : b = true ↔ P.AccEmpty w := by
  unfold accEmpty at h
  split at h
  · rename_i s z hs hz
    obtain ⟨R, hR, rfl⟩ := Option.map_eq_some_iff.mp h
    obtain ⟨hS, hC⟩ := popSaturate_spec fuel [] R (psound_nil P w) hR
    simp only [List.any_eq_true, decide_eq_true_eq]
    constructor
    · rintro ⟨⟨q0, x0, i0, q', j⟩, hr, h1, h2, h3, h4⟩
      simp only at h1 h2 h3 h4
      subst h1 h2 h3 h4
      have := popsL_steps ((mem_sat_iff hS hC _ _ _ _ _).mp hr) []
      simp only [List.drop_zero, List.drop_length, List.append_nil] at this
      exact ⟨_, _, q', hs, hz, this⟩
    · rintro ⟨s', z', q', hs', hz', hrun⟩
      rw [hs] at hs'; rw [hz] at hz'
      cases hs'; cases hz'
      have := popsL_of_steps (w := w) hrun s 0 [z] q' (Nat.zero_le _) (by simp) rfl
      exact ⟨_, (mem_sat_iff hS hC _ _ _ _ _).mpr this, rfl, rfl, rfl, rfl⟩
  · rename_i hn
    cases h
    constructor
    · intro h; cases h
    · rintro ⟨s, z, q, hs, hz, _⟩
      exact (hn s z hs hz).elim

theorem accFinal_iff (P : PDA σ γ) (w : List String) (fuel : Nat) (b : Bool)
    (h : P.accFinal w fuel = some b) : b = true ↔ P.AccFinal w := by
  unfold accFinal at h
  split at h
  · rename_i s z hs hz
    split at h
    · cases h
    · rename_i R hR
      obtain ⟨F, hF, rfl⟩ := Option.map_eq_some_iff.mp h
      obtain ⟨hS, hC⟩ := popSaturate_spec fuel [] R (psound_nil P w) hR
      obtain ⟨hFS, hFC⟩ := finSaturate_spec (popChain_sound hS) fuel [] F (fsound_nil P w) hF
      simp only [Bool.or_eq_true, List.any_eq_true, decide_eq_true_eq]
      constructor
      · rintro ((⟨hf, hw⟩ | hmem) | ⟨⟨q0, x0, i0, q', j⟩, hr, h1, h2, h3, h4, h5⟩)
        · have hw' : w = [] := List.eq_nil_of_length_eq_zero hw
          subst hw'
          exact ⟨s, z, s, [z], hs, hz, hf, .refl _⟩
        · obtain ⟨f, hf, β', hrun⟩ := finFrom_steps (hFS _ hmem) []
          exact ⟨s, z, f, β', hs, hz, hf, by simpa using hrun⟩
        · simp only at h1 h2 h3 h4 h5
          subst h1 h2 h3 h5
          have := popsL_steps ((mem_sat_iff hS hC _ _ _ _ _).mp hr) []
          simp only [List.drop_zero, List.drop_length, List.append_nil] at this
          exact ⟨_, _, q', [], hs, hz, h4, this⟩
      · rintro ⟨s', z', f, β, hs', hz', hf, hrun⟩
        rw [hs] at hs'; rw [hz] at hz'
        cases hs'; cases hz'
        obtain ⟨pre, post, q', j, hl, hp, hfin⟩ :=
          finChain_of_steps (w := w) hrun s 0 [z] f β (Nat.zero_le _) (by simp) rfl hf
        cases pre with
        | nil =>
          obtain ⟨rfl, rfl⟩ := popsL_nil_inv hp
          rcases hfin with ⟨hf', hj⟩ | ⟨x, post', hpost, hx⟩
          · exact Or.inl (Or.inl ⟨hf', hj.symm⟩)
          · simp only [List.nil_append] at hl
            subst hpost
            cases hl
            exact Or.inl (Or.inr (finFrom_complete (fun _ _ _ _ _ h => popChain_complete hC h) hFC hx))
        | cons y pre' =>
          simp only [List.cons_append, List.cons.injEq] at hl
          obtain ⟨rfl, hl⟩ := hl
          obtain ⟨rfl, rfl⟩ := List.append_eq_nil_iff.mp hl.symm
          rcases hfin with ⟨hf', hj⟩ | ⟨x, post', hpost, _⟩
          · exact Or.inr ⟨_, (mem_sat_iff hS hC _ _ _ _ _).mpr hp, rfl, rfl, rfl, hf', hj⟩
          · cases hpost
  · rename_i hn
    cases h
    constructor
    · intro h; cases h
    · rintro ⟨s, z, f, β, hs, hz, _⟩
      exact (hn s z hs hz).elim

end PDA
end Pfl
