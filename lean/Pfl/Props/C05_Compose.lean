/-
Compositions of proved pieces (C05 / C06 / C11): `Regex.accepts`, the round trip
`to_regex().to_epsilon_nfa()`, and `PDA.intersection(regex)`.
-/
import Pfl.Props.C05_Regex
import Pfl.Props.C06_ToRegex
import Pfl.Props.C01_Accepts
import Pfl.Props.C01_Det
import Pfl.Props.C13_ToCFG
namespace Pfl

/-- words with the same codes under an injective coding are equal -/
theorem map_inj_of_inj {α β : Type} (f : α → β) (hf : ∀ a b, f a = f b → a = b) :
    ∀ (u w : List α), u.map f = w.map f → u = w := by
  intro u
  induction u with
  | nil => intro w h; cases w <;> simp_all
  | cons x u ih =>
    intro w h
    cases w with
    | nil => simp at h
    | cons y w =>
      simp only [List.map_cons, List.cons.injEq] at h
      rw [hf x y h.1, ih w h.2]

namespace Rx

/-- `Regex.accepts(word)`: the Thompson automaton run on the coded word -/
theorem regexAccepts_iff (r : Rx) (code : String → Nat) (hcode : ∀ s t, code s = code t → s = t)
    (c : Nat) (w : List String) :
    (r.thompson code c).1.acceptsE (w.map fun s => some (code s)) = true ↔ Denote r w := by
  rw [ENFA.acceptsE_iff]
  have : (w.map fun s => some (code s)).filterMap id = w.map code := by
    induction w with
    | nil => rfl
    | cons a w ih => simp
  rw [this, thompson_lang]
  constructor
  · rintro ⟨u, hu, hm⟩
    rwa [← map_inj_of_inj code hcode u w hm]
  · intro h
    exact ⟨w, h, rfl⟩

end Rx

namespace ENFA
variable {σ : Type} [DecidableEq σ]

/-- `fa.to_regex().to_epsilon_nfa()` accepts the language of `fa` -/
theorem toRegex_roundtrip_lang (A : ENFA σ) (hA : A.WF) (symName : Nat → String) (code : String → Nat)
    (hcode : ∀ a, code (symName a) = a) (order : σ → List (Option σ)) (c : Nat) (w : List Nat) :
    ((A.toRegexRx symName order).thompson code c).1.Lang w ↔ A.Lang w := by
  rw [Rx.thompson_lang]
  have hmap : ∀ v : List Nat, (v.map symName).map code = v := by
    intro v; induction v with
    | nil => rfl
    | cons a v ih => simp [hcode a, ih]
  constructor
  · rintro ⟨u, hu, rfl⟩
    obtain ⟨w', rfl, hw'⟩ := (toRegexRx_lang A hA symName order u).1 hu
    rwa [hmap]
  · intro h
    exact ⟨w.map symName, (toRegexRx_lang A hA symName order _).2 ⟨w, rfl, h⟩, hmap w⟩

end ENFA

namespace PDA
variable {σ γ κ : Type} [DecidableEq σ] [DecidableEq γ] [DecidableEq κ]

/-- `PDA.intersection(regex)`: Thompson automaton, subset construction, product -/
theorem interRegex_lang (P : PDA σ γ) (hP : P.WF) (r : Rx) (code : String → Nat) (c : Nat)
    (hcode : ∀ s t, code s = code t → s = t)
    (symOf : String → Option Nat) (hsym : ∀ s, symOf s = some (code s))
    (key : List Nat → κ) (hk : (r.thompson code c).1.KeyInj key)
    (fuel1 : Nat) (D : ENFA κ) (hD : (r.thompson code c).1.toDet key true fuel1 = some D)
    (fuel2 : Nat) (Q : PDA (σ × κ) γ) (hQ : P.inter D symOf fuel2 = some Q) (w : List String) :
    Q.AccFinal w ↔ P.AccFinal w ∧ Rx.Denote r w := by
  obtain ⟨dD, eD⟩ := ENFA.toDet_shape _ key true fuel1 D hD
  rw [inter_lang P hP D dD eD symOf fuel2 Q hQ w]
  have hmap : w.mapM symOf = some (w.map code) := by
    induction w with
    | nil => rfl
    | cons a w ih => simp [List.mapM_cons, hsym a, ih]
  constructor
  · rintro ⟨hp, ks, hks, hl⟩
    rw [hmap] at hks
    cases hks
    obtain ⟨u, hu, hm⟩ := (Rx.thompson_lang code r c _).1
      ((ENFA.toDet_lang _ (Rx.thompson_wf code r c) key hk fuel1 D hD _).1 hl)
    exact ⟨hp, by rwa [← map_inj_of_inj code hcode u w hm]⟩
  · rintro ⟨hp, hr⟩
    exact ⟨hp, w.map code, hmap,
      (ENFA.toDet_lang _ (Rx.thompson_wf code r c) key hk fuel1 D hD _).2
        ((Rx.thompson_lang code r c _).2 ⟨w, hr, rfl⟩)⟩

end PDA
end Pfl
