/-
Non-vacuity witnesses, second part: the property theorems added after `Pfl/Props/NonVacuity.lean`
(`C18_Dag`, `C17_Inter`) and the hypotheses / fuelled functions of `C06_ToRegex`, `C03_Regexable`,
`C05_Compose`, `C16_ToFST`, `C20_Labels`, `C15_RecDescent`, `C07_Desugar`, `C20_Boxes` that had no
concrete instance there.  Same discipline: every witness is checked by the kernel (`decide`,
`decide +kernel`, `rfl`, `simp`, short manual proofs; no `sorry`, no `native_decide`).
-/
import Pfl.Props.NonVacuity
import Pfl.Props.C17_Inter
import Pfl.Props.C18_Dag

namespace Pfl
namespace NonVacuity2
open NonVacuity

/-! ## 1. Feature structures with sharing (C18_Dag) -/
section Dag
open FsDag FsGround FsDag.Lem

/-- `unify.go` with the recursive call abstracted: a structurally recursive (hence kernel-reducible)
copy of the library model, which is compiled by well-founded recursion -/
def goK (u : Store → Nat → Nat → Res) (ca : Nat) : Store → List (String × Nat) → Res
  | st, [] => .ok st
  | st, (g, y) :: rest =>
    match u (fieldOf st ca g).1 (fieldOf st ca g).2 y with
    | .ok st2 => goK u ca st2 rest
    | r => r

def unifyK : Nat → Store → Nat → Nat → Res
  | 0, _, _, _ => .fuel
  | f+1, st, a, b =>
      if deref st a = deref st b then .ok st else
      if cont st (deref st a) = [] ∧ cont st (deref st b) = [] then
        if val st (deref st a) = val st (deref st b) then .ok (setPointer st (deref st a) (deref st b))
        else if val st (deref st a) = none then .ok (setPointer st (deref st a) (deref st b))
        else if val st (deref st b) = none then .ok (setPointer st (deref st b) (deref st a))
        else .conflict
      else goK (unifyK f) (deref st a) (setPointer st (deref st b) (deref st a)) (cont st (deref st b))

theorem go_eq_goK (f ca : Nat) (ih : ∀ st a b, unify f st a b = unifyK f st a b) :
    ∀ (l : List (String × Nat)) (st : Store), unify.go f ca st l = goK (unifyK f) ca st l
  | [], st => by rw [go_nil]; rfl
  | (g, y) :: rest, st => by
    rw [go_cons, goK, ih]
    cases unifyK f (fieldOf st ca g).1 (fieldOf st ca g).2 y with
    | ok st2 => exact go_eq_goK f ca ih rest st2
    | conflict => rfl
    | fuel => rfl

theorem unify_eq_unifyK : ∀ f st a b, unify f st a b = unifyK f st a b
  | 0, st, a, b => by rw [unify_zero]; rfl
  | f+1, st, a, b => by rw [unify_succ, unifyK, go_eq_goK f _ (unify_eq_unifyK f)]

def unifySFSK (a b : SFS) (fuel : Nat) : Res × Nat :=
  (unifyK fuel (buildInto (buildInto [] a).1 b).1 (buildInto [] a).2 (buildInto (buildInto [] a).1 b).2,
    (buildInto [] a).2)

theorem unifySFS_eq_K (a b : SFS) (fuel : Nat) : unifySFS a b fuel = unifySFSK a b fuel := by
  simp only [unifySFS, unifySFSK, unify_eq_unifyK]

def isOk : Res × Nat → Bool
  | (.ok _, _) => true
  | _ => false
def isConflict : Res × Nat → Bool
  | (.conflict, _) => true
  | _ => false
/-- what `read_sfs` sees in the receiver after a successful unification -/
def readRes (paths : List (List String)) : Res × Nat → Option SFS
  | (.ok st, r) => some (read st r paths)
  | _ => none

theorem exists_of_isOk {x : Res × Nat} (h : isOk x = true) : ∃ st r, x = (.ok st, r) := by
  match x, h with
  | (.ok st, r), _ => exact ⟨st, r, rfl⟩
theorem exists_of_isConflict {x : Res × Nat} (h : isConflict x = true) : ∃ r, x = (.conflict, r) := by
  match x, h with
  | (.conflict, r), _ => exact ⟨r, rfl⟩

def pathsX : List (List String) := [["n"], ["c"], ["agr", "n"], ["agr", "c"]]
/-- `n` and `agr.n` shared, `c` unspecified -/
def sA : SFS := [(["n"], .var "x"), (["agr", "n"], .var "x"), (["c"], .free)]
/-- `n` atomic, `c` and `agr.c` shared -/
def sB : SFS := [(["n"], .atom "s"), (["agr", "c"], .var "y"), (["c"], .var "y")]
/-- incompatible with `sA` only through the sharing `n = agr.n` -/
def sC : SFS := [(["n"], .atom "s"), (["agr", "n"], .atom "p")]

theorem nv_pathsX_shape : ∀ p ∈ pathsX, (∃ g, p = [g] ∧ g ≠ "agr") ∨ (∃ g, p = ["agr", g]) := by
  intro p hp
  simp only [pathsX, List.mem_cons, List.not_mem_nil, or_false] at hp
  rcases hp with rfl | rfl | rfl | rfl
  · exact Or.inl ⟨"n", rfl, by decide⟩
  · exact Or.inl ⟨"c", rfl, by decide⟩
  · exact Or.inr ⟨"n", rfl⟩
  · exact Or.inr ⟨"c", rfl⟩

-- `Typed` (`unifySFS_terminates`, `unifySFS_ok`, `unifySFS_conflict`)
theorem nv_typed_A : Typed pathsX sA := ⟨by decide, by decide, nv_pathsX_shape, by decide⟩
theorem nv_typed_B : Typed pathsX sB := ⟨by decide, by decide, nv_pathsX_shape, by decide⟩
theorem nv_typed_C : Typed pathsX sC := ⟨by decide, by decide, nv_pathsX_shape, by decide⟩

-- `unifySFS_ok`: two structures with shared variables that unify …
theorem nv_unify_ok : ∃ st r, unifySFS sA sB 10 = (.ok st, r) :=
  exists_of_isOk (by rw [unifySFS_eq_K]; decide +kernel)
/-- … and the receiver then shares `n`, `agr.n` (atom `s`) and `c`, `agr.c` (one class) -/
theorem nv_unify_read : readRes pathsX (unifySFS sA sB 10) =
    some [(["n"], .atom "s"), (["c"], .var "c0"), (["agr", "n"], .atom "s"), (["agr", "c"], .var "c0")] := by
  rw [unifySFS_eq_K]; decide +kernel
/-- `unifySFS_ok` fully instantiated on a common ground instance -/
theorem nv_unify_ok_inst : ∃ st r, unifySFS sA sB 10 = (.ok st, r) ∧
    sat (read st r pathsX) [(["n"], "s"), (["c"], "p"), (["agr", "n"], "s"), (["agr", "c"], "p")] = true := by
  obtain ⟨st, r, h⟩ := nv_unify_ok
  exact ⟨st, r, h, (unifySFS_ok pathsX ["s", "p"] sA sB nv_typed_A nv_typed_B 10 st r h _
    (by decide +kernel)).mpr (by decide +kernel)⟩

-- `unifySFS_conflict`: a pair that conflicts (only because of the sharing in `sA`)
theorem nv_unify_conflict : ∃ r, unifySFS sA sC 10 = (.conflict, r) :=
  exists_of_isConflict (by rw [unifySFS_eq_K]; decide +kernel)
theorem nv_unify_conflict_plain :
    ∃ r, unifySFS [(["n"], .atom "s")] [(["n"], .atom "p")] 10 = (.conflict, r) :=
  exists_of_isConflict (by rw [unifySFS_eq_K]; decide +kernel)
/-- each of the two is satisfiable on its own -/
theorem nv_conflict_each_sat :
    sat sA [(["n"], "s"), (["c"], "p"), (["agr", "n"], "s"), (["agr", "c"], "p")] = true ∧
    sat sC [(["n"], "s"), (["c"], "p"), (["agr", "n"], "p"), (["agr", "c"], "p")] = true := by
  decide +kernel

-- `unifySFS_terminates`: the fuel bound
theorem nv_unify_fuel : (4 : Nat) ≤ 10 := by decide

end Dag

/-! ## 2. Indexed grammar ∩ regular language (C17_Inter) and `to_fst` (C16_ToFST) -/
section Inter
open IG

def symAB (n : Nat) : String := if n = 0 then "a" else "b"

/-- the identity transducer of the DFA `a* b b` -/
def fstABB : FST Nat := dfaABB.toFST symAB
/-- the identity transducer of the DFA `a* b` -/
def fstAB : FST Nat := dfaAB.toFST symAB

-- `toFST_rel` (no hypothesis): the construction on a concrete automaton
theorem nv_toFST : fstABB.states = [0, 2, 1] ∧ fstABB.inputs = ["a", "b"] ∧ fstABB.outputs = ["a", "b"] ∧
    fstABB.starts = [0] ∧ fstABB.finals = [2] ∧
    fstABB.delta = [(0, some "a", 0, ["a"]), (0, some "b", 1, ["b"]), (1, some "b", 2, ["b"])] := by
  decide +kernel
theorem nv_toFST_eps : (enfa1.toFST symAB).delta =
    [(0, none, 1, []), (0, some "a", 1, ["a"]), (0, some "a", 2, ["a"]), (1, some "b", 3, ["b"]),
     (2, some "b", 3, ["b"]), (3, none, 0, [])] := by decide +kernel
theorem nv_toFST_relOutputs : fstABB.relOutputs ["a", "b", "b"] 50 = some [["a", "b", "b"]] ∧
    fstABB.relOutputs ["a", "b"] 50 = some [] := by decide +kernel

/-- all four rule kinds; `S[] ⇒ X[g] ⇒ X[fg] ⇒ A[fg] B[fg] ⇒* a b` (whatever the number of `f`s pushed,
the word is `a b`: the language is `{a b}`) -/
def igAB : IG :=
  { start := "S"
    rules := [.prod "S" "X" "g", .prod "X" "X" "f", .dup "X" "A" "B", .cons "f" "A" "A",
              .cons "g" "A" "Ea", .cons "f" "B" "B", .cons "g" "B" "Eb", .end_ "Ea" "a",
              .end_ "Eb" "b"] }

/-! ### name hygiene for `rs := toString` on `Nat` -/

/-- cutting two texts at the first occurrence of a character -/
theorem cut_first (c : Char) : ∀ (l1 l2 r1 r2 : List Char), c ∉ l1 → c ∉ l2 →
    l1 ++ c :: r1 = l2 ++ c :: r2 → l1 = l2 ∧ r1 = r2
  | [], [], _, _, _, _, h => by simpa using h
  | [], b :: l2, _, _, _, h2, h => by
    simp only [List.nil_append, List.cons_append, List.cons.injEq] at h
    exact absurd (h.1 ▸ List.mem_cons_self) h2
  | a :: l1, [], _, _, h1, _, h => by
    simp only [List.nil_append, List.cons_append, List.cons.injEq] at h
    exact absurd (h.1 ▸ List.mem_cons_self) h1
  | a :: l1, b :: l2, r1, r2, h1, h2, h => by
    simp only [List.cons_append, List.cons.injEq] at h
    obtain ⟨h3, h4⟩ := cut_first c l1 l2 r1 r2 (fun hm => h1 (List.mem_cons_of_mem _ hm))
      (fun hm => h2 (List.mem_cons_of_mem _ hm)) h.2
    exact ⟨by rw [h.1, h3], h4⟩

/-- cutting at the last occurrence -/
theorem cut_last (c : Char) (l1 l2 r1 r2 : List Char) (h1 : c ∉ r1) (h2 : c ∉ r2)
    (h : l1 ++ c :: r1 = l2 ++ c :: r2) : l1 = l2 ∧ r1 = r2 := by
  have h' := congrArg List.reverse h
  simp only [List.reverse_append, List.reverse_cons, List.append_assoc, List.singleton_append] at h'
  obtain ⟨h3, h4⟩ := cut_first c _ _ _ _ (by simpa using h1) (by simpa using h2) h'
  exact ⟨List.reverse_injective h4, List.reverse_injective h3⟩

/-- the characters of a printed state avoid the punctuation of a Python tuple -/
def CleanNames {σ : Type} (rs : σ → String) : Prop :=
  ∀ p, ',' ∉ (rs p).toList ∧ ' ' ∉ (rs p).toList

theorem nv_cleanNames_toString : CleanNames (toString : Nat → String) := by
  intro p
  rw [Nat.toString_eq_repr, Nat.toList_repr]
  constructor <;> intro h <;>
    simpa using Nat.isDigit_of_mem_toDigits (by decide) (by decide) h

theorem nv_toString_inj : ∀ p q : Nat, toString p = toString q → p = q := by
  intro p q h
  rw [Nat.toString_eq_repr, Nat.toString_eq_repr] at h
  exact Nat.repr_injective h

private theorem e_open : "(".toList = ['('] := rfl
private theorem e_close : ")".toList = [')'] := rfl
private theorem e_mid1 : ", '".toList = [',', ' ', '\''] := rfl
private theorem e_mid2 : "', ".toList = ['\'', ',', ' '] := rfl
private theorem e_tmid1 : ", ('terminal', '".toList =
    [',', ' ', '(', '\'', 't', 'e', 'r', 'm', 'i', 'n', 'a', 'l', '\'', ',', ' ', '\''] := by decide
private theorem e_tmid2 : "'), ".toList = ['\'', ')', ',', ' '] := rfl

theorem tripleStr_toList {σ : Type} (rs : σ → String) (p : σ) (x : String) (q : σ) :
    (tripleStr rs p x q).toList =
      '(' :: ((rs p).toList ++ ',' :: (' ' :: '\'' :: x.toList ++ '\'' :: ',' :: [] ++ ' ' :: ((rs q).toList ++ [')']))) := by
  simp only [tripleStr, String.toList_append, e_open, e_close, e_mid1, e_mid2, List.cons_append,
    List.nil_append, List.append_assoc]

theorem terTripleStr_toList {σ : Type} (rs : σ → String) (p : σ) (x : String) (q : σ) :
    (terTripleStr rs p x q).toList =
      '(' :: ((rs p).toList ++ ',' :: (' ' :: '(' :: '\'' :: 't' :: 'e' :: 'r' :: 'm' :: 'i' :: 'n' :: 'a' :: 'l' ::
        '\'' :: ',' :: ' ' :: '\'' :: x.toList ++ '\'' :: ')' :: ',' :: [] ++ ' ' :: ((rs q).toList ++ [')']))) := by
  simp only [terTripleStr, String.toList_append, e_open, e_close, e_tmid1, e_tmid2, List.cons_append,
    List.nil_append, List.append_assoc]

theorem tripleStr_inj {σ : Type} (rs : σ → String) (hc : CleanNames rs)
    (hinj : ∀ p q, rs p = rs q → p = q) (p : σ) (x : String) (q p' : σ) (x' : String) (q' : σ)
    (h : tripleStr rs p x q = tripleStr rs p' x' q') : p = p' ∧ x = x' ∧ q = q' := by
  have h' := congrArg String.toList h
  rw [tripleStr_toList, tripleStr_toList, List.cons.injEq] at h'
  obtain ⟨h1, h2⟩ := cut_first ',' _ _ _ _ (hc p).1 (hc p').1 h'.2
  have hq : ∀ q, ' ' ∉ (rs q).toList ++ [')'] := fun q hm => by
    rcases List.mem_append.mp hm with hm | hm
    · exact (hc q).2 hm
    · simp at hm
  obtain ⟨h3, h4⟩ := cut_last ' ' _ _ _ _ (hq q) (hq q') h2
  simp only [List.cons_append, List.cons.injEq, true_and, List.append_cancel_right_eq] at h3 h4
  exact ⟨hinj _ _ (String.toList_injective h1), String.toList_injective h3,
    hinj _ _ (String.toList_injective h4)⟩

theorem terTripleStr_inj {σ : Type} (rs : σ → String) (hc : CleanNames rs)
    (hinj : ∀ p q, rs p = rs q → p = q) (p : σ) (x : String) (q p' : σ) (x' : String) (q' : σ)
    (h : terTripleStr rs p x q = terTripleStr rs p' x' q') : p = p' ∧ x = x' ∧ q = q' := by
  have h' := congrArg String.toList h
  rw [terTripleStr_toList, terTripleStr_toList, List.cons.injEq] at h'
  obtain ⟨h1, h2⟩ := cut_first ',' _ _ _ _ (hc p).1 (hc p').1 h'.2
  have hq : ∀ q, ' ' ∉ (rs q).toList ++ [')'] := fun q hm => by
    rcases List.mem_append.mp hm with hm | hm
    · exact (hc q).2 hm
    · simp at hm
  obtain ⟨h3, h4⟩ := cut_last ' ' _ _ _ _ (hq q) (hq q') h2
  simp only [List.cons_append, List.cons.injEq, true_and, List.append_cancel_right_eq] at h3 h4
  exact ⟨hinj _ _ (String.toList_injective h1), String.toList_injective h3,
    hinj _ _ (String.toList_injective h4)⟩

theorem tripleStr_ne_ter {σ : Type} (rs : σ → String) (hc : CleanNames rs)
    (p : σ) (x : String) (q p' : σ) (x' : String) (q' : σ) :
    tripleStr rs p x q ≠ terTripleStr rs p' x' q' := by
  intro h
  have h' := congrArg String.toList h
  rw [tripleStr_toList, terTripleStr_toList, List.cons.injEq] at h'
  obtain ⟨-, h2⟩ := cut_first ',' _ _ _ _ (hc p).1 (hc p').1 h'.2
  simp at h2

theorem ne_of_head_paren (s t : String) (hs : ∃ l, s.toList = '(' :: l) (ht : ∀ l, t.toList ≠ '(' :: l) :
    s ≠ t := by
  rintro rfl
  obtain ⟨l, hl⟩ := hs
  exact ht l hl

theorem tripleStr_not {σ : Type} (rs : σ → String) (t : String) (ht : ∀ l, t.toList ≠ '(' :: l)
    (p : σ) (x : String) (q : σ) : tripleStr rs p x q ≠ t ∧ terTripleStr rs p x q ≠ t :=
  ⟨ne_of_head_paren _ _ ⟨_, tripleStr_toList rs p x q⟩ ht,
   ne_of_head_paren _ _ ⟨_, terTripleStr_toList rs p x q⟩ ht⟩

theorem nv_S_head : ∀ l, "S".toList ≠ '(' :: l := by
  intro l h
  have : "S".toList = ['S'] := rfl
  rw [this] at h; cases h
theorem nv_T_head : ∀ l, "T".toList ≠ '(' :: l := by
  intro l h
  have : "T".toList = ['T'] := rfl
  rw [this] at h; cases h

/-- `InterOK` for any transducer over `Nat` printed by `toString` that is well formed and has no
input symbol called "epsilon", and any grammar started at "S" -/
theorem interOK_toString (T : FST Nat) (G : IG) (hs : G.start = "S") (hwf : T.WF)
    (heps : ∀ t ∈ T.delta, t.2.1 ≠ some "epsilon") : InterOK T toString G :=
  { start := hs, wf := hwf
    tripleInj := fun p x q p' x' q' _ _ _ _ h =>
      tripleStr_inj toString nv_cleanNames_toString nv_toString_inj p x q p' x' q' h
    terTripleInj := fun p x q p' x' q' _ _ _ _ h =>
      terTripleStr_inj toString nv_cleanNames_toString nv_toString_inj p x q p' x' q' h
    tripleNeTer := tripleStr_ne_ter toString nv_cleanNames_toString
    tripleNotS := tripleStr_not toString "S" nv_S_head
    tripleNotT := tripleStr_not toString "T" nv_T_head
    inNotEps := heps }

-- `InterOK` (`inter_nonEmpty`)
theorem nv_fstAB_wf : fstAB.WF := fst_wf_of_check _ (by decide +kernel)
theorem nv_fstABB_wf : fstABB.WF := fst_wf_of_check _ (by decide +kernel)
theorem nv_interOK : InterOK fstAB toString igAB :=
  interOK_toString fstAB igAB rfl nv_fstAB_wf (by decide +kernel)
theorem nv_interOK_empty : InterOK fstABB toString igAB :=
  interOK_toString fstABB igAB rfl nv_fstABB_wf (by decide +kernel)

/-- `inter_nonEmpty` instantiated on the two-state transducer, right to left: the word `a b` is derived
by the grammar and read by the transducer, hence the triple grammar is non-empty (no evaluation) -/
theorem nv_igAB_gen : igAB.Gen "S" [] ["a", "b"] := by
  have ha : igAB.Gen "Ea" [] ["a"] := by
    simpa using Gen.end_ (G := igAB) (a := "Ea") (t := "a") (σ := []) (by decide +kernel)
  have hb : igAB.Gen "Eb" [] ["b"] := by
    simpa using Gen.end_ (G := igAB) (a := "Eb") (t := "b") (σ := []) (by decide +kernel)
  have hA : igAB.Gen "A" ["f", "g"] ["a"] :=
    Gen.cons (f := "f") (b := "A") (by decide +kernel) (Gen.cons (f := "g") (b := "Ea") (by decide +kernel) ha)
  have hB : igAB.Gen "B" ["f", "g"] ["b"] :=
    Gen.cons (f := "f") (b := "B") (by decide +kernel) (Gen.cons (f := "g") (b := "Eb") (by decide +kernel) hb)
  exact Gen.prod (b := "X") (f := "g") (by decide +kernel)
    (Gen.prod (b := "X") (f := "f") (by decide +kernel) (Gen.dup (b := "A") (c := "B") (by decide +kernel) hA hB))
theorem nv_fstAB_rel : fstAB.Rel ["a", "b"] ["a", "b"] :=
  ⟨0, by decide +kernel, 1, by decide +kernel,
    FST.Path.read (r := 0) (o := ["a"]) (by decide +kernel)
      (FST.Path.read (r := 1) (o := ["b"]) (by decide +kernel) (FST.Path.nil 1))⟩
theorem nv_inter_nonEmpty : (inter fstAB toString igAB).NonEmpty :=
  (inter_nonEmpty fstAB toString igAB nv_interOK).mpr ⟨_, nv_igAB_gen, _, nv_fstAB_rel⟩

/-! evaluation of `is_empty` on the triple grammar: the kernel compares the long triple names byte by
byte, which is affordable only for a one-state transducer (`a*` and `b*`) and a four-rule grammar
(all four rule kinds, language `{a a}`) -/
def igS : IG :=
  { start := "S"
    rules := [.prod "S" "A" "f", .cons "f" "A" "B", .dup "B" "C" "C", .end_ "C" "a"] }
def dfaAstar : ENFA Nat := { states := [0], syms := [0], starts := [0], finals := [0], delta := [(0, some 0, 0)] }
def dfaBstar : ENFA Nat := { states := [0], syms := [1], starts := [0], finals := [0], delta := [(0, some 1, 0)] }
def fstA1 : FST Nat := dfaAstar.toFST symAB
def fstB1 : FST Nat := dfaBstar.toFST symAB

theorem nv_interOK_A1 : InterOK fstA1 toString igS :=
  interOK_toString fstA1 igS rfl (fst_wf_of_check _ (by decide +kernel)) (by decide +kernel)
theorem nv_interOK_B1 : InterOK fstB1 toString igS :=
  interOK_toString fstB1 igS rfl (fst_wf_of_check _ (by decide +kernel)) (by decide +kernel)

set_option maxRecDepth 100000 in
theorem nv_inter_rules : (inter fstA1 toString igS).rules.length = 11 := by decide +kernel
set_option maxRecDepth 100000 in
theorem nv_inter_isEmpty_false : (inter fstA1 toString igS).isEmpty 40 = some false := by decide +kernel
set_option maxRecDepth 100000 in
theorem nv_inter_isEmpty_true : (inter fstB1 toString igS).isEmpty 40 = some true := by decide +kernel

/-- `inter_nonEmpty` + `isEmpty_iff` fully instantiated, left to right: from the verdict of
`is_empty` to a word of the grammar read by the transducer … -/
theorem nv_inter_nonEmpty_inst : ∃ w, igS.Gen "S" [] w ∧ ∃ o, fstA1.Rel w o := by
  rw [← inter_nonEmpty fstA1 toString igS nv_interOK_A1]
  have h := isEmpty_iff (inter fstA1 toString igS) 40 false nv_inter_isEmpty_false
  by_contra hn
  exact absurd (h.mpr hn) (by decide)
/-- … and to the absence of such a word -/
theorem nv_inter_empty_inst : ¬ ∃ w, igS.Gen "S" [] w ∧ ∃ o, fstB1.Rel w o := by
  rw [← inter_nonEmpty fstB1 toString igS nv_interOK_B1]
  exact (isEmpty_iff (inter fstB1 toString igS) 40 true nv_inter_isEmpty_true).mp rfl

end Inter

/-! ## 3. State elimination and the `Regexable` operations (C06_ToRegex, C03_Regexable, C05_Compose) -/
section ToRegex
open ENFA

/-- symbol names `x`, `xx`, `xxx`, … and their decoding (`hcode` of `unionR_lang`, `concatR_lang`,
`starR_lang`, `toRegex_roundtrip_lang`, with readable non-empty names) -/
def symX (a : Nat) : String := String.ofList (List.replicate (a + 1) 'x')
def codeX (s : String) : Nat := s.length - 1
theorem nv_codeX_symX : ∀ a, codeX (symX a) = a := by
  intro a; simp [codeX, symX]

-- `toRegexRx_lang`: state elimination on concrete automata gives concrete trees
theorem nv_toRegexRx_dfa : dfaABB.toRegexRx symX (fun _ => []) =
    .cat (.star (.sym "x")) (.cat (.sym "xx") (.sym "xx")) := by decide +kernel
/-- an ε-NFA with a cycle through the start state, a prescribed elimination order -/
theorem nv_toRegexRx_enfa : enfa1.toRegexRx symX (fun _ => [some 2, some 1]) =
    .cat (.star (.alt (.cat (.sym "x") (.sym "xx")) (.cat (.alt .eps (.sym "x")) (.sym "xx"))))
      (.alt (.cat (.sym "x") (.sym "xx")) (.cat (.alt .eps (.sym "x")) (.sym "xx"))) := by
  decide +kernel
theorem nv_toRegexRx_matches :
    (enfa1.toRegexRx symX (fun _ => [some 2, some 1])).matches ["x", "xx", "xx"] = true ∧
    (enfa1.toRegexRx symX (fun _ => [some 2, some 1])).matches ["x", "x"] = false := by
  decide +kernel

-- `toRegex_roundtrip_lang`: the Thompson automaton of the eliminated expression, run on coded words
theorem nv_roundtrip : ((dfaABB.toRegexRx symX (fun _ => [])).thompson codeX 0).1.acceptsE
      [some 0, some 0, some 1, some 1] = true ∧
    ((dfaABB.toRegexRx symX (fun _ => [])).thompson codeX 0).1.acceptsE [some 0, some 1] = false := by
  decide +kernel

-- `unionR_lang`, `concatR_lang`, `starR_lang`
theorem nv_unionR : (unionR dfaAB dfaABB symX codeX (fun _ => []) (fun _ => []) 0).acceptsE
      [some 0, some 1] = true ∧
    (unionR dfaAB dfaABB symX codeX (fun _ => []) (fun _ => []) 0).acceptsE [some 0, some 1, some 1] = true ∧
    (unionR dfaAB dfaABB symX codeX (fun _ => []) (fun _ => []) 0).acceptsE [some 1, some 0] = false := by
  decide +kernel
theorem nv_concatR : (concatR dfaAB dfaABB symX codeX (fun _ => []) (fun _ => []) 0).acceptsE
      [some 0, some 1, some 0, some 1, some 1] = true ∧
    (concatR dfaAB dfaABB symX codeX (fun _ => []) (fun _ => []) 0).acceptsE [some 0, some 1] = false := by
  decide +kernel
theorem nv_starR : (starR dfaAB symX codeX (fun _ => []) 0).acceptsE [] = true ∧
    (starR dfaAB symX codeX (fun _ => []) 0).acceptsE [some 1, some 0, some 1] = true ∧
    (starR dfaAB symX codeX (fun _ => []) 0).acceptsE [some 1, some 0] = false := by
  decide +kernel

/-- `unionR_lang` fully instantiated -/
theorem nv_unionR_inst : (unionR dfaAB dfaABB symX codeX (fun _ => []) (fun _ => []) 0).Lang [0, 1, 1] :=
  (unionR_lang symX codeX nv_codeX_symX dfaAB dfaABB nv_dfaAB.1 nv_dfaABB.1 _ _ 0 [0, 1, 1]).mpr
    (Or.inr (by rw [← member_iff]; decide))

end ToRegex

/-! ## 4. Remaining single hypotheses (C15_RecDescent, C07_Desugar, C20_Labels, C20_Boxes) -/
section Misc
open CFG

-- `rdMatch_of_derives`: a sentential form that derives the word, and the pruning test on it
theorem nv_g3_derives : g3.Derives [.var "S"] (["a", "c", "b"].map Sym.ter) := by
  have h : g3.Lang ["a", "c", "b"] := (cfgMem_iff g3 ["a", "c", "b"] 20 true (by decide +kernel)).mp rfl
  obtain ⟨s, hs, hd⟩ := h
  have : s = "S" := (Option.some.inj hs).symm
  rw [this] at hd
  exact hd
theorem nv_rdMatch : RecDescent.rdMatch ["a", "c", "b"] [.var "S"] = true :=
  RecDescent.rdMatch_of_derives g3 _ _ nv_g3_derives

-- `matches_iff_Matches` / `desugar_denote` fully instantiated: the declarative semantics holds
theorem nv_py_Matches : PyRx.Matches "abcx019_".toList pyPat "bx_c".toList :=
  (PyRx.matches_iff_Matches _ pyPat nv_py_wellFormed _).mp nv_py_matches.1

-- `readFstLabel_fstLabel_clear`
open LabelCodec in
theorem nv_fstLabel : readFstLabel (fstLabel "\"a\"".toList "[\"X\", \"Y\"]".toList) =
    some ("\"a\"".toList, "[\"X\", \"Y\"]".toList) :=
  readFstLabel_fstLabel_clear _ _ nv_clear_json_string nv_clear_json_list

-- `box_lang` fully instantiated: the minimised box of `(a|b)* c` accepts the codes of `a b c`
theorem nv_box_lang : ∃ gs, detBox.hopcroft 100 = some gs ∧
    (detBox.minimizeOf gs id []).Lang (["a", "b", "c"].map codeInj) := by
  have h := nv_box_hopcroft
  rw [nv_detBox] at h
  obtain ⟨gs, hgs⟩ := Option.isSome_iff_exists.mp h
  refine ⟨gs, hgs, (Rx.box_lang rxSmall codeInj 0 id nv_box_keyInj 100 detBox nv_detBox 100 gs hgs id
    (fun _ _ _ _ h => h) [] _).mpr ⟨["a", "b", "c"], ?_, rfl⟩⟩
  rw [← Rx.matches_iff]
  exact nv_rx_matches.1

end Misc


end NonVacuity2
end Pfl
