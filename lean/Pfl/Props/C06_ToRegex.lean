/-
C06 — state elimination (`EpsilonNFA.to_regex`, tree-level model `Pfl/Model/ToRegex.lean`)
produces a regular expression denoting exactly the automaton's language, for every automaton,
every naming of the symbols and every elimination order.
-/
import Pfl.Model.ToRegex
import Pfl.Spec.FA
import Pfl.Spec.Regex
import Pfl.Proofs.ToRegexLemmas
namespace Pfl
namespace ENFA
variable {σ : Type} [DecidableEq σ]

theorem toRegexRx_lang (A : ENFA σ) (hA : A.WF) (symName : Nat → String)
    (order : σ → List (Option σ)) (u : List String) :
    Rx.Denote (A.toRegexRx symName order) u ↔ ∃ w, u = w.map symName ∧ A.Lang w := by
  exact ToRegex.Lem.toRegexRx_lang A hA symName order u

end ENFA
end Pfl
