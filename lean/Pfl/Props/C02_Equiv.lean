/-
C02 — `is_equivalent_to` on two DFAs exactly as the library computes it: Hopcroft's loop on each
side, the two quotients, the lock-step walk.  Composition of `hopcroft_isNerodePartition` and
`isEquivalent_exact`.
-/
import Pfl.Props.C02_Hopcroft
import Pfl.Props.C02_Iso
import Pfl.Props.C01_Det
import Pfl.Proofs.CFGClean
namespace Pfl
namespace ENFA
variable {σ τ κ κ' : Type} [DecidableEq σ] [DecidableEq τ] [DecidableEq κ] [DecidableEq κ']

theorem isEquivalent_hopcroft_exact
    (A : ENFA σ) (B : ENFA τ) (hA : A.WF) (hB : B.WF)
    (dA : A.Deterministic) (eA : A.EpsFree) (dB : B.Deterministic) (eB : B.EpsFree)
    (nA : A.states.Nodup) (nB : B.states.Nodup)
    (fA fB : Nat) (gA : List (List (Option σ))) (gB : List (List (Option τ)))
    (hgA : A.hopcroft fA = some gA) (hgB : B.hopcroft fB = some gB)
    (keyA : List (Option σ) → κ) (keyB : List (Option τ) → κ')
    (hkA : ∀ g ∈ gA, ∀ g' ∈ gA, keyA g = keyA g' → g = g')
    (hkB : ∀ g ∈ gB, ∀ g' ∈ gB, keyB g = keyB g' → g = g') (eA' : κ) (eB' : κ') (fuel : Nat)
    (b : Bool) (h : (A.minimizeOf gA keyA eA').isoWalk (B.minimizeOf gB keyB eB') fuel = some b) :
    b = true ↔ ∀ w, A.Lang w ↔ B.Lang w := by
  rw [← minimizeOf_filter_nonempty A gA keyA eA', ← minimizeOf_filter_nonempty B gB keyB eB'] at h
  exact isEquivalent_exact A B hA hB dA eA dB eB _ _
    (hopcroft_isNerodePartition A hA dA eA nA fA gA hgA)
    (hopcroft_isNerodePartition B hB dB eB nB fB gB hgB) keyA keyB
    (fun g hg g' hg' => hkA g (List.mem_of_mem_filter hg) g' (List.mem_of_mem_filter hg'))
    (fun g hg g' hg' => hkB g (List.mem_of_mem_filter hg) g' (List.mem_of_mem_filter hg'))
    eA' eB' fuel b h

end ENFA
end Pfl

namespace Pfl
namespace ENFA
variable {σ κ μ : Type} [DecidableEq σ] [DecidableEq κ] [DecidableEq μ]

/-- `EpsilonNFA.minimize()` = `to_deterministic().minimize()`: subset construction, Hopcroft's loop,
quotient; the result accepts the language of the automaton and is deterministic, ε-free, reduced -/
theorem minimize_enfa (A : ENFA σ) (hA : A.WF) (key : List σ → κ) (hk : A.KeyInj key)
    (fuel1 : Nat) (D : ENFA κ) (hD : A.toDet key true fuel1 = some D)
    (fuel2 : Nat) (gs : List (List (Option κ))) (hgs : D.hopcroft fuel2 = some gs)
    (name : List (Option κ) → μ) (hname : ∀ g ∈ gs, ∀ g' ∈ gs, name g = name g' → g = g') (emptyName : μ) :
    (∀ w, (D.minimizeOf gs name emptyName).Lang w ↔ A.Lang w) ∧
    (D.minimizeOf gs name emptyName).Deterministic ∧ (D.minimizeOf gs name emptyName).EpsFree ∧
    (D.minimizeOf gs name emptyName).Reduced := by
  obtain ⟨dD, eD⟩ := toDet_shape A key true fuel1 D hD
  have hshape : D.WF ∧ D.states.Nodup := by
    unfold toDet at hD
    cases hs : A.detSeen key true fuel1 with
    | none => simp [hs] at hD
    | some seen =>
      simp only [hs, Option.map_some, Option.some.injEq] at hD
      rw [← hD]
      exact ⟨ofParts_wf _ _ _, by
        simpa [ofParts] using @CFG.Clean.nodup_eraseDups _ instBEqOfDecidableEq _ _⟩
  obtain ⟨h1, h2, _, h4⟩ := minimize_hopcroft_reduced D hshape.1 dD eD hshape.2 fuel2 gs hgs name hname emptyName
  refine ⟨fun w => ?_, h1, h2, h4⟩
  rw [minimize_hopcroft_lang D hshape.1 dD eD hshape.2 fuel2 gs hgs name hname emptyName w,
    toDet_lang A hA key hk fuel1 D hD w]

end ENFA
end Pfl
