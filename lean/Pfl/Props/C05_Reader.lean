/-
C05 — the reader inverts the printer: the text `str(regex)` / `repr'` of any regular expression
over plain symbols is read back (character-level model of `_pre_process_regex`,
`_get_regex_componants`, parenthesis stripping, precedence computation and the recursive
re-parsing of the sons) as the same tree.
-/
import Pfl.Model.Regex
import Pfl.Proofs.ReaderChars
import Pfl.Proofs.ReaderTokens
namespace Pfl
namespace RegexReader

/-- a symbol that needs no escaping: non-empty, no blank, no backslash, no operator character,
and not the word "epsilon" -/
def PlainSym (s : String) : Prop :=
  s.toList ≠ [] ∧ (∀ c ∈ s.toList, c ≠ ' ' ∧ c ≠ '\\' ∧ isSpecialChar c = false) ∧ s ≠ "epsilon"

/-- no `Empty` node, plain symbols only -/
def PlainRx : Rx → Prop
  | .empty => False
  | .eps => True
  | .sym s => PlainSym s
  | .cat a b => PlainRx a ∧ PlainRx b
  | .alt a b => PlainRx a ∧ PlainRx b
  | .star a => PlainRx a

theorem PlainRx.prx : ∀ (r : Rx), PlainRx r → Lem.PRx r
  | .empty, h => h
  | .eps, _ => trivial
  | .sym _, h => ⟨⟨h.1, h.2.1⟩, h.2.2⟩
  | .cat a b, h => ⟨PlainRx.prx a h.1, PlainRx.prx b h.2⟩
  | .alt a b, h => ⟨PlainRx.prx a h.1, PlainRx.prx b h.2⟩
  | .star a, h => PlainRx.prx a h

theorem parse_repr (r : Rx) (h : PlainRx r) :
    ∃ fuel, ∀ fuel', fuel ≤ fuel' → parse fuel' (Rx.repr' r).toList = .ok r :=
  ⟨Lem.need r, fun fuel' hf =>
    Lem.parse_toks r (PlainRx.prx r h) 0 fuel' _ hf (Lem.components_repr r (PlainRx.prx r h))⟩

example : PlainRx (.cat (.star (.alt (.sym "ab") .eps)) (.sym "c")) := by
  refine ⟨⟨?_, trivial⟩, ?_⟩ <;> (refine ⟨by decide, ?_, by decide⟩; intro c hc; simp at hc; rcases hc with rfl | rfl <;> decide)

end RegexReader
end Pfl

