/-
C16 — `FiniteAutomaton.to_fst()` is the identity relation restricted to the automaton's language.
-/
import Pfl.Model.ToFST
import Pfl.Spec.FA
import Pfl.Spec.FST
namespace Pfl
namespace ENFA
variable {σ : Type} [DecidableEq σ]

theorem toFST_delta (A : ENFA σ) (symName : Nat → String) :
    (A.toFST symName).delta = A.delta.map fun t => match t.2.1 with
      | some a => (t.1, some (symName a), t.2.2, [symName a])
      | none => (t.1, none, t.2.2, []) := rfl

theorem toFST_path_of_run (A : ENFA σ) (symName : Nat → String) {q r : σ} {w : List Nat}
    (h : A.Run q w r) : (A.toFST symName).Path q (w.map symName) (w.map symName) r := by
  induction h with
  | nil q => exact FST.Path.nil q
  | @eps q r s w hd _ ih =>
    have : (q, none, r, ([] : List String)) ∈ (A.toFST symName).delta := by
      rw [toFST_delta]; exact List.mem_map.2 ⟨_, hd, rfl⟩
    simpa using FST.Path.eps this ih
  | @step q r s a w hd _ ih =>
    have : (q, some (symName a), r, [symName a]) ∈ (A.toFST symName).delta := by
      rw [toFST_delta]; exact List.mem_map.2 ⟨_, hd, rfl⟩
    simpa using FST.Path.read this ih

theorem toFST_run_of_path (A : ENFA σ) (symName : Nat → String) {q r : σ} {i o : List String}
    (h : (A.toFST symName).Path q i o r) : i = o ∧ ∃ w, i = w.map symName ∧ A.Run q w r := by
  induction h with
  | nil q => exact ⟨rfl, [], rfl, Run.nil q⟩
  | @eps q r s i o o' hd _ ih =>
    rw [toFST_delta] at hd
    obtain ⟨t, ht, he⟩ := List.mem_map.1 hd
    obtain ⟨h1, w, h2, h3⟩ := ih
    rcases t with ⟨t1, t2, t3⟩
    cases t2 with
    | none =>
      simp only [Prod.mk.injEq] at he
      obtain ⟨rfl, -, rfl, rfl⟩ := he
      exact ⟨by simpa using h1, w, h2, Run.eps ht h3⟩
    | some a => simp at he
  | @read q r s a i o o' hd _ ih =>
    rw [toFST_delta] at hd
    obtain ⟨t, ht, he⟩ := List.mem_map.1 hd
    obtain ⟨h1, w, h2, h3⟩ := ih
    rcases t with ⟨t1, t2, t3⟩
    cases t2 with
    | none => simp at he
    | some b =>
      simp only [Prod.mk.injEq, Option.some.injEq] at he
      obtain ⟨rfl, rfl, rfl, rfl⟩ := he
      exact ⟨by simp [h1], b :: w, by simp [h2], Run.step ht h3⟩

/-- the relation of `to_fst()`: `(i, o)` with `i = o` the spelling of an accepted word -/
theorem toFST_rel (A : ENFA σ) (symName : Nat → String) (i o : List String) :
    (A.toFST symName).Rel i o ↔ i = o ∧ ∃ w, i = w.map symName ∧ A.Lang w := by
  have hs : (A.toFST symName).starts = A.starts.eraseDups := rfl
  have hf : (A.toFST symName).finals = A.finals.eraseDups := rfl
  constructor
  · rintro ⟨s, hs', f, hf', hp⟩
    rw [hs, List.mem_eraseDups] at hs'
    rw [hf, List.mem_eraseDups] at hf'
    obtain ⟨h1, w, h2, h3⟩ := toFST_run_of_path A symName hp
    exact ⟨h1, w, h2, s, hs', f, hf', h3⟩
  · rintro ⟨rfl, w, rfl, s, hs', f, hf', hr⟩
    exact ⟨s, by rw [hs, List.mem_eraseDups]; exact hs', f, by rw [hf, List.mem_eraseDups]; exact hf',
      toFST_path_of_run A symName hr⟩

end ENFA
end Pfl
