/-
C07 — end to end on the models: pattern text (rendered from an AST of the documented subset)
→ the seven rewriting passes of `PythonRegex` (`Pfl/Model/PyRegexPasses.lean`) → the reader of
`Regex` (`Pfl/Model/Regex.lean`) yields a tree that denotes exactly the meaning of the pattern
(`Pfl/Model/PyRegex.lean`: `Matches` over Python's printable characters).
Staged by the size of the fragment; every stage is a statement about ALL patterns of its fragment.
-/
import Pfl.Model.PyRegexPasses
import Pfl.Model.PyRender
import Pfl.Model.Regex
import Pfl.Spec.Regex
import Pfl.Props.C07_Desugar
import Pfl.Proofs.E2EStage1
import Pfl.Proofs.E2EPass5
import Pfl.Proofs.E2E3Stage
namespace Pfl
namespace PyRx

/-- the tree `PythonRegex(text)` ends up with: passes, then the reader -/
def pythonRegexTree (text : List Char) (fuel : Nat) : Option Rx :=
  match PyPass.transform text with
  | .ok t =>
    match RegexReader.parse fuel t with
    | .ok r => some r
    | .error _ => none
  | .error _ => none

def printable : List Char := PyPass.printables

def plainLit (c : Char) : Bool := c.isAlphanum

/-- stage 1: plain letters and digits, concatenation, alternation, star -/
def Stage1 : P → Prop
  | .lit c => plainLit c = true
  | .cat a b => Stage1 a ∧ Stage1 b
  | .alt a b => Stage1 a ∧ Stage1 b
  | .star a => Stage1 a
  | _ => False

/-- stage 2: stage 1 plus `+`, `?`, `{m}`, `{m,n}` (with `m ≤ n`) -/
def Stage2 : P → Prop
  | .lit c => plainLit c = true
  | .cat a b => Stage2 a ∧ Stage2 b
  | .alt a b => Stage2 a ∧ Stage2 b
  | .star a => Stage2 a
  | .plus a => Stage2 a
  | .opt a => Stage2 a
  | .rep a m n => Stage2 a ∧ m ≤ n
  | _ => False

/-- stage 3: stage 2 plus every printable literal (escaped metacharacters included), `.`, `\d \s \w` -/
def Stage3 : P → Prop
  | .lit c => c ∈ printable
  | .dot => True
  | .short k => k = 'd' ∨ k = 's' ∨ k = 'w'
  | .cat a b => Stage3 a ∧ Stage3 b
  | .alt a b => Stage3 a ∧ Stage3 b
  | .star a => Stage3 a
  | .plus a => Stage3 a
  | .opt a => Stage3 a
  | .rep a m n => Stage3 a ∧ m ≤ n
  | .set _ _ => False

/-- stage 4: stage 3 plus character sets and negated sets over printable characters with
ranges `lo ≤ hi` (no shortcut inside a set: known finding KF-C07-1), sets non-empty -/
def GoodItem : Item → Prop
  | .ch c => c ∈ printable ∧ c ≠ '\n'
  | .range lo hi => lo ∈ printable ∧ hi ∈ printable ∧ lo.toNat ≤ hi.toNat ∧ lo.toNat ≥ 33 ∧ hi.toNat ≤ 126
  | .short _ => False

def Stage4 : P → Prop
  | .lit c => c ∈ printable
  | .dot => True
  | .short k => k = 'd' ∨ k = 's' ∨ k = 'w'
  | .set _ items => items ≠ [] ∧ ∀ it ∈ items, GoodItem it
  | .cat a b => Stage4 a ∧ Stage4 b
  | .alt a b => Stage4 a ∧ Stage4 b
  | .star a => Stage4 a
  | .plus a => Stage4 a
  | .opt a => Stage4 a
  | .rep a m n => Stage4 a ∧ m ≤ n

/-- what is claimed for a fragment `S` -/
def Correct (S : P → Prop) : Prop :=
  ∀ p, S p → ∃ fuel r, pythonRegexTree (render p .top) fuel = some r ∧
    ∀ w : List Char, (∀ c ∈ w, c ∈ printable) → (Rx.Denote r (word w) ↔ Matches printable p w)

theorem Stage1.frag1 : ∀ p, Stage1 p → E2E.Frag1 p
  | .lit _, h => h
  | .cat a b, h => ⟨Stage1.frag1 a h.1, Stage1.frag1 b h.2⟩
  | .alt a b, h => ⟨Stage1.frag1 a h.1, Stage1.frag1 b h.2⟩
  | .star a, h => Stage1.frag1 a h

theorem pythonRegex_correct_stage1 : Correct Stage1 := by
  intro p hp
  obtain ⟨t, fuel, r, h1, h2, h3⟩ := E2E.stage1 p (Stage1.frag1 p hp)
  exact ⟨fuel, r, by simp [pythonRegexTree, h1, h2], fun w _ => h3 w⟩

theorem Stage2.frag2 : ∀ p, Stage2 p → E2E.Frag2 p
  | .lit _, h => h
  | .cat a b, h => ⟨Stage2.frag2 a h.1, Stage2.frag2 b h.2⟩
  | .alt a b, h => ⟨Stage2.frag2 a h.1, Stage2.frag2 b h.2⟩
  | .star a, h => Stage2.frag2 a h
  | .plus a, h => Stage2.frag2 a h
  | .opt a, h => Stage2.frag2 a h
  | .rep a _ _, h => ⟨Stage2.frag2 a h.1, h.2⟩

theorem pythonRegex_correct_stage2 : Correct Stage2 := by
  intro p hp
  obtain ⟨t, fuel, r, h1, h2, h3⟩ := E2E.stage2 p (Stage2.frag2 p hp)
  exact ⟨fuel, r, by simp [pythonRegexTree, h1, h2], fun w _ => h3 w⟩

theorem Stage3.frag3 : ∀ p, Stage3 p → E2E.S3.Frag3 p
  | .lit _, h => h
  | .dot, _ => trivial
  | .short _, h => h
  | .cat a b, h => ⟨Stage3.frag3 a h.1, Stage3.frag3 b h.2⟩
  | .alt a b, h => ⟨Stage3.frag3 a h.1, Stage3.frag3 b h.2⟩
  | .star a, h => Stage3.frag3 a h
  | .plus a, h => Stage3.frag3 a h
  | .opt a, h => Stage3.frag3 a h
  | .rep a _ _, h => ⟨Stage3.frag3 a h.1, h.2⟩

theorem pythonRegex_correct_stage3 : Correct Stage3 := by
  intro p hp
  obtain ⟨t, fuel, r, h1, h2, h3⟩ := E2E.S3.stage3 p (Stage3.frag3 p hp)
  exact ⟨fuel, r, by simp [pythonRegexTree, h1, h2], fun w _ => h3 w⟩

theorem GoodItem.goodIt : ∀ it, GoodItem it → E2E.S3.GoodIt it
  | .ch _, h => h
  | .range _ _, h => h
  | .short _, h => h

theorem Stage4.frag4 : ∀ p, Stage4 p → E2E.S3.Frag4 p
  | .lit _, h => h
  | .dot, _ => trivial
  | .short _, h => h
  | .set _ _, h => ⟨h.1, fun it hit => GoodItem.goodIt it (h.2 it hit)⟩
  | .cat a b, h => ⟨Stage4.frag4 a h.1, Stage4.frag4 b h.2⟩
  | .alt a b, h => ⟨Stage4.frag4 a h.1, Stage4.frag4 b h.2⟩
  | .star a, h => Stage4.frag4 a h
  | .plus a, h => Stage4.frag4 a h
  | .opt a, h => Stage4.frag4 a h
  | .rep a _ _, h => ⟨Stage4.frag4 a h.1, h.2⟩

theorem pythonRegex_correct_stage4 : Correct Stage4 := by
  intro p hp
  obtain ⟨t, fuel, r, h1, h2, h3⟩ := E2E.S3.stage4 p (Stage4.frag4 p hp)
  exact ⟨fuel, r, by simp [pythonRegexTree, h1, h2], fun w _ => h3 w⟩

end PyRx
end Pfl
