/-
Termination (fuel sufficiency): explicit bounds under which the fuel-driven models always answer,
i.e. the loops of the library terminate.  Together with the partial-correctness theorems ("whenever
the model answers, the answer is right") this gives total correctness.

(T1) subset construction `ENFA.toDet`          — `toDet_isSome`, `toDet_isSome_anyKey`
(T2) LL(1) worklists `firstSet` / `followSet`  — `firstSet_isSome`, `followSet_isSome`
(T3) marking loop of `IndexedGrammar.is_empty` — `isEmptyLib_isSome`

Helper lemmas: `Pfl/Proofs/Termination*.lean` (namespace `Pfl.Term`).
-/
import Pfl.Proofs.TerminationFA
import Pfl.Proofs.TerminationLL1
import Pfl.Proofs.TerminationIndexed
import Pfl.Props.C01_Names
import Pfl.Props.C14_Lib
import Pfl.Props.C17_Lib

namespace Pfl

/-! ## (T1) subset construction

The model's subsets are duplicate-free lists whose order depends on the path by which the subset
was reached; the worklist compares them by `key`.  `KeyCongr A key`: the key of a duplicate-free
list of states does not depend on its order (`∀ S T, S.Nodup → S ⊆ A.states → S ~ T → key S = key T`).
-/

namespace ENFA
open Pfl.Names
open Pfl.Term (KeyCongr)
section T1
variable {σ κ : Type} [DecidableEq σ] [DecidableEq κ]

/-- the subset construction answers with fuel `2 ^ |Q|` when the naming function does not see the
order of a subset -/
theorem toDet_isSome (A : ENFA σ) (h : A.WF) (key : List σ → κ) (hc : KeyCongr A key)
    (useE : Bool) (fuel : Nat) (hf : 2 ^ A.states.length ≤ fuel) :
    (A.toDet key useE fuel).isSome :=
  Term.toDet_isSome A h key hc useE fuel hf

/-- for an arbitrary naming function: fuel `2 ^ |Q| * |Q|!` (arrangements of subsets) -/
theorem toDet_isSome_anyKey (A : ENFA σ) (h : A.WF) (key : List σ → κ)
    (useE : Bool) (fuel : Nat) (hf : 2 ^ A.states.length * A.states.length.factorial ≤ fuel) :
    (A.toDet key useE fuel).isSome :=
  Term.toDet_isSome_anyKey A h key useE fuel hf

/-- the library's `to_single_state` sorts the names: it is order-blind for all names -/
theorem mergeName_keyCongr (A : ENFA σ) (names : σ → List Char) :
    KeyCongr A (mergeName names) :=
  Term.mergeName_keyCongr A names

/-- `to_deterministic` with the library's naming terminates within `2 ^ |Q|` rounds -/
theorem toDet_named_isSome (A : ENFA σ) (h : A.WF) (names : σ → List Char) (useE : Bool)
    (fuel : Nat) (hf : 2 ^ A.states.length ≤ fuel) :
    (A.toDet (mergeName names) useE fuel).isSome :=
  Term.toDet_isSome A h _ (Term.mergeName_keyCongr A names) useE fuel hf

/-- total correctness of `to_deterministic` (clean names): it answers, and the answer is a
deterministic ε-free automaton for the same language -/
theorem toDet_named_total (A : ENFA σ) (h : A.WF) (names : σ → List Char)
    (hn : Clean A.states names) (fuel : Nat) (hf : 2 ^ A.states.length ≤ fuel) :
    ∃ D, A.toDet (mergeName names) true fuel = some D ∧ D.Deterministic ∧ D.EpsFree ∧
      ∀ w, D.Lang w ↔ A.Lang w := by
  obtain ⟨D, hD⟩ := Option.isSome_iff_exists.mp (toDet_named_isSome A h names true fuel hf)
  obtain ⟨h1, h2⟩ := toDet_shape A _ true fuel D hD
  exact ⟨D, hD, h1, h2, toDet_named_lang_partial A h names hn fuel D hD⟩

end T1

/-! ### the bound `2 ^ |Q| + 1` is false for a key that is merely injective (`KeyInj`)

Three states, all of them initial, one symbol per arrangement `L` of a non-empty subset with
`i ─a_L→ L[i]`: from `[0, 1, 2]` the symbol `a_L` leads to the list `L`, so all 15 arrangements are
reached, and with `key = id` (which satisfies `KeyInj`) all of them are processed. -/

def arrangements3 : List (List Nat) :=
  [[0], [1], [2], [0, 1], [1, 0], [0, 2], [2, 0], [1, 2], [2, 1],
   [0, 1, 2], [0, 2, 1], [1, 0, 2], [1, 2, 0], [2, 0, 1], [2, 1, 0]]

def orderCex : ENFA Nat :=
  { states := [0, 1, 2], syms := List.range 15, starts := [0, 1, 2], finals := []
    delta := arrangements3.zipIdx.flatMap fun La => La.1.zipIdx.map fun qi => (qi.2, some La.2, qi.1) }

theorem orderCex_wf : orderCex.WF := by decide +kernel

theorem orderCex_keyInj : orderCex.KeyInj (id : List Nat → List Nat) := by
  intro S T _ _ h q
  simp only [id] at h
  rw [h]

/-- `KeyInj` is not enough for `2 ^ |Q| + 1`: 15 rounds are needed (and `2 ^ 3 * 3! = 48` are
enough by `toDet_isSome_anyKey`) -/
theorem detSeen_order_counterexample :
    2 ^ orderCex.states.length + 1 = 9 ∧
    orderCex.detSeen id false 9 = none ∧ orderCex.detSeen id false 14 = none ∧
    (orderCex.detSeen id false 15).isSome = true := by decide +kernel

/-- non-vacuity of `toDet_isSome_anyKey` -/
example : (orderCex.toDet id false 48).isSome :=
  toDet_isSome_anyKey orderCex orderCex_wf id false 48 (by decide)

/-- non-vacuity of `toDet_named_isSome` / `toDet_isSome` (5 states: fuel 32) -/
example : (d01.toDet (mergeName d01Names) true 32).isSome :=
  toDet_named_isSome d01 (by decide) d01Names true 32 (by decide)

/-- the bound is tight up to one round: two states, three non-empty subsets, three rounds -/
def tightDet : ENFA Nat :=
  { states := [0, 1], syms := [0, 1, 2], starts := [0], finals := [1]
    delta := [(0, some 0, 0), (0, some 0, 1), (0, some 1, 1), (1, some 2, 0)] }

theorem tightDet_rounds :
    tightDet.detSeen (mergeName' fun q => if q = 0 then ['a'] else ['b']) false 2 = none ∧
    (tightDet.detSeen (mergeName' fun q => if q = 0 then ['a'] else ['b']) false 3).isSome = true := by
  decide +kernel

/-! ## (T2) the LL(1) worklists

A head is pushed on the `SetQueue` only when a FIRST set grew, and the queue holds every head at
most once.  With `V` different heads and `t` terminals the FIRST sets hold at most `V * (t + 1)`
members in total, and `firstFuel G = V * (t + 1) * (V + 1) + V` rounds are enough.  For FOLLOW:
`K` different symbols in bodies, sets over the terminals, `Epsilon` and `$`:
`followFuel G = K * (t + 2) * (K + 2) + K + 1`.  A bound `V * (t + 1) + V` is false
(`firstSet_linear_bound_false`). -/

end ENFA

namespace LL1Lib
open Pfl.Term (heads bodySyms firstFuel followFuel)
section T2

theorem firstFuel_eq (G : CFG) :
    firstFuel G = (heads G).length * (G.ters.length + 1) * ((heads G).length + 1) + (heads G).length :=
  rfl

theorem followFuel_eq (G : CFG) :
    followFuel G = (bodySyms G).length * (G.ters.length + 2) * ((bodySyms G).length + 2)
      + (bodySyms G).length + 1 :=
  rfl

/-- `get_first_set` terminates: `V * (t + 1) * (V + 1) + V` rounds, `V` the number of different
heads of productions, `t` the number of terminals -/
theorem firstSet_isSome (G : CFG) (fuel : Nat) (hf : firstFuel G ≤ fuel) :
    (firstSet G fuel).isSome :=
  Term.firstSet_isSome G fuel hf

/-- `get_follow_set` terminates (the model uses the same fuel for both worklists) -/
theorem followSet_isSome (G : CFG) (fuel : Nat) (hf1 : firstFuel G ≤ fuel)
    (hf2 : followFuel G ≤ fuel) : (followSet G fuel).isSome :=
  Term.followSet_isSome G fuel hf1 hf2

theorem heads_length_le (G : CFG) (hG : G.WF) : (heads G).length ≤ G.vars.length := by
  apply (FAOracle.nodup_eraseDups _).length_le_of_subset
  intro h hh
  obtain ⟨p, hp, rfl⟩ := List.mem_map.mp (List.mem_eraseDups.mp hh)
  exact hG.head_mem p hp

theorem bodySyms_length_le (G : CFG) (hG : G.WF) :
    (bodySyms G).length ≤ G.vars.length + G.ters.length := by
  have := (FAOracle.nodup_eraseDups (G.prods.flatMap (·.2))).length_le_of_subset
    (l₂ := G.vars.map Sym.var ++ G.ters.map Sym.ter) (by
      intro s hs
      obtain ⟨p, hp, hsp⟩ := List.mem_flatMap.mp (List.mem_eraseDups.mp hs)
      cases s with
      | var v => exact List.mem_append_left _ (List.mem_map.mpr ⟨v, hG.var_mem p hp v hsp, rfl⟩)
      | ter t => exact List.mem_append_right _ (List.mem_map.mpr ⟨t, hG.ter_mem p hp t hsp, rfl⟩))
  simpa [bodySyms] using this

/-- in terms of the declared variables and terminals: `n * (t + 1) * (n + 1) + n` -/
theorem firstSet_isSome_wf (G : CFG) (hG : G.WF) (fuel : Nat)
    (hf : G.vars.length * (G.ters.length + 1) * (G.vars.length + 1) + G.vars.length ≤ fuel) :
    (firstSet G fuel).isSome := by
  apply firstSet_isSome G fuel
  have h := heads_length_le G hG
  rw [firstFuel_eq]
  have := Nat.mul_le_mul (Nat.mul_le_mul_right (G.ters.length + 1) h) (Nat.add_le_add_right h 1)
  omega

/-- both worklists, in terms of the declared variables and terminals (`m = n + t`):
`m * (t + 2) * (m + 2) + m + 1` -/
theorem followSet_isSome_wf (G : CFG) (hG : G.WF) (fuel : Nat)
    (hf : (G.vars.length + G.ters.length) * (G.ters.length + 2) *
        (G.vars.length + G.ters.length + 2) + (G.vars.length + G.ters.length) + 1 ≤ fuel) :
    (followSet G fuel).isSome := by
  have h := heads_length_le G hG
  have hb := bodySyms_length_le G hG
  have h1 := Nat.mul_le_mul (Nat.mul_le_mul_right (G.ters.length + 1) h) (Nat.add_le_add_right h 1)
  have h2 := Nat.mul_le_mul (Nat.mul_le_mul_right (G.ters.length + 2) hb)
    (Nat.add_le_add_right hb 2)
  have h3 : G.vars.length * (G.ters.length + 1) * (G.vars.length + 1) ≤
      (G.vars.length + G.ters.length) * (G.ters.length + 2) *
        (G.vars.length + G.ters.length + 2) :=
    Nat.mul_le_mul (Nat.mul_le_mul (by omega) (by omega)) (by omega)
  apply followSet_isSome G fuel
  · rw [firstFuel_eq]; omega
  · rw [followFuel_eq]; omega

/-- hence the parsing table and the LL(1) test are always produced -/
theorem table_isSome (G : CFG) (fuel : Nat) (hf1 : firstFuel G ≤ fuel) (hf2 : followFuel G ≤ fuel) :
    (table G fuel).isSome := by
  obtain ⟨F, hF⟩ := Option.isSome_iff_exists.mp (firstSet_isSome G fuel hf1)
  obtain ⟨Fo, hFo⟩ := Option.isSome_iff_exists.mp (followSet_isSome G fuel hf1 hf2)
  unfold table
  rw [hF, hFo]
  rfl

theorem isLLOne_isSome (G : CFG) (fuel : Nat) (hf1 : firstFuel G ≤ fuel)
    (hf2 : followFuel G ≤ fuel) : (isLLOne G fuel).isSome := by
  unfold isLLOne
  rw [Option.isSome_map]
  exact table_isSome G fuel hf1 hf2

/-- five variables that all mention each other, one terminal each -/
def fullG : CFG :=
  let vs := ["A", "B", "C", "D", "E"]
  CFG.mk' vs ["a", "b", "c", "d", "e"] (some "A")
    ((vs.zip ["a", "b", "c", "d", "e"]).flatMap fun vt =>
      (vt.1, [Sym.ter vt.2]) :: vs.map fun v => (vt.1, [Sym.var v]))

/-- a bound linear in the number of variables, `V * (t + 1) + V`, is false: here `V = t = 5`,
`V * (t + 1) + V = 35`, and the worklist needs 40 rounds (`firstFuel = 185`) -/
theorem firstSet_linear_bound_false :
    (heads fullG).length = 5 ∧ fullG.ters.length = 5 ∧ firstFuel fullG = 185 ∧
    firstSet fullG 39 = none ∧ (firstSet fullG 40).isSome = true := by decide +kernel

/-- non-vacuity of `firstSet_isSome`, `followSet_isSome` -/
example : (firstSet fullG 185).isSome := firstSet_isSome fullG 185 (by decide +kernel)

example : (followSet fullG 851).isSome :=
  followSet_isSome fullG 851 (by decide +kernel) (by decide +kernel)

end T2

/-! ## (T3) the marking loop of `IndexedGrammar.is_empty`

Every pass that reports a modification adds a set to some `marked[A]`; the sets are canonical
sub-lists of the `n` non-terminals, so the table holds at most `n * 2 ^ n` sets, and it starts with
at least `n`. -/

end LL1Lib

namespace IG
open Pfl.IG.Lib Pfl.IG.LibP
open Pfl.Term (loop_isSome initTable_wft total_initTable)
section T3

/-- sharp form: `n * 2 ^ n - n + 1` passes -/
theorem isEmptyLibO_isSome (G : IG) (ord : List SetS → List SetS) (hord : OrdOK ord) (fuel : Nat)
    (hf : G.nonTerminals.length * 2 ^ G.nonTerminals.length + 1 ≤ fuel + G.nonTerminals.length) :
    (isEmptyLibO ord G fuel).isSome := by
  unfold isEmptyLibO
  apply loop_isSome hord G fuel _ (initTable_wft G)
  have := total_initTable G
  omega

/-- the library's loop (insertion order) answers for fuel `≥ |N| * 2 ^ |N| + 2` -/
theorem isEmptyLib_isSome (G : IG) (fuel : Nat)
    (hf : G.nonTerminals.length * 2 ^ G.nonTerminals.length + 2 ≤ fuel) :
    (isEmptyLib G fuel).isSome :=
  isEmptyLibO_isSome G id ordOK_id fuel (by omega)

/-- total correctness of `is_empty()`: it answers, and the answer is right -/
theorem isEmptyLib_total (G : IG) (fuel : Nat)
    (hf : G.nonTerminals.length * 2 ^ G.nonTerminals.length + 2 ≤ fuel) :
    ∃ b, isEmptyLib G fuel = some b ∧ (b = true ↔ ¬ G.NonEmpty) := by
  obtain ⟨b, hb⟩ := Option.isSome_iff_exists.mp (isEmptyLib_isSome G fuel hf)
  exact ⟨b, hb, isEmptyLib_iff G fuel b hb⟩

/-- non-vacuity: five non-terminals, `5 * 2 ^ 5 + 2 = 162` -/
example : (isEmptyLib nvLib1 162).isSome := isEmptyLib_isSome nvLib1 162 (by decide +kernel)

example : (isEmptyLibO List.reverse nvLib2 156).isSome :=
  isEmptyLibO_isSome nvLib2 List.reverse (fun _ _ => List.mem_reverse) 156 (by decide +kernel)

end T3
end IG

end Pfl
