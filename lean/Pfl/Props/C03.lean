import Pfl.Props.C03_Rev
import Pfl.Props.C03_Bool
