/-
C07 — sanity lemmas about the executable model of the textual passes of `PythonRegex.__init__`
(`Pfl/Model/PyRegexPasses.lean`).  The model is tied to the library by differential testing
(`tools/pypasses_diff.py`); the lemmas below only pin down a few exact outputs and show that a word of
plain characters (letters and digits) goes through the whole pipeline unchanged up to the separating
blanks.
-/
import Pfl.Model.PyRegexPasses
namespace Pfl
namespace PyPass

/-! ### exact outputs (kernel evaluation) -/

theorem transform_letter : ∀ c ∈ digits ++ asciiLower ++ asciiUpper, transform? [c] = some [c] := by
  decide

theorem transform_plus : transform "a+".toList = .ok "a a *".toList := rfl

theorem transform_group_rep : transform "(a|b){2}".toList = .ok "( a | b ) ( a | b )".toList := rfl

theorem transform_between : transform "a{0,2}".toList = .ok "$ ( a | $ ) ( a | $ )".toList := rfl

theorem transform_set_opt : transform "[a-c]?".toList = .ok "( a | b | c | $ )".toList := rfl

set_option maxRecDepth 4000 in
theorem transform_digit : transform "\\d".toList = .ok "( 0 | 1 | 2 | 3 | 4 | 5 | 6 | 7 | 8 | 9 )".toList := rfl

/-- `PythonRegex("+")` passes `re.compile`?  No, but the passes themselves die with an `IndexError`. -/
theorem transform_lonely_plus : transform "+".toList = .error .indexError := rfl

theorem transform_hex_unsupported : transform "\\x41".toList = .error .unsupported := rfl

/-! ### plain words -/

/-- letters and digits -/
def plainChars : List Char := digits ++ asciiLower ++ asciiUpper

/-- the list of one-character strings of a word -/
def sing (s : List Char) : List Tok := s.map fun c => [c]

theorem plain_facts : ∀ c ∈ plainChars,
    c ≠ ' ' ∧ c ≠ '\\' ∧ c ≠ '[' ∧ c ≠ '+' ∧ c ≠ '{' ∧ c ≠ '?' ∧ c ≠ '.' ∧ c ≠ '\x08' ∧ c.toNat < 128 := by
  decide

theorem sing_flatten (s : List Char) : (sing s).flatten = s := by
  induction s with
  | nil => rfl
  | cons c r ih => simp [sing] at ih ⊢; exact ih

theorem joinR_sing (s : List Char) : joinR (sing s).reverse = s := by
  simp [joinR, sing_flatten]

theorem pushSym_of (rt : RToks) (c : Char) (h : escNext rt = false) : pushSym rt c = [c] :: rt := by
  cases rt with
  | nil => rfl
  | cons t r =>
    simp only [escNext] at h
    simp [pushSym, pushTok, h]

theorem escNext_sing (rt : RToks) (c : Char) (hc : c ≠ '\\') : escNext ([c] :: rt) = false := by
  simp [escNext, hc]

theorem foldl_pushSym (s : List Char) (hs : ∀ c ∈ s, c ≠ '\\') (rt : RToks) (h : escNext rt = false) :
    s.foldl pushSym rt = (sing s).reverse ++ rt ∧ escNext ((sing s).reverse ++ rt) = false := by
  induction s generalizing rt with
  | nil => simpa [sing] using h
  | cons c r ih =>
    have hc := hs c (by simp)
    have := ih (fun x hx => hs x (by simp [hx])) ([c] :: rt) (escNext_sing rt c hc)
    simpa [sing, pushSym_of rt c h] using this


/-- a `foldlM` whose steps all behave like `pushSym` -/
theorem foldlM_pushSym (f : RToks → Char → Except Err RToks) (s : List Char) (hs : ∀ c ∈ s, c ≠ '\\')
    (hf : ∀ rt, ∀ c ∈ s, f rt c = .ok (pushSym rt c)) (rt : RToks) (h : escNext rt = false) :
    s.foldlM f rt = .ok ((sing s).reverse ++ rt) := by
  induction s generalizing rt with
  | nil => simp [sing]; rfl
  | cons c r ih =>
    have hc := hs c (by simp)
    rw [List.foldlM_cons, hf rt c (by simp), pushSym_of rt c h]
    have := ih (fun x hx => hs x (by simp [hx])) (fun rt x hx => hf rt x (by simp [hx])) ([c] :: rt)
      (escNext_sing rt c hc)
    show List.foldlM f ([c] :: rt) r = _
    simpa [sing] using this

theorem preprocessBrackets_fold (s : Tok) (hs : ∀ c ∈ s, c ≠ '\\' ∧ c ≠ '[') (rt : RToks)
    (h : escNext rt = false) :
    s.foldlM preprocessBracketsStep (rt, []) = .ok ((sing s).reverse ++ rt, []) := by
  induction s generalizing rt with
  | nil => simp [sing]; rfl
  | cons c r ih =>
    have hc := hs c (by simp)
    have step : preprocessBracketsStep (rt, []) c = .ok ([c] :: rt, []) := by
      simp [preprocessBracketsStep, hc.2, pushSym_of rt c h]
    rw [List.foldlM_cons, step]
    show List.foldlM preprocessBracketsStep ([c] :: rt, []) r = _
    rw [ih (fun x hx => hs x (by simp [hx])) _ (escNext_sing rt c hc.1)]
    simp [sing]

theorem replaceGo_id (old new : Tok) (a : Char) (o : Tok) (ho : old = a :: o) (s : Tok) (hs : a ∉ s) :
    replaceGo old new s 0 = s := by
  induction s with
  | nil => rfl
  | cons c r ih =>
    have hne : ¬ (a = c) := fun e => hs (by simp [e])
    have : old.isPrefixOf (c :: r) = false := by
      subst ho
      simp [List.isPrefixOf, hne]
    simp only [replaceGo, this]
    simp [ih (fun h => hs (by simp [h]))]

theorem replaceShortcutsGo_id (s : Tok) (h1 : ' ' ∉ s) (h2 : '\\' ∉ s) (inb : Bool) (acc : RToks) :
    replaceShortcutsGo s inb false acc = (s.map fun c => [c]).reverse ++ acc := by
  induction s generalizing inb acc with
  | nil => simp [replaceShortcutsGo]
  | cons c r ih =>
    have hc1 : c ≠ ' ' := fun e => h1 (by simp [e])
    have hc2 : c ≠ '\\' := fun e => h2 (by simp [e])
    simp only [replaceShortcutsGo, Bool.false_eq_true, if_false, hc1, hc2, decide_false]
    rw [ih (fun h => h1 (by simp [h])) (fun h => h2 (by simp [h]))]
    simp

theorem replaceShortcuts_id (s : Tok) (h1 : ' ' ∉ s) (h2 : '\\' ∉ s) : replaceShortcuts s = s := by
  simp only [replaceShortcuts, replaceShortcutsGo_id s h1 h2 false [], joinR]
  induction s with
  | nil => rfl
  | cons c r ih => simp_all

theorem escapeInBrackets_fold (s : Tok) (hs : ∀ c ∈ s, c ≠ '\\' ∧ c ≠ '[') (rt : RToks)
    (h : escNext rt = false) :
    s.foldl escapeInBracketsStep (rt, false) = ((sing s).reverse ++ rt, false) := by
  induction s generalizing rt with
  | nil => simp [sing]
  | cons c r ih =>
    have hc := hs c (by simp)
    have step : escapeInBracketsStep (rt, false) c = ([c] :: rt, false) := by
      simp [escapeInBracketsStep, hc.2, pushSym_of rt c h]
    rw [List.foldl_cons, step, ih (fun x hx => hs x (by simp [hx])) _ (escNext_sing rt c hc.1)]
    simp [sing]

theorem addRepetitionGo_id (s : Tok) (hs : ∀ c ∈ s, c ≠ '{') (res : RToks) :
    addRepetitionGo (sing s) 0 res = .ok ((sing s).reverse ++ res) := by
  induction s generalizing res with
  | nil => simp [sing, addRepetitionGo]
  | cons c r ih =>
    have hc := hs c (by simp)
    have : isRepetition [c] (sing r) = none := by simp [isRepetition, hc]
    have e : sing (c :: r) = [c] :: sing r := rfl
    rw [e, addRepetitionGo, this]
    simp only []
    rw [ih (fun x hx => hs x (by simp [hx]))]
    simp

theorem recombine_sing (s : Tok) : recombine (sing s) = .ok (sing s) := by
  have h1 : (sing s).any isUnsupportedTok = false := by
    simp [sing, isUnsupportedTok, escapedOctal]
  have h2 : (sing s).map (fun t => (recombine? t).getD t) = sing s := by
    simp [sing, recombine?]
  simp [recombine, h1, h2]

theorem join_head (c : Char) (r : Tok) : ∃ t, join [' '] (sing (c :: r)) = c :: t := by
  cases r with
  | nil => exact ⟨[], rfl⟩
  | cons d r' => exact ⟨_, rfl⟩

/-- A word of letters and digits goes through the seven passes unchanged, up to the blanks inserted by
`_separate`. -/
theorem transform_plain (s : List Char) (h : ∀ c ∈ s, c ∈ plainChars) :
    transform s = .ok (join [' '] (sing s)) := by
  have pf := fun c hc => plain_facts c (h c hc)
  have hascii : s.any (fun c => decide (c.toNat ≥ 128)) = false := by
    simp only [List.any_eq_false]
    intro c hc
    have := (pf c hc).2.2.2.2.2.2.2.2
    simp; omega
  have hbs : ∀ c ∈ s, c ≠ '\\' := fun c hc => (pf c hc).2.1
  have e1 : replaceShortcuts s = s :=
    replaceShortcuts_id s (fun hm => (pf _ hm).1 rfl) (fun hm => (pf _ hm).2.1 rfl)
  have e2 : escapeInBrackets s = s := by
    simp [escapeInBrackets, escapeInBrackets_fold s (fun c hc => ⟨(pf c hc).2.1, (pf c hc).2.2.1⟩) [] rfl,
      joinR_sing]
  have e3 : preprocessBrackets s = .ok s := by
    have := preprocessBrackets_fold s (fun c hc => ⟨(pf c hc).2.1, (pf c hc).2.2.1⟩) [] rfl
    simp only [List.append_nil] at this
    simp only [preprocessBrackets, this]
    show Except.ok (joinR (sing s).reverse) = _
    rw [joinR_sing]
  have e4 : preprocessPositiveClosure s = .ok s := by
    have h1 := foldlM_pushSym positiveClosureStep s hbs
      (fun rt c hc => by simp [positiveClosureStep, (pf c hc).2.2.2.1]) [] rfl
    simp only [List.append_nil] at h1
    have h2 : addRepetition (sing s) = .ok (sing s) := by
      simp only [addRepetition, addRepetitionGo_id s (fun c hc => (pf c hc).2.2.2.2.1) []]
      show Except.ok ((sing s).reverse ++ []).reverse = _
      simp
    simp only [preprocessPositiveClosure, h1]
    show (do let l ← addRepetition (sing s).reverse.reverse; pure l.flatten) = _
    rw [List.reverse_reverse, h2]
    show Except.ok (sing s).flatten = _
    rw [sing_flatten]
  have e5 : preprocessOptional s = .ok s := by
    have h1 := foldlM_pushSym optionalStep s hbs
      (fun rt c hc => by simp [optionalStep, (pf c hc).2.2.2.2.2.1]) [] rfl
    simp only [List.append_nil] at h1
    simp only [preprocessOptional, h1]
    show Except.ok (joinR (sing s).reverse) = _
    rw [joinR_sing]
  have e6 : separate s = .ok (join [' '] (sing s)) := by
    have h1 := (foldl_pushSym s hbs [] rfl).1
    simp only [List.append_nil] at h1
    have h2 : (sing s).map (fun t => if t == ['.'] then dotReplacement else t) = sing s := by
      simp only [sing, List.map_map]
      apply List.map_congr_left
      intro c hc
      simp [(pf c hc).2.2.2.2.2.2.1]
    simp only [separate, h1, List.reverse_reverse, recombine_sing]
    show Except.ok (join [' '] ((sing s).map _)) = _
    rw [h2]
  have e7 : lstripBackspace (join [' '] (sing s)) = join [' '] (sing s) := by
    cases s with
    | nil => rfl
    | cons c r =>
      obtain ⟨t, ht⟩ := join_head c r
      have := (pf c (by simp)).2.2.2.2.2.2.2.1
      simp [ht, lstripBackspace, this]
  simp only [transform, hascii, e1, e2, e3, Bool.false_eq_true, if_false]
  show (preprocessPositiveClosure s >>= fun s4 => preprocessOptional s4 >>= fun s5 =>
    separate s5 >>= fun s6 => pure (lstripBackspace s6)) = _
  rw [e4]
  show (preprocessOptional s >>= fun s5 => separate s5 >>= fun s6 => pure (lstripBackspace s6)) = _
  rw [e5]
  show (separate s >>= fun s6 => pure (lstripBackspace s6)) = _
  rw [e6]
  show Except.ok (lstripBackspace _) = _
  rw [e7]

end PyPass
end Pfl
