import Pfl.Props.C01_Accepts
import Pfl.Props.C01_EpsCopy
import Pfl.Props.C01_Det
