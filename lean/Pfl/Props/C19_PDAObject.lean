/-
C19 / C13 — a PDA object built and extended through the public API stands for a well-formed value.
Model: `Pfl/Model/PDAObject.lean` (the private fields, the transition table as the dict it is, the
constructor and the four mutators; `TransitionFunction.copy()`).

* `run_edges`: after any history the transitions present are exactly those added, nothing repeated;
* `numTransitions_eq`: `get_number_transitions()` counts them;
* `mk_wf`, `step_wf`, `run_wf`, `api_wf`: everything the API can build satisfies `PDA.WF`, the hypothesis of
  `toFinalState_lang`, `toEmptyStack_lang`, `toCFG_lang` (C13) and `PDA.inter_lang` (C11) — true since the
  repair of `add_final_state`, which did not register the state (the field `finals` of `WF`);
* `copyT_spec`: the copy of the table the conversions start from holds the same transitions.
-/
import Pfl.Model.PDAObject
import Pfl.Proofs.PDAObject
namespace Pfl
namespace PDAObj

/-- adding a transition adds exactly that transition -/
theorem addT_spec {T : Table} (hi : TInv T) (k : Key) (out : Outcome) :
    TInv (addT T k out) ∧
      ∀ t, t ∈ edges (addT T k out) ↔ t = (k.1, k.2.1, k.2.2, out.1, out.2) ∨ t ∈ edges T :=
  P.addT_spec hi k out

theorem edges_nodup {T : Table} (hi : TInv T) : (edges T).Nodup :=
  P.edges_nodup hi

/-- (1) after any history the transitions present are those the object had plus those added, nothing
repeated; the table keeps its shape -/
theorem run_edges (o : Obj) (ops : List Op) (hi : TInv o.trans) :
    TInv (run o ops).trans ∧ (edges (run o ops).trans).Nodup ∧
      ∀ t, t ∈ edges (run o ops).trans ↔ t ∈ edges o.trans ∨ t ∈ added ops :=
  P.run_edges o ops hi

/-- (2) `get_number_transitions()` counts the transitions present -/
theorem numTransitions_eq (T : Table) : numTransitions T = (edges T).length :=
  P.numTransitions_eq T

/-- (3) the object the constructor builds stands for a well-formed value -/
theorem mk_wf (states inputs stack : List String) (start startStack : Option String)
    (finals : List String) :
    (toPDA (mk states inputs stack start startStack finals)).WF ∧
      TInv (mk states inputs stack start startStack finals).trans :=
  P.mk_wf states inputs stack start startStack finals

/-- a mutator call keeps well-formedness -/
theorem step_wf {o : Obj} (op : Op) (hi : TInv o.trans) (hwf : (toPDA o).WF) :
    (toPDA (step o op)).WF ∧ TInv (step o op).trans :=
  P.step_wf op hi hwf

/-- (4) everything the public API can build stands for a well-formed PDA — the hypothesis `WF` of the
conversion theorems of C13 and of the intersection theorem of C11 (since the repair of
`add_final_state`, which did not register the state) -/
theorem run_wf (o : Obj) (ops : List Op) (hi : TInv o.trans) (hwf : (toPDA o).WF) :
    (toPDA (run o ops)).WF ∧ TInv (run o ops).trans :=
  P.run_wf o ops hi hwf

/-- (5) `TransitionFunction.copy()` (used by `to_empty_stack`, `to_final_state`, `intersection`) holds
exactly the same transitions -/
theorem copyT_spec {T : Table} (hi : TInv T) :
    TInv (copyT T) ∧ ∀ t, t ∈ edges (copyT T) ↔ t ∈ edges T :=
  P.copyT_spec hi

/-- in particular: the constructor followed by any history of mutator calls -/
theorem api_wf (states inputs stack : List String) (start startStack : Option String)
    (finals : List String) (ops : List Op) :
    (toPDA (run (mk states inputs stack start startStack finals) ops)).WF :=
  (run_wf _ ops (mk_wf states inputs stack start startStack finals).2
    (mk_wf states inputs stack start startStack finals).1).1

/-- non-vacuity: a second outcome on an existing key joins the entry; a final state nobody else mentions is
registered -/
example :
    (run (mk [] [] [] none (some "Z") []) [.addT "q" none "Z" "q" ["A", "Z"], .addT "q" none "Z" "r" [],
        .addFinal "g"]).trans = [(("q", none, "Z"), [("q", ["A", "Z"]), ("r", [])])] ∧
    (run (mk [] [] [] none (some "Z") []) [.addT "q" none "Z" "q" ["A", "Z"], .addT "q" none "Z" "r" [],
        .addFinal "g"]).states = ["q", "r", "g"] := by
  decide +kernel

end PDAObj
end Pfl
