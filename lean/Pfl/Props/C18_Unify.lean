/-
C18 — unification of (sharing-free, consistently typed) feature structures is the greatest
lower bound: it succeeds exactly when no shared path carries two different atoms, and the
result carries exactly the information of both arguments, whatever the argument order.
-/
import Pfl.Model.Feature
namespace Pfl
namespace FS

/-- the information carried by a structure: the atomic values at its paths -/
def facts : FS → List (List String × String)
  | .unspec => []
  | .atom v => [([], v)]
  | .node fs => factsL fs
where
  factsL : List (String × FS) → List (List String × String)
    | [] => []
    | (f, x) :: rest => ((facts x).map fun e => (f :: e.1, e.2)) ++ factsL rest

/-- records list every feature once; atoms and records do not meet on a path (consistent typing is
expressed relative to a second structure by `Agree`) -/
inductive WT : FS → Prop
  | unspec : WT .unspec
  | atom (v : String) : WT (.atom v)
  | node (fs : List (String × FS)) : (fs.map (·.1)).Nodup → (∀ e ∈ fs, WT e.2) → WT (.node fs)

/-- `a` and `b` are consistently typed: wherever both are specified they are both atoms or both records -/
inductive Agree : FS → FS → Prop
  | unspecL (b : FS) : Agree .unspec b
  | unspecR (a : FS) : Agree a .unspec
  | atom (v w : String) : Agree (.atom v) (.atom w)
  | node (fs gs : List (String × FS)) :
      (∀ f x y, lookup f fs = some x → lookup f gs = some y → Agree x y) → Agree (.node fs) (.node gs)

/-- two structures conflict when some path carries two different atoms -/
def Conflict (a b : FS) : Prop := ∃ p v w, (p, v) ∈ facts a ∧ (p, w) ∈ facts b ∧ v ≠ w

theorem unify_none_iff (a b : FS) (ha : WT a) (hb : WT b) (hab : Agree a b) :
    unify a b = none ↔ Conflict a b := by
  sorry

theorem unify_facts (a b c : FS) (ha : WT a) (hb : WT b) (hab : Agree a b) (h : unify a b = some c)
    (e : List String × String) : e ∈ facts c ↔ e ∈ facts a ∨ e ∈ facts b := by
  sorry

theorem unify_wt (a b c : FS) (ha : WT a) (hb : WT b) (hab : Agree a b) (h : unify a b = some c) : WT c := by
  sorry

/-- independence of the argument order, up to the information carried -/
theorem unify_comm (a b : FS) (ha : WT a) (hb : WT b) (hab : Agree a b) :
    (unify a b = none ↔ unify b a = none) ∧
    ∀ c d, unify a b = some c → unify b a = some d → ∀ e, e ∈ facts c ↔ e ∈ facts d := by
  sorry

end FS
end Pfl
