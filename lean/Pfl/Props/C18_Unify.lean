/-
C18 — unification of (sharing-free, consistently typed) feature structures is the greatest
lower bound: it succeeds exactly when no shared path carries two different atoms, and the
result carries exactly the information of both arguments, whatever the argument order.
-/
import Pfl.Model.Feature
import Pfl.Proofs.FeatureLemmas
namespace Pfl
namespace FS

/-- the information carried by a structure: the atomic values at its paths -/
def facts : FS → List (List String × String)
  | .unspec => []
  | .atom v => [([], v)]
  | .node fs => factsL fs
where
  factsL : List (String × FS) → List (List String × String)
    | [] => []
    | (f, x) :: rest => ((facts x).map fun e => (f :: e.1, e.2)) ++ factsL rest

/-- records list every feature once; atoms and records do not meet on a path (consistent typing is
expressed relative to a second structure by `Agree`) -/
inductive WT : FS → Prop
  | unspec : WT .unspec
  | atom (v : String) : WT (.atom v)
  | node (fs : List (String × FS)) : (fs.map (·.1)).Nodup → (∀ e ∈ fs, WT e.2) → WT (.node fs)

/-- `a` and `b` are consistently typed: wherever both are specified they are both atoms or both records -/
inductive Agree : FS → FS → Prop
  | unspecL (b : FS) : Agree .unspec b
  | unspecR (a : FS) : Agree a .unspec
  | atom (v w : String) : Agree (.atom v) (.atom w)
  | node (fs gs : List (String × FS)) :
      (∀ f x y, lookup f fs = some x → lookup f gs = some y → Agree x y) → Agree (.node fs) (.node gs)

/-- two structures conflict when some path carries two different atoms -/
def Conflict (a b : FS) : Prop := ∃ p v w, (p, v) ∈ facts a ∧ (p, w) ∈ facts b ∧ v ≠ w

open Pfl.FS.Lem in
theorem mem_factsL_mem (fs : List (String × FS)) (p : List String) (v : String) :
    (p, v) ∈ facts.factsL fs ↔ ∃ f x q, (f, x) ∈ fs ∧ (q, v) ∈ facts x ∧ p = f :: q := by
  induction fs with
  | nil => simp [facts.factsL]
  | cons e rest ih =>
    obtain ⟨g, y⟩ := e
    simp only [facts.factsL, List.mem_append, List.mem_map, ih, List.mem_cons]
    constructor
    · rintro (⟨⟨q, w⟩, hq, heq⟩ | ⟨f, x, q, hm, hq, rfl⟩)
      · simp only [Prod.mk.injEq] at heq
        obtain ⟨rfl, rfl⟩ := heq
        exact ⟨g, y, q, Or.inl rfl, hq, rfl⟩
      · exact ⟨f, x, q, Or.inr hm, hq, rfl⟩
    · rintro ⟨f, x, q, hm | hm, hq, rfl⟩
      · cases hm
        exact Or.inl ⟨(q, v), hq, rfl⟩
      · exact Or.inr ⟨f, x, q, hm, hq, rfl⟩

open Pfl.FS.Lem in
theorem mem_factsL {fs : List (String × FS)} (hnd : (fs.map (·.1)).Nodup) (p : List String) (v : String) :
    (p, v) ∈ facts.factsL fs ↔ ∃ f x q, lookup f fs = some x ∧ (q, v) ∈ facts x ∧ p = f :: q := by
  rw [mem_factsL_mem]
  constructor
  · rintro ⟨f, x, q, hm, hq, rfl⟩
    exact ⟨f, x, q, mem_lookup hnd hm, hq, rfl⟩
  · rintro ⟨f, x, q, hm, hq, rfl⟩
    exact ⟨f, x, q, lookup_some_mem hm, hq, rfl⟩

theorem Agree.symm {a b : FS} (h : Agree a b) : Agree b a := by
  induction h with
  | unspecL b => exact .unspecR b
  | unspecR a => exact .unspecL a
  | atom v w => exact .atom w v
  | node fs gs _ ih => exact .node gs fs fun f x y hx hy => ih f y x hy hx

theorem Conflict.symm {a b : FS} (h : Conflict a b) : Conflict b a := by
  obtain ⟨p, v, w, h1, h2, h3⟩ := h
  exact ⟨p, w, v, h2, h1, fun e => h3 e.symm⟩

open Pfl.FS.Lem in
/-- all three properties at once, by induction on (a bound on) the size of the second argument -/
theorem unify_main (n : Nat) : ∀ a b : FS, sizeOf b < n → WT a → WT b → Agree a b →
    (unify a b = none ↔ Conflict a b) ∧
    ∀ c, unify a b = some c → WT c ∧ ∀ e, e ∈ facts c ↔ e ∈ facts a ∨ e ∈ facts b := by
  induction n with
  | zero => intro a b h; omega
  | succ n ih =>
    intro a b hn ha hb hab
    cases hab with
    | unspecL =>
      rw [unify.eq_1]
      refine ⟨by simp [Conflict, facts], ?_⟩
      intro c hc; cases hc
      exact ⟨hb, fun e => by simp [facts]⟩
    | unspecR =>
      have hu : unify a .unspec = some a := by cases a <;> simp [unify]
      rw [hu]
      refine ⟨by simp [Conflict, facts], ?_⟩
      intro c hc; cases hc
      exact ⟨ha, fun e => by simp [facts]⟩
    | atom v w =>
      rw [unify.eq_3]
      by_cases h : v = w
      · subst h
        refine ⟨by simp [Conflict, facts], ?_⟩
        intro c hc
        simp only [if_true, Option.some.injEq] at hc
        subst hc
        exact ⟨ha, fun e => by simp [facts]⟩
      · refine ⟨?_, by simp [h]⟩
        simp only [h, if_false, true_iff]
        exact ⟨[], v, w, by simp [facts], by simp [facts], h⟩
    | node fs gs hag =>
      cases ha with | node _ hfs hfw =>
      cases hb with | node _ hgs hgw =>
      have IH : ∀ g x y, lookup g fs = some x → lookup g gs = some y →
          (unify x y = none ↔ Conflict x y) ∧
          ∀ c, unify x y = some c → WT c ∧ ∀ e, e ∈ facts c ↔ e ∈ facts x ∨ e ∈ facts y := by
        intro g x y hx hy
        refine ih x y ?_ (hfw _ (lookup_some_mem hx)) (hgw _ (lookup_some_mem hy)) (hag g x y hx hy)
        have := sizeOf_lookup hy
        omega
      rw [unify.eq_6]
      refine ⟨?_, ?_⟩
      · rw [Option.map_eq_none_iff, unifyFields_none_iff gs fs hfs hgs]
        constructor
        · rintro ⟨g, x, y, hx, hy, hu⟩
          obtain ⟨p, v, w, h1, h2, h3⟩ := (IH g x y hx hy).1.1 hu
          refine ⟨g :: p, v, w, ?_, ?_, h3⟩
          · simp only [facts]; exact (mem_factsL hfs _ _).2 ⟨g, x, p, hx, h1, rfl⟩
          · simp only [facts]; exact (mem_factsL hgs _ _).2 ⟨g, y, p, hy, h2, rfl⟩
        · rintro ⟨p, v, w, h1, h2, h3⟩
          simp only [facts] at h1 h2
          obtain ⟨f, x, q, hx, hq, rfl⟩ := (mem_factsL hfs _ _).1 h1
          obtain ⟨f', y, q', hy, hq', heq⟩ := (mem_factsL hgs _ _).1 h2
          cases heq
          exact ⟨f, x, y, hx, hy, (IH f x y hx hy).1.2 ⟨q, v, w, hq, hq', h3⟩⟩
      · intro c hc
        rw [Option.map_eq_some_iff] at hc
        obtain ⟨hs, hhs, rfl⟩ := hc
        obtain ⟨hnd, hlk⟩ := unifyFields_spec gs fs hs hfs hgs hhs
        refine ⟨WT.node hs hnd ?_, ?_⟩
        · rintro ⟨f, z⟩ hm
          have hz := mem_lookup hnd hm
          rw [hlk f] at hz
          cases hx : lookup f fs with
          | none =>
            rw [hx] at hz
            simp only [mergeOpt] at hz
            exact hgw _ (lookup_some_mem hz)
          | some x =>
            cases hy : lookup f gs with
            | none =>
              rw [hx, hy] at hz
              simp only [mergeOpt, Option.some.injEq] at hz
              subst hz
              exact hfw _ (lookup_some_mem hx)
            | some y =>
              rw [hx, hy] at hz
              simp only [mergeOpt] at hz
              exact ((IH f x y hx hy).2 z hz).1
        · rintro ⟨p, v⟩
          simp only [facts]
          rw [mem_factsL hnd, mem_factsL hfs, mem_factsL hgs]
          constructor
          · rintro ⟨f, z, q, hz, hq, rfl⟩
            rw [hlk f] at hz
            cases hx : lookup f fs with
            | none =>
              rw [hx] at hz
              simp only [mergeOpt] at hz
              exact Or.inr ⟨f, z, q, hz, hq, rfl⟩
            | some x =>
              cases hy : lookup f gs with
              | none =>
                rw [hx, hy] at hz
                simp only [mergeOpt, Option.some.injEq] at hz
                subst hz
                exact Or.inl ⟨f, x, q, hx, hq, rfl⟩
              | some y =>
                rw [hx, hy] at hz
                simp only [mergeOpt] at hz
                rcases (((IH f x y hx hy).2 z hz).2 (q, v)).1 hq with h | h
                · exact Or.inl ⟨f, x, q, hx, h, rfl⟩
                · exact Or.inr ⟨f, y, q, hy, h, rfl⟩
          · have hsome : ∀ f x y, lookup f fs = some x → lookup f gs = some y →
                ∃ z, unify x y = some z := by
              intro f x y hx hy
              cases hu : unify x y with
              | some z => exact ⟨z, rfl⟩
              | none =>
                have : unifyFields fs gs = none :=
                  (unifyFields_none_iff gs fs hfs hgs).2 ⟨f, x, y, hx, hy, hu⟩
                rw [this] at hhs; cases hhs
            rintro (⟨f, x, q, hx, hq, rfl⟩ | ⟨f, y, q, hy, hq, rfl⟩)
            · cases hy : lookup f gs with
              | none =>
                exact ⟨f, x, q, by rw [hlk f, hx, hy]; rfl, hq, rfl⟩
              | some y =>
                obtain ⟨z, hz⟩ := hsome f x y hx hy
                refine ⟨f, z, q, by rw [hlk f, hx, hy]; exact hz, ?_, rfl⟩
                exact (((IH f x y hx hy).2 z hz).2 (q, v)).2 (Or.inl hq)
            · cases hx : lookup f fs with
              | none =>
                exact ⟨f, y, q, by rw [hlk f, hx, hy]; rfl, hq, rfl⟩
              | some x =>
                obtain ⟨z, hz⟩ := hsome f x y hx hy
                refine ⟨f, z, q, by rw [hlk f, hx, hy]; exact hz, ?_, rfl⟩
                exact (((IH f x y hx hy).2 z hz).2 (q, v)).2 (Or.inr hq)

theorem unify_none_iff (a b : FS) (ha : WT a) (hb : WT b) (hab : Agree a b) :
    unify a b = none ↔ Conflict a b :=
  (unify_main (sizeOf b + 1) a b (Nat.lt_succ_self _) ha hb hab).1

theorem unify_facts (a b c : FS) (ha : WT a) (hb : WT b) (hab : Agree a b) (h : unify a b = some c)
    (e : List String × String) : e ∈ facts c ↔ e ∈ facts a ∨ e ∈ facts b :=
  ((unify_main (sizeOf b + 1) a b (Nat.lt_succ_self _) ha hb hab).2 c h).2 e

theorem unify_wt (a b c : FS) (ha : WT a) (hb : WT b) (hab : Agree a b) (h : unify a b = some c) : WT c :=
  ((unify_main (sizeOf b + 1) a b (Nat.lt_succ_self _) ha hb hab).2 c h).1

/-- independence of the argument order, up to the information carried -/
theorem unify_comm (a b : FS) (ha : WT a) (hb : WT b) (hab : Agree a b) :
    (unify a b = none ↔ unify b a = none) ∧
    ∀ c d, unify a b = some c → unify b a = some d → ∀ e, e ∈ facts c ↔ e ∈ facts d := by
  refine ⟨?_, ?_⟩
  · rw [unify_none_iff a b ha hb hab, unify_none_iff b a hb ha hab.symm]
    exact ⟨Conflict.symm, Conflict.symm⟩
  · intro c d hc hd e
    rw [unify_facts a b c ha hb hab hc, unify_facts b a d hb ha hab.symm hd]
    exact Or.comm

end FS
end Pfl
