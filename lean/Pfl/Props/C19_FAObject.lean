/-
C19 — an automaton object edited through the public API behaves as the value it stands for.
Model: `Pfl/Model/FAObject.lean` (the private fields, the transition table as the dict of dicts it is —
`remove_transition` of the nondeterministic table leaves an emptied entry behind, the deterministic table
refuses ε and a second target before anything is registered and deletes keys —, the overrides of
`DeterministicFiniteAutomaton`).  Specification: the same history on plain sets (`absStep`).

* `run_refines`: after any history of mutator calls the object stands for the value obtained by set
  insertions and removals (same states, symbols, marks in the same order; same set of transitions,
  nothing repeated) and its table has the shape `TInv`;
* `step_error_iff`, `step_error_abs`, `remT_result`: when a call raises, what the returned integer says;
* `numTransitions_eq`, `tfDeterministic_iff`, `mem_call_iff`, `det_functional`: the table queries are
  functions of the set of transitions present — entries emptied by removals never count;
* `run_wf`, `run_dfa`, `new_wf`, `mk_wf`: everything the public API can build stands for a well-formed
  value (the hypothesis `ENFA.WF` of the theorems of C01–C04), a `DeterministicFiniteAutomaton` object for a
  deterministic ε-free one (the hypotheses of `acceptsD_iff`, of the deterministic complement, of `minimize`);
* `mkT_wf`: the constructor called with a pre-filled transition function registers its states and symbols
  (since the repair; before it `copy`, `to_deterministic`, `is_empty`, … ignored the transitions);
* `history_independent`: two histories leading to the same sets give objects that answer alike
  (language, determinism verdict, number of transitions, successors).
-/
import Pfl.Spec.FAObject
import Pfl.Proofs.FAObject
import Pfl.Proofs.FAObjectQ
import Pfl.Proofs.FAObjectWF
namespace Pfl
namespace FAObj

/-- the table invariant holds initially and is kept by every mutator call (also by one that raises:
the object is unchanged) -/
theorem step_tinv {o o' : Obj} {op : Op} {n : Nat} (h : TInv o.det o.trans)
    (hs : step o op = .ok (o', n)) : TInv o'.det o'.trans ∧ o'.det = o.det :=
  P.step_tinv h hs

/-- one call refines the plain set operation -/
theorem step_refines {o o' : Obj} {s : Abs} {op : Op} {n : Nat} (hi : TInv o.det o.trans)
    (hr : Refines o s) (hs : step o op = .ok (o', n)) : Refines o' (absStep o.det s op) :=
  P.step_refines hi hr hs

/-- a call raises exactly when the automaton is deterministic and the new transition is an ε-move
or gives the (state, symbol) pair a second target; the value is then unchanged as well -/
theorem step_error_iff {o : Obj} {s : Abs} (hi : TInv o.det o.trans) (hr : Refines o s) (op : Op) :
    (∃ e, step o op = .error e) ↔
      ∃ q a r, op = .addT q a r ∧ o.det = true ∧ (a = none ∨ ∃ r', r' ≠ r ∧ (q, a, r') ∈ s.delta) :=
  P.step_error_iff hi hr op

theorem step_error_abs {o : Obj} {s : Abs} {op : Op} {e : Err} (hi : TInv o.det o.trans)
    (hr : Refines o s) (hs : step o op = .error e) : absStep o.det s op = s :=
  P.step_error_abs hi hr hs

/-- (1) refinement: after any history of mutator calls on a fresh object, the object stands for the
value obtained by plain set insertions and removals — the same states, symbols, start and final
states (in the same order), the same set of transitions, nothing repeated; empty entries left behind
by `remove_transition` never show -/
theorem run_refines (det : Bool) (ops : List Op) :
    Refines (run (new det) ops) (absRun det absNew ops) ∧
      TInv det (run (new det) ops).trans ∧ (run (new det) ops).det = det :=
  P.run_refines det ops

/-- the integer returned by `remove_transition` says whether the transition was present -/
theorem remT_result {o o' : Obj} {s : Abs} {q r n : Nat} {a : Option Nat} (hi : TInv o.det o.trans)
    (hr : Refines o s) (hs : step o (.remT q a r) = .ok (o', n)) :
    (n = 1 ↔ (q, a, r) ∈ s.delta) ∧ (n = 0 ∨ n = 1) :=
  P.remT_result hi hr hs

/-- (2) `get_number_transitions()` counts the transitions present -/
theorem numTransitions_eq (T : Table) :
    numTransitions T = (edges T).length :=
  PQ.numTransitions_eq T

/-- (3) `is_deterministic()` of the transition function: at most one target per (state, symbol) among
the transitions present — entries emptied by removals do not count -/
theorem tfDeterministic_iff {det : Bool} {T : Table} (hi : TInv det T) :
    tfDeterministic T = true ↔ Functional (edges T) :=
  PQ.tfDeterministic_iff hi

/-- (4) `self._transition_function(q, a)` returns the targets of the transitions present -/
theorem mem_call_iff {det : Bool} {T : Table} (hi : TInv det T) (q r : Nat) (a : Option Nat) :
    r ∈ call T q a ↔ (q, a, r) ∈ edges T :=
  PQ.mem_call_iff hi q r a

/-- (5) a `DeterministicFiniteAutomaton` object stays deterministic and ε-free whatever is done to it -/
theorem det_functional {T : Table} (hi : TInv true T) :
    Functional (edges T) ∧ ∀ t ∈ edges T, t.2.1 ≠ none :=
  PQ.det_functional hi

/-- two values with the same sets accept the same words -/
theorem lang_congr {A B : ENFA Nat} (hs : ∀ q, q ∈ A.starts ↔ q ∈ B.starts)
    (hf : ∀ q, q ∈ A.finals ↔ q ∈ B.finals) (hd : ∀ t, t ∈ A.delta ↔ t ∈ B.delta) (w : List Nat) :
    A.Lang w ↔ B.Lang w :=
  PQ.lang_congr hs hf hd w

/-- (6) history independence: two histories that lead to the same sets of start states, final
states and transitions give objects that answer alike — same language, same determinism verdict,
same number of transitions, same successors — whatever was added and removed on the way -/
theorem history_independent (det : Bool) (ops₁ ops₂ : List Op)
    (hs : ∀ q, q ∈ (absRun det absNew ops₁).starts ↔ q ∈ (absRun det absNew ops₂).starts)
    (hf : ∀ q, q ∈ (absRun det absNew ops₁).finals ↔ q ∈ (absRun det absNew ops₂).finals)
    (hd : ∀ t, t ∈ (absRun det absNew ops₁).delta ↔ t ∈ (absRun det absNew ops₂).delta) :
    let o₁ := run (new det) ops₁
    let o₂ := run (new det) ops₂
    (∀ w, (toENFA o₁).Lang w ↔ (toENFA o₂).Lang w) ∧
    tfDeterministic o₁.trans = tfDeterministic o₂.trans ∧
    numTransitions o₁.trans = numTransitions o₂.trans ∧
    ∀ q a r, r ∈ call o₁.trans q a ↔ r ∈ call o₂.trans q a :=
  PQ.history_independent det ops₁ ops₂ hs hf hd

/-- a fresh object stands for a well-formed value and has a table of the right shape -/
theorem new_wf (det : Bool) : (toENFA (new det)).WF ∧ TInv det (new det).trans :=
  PW.new_wf det

/-- so does an object built by the constructor from sets of states, symbols, start and final states -/
theorem mk_wf (det : Bool) (states syms starts finals : List Nat) :
    (toENFA (mk det states syms starts finals)).WF ∧ TInv det (mk det states syms starts finals).trans ∧
      (mk det states syms starts finals).det = det ∧
      (det = true → (mk det states syms starts finals).starts.length ≤ 1) :=
  PW.mk_wf det states syms starts finals

/-- a mutator call keeps well-formedness: states and symbols are registered before they are used and
nothing ever unregisters them -/
theorem step_wf {o o' : Obj} {op : Op} {n : Nat} (hi : TInv o.det o.trans) (hwf : (toENFA o).WF)
    (hs : step o op = .ok (o', n)) : (toENFA o').WF :=
  PW.step_wf hi hwf hs

/-- (7) every object reachable from a well-formed one by a history of mutator calls stands for a
well-formed value: the hypothesis `WF` of the theorems of C01–C04 holds for everything the public API
can build -/
theorem run_wf (o : Obj) (ops : List Op) (hi : TInv o.det o.trans) (hwf : (toENFA o).WF) :
    (toENFA (run o ops)).WF ∧ TInv o.det (run o ops).trans ∧ (run o ops).det = o.det :=
  PW.run_wf o ops hi hwf

/-- (8) a `DeterministicFiniteAutomaton` object, whatever is done to it through the API, stands for a
deterministic, ε-free, well-formed value: the hypotheses of `acceptsD_iff`, of the complement of
deterministic automata and of `minimize` -/
theorem run_dfa (o : Obj) (ops : List Op) (hd : o.det = true) (hi : TInv true o.trans)
    (hwf : (toENFA o).WF) (hs : o.starts.length ≤ 1) :
    (toENFA (run o ops)).WF ∧ (toENFA (run o ops)).Deterministic ∧ (toENFA (run o ops)).EpsFree :=
  PW.run_dfa o ops hd hi hwf hs

/-- in particular: any history on a fresh automaton of either kind -/
theorem api_wf (det : Bool) (ops : List Op) : (toENFA (run (new det) ops)).WF :=
  (run_wf (new det) ops (new_wf det).2 (new_wf det).1).1

theorem api_dfa (ops : List Op) :
    (toENFA (run (new true) ops)).Deterministic ∧ (toENFA (run (new true) ops)).EpsFree :=
  (run_dfa (new true) ops rfl (new_wf true).2 (new_wf true).1 (by decide)).2

/-- the constructor called with a pre-filled transition function of the right shape builds a well-formed
object (since the repair of the constructors) -/
theorem mkT_wf (det : Bool) (states syms starts finals : List Nat) (T : Table) (hT : TInv det T) :
    (toENFA (mkT det states syms starts finals T)).WF ∧
      TInv det (mkT det states syms starts finals T).trans ∧
      (mkT det states syms starts finals T).det = det := by
  obtain ⟨hwf, _, hdet, _⟩ := mk_wf det states syms starts finals
  refine ⟨?_, ?_, hdet⟩
  · have hst : ∀ q, q ∈ (mk det states syms starts finals).states →
        q ∈ (mkT det states syms starts finals T).states := by
      intro q hq
      simp only [mkT, List.mem_eraseDups, List.mem_append]
      exact Or.inl hq
    refine ⟨fun q hq => hst q (hwf.starts_sub q hq), fun q hq => hst q (hwf.finals_sub q hq), ?_, ?_, ?_⟩
    · intro t ht
      simp only [toENFA, mkT, List.mem_eraseDups, List.mem_append, List.mem_flatMap]
      exact Or.inr ⟨t, ht, by simp⟩
    · intro t ht
      simp only [toENFA, mkT, List.mem_eraseDups, List.mem_append, List.mem_flatMap]
      exact Or.inr ⟨t, ht, by simp⟩
    · intro t ht a ha
      simp only [toENFA, mkT, List.mem_eraseDups, List.mem_append, List.mem_filterMap]
      exact Or.inr ⟨t, ht, ha⟩
  · simpa [mkT, hdet] using hT

/-- non-vacuity: the history `add(0,a,1); remove(0,a,1); add(0,a,2)` on a nondeterministic table leaves the
entry of `(0, a)` with the single target `2` (the emptied entry is reused), one transition, a
deterministic table; on a deterministic automaton a second target is refused and changes nothing -/
example :
    (run (new false) [.addT 0 (some 0) 1, .remT 0 (some 0) 1, .addT 0 (some 0) 2]).trans = [(0, [(some 0, [2])])] ∧
    tfDeterministic (run (new false) [.addT 0 (some 0) 1, .remT 0 (some 0) 1, .addT 0 (some 0) 2]).trans = true ∧
    (run (new false) [.addT 0 (some 0) 1, .remT 0 (some 0) 1]).trans = [(0, [(some 0, [])])] ∧
    (run (new true) [.addT 0 (some 0) 1, .addT 0 (some 0) 2, .addT 0 none 2]).trans = [(0, [(some 0, [1])])] :=
  ⟨rfl, rfl, rfl, rfl⟩

end FAObj
end Pfl
