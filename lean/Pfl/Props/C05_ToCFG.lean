/-
C05 — `Regex.to_cfg` generates exactly the denoted language, for every tree and every start
symbol that is not one of the manufactured node names.
-/
import Pfl.Model.RegexToCFG
import Pfl.Spec.Regex
import Pfl.Spec.CFG
import Pfl.Proofs.RegexToCFGLemmas
namespace Pfl
namespace Rx

open TC in
theorem toCFG_lang (r : Rx) (start : String) (hstart : ∀ k, start ≠ nodeName k) (w : List String) :
    (r.toCFG start).Lang w ↔ Denote r w := by
  rw [CFG.lang_iff_gen]
  have key := gen_iff r (r.toCFG start) start 0 (fun k _ => hstart k)
    (fun p hp => hp) (fun p hp _ => hp) w
  rw [← key]
  constructor
  · rintro ⟨s, hs, hg⟩
    have : start = s := Option.some.inj hs
    subst this
    exact hg
  · intro hg
    exact ⟨start, rfl, hg⟩

theorem toCFG_wf (r : Rx) (start : String) : (r.toCFG start).WF :=
  CFG.Clean.mk'_wf _ _ _ _

end Rx
end Pfl
