/-
C20 — `CFG.from_text(g.to_text())` reads back exactly the productions of `g`, for every grammar whose symbols
are plain tokens (whitespace-free, no "->", no '|', not themselves spelled like a `"VAR:…"` / `"TER:…"` marker;
terminals not spelled like ε), whatever needs the explicit markers included.
-/
import Pfl.Model.TextCodec
import Pfl.Props.C20_Codec
import Pfl.Proofs.TextCodecLemmas
namespace Pfl
namespace TextCodec
open Codec Pfl.TextCodec.Lem

/-- a plain token -/
def PlainTok (t : List Char) : Prop :=
  t ≠ [] ∧ (∀ c ∈ t, isSpace c = false ∧ c ≠ '|') ∧ ¬ ['-', '>'] <:+: t ∧ isSpecial t = false

def PlainSym : TSym → Prop
  | .var v => PlainTok v
  | .ter t => PlainTok t ∧ t ∉ epsilonSpellings

def PlainProd (p : TProd) : Prop := PlainTok p.1 ∧ ∀ s ∈ p.2, PlainSym s

/-- **text round trip**: the reader returns the productions written, in order -/
theorem fromText_toText (up : Char → Bool) (hup : ∀ c, isUpper c = true → up c = true)
    (prods : List TProd) (h : ∀ p ∈ prods, PlainProd p) :
    fromText (toText up prods) = some prods := by
  have htok : ∀ {t : List Char}, PlainTok t → Tok t := fun ht => ⟨ht.1, ht.2.1, ht.2.2.1⟩
  have hsym : ∀ s : TSym, PlainSym s → Tok (symText up s) ∧ compSym (symText up s) = some s := by
    intro s hs
    cases s with
    | var v =>
      exact ⟨tok_var v (htok hs), by
        simp only [compSym, symText, read_varToText v ⟨hs.1, hs.2.2.2⟩]⟩
    | ter t =>
      exact ⟨tok_ter up t (htok hs.1), by
        simp only [compSym, symText, read_terText up hup t hs.1.1 hs.1.2.2.2 hs.2]⟩
  have hbody : ∀ body : List TSym, (∀ s ∈ body, PlainSym s) →
      (body.map (symText up)).filterMap compSym = body := by
    intro body
    induction body with
    | nil => intro _; rfl
    | cons s rest ih =>
      intro hb
      rw [List.map_cons, List.filterMap_cons, (hsym s (hb s (by simp))).2,
        ih fun x hx => hb x (List.mem_cons_of_mem _ hx)]
  have hline : ∀ p : TProd, lineOf up p = p.1 ++ [' ', '-', '>', ' '] ++ joinWith [' '] (p.2.map (symText up)) :=
    fun _ => rfl
  have htoks : ∀ p ∈ prods, ∀ t ∈ p.2.map (symText up), Tok t := by
    intro p hp t ht
    obtain ⟨s, hs, rfl⟩ := List.mem_map.mp ht
    exact (hsym s ((h p hp).2 s hs)).1
  unfold toText
  apply fromText_lines
  · intro p hp
    rw [hline]
    exact line_lineBreak p.1 _ (htok (h p hp).1) (htoks p hp)
  · intro p hp
    rw [hline]
    have := readLine_line p.1 _ (htok (h p hp).1) (h p hp).1.2.2.2 (htoks p hp)
    rw [hbody p.2 (h p hp).2] at this
    exact this

/-- the conditions are needed: a terminal spelled like a marker is read back as a variable -/
theorem fromText_toText_needs_not_special :
    fromText (toText (fun _ => false) [("S".toList, [.ter "\"VAR:x\"".toList])]) =
      some [("S".toList, [.var "x".toList])] := by
  decide +kernel

/-- non-vacuity: a grammar that needs both markers and has an empty production -/
example : ∀ p ∈ [(("S".toList, [.var "x".toList, .ter "A".toList, .ter "b".toList]) : TProd), ("x".toList, [])],
    PlainProd p := by
  intro p hp
  simp only [List.mem_cons, List.not_mem_nil, or_false] at hp
  rcases hp with rfl | rfl
  · refine ⟨by unfold PlainTok; decide +kernel, ?_⟩
    intro s hs
    simp only [List.mem_cons, List.not_mem_nil, or_false] at hs
    rcases hs with rfl | rfl | rfl <;> simp only [PlainSym, PlainTok] <;> decide +kernel
  · exact ⟨by unfold PlainTok; decide +kernel, by simp⟩

end TextCodec
end Pfl
