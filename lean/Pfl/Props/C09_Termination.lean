/-
C09 / C12 / C19 — totality of the fuelled models: explicit fuel bounds under which
`to_normal_form` (hence `contains`, `get_words`, `is_finite`) and the counter worklist behind
`get_generating_symbols` / `get_nullable_symbols` always answer, i.e. the library's recursion and
loops terminate.

`to_normal_form` recurses on the cleaned grammar
`G.remove_useless_symbols().remove_epsilon().remove_useless_symbols()
   .eliminate_unit_productions().remove_useless_symbols()`;
the point is that this grammar passes the test that guards the recursion (no nullable symbol, only
the reflexive unit pairs, no unit production, every registered symbol generating and reachable —
compared through the *sizes* of the sets) or has no production, so the recursion depth is at most
one.  (Before the repair of `Variable.__eq__` this failed — and the library looped for ever — on
grammars where a variable and a terminal share a value.)  No well-formedness hypothesis is needed:
whatever `G` is, the cleaned grammar comes out of the constructor (`mk'`).
-/
import Pfl.Props.C09_CNF
import Pfl.Props.C12_Words
import Pfl.Props.C19_Counters
import Pfl.Proofs.CFGTermination
import Pfl.Proofs.CFGTerminationCounters
import Pfl.Proofs.CFGTerminationWords
namespace Pfl
namespace CFG
open Pfl.CFG.Term

/-! ### (T1) `to_normal_form` -/

/-- the clean-up chain ends in a grammar on which `to_normal_form` returns at once -/
theorem cleaned_isFastPath_or_empty (G : CFG) :
    (G.removeUseless.removeEpsilon.removeUseless.elimUnit.removeUseless).isFastPath = true ∨
    (G.removeUseless.removeEpsilon.removeUseless.elimUnit.removeUseless).prods.length = 0 :=
  cleaned_fast G

/-- a grammar that passes the guard, or has no production, is answered without recursion -/
theorem toNormalForm_isSome_of_guard (G : CFG) (h : G.isFastPath = true ∨ G.prods.length = 0)
    (fuel : Nat) (hf : 1 ≤ fuel) : (G.toNormalForm fuel).isSome := by
  obtain ⟨k, rfl⟩ : ∃ k, fuel = k + 1 := ⟨fuel - 1, by omega⟩
  rw [toNormalForm]
  split
  · rfl
  · split
    · rfl
    · rename_i h1 h2; rcases h with h | h
      · exact absurd h h1
      · exact absurd h h2

/-- (T1) `to_normal_form` terminates with recursion depth at most one: fuel 2 always suffices.
Holds for every grammar; in particular for every well-formed one. -/
theorem toNormalForm_isSome (G : CFG) (fuel : Nat) (hf : 2 ≤ fuel) : (G.toNormalForm fuel).isSome := by
  obtain ⟨k, rfl⟩ : ∃ k, fuel = k + 1 + 1 := ⟨fuel - 2, by omega⟩
  rw [toNormalForm]
  split
  · rfl
  · split
    · rfl
    · exact toNormalForm_isSome_of_guard _ (cleaned_fast G) (k + 1) (by omega)

/-- the form asked for: every well-formed grammar, every fuel `≥ 2` -/
theorem toNormalForm_isSome_wf (G : CFG) (_hG : G.WF) (fuel : Nat) (hf : 2 ≤ fuel) :
    (G.toNormalForm fuel).isSome := toNormalForm_isSome G fuel hf

/-- the bound 2 is the smallest: with fuel 1 the model answers exactly on the grammars that need
no clean-up -/
theorem toNormalForm_one_isSome_iff (G : CFG) :
    (G.toNormalForm 1).isSome ↔ (G.isFastPath = true ∨ G.prods.length = 0) := by
  constructor
  · intro h
    rw [toNormalForm] at h
    split at h
    · rename_i h1; exact Or.inl h1
    · split at h
      · rename_i h2; exact Or.inr h2
      · rw [toNormalForm] at h; cases h
  · intro h; exact toNormalForm_isSome_of_guard G h 1 (Nat.le_refl _)

/-- the answer does not depend on the fuel once there is enough of it -/
theorem toNormalForm_fuel_indep (G : CFG) (fuel : Nat) (hf : 2 ≤ fuel) :
    G.toNormalForm fuel = G.toNormalForm 2 := by
  have guard : ∀ (H : CFG), (H.isFastPath = true ∨ H.prods.length = 0) → ∀ k,
      H.toNormalForm (k + 1) = H.toNormalForm 1 := by
    intro H h k
    rw [toNormalForm, toNormalForm.eq_def H 1]
    simp only
    split
    · rfl
    · split
      · rfl
      · rename_i h1 h2; rcases h with h | h
        · exact absurd h h1
        · exact absurd h h2
  obtain ⟨k, rfl⟩ : ∃ k, fuel = k + 1 + 1 := ⟨fuel - 2, by omega⟩
  rw [toNormalForm, toNormalForm.eq_def G 2]
  simp only
  split
  · rfl
  · split
    · rfl
    · exact guard _ (cleaned_fast G) k

/-! ### (T2) `contains`, `get_words`, `is_finite` -/

theorem contains_isSome (G : CFG) (w : List String) (fuel : Nat) (hf : 2 ≤ fuel) :
    (G.contains w fuel).isSome := by
  unfold contains
  split
  · rfl
  · rw [Option.isSome_map]; exact toNormalForm_isSome G fuel hf

theorem isFinite_isSome (G : CFG) (fuel : Nat) (hf : 2 ≤ fuel) : (G.isFinite fuel).isSome := by
  unfold isFinite
  rw [Option.isSome_map]; exact toNormalForm_isSome G fuel hf

/-- `get_words(n)`: the loop runs for the lengths `2, …, n`, so fuel `max 2 n` suffices
(2 for the normal form, `n` for the loop: `n - 1` rounds and the final test) -/
theorem getWords_isSome (G : CFG) (n fuel : Nat) (hf : 2 ≤ fuel) (hn : n ≤ fuel) :
    (G.getWords (some n) fuel).isSome := by
  unfold getWords
  simp only
  split
  · rfl
  · obtain ⟨N, hN⟩ := Option.isSome_iff_exists.mp (toNormalForm_isSome G fuel hf)
    rw [hN]
    simp only
    split
    · rfl
    · exact wordsLoop_isSome N _ n fuel 2 0 _ _ (by omega) (by omega)

/-! ### (T3) the counter worklist -/

/-- every symbol is pushed at most once (it enters `found` when pushed), so the loop pops at most
`|U|` symbols, `U` any list containing the seeds and the heads of the impact entries; the counters
`rem` play no role -/
theorem genCounters_isSome_general (G : CFG) (nullable : Bool) (rem : Remaining) (imp : Impacts)
    (added : List String) (fuel : Nat)
    (hadd : ∀ a ∈ added, a ∈ G.vars) (himp : ∀ e ∈ imp, e.2.1 ∈ G.vars)
    (hf : G.vars.length + (if nullable then 0 else G.ters.length) ≤ fuel) :
    (G.genCounters nullable rem imp added fuel).isSome := by
  refine genCounters_isSome_of G nullable rem imp added fuel
    (G.vars.map Sym.var ++ (if nullable then [] else G.ters.map Sym.ter)) ?_ ?_ ?_ ?_
  · intro a ha
    exact List.mem_append_left _ (List.mem_map.mpr ⟨a, hadd a ha, rfl⟩)
  · intro hn t ht
    subst hn
    exact List.mem_append_right _ (List.mem_map.mpr ⟨t, ht, rfl⟩)
  · intro e he
    exact List.mem_append_left _ (List.mem_map.mpr ⟨_, himp e he, rfl⟩)
  · cases nullable <;> simpa using hf

/-- (T3) on the tables built from a well-formed grammar (with any state `rem` of the counters) the
worklist answers for every fuel `≥ |variables| + |terminals|` -/
theorem genCounters_isSome (G : CFG) (hG : G.WF) (nullable : Bool) (rem : Remaining) (fuel : Nat)
    (hf : G.vars.length + G.ters.length ≤ fuel) :
    (G.genCounters nullable rem G.buildTables.2.1 G.buildTables.2.2 fuel).isSome := by
  refine genCounters_isSome_general G nullable rem _ _ fuel ?_ ?_ ?_
  · intro a ha
    obtain ⟨p, hp, rfl⟩ := (buildTables_heads G).1 a ha
    exact hG.head_mem p hp
  · intro e he
    obtain ⟨p, hp, hpe⟩ := (buildTables_heads G).2 e he
    rw [← hpe]; exact hG.head_mem p hp
  · cases nullable <;> simp <;> omega

/-- for the nullable symbols the variables alone bound the number of rounds -/
theorem genCounters_nullable_isSome (G : CFG) (hG : G.WF) (rem : Remaining) (fuel : Nat)
    (hf : G.vars.length ≤ fuel) :
    (G.genCounters true rem G.buildTables.2.1 G.buildTables.2.2 fuel).isSome := by
  refine genCounters_isSome_general G true rem _ _ fuel ?_ ?_ (by simpa using hf)
  · intro a ha
    obtain ⟨p, hp, rfl⟩ := (buildTables_heads G).1 a ha
    exact hG.head_mem p hp
  · intro e he
    obtain ⟨p, hp, hpe⟩ := (buildTables_heads G).2 e he
    rw [← hpe]; exact hG.head_mem p hp

/-! ### (T2, beyond the request) unbounded `get_words()` -/

/-- `get_words()` without length bound on a grammar with a finite language: the stopping rule
(`2 * no_modification > current_length + 1`) fires.  All words of the normal form `N` have length
`≤ L = 2 ^ |N.variables|`; the loop computes the rows up to `L` and then needs `L + 2` empty rows:
fuel `2 * L + 1` -/
theorem getWords_unbounded_isSome (G : CFG) (hG : G.WF) (hfin : ∃ n, ∀ w, G.Lang w → w.length ≤ n)
    (N : CFG) (hN : G.toNormalForm 2 = some N) (fuel : Nat)
    (hf : 2 ^ (N.vars.length + 1) + 1 ≤ fuel) : (G.getWords none fuel).isSome := by
  have hpos : 1 ≤ 2 ^ N.vars.length := Nat.one_le_two_pow
  rw [Nat.pow_succ] at hf
  have hN' : G.toNormalForm fuel = some N := by
    rw [toNormalForm_fuel_indep G fuel (by omega)]; exact hN
  have hnf := toNormalForm_isNormalForm G hG 2 N hN
  have hwf := Words.toNormalForm_wf G hG 2 N hN
  have hL := normalForm_bounded G hG hfin 2 N hN
  unfold getWords
  simp only [reduceCtorEq, if_false, hN']
  split
  · rfl
  · refine wordsLoop_none_isSome hnf hwf _ (2 ^ N.vars.length) hL fuel 2 0 _ _ (Nat.le_refl _) rfl ?_
      (by omega) (fun _ => by omega) (fun _ => by omega)
    intro len x u hlen
    have : len = 0 ∨ len = 1 := by omega
    rcases this with rfl | rfl
    · constructor
      · intro hu; cases hu
      · rintro ⟨hl, hg⟩
        have := Words.gen_cnf_len_pos hnf hg; omega
    · rw [Words.rowLookup_single]; exact Words.mem_wordsRow1 hnf hwf x u

/-- on an infinite language the generator never finishes (as it should: it keeps yielding) -/
theorem getWords_unbounded_none (G : CFG) (hG : G.WF) (hinf : ∀ n, ∃ w, G.Lang w ∧ n < w.length)
    (fuel : Nat) : G.getWords none fuel = none := by
  cases h : G.getWords none fuel with
  | none => rfl
  | some ws =>
    exfalso
    have hex := (getWords_exact_unbounded G hG fuel ws h).2
    obtain ⟨n, hn⟩ := lengths_bounded ws
    obtain ⟨w, hw, hl⟩ := hinf n
    have := hn w ((hex w).mpr hw)
    omega

/-- `get_words()` terminates exactly on the finite languages -/
theorem getWords_unbounded_terminates_iff (G : CFG) (hG : G.WF) :
    (∃ fuel, (G.getWords none fuel).isSome) ↔ ∃ n, ∀ w, G.Lang w → w.length ≤ n := by
  constructor
  · rintro ⟨fuel, h⟩
    obtain ⟨ws, hws⟩ := Option.isSome_iff_exists.mp h
    obtain ⟨n, hn⟩ := lengths_bounded ws
    exact ⟨n, fun w hw => hn w (((getWords_exact_unbounded G hG fuel ws hws).2 w).mpr hw)⟩
  · intro hfin
    obtain ⟨N, hN⟩ := Option.isSome_iff_exists.mp (toNormalForm_isSome G 2 (Nat.le_refl _))
    exact ⟨_, getWords_unbounded_isSome G hG hfin N hN _ (Nat.le_refl _)⟩

/-! ### non-vacuity -/

/-- S → A B, A → a | ε, B → A | b S, C → C: ε-production, unit production, useless symbol -/
def termG : CFG := mk' [] [] (some "S")
  [("S", [.var "A", .var "B"]), ("A", [.ter "a"]), ("A", []), ("B", [.var "A"]),
   ("B", [.ter "b", .var "S"]), ("C", [.var "C"])]

/-- the recursion is really entered on `termG` (guard fails, productions present, fuel 1 is not
enough), the cleaned grammar passes the guard with productions left, and fuel 2 answers -/
example : termG.isFastPath = false ∧ termG.prods.length = 6 ∧ termG.toNormalForm 1 = none ∧
    (termG.removeUseless.removeEpsilon.removeUseless.elimUnit.removeUseless).isFastPath = true ∧
    (termG.removeUseless.removeEpsilon.removeUseless.elimUnit.removeUseless).prods.length = 12 := by
  decide +kernel

example : (termG.toNormalForm 2).isSome := toNormalForm_isSome termG 2 (Nat.le_refl _)
example : (termG.toNormalForm 2).map (·.prods.length) = some 9 := by decide +kernel
example : termG.contains ["a", "b", "a"] 2 = some true := by decide +kernel
example : (termG.contains ["a", "b", "a"] 2).isSome := contains_isSome termG _ 2 (Nat.le_refl _)
example : (termG.isFinite 2).isSome := isFinite_isSome termG 2 (Nat.le_refl _)
example : (termG.getWords (some 3) 3).isSome := getWords_isSome termG 3 3 (by omega) (Nat.le_refl _)
/-- the loop bound is attained: `get_words(3)` does not answer with fuel 2 -/
example : termG.getWords (some 3) 2 = none ∧ (termG.getWords (some 3) 3).isSome := by decide +kernel

/-- the second branch: a start symbol that generates nothing leaves no production -/
def termG0 : CFG := mk' ["S"] ["a"] (some "S") [("S", [.var "S"])]
example : termG0.isFastPath = false ∧
    (termG0.removeUseless.removeEpsilon.removeUseless.elimUnit.removeUseless).isFastPath = false ∧
    (termG0.removeUseless.removeEpsilon.removeUseless.elimUnit.removeUseless).prods.length = 0 ∧
    (termG0.toNormalForm 2).isSome := by decide +kernel

theorem termG_wf : termG.WF := mk'_wf _ _ _ _

/-- `termG` has 4 variables and 2 terminals: fuel 6 -/
example : (termG.genCounters false termG.buildTables.1 termG.buildTables.2.1 termG.buildTables.2.2 6).isSome :=
  genCounters_isSome termG termG_wf false _ 6 (by decide +kernel)

/-- S → a b: both terminals and then the variable are popped, 3 = |vars| + |ters| rounds; the bound is
attained (fuel 2 is not enough) -/
def termG1 : CFG := mk' [] [] (some "S") [("S", [.ter "a", .ter "b"])]
example : termG1.vars.length + termG1.ters.length = 3 ∧
    termG1.genCounters false termG1.buildTables.1 termG1.buildTables.2.1 termG1.buildTables.2.2 2 = none ∧
    (termG1.genCounters false termG1.buildTables.1 termG1.buildTables.2.1 termG1.buildTables.2.2 3).isSome := by
  decide +kernel

/-- finite language {ab}: `is_finite` says so, hence `get_words()` stops -/
example : ∃ fuel, (termG1.getWords none fuel).isSome :=
  (getWords_unbounded_terminates_iff termG1 (mk'_wf _ _ _ _)).mpr
    ((isFinite_iff termG1 (mk'_wf _ _ _ _) 2 true (by decide +kernel)).mp rfl)
example : (termG1.getWords none 5).isSome := by decide +kernel

/-- infinite language: `termG.is_finite()` is false, so `get_words()` runs out of any fuel -/
example (fuel : Nat) : termG.getWords none fuel = none := by
  refine getWords_unbounded_none termG termG_wf ?_ fuel
  intro n
  have h := (isFinite_iff termG termG_wf 2 false (by decide +kernel))
  by_contra hc
  have : ∃ n, ∀ w, termG.Lang w → w.length ≤ n := by
    refine ⟨n, fun w hw => ?_⟩
    by_contra hl
    exact hc ⟨w, hw, by omega⟩
  exact absurd (h.mpr this) (by simp)

end CFG
end Pfl
