/-
C12 — word enumeration and finiteness.
-/
import Pfl.Props.C09_CNF
namespace Pfl
namespace CFG

/-- `get_words(n)`: whenever the loop finishes it has yielded each generated word of length
`≤ n` exactly once and nothing else -/
theorem getWords_exact (G : CFG) (hG : G.WF) (n fuel : Nat) (ws : List (List String))
    (h : G.getWords (some n) fuel = some ws) :
    ws.Nodup ∧ ∀ w, w ∈ ws ↔ w.length ≤ n ∧ G.Lang w := by
  sorry

/-- unbounded `get_words()`: the stopping rule only fires when no longer word exists -/
theorem getWords_exact_unbounded (G : CFG) (hG : G.WF) (fuel : Nat) (ws : List (List String))
    (h : G.getWords none fuel = some ws) :
    ws.Nodup ∧ ∀ w, w ∈ ws ↔ G.Lang w := by
  sorry

/-- `is_finite`: whenever it answers, the answer is finiteness of the language -/
theorem isFinite_iff (G : CFG) (hG : G.WF) (fuel : Nat) (b : Bool)
    (h : G.isFinite fuel = some b) :
    b = true ↔ ∃ n, ∀ w, G.Lang w → w.length ≤ n := by
  sorry

end CFG
end Pfl
