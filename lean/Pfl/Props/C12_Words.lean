/-
C12 — word enumeration and finiteness.
-/
import Pfl.Props.C09_CNF
import Pfl.Proofs.CFGWords
namespace Pfl
namespace CFG
open Words

/-- `get_words(n)`: whenever the loop finishes it has yielded each generated word of length
`≤ n` exactly once and nothing else -/
theorem getWords_exact (G : CFG) (hG : G.WF) (n fuel : Nat) (ws : List (List String))
    (h : G.getWords (some n) fuel = some ws) :
    ws.Nodup ∧ ∀ w, w ∈ ws ↔ w.length ≤ n ∧ G.Lang w := by
  cases n with
  | zero =>
    simp only [getWords, if_true, Option.some.injEq] at h
    subst h
    constructor
    · split <;> simp
    · intro w
      constructor
      · intro hw
        split at hw
        · rename_i he
          simp only [List.mem_singleton] at hw
          subst hw; exact ⟨Nat.le_refl _, (generateEpsilon_iff G).mp he⟩
        · cases hw
      · rintro ⟨hl, hg⟩
        have : w = [] := List.eq_nil_of_length_eq_zero (by omega)
        subst this
        rw [if_pos ((generateEpsilon_iff G).mpr hg)]; simp
  | succ n =>
    have := getWords_spec G hG (some (n + 1)) (by simp) fuel ws h
    refine ⟨this.1, ?_⟩
    intro w
    rw [this.2]
    constructor
    · rintro ⟨h1, h2⟩; exact ⟨h2 _ rfl, h1⟩
    · rintro ⟨h1, h2⟩; exact ⟨h2, fun m hm => by cases hm; exact h1⟩

/-- unbounded `get_words()`: the stopping rule only fires when no longer word exists -/
theorem getWords_exact_unbounded (G : CFG) (hG : G.WF) (fuel : Nat) (ws : List (List String))
    (h : G.getWords none fuel = some ws) :
    ws.Nodup ∧ ∀ w, w ∈ ws ↔ G.Lang w := by
  have := getWords_spec G hG none (by simp) fuel ws h
  refine ⟨this.1, ?_⟩
  intro w
  rw [this.2]
  simp

/-- `is_finite`: whenever it answers, the answer is finiteness of the language -/
theorem isFinite_iff (G : CFG) (hG : G.WF) (fuel : Nat) (b : Bool)
    (h : G.isFinite fuel = some b) :
    b = true ↔ ∃ n, ∀ w, G.Lang w → w.length ≤ n := by
  rw [isFinite_eq] at h
  cases hN : G.toNormalForm fuel with
  | none => rw [hN] at h; cases h
  | some N =>
    rw [hN] at h
    simp only [Option.map_some, Option.some.injEq] at h
    have hlang := toNormalForm_lang G hG fuel N hN
    have hnf := toNormalForm_isNormalForm G hG fuel N hN
    have hwf := toNormalForm_wf G hG fuel N hN
    have hU := toNormalForm_useful G hG fuel N hN
    have hcyc := hasCycle_iff N hwf
    rw [← h]
    simp only [Bool.not_eq_true', ← Bool.not_eq_true, hcyc]
    constructor
    · intro hc
      refine ⟨2 ^ N.vars.length, ?_⟩
      intro w hw
      by_cases hw0 : w = []
      · subst hw0; simp
      · have : N.Lang w := (hlang w).mpr ⟨hw, hw0⟩
        obtain ⟨s, _, hg⟩ := (lang_iff_gen N w).mp this
        exact acyclic_bounded hnf hwf hc s w hg
    · rintro ⟨n, hn⟩ hc
      obtain ⟨w, hw, hl⟩ := cycle_unbounded hnf hU hc (n + 1)
      have := hn w ((hlang w).mp hw).1
      omega

end CFG
end Pfl
