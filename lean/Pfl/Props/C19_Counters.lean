/-
C19 / C12 — the counter-based worklist computes the same sets as the saturation model, and leaves
the cached counters exactly as it found them, so any history of calls answers like a fresh object.
-/
import Pfl.Model.CFGCounters
import Pfl.Props.C12_Classes
import Pfl.Proofs.CFGCounters
namespace Pfl
namespace CFG
open Pfl.CFG.Ctr

/-- the restore pass undoes every decrement: the cached counters are unchanged, whatever they were -/
theorem genCounters_restores (G : CFG) (nullable : Bool) (rem : Remaining) (imp : Impacts)
    (added : List String) (fuel : Nat) (found : List Sym) (rem' : Remaining)
    (hwf : ∀ e ∈ imp, ∃ l, (e.2.1, l) ∈ rem ∧ e.2.2 < l.length)
    (hnd : (rem.map (·.1)).Nodup)
    (hpos : ∀ e ∈ rem, ∀ n ∈ e.2, 0 < n)
    (h : G.genCounters nullable rem imp added fuel = some (found, rem')) : rem' = rem := by
  unfold genCounters at h
  dsimp only at h
  split at h
  · cases h
  · next f r l hc =>
    simp only [Option.some.injEq, Prod.mk.injEq] at h
    obtain ⟨_, rfl⟩ := h
    exact restores_core rem imp fuel _ _ f r l hwf hnd hpos hc

/-- on the tables built from the grammar, the generating run returns the generating symbols -/
theorem genCounters_generating (G : CFG) (hG : G.WF) (fuel : Nat) (found : List Sym) (rem' : Remaining)
    (h : G.genCounters false G.buildTables.1 G.buildTables.2.1 G.buildTables.2.2 fuel = some (found, rem'))
    (s : Sym) : s ∈ found ↔ s ∈ G.generating := by
  have _ := hG
  exact counters_main G false fuel found rem' h s

/-- and the nullable run the nullable symbols -/
theorem genCounters_nullable (G : CFG) (fuel : Nat) (found : List Sym) (rem' : Remaining)
    (h : G.genCounters true G.buildTables.1 G.buildTables.2.1 G.buildTables.2.2 fuel = some (found, rem'))
    (s : Sym) : s ∈ found ↔ s ∈ G.nullable := by
  exact counters_main G true fuel found rem' h s

/-- history independence: after any run the tables are the built ones again, so a later run
(of either kind) answers exactly like the first run on a fresh object -/
theorem genCounters_history (G : CFG) (n1 n2 : Bool) (fuel1 fuel2 : Nat) (f1 : List Sym) (r1 : Remaining)
    (h1 : G.genCounters n1 G.buildTables.1 G.buildTables.2.1 G.buildTables.2.2 fuel1 = some (f1, r1)) :
    G.genCounters n2 r1 G.buildTables.2.1 G.buildTables.2.2 fuel2 =
      G.genCounters n2 G.buildTables.1 G.buildTables.2.1 G.buildTables.2.2 fuel2 := by
  rw [genCounters_restores G n1 _ _ _ fuel1 f1 r1 (buildTables_hwf G) (buildTables_hnd G)
    (buildTables_hpos G) h1]

end CFG
end Pfl
