/-
C20 — `from_networkx (to_networkx x)` rebuilds the same machine: same states, same start / final marking,
same transitions, for finite automata, PDAs and transducers, whatever the states are called (names such
as "starting_q" that coincide with decoration nodes included).
-/
import Pfl.Model.Networkx
import Pfl.Props.C20_Labels
import Pfl.Proofs.Networkx
namespace Pfl
namespace Nx
open LabelCodec Pfl.Nx.Lem

/-! ### finite automata -/

/-- what an automaton built through the API satisfies, plus the quantifier of the property: no symbol
value is an ε spelling -/
structure FA.WF (A : FA) : Prop where
  starts : ∀ q ∈ A.starts, q ∈ A.states
  finals : ∀ q ∈ A.finals, q ∈ A.states
  delta : ∀ t ∈ A.delta, t.1 ∈ A.states ∧ t.2.2 ∈ A.states
  noEps : ∀ t ∈ A.delta, ∀ a, t.2.1 = some a → isEps a = false

theorem FA.roundtrip (A : FA) (h : A.WF) :
    (∀ q, q ∈ (FA.fromNetworkx A.toNetworkx).states ↔ q ∈ A.states) ∧
    (∀ q, q ∈ (FA.fromNetworkx A.toNetworkx).starts ↔ q ∈ A.starts) ∧
    (∀ q, q ∈ (FA.fromNetworkx A.toNetworkx).finals ↔ q ∈ A.finals) ∧
    (∀ t, t ∈ (FA.fromNetworkx A.toNetworkx).delta ↔ t ∈ A.delta) := by
  let sflag : Val → Bool := fun q => decide (q ∈ A.starts)
  let fflag : Val → Bool := fun q => decide (q ∈ A.finals)
  let lab : Val × Option Val × Val → Val := fun t => match t.2.1 with | none => .str "ɛ" | some a => a
  have hinv : Inv sflag fflag A.states (A.states.foldl (stateStep sflag fflag) ({} : Graph Val)) :=
    inv_statePass A.states
  have hg : A.toNetworkx =
      { nodes := (A.states.foldl (stateStep sflag fflag) ({} : Graph Val)).nodes
        edges := (A.states.foldl (stateStep sflag fflag) ({} : Graph Val)).edges ++
          A.delta.map fun t => (t.1, t.2.2, some (lab t)) } := by
    rw [← foldl_addEdge (fun t : Val × Option Val × Val => t.1) (fun t => t.2.2) (fun t => some (lab t))]
    · unfold FA.toNetworkx
      simp only [sflag, fflag, lab]
      congr 2
      funext g q
      simp [stateStep]
    · intro t ht
      exact ⟨hinv.nodes _ (h.delta t ht).1, hinv.nodes _ (h.delta t ht).2⟩
  have hdelta : (FA.fromNetworkx A.toNetworkx).delta = A.delta := by
    rw [hg]
    unfold FA.fromNetworkx
    simp only
    rw [filterMap_labelled (fun e l => (e.1, (if isEps l then none else some l), e.2.1)) _ hinv.edges]
    conv => rhs; rw [← List.map_id A.delta]
    apply List.map_congr_left
    rintro ⟨u, a, v⟩ ht
    cases a with
    | none => simp [lab, isEps]
    | some a => simp [lab, h.noEps _ ht a rfl]
  have hstarts : ∀ q, q ∈ (FA.fromNetworkx A.toNetworkx).starts ↔ q ∈ A.starts := by
    intro q
    rw [hg]
    unfold FA.fromNetworkx
    simp only
    rw [hinv.mem_starts]
    simpa [sflag] using h.starts q
  have hfinals : ∀ q, q ∈ (FA.fromNetworkx A.toNetworkx).finals ↔ q ∈ A.finals := by
    intro q
    rw [hg]
    unfold FA.fromNetworkx
    simp only
    rw [hinv.mem_finals]
    simpa [fflag] using h.finals q
  have hnodes : ∀ q, q ∈ (A.toNetworkx.nodes.filter fun n => n.2.isFinal.isSome).map (·.1) ↔ q ∈ A.states := by
    intro q
    rw [hg]
    exact hinv.mem_stateNodes q
  have hst : (FA.fromNetworkx A.toNetworkx).states =
      ((FA.fromNetworkx A.toNetworkx).delta.flatMap fun t => [t.1, t.2.2]) ++
        (A.toNetworkx.nodes.filter fun n => n.2.isFinal.isSome).map (·.1) ++
        (FA.fromNetworkx A.toNetworkx).starts ++ (FA.fromNetworkx A.toNetworkx).finals := rfl
  refine ⟨?_, hstarts, hfinals, ?_⟩
  · intro q
    rw [hst, hdelta]
    simp only [List.mem_append, hstarts, hfinals, hnodes, List.mem_flatMap]
    constructor
    · rintro (((⟨t, ht, hq⟩ | hq) | hq) | hq)
      · simp only [List.mem_cons, List.not_mem_nil, or_false] at hq
        rcases hq with rfl | rfl
        · exact (h.delta t ht).1
        · exact (h.delta t ht).2
      · exact hq
      · exact h.starts q hq
      · exact h.finals q hq
    · intro hq
      exact Or.inl (Or.inl (Or.inr hq))
  · intro t
    rw [hdelta]

/-! ### pushdown automata -/

/-- `json.loads ∘ json.dumps = id`, and the label texts of the transitions split back -/
structure JsonOK (J : Json) : Prop where
  loads_dumps : ∀ v, J.loads (J.dumps v) = some v
  loadsL_dumpsL : ∀ l, J.loadsL (J.dumpsL l) = some l

/-- the exact condition under which a PDA label splits back into its three texts (`readPdaLabel_pdaLabel`);
`Clear` texts satisfy it (`readPdaLabel_pdaLabel_clear`) -/
def PdaLabelOK (i f t : List Char) : Prop :=
  ¬ sepArrow <:+: i ++ sepArrow.dropLast ∧ ¬ sepArrow <:+: f ++ sepSlash ++ t ∧
  ¬ sepSlash <:+: f ++ sepSlash.dropLast ∧ ¬ sepSlash <:+: t

structure PDA.WF (J : Json) (P : PDA) : Prop where
  start : ∀ q, P.start = some q → q ∈ P.states
  finals : ∀ q ∈ P.finals, q ∈ P.states
  delta : ∀ t ∈ P.delta, t.1 ∈ P.states ∧ t.2.2.2.1 ∈ P.states
  labels : ∀ t ∈ P.delta, PdaLabelOK (J.dumps t.2.1) (J.dumps t.2.2.1) (J.dumpsL t.2.2.2.2)

/-- the graph after the state pass and the hidden node of `PDA.to_networkx` (before the transitions) -/
def PDA.nodeGraph (J : Json) (P : PDA) : Graph (List Char) :=
  let g0 : Graph (List Char) :=
    P.states.foldl (stateStep (fun q => decide (some q = P.start)) (fun q => decide (q ∈ P.finals))) {}
  match P.startStack with
  | some z => g0.addNode hiddenStack { label := some (.str (String.ofList (J.dumps z))), initialStack := some (J.dumps z) }
  | none => g0

theorem PDA.nodeGraph_inv (J : Json) (P : PDA) :
    Inv (fun q => decide (some q = P.start)) (fun q => decide (q ∈ P.finals)) P.states (P.nodeGraph J) := by
  have hinv0 := inv_statePass (L := List Char) (sflag := fun q => decide (some q = P.start))
    (fflag := fun q => decide (q ∈ P.finals)) P.states
  unfold PDA.nodeGraph
  simp only
  split
  · exact hinv0.addDeco _ _ rfl rfl
  · exact hinv0

/-- `PDA.to_networkx`: the node graph plus one labelled edge per transition -/
theorem PDA.toNetworkx_eq (J : Json) (P : PDA) (h : P.WF J) :
    P.toNetworkx J =
      { nodes := (P.nodeGraph J).nodes
        edges := (P.nodeGraph J).edges ++ P.delta.map fun t =>
          (t.1, t.2.2.2.1, some (pdaLabel (J.dumps t.2.1) (J.dumps t.2.2.1) (J.dumpsL t.2.2.2.2))) } := by
  have hinv := PDA.nodeGraph_inv J P
  rw [← foldl_addEdge (fun t : Val × Val × Val × Val × List Val => t.1) (fun t => t.2.2.2.1)
    (fun t => some (pdaLabel (J.dumps t.2.1) (J.dumps t.2.2.1) (J.dumpsL t.2.2.2.2)))]
  · have hfun : (fun (g : Graph (List Char)) q =>
        if some q = P.start then
          addMarker (g.addNode q ⟨some (decide (some q = P.start)), some (decide (q ∈ P.finals)), some q, none⟩) q
        else g.addNode q ⟨some (decide (some q = P.start)), some (decide (q ∈ P.finals)), some q, none⟩) =
        stateStep (fun q => decide (some q = P.start)) (fun q => decide (q ∈ P.finals)) := by
      funext g q
      simp [stateStep]
    unfold PDA.toNetworkx PDA.nodeGraph
    simp only []
    rw [hfun]
    rfl
  · intro t ht
    exact ⟨hinv.nodes _ (h.delta t ht).1, hinv.nodes _ (h.delta t ht).2⟩

/-- the import of a graph made of nodes that satisfy the state-pass invariant and from which the start stack
symbol is read back, plus the transition edges of `P` -/
theorem PDA.import_of_nodes (J : Json) (hJ : JsonOK J) (P : PDA) (h : P.WF J) (g1 : Graph (List Char))
    (hinv : Inv (fun q => decide (some q = P.start)) (fun q => decide (q ∈ P.finals)) P.states g1)
    (hstack : readStack J g1 = some P.startStack) :
    ∃ Q, PDA.fromNetworkx J
        { nodes := g1.nodes
          edges := g1.edges ++ P.delta.map fun t =>
            (t.1, t.2.2.2.1, some (pdaLabel (J.dumps t.2.1) (J.dumps t.2.2.1) (J.dumpsL t.2.2.2.2))) } = some Q ∧
      (∀ q, q ∈ Q.states ↔ q ∈ P.states) ∧ Q.start = P.start ∧ Q.startStack = P.startStack ∧
      (∀ q, q ∈ Q.finals ↔ q ∈ P.finals) ∧ (∀ t, t ∈ Q.delta ↔ t ∈ P.delta) := by
  let lab : Val × Val × Val × Val × List Val → List Char :=
    fun t => pdaLabel (J.dumps t.2.1) (J.dumps t.2.2.1) (J.dumpsL t.2.2.2.2)
  let G : Graph (List Char) :=
    { nodes := g1.nodes, edges := g1.edges ++ P.delta.map fun t => (t.1, t.2.2.2.1, some (lab t)) }
  show ∃ Q, PDA.fromNetworkx J G = some Q ∧ _
  have hts : allSome (G.edges.filterMap fun e => e.2.2.map fun l => PDA.readEdge J e.1 e.2.1 l)
      = some P.delta := by
    simp only [G]
    rw [filterMap_labelled (fun e l => PDA.readEdge J e.1 e.2.1 l) _ hinv.edges]
    rw [← allSome_map_some P.delta]
    congr 1
    apply List.map_congr_left
    rintro ⟨u, i, f, v, o⟩ ht
    have hl := h.labels _ ht
    simp only [PDA.readEdge, lab, readPdaLabel_pdaLabel _ _ _ hl.1 hl.2.1 hl.2.2.1 hl.2.2.2,
      hJ.loads_dumps, hJ.loadsL_dumpsL]
  have hstarts : ∀ q, q ∈ (G.nodes.filter fun n => n.2.isStart.getD false).map (·.1) ↔
      some q = P.start := by
    intro q
    simp only [G]
    rw [hinv.mem_starts]
    simp only [decide_eq_true_eq, and_iff_right_iff_imp]
    intro hq
    exact h.start q hq.symm
  have hfinals : ∀ q, q ∈ (G.nodes.filter fun n => n.2.isFinal.getD false).map (·.1) ↔
      q ∈ P.finals := by
    intro q
    simp only [G]
    rw [hinv.mem_finals]
    simpa using h.finals q
  have hnodes : ∀ q, q ∈ (G.nodes.filter fun n => n.2.isFinal.isSome).map (·.1) ↔
      q ∈ P.states := by
    intro q
    exact hinv.mem_stateNodes q
  have hstart : ((G.nodes.filter fun n => n.2.isStart.getD false).map (·.1)).getLast? = P.start := by
    cases hs : P.start with
    | none =>
      have : (G.nodes.filter fun n => n.2.isStart.getD false).map (·.1) = [] := by
        rw [List.eq_nil_iff_forall_not_mem]
        intro q hq
        rw [hstarts, hs] at hq
        cases hq
      rw [this]; rfl
    | some q0 =>
      apply getLast?_of_all_eq
      · intro x hx
        rw [hstarts, hs] at hx
        exact Option.some.inj hx
      · rw [hstarts, hs]
  have hstack' : ∀ X : Option (Option Val), X = some P.startStack → ∀ F : Option Val → PDA,
      ∃ Q, X.map F = some Q ∧ Q = F P.startStack := by
    rintro X rfl F
    exact ⟨_, rfl, rfl⟩
  have hG : readStack J G = some P.startStack := hstack
  unfold PDA.fromNetworkx
  rw [hts]
  simp only
  obtain ⟨Q, hQ, hQ'⟩ := hstack' (readStack J G) hG
    (fun z =>
      { states := (P.delta.flatMap fun t => [t.1, t.2.2.2.1]) ++
          (G.nodes.filter fun n => n.2.isFinal.isSome).map (·.1) ++
          (G.nodes.filter fun n => n.2.isStart.getD false).map (·.1)
        start := ((G.nodes.filter fun n => n.2.isStart.getD false).map (·.1)).getLast?
        startStack := z
        finals := (G.nodes.filter fun n => n.2.isFinal.getD false).map (·.1)
        delta := P.delta })
  refine ⟨Q, hQ, ?_⟩
  subst hQ'
  refine ⟨?_, hstart, rfl, hfinals, fun t => Iff.rfl⟩
  intro q
  simp only [List.mem_append, hstarts, hnodes, List.mem_flatMap]
  constructor
  · rintro ((⟨t, ht, hq⟩ | hq) | hq)
    · simp only [List.mem_cons, List.not_mem_nil, or_false] at hq
      rcases hq with rfl | rfl
      · exact (h.delta t ht).1
      · exact (h.delta t ht).2
    · exact hq
    · exact h.start q hq.symm
  · intro hq
    exact Or.inl (Or.inr hq)

/-- what the state pass leaves on a node called INITIAL_STACK_HIDDEN: it is a state, it carries `is_final`
and no `initial_stack` -/
theorem PDA.statePass_hidden (P : PDA) (b : Attrs)
    (hb : (hiddenStack, b) ∈ (P.states.foldl
      (stateStep (fun q => decide (some q = P.start)) (fun q => decide (q ∈ P.finals))) ({} : Graph (List Char))).nodes) :
    hiddenStack ∈ P.states ∧ b.initialStack = none ∧ b.isFinal.isSome = true := by
  have hinv0 := inv_statePass (L := List Char) (sflag := fun q => decide (some q = P.start))
    (fflag := fun q => decide (q ∈ P.finals)) P.states
  have hnames0 := names_statePass (L := List Char) (sflag := fun q => decide (some q = P.start))
    (fflag := fun q => decide (q ∈ P.finals)) P.states
  have hno0 := noStack_statePass (L := List Char) (sflag := fun q => decide (some q = P.start))
    (fflag := fun q => decide (q ∈ P.finals)) P.states
  have hm : hiddenStack ∈ P.states := by
    rcases hnames0 _ ((hasNode_iff _ _).2 ⟨b, hb⟩) with hm | ⟨v, hv⟩
    · exact hm
    · exact absurd hv.symm (marker_ne_hidden v)
  refine ⟨hm, hno0 _ _ hb, ?_⟩
  rw [(hinv0.attrsIn _ _ hb hm).2]
  rfl

/-- the start stack symbol is read back from the exported nodes, whatever the states are called -/
theorem PDA.readStack_nodeGraph (J : Json) (hJ : JsonOK J) (P : PDA) :
    readStack J (P.nodeGraph J) = some P.startStack := by
  cases hz : P.startStack with
  | none =>
    have hg1 : P.nodeGraph J = P.states.foldl
        (stateStep (fun q => decide (some q = P.start)) (fun q => decide (q ∈ P.finals))) {} := by
      simp only [PDA.nodeGraph, hz]
    rw [hg1]
    apply readStack_state
    intro b hb
    exact (PDA.statePass_hidden P b hb).2
  | some z =>
    have hg1 : P.nodeGraph J = (P.states.foldl
        (stateStep (fun q => decide (some q = P.start)) (fun q => decide (q ∈ P.finals))) {}).addNode hiddenStack
          { label := some (.str (String.ofList (J.dumps z))), initialStack := some (J.dumps z) } := by
      simp only [PDA.nodeGraph, hz]
    rw [hg1, readStack_attr J (txt := J.dumps z), hJ.loads_dumps]
    · rfl
    · intro b hb
      exact (set_addNode hb).2 _ rfl
    · rw [hasNode_addNode]; exact Or.inr rfl

theorem PDA.roundtrip (J : Json) (hJ : JsonOK J) (P : PDA) (h : P.WF J) :
    ∃ Q, PDA.fromNetworkx J (P.toNetworkx J) = some Q ∧
      (∀ q, q ∈ Q.states ↔ q ∈ P.states) ∧ Q.start = P.start ∧ Q.startStack = P.startStack ∧
      (∀ q, q ∈ Q.finals ↔ q ∈ P.finals) ∧ (∀ t, t ∈ Q.delta ↔ t ∈ P.delta) := by
  rw [PDA.toNetworkx_eq J P h]
  exact PDA.import_of_nodes J hJ P h _ (PDA.nodeGraph_inv J P) (PDA.readStack_nodeGraph J hJ P)

/-- a graph written by the library before the attribute `initial_stack` existed (`Graph.eraseStack`: the same
graph without that attribute) is still imported: the start stack symbol is read from the label of the
decoration node.  As before the repair this needs that no state is called INITIAL_STACK_HIDDEN when there
is a start stack symbol (the node would carry `is_final` and be taken for a state); without a start stack
symbol the name is free (KF-C20-1 repaired for old graphs too). -/
theorem PDA.import_old_format (J : Json) (hJ : JsonOK J) (P : PDA) (h : P.WF J)
    (hh : P.startStack ≠ none → hiddenStack ∉ P.states) :
    ∃ Q, PDA.fromNetworkx J (P.toNetworkx J).eraseStack = some Q ∧
      (∀ q, q ∈ Q.states ↔ q ∈ P.states) ∧ Q.start = P.start ∧ Q.startStack = P.startStack ∧
      (∀ q, q ∈ Q.finals ↔ q ∈ P.finals) ∧ (∀ t, t ∈ Q.delta ↔ t ∈ P.delta) := by
  have hinv := PDA.nodeGraph_inv J P
  have he : (P.toNetworkx J).eraseStack =
      { nodes := (P.nodeGraph J).eraseStack.nodes
        edges := (P.nodeGraph J).eraseStack.edges ++ P.delta.map fun t =>
          (t.1, t.2.2.2.1, some (pdaLabel (J.dumps t.2.1) (J.dumps t.2.2.1) (J.dumpsL t.2.2.2.2))) } := by
    rw [PDA.toNetworkx_eq J P h]
    rfl
  rw [he]
  refine PDA.import_of_nodes J hJ P h _ hinv.eraseStack ?_
  cases hz : P.startStack with
  | none =>
    have hg1 : P.nodeGraph J = P.states.foldl
        (stateStep (fun q => decide (some q = P.start)) (fun q => decide (q ∈ P.finals))) {} := by
      simp only [PDA.nodeGraph, hz]
    rw [hg1]
    apply readStack_state
    intro b hb
    obtain ⟨a, ha, rfl⟩ := mem_eraseStack.1 hb
    exact ⟨rfl, (PDA.statePass_hidden P a ha).2.2⟩
  | some z =>
    have hnot : hiddenStack ∉ P.states := hh (by rw [hz]; exact Option.some_ne_none z)
    have hg1 : P.nodeGraph J = (P.states.foldl
        (stateStep (fun q => decide (some q = P.start)) (fun q => decide (q ∈ P.finals))) {}).addNode hiddenStack
          { label := some (.str (String.ofList (J.dumps z))), initialStack := some (J.dumps z) } := by
      simp only [PDA.nodeGraph, hz]
    rw [readStack_label J (txt := String.ofList (J.dumps z)), String.toList_ofList, hJ.loads_dumps]
    · rfl
    · intro b hb
      obtain ⟨a, ha, rfl⟩ := mem_eraseStack.1 hb
      refine ⟨rfl, (hinv.attrsOut _ _ ha hnot).2, ?_⟩
      rw [hg1] at ha
      exact (set_addNode ha).1 _ rfl
    · rw [hasNode_eraseStack, hg1, hasNode_addNode]; exact Or.inr rfl

/-- in the old format the hypothesis on the name is needed: with a start stack symbol and a state called
INITIAL_STACK_HIDDEN the node carries `is_final`, and the import answers that there is no start stack
symbol -/
theorem PDA.import_old_format_needs_name (J : Json) :
    (PDA.fromNetworkx J (PDA.toNetworkx J
      { states := [hiddenStack], start := none, startStack := some (.int 0), finals := [], delta := [] }).eraseStack).map
      (·.startStack) = some none := by
  simp [PDA.fromNetworkx, PDA.toNetworkx, Graph.eraseStack, Graph.addNode, Graph.hasNode, allSome,
    Graph.attrs, Attrs.update]

/-- a toy `json` for witnesses: an int prints as its digits, a string between double quotes -/
def toyJson : Json :=
  { dumps := fun v => match v with | .int n => (toString n).toList | .str s => '"' :: s.toList ++ ['"']
    loads := fun t => match t with
      | '"' :: rest => if rest.getLast? = some '"' then some (.str (String.ofList rest.dropLast)) else none
      | _ => (String.ofList t).toInt?.map .int
    dumpsL := fun _ => "[]".toList
    loadsL := fun t => if t = "[]".toList then some [] else none }

/-- KF-C20-1 repaired: a PDA without start stack symbol one of whose states is called
"INITIAL_STACK_HIDDEN" is exported and imported back (before the repair the import raised: the state's own
label was read as JSON) -/
theorem PDA.roundtrip_hidden_name :
    ∃ Q, PDA.fromNetworkx toyJson (PDA.toNetworkx toyJson
      { states := [hiddenStack], start := some hiddenStack, startStack := none, finals := [], delta := [] }) = some Q ∧
      Q.startStack = none ∧ Q.start = some hiddenStack ∧ (∀ q, q ∈ Q.states ↔ q = hiddenStack) ∧
      Q.finals = [] ∧ Q.delta = [] := by
  have hm : marker hiddenStack ≠ hiddenStack := marker_ne_hidden _
  simp [PDA.fromNetworkx, PDA.toNetworkx, Graph.addNode, Graph.hasNode, addMarker, Graph.addEdge, allSome,
    Graph.attrs, Attrs.update, hm, hm.symm]

/-! ### transducers -/

def FstLabelOK (i o : List Char) : Prop :=
  ¬ sepArrow <:+: i ++ sepArrow.dropLast ∧ ¬ sepArrow <:+: o

/-- every state of a transducer built through the API is a start state, a final state or an endpoint of a
transition (there is no other way to add a state) -/
structure FST.WF (J : Json) (T : FST) : Prop where
  states : ∀ q ∈ T.states, q ∈ T.starts ∨ q ∈ T.finals ∨ ∃ t ∈ T.delta, q = t.1 ∨ q = t.2.2.1
  starts : ∀ q ∈ T.starts, q ∈ T.states
  finals : ∀ q ∈ T.finals, q ∈ T.states
  delta : ∀ t ∈ T.delta, t.1 ∈ T.states ∧ t.2.2.1 ∈ T.states
  labels : ∀ t ∈ T.delta, FstLabelOK (J.dumps t.2.1) (J.dumpsL t.2.2.2)

theorem FST.roundtrip (J : Json) (hJ : JsonOK J) (T : FST) (h : T.WF J) :
    ∃ U, FST.fromNetworkx J (T.toNetworkx J) = some U ∧
      (∀ q, q ∈ U.states ↔ q ∈ T.states) ∧ (∀ q, q ∈ U.starts ↔ q ∈ T.starts) ∧
      (∀ q, q ∈ U.finals ↔ q ∈ T.finals) ∧ (∀ t, t ∈ U.delta ↔ t ∈ T.delta) := by
  let sflag : Val → Bool := fun q => decide (q ∈ T.starts)
  let fflag : Val → Bool := fun q => decide (q ∈ T.finals)
  let lab : Val × Val × Val × List Val → List Char := fun t => fstLabel (J.dumps t.2.1) (J.dumpsL t.2.2.2)
  have hinv : Inv sflag fflag T.states (T.states.foldl (stateStep sflag fflag) ({} : Graph (List Char))) :=
    inv_statePass T.states
  have hg : T.toNetworkx J =
      { nodes := (T.states.foldl (stateStep sflag fflag) ({} : Graph (List Char))).nodes
        edges := (T.states.foldl (stateStep sflag fflag) ({} : Graph (List Char))).edges ++
          T.delta.map fun t => (t.1, t.2.2.1, some (lab t)) } := by
    rw [← foldl_addEdge (fun t : Val × Val × Val × List Val => t.1) (fun t => t.2.2.1) (fun t => some (lab t))]
    · unfold FST.toNetworkx
      simp only [sflag, fflag, lab]
      congr 2
      funext g q
      simp [stateStep]
    · intro t ht
      exact ⟨hinv.nodes _ (h.delta t ht).1, hinv.nodes _ (h.delta t ht).2⟩
  have hts : allSome ((T.toNetworkx J).edges.filterMap fun e => e.2.2.map fun l => FST.readEdge J e.1 e.2.1 l)
      = some T.delta := by
    rw [hg]
    simp only
    rw [filterMap_labelled (fun e l => FST.readEdge J e.1 e.2.1 l) _ hinv.edges]
    rw [← allSome_map_some T.delta]
    congr 1
    apply List.map_congr_left
    rintro ⟨u, i, v, o⟩ ht
    have hl := h.labels _ ht
    simp only [FST.readEdge, lab, readFstLabel_fstLabel _ _ hl.1 hl.2, hJ.loads_dumps, hJ.loadsL_dumpsL]
  have hstarts : ∀ q, q ∈ ((T.toNetworkx J).nodes.filter fun n => n.2.isStart.getD false).map (·.1) ↔
      q ∈ T.starts := by
    intro q
    rw [hg]
    simp only
    rw [hinv.mem_starts]
    simpa [sflag] using h.starts q
  have hfinals : ∀ q, q ∈ ((T.toNetworkx J).nodes.filter fun n => n.2.isFinal.getD false).map (·.1) ↔
      q ∈ T.finals := by
    intro q
    rw [hg]
    simp only
    rw [hinv.mem_finals]
    simpa [fflag] using h.finals q
  unfold FST.fromNetworkx
  rw [hts]
  refine ⟨_, rfl, ?_, hstarts, hfinals, fun t => Iff.rfl⟩
  intro q
  simp only [List.mem_append, hstarts, hfinals, List.mem_flatMap]
  constructor
  · rintro ((⟨t, ht, hq⟩ | hq) | hq)
    · simp only [List.mem_cons, List.not_mem_nil, or_false] at hq
      rcases hq with rfl | rfl
      · exact (h.delta t ht).1
      · exact (h.delta t ht).2
    · exact h.starts q hq
    · exact h.finals q hq
  · intro hq
    rcases h.states q hq with hq | hq | ⟨t, ht, hq⟩
    · exact Or.inl (Or.inr hq)
    · exact Or.inr hq
    · exact Or.inl (Or.inl ⟨t, ht, by simpa using hq⟩)

/-! ### non-vacuity -/

/-- an automaton whose state names coincide with decoration nodes -/
def demoFA : FA :=
  { states := [.str "q", .str "starting_q", .int 0], starts := [.str "q", .int 0], finals := [.str "starting_q"]
    delta := [(.str "q", some (.str "a"), .str "starting_q"), (.str "starting_q", none, .int 0),
              (.int 0, some (.int 0), .str "q")] }

example : demoFA.WF := by constructor <;> decide

/-- a PDA with a start stack symbol and a state called like the hidden node: all hypotheses of
`PDA.roundtrip` hold (no condition on names is left) -/
example : PDA.WF toyJson
    { states := [hiddenStack], start := some hiddenStack, startStack := some (.int 0), finals := [], delta := [] } := by
  constructor <;> simp

end Nx
end Pfl
