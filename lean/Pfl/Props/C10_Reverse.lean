/-
C10 — reversal of a grammar generates the mirror image.
-/
import Pfl.Proofs.CFGBase
namespace Pfl
namespace CFG

mutual
theorem gen_reverse_of {G H : CFG}
    (hp : ∀ h body, (h, body) ∈ G.prods → (h, body.reverse) ∈ H.prods) :
    ∀ {s : Sym} {w : List String}, G.Gen s w → H.Gen s w.reverse
  | _, _, .ter t => by simpa using Gen.ter t
  | _, _, .var hm hl => Gen.var (hp _ _ hm) (genList_reverse_of hp hl)
theorem genList_reverse_of {G H : CFG}
    (hp : ∀ h body, (h, body) ∈ G.prods → (h, body.reverse) ∈ H.prods) :
    ∀ {u : List Sym} {w : List String}, G.GenList u w → H.GenList u.reverse w.reverse
  | _, _, .nil => by simpa using GenList.nil
  | _, _, .cons (s := s) (u := u) (w₁ := w₁) (w₂ := w₂) hs hu => by
    have h1 := gen_reverse_of hp hs
    have h2 := genList_reverse_of hp hu
    have h3 : H.GenList [s] w₁.reverse := by
      simpa using GenList.cons h1 GenList.nil
    simpa using genList_append h2 h3
end

theorem reverse_prods_fwd (G : CFG) :
    ∀ h body, (h, body) ∈ G.prods → (h, body.reverse) ∈ G.reverse.prods := by
  intro h body hm
  show (h, body.reverse) ∈ G.prods.map fun p => (p.1, p.2.reverse)
  exact List.mem_map.mpr ⟨(h, body), hm, rfl⟩

theorem reverse_prods_bwd (G : CFG) :
    ∀ h body, (h, body) ∈ G.reverse.prods → (h, body.reverse) ∈ G.prods := by
  intro h body hm
  have hm' : (h, body) ∈ G.prods.map fun p => (p.1, p.2.reverse) := hm
  obtain ⟨⟨h', b'⟩, hp, heq⟩ := List.mem_map.mp hm'
  simp only [Prod.mk.injEq] at heq
  obtain ⟨rfl, rfl⟩ := heq
  simpa using hp

theorem gen_reverse_iff (G : CFG) (s : Sym) (w : List String) :
    G.reverse.Gen s w ↔ G.Gen s w.reverse := by
  constructor
  · intro h
    exact gen_reverse_of (reverse_prods_bwd G) h
  · intro h
    simpa using gen_reverse_of (reverse_prods_fwd G) h

theorem reverse_lang (G : CFG) (w : List String) : G.reverse.Lang w ↔ G.Lang w.reverse := by
  rw [lang_iff_gen, lang_iff_gen]
  have hs : G.reverse.start = G.start := rfl
  rw [hs]
  constructor
  · rintro ⟨s, h1, h2⟩
    exact ⟨s, h1, (gen_reverse_iff G _ _).mp h2⟩
  · rintro ⟨s, h1, h2⟩
    exact ⟨s, h1, (gen_reverse_iff G _ _).mpr h2⟩

end CFG
end Pfl
