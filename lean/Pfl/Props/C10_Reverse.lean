/-
C10 — reversal of a grammar generates the mirror image.
-/
import Pfl.Proofs.CFGBase
namespace Pfl
namespace CFG

theorem reverse_lang (G : CFG) (w : List String) : G.reverse.Lang w ↔ G.Lang w.reverse := by
  sorry

end CFG
end Pfl
