/-
C04 — acyclicity test and word enumeration.
-/
import Pfl.Proofs.FAOracle
import Pfl.Props.C04_Oracle
import Pfl.Proofs.FAWords
namespace Pfl
namespace ENFA
variable {σ : Type} [DecidableEq σ]

/-- a state reachable from a start state lies on a non-trivial cycle of (symbol or ε) edges -/
def HasReachableCycle (A : ENFA σ) : Prop :=
  ∃ s ∈ A.starts, ∃ q, Reach A.outs s q ∧ ∃ r ∈ A.outs q, Reach A.outs r q

/-- the oracle `reachableCycle` decides `HasReachableCycle` -/
theorem reachableCycle_iff (A : ENFA σ) : A.reachableCycle = true ↔ A.HasReachableCycle :=
  reachableCycle_iff' A

/-- `is_acyclic` (explicit stack of paths): whenever it answers, the answer is
"no cycle is reachable from a start state" -/
theorem isAcyclic_iff (A : ENFA σ) (fuel : Nat) (b : Bool) (h : A.isAcyclic fuel = some b) :
    b = true ↔ ¬ A.HasReachableCycle :=
  isAcyclic_iff' A fuel b h

/-- the bounded-language oracle lists exactly the accepted words of length `≤ n` -/
theorem mem_langUpTo_iff (A : ENFA σ) (hA : A.WF) (n : Nat) (w : List Nat) :
    w ∈ A.langUpTo n ↔ w.length ≤ n ∧ A.Lang w :=
  mem_langUpTo_iff' A hA n w

theorem langUpTo_nodup (A : ENFA σ) (n : Nat) : (A.langUpTo n).Nodup :=
  langUpTo_nodup' A n

/-- `_get_states_leading_to_final` (after the repair): exactly the states from which a final
state can be reached -/
theorem mem_leadingToFinal_iff (A : ENFA σ) (q : σ) :
    q ∈ A.leadingToFinal ↔ ∃ w, ∃ f ∈ A.finals, A.Run q w f :=
  mem_leadingToFinal_iff' A q

/-- `get_accepted_words(max_length)`: whenever the queue loop finishes, it has yielded every
accepted word of length `≤ n` exactly once and nothing else -/
theorem acceptedWords_exact (A : ENFA σ) (n : Nat) (fuel : Nat) (ws : List (List Nat))
    (h : A.acceptedWords (some n) fuel = some ws) :
    ws.Nodup ∧ ∀ w, w ∈ ws ↔ w.length ≤ n ∧ A.Lang w :=
  wordsLoop_exact A (some n) fuel ws h

/-- unbounded enumeration: if it finishes, it has yielded exactly the language -/
theorem acceptedWords_exact_unbounded (A : ENFA σ) (fuel : Nat) (ws : List (List Nat))
    (h : A.acceptedWords none fuel = some ws) :
    ws.Nodup ∧ ∀ w, w ∈ ws ↔ A.Lang w := by
  have := wordsLoop_exact A none fuel ws h
  simpa [lenOK] using this

end ENFA
end Pfl
