/-
C17 — the intersection of an indexed grammar with a regular language (triple construction over
the states of the identity transducer, model `Pfl/Model/IndexedInter.lean`) is non-empty exactly
when some word derivable from "S" with the empty stack is accepted (read) by the transducer.
-/
import Pfl.Model.IndexedInter
import Pfl.Spec.Indexed
import Pfl.Spec.FST
import Pfl.Proofs.FSTLemmas
import Pfl.Props.C17_Indexed
import Pfl.Proofs.IndexedInterLemmas
namespace Pfl
namespace IG
variable {σ : Type} [DecidableEq σ]

/-- name hygiene assumed by the construction (satisfied whenever grammar symbols are plain
identifiers and transducer states are printed without quotes, commas or parentheses); since the
repair that names terminal triples apart, terminals may be spelled like non-terminals -/
structure InterOK (T : FST σ) (rs : σ → String) (G : IG) : Prop where
  start : G.start = "S"
  wf : T.WF
  tripleInj : ∀ p x q p' x' q', p ∈ T.states → q ∈ T.states → p' ∈ T.states → q' ∈ T.states →
    tripleStr rs p x q = tripleStr rs p' x' q' → p = p' ∧ x = x' ∧ q = q'
  terTripleInj : ∀ p x q p' x' q', p ∈ T.states → q ∈ T.states → p' ∈ T.states → q' ∈ T.states →
    terTripleStr rs p x q = terTripleStr rs p' x' q' → p = p' ∧ x = x' ∧ q = q'
  tripleNeTer : ∀ p x q p' x' q', tripleStr rs p x q ≠ terTripleStr rs p' x' q'
  tripleNotS : ∀ p x q, tripleStr rs p x q ≠ "S" ∧ terTripleStr rs p x q ≠ "S"
  tripleNotT : ∀ p x q, tripleStr rs p x q ≠ "T" ∧ terTripleStr rs p x q ≠ "T"
  /-- "epsilon" is not an input symbol of the transducer -/
  inNotEps : ∀ t ∈ T.delta, t.2.1 ≠ some "epsilon"

theorem inter_nonEmpty (T : FST σ) (rs : σ → String) (G : IG) (h : InterOK T rs G) :
    (inter T rs G).NonEmpty ↔ ∃ w, G.Gen "S" [] w ∧ ∃ o, T.Rel w o := by
  have hyp : Inter.Hyp T rs G :=
    { wf := h.wf, tripleInj := h.tripleInj, terTripleInj := h.terTripleInj,
      tripleNeTer := h.tripleNeTer, tripleNotS := h.tripleNotS, tripleNotT := h.tripleNotT,
      inNotEps := h.inNotEps }
  show (Inter.pre T rs G).removeUseless.NonEmpty ↔ _
  rw [removeUseless_nonEmpty]
  exact Inter.pre_nonEmpty hyp

/-- words and plain derivability agree -/
theorem derivable_iff_gen (G : IG) (a : String) (st : List String) :
    G.Derivable a st ↔ ∃ w, G.Gen a st w := by
  constructor
  · intro h
    induction h with
    | end_ hr => exact ⟨_, Gen.end_ hr⟩
    | prod hr _ ih => obtain ⟨w, hw⟩ := ih; exact ⟨w, Gen.prod hr hw⟩
    | cons hr _ ih => obtain ⟨w, hw⟩ := ih; exact ⟨w, Gen.cons hr hw⟩
    | dup hr _ _ ih1 ih2 =>
      obtain ⟨u, hu⟩ := ih1; obtain ⟨v, hv⟩ := ih2; exact ⟨u ++ v, Gen.dup hr hu hv⟩
  · rintro ⟨w, h⟩
    induction h with
    | end_ hr => exact Derivable.end_ hr
    | prod hr _ ih => exact Derivable.prod hr ih
    | cons hr _ ih => exact Derivable.cons hr ih
    | dup hr _ _ ih1 ih2 => exact Derivable.dup hr ih1 ih2

end IG
end Pfl
