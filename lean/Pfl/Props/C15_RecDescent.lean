/-
C15 — the recursive descent parser (step-faithful model `Pfl/Model/RecDescent.lean`): a returned
tree is a parse tree of the word, and the parser only refuses words outside the language.
(It may also fail to terminate — `none` — on left/right-recursive grammars, as documented.)
-/
import Pfl.Model.RecDescent
import Pfl.Props.C15_Trees
import Pfl.Proofs.RecDescentLemmas
namespace Pfl
namespace RecDescent
open CFG

/-- the pruning test never rejects a sentential form that derives the word -/
theorem rdMatch_of_derives (G : CFG) (e : List Sym) (w : List String)
    (h : G.Derives e (w.map Sym.ter)) : rdMatch w e = true :=
  Lem.rdMatch_of_genList G e w ((genList_iff_derives G e w).mpr h)

theorem parse_valid (G : CFG) (w : List String) (left : Bool) (fuel : Nat) (t : PTree)
    (h : parse G w left fuel = some (some t)) : G.treeValid t w = true :=
  Lem.parse_valid' G w left fuel t h

theorem parse_refuses_only_nonmembers (G : CFG) (w : List String) (left : Bool) (fuel : Nat)
    (h : parse G w left fuel = some none) : ¬ G.Lang w := by
  rintro ⟨s, hs, hd⟩
  unfold parse at h
  rw [hs] at h
  simp only at h
  split at h
  · cases h
  · next hr => exact Lem.rdSub_refuse G left fuel w _ hr ((genList_iff_derives G _ w).mpr hd)
  · split at h <;> cases h

/-- without a start symbol the answer is NotParsableException, whatever the word, the direction
and the fuel (such a grammar generates nothing, so this agrees with
`parse_refuses_only_nonmembers`) -/
theorem parse_no_start (G : CFG) (h : G.start = none) (w : List String) (left : Bool)
    (fuel : Nat) : parse G w left fuel = some none := by
  unfold parse
  rw [h]

end RecDescent
end Pfl
