/-
C15 / C14 — the tree and derivation checkers are sound and complete; the derivation listings
of a well-formed tree are real leftmost / rightmost derivations.
-/
import Pfl.Oracle.Trees
import Pfl.Proofs.CFGBase
namespace Pfl
namespace CFG

/-- a tree accepted by the checker witnesses derivability -/
theorem treeValid_sound (G : CFG) (t : PTree) (w : List String) (h : G.treeValid t w = true) :
    G.Lang w := by
  sorry

/-- every generated word has a tree accepted by the checker -/
theorem treeValid_complete (G : CFG) (w : List String) (h : G.Lang w) :
    ∃ t, G.treeValid t w = true := by
  sorry

theorem wellFormedT_gen (G : CFG) (t : PTree) (h : G.wellFormedT t = true) :
    G.Gen t.sym (yieldT t) := by
  sorry

/-- one accepted leftmost step is a derivation step -/
theorem leftStep_derives (G : CFG) (u v : List Sym) (h : G.leftStep u v = true) : G.Derives u v := by
  sorry

theorem rightStep_derives (G : CFG) (u v : List Sym) (h : G.rightStep u v = true) : G.Derives u v := by
  sorry

/-- an accepted listing is a derivation of the word from the root symbol -/
theorem derivationValid_sound (G : CFG) (left : Bool) (root : Sym) (lines : List (List Sym))
    (w : List String) (h : G.derivationValid left root lines w = true) :
    G.Derives [root] (w.map .ter) := by
  sorry

/-- `get_leftmost_derivation` of a well-formed tree is accepted by the checker -/
theorem leftmostD_valid (G : CFG) (t : PTree) (h : G.wellFormedT t = true) :
    G.derivationValid true t.sym (leftmostD t) (yieldT t) = true := by
  sorry

/-- `get_rightmost_derivation` of a well-formed tree is accepted by the checker -/
theorem rightmostD_valid (G : CFG) (t : PTree) (h : G.wellFormedT t = true) :
    G.derivationValid false t.sym (rightmostD t) (yieldT t) = true := by
  sorry

end CFG
end Pfl
