/-
C15 / C14 — the tree and derivation checkers are sound and complete; the derivation listings
of a well-formed tree are real leftmost / rightmost derivations.
-/
import Pfl.Oracle.Trees
import Pfl.Proofs.CFGBase
import Pfl.Proofs.Trees
namespace Pfl
namespace CFG
open Pfl.CFG.Trees

/-- a tree accepted by the checker witnesses derivability -/
theorem treeValid_sound (G : CFG) (t : PTree) (w : List String) (h : G.treeValid t w = true) :
    G.Lang w := by
  unfold treeValid at h
  rw [Bool.and_eq_true, Bool.and_eq_true, decide_eq_true_eq] at h
  obtain ⟨⟨hs, hw⟩, rfl⟩ := h
  rw [lang_iff_gen]
  cases hst : G.start with
  | none => rw [hst] at hs; cases hs
  | some s =>
    rw [hst] at hs
    simp only [decide_eq_true_eq] at hs
    refine ⟨s, rfl, ?_⟩
    rw [← hs]
    exact wfT_gen G t hw

/-- every generated word has a tree accepted by the checker -/
theorem treeValid_complete (G : CFG) (w : List String) (h : G.Lang w) :
    ∃ t, G.treeValid t w = true := by
  rw [lang_iff_gen] at h
  obtain ⟨s, hs, hg⟩ := h
  obtain ⟨t, e, hw, hy⟩ := gen_tree G hg
  refine ⟨t, ?_⟩
  unfold treeValid
  rw [Bool.and_eq_true, Bool.and_eq_true, decide_eq_true_eq]
  refine ⟨⟨?_, hw⟩, hy⟩
  rw [hs]
  simpa using e

theorem wellFormedT_gen (G : CFG) (t : PTree) (h : G.wellFormedT t = true) :
    G.Gen t.sym (yieldT t) := wfT_gen G t h

/-- one accepted leftmost step is a derivation step -/
theorem leftStep_derives (G : CFG) (u v : List Sym) (h : G.leftStep u v = true) : G.Derives u v :=
  leftStep_derives' G u v h

theorem rightStep_derives (G : CFG) (u v : List Sym) (h : G.rightStep u v = true) : G.Derives u v :=
  rightStep_derives' G u v h

/-- an accepted listing is a derivation of the word from the root symbol -/
theorem derivationValid_sound (G : CFG) (left : Bool) (root : Sym) (lines : List (List Sym))
    (w : List String) (h : G.derivationValid left root lines w = true) :
    G.Derives [root] (w.map .ter) := by
  unfold derivationValid at h
  rw [Bool.and_eq_true, Bool.and_eq_true, decide_eq_true_eq, decide_eq_true_eq] at h
  obtain ⟨⟨h1, h2⟩, h3⟩ := h
  refine chain_derives G _ ?_ lines _ _ h1 h2 h3
  intro u v huv
  cases left with
  | true => exact leftStep_derives G u v (by simpa using huv)
  | false => exact rightStep_derives G u v (by simpa using huv)

/-- `get_leftmost_derivation` of a well-formed tree is accepted by the checker -/
theorem leftmostD_valid (G : CFG) (t : PTree) (h : G.wellFormedT t = true) :
    G.derivationValid true t.sym (leftmostD t) (yieldT t) = true :=
  leftmostD_valid' G t h

/-- `get_rightmost_derivation` of a well-formed tree is accepted by the checker -/
theorem rightmostD_valid (G : CFG) (t : PTree) (h : G.wellFormedT t = true) :
    G.derivationValid false t.sym (rightmostD t) (yieldT t) = true :=
  rightmostD_valid' G t h

end CFG
end Pfl
