/-
C01 / C03 — the naming layer: when manufactured names are faithful, and a machine-checked
witness that in general they are not (known finding KF-C01-1).
-/
import Pfl.Model.Names
import Pfl.Props.C01_Det
import Pfl.Props.C03_Rev
import Pfl.Props.C03_Bool
import Pfl.Proofs.NamesLemmas
namespace Pfl
namespace Names
open ENFA
set_option linter.unusedSectionVars false
variable {σ τ : Type} [DecidableEq σ] [DecidableEq τ]

/-- names under which `to_single_state` is faithful: pairwise different, non-empty, no `;` -/
def Clean (states : List σ) (names : σ → List Char) : Prop :=
  (∀ p ∈ states, ∀ q ∈ states, names p = names q → p = q) ∧
  (∀ q ∈ states, names q ≠ []) ∧ (∀ q ∈ states, ';' ∉ names q)

/-- with clean names the merged name determines the subset -/
theorem mergeName_keyInj (A : ENFA σ) (names : σ → List Char) (h : Clean A.states names) :
    A.KeyInj (mergeName names) := by
  obtain ⟨hinj, hne, hsc⟩ := h
  intro S T hS hT heq
  have hmem := mem_of_join_sort_eq (S.map names) (T.map names)
    (fun x hx => by
      obtain ⟨q, hq, rfl⟩ := List.mem_map.mp hx
      exact ⟨hne q (hS q hq), hsc q (hS q hq)⟩)
    (fun x hx => by
      obtain ⟨q, hq, rfl⟩ := List.mem_map.mp hx
      exact ⟨hne q (hT q hq), hsc q (hT q hq)⟩) heq
  intro q
  constructor
  · intro hq
    obtain ⟨r, hr, hrq⟩ := List.mem_map.mp ((hmem (names q)).mp (List.mem_map.mpr ⟨q, hq, rfl⟩))
    rw [← hinj r (hT r hr) q (hS q hq) hrq]; exact hr
  · intro hq
    obtain ⟨r, hr, hrq⟩ := List.mem_map.mp ((hmem (names q)).mpr (List.mem_map.mpr ⟨q, hq, rfl⟩))
    rw [← hinj r (hS r hr) q (hT q hq) hrq]; exact hr

/-- hence `to_deterministic` with the library's naming keeps the language (clean names) -/
theorem toDet_named_lang_partial (A : ENFA σ) (hA : A.WF) (names : σ → List Char)
    (h : Clean A.states names) (fuel : Nat) (D : ENFA (List Char))
    (hD : A.toDet (mergeName names) true fuel = some D) (w : List Nat) :
    D.Lang w ↔ A.Lang w :=
  toDet_lang A hA (mergeName names) (mergeName_keyInj A names h) fuel D hD w

/-- the full claim ("any hashable state values, including names that look like merged
names") is false: a concrete NFA with pairwise different names whose determinisation
differs from the NFA on some word (design-round defect D01; here `y z` is lost, under the other symbol order `x z` is gained) -/
def d01 : ENFA Nat :=
  { states := [0, 1, 2, 3, 4], syms := [0, 1, 2], starts := [0], finals := [4],
    delta := [(0, some 0, 1), (0, some 0, 2), (0, some 1, 3), (3, some 2, 4)] }
def d01Names : Nat → List Char
  | 0 => "a".toList | 1 => "b".toList | 2 => "c".toList | 3 => "b;c".toList | _ => "f".toList

theorem toDet_named_lang_false :
    ¬ (∀ (A : ENFA Nat) (names : Nat → List Char),
        (∀ p ∈ A.states, ∀ q ∈ A.states, names p = names q → p = q) →
        ∀ D, A.toDet (mergeName names) false 100 = some D →
        ∀ w : List Nat, D.acceptsD (w.map some) = A.acceptsN (w.map some)) := by
  intro h
  have h1 := h d01 d01Names (by decide)
  rw [mergeName_eq_mergeName'] at h1
  have key : (match d01.toDet (mergeName' d01Names) false 100 with
      | some D => D.acceptsD ([1, 2].map some) != d01.acceptsN ([1, 2].map some)
      | none => false) = true := by decide +kernel
  cases hD : d01.toDet (mergeName' d01Names) false 100 with
  | none => rw [hD] at key; exact absurd key (by decide)
  | some D =>
    rw [hD] at key
    have h2 := h1 D hD [1, 2]
    dsimp only at key
    rw [h2] at key
    simp at key

/-- pair names are faithful when no name contains `;` -/
theorem pairName_inj (sa : List σ) (sb : List τ) (na : σ → List Char) (nb : τ → List Char)
    (ha : Clean sa na) (hb : Clean sb nb) :
    ∀ p ∈ ENFA.prod sa sb, ∀ q ∈ ENFA.prod sa sb, pairName na nb p = pairName na nb q → p = q := by
  rintro ⟨p1, p2⟩ hp ⟨q1, q2⟩ hq heq
  rw [mem_prod] at hp hq
  simp only [pairName, List.append_assoc, List.cons_append, List.nil_append] at heq
  obtain ⟨h1, h2⟩ := split_at_first ';' _ _ _ _ (ha.2.2 p1 hp.1) (ha.2.2 q1 hq.1) heq
  simp only [List.cons.injEq, true_and] at h2
  rw [ha.1 p1 hp.1 q1 hq.1 h1, hb.1 p2 hp.2 q2 hq.2 h2]

/-- and not in general: `("a; b", "c")` and `("a", "b; c")` get the same name -/
theorem pairName_not_inj :
    ¬ (∀ (na nb : Nat → List Char), (∀ p q, na p = na q → p = q) → (∀ p q, nb p = nb q → p = q) →
        ∀ p q : Nat × Nat, pairName na nb p = pairName na nb q → p = q) := by
  intro h
  let na : Nat → List Char := fun n =>
    match n with
    | 0 => ['a', ';', ' ', 'b']
    | 1 => ['a']
    | n + 2 => List.replicate (n + 5) 'x'
  let nb : Nat → List Char := fun n =>
    match n with
    | 0 => ['c']
    | 1 => ['b', ';', ' ', 'c']
    | n + 2 => List.replicate (n + 5) 'x'
  have hinj : ∀ f : Nat → List Char, (∀ n, (f (n + 2)) = List.replicate (n + 5) 'x') →
      f 0 ≠ f 1 → (f 0).length < 5 → (f 1).length < 5 → ∀ p q, f p = f q → p = q := by
    intro f hf h01 h0 h1 p q hpq
    have hlen := congrArg List.length hpq
    match p, q with
    | 0, 0 => rfl
    | 1, 1 => rfl
    | 0, 1 => exact absurd hpq h01
    | 1, 0 => exact absurd hpq.symm h01
    | 0, q + 2 => rw [hf, List.length_replicate] at hlen; omega
    | 1, q + 2 => rw [hf, List.length_replicate] at hlen; omega
    | p + 2, 0 => rw [hf, List.length_replicate] at hlen; omega
    | p + 2, 1 => rw [hf, List.length_replicate] at hlen; omega
    | p + 2, q + 2 => rw [hf, hf, List.length_replicate, List.length_replicate] at hlen; omega
  have := h na nb (hinj na (fun _ => rfl) (by decide) (by decide) (by decide))
    (hinj nb (fun _ => rfl) (by decide) (by decide) (by decide)) (0, 0) (1, 1) (by decide)
  exact absurd this (by decide)

end Names
end Pfl
