/-
C01 / C03 — the naming layer: when manufactured names are faithful, and a machine-checked
witness that in general they are not (known finding KF-C01-1).
-/
import Pfl.Model.Names
import Pfl.Props.C01_Det
import Pfl.Props.C03_Rev
import Pfl.Props.C03_Bool
namespace Pfl
namespace Names
open ENFA
variable {σ τ : Type} [DecidableEq σ] [DecidableEq τ]

/-- names under which `to_single_state` is faithful: pairwise different, non-empty, no `;` -/
def Clean (states : List σ) (names : σ → List Char) : Prop :=
  (∀ p ∈ states, ∀ q ∈ states, names p = names q → p = q) ∧
  (∀ q ∈ states, names q ≠ []) ∧ (∀ q ∈ states, ';' ∉ names q)

/-- with clean names the merged name determines the subset -/
theorem mergeName_keyInj (A : ENFA σ) (names : σ → List Char) (h : Clean A.states names) :
    A.KeyInj (mergeName names) := by
  sorry

/-- hence `to_deterministic` with the library's naming keeps the language (clean names) -/
theorem toDet_named_lang_partial (A : ENFA σ) (hA : A.WF) (names : σ → List Char)
    (h : Clean A.states names) (fuel : Nat) (D : ENFA (List Char))
    (hD : A.toDet (mergeName names) true fuel = some D) (w : List Nat) :
    D.Lang w ↔ A.Lang w := by
  sorry

/-- the full claim ("any hashable state values, including names that look like merged
names") is false: a concrete NFA with pairwise different names whose determinisation
accepts a word the NFA rejects (design-round defect D01) -/
def d01 : ENFA Nat :=
  { states := [0, 1, 2, 3, 4], syms := [0, 1, 2], starts := [0], finals := [4],
    delta := [(0, some 0, 1), (0, some 0, 2), (0, some 1, 3), (3, some 2, 4)] }
def d01Names : Nat → List Char
  | 0 => "a".toList | 1 => "b".toList | 2 => "c".toList | 3 => "b;c".toList | _ => "f".toList

theorem toDet_named_lang_false :
    ¬ (∀ (A : ENFA Nat) (names : Nat → List Char),
        (∀ p ∈ A.states, ∀ q ∈ A.states, names p = names q → p = q) →
        ∀ D, A.toDet (mergeName names) false 100 = some D →
        ∀ w : List Nat, D.acceptsD (w.map some) = A.acceptsN (w.map some)) := by
  sorry

/-- pair names are faithful when no name contains `;` -/
theorem pairName_inj (sa : List σ) (sb : List τ) (na : σ → List Char) (nb : τ → List Char)
    (ha : Clean sa na) (hb : Clean sb nb) :
    ∀ p ∈ ENFA.prod sa sb, ∀ q ∈ ENFA.prod sa sb, pairName na nb p = pairName na nb q → p = q := by
  sorry

/-- and not in general: `("a; b", "c")` and `("a", "b; c")` get the same name -/
theorem pairName_not_inj :
    ¬ (∀ (na nb : Nat → List Char), (∀ p q, na p = na q → p = q) → (∀ p q, nb p = nb q → p = q) →
        ∀ p q : Nat × Nat, pairName na nb p = pairName na nb q → p = q) := by
  sorry

end Names
end Pfl
