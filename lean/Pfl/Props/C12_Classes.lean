/-
C12 — generating / nullable / reachable symbols, emptiness and ε-membership are exact.
-/
import Pfl.Proofs.CFGBase
import Pfl.Proofs.CFGClasses
namespace Pfl
namespace CFG

theorem mem_generating_iff (G : CFG) (hG : G.WF) (s : Sym) :
    s ∈ G.generating ↔
      (∃ t, s = .ter t ∧ t ∈ G.ters) ∨ (∃ v w, s = .var v ∧ G.Gen (.var v) w) := by
  constructor
  · -- soundness
    have key : ∀ x ∈ G.generating,
        (∃ t, x = Sym.ter t ∧ t ∈ G.ters) ∨ (∃ v w, x = Sym.var v ∧ G.Gen (.var v) w) := by
      unfold generating
      refine iter_inv G.closeStep
        (fun S => ∀ x ∈ S, (∃ t, x = Sym.ter t ∧ t ∈ G.ters) ∨
          (∃ v w, x = Sym.var v ∧ G.Gen (.var v) w)) ?_ _ _ ?_
      · intro S hS
        apply closeStep_forall G _ _ S hS
        intro p hp hbody
        obtain ⟨w, hw⟩ := genList_of_forall G p.2 (by
          intro x hx
          rcases hbody x hx with ⟨t, rfl, _⟩ | ⟨v, w, rfl, hg⟩
          · exact ⟨[t], Gen.ter t⟩
          · exact ⟨w, hg⟩)
        exact Or.inr ⟨p.1, w, rfl, Gen.var (body := p.2) hp hw⟩
      · intro x hx
        obtain ⟨t, ht, rfl⟩ := List.mem_map.mp hx
        exact Or.inl ⟨t, rfl, ht⟩
    exact key s
  · -- completeness
    have hbase : ∀ t ∈ G.ters, Sym.ter t ∈ G.generating := by
      intro t ht
      exact (iter_prefix G _ _).subset (List.mem_map.mpr ⟨t, ht, rfl⟩)
    rintro (⟨t, rfl, ht⟩ | ⟨v, w, rfl, hg⟩)
    · exact hbase t ht
    · exact closed_complete_gen G hG _ (iter_closed G _) hbase hg (by intro t e; cases e)

theorem mem_nullable_iff (G : CFG) (s : Sym) :
    s ∈ G.nullable ↔ ∃ v, s = .var v ∧ G.Gen (.var v) [] := by
  constructor
  · have key : ∀ x ∈ G.nullable, ∃ v, x = Sym.var v ∧ G.Gen (.var v) [] := by
      unfold nullable
      refine iter_inv G.closeStep
        (fun S => ∀ x ∈ S, ∃ v, x = Sym.var v ∧ G.Gen (.var v) []) ?_ _ _ ?_
      · intro S hS
        apply closeStep_forall G _ _ S hS
        intro p hp hbody
        have hw := genList_nil_of_forall G p.2 (by
          intro x hx
          obtain ⟨v, rfl, hg⟩ := hbody x hx
          exact hg)
        exact ⟨p.1, rfl, Gen.var (body := p.2) hp hw⟩
      · intro x hx; cases hx
    exact key s
  · rintro ⟨v, rfl, hg⟩
    exact closed_complete_null G _ (iter_closed G _) hg rfl

/-- the reachable symbols are those occurring in a sentential form derivable from the start -/
theorem mem_reachable_iff (G : CFG) (s : Sym) :
    s ∈ G.reachable ↔
      ∃ st, G.start = some st ∧ ∃ u v, G.Derives [.var st] (u ++ [s] ++ v) := by
  cases hst : G.start with
  | none => simp [reachable, hst]
  | some st =>
    rw [reachable_eq G st hst]
    obtain ⟨res, hres⟩ := Option.isSome_iff_exists.mp (reachable_bfs_isSome G st)
    rw [hres, Option.getD_some, mem_bfs_iff _ _ _ _ hres]
    constructor
    · rintro ⟨x, hx, hr⟩
      simp at hx; subst hx
      exact ⟨st, rfl, reach_to_derives G st s hr⟩
    · rintro ⟨st', hst', u, v, hd⟩
      cases hst'
      refine ⟨Sym.var st, by simp, ?_⟩
      refine derives_closed G (fun x => Reach G.rnext (Sym.var st) x)
        (fun x y hx hy => Reach.tail hx hy) hd ?_ s (by simp)
      intro x hx; simp at hx; subst hx; exact Reach.refl _

theorem isEmpty_iff (G : CFG) (hG : G.WF) : G.isEmpty = true ↔ ∀ w, ¬ G.Lang w := by
  unfold isEmpty
  cases hst : G.start with
  | none =>
    simp only [true_iff]
    intro w hw
    obtain ⟨s, hs, _⟩ := (lang_iff_gen G w).mp hw
    rw [hst] at hs; cases hs
  | some st =>
    simp only [decide_eq_true_eq]
    rw [mem_generating_iff G hG]
    constructor
    · intro h w hw
      obtain ⟨s, hs, hg⟩ := (lang_iff_gen G w).mp hw
      rw [hst] at hs; cases hs
      exact h (Or.inr ⟨_, w, rfl, hg⟩)
    · rintro h (⟨t, e, _⟩ | ⟨v, w, e, hg⟩)
      · cases e
      · cases e
        exact h w ((lang_iff_gen G w).mpr ⟨_, hst, hg⟩)

theorem generateEpsilon_iff (G : CFG) : G.generateEpsilon = true ↔ G.Lang [] := by
  unfold generateEpsilon
  rw [lang_iff_gen]
  cases hst : G.start with
  | none => simp
  | some st =>
    simp only [decide_eq_true_eq]
    rw [mem_nullable_iff]
    constructor
    · rintro ⟨v, e, hg⟩; cases e; exact ⟨_, rfl, hg⟩
    · rintro ⟨s, hs, hg⟩; cases hs; exact ⟨_, rfl, hg⟩

theorem generating_nodup (G : CFG) (h : G.ters.Nodup) : G.generating.Nodup := by
  unfold generating
  refine iter_inv G.closeStep List.Nodup (closeStep_nodup G) _ _ ?_
  exact List.Pairwise.map Sym.ter (fun a b hab e => hab (by cases e; rfl)) h

theorem nullable_nodup (G : CFG) : G.nullable.Nodup := by
  unfold nullable
  exact iter_inv G.closeStep List.Nodup (closeStep_nodup G) _ _ List.nodup_nil

end CFG
end Pfl
