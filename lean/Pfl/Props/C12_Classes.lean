/-
C12 — generating / nullable / reachable symbols, emptiness and ε-membership are exact.
-/
import Pfl.Proofs.CFGBase
namespace Pfl
namespace CFG

theorem mem_generating_iff (G : CFG) (hG : G.WF) (s : Sym) :
    s ∈ G.generating ↔
      (∃ t, s = .ter t ∧ t ∈ G.ters) ∨ (∃ v w, s = .var v ∧ G.Gen (.var v) w) := by
  sorry

theorem mem_nullable_iff (G : CFG) (s : Sym) :
    s ∈ G.nullable ↔ ∃ v, s = .var v ∧ G.Gen (.var v) [] := by
  sorry

/-- the reachable symbols are those occurring in a sentential form derivable from the start -/
theorem mem_reachable_iff (G : CFG) (s : Sym) :
    s ∈ G.reachable ↔
      ∃ st, G.start = some st ∧ ∃ u v, G.Derives [.var st] (u ++ [s] ++ v) := by
  sorry

theorem isEmpty_iff (G : CFG) (hG : G.WF) : G.isEmpty = true ↔ ∀ w, ¬ G.Lang w := by
  sorry

theorem generateEpsilon_iff (G : CFG) : G.generateEpsilon = true ↔ G.Lang [] := by
  sorry

theorem generating_nodup (G : CFG) (h : G.ters.Nodup) : G.generating.Nodup := by
  sorry

theorem nullable_nodup (G : CFG) : G.nullable.Nodup := by
  sorry

end CFG
end Pfl
