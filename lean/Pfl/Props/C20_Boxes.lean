/-
C20 — a box of a recursive automaton (`RecursiveAutomaton.from_regex` / `from_ebnf`):
`Regex(body).to_epsilon_nfa().minimize()`, i.e. Thompson construction, subset construction,
Hopcroft's loop and the quotient.  Its language is the denotation of the body.  Composition of
`thompson_lang` (C05), `toDet_lang` / `toDet_shape` (C01) and `minimize_hopcroft_lang` (C02).
-/
import Pfl.Props.C05_Regex
import Pfl.Props.C01_Det
import Pfl.Props.C02_Hopcroft
import Pfl.Proofs.CFGClean
namespace Pfl
namespace Rx
variable {κ μ : Type} [DecidableEq κ] [DecidableEq μ]

theorem box_lang (r : Rx) (code : String → Nat) (c : Nat)
    (key : List Nat → κ) (hk : (r.thompson code c).1.KeyInj key)
    (fuel1 : Nat) (D : ENFA κ) (hD : (r.thompson code c).1.toDet key true fuel1 = some D)
    (fuel2 : Nat) (gs : List (List (Option κ))) (hgs : D.hopcroft fuel2 = some gs)
    (name : List (Option κ) → μ) (hname : ∀ g ∈ gs, ∀ g' ∈ gs, name g = name g' → g = g') (emptyName : μ)
    (ks : List Nat) :
    (D.minimizeOf gs name emptyName).Lang ks ↔ ∃ w, Denote r w ∧ w.map code = ks := by
  obtain ⟨dD, eD⟩ := ENFA.toDet_shape _ key true fuel1 D hD
  have hshape : D.WF ∧ D.states.Nodup := by
    unfold ENFA.toDet at hD
    cases hs : (r.thompson code c).1.detSeen key true fuel1 with
    | none => simp [hs] at hD
    | some seen =>
      simp only [hs, Option.map_some, Option.some.injEq] at hD
      rw [← hD]
      exact ⟨ENFA.ofParts_wf _ _ _, by
        simpa [ENFA.ofParts] using @CFG.Clean.nodup_eraseDups _ instBEqOfDecidableEq _ _⟩
  rw [ENFA.minimize_hopcroft_lang D hshape.1 dD eD hshape.2 fuel2 gs hgs name hname emptyName ks,
    ENFA.toDet_lang _ (thompson_wf code r c) key hk fuel1 D hD ks, thompson_lang]

end Rx
end Pfl
