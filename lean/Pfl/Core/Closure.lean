/-
Generic model of the Python worklist idiom

    to_process = [seeds]; processed = {seeds}
    while to_process:
        x = to_process.pop()
        for y in next(x):
            if key(y) not in processed: processed.add(key(y)); to_process.append(y)

`key` is the value by which Python compares (`State.__eq__` on the merged *name*, a
tuple of states, ...).  With `key = id` this is plain reachability.  Core Lean only.
-/
namespace Pfl

variable {α κ : Type} [DecidableEq κ]

/-- one `for y in ys` loop: push every element whose key is unseen (last pushed = next popped) -/
def addNewK (key : α → κ) : List α → List α → List α → List α × List α
  | [], todo, seen => (todo, seen)
  | y :: ys, todo, seen =>
      if key y ∈ seen.map key then addNewK key ys todo seen
      else addNewK key ys (y :: todo) (seen ++ [y])

/-- the `while to_process` loop; `none` = fuel exhausted (never a default answer) -/
def bfsK (key : α → κ) (next : α → List α) : Nat → List α → List α → Option (List α)
  | _, [], seen => some seen
  | 0, _ :: _, _ => none
  | fuel+1, x :: todo, seen =>
      let r := addNewK key (next x) todo seen
      bfsK key next fuel r.1 r.2

/-- reflexive-transitive closure of `y ∈ next x` (kept local so that model files import nothing) -/
inductive Reach (next : α → List α) : α → α → Prop
  | refl (x) : Reach next x x
  | tail {x y z} : Reach next x y → z ∈ next y → Reach next x z

theorem Reach.trans {next : α → List α} {x y z : α} (h₁ : Reach next x y) (h₂ : Reach next y z) :
    Reach next x z := by
  induction h₂ with
  | refl => exact h₁
  | tail _ hz ih => exact Reach.tail ih hz

theorem Reach.head {next : α → List α} {x y z : α} (h : y ∈ next x) (h₂ : Reach next y z) :
    Reach next x z := Reach.trans (Reach.tail (Reach.refl x) h) h₂

theorem addNewK_seen_mem (key : α → κ) (ys todo seen : List α) (z : α) :
    z ∈ (addNewK key ys todo seen).2 → z ∈ seen ∨ z ∈ ys := by
  induction ys generalizing todo seen with
  | nil => simp [addNewK]
  | cons y ys ih =>
    unfold addNewK; split
    · intro h; rcases ih _ _ h with h | h
      · exact Or.inl h
      · exact Or.inr (List.mem_cons_of_mem _ h)
    · intro h; rcases ih _ _ h with h | h
      · rcases List.mem_append.mp h with h | h
        · exact Or.inl h
        · simp at h; subst h; exact Or.inr List.mem_cons_self
      · exact Or.inr (List.mem_cons_of_mem _ h)

theorem addNewK_seen_mono (key : α → κ) (ys todo seen : List α) (z : α) (h : z ∈ seen) :
    z ∈ (addNewK key ys todo seen).2 := by
  induction ys generalizing todo seen with
  | nil => simpa [addNewK]
  | cons y ys ih =>
    unfold addNewK; split
    · exact ih _ _ h
    · exact ih _ _ (List.mem_append_left _ h)

/-- every element of `ys` has its key in the new `seen` -/
theorem addNewK_covers (key : α → κ) (ys todo seen : List α) (y : α) (h : y ∈ ys) :
    key y ∈ (addNewK key ys todo seen).2.map key := by
  induction ys generalizing todo seen with
  | nil => cases h
  | cons y' ys ih =>
    unfold addNewK
    rcases List.mem_cons.mp h with h | h
    · subst h
      split
      · rename_i hk
        obtain ⟨w, hw, hwk⟩ := List.mem_map.mp hk
        exact List.mem_map.mpr ⟨w, addNewK_seen_mono key ys _ _ w hw, hwk⟩
      · exact List.mem_map.mpr ⟨y, addNewK_seen_mono key ys _ _ y (by simp), rfl⟩
    · split <;> exact ih _ _ h

theorem addNewK_todo_mem (key : α → κ) (ys todo seen : List α) (z : α) :
    z ∈ (addNewK key ys todo seen).1 → z ∈ todo ∨ (z ∈ ys ∧ z ∈ (addNewK key ys todo seen).2) := by
  induction ys generalizing todo seen with
  | nil => simp [addNewK]
  | cons y ys ih =>
    unfold addNewK; split
    · intro h; rcases ih _ _ h with h | ⟨h, h'⟩
      · exact Or.inl h
      · exact Or.inr ⟨List.mem_cons_of_mem _ h, h'⟩
    · intro h; rcases ih _ _ h with h | ⟨h, h'⟩
      · rcases List.mem_cons.mp h with h | h
        · subst h
          exact Or.inr ⟨List.mem_cons_self, addNewK_seen_mono key ys _ _ _ (by simp)⟩
        · exact Or.inl h
      · exact Or.inr ⟨List.mem_cons_of_mem _ h, h'⟩

theorem addNewK_todo_mono (key : α → κ) (ys todo seen : List α) (z : α) (h : z ∈ todo) :
    z ∈ (addNewK key ys todo seen).1 := by
  induction ys generalizing todo seen with
  | nil => simpa [addNewK]
  | cons y ys ih =>
    unfold addNewK; split
    · exact ih _ _ h
    · exact ih _ _ (List.mem_cons_of_mem _ h)

/-- a freshly seen element is also queued -/
theorem addNewK_new_todo (key : α → κ) (ys todo seen : List α) (z : α)
    (h : z ∈ (addNewK key ys todo seen).2) (hs : z ∉ seen) : z ∈ (addNewK key ys todo seen).1 := by
  induction ys generalizing todo seen with
  | nil => simp [addNewK] at h; exact absurd h hs
  | cons y ys ih =>
    unfold addNewK at h ⊢; split
    · rename_i hk; simp only [hk, if_true] at h; exact ih _ _ h hs
    · rename_i hk; simp only [hk, if_false] at h
      by_cases hz : z ∈ seen ++ [y]
      · have : z = y := by
          rcases List.mem_append.mp hz with h' | h'
          · exact absurd h' hs
          · simpa using h'
        subst this
        exact addNewK_todo_mono key ys _ _ _ List.mem_cons_self
      · exact ih _ _ h hz

/-- `seen` is closed under `next` (up to `key`) except at elements still queued -/
def ClosedExceptK (key : α → κ) (next : α → List α) (todo seen : List α) : Prop :=
  ∀ x ∈ seen, x ∉ todo → ∀ y ∈ next x, key y ∈ seen.map key

theorem bfsK_inv (key : α → κ) (next : α → List α) :
    ∀ fuel todo seen res, bfsK key next fuel todo seen = some res →
      (∀ z ∈ todo, z ∈ seen) → ClosedExceptK key next todo seen →
      (∀ z ∈ seen, z ∈ res) ∧ ClosedExceptK key next [] res := by
  intro fuel
  induction fuel with
  | zero =>
    intro todo seen res h hts hc
    cases todo with
    | nil => simp [bfsK] at h; subst h; exact ⟨fun _ h => h, hc⟩
    | cons a t => simp [bfsK] at h
  | succ n ih =>
    intro todo seen res h hts hc
    cases todo with
    | nil => simp [bfsK] at h; subst h; exact ⟨fun _ h => h, hc⟩
    | cons x todo =>
      simp only [bfsK] at h
      have hx : x ∈ seen := hts x List.mem_cons_self
      have := ih _ _ res h ?_ ?_
      · exact ⟨fun z hz => this.1 z (addNewK_seen_mono key _ _ _ z hz), this.2⟩
      · intro z hz
        rcases addNewK_todo_mem key _ _ _ z hz with h' | ⟨_, h'⟩
        · exact addNewK_seen_mono key _ _ _ z (hts z (List.mem_cons_of_mem _ h'))
        · exact h'
      · intro z hz hzt y hy
        by_cases hzx : z = x
        · subst hzx; exact addNewK_covers key _ _ _ y hy
        · by_cases hs : z ∈ seen
          · have hnt : z ∉ x :: todo := by
              intro hm; rcases List.mem_cons.mp hm with h' | h'
              · exact hzx h'
              · exact hzt (addNewK_todo_mono key _ _ _ z h')
            obtain ⟨w, hw, hwk⟩ := List.mem_map.mp (hc z hs hnt y hy)
            exact List.mem_map.mpr ⟨w, addNewK_seen_mono key _ _ _ w hw, hwk⟩
          · exact absurd (addNewK_new_todo key _ _ _ z hz hs) hzt

/-- soundness: any `next`-closed predicate true of the seeds is true of the result -/
theorem bfsK_sound (key : α → κ) (next : α → List α) (P : α → Prop)
    (hP : ∀ x y, P x → y ∈ next x → P y) :
    ∀ fuel todo seen res, bfsK key next fuel todo seen = some res →
      (∀ z ∈ todo, P z) → (∀ z ∈ seen, P z) → ∀ z ∈ res, P z := by
  intro fuel
  induction fuel with
  | zero =>
    intro todo seen res h _ hs
    cases todo with
    | nil => simp [bfsK] at h; subst h; exact hs
    | cons a t => simp [bfsK] at h
  | succ n ih =>
    intro todo seen res h ht hs
    cases todo with
    | nil => simp [bfsK] at h; subst h; exact hs
    | cons x todo =>
      simp only [bfsK] at h
      have hx : P x := ht x List.mem_cons_self
      have hs' : ∀ z ∈ (addNewK key (next x) todo seen).2, P z := by
        intro z hz
        rcases addNewK_seen_mem key _ _ _ z hz with h' | h'
        · exact hs z h'
        · exact hP x z hx h'
      refine ih _ _ res h ?_ hs'
      intro z hz
      rcases addNewK_todo_mem key _ _ _ z hz with h' | ⟨_, h'⟩
      · exact ht z (List.mem_cons_of_mem _ h')
      · exact hs' z h'

/-- the result lists each key once if `seen` did -/
theorem addNewK_nodup (key : α → κ) (ys todo seen : List α) (h : (seen.map key).Nodup) :
    ((addNewK key ys todo seen).2.map key).Nodup := by
  induction ys generalizing todo seen with
  | nil => simpa [addNewK]
  | cons y ys ih =>
    unfold addNewK; split
    · exact ih _ _ h
    · rename_i hk
      apply ih
      rw [List.map_append, List.nodup_append]
      refine ⟨h, by simp, ?_⟩
      intro a ha b hb
      simp at hb; subst hb
      intro hab; subst hab; exact hk ha

theorem bfsK_nodup (key : α → κ) (next : α → List α) :
    ∀ fuel todo seen res, bfsK key next fuel todo seen = some res →
      (seen.map key).Nodup → (res.map key).Nodup := by
  intro fuel
  induction fuel with
  | zero =>
    intro todo seen res h hs
    cases todo with
    | nil => simp [bfsK] at h; subst h; exact hs
    | cons a t => simp [bfsK] at h
  | succ n ih =>
    intro todo seen res h hs
    cases todo with
    | nil => simp [bfsK] at h; subst h; exact hs
    | cons x todo =>
      simp only [bfsK] at h
      exact ih _ _ res h (addNewK_nodup key _ _ _ hs)

theorem addNewK_length (key : α → κ) (ys todo seen : List α) :
    (addNewK key ys todo seen).1.length + seen.length
      = (addNewK key ys todo seen).2.length + todo.length := by
  induction ys generalizing todo seen with
  | nil => simp [addNewK]; omega
  | cons y ys ih =>
    unfold addNewK; split
    · exact ih _ _
    · have := ih (y :: todo) (seen ++ [y]); simp at this; omega

/-- termination: with a finite universe `U` of keys containing every successor's key, fuel
`> |U|` (more precisely the stated bound) is always enough -/
theorem bfsK_isSome (key : α → κ) (next : α → List α) (U : List κ)
    (hU : ∀ x y, y ∈ next x → key y ∈ U) :
    ∀ fuel todo seen, (seen.map key).Nodup → (∀ z ∈ seen, key z ∈ U) →
      todo.length + U.length < fuel + seen.length + 1 →
      (bfsK key next fuel todo seen).isSome := by
  intro fuel
  induction fuel with
  | zero =>
    intro todo seen hnd hsU hlt
    have hle : (seen.map key).length ≤ U.length :=
      List.Nodup.length_le_of_subset hnd (by
        intro k hk; obtain ⟨w, hw, rfl⟩ := List.mem_map.mp hk; exact hsU w hw)
    simp at hle
    cases todo with
    | nil => simp [bfsK]
    | cons a t => simp at hlt; omega
  | succ n ih =>
    intro todo seen hnd hsU hlt
    cases todo with
    | nil => simp [bfsK]
    | cons x todo =>
      simp only [bfsK]
      apply ih
      · exact addNewK_nodup key _ _ _ hnd
      · intro z hz
        rcases addNewK_seen_mem key _ _ _ z hz with h | h
        · exact hsU z h
        · exact hU x z h
      · have := addNewK_length key (next x) todo seen
        simp at hlt; omega

/-! ### plain reachability (`key = id`) -/

variable [DecidableEq α]

def bfs (next : α → List α) (fuel : Nat) (seeds : List α) : Option (List α) :=
  bfsK id next fuel seeds seeds.eraseDups

theorem mem_bfs_iff (next : α → List α) (fuel : Nat) (seeds res : List α)
    (h : bfs next fuel seeds = some res) (z : α) :
    z ∈ res ↔ ∃ s ∈ seeds, Reach next s z := by
  unfold bfs at h
  constructor
  · intro hz
    refine bfsK_sound id next (fun z => ∃ s ∈ seeds, Reach next s z) ?_ fuel _ _ res h ?_ ?_ z hz
    · rintro x y ⟨s, hs, hr⟩ hy; exact ⟨s, hs, Reach.tail hr hy⟩
    · intro z hz; exact ⟨z, hz, Reach.refl z⟩
    · intro z hz; exact ⟨z, List.mem_eraseDups.mp hz, Reach.refl z⟩
  · rintro ⟨s, hs, hr⟩
    have inv := bfsK_inv id next fuel seeds seeds.eraseDups res h
      (fun z hz => List.mem_eraseDups.mpr hz)
      (fun x hx hxt => absurd (List.mem_eraseDups.mp hx) hxt)
    induction hr with
    | refl => exact inv.1 s (List.mem_eraseDups.mpr hs)
    | tail _ hz ih =>
      have := inv.2 _ ih (by simp) _ hz
      simpa using this

end Pfl
