/-
A step-faithful, executable model of the TEXTUAL rewriting pipeline of
`pyformlang.regular_expression.PythonRegex.__init__` (file `python_regex.py`): the function from the
pattern text to the final string `self._python_regex` that is handed to `Regex.__init__`.

    _replace_shortcuts ; _escape_in_brackets ; _preprocess_brackets ; _preprocess_positive_closure
    (which ends with _add_repetition) ; _preprocess_optional ; _separate ; lstrip('\b')

Python strings are sequences of code points: `List Char` here.  The Python code builds lists of strings
(`regex_temp`, ...) by appending at the END and by `regex_temp[-1] += symbol`; such lists under
construction are stored REVERSED here (`RToks`: head = `lst[-1]`), which makes both operations O(1);
every function that hands a list to another Python function reverses it back, so all the functions that
model a Python method take and return the Python (forward) order unless their name ends in `R`.

There is one Lean function per Python method (named in its doc comment).  No fuel is needed: the two
Python `while` loops (`_add_repetition`, `_recombine`) only move forward and are modelled by a
structural recursion with a "tokens still to skip" counter / a plain map.

Faithfulness is claimed for the DOCUMENTED SUBSET (literals, escaped metacharacters, `.`, sets and
negated sets with ranges, alternation, groups, `* + ? {m} {m,n}`, `\d \s \w`, ASCII).  Outside it the
model answers `Err.unsupported`:
  * a non-ASCII character anywhere in the pattern (`str.isdigit`, `unicodedata` ... are not modelled);
  * a token `\x`, `\N`, `\u`, `\U`, `\0` .. `\7` reaching `_recombine` (hexadecimal / octal / unicode
    escapes).
Python exceptions raised inside the passes are modelled: `MisformedRegexError`
(`_find_previous_opening_parenthesis`) is `Err.misformed`, an `IndexError` (`regex_temp[-1]` on an empty
list, e.g. the pattern text `+`) is `Err.indexError`.  `re.compile` (validity of the pattern) is NOT
modelled: `transform` is the pipeline after that check.

Core Lean only.
-/
namespace Pfl
namespace PyPass

/-- A Python `str`. -/
abbrev Tok := List Char
/-- A Python `list` of `str` under construction, in REVERSE order (head = `lst[-1]`). -/
abbrev RToks := List Tok

inductive Err where
  | unsupported     -- outside the modelled subset (see the header)
  | misformed       -- Python raises `MisformedRegexError`
  | indexError      -- Python raises `IndexError`
deriving DecidableEq, Repr

/-! ### Module constants -/

def digits : List Char := "0123456789".toList
def asciiLower : List Char := "abcdefghijklmnopqrstuvwxyz".toList
def asciiUpper : List Char := "ABCDEFGHIJKLMNOPQRSTUVWXYZ".toList
def punctuation : List Char := "!\"#$%&'()*+,-./:;<=>?@[\\]^_`{|}~".toList
def whitespace : List Char := [' ', '\t', '\n', '\r', '\x0b', '\x0c']

/-- `PRINTABLES = list(string.printable)` (exact order). -/
def printables : List Char := digits ++ asciiLower ++ asciiUpper ++ punctuation ++ whitespace

/-- `TRANSFORMATIONS.get(c)` -/
def transformations? (c : Char) : Option Tok :=
  if c = '|' then some ['\\', '|']
  else if c = '(' then some ['\\', '(']
  else if c = ')' then some ['\\', ')']
  else if c = '*' then some ['\\', '*']
  else if c = '+' then some ['\\', '+']
  else if c = '.' then some ['\\', '.']
  else if c = '$' then some ['\\', '$']
  else if c = '\n' then some []
  else if c = ' ' then some ['\\', ' ']
  else if c = '\\' then some ['\\', '\\']
  else if c = '?' then some ['\\', '?']
  else none

/-- `TRANSFORMATIONS.get(c, c)` -/
def transf (c : Char) : Tok := (transformations? c).getD [c]

/-- `RECOMBINE.get(t)`: `\b \n \r \t \f` (two-character strings) to the control character. -/
def recombine? (t : Tok) : Option Tok :=
  match t with
  | ['\\', 'b'] => some ['\x08']
  | ['\\', 'n'] => some ['\n']
  | ['\\', 'r'] => some ['\r']
  | ['\\', 't'] => some ['\t']
  | ['\\', 'f'] => some ['\x0c']
  | _ => none

/-- `ESCAPED_PRINTABLES` (the empty image of the newline is dropped). -/
def escapedPrintables : List Tok := (printables.map transf).filter (fun t => !t.isEmpty)

/-- `str.join`: `sep.join(l)` -/
def join (sep : Tok) : List Tok → Tok
  | [] => []
  | [t] => t
  | t :: rest => t ++ sep ++ join sep rest

/-- `DOT_REPLACEMENT` -/
def dotReplacement : Tok := ['('] ++ join ['|'] escapedPrintables ++ [')']

/-- `TO_ESCAPE_IN_BRACKETS` -/
def toEscapeInBrackets : List Char := "(+*)?.$".toList

/-- `SHORTCUTS.items()` in insertion order. -/
def shortcuts : List (Tok × Tok) :=
  [ ([' '], ['\\', ' ']),
    (['\\', 'd'], "[0-9]".toList),
    (['\\', 's'], ['[', '\\', ' ', '\t', '\n', '\r', '\x0c', '\x0b', ']']),
    (['\\', 'w'], "[a-zA-Z0-9_]".toList) ]

/-! ### Small Python primitives -/

/-- `_should_escape_next_symbol(regex_temp)`: the list is non-empty and its last element is `"\\"`. -/
def escNext : RToks → Bool
  | t :: _ => t == ['\\']
  | [] => false

/-- The recurring `if self._should_escape_next_symbol(l): l[-1] += s  else: l.append(s)`. -/
def pushTok (l : RToks) (s : Tok) : RToks :=
  match l with
  | t :: r => if t == ['\\'] then (t ++ s) :: r else s :: l
  | [] => [s]

def pushSym (l : RToks) (c : Char) : RToks := pushTok l [c]

/-- `"".join(l)` of a reversed list. -/
def joinR (l : RToks) : Tok := l.reverse.flatten

/-- `str.replace(old, new)` for a non-empty `old`: left to right, non overlapping.  `skip` = characters of
the current occurrence still to be dropped. -/
def replaceGo (old new : Tok) : Tok → Nat → Tok
  | [], _ => []
  | _ :: rest, skip + 1 => replaceGo old new rest skip
  | c :: rest, 0 =>
    if old.isPrefixOf (c :: rest) then new ++ replaceGo old new rest (old.length - 1)
    else c :: replaceGo old new rest 0

def replace (s old new : Tok) : Tok := replaceGo old new s 0

/-- `str.isdigit()` on ASCII text. -/
def isDigitStr (s : Tok) : Bool := !s.isEmpty && s.all Char.isDigit

/-- `int(s)` for a string of ASCII digits. -/
def toNat (s : Tok) : Nat := s.foldl (fun n c => 10 * n + (c.toNat - '0'.toNat)) 0

/-- `s.split(",")` -/
def splitComma : Tok → List Tok
  | [] => [[]]
  | c :: rest =>
    match splitComma rest with
    | [] => [[]]     -- unreachable
    | p :: ps => if c = ',' then [] :: p :: ps else (c :: p) :: ps

/-! ### `_replace_shortcuts` -/

/-- the loop of `PythonRegex._replace_shortcuts` (after the repair: a scanning pass that knows
about escaped backslashes and about being inside a set); state = (`in_brackets`, `escaped`), `acc`
is `res` reversed -/
def replaceShortcutsGo : Tok → Bool → Bool → RToks → RToks
  | [], _, _, acc => acc
  | c :: rest, inb, esc, acc =>
    if esc then
      if c = ' ' then replaceShortcutsGo rest inb false (['\\', ' '] :: acc.tail)
      else match shortcuts.find? (fun p => p.1 == ['\\', c]) with
        | some p => replaceShortcutsGo rest inb false ((if inb then (p.2.drop 1).dropLast else p.2) :: acc.tail)
        | none => replaceShortcutsGo rest inb false ([c] :: acc)
    else
      let inb' := if c = '[' then true else if c = ']' then false else inb
      replaceShortcutsGo rest (if c = '\\' then inb else inb') (c = '\\')
        ((if c = ' ' then ['\\', ' '] else [c]) :: acc)

/-- `PythonRegex._replace_shortcuts` -/
def replaceShortcuts (s : Tok) : Tok := joinR (replaceShortcutsGo s false false [])

/-! ### `_escape_in_brackets` -/

/-- One iteration of the loop of `_escape_in_brackets`; state = (`regex_temp`, `in_brackets`). -/
def escapeInBracketsStep (st : RToks × Bool) (c : Char) : RToks × Bool :=
  let (rt, inb) := st
  let inb' :=
    if c = '[' && !escNext rt then true
    else if c = ']' && !escNext rt then false
    else inb
  if inb' && !escNext rt && toEscapeInBrackets.contains c then (['\\', c] :: rt, inb')
  else (pushSym rt c, inb')

/-- `PythonRegex._escape_in_brackets` -/
def escapeInBrackets (s : Tok) : Tok :=
  joinR (s.foldl escapeInBracketsStep ([], false)).1

/-! ### `_recombine`, `_insert_or`, `_preprocess_negation`, `_preprocess_brackets_content` -/

def escapedOctal : List Tok := ["\\0", "\\1", "\\2", "\\3", "\\4", "\\5", "\\6", "\\7"].map String.toList

/-- tokens that may trigger one of the hexadecimal / octal / unicode branches of `_recombine` -/
def isUnsupportedTok (t : Tok) : Bool :=
  t == ['\\', 'x'] || t == ['\\', 'N'] || t == ['\\', 'u'] || t == ['\\', 'U'] || escapedOctal.contains t

/-- `PythonRegex._recombine` on a list of strings.  Only the last branch of the `while` loop (copy the
element) and the final `RECOMBINE` pass are modelled; any element that could take another branch makes
the model answer `unsupported`. -/
def recombine (l : List Tok) : Except Err (List Tok) :=
  if l.any isUnsupportedTok then .error .unsupported
  else .ok (l.map fun t => (recombine? t).getD t)

/-- `PythonRegex._insert_or` -/
def insertOr : List Tok → List Tok
  | [] => []
  | [t] => [t]
  | t :: rest => t :: ['|'] :: insertOr rest

/-- `PythonRegex._preprocess_negation` -/
def preprocessNegation (bc : List Tok) : List Tok :=
  match bc with
  | [] => bc
  | first :: members =>
    if first != ['^'] then bc
    else
      let extra := members.filterMap fun s =>
        match recombine? s with
        | some r => some r
        | none =>
          match s with
          | ['\\', c] => some (transf c)
          | _ => none
      let excluded := members ++ extra
      (escapedPrintables ++ [['\n']]).filter fun x => !excluded.contains x

/-- the tokens inserted for the inside of a range: `for j in range(lo + 1, hi)` -/
def rangeToks (lo hi : Nat) : List Tok :=
  (List.range' (lo + 1) (hi - (lo + 1))).map fun j => transf (Char.ofNat j)

/-- `ord(x[-1])` for a string `x` -/
def lastOrd (t : Tok) : Except Err Nat :=
  match t.getLast? with
  | some c => .ok c.toNat
  | none => .error .indexError

/-- The loop of `_preprocess_brackets_content`.  `prev` = `bracket_content[i - 1]` (none when `i = 0`),
the list = `bracket_content[i:]`, `temp` = `bracket_content_temp` (reversed),
`valid` = `previous_is_valid_for_range`.  (The in-place replacement of `bracket_content[i - 1]` by the
list of its characters is never observed: only its last character is read.) -/
def bracketsContentLoop : Option Tok → List Tok → RToks → Bool → Except Err RToks
  | _, [], temp, _ => .ok temp
  | prev, sym :: rest, temp, valid =>
    if sym == ['-'] && !escNext temp then
      if !valid || rest.isEmpty then
        bracketsContentLoop (some sym) rest (['-'] :: temp) true
      else
        match prev, rest with
        | some p, nxt :: _ => do
          let lo ← lastOrd p
          let hi ← lastOrd nxt
          bracketsContentLoop (some sym) rest ((rangeToks lo hi).reverse ++ temp) false
        | _, _ => .error .indexError      -- unreachable (`valid` implies `i ≥ 1`)
    else
      let valid' := !(prev == some ['-'] && !valid)
      bracketsContentLoop (some sym) rest (pushTok temp sym) valid'

/-- `PythonRegex._preprocess_brackets_content` -/
def preprocessBracketsContent (bc : List Tok) : Except Err (List Tok) := do
  let temp ← bracketsContentLoop none bc [] false
  let t1 := preprocessNegation temp.reverse
  let t2 := t1.eraseDups                    -- list(dict.fromkeys(..))
  let t3 := insertOr t2
  recombine t3

/-! ### `_preprocess_brackets` -/

/-- One iteration of the loop of `_preprocess_brackets`; state = (`regex_temp` reversed,
`in_brackets_temp` as a stack: head = `in_brackets_temp[-1]`, each element reversed).
`in_brackets` always equals the length of the stack. -/
def preprocessBracketsStep (st : RToks × List RToks) (c : Char) : Except Err (RToks × List RToks) :=
  let (rt, stk) := st
  match stk with
  | [] =>
    if c = '[' && !escNext rt then .ok (rt, [[]])
    else .ok (pushSym rt c, [])
  | top :: below =>
    if c = '[' && !escNext rt && !escNext top then .ok (rt, [] :: stk)
    else if c = ']' && !escNext top then do
      let content ← preprocessBracketsContent top.reverse
      match below with
      | [] => .ok ([')'] :: (content.reverse ++ (['('] :: rt)), [])
      | b :: bs => .ok (rt, ((['('] ++ content.flatten ++ [')']) :: b) :: bs)
    else if escNext top then .ok (rt, pushSym top c :: below)
    else if c = '|' then .ok (rt, (['\\', '|'] :: top) :: below)
    else .ok (rt, ([c] :: top) :: below)

/-- `PythonRegex._preprocess_brackets` -/
def preprocessBrackets (s : Tok) : Except Err Tok := do
  let st ← s.foldlM preprocessBracketsStep ([], [])
  pure (joinR st.1)

/-! ### `_preprocess_positive_closure` and `_add_repetition` -/

/-- `_find_previous_opening_parenthesis` on the reversed list: the reversed slice
`split_sequence[pos_opening:]`, i.e. the prefix of the reversed list up to and including the matching
`"("`.  `acc` = elements already scanned (in Python order). -/
def findPrevOpenR : RToks → Int → List Tok → Except Err RToks
  | [], _, _ => .error .misformed
  | t :: rest, counter, acc =>
    if t == [')'] then findPrevOpenR rest (counter + 1) (t :: acc)
    else if t == ['('] && counter == 1 then .ok (t :: acc).reverse
    else if t == ['('] then findPrevOpenR rest (counter - 1) (t :: acc)
    else findPrevOpenR rest counter (t :: acc)

/-- One iteration of the loop of `_preprocess_positive_closure`. -/
def positiveClosureStep (rt : RToks) (c : Char) : Except Err RToks :=
  if c != '+' || escNext rt then .ok (pushSym rt c)
  else
    match rt with
    | [] => .error .indexError
    | last :: _ =>
      if last != [')'] then .ok (['*'] :: last :: rt)
      else do
        let grp ← findPrevOpenR rt 0 []
        pure (['*'] :: (grp ++ rt))

/-- result of `_is_repetition`; `skip` = `end - idx` -/
inductive Rep where
  | exact (n skip : Nat)
  | between (lo hi skip : Nat)
deriving Repr

/-- elements before the first `"}"`, or `none` if there is none -/
def untilClose : List Tok → Option (List Tok)
  | [] => none
  | t :: rest => if t == ['}'] then some [] else (untilClose rest).map (t :: ·)

/-- `_is_repetition(regex_list, idx)` with `t = regex_list[idx]`, `rest = regex_list[idx + 1:]`. -/
def isRepetition (t : Tok) (rest : List Tok) : Option Rep :=
  if t != ['{'] then none
  else
    match untilClose rest with
    | none => none            -- `end = idx`: `inner` is empty
    | some innerToks =>
      let inner := innerToks.flatten
      let skip := innerToks.length + 1
      if inner.contains ',' then
        match splitComma inner with
        | [a, b] => if isDigitStr a && isDigitStr b then some (.between (toNat a) (toNat b) skip) else none
        | _ => none
      else if isDigitStr inner then some (.exact (toNat inner) skip)
      else none

/-- `_find_repeated_sequence` scanning loop on the reversed list; `acc` = the elements scanned so far in
Python (forward) order, i.e. Python's `res[::-1]`; the answer is the reversed repeated sequence (a prefix of
the reversed list), `[]` when no matching `"("` exists. -/
def findRepeatedScanR : RToks → Int → RToks → RToks
  | [], _, _ => []
  | t :: rest, counter, acc =>
    if t == ['('] then
      if counter + 1 == 0 then (t :: acc).reverse else findRepeatedScanR rest (counter + 1) (t :: acc)
    else if t == [')'] then findRepeatedScanR rest (counter - 1) (t :: acc)
    else findRepeatedScanR rest counter (t :: acc)

/-- `_find_repeated_sequence(regex_list)`, argument and result reversed. -/
def findRepeatedR (res : RToks) : Except Err RToks :=
  match res with
  | [] => .error .indexError
  | last :: rest => if last != [')'] then .ok [last] else .ok (findRepeatedScanR rest (-1) [last])

/-- `for _ in range(n): res.extend(block)` (reversed lists) -/
def extendN (n : Nat) (block : RToks) (res : RToks) : RToks :=
  match n with
  | 0 => res
  | k + 1 => extendN k block (block ++ res)

/-- The `while` loop of `_add_repetition`: `l` = `regex_list[idx:]` once `skip` more elements are dropped. -/
def addRepetitionGo : List Tok → Nat → RToks → Except Err RToks
  | [], _, res => .ok res
  | _ :: rest, skip + 1, res => addRepetitionGo rest skip res
  | t :: rest, 0, res =>
    match isRepetition t rest with
    | none => addRepetitionGo rest 0 (t :: res)
    | some (.exact n skip) => do
      let repeated ← findRepeatedR res
      let res1 := if n == 0 then ['$'] :: res.drop repeated.length else res
      addRepetitionGo rest skip (extendN (n - 1) repeated res1)
    | some (.between lo hi skip) => do
      let repeated ← findRepeatedR res
      let res1 := if lo == 0 then ['$'] :: res.drop repeated.length else res
      let res2 := extendN (lo - 1) repeated res1
      addRepetitionGo rest skip (extendN (hi - lo) (['?'] :: repeated) res2)

/-- `PythonRegex._add_repetition` -/
def addRepetition (l : List Tok) : Except Err (List Tok) := do
  let r ← addRepetitionGo l 0 []
  pure r.reverse

/-- `PythonRegex._preprocess_positive_closure` -/
def preprocessPositiveClosure (s : Tok) : Except Err Tok := do
  let rt ← s.foldlM positiveClosureStep []
  let l ← addRepetition rt.reverse
  pure l.flatten

/-! ### `_preprocess_optional` -/

/-- One iteration of the loop of `_preprocess_optional`. -/
def optionalStep (rt : RToks) (c : Char) : Except Err RToks :=
  if c = '?' then
    match rt with
    | [] => .error .indexError
    | last :: rest =>
      if last == [')'] then .ok (['|', '$', ')'] :: rest)
      else if last == ['\\'] then .ok (['?'] :: rest)
      else .ok ((['('] ++ last ++ ['|', '$', ')']) :: rest)
  else .ok (pushSym rt c)

/-- `PythonRegex._preprocess_optional` -/
def preprocessOptional (s : Tok) : Except Err Tok := do
  let rt ← s.foldlM optionalStep []
  pure (joinR rt)

/-! ### `_separate`, `lstrip`, the pipeline -/

/-- `PythonRegex._separate` -/
def separate (s : Tok) : Except Err Tok := do
  let rt := s.foldl pushSym []
  let toks ← recombine rt.reverse
  let toks' := toks.map fun t => if t == ['.'] then dotReplacement else t
  pure (join [' '] toks')

/-- `str.lstrip('\b')` -/
def lstripBackspace (s : Tok) : Tok := s.dropWhile (· == '\x08')

/-- The pipeline of `PythonRegex.__init__` after `re.compile`: the text handed to `Regex.__init__`. -/
def transform (p : Tok) : Except Err Tok := do
  if p.any (fun c => c.toNat ≥ 128) then throw .unsupported
  let s1 := replaceShortcuts p
  let s2 := escapeInBrackets s1
  let s3 ← preprocessBrackets s2
  let s4 ← preprocessPositiveClosure s3
  let s5 ← preprocessOptional s4
  let s6 ← separate s5
  pure (lstripBackspace s6)

/-- `transform` with the three kinds of failure merged into `none`. -/
def transform? (p : Tok) : Option Tok :=
  match transform p with
  | .ok s => some s
  | .error _ => none

/-- the intermediate strings (for debugging a difference pass by pass) -/
def trace (p : Tok) : List (Except Err Tok) :=
  let s1 := replaceShortcuts p
  let s2 := escapeInBrackets s1
  let s3 := preprocessBrackets s2
  let s4 := s3 >>= preprocessPositiveClosure
  let s5 := s4 >>= preprocessOptional
  let s6 := s5 >>= separate
  [.ok s1, .ok s2, s3, s4, s5, s6]

end PyPass
end Pfl
