/-
Faithful model of pyformlang.cfg.recursive_decent_parser.RecursiveDecentParser: the pruning test
`_match`, the choice of the variable to expand, the backtracking search `_get_parse_tree_sub`
(productions tried in the grammar's iteration order) and the tree that the successful branch
leaves behind.  The search is not guaranteed to terminate (left recursion): it takes fuel, and
`none` stands for the library's RecursionError.  Core Lean only.
-/
import Pfl.Model.CFG
import Pfl.Oracle.Trees
namespace Pfl
namespace RecDescent

/-- `_match(word, expansion)`: every variable may stand for any (possibly empty) factor -/
def rdMatch : List String → List Sym → Bool
  | [], [] => true
  | _ :: _, [] => false
  | w, .var v :: rest =>
    -- `_match(idx_word + 1, idx_exp) or _match(idx_word, idx_exp + 1)`
    (match w with
     | [] => false
     | _ :: w' => rdMatch w' (.var v :: rest)) || rdMatch w rest
  | w, .ter t :: rest =>
    match w with
    | a :: w' => a = t && rdMatch w' rest
    | [] => false
termination_by w e => w.length + e.length

/-- `_get_index_to_extend`: the first variable from the left, or from the right -/
def indexToExtend (e : List Sym) (left : Bool) : Option Nat :=
  let isVar : Sym → Bool := fun s => match s with
    | .var _ => true
    | .ter _ => false
  if left then e.findIdx? isVar
  else (e.reverse.findIdx? isVar).map fun i => e.length - 1 - i

/-- `_get_parse_tree_sub`: `none` = out of fuel, `some none` = `False`, `some (some ps)` = `True`
with the productions applied along the successful branch, in order of application -/
def rdSub (G : CFG) (left : Bool) : Nat → List String → List Sym → Option (Option (List Prod))
  | 0, _, _ => none
  | fuel+1, w, e =>
    if !rdMatch w e then some none else
    match indexToExtend e left with
    | none => some (some [])
    | some i =>
      match e[i]? with
      | some (.var v) =>
        let rec tryAll : List Prod → Option (Option (List Prod))
          | [] => some none
          | p :: ps =>
            if p.1 = v then
              match rdSub G left fuel w (e.take i ++ p.2 ++ e.drop (i + 1)) with
              | none => none
              | some (some r) => some (some (p :: r))
              | some none => tryAll ps
            else tryAll ps
        tryAll G.prods
      | _ => some none

/-- rebuild the tree from a leftmost (`left`) or rightmost sequence of productions -/
def build (left : Bool) : Nat → Sym → List Prod → Option (PTree × List Prod)
  | 0, _, _ => none
  | _, .ter t, ps => some (.node (.ter t) [], ps)
  | fuel+1, .var v, ps =>
    match ps with
    | [] => none
    | p :: rest =>
      if p.1 ≠ v then none else
      let rec sons : List Sym → List Prod → Option (List PTree × List Prod)
        | [], ps => some ([], ps)
        | s :: ss, ps =>
          match build left fuel s ps with
          | none => none
          | some (t, ps') => (sons ss ps').map fun r => (t :: r.1, r.2)
      if left then (sons p.2 rest).map fun r => (.node (.var v) r.1, r.2)
      else (sons p.2.reverse rest).map fun r => (.node (.var v) r.1.reverse, r.2)

/-- `get_parse_tree(word, left)`: `none` = RecursionError, `some none` = NotParsableException
(in particular on a grammar without start symbol, whatever the word) -/
def parse (G : CFG) (w : List String) (left : Bool) (fuel : Nat) : Option (Option PTree) :=
  match G.start with
  | none => some none
  | some s =>
    match rdSub G left fuel w [.var s] with
    | none => none
    | some none => some none
    | some (some ps) =>
      match build left (ps.length + 1) (.var s) ps with
      | some (t, []) => some (some t)
      | _ => none

end RecDescent
end Pfl
