/-
Faithful model of DeterministicFiniteAutomaton._get_partition (Hopcroft's refinement with the
library's Partition / HopcroftProcessingList classes).  States are `Option σ`, `none` being the
implicit trash state.  Core Lean only.
-/
import Pfl.Model.Minimize
namespace Pfl
namespace ENFA
variable {σ : Type} [DecidableEq σ]

/-- deterministic successor with the trash state -/
def dnext (A : ENFA σ) (q : Option σ) (a : Nat) : Option σ :=
  q.bind fun p => (A.succs p (some a)).head?

/-- `previous_transitions.get(element, symbol)`: predecessors in insertion order (the states in
`_states` order, then the trash state itself for `none`) -/
def hprev (A : ENFA σ) (x : Option σ) (a : Nat) : List (Option σ) :=
  (A.states.filter fun p => A.dnext (some p) a = x).map some ++ (if x = none then [none] else [])

structure HState (σ : Type) where
  /-- `part[i]`: members of class `i` in linked-list order -/
  part : List (List (Option σ))
  /-- `_elements`: the processing stack, top first -/
  stack : List (Nat × Nat)
  /-- `_inclusion` -/
  incl : List (Nat × Nat)

def classOf (part : List (List (Option σ))) (x : Option σ) : Nat :=
  ((part.zip (List.range part.length)).find? fun e => x ∈ e.1).map (·.2) |>.getD 0

/-- `get_valid_sets(inverse)` -/
def validSets (part : List (List (Option σ))) (inverse : List (Option σ)) : List Nat :=
  (List.range part.length).filter fun i =>
    let cnt := (inverse.filter fun x => classOf part x = i).length
    cnt ≠ 0 ∧ cnt ≠ (part.getD i []).length

/-- `split(to_split, splitter)`: the members of `splitter` lying in class `to_split` move, in
splitter order, to a new class appended at the end -/
def splitClass (part : List (List (Option σ))) (i : Nat) (inverse : List (Option σ)) :
    List (List (Option σ)) :=
  let moved := inverse.filter fun x => classOf part x = i
  (part.zip (List.range part.length)).map (fun e => if e.2 = i then e.1.filter (· ∉ moved) else e.1) ++ [moved]

def hinsert (st : HState σ) (c a : Nat) : HState σ :=
  { st with stack := (c, a) :: st.stack, incl := if (c, a) ∈ st.incl then st.incl else (c, a) :: st.incl }

/-- the body of `for valid_set in partition.get_valid_sets(inverse)` -/
def refineOne (syms : List Nat) (inverse : List (Option σ)) (st : HState σ) (v : Nat) : HState σ :=
  let part' := splitClass st.part v inverse
  let nw := part'.length - 1
  syms.foldl (fun st a =>
    if (v, a) ∈ st.incl then hinsert st nw a
    else if (part'.getD v []).length < (part'.getD nw []).length then hinsert st v a
    else hinsert st nw a) { st with part := part' }

/-- the `while not processing_list.is_empty()` loop; `none` = out of fuel -/
def hopcroftLoop (A : ENFA σ) : Nat → HState σ → Option (HState σ)
  | _, st@{ stack := [], .. } => some st
  | 0, _ => none
  | fuel+1, st =>
    match st.stack with
    | [] => some st
    | (c, a) :: rest =>
      let st1 : HState σ := { st with stack := rest, incl := st.incl.filter (· ≠ (c, a)) }
      let inverse := (st1.part.getD c []).flatMap fun x => A.hprev x a
      let vs := validSets st1.part inverse
      hopcroftLoop A fuel (vs.foldl (refineOne A.syms inverse) st1)

/-- `_get_partition().get_groups()` -/
def hopcroft (A : ENFA σ) (fuel : Nat) : Option (List (List (Option σ))) :=
  let finals := (A.states.filter (· ∈ A.finals)).map some
  let nonFinals := (A.states.filter (· ∉ A.finals)).map some ++ [none]
  let toAdd := if nonFinals.length < finals.length then 1 else 0
  let st0 : HState σ := { part := [finals, nonFinals], stack := [], incl := [] }
  (hopcroftLoop A fuel (A.syms.foldl (fun st a => hinsert st toAdd a) st0)).map (·.part)

end ENFA
end Pfl
