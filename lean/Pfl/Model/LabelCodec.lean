/-
Model of the edge-label codecs of `to_networkx` / `from_networkx` for PDAs and FSTs: the label is
the concatenation of JSON texts with the separators " -> " and " / ", and is read back with
`str.split`.  JSON texts are opaque `List Char`s here.  Core Lean only.
-/
namespace Pfl
namespace LabelCodec

def sepArrow : List Char := " -> ".toList
def sepSlash : List Char := " / ".toList

/-- `s.split(sep)` of Python for a non-empty separator: left-to-right, non-overlapping -/
def splitOn (sep : List Char) : Nat → List Char → List Char → List (List Char)
  | 0, _, cur => [cur.reverse]
  | _, [], cur => [cur.reverse]
  | fuel+1, c :: rest, cur =>
    if sep.isPrefixOf (c :: rest) ∧ sep ≠ [] then
      cur.reverse :: splitOn sep fuel ((c :: rest).drop sep.length) []
    else splitOn sep fuel rest (c :: cur)

def split (sep s : List Char) : List (List Char) := splitOn sep (s.length + 1) s []

/-- `PDA.to_networkx` edge label -/
def pdaLabel (i f t : List Char) : List Char := i ++ sepArrow ++ f ++ sepSlash ++ t

/-- `PDA.from_networkx`: `in_symbol, stack_info = label.split(" -> ")`,
`stack_from, stack_to = stack_info.split(" / ")`; `none` = ValueError -/
def readPdaLabel (l : List Char) : Option (List Char × List Char × List Char) :=
  match split sepArrow l with
  | [i, rest] =>
    match split sepSlash rest with
    | [f, t] => some (i, f, t)
    | _ => none
  | _ => none

/-- `FST.to_networkx` edge label -/
def fstLabel (i o : List Char) : List Char := i ++ sepArrow ++ o

def readFstLabel (l : List Char) : Option (List Char × List Char) :=
  match split sepArrow l with
  | [i, o] => some (i, o)
  | _ => none

end LabelCodec
end Pfl
