/-
Model of a `PDA` *object* built and extended through the public API (C19 / C13): the fields
`_states`, `_input_symbols`, `_stack_alphabet`, `_start_state`, `_start_stack_symbol`,
`_final_states` and the table `_transition_function._transitions`, a dict from
`(state, input | ε, stack top)` to the set of `(state, pushed word)` in insertion order.  The
constructor and the four mutators follow `pda/pda.py` and `pda/transition_function.py`
(`add_final_state` registers the state since the repair).  `toPDA` reads the object as the value
(`Pfl.PDA`) the models of C11 / C13 work on.  Core Lean only.
-/
import Pfl.Model.PDA
namespace Pfl
namespace PDAObj

abbrev Key := String × Option String × String
abbrev Outcome := String × List String
abbrev Table := List (Key × List Outcome)

structure Obj where
  states     : List String
  inputs     : List String
  stack      : List String
  start      : Option String
  startStack : Option String
  finals     : List String
  trans      : Table
deriving Repr

/-- `set.add` -/
def ins (x : String) (l : List String) : List String := if x ∈ l then l else l ++ [x]

def insAll (xs : List String) (l : List String) : List String := xs.foldl (fun acc x => ins x acc) l

/-- `PDA(states, input_symbols, stack_alphabet, None, start_state, start_stack_symbol, final_states)` -/
def mk (states inputs stack : List String) (start startStack : Option String) (finals : List String) : Obj :=
  { states := insAll finals (insAll start.toList (insAll states []))
    inputs := insAll inputs []
    stack := insAll startStack.toList (insAll stack [])
    start := start, startStack := startStack
    finals := insAll finals []
    trans := [] }

def tabGet (T : Table) (k : Key) : Option (List Outcome) := (T.find? (·.1 = k)).map (·.2)

def tabSet (T : Table) (k : Key) (v : List Outcome) : Table :=
  if T.any (·.1 = k) then T.map fun e => if e.1 = k then (k, v) else e else T ++ [(k, v)]

/-- `TransitionFunction.add_transition` -/
def addT (T : Table) (k : Key) (o : Outcome) : Table :=
  match tabGet T k with
  | some outs => tabSet T k (if o ∈ outs then outs else outs ++ [o])
  | none => tabSet T k [o]

inductive Op where
  | addT (q : String) (a : Option String) (x : String) (q2 : String) (push : List String)
  | setStart (q : String)
  | setStartStack (z : String)
  | addFinal (q : String)
deriving Repr

/-- one mutator call -/
def step (o : Obj) : Op → Obj
  | .addT q a x q2 push =>
    { o with states := ins q2 (ins q o.states)
             inputs := match a with | some c => ins c o.inputs | none => o.inputs
             stack := insAll push (ins x o.stack)
             trans := addT o.trans (q, a, x) (q2, push) }
  | .setStart q => { o with states := ins q o.states, start := some q }
  | .setStartStack z => { o with stack := ins z o.stack, startStack := some z }
  | .addFinal q => { o with finals := ins q o.finals, states := ins q o.states }

def run (o : Obj) (ops : List Op) : Obj := ops.foldl step o

/-- the transitions present, as the quintuples of the value model -/
def edges (T : Table) : List (String × Option String × String × String × List String) :=
  T.flatMap fun e => e.2.map fun out => (e.1.1, e.1.2.1, e.1.2.2, out.1, out.2)

/-- `get_number_transitions()` -/
def numTransitions (T : Table) : Nat := (T.map fun e => e.2.length).sum

/-- `TransitionFunction.copy()`: re-adds every transition to a new table -/
def copyT (T : Table) : Table :=
  T.foldl (fun acc e => e.2.foldl (fun acc out => addT acc e.1 out) acc) []

/-- the value the object stands for -/
def toPDA (o : Obj) : PDA String String :=
  { states := o.states, inputs := o.inputs, stack := o.stack, start := o.start,
    startStack := o.startStack, finals := o.finals, delta := edges o.trans }

/-- the transitions a history adds, as a plain set in order of first addition -/
def added : List Op → List (String × Option String × String × String × List String)
  | [] => []
  | .addT q a x q2 push :: ops => (q, a, x, q2, push) :: added ops
  | _ :: ops => added ops

end PDAObj
end Pfl
