/-
Faithful executable model of pyformlang.finite_automaton (EpsilonNFA / NFA / DFA).

Conventions (DESIGN §3.2): a Python `set`/`dict` is a `List`; the list order is the iteration
order; symbols are `Nat` codes, `none` is `Epsilon()`; states are any type with decidable
equality (`Nat` codes for inputs, subsets / pairs / `String` names for constructions).
Core Lean only (the driver executable links this file).
-/
import Pfl.Core.Closure
namespace Pfl

structure ENFA (σ : Type) where
  /-- `_states` -/
  states : List σ
  /-- `_input_symbols` (iteration order) -/
  syms   : List Nat
  /-- `_start_state` -/
  starts : List σ
  /-- `_final_states` -/
  finals : List σ
  /-- `_transition_function`: `(s_from, symbol | ε, s_to)` -/
  delta  : List (σ × Option Nat × σ)
deriving Repr

namespace ENFA
variable {σ τ κ : Type} [DecidableEq σ] [DecidableEq τ] [DecidableEq κ]

/-- `self._transition_function(q, a)` -/
def succs (A : ENFA σ) (q : σ) (a : Option Nat) : List σ :=
  A.delta.filterMap (fun t => if t.1 = q ∧ t.2.1 = a then some t.2.2 else none)

/-- what the `add_start_state / add_final_state / add_transition` API leaves behind:
states are whatever was mentioned, symbols whatever labelled a transition -/
def ofParts (starts finals : List σ) (delta : List (σ × Option Nat × σ)) : ENFA σ :=
  { states := (starts ++ finals ++ delta.flatMap (fun t => [t.1, t.2.2])).eraseDups
    syms := (delta.filterMap (·.2.1)).eraseDups
    starts := starts.eraseDups
    finals := finals.eraseDups
    delta := delta.eraseDups }

/-- `eclose(state)`: worklist over ε-edges.  Fuel `|δ|+1` always suffices (`eclose_total`). -/
def eclose (A : ENFA σ) (q : σ) : List σ :=
  (bfs (fun x => A.succs x none) (A.delta.length + 1) [q]).getD []

/-- `eclose_iterable` -/
def ecloseL (A : ENFA σ) (qs : List σ) : List σ := (qs.flatMap A.eclose).eraseDups

/-- `_get_next_states_iterable` -/
def nextL (A : ENFA σ) (qs : List σ) (a : Option Nat) : List σ :=
  (qs.flatMap (A.succs · a)).eraseDups

/-- `EpsilonNFA.accepts`: ε symbols inside the word are skipped -/
def acceptsE (A : ENFA σ) (w : List (Option Nat)) : Bool :=
  let cur := w.foldl (fun cur a => match a with
      | none => cur
      | some _ => A.ecloseL (A.nextL cur a)) (A.ecloseL A.starts)
  cur.any (· ∈ A.finals)

/-- `NondeterministicFiniteAutomaton.accepts`: no closure, no skipping -/
def acceptsN (A : ENFA σ) (w : List (Option Nat)) : Bool :=
  (w.foldl (fun cur a => A.nextL cur a) A.starts.eraseDups).any (· ∈ A.finals)

/-- `DeterministicFiniteAutomaton.accepts` -/
def acceptsD (A : ENFA σ) (w : List (Option Nat)) : Bool :=
  match w.foldl (fun cur a => cur.bind (fun q => (A.succs q a).head?)) A.starts.head? with
  | none => false
  | some q => q ∈ A.finals

/-- `remove_epsilon_transitions` -/
def removeEps (A : ENFA σ) : ENFA σ :=
  ofParts (A.starts ++ A.ecloseL A.starts)
    (A.finals ++ A.states.filter (fun q => (A.eclose q).any (· ∈ A.finals)))
    (A.states.flatMap fun q => (A.eclose q).flatMap fun e => A.syms.flatMap fun a =>
      (A.succs e (some a)).map fun r => (q, some a, r))

/-- `EpsilonNFA.copy` -/
def copyE (A : ENFA σ) : ENFA σ :=
  ofParts A.starts A.finals
    (A.states.flatMap fun q =>
      (A.syms.flatMap fun a => (A.succs q (some a)).map fun r => (q, some a, r))
        ++ (A.succs q none).map fun r => (q, none, r))

/-- `DeterministicFiniteAutomaton.copy` -/
def copyD (A : ENFA σ) : ENFA σ :=
  ofParts A.starts.head?.toList A.finals
    (A.states.flatMap fun q => A.syms.filterMap fun a =>
      (A.succs q (some a)).head?.map fun r => (q, some a, r))

/-- one subset-construction step -/
def stepSet (A : ENFA σ) (useE : Bool) (S : List σ) (a : Nat) : List σ :=
  let T := A.nextL S (some a)
  if useE then A.ecloseL T else T

def detStart (A : ENFA σ) (useE : Bool) : List σ :=
  if useE then A.ecloseL A.starts else A.starts.eraseDups

def detNext (A : ENFA σ) (useE : Bool) (S : List σ) : List (List σ) :=
  A.syms.filterMap fun a => let T := A.stepSet useE S a; if T.isEmpty then none else some T

/-- the subsets processed by `_to_deterministic_internal`; `key` is `to_single_state` -/
def detSeen (A : ENFA σ) (key : List σ → κ) (useE : Bool) (fuel : Nat) : Option (List (List σ)) :=
  bfsK key (A.detNext useE) fuel [A.detStart useE] [A.detStart useE]

/-- `_to_deterministic_internal(eclose)`; states of the result are `key`s (merged names) -/
def toDet (A : ENFA σ) (key : List σ → κ) (useE : Bool) (fuel : Nat) : Option (ENFA κ) :=
  (A.detSeen key useE fuel).map fun seen =>
    ofParts [key (A.detStart useE)]
      ((seen.filter fun S => S.any (· ∈ A.finals)).map key)
      (seen.flatMap fun S => A.syms.filterMap fun a =>
        let T := A.stepSet useE S a
        if T.isEmpty then none else some (key S, some a, key T))

def prod (xs : List σ) (ys : List τ) : List (σ × τ) := xs.flatMap fun x => ys.map fun y => (x, y)

def interSyms (A : ENFA σ) (B : ENFA τ) : List Nat := A.syms.filter (· ∈ B.syms)

def interNext (A : ENFA σ) (B : ENFA τ) (p : σ × τ) : List (σ × τ) :=
  (interSyms A B).flatMap fun a =>
    prod (A.ecloseL (A.succs p.1 (some a))) (B.ecloseL (B.succs p.2 (some a)))

/-- `get_intersection` over pairs (naming is applied afterwards by `mapStates`) -/
def inter (A : ENFA σ) (B : ENFA τ) (fuel : Nat) : Option (ENFA (σ × τ)) :=
  let seeds := prod (A.ecloseL A.starts) (B.ecloseL B.starts)
  (bfs (interNext A B) fuel seeds).map fun seen =>
    ofParts seeds (prod A.finals B.finals)
      (seen.flatMap fun p => (interSyms A B).flatMap fun a =>
        (prod (A.ecloseL (A.succs p.1 (some a))) (B.ecloseL (B.succs p.2 (some a)))).map
          fun t => (p, some a, t))

/-- rename states (`combine_state_pair`, `to_single_state` seen as functions on abstract states) -/
def mapStates (f : σ → τ) (A : ENFA σ) : ENFA τ :=
  { states := (A.states.map f).eraseDups, syms := A.syms
    starts := (A.starts.map f).eraseDups, finals := (A.finals.map f).eraseDups
    delta := (A.delta.map fun t => (f t.1, t.2.1, f t.2.2)).eraseDups }

/-- `reverse` -/
def reverse (A : ENFA σ) : ENFA σ :=
  ofParts A.finals A.starts
    (A.states.flatMap fun q =>
      (A.syms.flatMap fun a => (A.succs q (some a)).map fun r => (r, some a, q))
        ++ (A.succs q none).map fun r => (r, none, q))

/-- the flip-and-complete loop of `get_complement`, applied to `A` with `C = A.copy()`;
`trash` is `State("TrashNode")` (which may or may not already be a state of `A`) -/
def complementRaw (A C : ENFA σ) (trash : σ) : ENFA σ :=
  let extra := A.states.flatMap fun q => A.syms.filterMap fun a =>
    if ((A.eclose q).flatMap (A.succs · (some a))).isEmpty then some (q, some a, trash) else none
  { states := (C.states ++ [trash] ++ A.states).eraseDups
    syms := (C.syms ++ A.syms).eraseDups
    starts := C.starts
    finals := (((trash :: C.finals).filter fun q => ¬ (q ∈ A.states ∧ q ∈ A.finals))
                ++ A.states.filter (· ∉ A.finals)).eraseDups
    delta := (C.delta ++ extra ++ A.syms.map fun a => (trash, some a, trash)).eraseDups }

/-- `add_symbol` for each symbol -/
def addSyms (A : ENFA σ) (syms : List Nat) : ENFA σ := { A with syms := (A.syms ++ syms).eraseDups }

/-- `is_empty`: nothing final is reachable (early exit does not change the verdict) -/
def reachable (A : ENFA σ) : List σ :=
  (bfs (fun q => (A.syms.flatMap fun a => A.succs q (some a)) ++ A.succs q none)
    (A.delta.length + A.starts.length + 1) A.starts).getD []

def isEmpty (A : ENFA σ) : Bool := !(A.reachable.any (· ∈ A.finals))

/-- `NondeterministicTransitionFunction.is_deterministic` -/
def tfDeterministic (A : ENFA σ) : Bool :=
  A.delta.all fun t => (A.succs t.1 t.2.1).eraseDups.length ≤ 1

/-- `EpsilonNFA.is_deterministic` -/
def isDeterministicE (A : ENFA σ) : Bool :=
  A.starts.eraseDups.length ≤ 1 && A.tfDeterministic &&
    A.states.all fun q => (A.eclose q).all (· = q)

/-- `NondeterministicFiniteAutomaton.is_deterministic` -/
def isDeterministicN (A : ENFA σ) : Bool :=
  A.starts.eraseDups.length ≤ 1 && A.tfDeterministic

/-- out-edges followed by `is_acyclic` -/
def outs (A : ENFA σ) (q : σ) : List σ :=
  (A.syms.flatMap fun a => A.succs q (some a)) ++ A.succs q none

/-- `is_acyclic`: explicit stack of `(state, visited)`; `none` = out of fuel -/
def acyclicLoop (A : ENFA σ) : Nat → List (σ × List σ) → Option Bool
  | _, [] => some true
  | 0, _ :: _ => none
  | fuel+1, (q, vis) :: rest =>
      if q ∈ vis then some false
      else acyclicLoop A fuel ((A.outs q).reverse.map (fun r => (r, q :: vis)) ++ rest)

def isAcyclic (A : ENFA σ) (fuel : Nat) : Option Bool :=
  acyclicLoop A fuel (A.starts.reverse.map fun q => (q, []))

/-- all out-edges, as `get_transitions_from` lists them (every symbol, incl. ε) -/
def edgesFrom (A : ENFA σ) (q : σ) : List (Option Nat × σ) :=
  A.delta.filterMap fun t => if t.1 = q then some (t.2.1, t.2.2) else none

/-- `_get_states_leading_to_final` after the repair: backward reachability from the finals -/
def leadingToFinal (A : ENFA σ) : List σ :=
  (bfs (fun q => A.delta.filterMap fun t => if t.2.2 = q then some t.1 else none)
    (A.delta.length + A.finals.length + 1) A.finals).getD []

/-- `get_accepted_words(max_length)`: the queue loop.  `wbs` are the per-state word sets,
`out` the yielded words (most recent first). -/
def wordsLoop (A : ENFA σ) (lead : List σ) (maxLen : Option Nat) :
    Nat → List (σ × List Nat) → List (σ × List Nat) → List (List Nat) → Option (List (List Nat))
  | _, [], _, out => some out.reverse
  | 0, _ :: _, _, _ => none
  | fuel+1, (q, w) :: queue, wbs, out =>
      if (match maxLen with | some n => decide (w.length > n) | none => false) then
        wordsLoop A lead maxLen fuel queue wbs out
      else if (q, w) ∈ wbs then wordsLoop A lead maxLen fuel queue wbs out
      else
        let new := (A.edgesFrom q).filterMap fun e =>
          if e.2 ∈ lead then some (e.2, match e.1 with | some a => w ++ [a] | none => w) else none
        let out' := if q ∈ A.finals ∧ w ∉ out then w :: out else out
        wordsLoop A lead maxLen fuel (queue ++ new) ((q, w) :: wbs) out'

def acceptedWords (A : ENFA σ) (maxLen : Option Nat) (fuel : Nat) : Option (List (List Nat)) :=
  wordsLoop A A.leadingToFinal maxLen fuel (A.starts.map fun q => (q, [])) [] []

end ENFA
end Pfl
