/-
Model of DeterministicFiniteAutomaton.minimize / is_equivalent_to.

Hopcroft's refinement loop itself is not re-implemented here: `minimizeOf` takes the partition
(the groups returned by `_get_partition().get_groups()`, `none` being the implicit trash state)
as an argument.  The harness checks on every case that the implementation's partition is the
Nerode partition computed by the verified oracle `nerodeGroups` (trace-level tie), and the model
of `minimize` is `minimizeOf` applied to that partition.
-/
import Pfl.Model.FA
import Pfl.Oracle.LangEquiv
namespace Pfl
namespace ENFA
variable {σ τ κ : Type} [DecidableEq σ] [DecidableEq τ] [DecidableEq κ]

/-- `to_new_states[q]`: the name of the group containing `q` -/
def groupKey (groups : List (List (Option σ))) (key : List (Option σ) → κ) (q : σ) : Option κ :=
  (groups.find? fun g => some q ∈ g).map key

/-- `minimize()` (after the repair that also drops states that cannot reach a final state);
`emptyKey` is `State("Empty")` -/
def minimizeOf (A : ENFA σ) (groups : List (List (Option σ))) (key : List (Option σ) → κ)
    (emptyKey : κ) : ENFA κ :=
  if A.starts.isEmpty || A.finals.isEmpty then ofParts [emptyKey] [] [] else
  let live := A.states.filter fun q => q ∈ A.reachable ∧ q ∈ A.leadingToFinal
  if !(A.starts.any (· ∈ live)) then ofParts [emptyKey] [] [] else
  let nm := groupKey groups key
  ofParts (A.starts.filterMap nm) ((live.filter (· ∈ A.finals)).filterMap nm)
    (live.flatMap fun q => A.syms.flatMap fun a => (A.succs q (some a)).filterMap fun r =>
      if r ∈ live then
        match nm q, nm r with
        | some kq, some kr => some (kq, some a, kr)
        | _, _ => none
      else none)

/-- insertion sort of out-edges by symbol (Python: `sorted(..., key=lambda x: x[0].value)`) -/
def insertEdge (e : Nat × σ) : List (Nat × σ) → List (Nat × σ)
  | [] => [e]
  | f :: fs => if e.1 < f.1 then e :: f :: fs else f :: insertEdge e fs

def sortEdges (l : List (Nat × σ)) : List (Nat × σ) := l.foldr insertEdge []

/-- `dfa(state)`: the out-edges of a DFA state, sorted by symbol -/
def outEdges (M : ENFA σ) (q : σ) : List (Nat × σ) :=
  sortEdges (M.delta.filterMap fun t => if t.1 = q then t.2.1.map (fun a => (a, t.2.2)) else none).eraseDups

/-- the `for next_temp, other_temp in zip(...)` loop of `_is_equivalent_to_minimal`;
`none` = a mismatch was found -/
def walkZip : List ((Nat × σ) × (Nat × τ)) → List (σ × τ) → List (σ × τ) →
    Option (List (σ × τ) × List (σ × τ))
  | [], todo, m => some (todo, m)
  | ((a, p), (b, q)) :: rest, todo, m =>
      if a ≠ b then none else
      match m.find? (fun x => x.1 = p) with
      | some x => if x.2 = q then walkZip rest todo m else none
      | none => walkZip rest ((p, q) :: todo) ((p, q) :: m)

/-- `_is_equivalent_to_minimal`: lock-step walk over the two minimised automata -/
def isoWalkLoop (M1 : ENFA σ) (M2 : ENFA τ) : Nat → List (σ × τ) → List (σ × τ) → Option Bool
  | _, [], _ => some true
  | 0, _ :: _, _ => none
  | fuel+1, (p, q) :: todo, m =>
      if (decide (p ∈ M1.finals)) != (decide (q ∈ M2.finals)) then some false else
      let e1 := M1.outEdges p
      let e2 := M2.outEdges q
      if e1.length ≠ e2.length then some false else
      match walkZip (e1.zip e2) todo m with
      | none => some false
      | some (todo', m') => isoWalkLoop M1 M2 fuel todo' m'

def isoWalk (M1 : ENFA σ) (M2 : ENFA τ) (fuel : Nat) : Option Bool :=
  match M1.starts.head?, M2.starts.head? with
  | some s1, some s2 => isoWalkLoop M1 M2 fuel [(s1, s2)] [(s1, s2)]
  | _, _ => none

/-! ### oracle: the Nerode partition, by the verified language-equivalence decision -/

def withStart (A : ENFA σ) (p : Option σ) : ENFA σ := { A with starts := p.toList }

/-- `p` and `q` have the same right language (`none` = trash: the empty language) -/
def sameRight (A : ENFA σ) (fuel : Nat) (p q : Option σ) : Option Bool :=
  ((A.withStart p).langDiff (A.withStart q) fuel).map (·.isNone)

def insertGroup (A : ENFA σ) (fuel : Nat) (x : Option σ) :
    List (List (Option σ)) → Option (List (List (Option σ)))
  | [] => some [[x]]
  | [] :: gs => (insertGroup A fuel x gs).map ([] :: ·)
  | (r :: g) :: gs =>
      match A.sameRight fuel r x with
      | none => none
      | some true => some ((r :: g ++ [x]) :: gs)
      | some false => (insertGroup A fuel x gs).map ((r :: g) :: ·)

/-- groups of `none :: states` under "same right language" -/
def nerodeGroups (A : ENFA σ) (fuel : Nat) : Option (List (List (Option σ))) :=
  (none :: A.states.eraseDups.map some).foldlM (fun gs x => insertGroup A fuel x gs) []

/-- all states reachable and pairwise distinguishable -/
def isReduced (M : ENFA σ) (fuel : Nat) : Option Bool :=
  let sts := M.states.eraseDups
  if !(sts.all fun q => q ∈ M.reachable) then some false else
  (sts.flatMap fun p => sts.filterMap fun q => if p = q then none else some (p, q)).foldlM
    (fun acc pq => (M.sameRight fuel (some pq.1) (some pq.2)).map fun same => acc && !same) true

/-! ### oracle: isomorphism of two deterministic automata -/

/-- pairs of states reached by a common word -/
def isoPairs (M1 : ENFA σ) (M2 : ENFA τ) (fuel : Nat) : Option (List (σ × τ)) :=
  match M1.starts.head?, M2.starts.head? with
  | some s1, some s2 =>
    bfs (fun pq => (M1.syms ++ M2.syms).filterMap fun a =>
      match (M1.succs pq.1 (some a)).head?, (M2.succs pq.2 (some a)).head? with
      | some p', some q' => some (p', q')
      | _, _ => none) fuel [(s1, s2)]
  | _, _ => none

/-- `m` is (the graph of) an isomorphism: a bijection on states that respects start states,
final states and transitions -/
def checkIso (M1 : ENFA σ) (M2 : ENFA τ) (m : List (σ × τ)) : Bool :=
  (M1.states.all fun p => (m.filter (·.1 = p)).eraseDups.length = 1) &&
  (M2.states.all fun q => (m.filter (·.2 = q)).eraseDups.length = 1) &&
  (m.all fun pq => pq.1 ∈ M1.states ∧ pq.2 ∈ M2.states) &&
  (m.all fun pq => decide (pq.1 ∈ M1.starts) == decide (pq.2 ∈ M2.starts)) &&
  (m.all fun pq => decide (pq.1 ∈ M1.finals) == decide (pq.2 ∈ M2.finals)) &&
  (m.all fun pq => m.all fun pq' => (M1.syms ++ M2.syms).all fun a =>
     decide ((pq.1, some a, pq'.1) ∈ M1.delta) == decide ((pq.2, some a, pq'.2) ∈ M2.delta))

end ENFA
end Pfl
