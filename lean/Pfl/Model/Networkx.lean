/-
Model of `to_networkx` / `from_networkx` of finite automata, PDAs and transducers.

The graph container (`networkx.MultiDiGraph`) is modelled by what the two functions use of it: nodes in
insertion order with the attributes `from_networkx` reads (a key that was never set is `none`), `add_node`
on an existing node updating only the keys given, `add_edge` creating missing endpoints, parallel edges
kept, edge attribute `label` present or absent.  Values are Python ints and strings (`Val`); `str(value)`
is `Val.pyStr`.  `json.dumps` / `json.loads` are parameters (`Json`); the labels of PDA and FST edges are
assembled and split textually (`Pfl/Model/LabelCodec.lean`).  The result of an import is a set of states,
markings and transitions: lists here, compared as sets.  Core Lean only.
-/
import Pfl.Model.LabelCodec
namespace Pfl
namespace Nx

inductive Val where
  | int (n : Int)
  | str (s : String)
deriving DecidableEq, Repr, Inhabited

/-- `str(value)` -/
def Val.pyStr : Val → String
  | .int n => toString n
  | .str s => s

/-- node attributes read by `from_networkx`; `none` = the key is absent -/
structure Attrs where
  isStart : Option Bool := none
  isFinal : Option Bool := none
  label : Option Val := none               -- a state node carries `label=state.value`; a text is a `.str`
  initialStack : Option (List Char) := none  -- `initial_stack`: JSON text of the start stack symbol (hidden node only)
deriving DecidableEq, Repr

/-- `dict.update`: keys given override, other keys stay -/
def Attrs.update (old new : Attrs) : Attrs :=
  { isStart := new.isStart.orElse fun _ => old.isStart
    isFinal := new.isFinal.orElse fun _ => old.isFinal
    label := new.label.orElse fun _ => old.label
    initialStack := new.initialStack.orElse fun _ => old.initialStack }

structure Graph (L : Type) where
  nodes : List (Val × Attrs) := []
  /-- `(u, v, label)`; `none` = no `label` key on the edge -/
  edges : List (Val × Val × Option L) := []

namespace Graph
variable {L : Type}

def hasNode (g : Graph L) (n : Val) : Bool := g.nodes.any (·.1 = n)

/-- `graph.add_node(n, **attrs)` -/
def addNode (g : Graph L) (n : Val) (a : Attrs) : Graph L :=
  if g.hasNode n then { g with nodes := g.nodes.map fun e => if e.1 = n then (e.1, e.2.update a) else e }
  else { g with nodes := g.nodes ++ [(n, a)] }

/-- `graph.add_edge(u, v[, label=l])` -/
def addEdge (g : Graph L) (u v : Val) (l : Option L) : Graph L :=
  let g1 := if g.hasNode u then g else { g with nodes := g.nodes ++ [(u, {})] }
  let g2 := if g1.hasNode v then g1 else { g1 with nodes := g1.nodes ++ [(v, {})] }
  { g2 with edges := g2.edges ++ [(u, v, l)] }

def attrs (g : Graph L) (n : Val) : Attrs := ((g.nodes.find? (·.1 = n)).map (·.2)).getD {}

end Graph

/-- the decoration node of a start state: `"starting_" + str(state.value)` -/
def marker (v : Val) : Val := .str ("starting_" ++ v.pyStr)

/-- `add_start_state_to_graph` -/
def addMarker {L : Type} (g : Graph L) (v : Val) : Graph L :=
  (g.addNode (marker v) { label := some (.str "") }).addEdge (marker v) v none

/-! ### finite automata -/

structure FA where
  states : List Val
  starts : List Val
  finals : List Val
  /-- `(s_from, symbol | ε, s_to)`; symbol values are arbitrary values -/
  delta : List (Val × Option Val × Val)
deriving Repr

/-- `to_symbol`: the spellings read as ε -/
def isEps (v : Val) : Bool := v = .str "epsilon" || v = .str "ɛ"

/-- `FiniteAutomaton.to_networkx` -/
def FA.toNetworkx (A : FA) : Graph Val :=
  let g := A.states.foldl (fun (g : Graph Val) q =>
    let g1 := g.addNode q { isStart := some (decide (q ∈ A.starts)), isFinal := some (decide (q ∈ A.finals)), label := some q }
    if q ∈ A.starts then addMarker g1 q else g1) {}
  A.delta.foldl (fun g t => g.addEdge t.1 t.2.2 (some (match t.2.1 with | none => .str "ɛ" | some a => a))) g

/-- `FiniteAutomaton.from_networkx` (after the repair that keeps states no transition uses) -/
def FA.fromNetworkx (g : Graph Val) : FA :=
  let labelled := g.edges.filterMap fun e => e.2.2.map fun l => (e.1, (if isEps l then none else some l), e.2.1)
  let fromEdges := labelled.flatMap fun t => [t.1, t.2.2]
  let stateNodes := (g.nodes.filter fun n => n.2.isFinal.isSome).map (·.1)
  let starts := (g.nodes.filter fun n => n.2.isStart.getD false).map (·.1)
  let finals := (g.nodes.filter fun n => n.2.isFinal.getD false).map (·.1)
  { states := fromEdges ++ stateNodes ++ starts ++ finals, starts := starts, finals := finals, delta := labelled }

/-! ### `json.dumps` / `json.loads` as parameters -/

structure Json where
  dumps : Val → List Char
  loads : List Char → Option Val
  dumpsL : List Val → List Char
  loadsL : List Char → Option (List Val)

/-! ### pushdown automata -/

structure PDA where
  states : List Val
  start : Option Val
  startStack : Option Val
  finals : List Val
  /-- `(s_from, input, stack_from, s_to, stack_to)`; the input ε is the value "epsilon" -/
  delta : List (Val × Val × Val × Val × List Val)
deriving Repr

def hiddenStack : Val := .str "INITIAL_STACK_HIDDEN"

/-- `PDA.to_networkx` -/
def PDA.toNetworkx (J : Json) (P : PDA) : Graph (List Char) :=
  let g := P.states.foldl (fun (g : Graph (List Char)) q =>
    let g1 := g.addNode q { isStart := some (decide (some q = P.start)), isFinal := some (decide (q ∈ P.finals)), label := some q }
    if some q = P.start then addMarker g1 q else g1) {}
  let g := match P.startStack with
    | some z => g.addNode hiddenStack { label := some (.str (String.ofList (J.dumps z))), initialStack := some (J.dumps z) }
    | none => g
  P.delta.foldl (fun g t =>
    g.addEdge t.1 t.2.2.2.1 (some (LabelCodec.pdaLabel (J.dumps t.2.1) (J.dumps t.2.2.1) (J.dumpsL t.2.2.2.2)))) g

/-- one labelled edge of `PDA.from_networkx`; `none` = the label does not split in two / is not JSON (ValueError) -/
def PDA.readEdge (J : Json) (u v : Val) (l : List Char) : Option (Val × Val × Val × Val × List Val) :=
  match LabelCodec.readPdaLabel l with
  | none => none
  | some (i, f, t) =>
    match J.loads i, J.loads f, J.loadsL t with
    | some i, some f, some t => some (u, i, f, v, t)
    | _, _, _ => none

def allSome {α : Type} : List (Option α) → Option (List α)
  | [] => some []
  | none :: _ => none
  | some a :: rest => (allSome rest).map (a :: ·)

/-- `PDA.from_networkx` (after the repairs: no node is skipped because of its name; a node carrying `is_final`
is a state; the start stack symbol is read from the attribute `initial_stack` of the hidden node).  `set_start_state` is called for every node marked as start: the last one stays. -/
def PDA.fromNetworkx (J : Json) (g : Graph (List Char)) : Option PDA :=
  match allSome (g.edges.filterMap fun e => e.2.2.map fun l => PDA.readEdge J e.1 e.2.1 l) with
  | none => none
  | some ts =>
    let stateNodes := (g.nodes.filter fun n => n.2.isFinal.isSome).map (·.1)
    let starts := (g.nodes.filter fun n => n.2.isStart.getD false).map (·.1)
    let finals := (g.nodes.filter fun n => n.2.isFinal.getD false).map (·.1)
    let stack : Option (Option Val) :=
      if g.hasNode hiddenStack then
        match (g.attrs hiddenStack).initialStack with
        | some txt => (J.loads txt).map some                   -- `none` = not JSON (ValueError)
        | none =>
          -- a graph written before the attribute existed: the label of the decoration node; a node that
          -- carries `is_final` is a state called INITIAL_STACK_HIDDEN, not the decoration
          if (g.attrs hiddenStack).isFinal.isSome then some none else
          match (g.attrs hiddenStack).label with
          | some (.str txt) => (J.loads txt.toList).map some
          | some (.int _) => none                              -- TypeError
          | none => none                                       -- KeyError 'label'
      else some none
    stack.map fun z =>
      { states := (ts.flatMap fun t => [t.1, t.2.2.2.1]) ++ stateNodes ++ starts
        start := starts.getLast?
        startStack := z
        finals := finals
        delta := ts }

/-! ### transducers -/

structure FST where
  states : List Val
  starts : List Val
  finals : List Val
  /-- `(s_from, input, s_to, output word)` -/
  delta : List (Val × Val × Val × List Val)
deriving Repr

/-- `FST.to_networkx` -/
def FST.toNetworkx (J : Json) (T : FST) : Graph (List Char) :=
  let g := T.states.foldl (fun (g : Graph (List Char)) q =>
    let g1 := g.addNode q { isStart := some (decide (q ∈ T.starts)), isFinal := some (decide (q ∈ T.finals)), label := some q }
    if q ∈ T.starts then addMarker g1 q else g1) {}
  T.delta.foldl (fun g t =>
    g.addEdge t.1 t.2.2.1 (some (LabelCodec.fstLabel (J.dumps t.2.1) (J.dumpsL t.2.2.2)))) g

def FST.readEdge (J : Json) (u v : Val) (l : List Char) : Option (Val × Val × Val × List Val) :=
  match LabelCodec.readFstLabel l with
  | none => none
  | some (i, o) =>
    match J.loads i, J.loadsL o with
    | some i, some o => some (u, i, v, o)
    | _, _ => none

/-- `FST.from_networkx` -/
def FST.fromNetworkx (J : Json) (g : Graph (List Char)) : Option FST :=
  match allSome (g.edges.filterMap fun e => e.2.2.map fun l => FST.readEdge J e.1 e.2.1 l) with
  | none => none
  | some ts =>
    let starts := (g.nodes.filter fun n => n.2.isStart.getD false).map (·.1)
    let finals := (g.nodes.filter fun n => n.2.isFinal.getD false).map (·.1)
    some { states := (ts.flatMap fun t => [t.1, t.2.2.1]) ++ starts ++ finals
           starts := starts, finals := finals, delta := ts }

end Nx
end Pfl
