/-
Model of a finite-automaton *object* that is edited through the public API (C19): the fields
`_states`, `_input_symbols`, `_start_state`, `_final_states` and the transition table
`_transition_function._transitions` — a dict of dicts, in insertion order, of

* sets of target states for `NondeterministicTransitionFunction` (EpsilonNFA / NFA), where
  `remove_transition` removes the target from its set and leaves the — possibly empty — entry behind;
* single target states for `TransitionFunction` (DFA), where `add_transition` refuses ε and a second
  target (`InvalidEpsilonTransition`, `DuplicateTransitionError`, raised before the states are
  registered) and `remove_transition` deletes the key.

The mutators follow `finite_automaton.py`, `nondeterministic_transition_function.py`,
`transition_function.py` and the two overrides of `DeterministicFiniteAutomaton`.  `toENFA` reads
the object as the value (`Pfl.ENFA`) that the models of C01–C04 work on.  Core Lean only.
-/
import Pfl.Model.FA
namespace Pfl
namespace FAObj

/-- `_transitions`: state ↦ (symbol ↦ targets), dict insertion order; a DFA entry has one target -/
abbrev Table := List (Nat × List (Option Nat × List Nat))

structure Obj where
  /-- `DeterministicFiniteAutomaton` (deterministic table, one start state) or not -/
  det    : Bool
  states : List Nat
  syms   : List Nat
  starts : List Nat
  finals : List Nat
  trans  : Table
deriving Repr

/-- a fresh object -/
def new (det : Bool) : Obj := ⟨det, [], [], [], [], []⟩

/-- the constructor called with sets of states, symbols, start and final states (no transition
function): start and final states are registered as states; a `DeterministicFiniteAutomaton` takes at
most one start state -/
def mk (det : Bool) (states syms starts finals : List Nat) : Obj :=
  let starts' := if det then starts.take 1 else starts.eraseDups
  ⟨det, (states ++ finals ++ starts').eraseDups, syms.eraseDups, starts', finals.eraseDups, []⟩

/-- `set.add` -/
def ins (x : Nat) (l : List Nat) : List Nat := if x ∈ l then l else l ++ [x]

/-! ### the inner dict of one state -/

def rowGet (row : List (Option Nat × List Nat)) (a : Option Nat) : Option (List Nat) :=
  (row.find? (·.1 = a)).map (·.2)

/-- `row[a] = ts` (an existing key keeps its place) -/
def rowSet (row : List (Option Nat × List Nat)) (a : Option Nat) (ts : List Nat) :
    List (Option Nat × List Nat) :=
  if row.any (·.1 = a) then row.map fun e => if e.1 = a then (a, ts) else e else row ++ [(a, ts)]

def tabGet (T : Table) (q : Nat) : Option (List (Option Nat × List Nat)) :=
  (T.find? (·.1 = q)).map (·.2)

def tabSet (T : Table) (q : Nat) (row : List (Option Nat × List Nat)) : Table :=
  if T.any (·.1 = q) then T.map fun e => if e.1 = q then (q, row) else e else T ++ [(q, row)]

/-- `self._transitions[q][a]` when both keys exist -/
def lookup (T : Table) (q : Nat) (a : Option Nat) : Option (List Nat) :=
  match tabGet T q with
  | none => none
  | some row => rowGet row a

/-- `NondeterministicTransitionFunction.add_transition` -/
def addN (T : Table) (q : Nat) (a : Option Nat) (r : Nat) : Table :=
  match tabGet T q with
  | some row =>
    match rowGet row a with
    | some ts => tabSet T q (rowSet row a (ins r ts))
    | none => tabSet T q (rowSet row a [r])
  | none => tabSet T q [(a, [r])]

/-- `NondeterministicTransitionFunction.remove_transition`: the entry stays, possibly empty -/
def remN (T : Table) (q : Nat) (a : Option Nat) (r : Nat) : Table × Nat :=
  match tabGet T q with
  | some row =>
    match rowGet row a with
    | some ts => if r ∈ ts then (tabSet T q (rowSet row a (ts.erase r)), 1) else (T, 0)
    | none => (T, 0)
  | none => (T, 0)

inductive Err where
  | epsilon      -- InvalidEpsilonTransition
  | duplicate    -- DuplicateTransitionError
deriving DecidableEq, Repr

/-- `TransitionFunction.add_transition` -/
def addD (T : Table) (q : Nat) (a : Option Nat) (r : Nat) : Except Err Table :=
  if a = none then .error .epsilon else
  match tabGet T q with
  | some row =>
    match rowGet row a with
    | some ts => if ts = [r] then .ok T else .error .duplicate
    | none => .ok (tabSet T q (rowSet row a [r]))
  | none => .ok (tabSet T q [(a, [r])])

/-- `TransitionFunction.remove_transition`: `del self._transitions[q][a]` -/
def remD (T : Table) (q : Nat) (a : Option Nat) (r : Nat) : Table × Nat :=
  match tabGet T q with
  | some row =>
    match rowGet row a with
    | some ts => if ts = [r] then (tabSet T q (row.filter fun e => !(e.1 = a)), 1) else (T, 0)
    | none => (T, 0)
  | none => (T, 0)

/-- the public mutators -/
inductive Op where
  | addT (q : Nat) (a : Option Nat) (r : Nat)
  | remT (q : Nat) (a : Option Nat) (r : Nat)
  | addStart (q : Nat)
  | remStart (q : Nat)
  | addFinal (q : Nat)
  | remFinal (q : Nat)
  | addSym (a : Nat)
deriving Repr

/-- one mutator call: the object afterwards and the returned integer, or the exception (object
unchanged) -/
def step (o : Obj) : Op → Except Err (Obj × Nat)
  | .addT q a r =>
    if o.det then
      match addD o.trans q a r with
      | .error e => .error e
      | .ok T => .ok ({ o with trans := T, states := ins r (ins q o.states),
                               syms := match a with | some s => ins s o.syms | none => o.syms }, 1)
    else
      .ok ({ o with trans := addN o.trans q a r, states := ins r (ins q o.states),
                    syms := match a with | some s => ins s o.syms | none => o.syms }, 1)
  | .remT q a r =>
    let (T, n) := if o.det then remD o.trans q a r else remN o.trans q a r
    .ok ({ o with trans := T }, n)
  | .addStart q =>
    if o.det then .ok ({ o with starts := [q], states := ins q o.states }, 1)
    else .ok ({ o with starts := ins q o.starts, states := ins q o.states }, 1)
  | .remStart q =>
    if o.det then (if o.starts = [q] then .ok ({ o with starts := [] }, 1) else .ok (o, 0))
    else if q ∈ o.starts then .ok ({ o with starts := o.starts.erase q }, 1) else .ok (o, 0)
  | .addFinal q => .ok ({ o with finals := ins q o.finals, states := ins q o.states }, 1)
  | .remFinal q => if q ∈ o.finals then .ok ({ o with finals := o.finals.erase q }, 1) else .ok (o, 0)
  | .addSym a => .ok ({ o with syms := ins a o.syms }, 0)

/-- a history of mutator calls; a call that raises leaves the object as it was -/
def run (o : Obj) : List Op → Obj
  | [] => o
  | op :: ops =>
    match step o op with
    | .ok (o', _) => run o' ops
    | .error _ => run o ops

/-! ### queries on the table -/

/-- `get_edges()` -/
def edges (T : Table) : List (Nat × Option Nat × Nat) :=
  T.flatMap fun e => e.2.flatMap fun f => f.2.map fun r => (e.1, f.1, r)

/-- `get_number_transitions()` -/
def numTransitions (T : Table) : Nat := (T.map fun e => (e.2.map fun f => f.2.length).sum).sum

/-- `NondeterministicTransitionFunction.is_deterministic()` -/
def tfDeterministic (T : Table) : Bool := T.all fun e => e.2.all fun f => decide (f.2.length ≤ 1)

/-- `self._transition_function(q, a)` -/
def call (T : Table) (q : Nat) (a : Option Nat) : List Nat := (lookup T q a).getD []

/-- the constructor called with a transition function that was filled beforehand: its states and
symbols are registered as `add_transition` would have done (since the repair; before it they were
not, and every method that iterates `_input_symbols` or `_states` ignored the transitions) -/
def mkT (det : Bool) (states syms starts finals : List Nat) (T : Table) : Obj :=
  let o := mk det states syms starts finals
  { o with trans := T
           states := (o.states ++ (edges T).flatMap fun t => [t.1, t.2.2]).eraseDups
           syms := (o.syms ++ (edges T).filterMap (·.2.1)).eraseDups }

/-- the value the object stands for -/
def toENFA (o : Obj) : ENFA Nat :=
  { states := o.states, syms := o.syms, starts := o.starts, finals := o.finals, delta := edges o.trans }

/-! ### the specification side: the same history on plain sets of transitions -/

structure Abs where
  states : List Nat
  syms   : List Nat
  starts : List Nat
  finals : List Nat
  delta  : List (Nat × Option Nat × Nat)
deriving Repr

def insT (t : Nat × Option Nat × Nat) (l : List (Nat × Option Nat × Nat)) :=
  if t ∈ l then l else l ++ [t]

/-- what a mutator means on the value: plain set insertion / removal; a deterministic automaton
refuses ε and a second target -/
def absStep (det : Bool) (s : Abs) : Op → Abs
  | .addT q a r =>
    if det && (a = none || s.delta.any fun t => t.1 = q ∧ t.2.1 = a ∧ t.2.2 ≠ r) then s
    else { s with delta := insT (q, a, r) s.delta, states := ins r (ins q s.states),
                  syms := match a with | some x => ins x s.syms | none => s.syms }
  | .remT q a r => { s with delta := s.delta.erase (q, a, r) }
  | .addStart q =>
    if det then { s with starts := [q], states := ins q s.states }
    else { s with starts := ins q s.starts, states := ins q s.states }
  | .remStart q =>
    if det then (if s.starts = [q] then { s with starts := [] } else s)
    else { s with starts := s.starts.erase q }
  | .addFinal q => { s with finals := ins q s.finals, states := ins q s.states }
  | .remFinal q => { s with finals := s.finals.erase q }
  | .addSym a => { s with syms := ins a s.syms }

def absRun (det : Bool) (s : Abs) (ops : List Op) : Abs := ops.foldl (absStep det) s

def absNew : Abs := ⟨[], [], [], [], []⟩

end FAObj
end Pfl
