/-
A `pyformlang.cfg.CFG` *object* as a state machine: the immutable grammar plus the hidden mutable
state that survives a call - `_remaining_lists` / `_impacts` / `_added_impacts` (built once, counters
decremented and restored in place by every run), `_generating_symbols`, `_nullable_symbols` and
`_normal_form`.  One `Op` per public method that reads or fills one of these caches; `step` follows
the method bodies: which cache is consulted first, which other methods are called (and so which
caches get filled as a side effect), what is stored.  Core Lean only.
-/
import Pfl.Model.CFGCounters
namespace Pfl
namespace CFG
namespace Obj

/-- the hidden state of a `CFG` object; a fresh object has every field `None` -/
structure State where
  tables : Option (Remaining × Impacts × List String) := none
  gen : Option (List Sym) := none
  nul : Option (List Sym) := none
  nf : Option CFG := none

/-- public methods that touch the hidden state -/
inductive Op where
  | generating                       -- get_generating_symbols
  | nullable                         -- get_nullable_symbols
  | isEmpty                          -- is_empty
  | generateEpsilon                  -- generate_epsilon
  | removeUseless                    -- remove_useless_symbols
  | removeEpsilon                    -- remove_epsilon
  | normalForm                       -- to_normal_form
  | contains (w : List String)       -- contains
  | getWords (maxLen : Option Nat)   -- list(get_words(n))
  | isFinite                         -- is_finite

inductive Out where
  | syms (l : List Sym)
  | bool (b : Bool)
  | cfg (g : CFG)
  | words (l : List (List String))

/-- `_set_impacts_and_remaining_lists`: builds the tables unless they are cached -/
def ensureTables (g : CFG) (s : State) : State × (Remaining × Impacts × List String) :=
  match s.tables with
  | some t => (s, t)
  | none => ({ s with tables := some g.buildTables }, g.buildTables)

/-- `_get_generating_or_nullable(nullable)` on the object: runs on the cached tables and leaves the
tables the run leaves -/
def runCounters (g : CFG) (nullable : Bool) (fuel : Nat) (s : State) : Option (State × List Sym) :=
  let (s1, (rem, imp, added)) := ensureTables g s
  match g.genCounters nullable rem imp added fuel with
  | none => none
  | some (found, rem') => some ({ s1 with tables := some (rem', imp, added) }, found)

/-- `get_generating_symbols` -/
def getGenerating (g : CFG) (fuel : Nat) (s : State) : Option (State × List Sym) :=
  match s.gen with
  | some l => some (s, l)
  | none =>
    match runCounters g false fuel s with
    | none => none
    | some (s1, l) => some ({ s1 with gen := some l }, l)

/-- `get_nullable_symbols` -/
def getNullable (g : CFG) (fuel : Nat) (s : State) : Option (State × List Sym) :=
  match s.nul with
  | some l => some (s, l)
  | none =>
    match runCounters g true fuel s with
    | none => none
    | some (s1, l) => some ({ s1 with nul := some l }, l)

/-- `to_normal_form`: the cached grammar, else nullable and generating symbols are asked for (which
fills their caches), the normal form is computed and stored -/
def getNormalForm (g : CFG) (fuel : Nat) (s : State) : Option (State × CFG) :=
  match s.nf with
  | some n => some (s, n)
  | none =>
    match getNullable g fuel s with
    | none => none
    | some (s1, _) =>
      match getGenerating g fuel s1 with
      | none => none
      | some (s2, _) =>
        match g.toNormalForm fuel with
        | none => none
        | some n => some ({ s2 with nf := some n }, n)

def step (g : CFG) (fuel : Nat) (s : State) : Op → Option (State × Out)
  | .generating => (getGenerating g fuel s).map fun r => (r.1, .syms r.2)
  | .nullable => (getNullable g fuel s).map fun r => (r.1, .syms r.2)
  | .isEmpty => (getGenerating g fuel s).map fun r =>
      (r.1, .bool (match g.start with | none => true | some st => decide (Sym.var st ∉ r.2)))
  | .generateEpsilon => some ((ensureTables g s).1, .bool g.generateEpsilon)
  | .removeUseless => (getGenerating g fuel s).map fun r => (r.1, .cfg g.removeUseless)
  | .removeEpsilon => (getNullable g fuel s).map fun r => (r.1, .cfg g.removeEpsilon)
  | .normalForm => (getNormalForm g fuel s).map fun r => (r.1, .cfg r.2)
  | .contains w =>
      if w.isEmpty then some ((ensureTables g s).1, .bool g.generateEpsilon)
      else (getNormalForm g fuel s).map fun r => (r.1, .bool (cyk r.2 w))
  | .getWords maxLen =>
      match getNullable g fuel s with
      | none => none
      | some (s1, _) =>
        if maxLen = some 0 then (g.getWords maxLen fuel).map fun ws => (s1, .words ws)   -- returns before `to_normal_form`
        else
        match getNormalForm g fuel s1 with
        | none => none
        | some (s2, _) => (g.getWords maxLen fuel).map fun ws => (s2, .words ws)
  | .isFinite =>
      match getNormalForm g fuel s with
      | none => none
      | some (s1, _) => (g.isFinite fuel).map fun b => (s1, .bool b)

/-- a history of calls on one object -/
def run (g : CFG) (fuel : Nat) : State → List Op → Option (State × List Out)
  | s, [] => some (s, [])
  | s, op :: ops =>
    match step g fuel s op with
    | none => none
    | some (s1, o) =>
      match run g fuel s1 ops with
      | none => none
      | some (s2, os) => some (s2, o :: os)

end Obj
end CFG
end Pfl
