/-
Faithful model of the Earley recogniser of pyformlang.fcfg.FCFG (`_get_final_state`,
`__predictor`, `_scanner`, `_completer`, `StateProcessed`) over the pointer-level model of
feature structures (`Pfl/Model/FeatureDag.lean`): one global store of objects, `copy` with its
memo, `subsumes`, destructive `unify` on copies.  Chart columns are stacks (`pop()` takes the
last element), `processed[i]` is an insertion-ordered dict keyed by `(production, positions)`.
Every `generator(i)` the library iterates while adding states is a snapshot (`list(...)`), as here.
Core Lean only.
-/
import Pfl.Model.FeatureDag
import Pfl.Model.CFG
namespace Pfl
namespace Earley
open FsDag

structure FProd where
  head : String
  body : List Sym
  /-- the object `production.features`: a record with "head", "0", "1", … -/
  feats : Nat
deriving Repr

structure EState where
  prod : Nat          -- index into the production list (`prods.length` = the dummy Gamma rule)
  b : Nat
  e : Nat
  dot : Nat
  fs : Nat
deriving Repr, DecidableEq

/-- `(production, positions)`: since the repair of `FeatureProduction.__eq__` two rules are the same
key only when they are the same rule (same feature objects), i.e. the same index here -/
abbrev Key := Nat × Nat × Nat × Nat

/-- `copy(already_copied)`: deep copy preserving sharing; returns the store, the memo and the copy -/
def copyF : Nat → Store → List (Nat × Nat) → Nat → Store × List (Nat × Nat) × Nat
  | 0, st, memo, i => (st, memo, i)
  | f+1, st, memo, i =>
    match memo.find? (·.1 = i) with
    | some e => (st, memo, e.2)
    | none =>
      let nd := get st i
      -- `new_fs = FeatureStructure(self.value)`; `value` follows the pointer chain
      let v := (get st (deref st i)).value
      let (st1, n) := alloc st { value := v, content := [], pointer := none }
      -- pointer first
      let (st2, memo2) : Store × List (Nat × Nat) := match nd.pointer with
        | some p =>
          let (s', m', pc) := copyF f st1 memo p
          (s'.set n { get s' n with pointer := some pc }, m')
        | none => (st1, memo)
      -- then the content
      let (st3, memo3) := nd.content.foldl (fun (acc : Store × List (Nat × Nat)) fc =>
        let (s', m', cc) := copyF f acc.1 acc.2 fc.2
        (s'.set n { get s' n with content := (get s' n).content ++ [(fc.1, cc)] }, m')) (st2, memo2)
      (st3, memo3 ++ [(i, n)], n)

def copy (st : Store) (i : Nat) : Store × Nat :=
  let r := copyF (st.length + 1) st [] i
  (r.1, r.2.2)

/-- `a.subsumes(b, already_seen)` (after the repair: a part of `a` that is reached a second time —
a shared part — must correspond to the very same part of `b`); returns the verdict and the updated
`already_seen` association -/
def subsumesF : Nat → Store → List (Nat × Nat) → Nat → Nat → Bool × List (Nat × Nat)
  | 0, _, seen, _, _ => (false, seen)
  | f+1, st, seen, a, b =>
    let ca := deref st a
    let cb := deref st b
    match seen.find? (·.1 = ca) with
    | some e => (decide (e.2 = cb), seen)
    | none =>
      let seen1 := seen ++ [(ca, cb)]
      if (get st ca).value ≠ (get st cb).value then (false, seen1) else
      (get st ca).content.foldl (fun (acc : Bool × List (Nat × Nat)) fc =>
        if !acc.1 then acc else
        match lookupC fc.1 (get st cb).content with
        | none => (false, acc.2)
        | some y => subsumesF f st acc.2 fc.2 y) (true, seen1)

def subsumes (st : Store) (a b : Nat) : Bool := (subsumesF (st.length + 1) st [] a b).1

structure Grammar where
  prods : List FProd
  start : String
  /-- the dummy rule `Gamma -> start` with empty features -/
  gammaFeats : Nat
  /-- head of the dummy rule: "Gamma" followed by as many primes as needed to differ from every
  variable of the grammar (after the repair) -/
  gammaName : String

def prodOf (G : Grammar) (k : Nat) : FProd :=
  G.prods.getD k { head := G.gammaName, body := [.var G.start], feats := G.gammaFeats }

def keyOf (_G : Grammar) (s : EState) : Key := (s.prod, s.b, s.e, s.dot)

def incomplete (G : Grammar) (s : EState) : Bool := s.dot < (prodOf G s.prod).body.length

def nextSym (G : Grammar) (s : EState) : Option Sym := (prodOf G s.prod).body[s.dot]?

abbrev Dict := List (Key × List EState)

structure Tables where
  store : Store
  chart : List (List EState)       -- column i: a stack, last element on top
  processed : List Dict

def colGet {α : Type} (l : List (List α)) (i : Nat) : List α := l.getD i []

/-- `processed.add(i, element)`; returns whether it was added -/
def procAdd (G : Grammar) (T : Tables) (i : Nat) (s : EState) : Tables × Bool :=
  let d := colGet T.processed i
  let k := keyOf G s
  let existing := match d.find? (·.1 = k) with
    | some e => e.2
    | none => []
  if existing.any fun o => subsumes T.store o.fs s.fs then
    -- the key is created even when the element is refused
    let d' := if d.any (·.1 = k) then d else d ++ [(k, [])]
    ({ T with processed := T.processed.set i d' }, false)
  else
    let d' := if d.any (·.1 = k) then d.map fun e => if e.1 = k then (e.1, e.2 ++ [s]) else e
              else d ++ [(k, [s])]
    ({ T with processed := T.processed.set i d' }, true)

def pushIfNew (G : Grammar) (T : Tables) (i : Nat) (s : EState) : Tables :=
  let (T', added) := procAdd G T i s
  if added then { T' with chart := T'.chart.set i (colGet T'.chart i ++ [s]) } else T'

/-- `_advance(next_state, state)`: move the waiting state `nx` over the variable derived by the
complete state `s` (copies of both feature structures, unification of the slot with the head) -/
def advance (G : Grammar) (T : Tables) (nx s : EState) : Tables :=
  let (st1, cl) := copy T.store s.fs
  match byPath st1 cl ["head"] with
  | none => { T with store := st1 }
  | some left =>
    let (st2, cr) := copy st1 nx.fs
    match byPath st2 cr [toString nx.dot] with
    | none => { T with store := st2 }
    | some considered =>
      match unify (st2.length + 2) st2 considered left with
      | .ok st3 =>
        pushIfNew G { T with store := st3 } s.e { prod := nx.prod, b := nx.b, e := s.e, dot := nx.dot + 1, fs := cr }
      | _ => { T with store := st2 }

/-- `__predictor` (after the repair): predict every production of the expected variable, then move
the waiting state over the variable right away for every item of that variable already completed
on the empty word at this position -/
def predictor (G : Grammar) (T : Tables) (s : EState) : Tables :=
  match nextSym G s with
  | some (.var v) =>
    let T1 := (G.prods.zip (List.range G.prods.length)).foldl (fun T pk =>
      if pk.1.head = v then pushIfNew G T s.e { prod := pk.2, b := s.e, e := s.e, dot := 0, fs := pk.1.feats }
      else T) T
    let snapshot : List EState := (colGet T1.processed s.e).flatMap (·.2)
    snapshot.foldl (fun T c =>
      if !(incomplete G c) ∧ c.b = s.e ∧ (prodOf G c.prod).head = v then advance G T s c else T) T1
  | _ => T

/-- `_scanner` -/
def scanner (G : Grammar) (T : Tables) (s : EState) : Tables :=
  pushIfNew G T (s.e + 1) { s with e := s.e + 1, dot := s.dot + 1 }

/-- `_completer`: the states waiting at the beginning of the completed item (a snapshot:
`list(processed.generator(begin_idx))`) -/
def completer (G : Grammar) (T : Tables) (s : EState) : Tables :=
  let head := (prodOf G s.prod).head
  let snapshot : List EState := (colGet T.processed s.b).flatMap (·.2)
  snapshot.foldl (fun T nx =>
    if incomplete G nx ∧ nextSym G nx = some (.var head) then advance G T nx s else T) T

/-- the `while chart[i]` loop of column `i` (after the repair every column, the last one included,
is processed alike; there is nothing to scan in the last column) -/
def columnLoop (G : Grammar) (word : List String) (i : Nat) : Nat → Tables → Option Tables
  | 0, _ => none
  | f+1, T =>
    match (colGet T.chart i).getLast? with
    | none => some T
    | some s =>
      let T0 := { T with chart := T.chart.set i (colGet T.chart i).dropLast }
      let T1 :=
        if incomplete G s then
          match nextSym G s with
          | some (.var _) => predictor G T0 s
          | some (.ter t) => if word[i]? = some t then scanner G T0 s else T0
          | none => T0
        else completer G T0 s
      columnLoop G word i f T1

/-- `_get_final_state(word) is not None` = `contains(word)`; `none` = out of fuel -/
def contains (G : Grammar) (st0 : Store) (word : List String) (fuel : Nat) : Option Bool :=
  let n := word.length
  let first : EState := { prod := G.prods.length, b := 0, e := 0, dot := 0, fs := G.gammaFeats }
  let T0 : Tables := { store := st0, chart := List.replicate (n + 1) [], processed := List.replicate (n + 1) [] }
  let T1 := pushIfNew G T0 0 first
  let rec cols : List Nat → Tables → Option Tables
    | [], T => some T
    | i :: rest, T =>
      match columnLoop G word i fuel T with
      | none => none
      | some T' => cols rest T'
  match cols (List.range (n + 1)) T1 with
  | none => none
  | some T3 =>
    some (((colGet T3.processed n).flatMap (·.2)).any fun s =>
      s.b = 0 ∧ !(incomplete G s) ∧ (prodOf G s.prod).head = G.start)

end Earley
end Pfl

namespace Pfl
namespace Earley
open FsDag

/-- feature annotation of a symbol occurrence in the harness's agreement grammars:
`none` (feature-free), a constant, or a variable "?x" -/
abbrev Feat := Option String

/-- the harness's `fs_for(val, variables)` -/
def fsFor (st : Store) (vars : List (String × Nat)) (f : Feat) : Store × List (String × Nat) × Nat :=
  let (st1, fs) := alloc st { value := none, content := [], pointer := none }
  match f with
  | none => (st1, vars, fs)
  | some v =>
    if v.startsWith "?" then
      let (st2, vars2, vn) : Store × List (String × Nat) × Nat := match lookupC v vars with
        | some vn => (st1, vars, vn)
        | none => let (s', vn) := alloc st1 { value := none, content := [], pointer := none }
                  (s', vars ++ [(v, vn)], vn)
      let (st3, inner) := alloc st2 { value := none, content := [], pointer := some vn }
      (st3.set fs { get st3 fs with content := [("n", inner)] }, vars2, fs)
    else
      let (st2, leaf) := alloc st1 { value := some v, content := [], pointer := none }
      (st2.set fs { get st2 fs with content := [("n", leaf)] }, vars, fs)

/-- the variables of the grammar (`self._variables`): heads, body variables, start symbol -/
def grammarVars (prods : List FProd) (start : String) : List String :=
  (start :: prods.flatMap fun p => p.head :: p.body.filterMap fun s => match s with
    | .var v => some v
    | .ter _ => none).eraseDups

/-- `gamma = Variable("Gamma"); while gamma in self._variables: gamma = Variable(gamma.value + "'")` -/
def freshGamma (vars : List String) : String :=
  let cands := (List.range (vars.length + 1)).map fun k => "Gamma" ++ String.ofList (List.replicate k '\'')
  (cands.find? fun c => c ∉ vars).getD "Gamma"

/-- the harness's `build_fcfg`: per production a fresh variable table, head structure, one
structure per body item (terminals: empty), and the record `production.features` -/
def buildGrammar (spec : List ((String × Feat) × List (Sym × Feat))) (start : String) : Store × Grammar :=
  let (st, prods) := spec.foldl (fun (acc : Store × List FProd) pr =>
    let (st0, ps) := acc
    let (st1, vars1, hfs) := fsFor st0 [] pr.1.2
    let (st2, _, bfs) := pr.2.foldl (fun (a : Store × List (String × Nat) × List Nat) item =>
      match item.1 with
      | .ter _ =>
        let (s', n) := alloc a.1 { value := none, content := [], pointer := none }
        (s', a.2.1, a.2.2 ++ [n])
      | .var _ =>
        let (s', v', n) := fsFor a.1 a.2.1 item.2
        (s', v', a.2.2 ++ [n])) (st1, vars1, [])
    let content : List (String × Nat) := ("head", hfs) :: (bfs.zip (List.range bfs.length)).map fun e => (toString e.2, e.1)
    let (st3, feats) := alloc st2 { value := none, content := content, pointer := none }
    (st3, ps ++ [{ head := pr.1.1, body := pr.2.map (·.1), feats := feats }])) ([], [])
  -- the dummy rule: `FeatureProduction(gamma, [start], FeatureStructure(), [FeatureStructure()])`
  let (st1, h) := alloc st { value := none, content := [], pointer := none }
  let (st2, b0) := alloc st1 { value := none, content := [], pointer := none }
  let (st3, gf) := alloc st2 { value := none, content := [("head", h), ("0", b0)], pointer := none }
  (st3, { prods := prods, start := start, gammaFeats := gf, gammaName := freshGamma (grammarVars prods start) })

def containsSpec (spec : List ((String × Feat) × List (Sym × Feat))) (start : String) (word : List String)
    (fuel : Nat) : Option Bool :=
  let (st, G) := buildGrammar spec start
  contains G st word fuel

end Earley
end Pfl
