/-
Faithful model of the counter-based worklist behind get_generating_symbols / get_nullable_symbols
(`_set_impacts_and_remaining_lists`, `_get_generating_or_nullable`): cached impact lists, per
production counters decremented in place, an undo log, and the restore pass.  Core Lean only.
-/
import Pfl.Model.CFG
namespace Pfl
namespace CFG

/-- `_remaining_lists`: for every head the list of body lengths of its non-empty productions -/
abbrev Remaining := List (String × List Nat)
/-- `_impacts`: one entry `(symbol, head, index)` per occurrence of `symbol` in the `index`-th
non-empty production of `head` -/
abbrev Impacts := List (Sym × String × Nat)

def remAppend (r : Remaining) (h : String) (n : Nat) : Remaining × Nat :=
  match r.find? (·.1 = h) with
  | some e => (r.map fun x => if x.1 = h then (x.1, x.2 ++ [n]) else x, e.2.length)
  | none => (r ++ [(h, [n])], 0)

/-- `_set_impacts_and_remaining_lists` -/
def buildTables (G : CFG) : Remaining × Impacts × List String :=
  G.prods.foldl (fun (st : Remaining × Impacts × List String) p =>
    let (rem, imp, added) := st
    if p.2.isEmpty then (rem, imp, if p.1 ∈ added then added else added ++ [p.1])
    else
      let (rem', idx) := remAppend rem p.1 p.2.length
      (rem', imp ++ p.2.map fun s => (s, p.1, idx), added)) ([], [], [])

def remGet (r : Remaining) (h : String) (i : Nat) : Nat :=
  match r.find? (·.1 = h) with
  | some e => e.2.getD i 0
  | none => 0

def remSet (r : Remaining) (h : String) (i : Nat) (v : Nat) : Remaining :=
  r.map fun x => if x.1 = h then (x.1, x.2.set i v) else x

/-- the inner `for symbol_impact, index_impact in self._impacts.get(current, [])` loop -/
def touch (found : List Sym) (todo : List Sym) (rem : Remaining) (log : List (String × Nat)) :
    List (String × Nat) → List Sym × List Sym × Remaining × List (String × Nat)
  | [] => (found, todo, rem, log)
  | (h, i) :: rest =>
    if Sym.var h ∈ found then touch found todo rem log rest
    else
      let c := remGet rem h i - 1
      let rem' := remSet rem h i c
      if c = 0 then touch (found ++ [.var h]) (.var h :: todo) rem' (log ++ [(h, i)]) rest
      else touch found todo rem' (log ++ [(h, i)]) rest

/-- the `while to_process` loop; `none` = out of fuel -/
def countLoop (imp : Impacts) : Nat → List Sym → List Sym → Remaining → List (String × Nat) →
    Option (List Sym × Remaining × List (String × Nat))
  | _, found, [], rem, log => some (found, rem, log)
  | 0, _, _ :: _, _, _ => none
  | fuel+1, found, cur :: todo, rem, log =>
    let hits := imp.filterMap fun e => if e.1 = cur then some (e.2.1, e.2.2) else none
    let (found', todo', rem', log') := touch found todo rem log hits
    countLoop imp fuel found' todo' rem' log'

/-- `_get_generating_or_nullable(nullable)` on cached tables `rem`: returns the symbols found and
the tables after the restore pass -/
def genCounters (G : CFG) (nullable : Bool) (rem : Remaining) (imp : Impacts) (added : List String)
    (fuel : Nat) : Option (List Sym × Remaining) :=
  let seeds : List Sym := added.map .var ++ (if nullable then [] else G.ters.map .ter)
  match countLoop imp fuel seeds.eraseDups seeds.eraseDups.reverse rem [] with
  | none => none
  | some (found, rem', log) =>
    some (found, log.foldl (fun r e => remSet r e.1 e.2 (remGet r e.1 e.2 + 1)) rem')

end CFG
end Pfl
