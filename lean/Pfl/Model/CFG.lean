/-
Executable model of pyformlang.cfg.CFG: symbol classes, clean-up transformations, Chomsky
normal form, CYK membership, word enumeration, finiteness, closure operations.

Variables and terminals carry their Python value as a `String` (the library manufactures
fresh names by string concatenation: "a#CNF#", "C#CNF#3", "X#SUBS#0").  A body never contains
ε (`Production.__init__` filters it).  Lists model Python sets / lists in iteration order.
Core Lean only.
-/
import Pfl.Core.Closure
namespace Pfl

inductive Sym where
  | var (v : String)
  | ter (t : String)
deriving DecidableEq, Repr, Inhabited

abbrev Prod := String × List Sym

structure CFG where
  vars  : List String
  ters  : List String
  start : Option String
  prods : List Prod
deriving Repr

namespace CFG

def Sym.isVar : Sym → Bool
  | .var _ => true
  | .ter _ => false

/-- `CFG.__init__`: every symbol of a production is registered -/
def mk' (vars ters : List String) (start : Option String) (prods : List Prod) : CFG :=
  { vars := (vars ++ start.toList ++ prods.flatMap fun p => p.1 :: p.2.filterMap fun s =>
        match s with | .var v => some v | .ter _ => none).eraseDups
    ters := (ters ++ prods.flatMap fun p => p.2.filterMap fun s =>
        match s with | .ter t => some t | .var _ => none).eraseDups
    start := start
    prods := prods }

/-- one round of "add every head whose body is already in the set" -/
def closeStep (G : CFG) (S : List Sym) : List Sym :=
  G.prods.foldl (fun S p => if .var p.1 ∉ S ∧ p.2.all (· ∈ S) then S ++ [.var p.1] else S) S

def iter {α : Type} (f : α → α) : Nat → α → α
  | 0, x => x
  | n+1, x => iter f n (f x)

/-- `get_generating_symbols`: terminals and variables deriving a terminal word -/
def generating (G : CFG) : List Sym :=
  iter G.closeStep (G.prods.length + 1) (G.ters.map .ter)

/-- `get_nullable_symbols` -/
def nullable (G : CFG) : List Sym :=
  iter G.closeStep (G.prods.length + 1) []

/-- `generate_epsilon` -/
def generateEpsilon (G : CFG) : Bool :=
  match G.start with
  | none => false
  | some s => .var s ∈ G.nullable

/-- `get_reachable_symbols` (the start symbol itself included) -/
def reachable (G : CFG) : List Sym :=
  match G.start with
  | none => []
  | some s =>
    (bfs (fun x => match x with
        | .var v => G.prods.flatMap fun p => if p.1 = v then p.2 else []
        | .ter _ => [])
      ((G.prods.flatMap (·.2)).length + 2) [Sym.var s]).getD []

/-- `remove_useless_symbols` -/
def removeUseless (G : CFG) : CFG :=
  let gen := G.generating
  let prods := G.prods.filter fun p => .var p.1 ∈ gen ∧ p.2.all (· ∈ gen)
  let nv := G.vars.filter fun v => .var v ∈ gen
  let nt := G.ters.filter fun t => .ter t ∈ gen
  let tmp := mk' nv nt G.start prods
  let reach := tmp.reachable
  let prods := prods.filter fun p => .var p.1 ∈ reach
  mk' (nv.filter fun v => .var v ∈ reach) (nt.filter fun t => .ter t ∈ reach) G.start prods

/-- `remove_nullable_production_sub` -/
def removeNullableSub (nullables : List Sym) : List Sym → List (List Sym)
  | [] => [[]]
  | x :: rest =>
    (removeNullableSub nullables rest).flatMap fun b =>
      (if x ∈ nullables then [b] else []) ++ [x :: b]

/-- `remove_epsilon` -/
def removeEpsilon (G : CFG) : CFG :=
  let nul := G.nullable
  mk' G.vars G.ters G.start
    (G.prods.flatMap fun p => ((removeNullableSub nul p.2).filter (· ≠ [])).map fun b => (p.1, b))

def unitTargets (G : CFG) (v : String) : List String :=
  G.prods.filterMap fun p => if p.1 = v then
    match p.2 with
    | [.var u] => some u
    | _ => none
  else none

/-- `get_unit_pairs` -/
def unitPairs (G : CFG) : List (String × String) :=
  (bfs (fun ab : String × String => (G.unitTargets ab.2).map fun c => (ab.1, c))
    (G.vars.length * (G.vars.length + G.prods.length) + G.vars.length + 2) (G.vars.map fun v => (v, v))).getD []

def isUnit (p : Prod) : Bool :=
  match p.2 with
  | [.var _] => true
  | _ => false

/-- `eliminate_unit_productions` -/
def elimUnit (G : CFG) : CFG :=
  let base := G.prods.filter (!isUnit ·)
  mk' G.vars G.ters G.start
    (base ++ G.unitPairs.flatMap fun ab => (base.filter (·.1 = ab.2)).map fun p => (ab.1, p.2))

/-- name of the variable standing for a terminal: `t#CNF#`, extended by `#CNF#` while taken -/
def liftName (vars : List String) (used : List String) : Nat → String → String
  | 0, n => n
  | fuel+1, n => if n ∈ vars ∨ n ∈ used then liftName vars used fuel (n ++ "#CNF#") else n

/-- `term_to_var` (in the iteration order of `_terminals`) -/
def termToVar (G : CFG) : List (String × String) :=
  G.ters.foldl (fun tbl t =>
    tbl ++ [(t, liftName G.vars (tbl.map (·.2)) (G.vars.length + tbl.length + 1) (t ++ "#CNF#"))]) []

/-- `_get_productions_with_only_single_terminals` -/
def singleTerminals (G : CFG) : List Prod :=
  let tbl := G.termToVar
  let lift : Sym → Sym := fun s => match s with
    | .ter t => match tbl.find? (fun e => e.1 = t) with
      | some e => .var e.2
      | none => .ter t
    | .var v => .var v
  let main := G.prods.map fun p => if p.2.length = 1 then p else (p.1, p.2.map lift)
  let used := (G.prods.flatMap fun p => if p.2.length = 1 then [] else
      p.2.filterMap fun s => match s with
        | .ter t => if t ∈ G.ters then some t else none
        | .var _ => none).eraseDups
  main ++ used.filterMap fun t => (tbl.find? fun e => e.1 = t).map fun e => (e.2, [.ter t])

/-- `_get_next_free_variable` -/
def nextFreeVar (G : CFG) : Nat → Nat → Nat × String
  | 0, idx => (idx + 1, "C#CNF#" ++ toString (idx + 1))
  | fuel+1, idx =>
    let name := "C#CNF#" ++ toString (idx + 1)
    if name ∈ G.vars then nextFreeVar G fuel (idx + 1) else (idx + 1, name)

def freshVars (G : CFG) : Nat → Nat → Nat × List String
  | 0, idx => (idx, [])
  | n+1, idx =>
    let (idx', v) := G.nextFreeVar (G.vars.length + 1) idx
    let (idx'', vs) := freshVars G n idx'
    (idx'', v :: vs)

/-- the inner `for i in range(len(body) - 2)` loop of `_decompose_productions` -/
def decomposeOne (head : String) : List Sym → List String → List (List Sym × String) →
    List Prod × List (List Sym × String)
  | b :: c :: [], _, done => ([(head, [b, c])], done)
  | b :: rest, v :: vs, done =>
    match done.find? (fun d => d.1 = rest) with
    | some d => ([(head, [b, .var d.2])], done)
    | none =>
      let (ps, done') := decomposeOne v rest vs ((rest, v) :: done)
      ((head, [b, .var v]) :: ps, done')
  | _, _, done => ([], done)

/-- `_decompose_productions` -/
def decompose (G : CFG) (prods : List Prod) : List Prod :=
  (prods.foldl (fun (st : Nat × List Prod × List (List Sym × String)) p =>
      let (idx, acc, done) := st
      if p.2.length ≤ 2 then (idx, acc ++ [p], done)
      else
        let (idx', vs) := G.freshVars (p.2.length - 2) idx
        let (ps, done') := decomposeOne p.1 p.2 vs done
        (idx', acc ++ ps, done')) (0, [], [])).2.1

def isFastPath (G : CFG) : Bool :=
  G.nullable.length = 0 && G.unitPairs.length = G.vars.length && !(G.prods.any isUnit) &&
  G.generating.length = G.vars.length + G.ters.length &&
  G.reachable.length = G.vars.length + G.ters.length

/-- `to_normal_form`; `none` = recursion fuel exhausted -/
def toNormalForm (G : CFG) : Nat → Option CFG
  | 0 => none
  | fuel+1 =>
    if G.isFastPath then
      some (mk' [] [] G.start (G.decompose G.singleTerminals).eraseDups)
    else if G.prods.length = 0 then some G
    else toNormalForm (G.removeUseless.removeEpsilon.removeUseless.elimUnit.removeUseless) fuel

def prodIsNormal (p : Prod) : Bool :=
  match p.2 with
  | [.var _, .var _] => true
  | [.ter _] => true
  | _ => false

/-- `is_normal_form` -/
def isNormalForm (G : CFG) : Bool := G.prods.all prodIsNormal

/-- CYK: variables deriving `w[i, i+len)`; `tbl` holds the rows for shorter lengths -/
def cykCell (N : CFG) (tbl : Nat → Nat → List String) (i len : Nat) : List String :=
  ((List.range (len - 1)).flatMap fun k =>
    let l := k + 1
    N.prods.filterMap fun p => match p.2 with
      | [.var b, .var c] => if b ∈ tbl i l ∧ c ∈ tbl (i + l) (len - l) then some p.1 else none
      | _ => none).eraseDups

def cykRow1 (N : CFG) (w : List String) (i : Nat) : List String :=
  match w[i]? with
  | none => []
  | some t => (N.prods.filterMap fun p => if p.2 = [.ter t] then some p.1 else none).eraseDups

/-- rows `1..n` of the CYK table as an association list `(len, i) ↦ variables` -/
def cykTable (N : CFG) (w : List String) : List ((Nat × Nat) × List String) :=
  (List.range w.length).foldl (fun tbl k =>
    let len := k + 1
    let look := fun i l => ((tbl.find? fun e => e.1 = (l, i)).map (·.2)).getD []
    tbl ++ (List.range (w.length - len + 1)).map fun i =>
      ((len, i), if len = 1 then cykRow1 N w i else cykCell N look i len)) []

/-- `CYKTable.generate_word` on a non-empty word -/
def cyk (N : CFG) (w : List String) : Bool :=
  if !(w.all fun t => N.prods.any fun p => p.2 = [.ter t]) then false else
  match N.start with
  | none => false
  | some s => s ∈ (((cykTable N w).find? fun e => e.1 = (w.length, 0)).map (·.2)).getD []

/-- `contains` -/
def contains (G : CFG) (w : List String) (fuel : Nat) : Option Bool :=
  if w.isEmpty then some G.generateEpsilon
  else (G.toNormalForm fuel).map fun N => cyk N w

/-- `is_empty` -/
def isEmpty (G : CFG) : Bool :=
  match G.start with
  | none => true
  | some s => .var s ∉ G.generating

/-- `is_finite`: no cycle in the graph head → body variables of the binary productions of
the normal form -/
def isFinite (G : CFG) (fuel : Nat) : Option Bool :=
  (G.toNormalForm fuel).map fun N =>
    let succ := fun v => N.prods.flatMap fun p => if p.1 = v then
        match p.2 with
        | [.var b, .var c] => [b, c]
        | _ => []
      else []
    !(N.vars.any fun v => (succ v).any fun u =>
        v ∈ (bfs succ (2 * N.prods.length + 2) [u]).getD [])

/-! ### `get_words` -/

abbrev WRow := List (String × List (List String))

def rowLookup (rows : List WRow) (len : Nat) (x : String) : List (List String) :=
  match len with
  | 0 => []
  | l+1 => match rows[l]? with
    | none => []
    | some row => ((row.find? fun e => e.1 = x).map (·.2)).getD []

/-- the words of length `len ≥ 2` of every variable, from the rows of shorter lengths -/
def wordsRow (N : CFG) (rows : List WRow) (len : Nat) : WRow :=
  N.vars.map fun x => (x, ((N.prods.filter (·.1 = x)).flatMap fun p => match p.2 with
    | [.var b, .var c] => (List.range (len - 1)).flatMap fun k =>
        (rowLookup rows (k + 1) b).flatMap fun l => (rowLookup rows (len - (k + 1)) c).map fun r => l ++ r
    | _ => []).eraseDups)

def wordsRow1 (N : CFG) : WRow :=
  N.vars.map fun x => (x, ((N.prods.filter (·.1 = x)).filterMap fun p => match p.2 with
    | [.ter t] => some [t]
    | _ => none).eraseDups)

/-- the `while current_length <= max_length or max_length == -1` loop with its stopping rule;
returns the yielded words grouped by length (order inside one length is set-iteration order in
Python and not modelled); `none` = out of fuel -/
def wordsLoop (N : CFG) (start : String) (maxLen : Option Nat) :
    Nat → Nat → Nat → List WRow → List (List String) → Option (List (List String))
  | 0, _, _, _, _ => none
  | fuel+1, cur, noMod, rows, acc =>
    if (match maxLen with | some m => decide (cur ≤ m) | none => true) then
      let row := wordsRow N rows cur
      let modified := row.any fun e => !e.2.isEmpty
      let acc' := acc ++ ((row.find? fun e => e.1 = start).map (·.2)).getD []
      let noMod' := if modified then 0 else noMod + 1
      if 2 * noMod' > cur + 1 then some acc'
      else wordsLoop N start maxLen fuel (cur + 1) noMod' (rows ++ [row]) acc'
    else some acc

/-- `get_words(max_length)`; `maxLen = none` is `-1` (unbounded) -/
def getWords (G : CFG) (maxLen : Option Nat) (fuel : Nat) : Option (List (List String)) :=
  let eps : List (List String) := if G.generateEpsilon then [[]] else []
  if maxLen = some 0 then some eps else
  match G.toNormalForm fuel with
  | none => none
  | some N =>
    match N.start with
    | none => some eps
    | some s =>
      let row1 := wordsRow1 N
      let acc := eps ++ ((row1.find? fun e => e.1 = s).map (·.2)).getD []
      wordsLoop N s maxLen fuel 2 0 [row1] acc

/-! ### closure operations (all through `substitute`) -/

/-- `substitute`: every variable `v` of the receiver is renamed `v#SUBS#i`, every variable of the
`k`-th substituted grammar likewise with the following indices; `order` fixes the (set-iteration)
order in which variables are numbered: the receiver's variables first, then each operand's. -/
def renameTable (vars : List String) (idx : Nat) : List (String × String) :=
  (vars.zip (List.range vars.length)).map fun (v, i) => (v, v ++ "#SUBS#" ++ toString (idx + i))

def renameSym (tbl : List (String × String)) (final : List (String × String)) : Sym → Sym
  | .var v => match tbl.find? (fun e => e.1 = v) with
    | some e => .var e.2
    | none => .var v
  | .ter t => match final.find? (fun e => e.1 = t) with   -- a terminal is never a key of `new_variables_d`
    | some e => .var e.2                                  -- (after the repair of `Variable.__eq__`)
    | none => .ter t

def lookupName (tbl : List (String × String)) (v : String) : String :=
  ((tbl.find? fun e => e.1 = v).map (·.2)).getD v

/-- `substitute(subst)` with `subst : List (terminal × CFG)` in dict order -/
def substitute (G : CFG) (subst : List (String × CFG)) : CFG :=
  let tbl := renameTable G.vars 0
  let (_, prods, final) := subst.foldl (fun (st : Nat × List Prod × List (String × String)) tc =>
      let (idx, prods, final) := st
      let (ter, H) := tc
      let loc := renameTable H.vars idx
      let ps := H.prods.map fun p => (lookupName loc p.1, p.2.map (renameSym loc []))
      let fin := match H.start with
        | some s => [(ter, lookupName loc s)]
        | none => []
      (idx + H.vars.length, prods ++ ps, final ++ fin)) (G.vars.length, [], [])
  let own := G.prods.map fun p => (lookupName tbl p.1, p.2.map (renameSym tbl final))
  mk' ((tbl.map (·.2)) ++ (subst.foldl (fun (st : Nat × List String) tc =>
        (st.1 + tc.2.vars.length, st.2 ++ (renameTable tc.2.vars st.1).map (·.2))) (G.vars.length, [])).2)
    [] (G.start.map (lookupName tbl)) (prods ++ own).eraseDups

def unionT : CFG := mk' ["#STARTUNION#"] ["#0UNION#", "#1UNION#"] (some "#STARTUNION#")
  [("#STARTUNION#", [.ter "#0UNION#"]), ("#STARTUNION#", [.ter "#1UNION#"])]
def concT : CFG := mk' ["#STARTCONC#"] ["#0CONC#", "#1CONC#"] (some "#STARTCONC#")
  [("#STARTCONC#", [.ter "#0CONC#", .ter "#1CONC#"])]
def closT : CFG := mk' ["#STARTCLOS#"] ["#1CLOS#"] (some "#STARTCLOS#")
  [("#STARTCLOS#", [.ter "#1CLOS#"]), ("#STARTCLOS#", [.var "#STARTCLOS#", .var "#STARTCLOS#"]),
   ("#STARTCLOS#", [])]
def posClosT : CFG := mk' ["#STARTPOSCLOS#", "#VARPOSCLOS#"] ["#1POSCLOS#"] (some "#STARTPOSCLOS#")
  [("#STARTPOSCLOS#", [.ter "#1POSCLOS#", .var "#VARPOSCLOS#"]),
   ("#VARPOSCLOS#", [.var "#VARPOSCLOS#", .var "#VARPOSCLOS#"]),
   ("#VARPOSCLOS#", [.ter "#1POSCLOS#"]), ("#VARPOSCLOS#", [])]

def union (G H : CFG) : CFG := unionT.substitute [("#0UNION#", G), ("#1UNION#", H)]
def concatenate (G H : CFG) : CFG := concT.substitute [("#0CONC#", G), ("#1CONC#", H)]
def closure (G : CFG) : CFG := closT.substitute [("#1CLOS#", G)]
def posClosure (G : CFG) : CFG := posClosT.substitute [("#1POSCLOS#", G)]

/-- `reverse` -/
def reverse (G : CFG) : CFG := mk' G.vars G.ters G.start (G.prods.map fun p => (p.1, p.2.reverse))

end CFG
end Pfl
