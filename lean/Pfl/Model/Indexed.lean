/-
Model of pyformlang.indexed_grammar: reduced-form rules, the marking fixpoint behind
`is_empty` (as plain saturation: the verdict of the library's loop does not depend on the order
in which rules are visited, which is exactly what property C17 claims and what the correspondence
check tests by permuting the rules and varying `optim`), reachable / generating non-terminals and
`remove_useless_rules`.  Core Lean only.
-/
import Pfl.Core.Closure
namespace Pfl

inductive IRule where
  /-- `EndRule(A, a)`: `A[σ] → a` -/
  | end_ (a : String) (t : String)
  /-- `ProductionRule(A, B, f)`: `A[σ] → B[fσ]` -/
  | prod (a b f : String)
  /-- `ConsumptionRule(f, A, B)`: `A[fσ] → B[σ]` -/
  | cons (f a b : String)
  /-- `DuplicationRule(A, B, C)`: `A[σ] → B[σ] C[σ]` -/
  | dup (a b c : String)
deriving DecidableEq, Repr

structure IG where
  rules : List IRule
  start : String
deriving Repr

namespace IG

def insertS (x : String) : List String → List String
  | [] => [x]
  | y :: ys => if x = y then y :: ys else if x < y then x :: y :: ys else y :: insertS x ys

/-- canonical form of a set of non-terminals (sorted, duplicate-free) -/
def normS (l : List String) : List String := l.foldr insertS []

def unionS (a b : List String) : List String := normS (a ++ b)

def nonTerminals (G : IG) : List String :=
  (G.start :: G.rules.flatMap fun r => match r with
    | .end_ a _ => [a]
    | .prod a b _ => [a, b]
    | .cons _ a b => [a, b]
    | .dup a b c => [a, b, c]).eraseDups

abbrev Mark := String × List String

/-- initial marks: `{A} ∈ marked[A]`, and `∅ ∈ marked[A]` when `A` has an end rule -/
def initMarks (G : IG) : List Mark :=
  (G.nonTerminals.map fun a => (a, [a])) ++
    (G.nonTerminals.filter fun a => G.rules.any fun r => match r with
      | .end_ a' _ => a' = a
      | _ => false).map fun a => (a, [])

def addMarks (M : List Mark) (new : List Mark) : List Mark :=
  new.foldl (fun M m => if m ∈ M then M else M ++ [m]) M

/-- all ways of choosing, for every non-terminal of `E`, one set marked for the right side of
one of its consumption rules on index `f`; `none` if some non-terminal has no such rule -/
def combos (G : IG) (M : List Mark) (f : String) : List String → Option (List (List String))
  | [] => some [[]]
  | c :: rest =>
    let opts : List (List String) := (G.rules.flatMap fun r => match r with
      | .cons f' a d => if f' = f ∧ a = c then (M.filter (·.1 = d)).map (·.2) else []
      | _ => []).eraseDups
    let hasRule := G.rules.any fun r => match r with
      | .cons f' a _ => f' = f ∧ a = c
      | _ => false
    if !hasRule then none else
    match combos G M f rest with
    | none => none
    | some cs => some (opts.flatMap fun o => cs.map fun c' => unionS o c')

/-- one round over all duplication and production rules -/
def markStep (G : IG) (M : List Mark) : List Mark :=
  G.rules.foldl (fun M r => match r with
    | .dup a b c =>
      addMarks M ((M.filter (·.1 = b)).flatMap fun e0 => (M.filter (·.1 = c)).map fun e1 =>
        (a, unionS e0.2 e1.2))
    | .prod a b f =>
      addMarks M ((M.filter (·.1 = b)).flatMap fun e =>
        if e.2.isEmpty then [(a, [])] else
        match combos G M f e.2 with
        | none => []
        | some cs => cs.map fun c => (a, c))
    | _ => M) M

def markSaturate (G : IG) : Nat → List Mark → Option (List Mark)
  | 0, _ => none
  | fuel+1, M =>
    let M' := markStep G M
    if M'.length = M.length then some M else markSaturate G fuel M'

/-- `is_empty()`; `none` = out of fuel -/
def isEmpty (G : IG) (fuel : Nat) : Option Bool :=
  (markSaturate G fuel G.initMarks).map fun M => !((G.start, []) ∈ M)

/-- `get_reachable_non_terminals` -/
def reachableNT (G : IG) : List String :=
  (bfs (fun x => G.rules.flatMap fun r => match r with
      | .dup a b c => if a = x then [b, c] else []
      | .prod a b _ => if a = x then [b] else []
      | .cons _ a b => if a = x then [b] else []
      | .end_ _ _ => [])
    (3 * G.rules.length + 2) [G.start]).getD []

def genStep (G : IG) (S : List String) : List String :=
  G.rules.foldl (fun S r => match r with
    | .end_ a _ => if a ∈ S then S else S ++ [a]
    | .prod a b _ => if b ∈ S ∧ a ∉ S then S ++ [a] else S
    | .cons _ a b => if b ∈ S ∧ a ∉ S then S ++ [a] else S
    | .dup a b c => if b ∈ S ∧ c ∈ S ∧ a ∉ S then S ++ [a] else S) S

def iterN {α : Type} (f : α → α) : Nat → α → α
  | 0, x => x
  | n+1, x => iterN f n (f x)

/-- `get_generating_non_terminals` -/
def generatingNT (G : IG) : List String := iterN G.genStep (G.rules.length + 1) []

/-- `remove_useless_rules` -/
def removeUseless (G : IG) : IG :=
  let gen := G.generatingNT
  let reach := G.reachableNT
  let ok := fun x => x ∈ gen ∧ x ∈ reach
  { start := G.start
    rules := G.rules.filter fun r => match r with
      | .dup a b c => ok a ∧ ok b ∧ ok c
      | .prod a b _ => ok a ∧ ok b
      | .cons _ a b => ok a ∧ ok b
      | .end_ a _ => ok a }

/-- certificate search: `A` with index stack `σ` (top first) derives a terminal word, by a
derivation tree of depth `≤ fuel` -/
def derivable (G : IG) : Nat → String → List String → Bool
  | 0, _, _ => false
  | fuel+1, a, σ =>
    G.rules.any fun r => match r with
      | .end_ a' _ => a' = a
      | .prod a' b f => a' = a && derivable G fuel b (f :: σ)
      | .cons f a' b => match σ with
        | g :: σ' => a' = a && f = g && derivable G fuel b σ'
        | [] => false
      | .dup a' b c => a' = a && derivable G fuel b σ && derivable G fuel c σ

end IG
end Pfl
