/-
Model of `FiniteAutomaton.to_fst` (after the repair: an epsilon transition writes nothing).
Symbols are named by `symName`.  Core Lean only.
-/
import Pfl.Model.FA
import Pfl.Model.FST
namespace Pfl
namespace ENFA
variable {σ : Type} [DecidableEq σ]

def toFST (A : ENFA σ) (symName : Nat → String) : FST σ :=
  FST.ofParts A.starts A.finals
    (A.delta.map fun t => match t.2.1 with
      | some a => (t.1, some (symName a), t.2.2, [symName a])
      | none => (t.1, none, t.2.2, []))

end ENFA
end Pfl
