/-
Executable model of pyformlang.pda.PDA and the CFG <-> PDA conversions.
States `σ` and stack symbols `γ` are arbitrary types with decidable equality; input symbols are
`String`s, `none` is `Epsilon()`.  Stack words are written top first.  Core Lean only.
-/
import Pfl.Model.CFG
import Pfl.Model.FA
namespace Pfl

structure PDA (σ γ : Type) where
  states : List σ
  inputs : List String
  stack : List γ
  start : Option σ
  startStack : Option γ
  finals : List σ
  /-- `(s_from, input | ε, stack_from, s_to, stack_to)` -/
  delta : List (σ × Option String × γ × σ × List γ)
deriving Repr

namespace PDA
variable {σ γ τ : Type} [DecidableEq σ] [DecidableEq γ] [DecidableEq τ]

/-- `PDA.__init__` + `add_transition`: everything mentioned is registered -/
def mk' (states : List σ) (inputs : List String) (stack : List γ) (start : Option σ)
    (startStack : Option γ) (finals : List σ)
    (delta : List (σ × Option String × γ × σ × List γ)) : PDA σ γ :=
  { states := (states ++ start.toList ++ finals ++ delta.flatMap fun t => [t.1, t.2.2.2.1]).eraseDups
    inputs := (inputs ++ delta.filterMap (·.2.1)).eraseDups
    stack := (stack ++ startStack.toList ++ delta.flatMap fun t => t.2.2.1 :: t.2.2.2.2).eraseDups
    start := start, startStack := startStack, finals := finals.eraseDups, delta := delta.eraseDups }

/-- `get_next_free(prefix, _, to_check)`: prefix, prefix0, prefix1, … -/
def nextFree (pre : String) (used : List String) : String :=
  if pre ∉ used then pre else
    match (List.range (used.length + 1)).find? fun i => (pre ++ toString i) ∉ used with
    | some i => pre ++ toString i
    | none => pre

/-- `to_final_state` (states and stack symbols carry `String` values here) -/
def toFinalState (P : PDA String String) : PDA String String :=
  let ns := nextFree "#STARTTOFINAL#" P.states
  let ne := nextFree "#ENDTOFINAL#" P.states
  let nb := nextFree "#BOTTOMTOFINAL#" P.stack
  match P.start, P.startStack with
  | some s, some z =>
    mk' (P.states ++ [ns, ne]) P.inputs (P.stack ++ [nb]) (some ns) (some nb) [ne]
      (P.delta ++ [(ns, none, nb, s, [z, nb])] ++ P.states.map fun q => (q, none, nb, ne, []))
  | _, _ => mk' [] [] [] none none [] []

/-- `to_empty_stack` -/
def toEmptyStack (P : PDA String String) : PDA String String :=
  let ns := nextFree "#STARTEMPTYS#" P.states
  let ne := nextFree "#ENDEMPTYS#" P.states
  let nb := nextFree "#BOTTOMEMPTYS#" P.stack
  let alph := (P.stack ++ [nb]).eraseDups
  match P.start, P.startStack with
  | some s, some z =>
    mk' (P.states ++ [ns, ne]) P.inputs alph (some ns) (some nb) []
      (P.delta ++ [(ns, none, nb, s, [z, nb])] ++
        (P.finals.flatMap fun f => alph.map fun x => (f, none, x, ne, [])) ++
        alph.map fun x => (ne, none, x, ne, []))
  | _, _ => mk' [] [] [] none none [] []

/-- `CFG.to_pda`: one state `q`; terminal `t` becomes stack symbol `#TERM#t` -/
def ofCFG (G : CFG) : PDA String String :=
  let ss : Sym → String := fun s => match s with
    | .var v => v
    | .ter t => "#TERM#" ++ t
  mk' ["q"] G.ters ((G.ters.map fun t => "#TERM#" ++ t) ++ G.vars) (some "q") G.start []
    ((G.prods.map fun p => ("q", none, p.1, "q", p.2.map ss)) ++
      G.ters.map fun t => ("q", some t, "#TERM#" ++ t, "q", []))

/-- all lists of `n` states (`itertools.product(states, repeat=n)`) -/
def tuples (xs : List σ) : Nat → List (List σ)
  | 0 => [[]]
  | n+1 => xs.flatMap fun x => (tuples xs n).map fun t => x :: t

/-- name of the grammar variable standing for the triple `[q X p]` -/
def tripleName (ns : σ → String) (ng : γ → String) (q : σ) (x : γ) (p : σ) : String :=
  "[" ++ ns q ++ "|" ++ ng x ++ "|" ++ ns p ++ "]"

/-- `_generate_all_rules`: bodies `[q1 X1 q2][q2 X2 q3]…[qk Xk p]`, pruned to "valid" triples
(those whose state and stack symbol are the source of some transition) -/
def bodiesOf (P : PDA σ γ) (valid : σ → γ → Bool) (ns : σ → String) (ng : γ → String)
    (sFrom sTo : σ) (push : List γ) : List (List Sym) :=
  match push with
  | [] => [[]]
  | _ =>
    (tuples P.states (push.length - 1)).filterMap fun mids =>
      let froms := sFrom :: mids
      let tos := mids ++ [sTo]
      let triples : List ((σ × γ) × σ) := (froms.zip push).zip tos
      if triples.all fun t => valid t.1.1 t.1.2 then
        some (triples.map fun t => Sym.var (tripleName ns ng t.1.1 t.1.2 t.2))
      else none

/-- `to_cfg` (variables are named by their triple instead of the library's running counter) -/
def toCFG (P : PDA σ γ) (ns : σ → String) (ng : γ → String) : Option CFG :=
  match P.start, P.startStack with
  | some s, some z =>
    let valid : σ → γ → Bool := fun q x => P.delta.any fun t => t.1 = q ∧ t.2.2.1 = x
    let startProds : List Prod := P.states.map fun p => ("#StartCFG#", [Sym.var (tripleName ns ng s z p)])
    let prods : List Prod := P.delta.flatMap fun t =>
      let (q, a, x, q1, push) := t
      P.states.flatMap fun p =>
        if push.isEmpty ∧ p ≠ q1 then [] else
          (bodiesOf P valid ns ng q1 p push).map fun body =>
            (tripleName ns ng q x p, (match a with | some c => [Sym.ter c] | none => []) ++ body)
    some (CFG.mk' [] [] (some "#StartCFG#") (startProds ++ prods))
  | _, _ => none

/-- `PDA.intersection` with a deterministic automaton `D` (states `τ`); the product is explored
from the pair of start states; ε-moves of the PDA keep the DFA state -/
def interNext (P : PDA σ γ) (D : ENFA τ) (symOf : String → Option Nat) (pq : σ × τ) :
    List ((σ × τ) × Option String × γ × (σ × τ) × List γ) :=
  (P.inputs.map some ++ [none]).flatMap fun a =>
    let nextD : List τ := match a with
      | none => [pq.2]
      | some c => match symOf c with
        | some k => (D.succs pq.2 (some k)).eraseDups
        | none => []
    if nextD.isEmpty then [] else
      P.stack.flatMap fun x =>
        (P.delta.filter fun (t : σ × Option String × γ × σ × List γ) =>
            t.1 = pq.1 ∧ t.2.1 = a ∧ t.2.2.1 = x).flatMap
          fun (t : σ × Option String × γ × σ × List γ) =>
            nextD.map fun d => (pq, a, x, (t.2.2.2.1, d), t.2.2.2.2)

def inter (P : PDA σ γ) (D : ENFA τ) (symOf : String → Option Nat) (fuel : Nat) :
    Option (PDA (σ × τ) γ) :=
  match P.start, D.starts.head? with
  | some s, some d =>
    (bfs (fun pq => (interNext P D symOf pq).map (·.2.2.2.1)) fuel [(s, d)]).map fun seen =>
      mk' [] [] [] (some (s, d)) P.startStack
        (seen.filter fun pq => pq.1 ∈ P.finals ∧ pq.2 ∈ D.finals)
        (seen.flatMap (interNext P D symOf))
  | _, _ => none

end PDA
end Pfl
