/-
The parse-tree side of the FCFG Earley parser (`FCFG.get_parse_tree`): every chart state carries a
`ParseTree`; the predictor starts a tree `ParseTree(head)`, the scanner and `_advance` build a *new* node with
the sons so far plus the scanned leaf / the tree of the completed state.  Same control flow as
`Pfl/Model/Earley.lean` (the acceptance of a state by `processed.add` does not look at trees), states paired with
their trees.  Core Lean only.
-/
import Pfl.Model.Earley
import Pfl.Oracle.Trees
namespace Pfl
namespace Earley
open FsDag

abbrev TState := EState × PTree

abbrev DictT := List (Key × List TState)

structure TablesT where
  store : Store
  chart : List (List TState)
  processed : List DictT

/-- forgetting the trees -/
def TablesT.erase (T : TablesT) : Tables :=
  { store := T.store, chart := T.chart.map (·.map (·.1)),
    processed := T.processed.map (·.map fun e => (e.1, e.2.map (·.1))) }

/-- `processed.add(i, element)` -/
def procAddT (G : Grammar) (T : TablesT) (i : Nat) (s : TState) : TablesT × Bool :=
  let d := colGet T.processed i
  let k := keyOf G s.1
  let existing := match d.find? (·.1 = k) with
    | some e => e.2
    | none => []
  if existing.any fun o => subsumes T.store o.1.fs s.1.fs then
    let d' := if d.any (·.1 = k) then d else d ++ [(k, [])]
    ({ T with processed := T.processed.set i d' }, false)
  else
    let d' := if d.any (·.1 = k) then d.map fun e => if e.1 = k then (e.1, e.2 ++ [s]) else e
              else d ++ [(k, [s])]
    ({ T with processed := T.processed.set i d' }, true)

def pushIfNewT (G : Grammar) (T : TablesT) (i : Nat) (s : TState) : TablesT :=
  let (T', added) := procAddT G T i s
  if added then { T' with chart := T'.chart.set i (colGet T'.chart i ++ [s]) } else T'

/-- a new node with one more son (`parse_tree.sons = old.sons + [son]`) -/
def addSon (t : PTree) (son : PTree) : PTree := .node t.sym (t.sons ++ [son])

def advanceT (G : Grammar) (T : TablesT) (nx s : TState) : TablesT :=
  let (st1, cl) := copy T.store s.1.fs
  match byPath st1 cl ["head"] with
  | none => { T with store := st1 }
  | some left =>
    let (st2, cr) := copy st1 nx.1.fs
    match byPath st2 cr [toString nx.1.dot] with
    | none => { T with store := st2 }
    | some considered =>
      match unify (st2.length + 2) st2 considered left with
      | .ok st3 =>
        pushIfNewT G { T with store := st3 } s.1.e
          ({ prod := nx.1.prod, b := nx.1.b, e := s.1.e, dot := nx.1.dot + 1, fs := cr }, addSon nx.2 s.2)
      | _ => { T with store := st2 }

def predictorT (G : Grammar) (T : TablesT) (s : TState) : TablesT :=
  match nextSym G s.1 with
  | some (.var v) =>
    let T1 := (G.prods.zip (List.range G.prods.length)).foldl (fun T pk =>
      if pk.1.head = v then
        pushIfNewT G T s.1.e ({ prod := pk.2, b := s.1.e, e := s.1.e, dot := 0, fs := pk.1.feats }, .node (.var pk.1.head) [])
      else T) T
    let snapshot : List TState := (colGet T1.processed s.1.e).flatMap (·.2)
    snapshot.foldl (fun T c =>
      if !(incomplete G c.1) ∧ c.1.b = s.1.e ∧ (prodOf G c.1.prod).head = v then advanceT G T s c else T) T1
  | _ => T

/-- `_scanner`: the leaf is `ParseTree(production.body[dot])` -/
def scannerT (G : Grammar) (T : TablesT) (s : TState) : TablesT :=
  match nextSym G s.1 with
  | some sym => pushIfNewT G T (s.1.e + 1) ({ s.1 with e := s.1.e + 1, dot := s.1.dot + 1 }, addSon s.2 (.node sym []))
  | none => T

def completerT (G : Grammar) (T : TablesT) (s : TState) : TablesT :=
  let head := (prodOf G s.1.prod).head
  let snapshot : List TState := (colGet T.processed s.1.b).flatMap (·.2)
  snapshot.foldl (fun T nx =>
    if incomplete G nx.1 ∧ nextSym G nx.1 = some (.var head) then advanceT G T nx s else T) T

def columnLoopT (G : Grammar) (word : List String) (i : Nat) : Nat → TablesT → Option TablesT
  | 0, _ => none
  | f+1, T =>
    match (colGet T.chart i).getLast? with
    | none => some T
    | some s =>
      let T0 := { T with chart := T.chart.set i (colGet T.chart i).dropLast }
      let T1 :=
        if incomplete G s.1 then
          match nextSym G s.1 with
          | some (.var _) => predictorT G T0 s
          | some (.ter t) => if word[i]? = some t then scannerT G T0 s else T0
          | none => T0
        else completerT G T0 s
      columnLoopT G word i f T1

/-- `get_parse_tree(word)`: `some none` = NotParsableException, `none` = out of fuel -/
def parseTree (G : Grammar) (st0 : Store) (word : List String) (fuel : Nat) : Option (Option PTree) :=
  let n := word.length
  let first : TState := ({ prod := G.prods.length, b := 0, e := 0, dot := 0, fs := G.gammaFeats }, .node (.var "BEGIN") [])
  let T0 : TablesT := { store := st0, chart := List.replicate (n + 1) [], processed := List.replicate (n + 1) [] }
  let T1 := pushIfNewT G T0 0 first
  let rec cols : List Nat → TablesT → Option TablesT
    | [], T => some T
    | i :: rest, T =>
      match columnLoopT G word i fuel T with
      | none => none
      | some T' => cols rest T'
  match cols (List.range (n + 1)) T1 with
  | none => none
  | some T3 =>
    some ((((colGet T3.processed n).flatMap (·.2)).find? fun s =>
      s.1.b = 0 ∧ !(incomplete G s.1) ∧ (prodOf G s.1.prod).head = G.start).map (·.2))

/-- the context-free skeleton the trees are trees of -/
def skeleton (G : Grammar) : CFG :=
  CFG.mk' [] [] (some G.start) (G.prods.map fun p => (p.head, p.body))

/-- `get_parse_tree` on a grammar given as the harness gives it -/
def parseTreeSpec (spec : List ((String × Feat) × List (Sym × Feat))) (start : String) (word : List String)
    (fuel : Nat) : Option (Option PTree) :=
  let (st, G) := buildGrammar spec start
  parseTree G st word fuel

end Earley
end Pfl
