/-
Faithful model of pyformlang.cfg.llone_parser.LLOneParser: the trigger-driven worklists of
`get_first_set` and `get_follow_set` (with `SetQueue`), `get_llone_parsing_table`,
`is_llone_parsable` and the stack machine of `get_llone_parse_tree`.

Members of FIRST / FOLLOW sets and table columns are `Look`: a terminal, `Epsilon()` or the end
marker "$".  Core Lean only.
-/
import Pfl.Model.CFG
import Pfl.Oracle.Trees
namespace Pfl
namespace LL1Lib

inductive Look where
  | ter (t : String)
  | eps          -- `Epsilon()`
  | eof          -- "$"
deriving DecidableEq, Repr

/-- a dict from grammar symbols to sets (lists without repetition) -/
abbrev SetMap (κ α : Type) := List (κ × List α)

variable {κ α : Type} [DecidableEq κ] [DecidableEq α]

def getD (m : SetMap κ α) (k : κ) : List α :=
  match m.find? (·.1 = k) with
  | some e => e.2
  | none => []

def hasKey (m : SetMap κ α) (k : κ) : Bool := m.any (·.1 = k)

/-- `m[k] = v` -/
def setKey (m : SetMap κ α) (k : κ) (v : List α) : SetMap κ α :=
  if hasKey m k then m.map fun e => if e.1 = k then (k, v) else e else m ++ [(k, v)]

def union (a b : List α) : List α := b.foldl (fun acc x => if x ∈ acc then acc else acc ++ [x]) a

/-- `SetQueue`: the list (last element is popped first); `_processing` is its set of members -/
def qpush (q : List κ) (x : κ) : List κ := if x ∈ q then q else q ++ [x]

/-- `_get_triggers`: symbol ↦ heads of the productions mentioning it (one entry per occurrence) -/
def triggers (G : CFG) : List (Sym × String) :=
  G.prods.flatMap fun p => p.2.map fun s => (s, p.1)

def trig (T : List (Sym × String)) (s : Sym) : List String := (T.filter (·.1 = s)).map (·.2)

/-- `_get_first_set_production` -/
def firstProd (F : SetMap Sym Look) (body : List Sym) : List Look :=
  let rec go (acc : List Look) : List Sym → List Look × Bool
    | [] => (acc, true)
    | x :: xs =>
      let acc' := union acc (getD F x)
      if Look.eps ∈ getD F x then go acc' xs else (acc', false)
  let (acc, allEps) := go [] body
  if allEps then acc else acc.filter (· ≠ Look.eps)

/-- `_initialize_first_set` -/
def firstInit (G : CFG) (T : List (Sym × String)) : SetMap Sym Look × List String :=
  let st0 : SetMap Sym Look × List String :=
    G.ters.foldl (fun st t =>
      (setKey st.1 (.ter t) [Look.ter t], (trig T (.ter t)).foldl qpush st.2)) ([], [])
  G.prods.foldl (fun st p =>
    if p.2.isEmpty then (setKey st.1 (.var p.1) [Look.eps], (trig T (.var p.1)).foldl qpush st.2)
    else st) st0

/-- the `while to_process` loop of `get_first_set`; `none` = out of fuel -/
def firstLoop (G : CFG) (T : List (Sym × String)) :
    Nat → SetMap Sym Look → List String → Option (SetMap Sym Look)
  | _, F, [] => some F
  | 0, _, _ :: _ => none
  | fuel+1, F, q =>
    match q.getLast? with
    | none => some F
    | some cur =>
      let q0 := q.dropLast
      let (F', q') := (G.prods.filter (·.1 = cur)).foldl (fun (st : SetMap Sym Look × List String) p =>
        if p.2.isEmpty then st else
          let temp := firstProd st.1 p.2
          let old := getD st.1 (.var p.1)
          let new := union old temp
          let F1 := setKey st.1 (.var p.1) new
          if new.length ≠ old.length then (F1, (trig T (.var p.1)).foldl qpush st.2) else (F1, st.2))
        (F, q0)
      firstLoop G T fuel F' q'

/-- `get_first_set()` -/
def firstSet (G : CFG) (fuel : Nat) : Option (SetMap Sym Look) :=
  let T := triggers G
  let (F, q) := firstInit G T
  firstLoop G T fuel F q

/-- `_get_triggers_follow_set`: head ↦ the body symbols after which only nullable symbols come -/
def followTriggers (G : CFG) (F : SetMap Sym Look) : SetMap Sym Sym :=
  G.prods.foldl (fun m p =>
    let m := if hasKey m (.var p.1) then m else m ++ [(Sym.var p.1, [])]
    let rec go (m : SetMap Sym Sym) : List Sym → SetMap Sym Sym
      | [] => m
      | x :: rest =>
        let m' := if rest.all fun y => Look.eps ∈ getD F y then
            setKey m (.var p.1) (union (getD m (.var p.1)) [x]) else m
        go m' rest
    go m p.2) []

/-- `_initialize_follow_set` -/
def followInit (G : CFG) (F : SetMap Sym Look) (start : Option String) :
    SetMap (Option Sym) Look × List (Option Sym) :=
  let startKey : Option Sym := start.map Sym.var
  let st0 : SetMap (Option Sym) Look × List (Option Sym) := ([(startKey, [Look.eof])], [startKey])
  G.prods.foldl (fun st p =>
    let rec go (st : SetMap (Option Sym) Look × List (Option Sym)) :
        List Sym → SetMap (Option Sym) Look × List (Option Sym)
      | [] => st
      | x :: rest =>
        -- `for component_next in body[i+1:]: follow[x] |= first[next]; break unless nullable`
        let rec add (m : SetMap (Option Sym) Look) : List Sym → SetMap (Option Sym) Look
          | [] => m
          | y :: ys =>
            let m' := setKey m (some x) (union (getD m (some x)) (getD F y))
            if Look.eps ∈ getD F y then add m' ys else m'
        let m1 := add st.1 rest
        let m2 := if Look.eps ∈ getD m1 (some x) then
            setKey m1 (some x) ((getD m1 (some x)).filter (· ≠ Look.eps)) else m1
        let q := if (getD m2 (some x)).isEmpty then st.2 else qpush st.2 (some x)
        go (m2, q) rest
    go st p.2) st0

/-- the `while to_process` loop of `get_follow_set` -/
def followLoop (Tr : SetMap Sym Sym) :
    Nat → SetMap (Option Sym) Look → List (Option Sym) →
    Option (SetMap (Option Sym) Look)
  | _, Fo, [] => some Fo
  | 0, _, _ :: _ => none
  | fuel+1, Fo, q =>
    match q.getLast? with
    | none => some Fo
    | some cur =>
      let q0 := q.dropLast
      let trigd : List Sym := match cur with
        | some c => getD Tr c
        | none => []
      let (Fo', q') := trigd.foldl (fun (st : SetMap (Option Sym) Look × List (Option Sym)) t =>
        let old := getD st.1 (some t)
        let new := union old (getD st.1 cur)
        let Fo1 := setKey st.1 (some t) new
        if new.length ≠ old.length then (Fo1, qpush st.2 (some t)) else (Fo1, st.2)) (Fo, q0)
      followLoop Tr fuel Fo' q'

/-- `get_follow_set()`; keys are symbols (`none` key: a missing start symbol) -/
def followSet (G : CFG) (fuel : Nat) : Option (SetMap (Option Sym) Look) :=
  match firstSet G fuel with
  | none => none
  | some F =>
    let (Fo, q) := followInit G F G.start
    followLoop (followTriggers G F) fuel Fo q

/-- `get_llone_parsing_table()`: entries `(head, column, production)` -/
def table (G : CFG) (fuel : Nat) : Option (List (String × Look × Prod)) :=
  match firstSet G fuel, followSet G fuel with
  | some F, some Fo =>
    let nul := G.nullable
    let ps := G.prods
    let nullableP := ps.filter fun p => p.2.all (· ∈ nul)
    let nonNullableP := ps.filter fun p => !(p.2.all (· ∈ nul))
    some ((nullableP.flatMap fun p =>
        let firsts := union (getD Fo (some (.var p.1))) ((firstProd F p.2).filter (· ≠ Look.eps))
        firsts.map fun a => (p.1, a, p)) ++
      (nonNullableP.flatMap fun p =>
        (firstProd F p.2).map fun a => (p.1, a, p)))
  | _, _ => none

/-- `is_llone_parsable()` -/
def isLLOne (G : CFG) (fuel : Nat) : Option Bool :=
  (table G fuel).map fun tb =>
    tb.all fun e => ((tb.filter fun e' => e'.1 = e.1 ∧ e'.2.1 = e.2.1).length ≤ 1)

/-- the stack machine of `get_llone_parse_tree`: stack of symbols (`none` = "$"), the rest of
the input, the productions applied so far (leftmost order).
Result: `none` = out of fuel, `some none` = NotParsableException -/
def parseLoop (tb : List (String × Look × Prod)) :
    Nat → List (Option Sym) → List String → List Prod → Option (Option (List Prod))
  | 0, _, _, _ => none
  | _, [], _, _ => some none
  | fuel+1, top :: stack, input, out =>
    match top with
    | none => if input.isEmpty then some (some out.reverse) else some none
    | some (.ter t) =>
      match input with
      | a :: rest => if a = t then parseLoop tb fuel stack rest out else some none
      | [] => some none
    | some (.var v) =>
      let look : Look := match input with
        | a :: _ => .ter a
        | [] => .eof
      match tb.filter fun e => e.1 = v ∧ e.2.1 = look with
      | [e] => parseLoop tb fuel (e.2.2.2.map some ++ stack) input (e.2.2 :: out)
      | _ => some none

/-- rebuild the tree from the leftmost sequence of productions -/
def buildTree : Nat → Sym → List Prod → Option (PTree × List Prod)
  | 0, _, _ => none
  | _, .ter t, ps => some (.node (.ter t) [], ps)
  | fuel+1, .var v, ps =>
    match ps with
    | [] => none
    | p :: rest =>
      if p.1 ≠ v then none else
      let rec sons : List Sym → List Prod → Option (List PTree × List Prod)
        | [], ps => some ([], ps)
        | s :: ss, ps =>
          match buildTree fuel s ps with
          | none => none
          | some (t, ps') => (sons ss ps').map fun r => (t :: r.1, r.2)
      (sons p.2 rest).map fun r => (.node (.var v) r.1, r.2)

/-- `get_llone_parse_tree(word)`: `none` = out of fuel, `some none` = NotParsableException.
The start symbol is inspected first: on a grammar without start symbol the library raises
NotParsableException (whatever the word), so the model answers `some none`. -/
def parse (G : CFG) (w : List String) (fuel : Nat) : Option (Option PTree) :=
  match G.start with
  | none => some none
  | some s =>
    match table G fuel with
    | none => none
    | some tb =>
      match parseLoop tb fuel [some (.var s), none] w [] with
      | none => none
      | some none => some none
      | some (some ps) =>
        match buildTree fuel (.var s) ps with
        | some (t, []) => some (some t)
        | _ => none

end LL1Lib
end Pfl
