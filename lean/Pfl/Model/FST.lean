/-
Executable model of pyformlang.fst.FST: translation, union / concatenation / Kleene star with
the library's state renaming, and FiniteAutomaton.to_fst.  `none` is the input "epsilon".
Core Lean only.
-/
import Pfl.Core.Closure
namespace Pfl

structure FST (σ : Type) where
  states : List σ
  inputs : List String
  outputs : List String
  starts : List σ
  finals : List σ
  /-- `(s_from, input | ε, s_to, output word)`, in `_delta` order -/
  delta : List (σ × Option String × σ × List String)
deriving Repr

namespace FST
variable {σ : Type} [DecidableEq σ]

/-- what `add_start_state / add_final_state / add_transition` leave behind -/
def ofParts (starts finals : List σ) (delta : List (σ × Option String × σ × List String)) : FST σ :=
  { states := (starts ++ finals ++ delta.flatMap fun t => [t.1, t.2.2.1]).eraseDups
    inputs := (delta.filterMap (·.2.1)).eraseDups
    outputs := (delta.flatMap (·.2.2.2)).eraseDups.filter (· ≠ "epsilon")
    starts := starts.eraseDups, finals := finals.eraseDups, delta := delta }

/-- a configuration of `translate`: (remaining input, generated so far, state) -/
abbrev Cfg (σ : Type) := List String × List String × σ

/-- `translate(word, max_length)`: depth-first exploration with per-state memo of
`(remaining, generated)`; yields in order; `none` = out of fuel -/
def translateLoop (T : FST σ) (maxLen : Option Nat) :
    Nat → List (Cfg σ) → List (Cfg σ) → List (List String) → Option (List (List String))
  | _, [], _, out => some out.reverse
  | 0, _ :: _, _, _ => none
  | fuel+1, (rem, gen, q) :: stack, seen, out =>
    if (rem, gen, q) ∈ seen then translateLoop T maxLen fuel stack seen out else
    let out' := if rem.isEmpty ∧ q ∈ T.finals then gen :: out else out
    let reads : List (Cfg σ) := match rem with
      | [] => []
      | a :: rest => (T.delta.filter fun t => t.1 = q ∧ t.2.1 = some a).map fun t => (rest, gen ++ t.2.2.2, t.2.2.1)
    let eps : List (Cfg σ) :=
      if (match maxLen with | none => true | some m => decide (gen.length < m)) then
        (T.delta.filter fun t => t.1 = q ∧ t.2.1 = none).map fun t => (rem, gen ++ t.2.2.2, t.2.2.1)
      else []
    -- `to_process.append` then `pop()` from the end: the last pushed is processed first
    translateLoop T maxLen fuel ((reads ++ eps).reverse ++ stack) ((rem, gen, q) :: seen) out'

def translate (T : FST σ) (w : List String) (maxLen : Option Nat) (fuel : Nat) : Option (List (List String)) :=
  translateLoop T maxLen fuel (T.starts.reverse.map fun s => (w, [], s)) [] []

/-- `FSTStateRemaining.add_state` over string-valued states -/
def renameAdd (st : List ((String × Nat) × String) × List String) (state : String) (idx : Nat) :
    List ((String × Nat) × String) × List String :=
  let (ren, seen) := st
  if state ∈ seen then
    let cand := (List.range (seen.length + 1)).map fun c => state ++ toString c
    let nw := (cand.find? fun n => n ∉ seen).getD state
    (ren ++ [((state, idx), nw)], seen ++ [nw])
  else (ren ++ [((state, idx), state)], seen ++ [state])

def renameAll (st : List ((String × Nat) × String) × List String) (states : List String) (idx : Nat) :=
  states.foldl (fun st s => renameAdd st s idx) st

def getName (ren : List ((String × Nat) × String)) (s : String) (idx : Nat) : String :=
  ((ren.find? fun e => e.1 = (s, idx)).map (·.2)).getD s

def mapT (ren : List ((String × Nat) × String)) (idx : Nat) (T : FST String) :
    List (String × Option String × String × List String) :=
  T.delta.map fun t => (getName ren t.1 idx, t.2.1, getName ren t.2.2.1 idx, t.2.2.2)

/-- `union` -/
def union (A B : FST String) : FST String :=
  let ren := (renameAll (renameAll ([], []) A.states 0) B.states 1).1
  ofParts (A.starts.map (getName ren · 0) ++ B.starts.map (getName ren · 1))
    (A.finals.map (getName ren · 0) ++ B.finals.map (getName ren · 1))
    (mapT ren 0 A ++ mapT ren 1 B)

/-- `concatenate` -/
def concatenate (A B : FST String) : FST String :=
  let ren := (renameAll (renameAll ([], []) A.states 0) B.states 1).1
  ofParts (A.starts.map (getName ren · 0)) (B.finals.map (getName ren · 1))
    (mapT ren 0 A ++ mapT ren 1 B ++
      A.finals.flatMap fun f => B.starts.map fun s => (getName ren f 0, none, getName ren s 1, []))

/-- `kleene_star` (after the repair: a fresh state `star…` that is start and final) -/
def kleeneStar (A : FST String) : FST String :=
  let st := renameAdd (renameAll ([], []) A.states 0) "star" 1
  let ren := st.1
  let star := getName ren "star" 1
  ofParts [star] [star]
    (mapT ren 0 A ++ (A.starts.map fun s => (star, none, getName ren s 0, [])) ++
      A.finals.map fun f => (getName ren f 0, none, star, []))

end FST
end Pfl
