/-
Model of `IndexedGrammar.intersection(regex | automaton)` = `FST.intersection(indexed_grammar)`:
the triple construction over the states of the transducer (for a regular language: the identity
transducer of its automaton, `to_fst`), followed by `remove_useless_rules`.
Non-terminals of the result are "S", "T" and the Python `str` of the triples
`(state_p, non_terminal, state_q)` and `(state_p, ("terminal", symbol), state_q)`.  Core Lean only.
-/
import Pfl.Model.Indexed
import Pfl.Model.FST
namespace Pfl
namespace IG
variable {σ : Type} [DecidableEq σ]

/-- `str((p, x, q))` for a string `x` and states printed by `rs` -/
def tripleStr (rs : σ → String) (p : σ) (x : String) (q : σ) : String :=
  "(" ++ rs p ++ ", '" ++ x ++ "', " ++ rs q ++ ")"

/-- `str((p, ("terminal", x), q))`: the triple of a terminal (or of "epsilon"); named apart from the
triple of a non-terminal with the same value (after the repair) -/
def terTripleStr (rs : σ → String) (p : σ) (x : String) (q : σ) : String :=
  "(" ++ rs p ++ ", ('terminal', '" ++ x ++ "'), " ++ rs q ++ ")"

/-- `Rules.terminals`: right sides of end rules, and the index symbols of production and
consumption rules -/
def ruleTerminals (G : IG) : List String :=
  (G.rules.flatMap fun r => match r with
    | .end_ _ t => [t]
    | .prod _ _ f => [f]
    | .cons f _ _ => [f]
    | .dup _ _ _ => []).eraseDups

/-- the rules written by `FST.intersection` before `remove_useless_rules` -/
def interRules (T : FST σ) (rs : σ → String) (G : IG) : List IRule :=
  let Q := T.states
  let tr := tripleStr rs
  let tt := terTripleStr rs
  [IRule.end_ "T" "epsilon"] ++
  -- `_extract_consumption_rules_intersection`
  (G.rules.flatMap fun r => match r with
    | .cons f a b => Q.flatMap fun p => Q.map fun q => IRule.cons f (tr p a q) (tr p b q)
    | _ => []) ++
  -- `_extract_indexed_grammar_rules_intersection`
  (G.rules.flatMap fun r => match r with
    | .dup a b c => Q.flatMap fun p => Q.flatMap fun q => Q.map fun r' =>
        IRule.dup (tr p a q) (tr p b r') (tr r' c q)
    | .prod a b f => Q.flatMap fun p => Q.map fun q => IRule.prod (tr p a q) (tr p b q) f
    | .end_ a t => Q.flatMap fun p => Q.map fun q => IRule.dup (tr p a q) (tt p t q) "T"
    | .cons _ _ _ => []) ++
  -- `_extract_terminals_intersection`
  (G.ruleTerminals.flatMap fun t => Q.flatMap fun p => Q.flatMap fun q => Q.flatMap fun r' =>
    [IRule.dup (tt p t q) (tt p "epsilon" r') (tt r' t q),
     IRule.dup (tt p t q) (tt p t r') (tt r' "epsilon" q)]) ++
  -- `_extract_epsilon_transitions_intersection`
  (Q.flatMap fun p => Q.flatMap fun q => Q.map fun r' =>
    IRule.dup (tt p "epsilon" q) (tt p "epsilon" r') (tt r' "epsilon" q)) ++
  -- `_extract_fst_delta_intersection` (the output word is irrelevant for emptiness)
  (T.delta.map fun t => IRule.end_ (tt t.1 (t.2.1.getD "epsilon") t.2.2.1) (" ".intercalate t.2.2.2)) ++
  -- `_extract_fst_epsilon_intersection`
  (Q.map fun p => IRule.end_ (tt p "epsilon" p) "epsilon") ++
  -- `_extract_fst_duplication_rules_intersection`
  (T.finals.flatMap fun f => T.starts.map fun s => IRule.dup "S" (tr s "S" f) "T")

/-- `fst.intersection(indexed_grammar)` -/
def inter (T : FST σ) (rs : σ → String) (G : IG) : IG :=
  ({ rules := interRules T rs G, start := "S" } : IG).removeUseless

end IG
end Pfl
