/-
Faithful model of `FeatureStructure` WITH sharing: objects are nodes of a store (their index is
their identity), `_pointer` chains, `get_dereferenced`, the destructive `unify`, and the
constructors / observers the harness uses (`build_sfs`, `read_sfs`).  Core Lean only.
-/
import Pfl.Oracle.FsGround
namespace Pfl
namespace FsDag
open FsGround

structure Node where
  value : Option String
  content : List (String × Nat)
  pointer : Option Nat
deriving Repr, DecidableEq

abbrev Store := List Node

def get (st : Store) (i : Nat) : Node := st.getD i { value := none, content := [], pointer := none }

def alloc (st : Store) (n : Node) : Store × Nat := (st ++ [n], st.length)

/-- `get_dereferenced()` (fuel: the number of objects always suffices on acyclic pointer chains) -/
def derefF (st : Store) : Nat → Nat → Nat
  | 0, i => i
  | f+1, i => match (get st i).pointer with
    | some j => derefF st f j
    | none => i

def deref (st : Store) (i : Nat) : Nat := derefF st st.length i

def setPointer (st : Store) (i j : Nat) : Store := st.set i { get st i with pointer := some j }

def lookupC (g : String) : List (String × Nat) → Option Nat
  | [] => none
  | (h, x) :: rest => if h = g then some x else lookupC g rest

inductive Res where
  | ok (st : Store)
  | conflict            -- FeatureStructuresNotCompatibleException
  | fuel
deriving Repr

/-- `a.unify(b)` -/
def unify : Nat → Store → Nat → Nat → Res
  | 0, _, _, _ => .fuel
  | f+1, st, a, b =>
    let ca := deref st a
    let cb := deref st b
    if ca = cb then .ok st else
    let na := get st ca
    let nb := get st cb
    if na.content.isEmpty ∧ nb.content.isEmpty then
      if na.value = nb.value then .ok (setPointer st ca cb)
      else if na.value = none then .ok (setPointer st ca cb)
      else if nb.value = none then .ok (setPointer st cb ca)
      else .conflict
    else
      -- `other.pointer = current`, then every feature of `other` is unified into `current`
      let rec go (st : Store) : List (String × Nat) → Res
        | [] => .ok st
        | (g, y) :: rest =>
          let (st1, x) := match lookupC g (get st ca).content with
            | some x => (st, x)
            | none =>
              let (st', n) := alloc st { value := none, content := [], pointer := none }
              (st'.set ca { get st' ca with content := (get st' ca).content ++ [(g, n)] }, n)
          match unify f st1 x y with
          | .ok st2 => go st2 rest
          | r => r
      go (setPointer st cb ca) nb.content

/-- `get_feature_by_path(path)` from node `i`; `none` = PathDoesNotExistsException -/
def byPath (st : Store) (i : Nat) : List String → Option Nat
  | [] => some i
  | g :: rest =>
    match lookupC g (get st (deref st i)).content with
    | some x => byPath st x rest
    | none => none

/-- the harness's `build_sfs`: a root record, an "agr" sub-record for two-step paths, one leaf
object per path; a variable leaf points to the object shared by all occurrences of the variable -/
def buildInto (st0 : Store) (s : SFS) : Store × Nat :=
  let root := st0.length
  let addField (st : Store) (rec_ : Nat) (g : String) (x : Nat) : Store :=
    st.set rec_ { get st rec_ with content := (get st rec_).content ++ [(g, x)] }
  let init : Store × List (String × Nat) × Option Nat :=
    (st0 ++ [{ value := none, content := [], pointer := none }], [], none)
  let r := s.foldl (fun (acc : Store × List (String × Nat) × Option Nat) e =>
    let (st, vars, agr) := acc
    -- the leaf object
    let (st1, vars1, leaf) : Store × List (String × Nat) × Nat := match e.2 with
      | .atom v => let (st', n) := alloc st { value := some v, content := [], pointer := none }; (st', vars, n)
      | .free => let (st', n) := alloc st { value := none, content := [], pointer := none }; (st', vars, n)
      | .var x =>
        let (st', vars', vn) : Store × List (String × Nat) × Nat := match lookupC x vars with
          | some vn => (st, vars, vn)
          | none => let (st', vn) := alloc st { value := none, content := [], pointer := none }
                    (st', vars ++ [(x, vn)], vn)
        let (st'', n) := alloc st' { value := none, content := [], pointer := some vn }
        (st'', vars', n)
    match e.1 with
    | [g] => (addField st1 root g leaf, vars1, agr)
    | [_, g] =>
      let (st2, agrId) : Store × Nat := match agr with
        | some a => (st1, a)
        | none => let (st', a) := alloc st1 { value := none, content := [], pointer := none }
                  (addField st' root "agr" a, a)
      (addField st2 agrId g leaf, vars1, some agrId)
    | _ => (st1, vars1, agr)) init
  (r.1, root)

def build (s : SFS) : Store × Nat := buildInto [] s

/-- build both operands in one store and unify the first with the second -/
def unifySFS (a b : SFS) (fuel : Nat) : Res × Nat :=
  let (st1, ra) := buildInto [] a
  let (st2, rb) := buildInto st1 b
  (unify fuel st2 ra rb, ra)

/-- the harness's `read_sfs`: for every path that exists and ends in a leaf, its atom or the
sharing class (identity of the dereferenced leaf, numbered by first occurrence) -/
def read (st : Store) (root : Nat) (paths : List (List String)) : SFS :=
  (paths.foldl (fun (acc : SFS × List Nat) p =>
    match byPath st root p with
    | none => acc
    | some n =>
      let d := deref st n
      let nd := get st d
      if !nd.content.isEmpty then acc else
      match nd.value with
      | some v => (acc.1 ++ [(p, Leaf.atom v)], acc.2)
      | none =>
        match acc.2.idxOf? d with
        | some k => (acc.1 ++ [(p, Leaf.var ("c" ++ toString k))], acc.2)
        | none => (acc.1 ++ [(p, Leaf.var ("c" ++ toString acc.2.length))], acc.2 ++ [d])) ([], [])).1

end FsDag
end Pfl
