/-
Model and oracle for feature structures without sharing: values are atoms, unspecified, or
records of features.  `unify` is the textbook greatest lower bound in the subsumption order.
Core Lean only.
-/
namespace Pfl

inductive FS where
  | unspec
  | atom (v : String)
  | node (fields : List (String × FS))
deriving Repr, Inhabited

namespace FS

/-- look a feature up in a record -/
def lookup (f : String) : List (String × FS) → Option FS
  | [] => none
  | (g, x) :: rest => if g = f then some x else lookup f rest

mutual
/-- `unify a b`: the most general structure carrying the information of both; `none` when two
different atomic values (or an atom and a record) meet on a shared path -/
def unify : FS → FS → Option FS
  | .unspec, b => some b
  | a, .unspec => some a
  | .atom v, .atom w => if v = w then some (.atom v) else none
  | .atom v, .node fs => if fs.isEmpty then some (.atom v) else none
  | .node fs, .atom w => if fs.isEmpty then some (.atom w) else none
  | .node fs, .node gs => (unifyFields fs gs).map .node
/-- merge the fields of `gs` into `fs` (order: the receiver's fields first, as the library does) -/
def unifyFields : List (String × FS) → List (String × FS) → Option (List (String × FS))
  | fs, [] => some fs
  | fs, (g, y) :: rest =>
    match lookup g fs with
    | none => unifyFields (fs ++ [(g, y)]) rest
    | some x =>
      match unify x y with
      | none => none
      | some z => unifyFields (fs.map fun e => if e.1 = g then (e.1, z) else e) rest
end

/-- all `(path, atomic value | unspecified)` leaves, the library's observable content -/
partial def leaves : FS → List (List String × Option String)
  | .unspec => [([], none)]
  | .atom v => [([], some v)]
  | .node [] => [([], none)]
  | .node fs => fs.flatMap fun e => (leaves e.2).map fun l => (e.1 :: l.1, l.2)

end FS
end Pfl
