/-
Model of `CFG.to_text` / `CFG.from_text` at character level: one line per production
(`str(head) + " -> " + " ".join(to_text of the body)`), lines joined by "\n"; the reader uses
`str.splitlines`, `str.strip`, `str.split("->")`, `str.split("|")`, `str.split()` and the component
classification of `Pfl/Model/Codec.lean`.  `up` stands for Python's `str.isupper` on the first character
of a terminal (Unicode-aware; only assumed to hold on ASCII capitals).  Core Lean only.
-/
import Pfl.Model.Codec
import Pfl.Model.LabelCodec
namespace Pfl
namespace TextCodec
open Codec

/-- `str.isspace` (also what `str.split()` and `str.strip()` use) -/
def isSpace (c : Char) : Bool :=
  let n := c.toNat
  (0x09 ≤ n && n ≤ 0x0D) || (0x1C ≤ n && n ≤ 0x20) || n = 0x85 || n = 0xA0 || n = 0x1680 ||
  (0x2000 ≤ n && n ≤ 0x200A) || n = 0x2028 || n = 0x2029 || n = 0x202F || n = 0x205F || n = 0x3000

/-- the line boundaries of `str.splitlines` -/
def isLineBreak (c : Char) : Bool :=
  let n := c.toNat
  n = 0x0A || n = 0x0B || n = 0x0C || n = 0x0D || n = 0x1C || n = 0x1D || n = 0x1E || n = 0x85 ||
  n = 0x2028 || n = 0x2029

/-- `str.splitlines()`: "\r\n" is one boundary, no empty last line.  `afterCR`: the previous character was
a '\r' whose line is already emitted, a '\n' now belongs to the same boundary -/
def splitLinesAux : List Char → List Char → Bool → List (List Char)
  | [], cur, _ => if cur.isEmpty then [] else [cur.reverse]
  | c :: rest, cur, afterCR =>
    if afterCR && c = '\n' then splitLinesAux rest cur false
    else if isLineBreak c then cur.reverse :: splitLinesAux rest [] (c = '\r')
    else splitLinesAux rest (c :: cur) false

def splitLines (s : List Char) : List (List Char) := splitLinesAux s [] false

/-- `str.strip()` -/
def strip (s : List Char) : List Char :=
  ((s.dropWhile isSpace).reverse.dropWhile isSpace).reverse

/-- `str.split()`: maximal runs of non-space characters -/
def splitWsAux : List Char → List Char → List (List Char)
  | [], cur => if cur.isEmpty then [] else [cur.reverse]
  | c :: rest, cur =>
    if isSpace c then (if cur.isEmpty then splitWsAux rest [] else cur.reverse :: splitWsAux rest [])
    else splitWsAux rest (c :: cur)

def splitWs (s : List Char) : List (List Char) := splitWsAux s []

inductive TSym where
  | var (v : List Char)
  | ter (t : List Char)
deriving DecidableEq, Repr

abbrev TProd := List Char × List TSym

/-- `Terminal.to_text` with Python's `isupper` -/
def terText (up : Char → Bool) (t : List Char) : List Char :=
  match t with
  | c :: _ => if up c then "\"TER:".toList ++ t ++ ['"'] else t
  | [] => t

def symText (up : Char → Bool) : TSym → List Char
  | .var v => varToText v
  | .ter t => terText up t

def joinWith (sep : List Char) : List (List Char) → List Char
  | [] => []
  | [x] => x
  | x :: rest => x ++ sep ++ joinWith sep rest

/-- one line of `to_text` -/
def lineOf (up : Char → Bool) (p : TProd) : List Char :=
  p.1 ++ " -> ".toList ++ joinWith [' '] (p.2.map (symText up))

/-- `CFG.to_text` (productions in set-iteration order) -/
def toText (up : Char → Bool) (prods : List TProd) : List Char :=
  joinWith ['\n'] (prods.map (lineOf up)) ++ ['\n']

/-- `_read_line`; `none` = the line does not split in two at "->" (ValueError) -/
def readLine (line : List Char) : Option (List TProd) :=
  match LabelCodec.split "->".toList line with
  | [h, b] =>
    let head := strip h
    let head := if isSpecial head then (head.drop 5).dropLast else head
    some ((LabelCodec.split ['|'] b).map fun sub =>
      (head, (splitWs sub).filterMap fun c =>
        match readComponent c with
        | .var v => some (.var v)
        | .ter t => some (.ter t)
        | .eps => none))
  | _ => none

def allSome {α : Type} : List (Option α) → Option (List α)
  | [] => some []
  | none :: _ => none
  | some a :: rest => (allSome rest).map (a :: ·)

/-- `CFG.from_text`: the productions read, in order of appearance (a set in Python) -/
def fromText (text : List Char) : Option (List TProd) :=
  (allSome (((splitLines text).map strip).filter (fun l => !l.isEmpty) |>.map readLine)).map List.flatten

end TextCodec
end Pfl
