/-
`IndexedGrammar` as an object: `self.marked` is an attribute.  `__init__` fills it
(`Lib.initTable`), and `is_empty()` never resets it: every call runs the `while was_modified` loop
on whatever the previous calls left (pyformlang/indexed_grammar/indexed_grammar.py, comment "We
cache the marked items in case of future update of the query").  `Pfl/Model/IndexedMark.lean`
models one call on a fresh object (`Lib.loop` started from `initTable`); here the loop also hands
back the table it leaves, and a history of calls is threaded through it.

Which table is left.  `_duplication_processing` / `_production_process` write to `self.marked`
and only then report `need_stop`; `is_empty` returns `False` right after that call, without undoing
anything.  So on an early stop the table left is the one after the call that asked to stop (the
first component of `Lib.pass`, which is `Lib.ruleProcess … .1` of that call: for a duplication
rule all loops and the delayed additions have run, for a production rule the additions made before
the `return`).  On a regular end it is the table after the last pass (which changed nothing).

Core Lean only.
-/
import Pfl.Model.IndexedMark
namespace Pfl
namespace IG
namespace Obj
open Pfl.IG.Lib

/-- one call of `is_empty()` on an object whose `marked` is `T`, sets iterated in the order `ord`:
the verdict and the `marked` it leaves; `none` = out of fuel (one unit per pass) -/
def loopT (ord : List SetS → List SetS) (G : IG) : Nat → Table → Option (Bool × Table)
  | 0, _ => none
  | fuel + 1, T =>
    let res := pass ord G (libRules G) T false
    if res.2.2 then some (false, res.1)
    else if res.2.1 then loopT ord G fuel res.1
    else some (!decide ([] ∈ get res.1 G.start), res.1)

/-- successive calls of `is_empty()` on one object, the `i`-th one iterating its sets in the order
`ords[i]` (the iteration order of a Python `set` may change when the set grows): the verdicts in
call order and the final `marked`.  Every call gets `fuel` passes. -/
def runCallsO (G : IG) (fuel : Nat) : List (List SetS → List SetS) → Table →
    Option (List Bool × Table)
  | [], T => some ([], T)
  | ord :: ords, T =>
    match loopT ord G fuel T with
    | none => none
    | some (b, T') =>
      match runCallsO G fuel ords T' with
      | none => none
      | some (bs, T'') => some (b :: bs, T'')

/-- `n` successive calls of `is_empty()` on one object whose `marked` is `T` before the first one,
all with the same iteration order -/
def runCalls (ord : List SetS → List SetS) (G : IG) (fuel : Nat) : Nat → Table →
    Option (List Bool × Table)
  | 0, T => some ([], T)
  | n + 1, T =>
    match loopT ord G fuel T with
    | none => none
    | some (b, T') =>
      match runCalls ord G fuel n T' with
      | none => none
      | some (bs, T'') => some (b :: bs, T'')

/-- `g = IndexedGrammar(Rules(G.rules, optim=0), G.start); [g.is_empty() for _ in range(n)]`,
sets iterated in insertion order -/
def isEmptyCalls (G : IG) (fuel n : Nat) : Option (List Bool) :=
  (runCalls id G fuel n (initTable G)).map (·.1)

end Obj
end IG
end Pfl
