/-
Model of an `FST` *object* built through the public API (C19 / C16): `_states`, `_input_symbols`,
`_output_symbols`, `_start_states`, `_final_states` and `_delta`, a dict from `(state, input)` to the
*list* of `(state, output word)` in insertion order (the same transition added twice is kept twice).
`toFST` reads the object as the value (`Pfl.FST`) the models of C16 work on.  Core Lean only.
-/
import Pfl.Model.FST
namespace Pfl
namespace FSTObj

abbrev Key := String × Option String
abbrev Table := List (Key × List (String × List String))

structure Obj where
  states  : List String
  inputs  : List String
  outputs : List String
  starts  : List String
  finals  : List String
  delta   : Table
deriving Repr

def new : Obj := ⟨[], [], [], [], [], []⟩

/-- `set.add` -/
def ins (x : String) (l : List String) : List String := if x ∈ l then l else l ++ [x]

def insAll (xs : List String) (l : List String) : List String := xs.foldl (fun acc x => ins x acc) l

/-- `self._delta[head].append(...)` or a new entry -/
def addT (T : Table) (k : Key) (o : String × List String) : Table :=
  if T.any (·.1 = k) then T.map fun e => if e.1 = k then (e.1, e.2 ++ [o]) else e else T ++ [(k, [o])]

inductive Op where
  | addT (q : String) (a : Option String) (r : String) (out : List String)
  | addStart (q : String)
  | addFinal (q : String)
deriving Repr

/-- one mutator call; the output symbol spelled `epsilon` is not registered -/
def step (o : Obj) : Op → Obj
  | .addT q a r out =>
    { o with states := ins r (ins q o.states)
             inputs := match a with | some c => ins c o.inputs | none => o.inputs
             outputs := insAll (out.filter (· ≠ "epsilon")) o.outputs
             delta := addT o.delta (q, a) (r, out) }
  | .addStart q => { o with states := ins q o.states, starts := ins q o.starts }
  | .addFinal q => { o with finals := ins q o.finals, states := ins q o.states }

def run (o : Obj) (ops : List Op) : Obj := ops.foldl step o

/-- the transitions present, in `_delta` order -/
def edges (T : Table) : List (String × Option String × String × List String) :=
  T.flatMap fun e => e.2.map fun out => (e.1.1, e.1.2, out.1, out.2)

/-- `get_number_transitions()` -/
def numTransitions (T : Table) : Nat := (T.map fun e => e.2.length).sum

def toFST (o : Obj) : FST String :=
  { states := o.states, inputs := o.inputs, outputs := o.outputs, starts := o.starts,
    finals := o.finals, delta := edges o.delta }

/-- the transitions a history adds, in order, repetitions included -/
def added : List Op → List (String × Option String × String × List String)
  | [] => []
  | .addT q a r out :: ops => (q, a, r, out) :: added ops
  | _ :: ops => added ops

end FSTObj
end Pfl
