/-
Model of the text side of `RecursiveAutomaton.from_ebnf`: the text is cut into lines (`str.splitlines`),
every line is stripped, lines without "->" are skipped, the others are split at "->" into head and body
(both stripped; ValueError when the line holds "->" twice), an empty body stands for ε, spelled "epsilon"
(`Epsilon().to_text()`), and the
bodies of one head are joined by " | " in order of appearance (a dict: heads in first-appearance order).
Each body text is then handed to `Regex(...)` (the reader of `Pfl/Model/Regex.lean`) and the box is
`to_epsilon_nfa().minimize()`.  Core Lean only.
-/
import Pfl.Model.TextCodec
namespace Pfl
namespace Ebnf
open TextCodec

def arrow : List Char := "->".toList

/-- `"->" in line` -/
def hasArrow (line : List Char) : Bool := (LabelCodec.split arrow line).length != 1

/-- `productions[head] += " | " + body` / `productions[head] = body` -/
def addBody (d : List (List Char × List Char)) (head body : List Char) : List (List Char × List Char) :=
  if d.any (·.1 = head) then d.map fun e => if e.1 = head then (e.1, e.2 ++ " | ".toList ++ body) else e
  else d ++ [(head, body)]

/-- the loop over the lines; `none` = ValueError (a line with more than one "->") -/
def readLines : List (List Char) → List (List Char × List Char) → Option (List (List Char × List Char))
  | [], d => some d
  | line :: rest, d =>
    let line := strip line
    if !hasArrow line then readLines rest d else
    match LabelCodec.split arrow line with
    | [h, b] =>
      let head := strip h
      let body := strip b
      let body := if body.isEmpty then "epsilon".toList else body
      readLines rest (addBody d head body)
    | _ => none

/-- the `productions` dict of `from_ebnf`: head ↦ text handed to `Regex` -/
def bodies (text : List Char) : Option (List (List Char × List Char)) :=
  readLines (splitLines text) []

end Ebnf
end Pfl
