/-
Model of EpsilonNFA.to_regex (state elimination) at the level of regular-expression trees.

The library assembles *strings* ("(" + a + ")*", a + "." + b, "((" + a + ")+(" + b + "))") that
`Regex` then parses; here every such assembly is the corresponding tree constructor (`star`,
`cat`, `alt`).  The harness compares the tree parsed from the implementation's string with this
model up to associativity of `cat` and associativity / commutativity / idempotence of `alt` (the only freedom
left by set iteration order and by how the reader nests chains), feeding the recorded
elimination order.  States are `Option σ`: `none` is the fresh `Start` state added when there
are several start states.  Core Lean only.
-/
import Pfl.Model.Regex
namespace Pfl
namespace ToRegex
variable {τ : Type} [DecidableEq τ]

/-- a generalised automaton: edges labelled by regular expressions -/
abbrev Edges (τ : Type) := List (τ × Rx × τ)

/-- `_create_or_transitions`: all edges from `p` to `r` become one edge labelled by their union -/
def orEdges (states : List τ) (es : Edges τ) : Edges τ :=
  states.flatMap fun p =>
    let outs := es.filter (·.1 = p)
    (outs.map (·.2.2)).eraseDups.filterMap fun r =>
      match ((outs.filter (·.2.2 = r)).map (·.2.1)).eraseDups with   -- equal labels are one Symbol
      | [] => none
      | l :: ls => some (p, ls.foldl Rx.alt l, r)

/-- `_remove_state(q)` on an automaton whose edges have been merged -/
def removeState (states : List τ) (es : Edges τ) (q : τ) : List τ × Edges τ :=
  let outs := es.filter (·.1 = q)
  let loop := (outs.filter (·.2.2 = q)).map (·.2.1)
  let outs' : List (Rx × τ) := (outs.filter (·.2.2 ≠ q)).map fun e =>
    (match loop with
     | [] => e.2.1
     | l :: ls => Rx.cat (Rx.star (ls.foldl Rx.alt l)) e.2.1, e.2.2)
  let ins := es.filter fun e => e.2.2 = q ∧ e.1 ≠ q
  let rest := es.filter fun e => e.1 ≠ q ∧ e.2.2 ≠ q
  let added : Edges τ := ins.flatMap fun e => outs'.map fun o => (e.1, Rx.cat e.2.1 o.1, o.2)
  let states' := states.filter (· ≠ q)
  (states', orEdges states' (rest ++ added))

/-- `get_temp` (`none` is the empty string, `some eps` the string "epsilon") -/
def getTemp (se : Rx) (es : Option Rx) (ee : Rx) : Option Rx × Rx :=
  let t0 : Option Rx := if se = .eps ∧ ee = .eps ∧ es = some .eps then some .eps else none
  let t1 : Option Rx := if se ≠ .eps then some se else t0
  let t2 : Option Rx := if ee ≠ .eps then
      (match t1 with
       | some t => some (.cat t (.star ee))
       | none => some (.star ee))
    else t1
  let part1 := t2.getD .eps
  let t3 : Option Rx :=
    match es with
    | none => none
    | some e => if e ≠ .eps then
        (match t2 with
         | some t => some (.cat t e)
         | none => some e)
      else t2
  (t3, part1)

/-- `get_regex_sub`; `none` is the empty string (no regex for this final state) -/
def regexSub (ss : Rx) (se : Option Rx) (es : Option Rx) (ee : Rx) : Option Rx :=
  match se with
  | none => none
  | some se =>
    let (temp, part1) := getTemp se es ee
    let part0 : Rx :=
      if ss ≠ .eps then
        (match temp with
         | some t => .star (.alt ss t)
         | none => .star ss)
      else
        (match temp with
         | some t => if t ≠ .eps then .star t else .eps
         | none => .eps)
    some (.cat part0 part1)

def labelOf (es : Edges τ) (p r : τ) : Option Rx :=
  match (es.filter fun e => e.1 = p ∧ e.2.2 = r).map (·.2.1) with
  | [] => none
  | l :: ls => some (ls.foldl Rx.alt l)

/-- `_get_regex_simple` once only the start and the final state are left -/
def simple (es : Edges τ) (start final : τ) : Option Rx :=
  if start = final then
    match labelOf es start start with
    | some l => if l ≠ .eps then some (.star l) else some .eps
    | none => some .eps
  else
    regexSub ((labelOf es start start).getD .eps) (labelOf es start final)
      (labelOf es final start) ((labelOf es final final).getD .eps)

/-- the regex of one final state: eliminate every other state (first those of `order`, in that
order, then whatever is left), then read off the two-state automaton -/
def regexFor (states : List τ) (es : Edges τ) (start final : τ) (order : List τ) : Option Rx :=
  let victims := (order.filter fun q => q ∈ states ∧ q ≠ start ∧ q ≠ final).eraseDups
  let victims := victims ++ states.filter fun q => q ≠ start ∧ q ≠ final ∧ q ∉ victims
  let init := (states, orEdges states es)
  let fin := victims.foldl (fun st q => removeState st.1 st.2 q) init
  simple fin.2 start final

end ToRegex

namespace ENFA
variable {σ : Type} [DecidableEq σ]
open ToRegex

/-- the labelled graph `to_regex` starts from; with several start states a fresh state `none`
is put in front -/
def toGraph (A : ENFA σ) (symName : Nat → String) : List (Option σ) × Edges (Option σ) × Option (Option σ) :=
  let lab : Option Nat → Rx := fun a => match a with
    | none => .eps
    | some a => .sym (symName a)
  let es : Edges (Option σ) := A.delta.eraseDups.map fun t => (some t.1, lab t.2.1, some t.2.2)
  let sts := A.states.map some
  match A.starts.eraseDups with
  | [] => (sts, es, none)
  | [s] => (sts, es, some (some s))
  | ss => (sts ++ [none], es ++ ss.map (fun s => (none, Rx.eps, some s)), some none)

/-- `to_regex()`; `order f` is the elimination order used for the copy whose only final state
is `f` (any list: missing states are eliminated afterwards); `none` final parts are skipped and
an empty union is the `Empty` regex -/
def toRegexRx (A : ENFA σ) (symName : Nat → String) (order : σ → List (Option σ)) : Rx :=
  let (sts, es, start) := A.toGraph symName
  match start with
  | none => .empty
  | some s =>
    match A.finals.eraseDups.filterMap fun f => regexFor sts es s (some f) (order f) with
    | [] => .empty
    | r :: rs => rs.foldl Rx.alt r

end ENFA
end Pfl
