/-
Model of the CFG text codec at token level: `Variable.to_text`, `Terminal.to_text` and the
classification of one body component in `CFG._read_line` (after the repair that honours "TER:").
Tokens are `List Char`.  Core Lean only.
-/
import Pfl.Model.CFG
namespace Pfl
namespace Codec

def isUpper (c : Char) : Bool := 'A' ≤ c && c ≤ 'Z'

/-- `Variable.to_text` -/
def varToText (v : List Char) : List Char :=
  match v with
  | c :: _ => if isUpper c then v else "\"VAR:".toList ++ v ++ ['"']
  | [] => v

/-- `Terminal.to_text` (`str.isupper` on one cased ASCII character) -/
def terToText (t : List Char) : List Char :=
  match t with
  | c :: _ => if isUpper c then "\"TER:".toList ++ t ++ ['"'] else t
  | [] => t

/-- `is_special_text` -/
def isSpecial (s : List Char) : Bool :=
  s.length > 5 && (s.take 5 = "\"VAR:".toList || s.take 5 = "\"TER:".toList) && s.getLast? = some '"'

def epsilonSpellings : List (List Char) := ["epsilon".toList, "$".toList, "ε".toList, "ϵ".toList, "Є".toList]

inductive Comp where
  | var (v : List Char)
  | ter (t : List Char)
  | eps
deriving DecidableEq, Repr

/-- classification of one whitespace-free body component -/
def readComponent (c : List Char) : Comp :=
  let (ty, body) := if isSpecial c then ((c.drop 1).take 3, (c.drop 5).dropLast) else ([], c)
  if ty = "VAR".toList || (ty ≠ "TER".toList && (match body with | ch :: _ => isUpper ch | [] => false)) then .var body
  else if body ∉ epsilonSpellings || ty = "TER".toList then .ter body
  else .eps

end Codec
end Pfl
