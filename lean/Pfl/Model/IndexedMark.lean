/-
Step-faithful model of the marking loop behind `IndexedGrammar.is_empty()`
(pyformlang/indexed_grammar/indexed_grammar.py): the dict `marked`, `__init__`,
`_duplication_processing`, `_production_process`, `addrec_bis`, `addrec_ter` and the outer loop of
`is_empty`, following the Python control flow (which table is read when, which additions are
delayed, the early stops).  `Pfl/Model/Indexed.lean` models the same verdict as plain saturation;
`Pfl/Props/C17_Lib.lean` proves that the loop modelled here is exact as well, hence independent of
the order of the rules.

Representation.  A Python `frozenset` of non-terminals is a canonical list (sorted, duplicate free:
`normS` / `unionS` of the saturation model); `frozenset()` is `[]`, `frozenset({A})` is `[A]`.
A Python `set` of frozensets is a duplicate-free list in insertion order; the dict `marked` is an
association list.

Iteration order.  The iteration order of a Python `set` is not specified (for frozensets of
strings it changes with PYTHONHASHSEED).  Order *inside* a frozenset is never observable (canonical
lists).  The order in which a `set` of frozensets is iterated is NOT observable in the verdict nor
in the table at a regular end of the loop (theorems `isEmptyLibO_iff`, `isEmptyLibO_ord` in
`Pfl/Props/C17_Lib.lean`), but it IS observable in the table after a single call: the sets in
`l_temp` are live, so in `addrec_bis` a set of `marked[rule.right_term]` treated later sees more
alternatives than one treated earlier (likewise the outer loop of `_duplication_processing` when
the left term is the second right term, and the early `return` of the 'is it useful' branch).  The
real library is non-deterministic there (checked: different PYTHONHASHSEED, different `marked`
after the same call).  The model therefore takes the iteration order as a parameter
`ord : List SetS → List SetS` (applied to a set given in insertion order wherever a live `set` is
iterated and the order can matter); the theorems hold for every `ord` that keeps the members.
`isEmptyLib`, `traceLib` use insertion order (`ord = id`).  For an exact differential check after
every call use `stepLib`: feed the real `marked` dict before the call with every set listed in
Python's iteration order (`list(s)`); the sets iterated with an observable order are not written
before they are iterated, so `stepLib` then reproduces the call exactly (table as a set of sets
and both Booleans).

Core Lean only.
-/
import Pfl.Model.Indexed
namespace Pfl
namespace IG
namespace Lib

/-- a `frozenset` of non-terminals in canonical form -/
abbrev SetS := List String

/-- the dict `self.marked`: non-terminal ↦ its marked sets, in insertion order -/
abbrev Table := List (String × List SetS)

/-- `self.marked[a]` (every non-terminal of the grammar is a key; `[]` for a foreign key, which
the library never looks up) -/
def get : Table → String → List SetS
  | [], _ => []
  | (k, v) :: T, a => if k = a then v else get T a

/-- append `E` to the entry of `a` (a foreign key gets a fresh entry; unreachable for the library,
which only writes to keys created by `__init__`) -/
def put : Table → String → SetS → Table
  | [], a, E => [(a, [E])]
  | (k, v) :: T, a, E => if k = a then (k, v ++ [E]) :: T else (k, v) :: put T a E

/-- `self.marked[a].add(E)` -/
def add (T : Table) (a : String) (E : SetS) : Table :=
  if E ∈ get T a then T else put T a E

/-- `for temp in l: self.marked[a].add(temp)` -/
def addAll (T : Table) (a : String) (l : List SetS) : Table :=
  l.foldl (fun T E => add T a E) T

/-! ### `Rules.__init__` (with `optim = 0`) -/

def isCons : IRule → Bool
  | .cons _ _ _ => true
  | _ => false

/-- `Rules.rules`: the non-consumption rules in the given order, a rule equal (`__eq__`) to an
earlier one is dropped -/
def libRules (G : IG) : List IRule := (G.rules.filter fun r => !isCons r).eraseDups

/-- `Rules.consumption_rules[f]` as pairs `(left_term, right)`, in rule order, duplicates dropped
(`setdefault(f, [])`: the empty list for an index without consumption rule) -/
def consRules (G : IG) (f : String) : List (String × String) :=
  (G.rules.filterMap fun r => match r with
    | .cons f' a b => if f' = f then some (a, b) else none
    | _ => none).eraseDups

/-- `exists(self.rules.rules, lambda x: x.is_end_rule() and x.left_term == a)` -/
def hasEnd (G : IG) (a : String) : Bool :=
  G.rules.any fun r => match r with
    | .end_ a' _ => a' = a
    | _ => false

/-- `IndexedGrammar.__init__`: `marked[A] = {frozenset({A})}` for every non-terminal (those of the
rules and the start variable), then `frozenset()` is added for those with an end rule -/
def initTable (G : IG) : Table :=
  G.nonTerminals.foldl (fun T a => if hasEnd G a then add T a [] else T)
    (G.nonTerminals.map fun a => (a, [[a]]))

section
variable (ord : List SetS → List SetS)

/-! ### `_duplication_processing` -/

/-- lines 74–79: `temp` is the larger of the two sets when one contains the other, else the union -/
def dupTemp (E0 E1 : SetS) : SetS :=
  if E0.all (fun x => x ∈ E1) then E1
  else if E1.all (fun x => x ∈ E0) then E0
  else unionS E0 E1

/-- loop state of `_duplication_processing`: the live table, the delayed lists
`right_term_marked0` / `right_term_marked1`, `was_modified`, `need_stop` -/
structure DupSt where
  T : Table
  d0 : List SetS
  d1 : List SetS
  mod : Bool
  stop : Bool
deriving Repr

/-- body of the inner loop (lines 74–92) for `marked_term0 = E0`, `marked_term1 = E1`; rule
`a → b c`.  The membership test reads the live `marked[a]`; the addition is immediate only when
`a` is neither `b` nor `c` -/
def dupInner (start a b c : String) (E0 : SetS) (st : DupSt) (E1 : SetS) : DupSt :=
  let temp := dupTemp E0 E1
  if temp ∈ get st.T a then st else
  let stop := st.stop || (a == start && temp.isEmpty)
  if a = b then { st with d0 := st.d0 ++ [temp], mod := true, stop := stop }
  else if a = c then { st with d1 := st.d1 ++ [temp], mod := true, stop := stop }
  else { st with T := add st.T a temp, mod := true, stop := stop }

/-- body of the outer loop (lines 72–94): `right_term_marked1 = []`, the inner loop over the live
`marked[c]` (not written during that loop), then the delayed additions to `marked[c]` -/
def dupOuter (start a b c : String) (st : DupSt) (E0 : SetS) : DupSt :=
  let st1 := (ord (get st.T c)).foldl (dupInner start a b c E0) { st with d1 := [] }
  { st1 with T := addAll st1.T c st1.d1, d1 := [] }

/-- `_duplication_processing(DuplicationRule(a, b, c))`: outer loop over `marked[b]` (never
written during the loop), the delayed additions to `marked[b]`, result
`(table, was_modified, need_stop)` -/
def dupProcess (start a b c : String) (T : Table) : Table × Bool × Bool :=
  let st := (ord (get T b)).foldl (dupOuter ord start a b c) ⟨T, [], [], false, false⟩
  (addAll st.T b st.d0, st.mod, st.stop)

/-! ### `addrec_ter`, `addrec_bis`, `_production_process` -/

/-- lines 440–444 of `addrec_ter`: `alternatives` (one entry per non-terminal, in order of first
occurrence in `l_sets`, its value the union of the sets marked for the right sides of its
consumption rules, read from the table at the time of the call — `update` copies).  The stable
sort by size (`choices = sorted(…)`) only changes the order of exploration and is not modelled:
the leaves are unions, which do not depend on the order of the factors. -/
def choicesOf (T : Table) (lsets : List (String × String)) : List (List SetS) :=
  (lsets.map (·.1)).eraseDups.map fun s =>
    ((lsets.filter fun x => x.1 = s).flatMap fun x => get T x.2).eraseDups

/-- one level of the exploration (lines 456–460): all `new_temp.union(marked_set)`, deduplicated
as by `done` -/
def leafStep (acc : List SetS) (ch : List SetS) : List SetS :=
  (acc.flatMap fun t => ch.map fun m => unionS t m).eraseDups

/-- the sets reaching `index >= len(choices)`: every union of one choice per non-terminal.  The
depth-first exploration with the `done` set visits exactly these (level by level here). -/
def leavesOf (choices : List (List SetS)) : List SetS := choices.foldl leafStep [[]]

/-- `addrec_ter(l_sets, marked_left)` where `l_sets` pairs a non-terminal with the right side `d`
of one of its consumption rules (standing for the live set `marked[d]`) and `marked_left =
marked[a]`: the choices are a snapshot of the table at the call, then every leaf not yet in
`marked[a]` is added.  Result `(table, res)` -/
def addrecTer (T : Table) (lsets : List (String × String)) (a : String) : Table × Bool :=
  (leavesOf (choicesOf T lsets)).foldl
    (fun (st : Table × Bool) t => if t ∈ get st.1 a then st else (add st.1 a t, true)) (T, false)

/-- body of the loop of `addrec_bis` for `marked = E`: `l_temp` keeps the consumption rules whose
left side is in `E`; `frozenset(s_temp) == marked and len(marked) > 0` says that every member of
`E` has a rule and `E ≠ ∅` -/
def addrecBisStep (lsets : List (String × String)) (a : String) (st : Table × Bool) (E : SetS) :
    Table × Bool :=
  let lt := lsets.filter fun x => x.1 ∈ E
  if E.all (fun c => lt.any fun x => x.1 = c) && !E.isEmpty then
    let r := addrecTer st.1 lt a
    (r.1, st.2 || r.2)
  else st

/-- `addrec_bis(l_temp, marked[a], marked[b])`: loop over `list(marked[b])` (a snapshot taken at
the call) while `marked[a]` is written and the sets in `l_temp` are live -/
def addrecBis (T : Table) (lsets : List (String × String)) (a b : String) : Table × Bool :=
  (ord (get T b)).foldl (addrecBisStep lsets a) (T, false)

/-- inner loop of the 'is it useful' branch (lines 133–137) with the early `return` as a flag:
state `(table, was_modified, stopped)` -/
def usefulInner (start a : String) (st : Table × Bool × Bool) (sub : SetS) : Table × Bool × Bool :=
  if st.2.2 then st else (add st.1 a sub, true, a == start && sub.isEmpty)

/-- outer loop of the 'is it useful' branch (lines 127–132): for a consumption rule `b[f σ] → d`,
the list `[sub_term for sub_term in marked[d] if sub_term not in marked[a]]` is evaluated when the
loop reaches the rule -/
def usefulOuter (start a : String) (st : Table × Bool × Bool) (x : String × String) :
    Table × Bool × Bool :=
  if st.2.2 then st else
  ((ord (get st.1 x.2)).filter fun s => !(s ∈ get st.1 a)).foldl (usefulInner start a) st

/-- `_production_process(ProductionRule(a, b, f))`, result `(table, was_modified, need_stop)` -/
def prodProcess (G : IG) (a b f : String) (T : Table) : Table × Bool × Bool :=
  -- lines 111–117: `f_rules`, `l_temp` (live sets), `marked_symbols`
  let fr := consRules G f
  -- lines 119–121
  let r1 := addrecBis ord T fr a b
  -- lines 123–124: end condition
  if [] ∈ get r1.1 G.start then (r1.1, r1.2, true) else
  -- lines 126–137: is it useful?
  let r2 : Table × Bool × Bool :=
    if fr.any (fun x => x.1 = b) then
      (fr.filter fun x => b = x.1).foldl (usefulOuter ord G.start a) (r1.1, r1.2, false)
    else (r1.1, r1.2, false)
  if r2.2.2 then r2 else
  -- lines 139–143: edge case
  if [] ∈ get r2.1 b ∧ ¬ [] ∈ get r2.1 a then (add r2.1 a [], true, false)
  else (r2.1, r2.2.1, false)

/-! ### `is_empty` -/

/-- one rule of the `for` loop of `is_empty`: `(table, was_modified, need_stop)` of the call (end
rules are skipped; consumption rules are not in `Rules.rules`) -/
def ruleProcess (G : IG) (r : IRule) (T : Table) : Table × Bool × Bool :=
  match r with
  | .dup a b c => dupProcess ord G.start a b c T
  | .prod a b f => prodProcess ord G a b f T
  | _ => (T, false, false)

/-- the `for rule in self.rules.rules` loop: `(table, was_modified, returned False)`; the loop is
left as soon as a call asks to stop -/
def pass (G : IG) : List IRule → Table → Bool → Table × Bool × Bool
  | [], T, mod => (T, mod, false)
  | r :: rs, T, mod =>
    let res := ruleProcess ord G r T
    if res.2.2 then (res.1, mod || res.2.1, true) else pass G rs res.1 (mod || res.2.1)

/-- the `while was_modified` loop, one unit of fuel per pass -/
def loop (G : IG) : Nat → Table → Option Bool
  | 0, _ => none
  | fuel + 1, T =>
    let res := pass ord G (libRules G) T false
    if res.2.2 then some false
    else if res.2.1 then loop G fuel res.1
    else some (!decide ([] ∈ get res.1 G.start))

/-- `IndexedGrammar(Rules(G.rules, optim=0), G.start).is_empty()` when sets are iterated in the
order `ord`; `none` = out of fuel -/
def isEmptyLibO (G : IG) (fuel : Nat) : Option Bool := loop ord G fuel (initTable G)

/-! ### trace for the differential harness -/

/-- is the rule processed by a call of `_duplication_processing` / `_production_process`? -/
def isProcessed : IRule → Bool
  | .dup _ _ _ => true
  | .prod _ _ _ => true
  | _ => false

/-- `pass`, also giving the table after every call (in call order) -/
def passTr (G : IG) : List IRule → Table → Bool → List Table × Table × Bool × Bool
  | [], T, mod => ([], T, mod, false)
  | r :: rs, T, mod =>
    let res := ruleProcess ord G r T
    let out := if isProcessed r then [res.1] else []
    if res.2.2 then (out, res.1, mod || res.2.1, true) else
    let rest := passTr G rs res.1 (mod || res.2.1)
    (out ++ rest.1, rest.2)

def loopTr (G : IG) : Nat → Table → List Table
  | 0, _ => []
  | fuel + 1, T =>
    let res := passTr ord G (libRules G) T false
    if res.2.2.2 then res.1
    else if res.2.2.1 then res.1 ++ loopTr G fuel res.2.1
    else res.1

/-- the table `marked` after every call of `_duplication_processing` / `_production_process`
made by `is_empty()` on a fresh object (up to `fuel` passes), sets iterated in the order `ord` -/
def traceLibO (G : IG) (fuel : Nat) : List Table := loopTr ord G fuel (initTable G)

end

/-- `is_empty()` with sets iterated in insertion order -/
def isEmptyLib (G : IG) (fuel : Nat) : Option Bool := isEmptyLibO id G fuel

/-- trace with sets iterated in insertion order -/
def traceLib (G : IG) (fuel : Nat) : List Table := traceLibO id G fuel

/-- one call of `_duplication_processing` / `_production_process` on the table `T` whose sets are
listed in the iteration order of the real sets: `(table, was_modified, need_stop)` -/
def stepLib (G : IG) (r : IRule) (T : Table) : Table × Bool × Bool := ruleProcess id G r T

/-- the table when `is_empty()` returns -/
def finalTable (G : IG) (fuel : Nat) : Table := ((initTable G) :: traceLib G fuel).getLast!

end Lib
end IG
end Pfl
