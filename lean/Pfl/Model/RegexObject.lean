/-
Model of `pyformlang.regular_expression.Regex` *objects* (C19): a heap of regex objects that refer to
their sons by address (`regex.sons = [self, other]` shares the operands, it does not copy them), each
with its private state counter `_counter` (never reset: the state numbers of `to_epsilon_nfa()` go on
from where the previous call stopped) and the automaton cached by `accepts` (`_enfa_accepts`).

`process` follows `_process_to_enfa` and its helpers call by call: `_get_next_state_enfa` reads and
increments the counter *of the object it is called on*; `_process_to_enfa_son` lends the parent's
counter to the son (`son._counter = self._counter`), runs the son, takes the counter back
(`self._counter = son._counter`) and gives the son its own value back (`son._counter = previous`).
The automaton under construction (`self._enfa`, lent to the son in the same way and `None` between
calls) is the list of edges threaded through the recursion.

Python sets/dicts do not matter here: the automaton is compared as a structure.  Core Lean only.
-/
import Pfl.Model.Regex
namespace Pfl
namespace RxObj

/-- `head` of a `Regex` node -/
inductive Head where
  | empty | eps | sym (s : String) | cat | alt | star
deriving DecidableEq, Repr, Inhabited

/-- one `Regex` object -/
structure Obj where
  head    : Head
  /-- `self.sons`: addresses of other objects -/
  sons    : List Nat
  /-- `self._counter` -/
  counter : Nat
  /-- `self._enfa_accepts` -/
  acc     : Option (ENFA Nat)
deriving Repr

abbrev Heap := List Obj

abbrev Edge := Nat × Option Nat × Nat

def setCounter (H : Heap) (i c : Nat) : Heap :=
  match H[i]? with
  | none => H
  | some o => H.set i { o with counter := c }

def setAcc (H : Heap) (i : Nat) (A : ENFA Nat) : Heap :=
  match H[i]? with
  | none => H
  | some o => H.set i { o with acc := some A }

/-- `_get_next_state_enfa()` called on object `i`: `State(self._counter)`, then `self._counter += 1` -/
def nextState (H : Heap) (i : Nat) : Option (Nat × Heap) :=
  match H[i]? with
  | none => none
  | some o => some (o.counter, setCounter H i (o.counter + 1))

/-- `_process_to_enfa(s_from, s_to)` called on object `i`: the edges added (in the order of the
`add_transition` calls) and the heap afterwards.  `none`: out of fuel, a dangling address, or a node
whose head and number of sons do not fit (no public call builds one). -/
def process (code : String → Nat) : Nat → Heap → Nat → Nat → Nat → Option (List Edge × Heap)
  | 0, _, _, _, _ => none
  | fuel + 1, H, i, f, t =>
    -- `_process_to_enfa_son(s_from, s_to, index_son)` called on `i`
    let son (H : Heap) (s : Nat) (f t : Nat) : Option (List Edge × Heap) :=
      match H[i]?, H[s]? with
      | some me, some so =>
        let previous := so.counter
        let H1 := setCounter H s me.counter              -- son._counter = self._counter
        match process code fuel H1 s f t with            -- son._process_to_enfa(s_from, s_to)
        | none => none
        | some (es, H2) =>
          match H2[s]? with
          | none => none
          | some so2 =>
            let H3 := setCounter H2 i so2.counter          -- self._counter = son._counter
            some (es, setCounter H3 s previous)            -- son._counter = previous
      | _, _ => none
    match H[i]? with
    | none => none
    | some o =>
      match o.head, o.sons with
      | .empty, [] => some ([], H)
      | .eps, [] => some ([(f, none, t)], H)
      | .sym s, [] => some ([(f, some (code s), t)], H)
      | .cat, [a, b] =>
        match nextState H i with
        | none => none
        | some (s0, H1) =>
          match nextState H1 i with
          | none => none
          | some (s1, H2) =>
            match son H2 a f s0 with
            | none => none
            | some (ea, H3) =>
              match son H3 b s1 t with
              | none => none
              | some (eb, H4) => some ((s0, none, s1) :: ea ++ eb, H4)
      | .alt, [a, b] =>
        match nextState H i with
        | none => none
        | some (s0, H1) =>
          match nextState H1 i with
          | none => none
          | some (s2, H2) =>
            match son H2 a s0 s2 with
            | none => none
            | some (ea, H3) =>
              match nextState H3 i with
              | none => none
              | some (s0', H4) =>
                match nextState H4 i with
                | none => none
                | some (s2', H5) =>
                  match son H5 b s0' s2' with
                  | none => none
                  | some (eb, H6) =>
                    some ((f, none, s0) :: (s2, none, t) :: ea ++ (f, none, s0') :: (s2', none, t) :: eb, H6)
      | .star, [a] =>
        match nextState H i with
        | none => none
        | some (s1, H1) =>
          match nextState H1 i with
          | none => none
          | some (s2, H2) =>
            match son H2 a s1 s2 with
            | none => none
            | some (ea, H3) =>
              some ((s2, none, s1) :: (f, none, t) :: (f, none, s1) :: (s2, none, t) :: ea, H3)
      | _, _ => none

/-- `to_epsilon_nfa()` called on object `i`: the automaton handed out and the heap afterwards -/
def toENFA (code : String → Nat) (fuel : Nat) (H : Heap) (i : Nat) : Option (ENFA Nat × Heap) :=
  match nextState H i with
  | none => none
  | some (si, H1) =>
    match nextState H1 i with
    | none => none
    | some (sf, H2) =>
      match process code fuel H2 i si sf with
      | none => none
      | some (es, H3) => some (ENFA.ofParts [si] [sf] es, H3)

/-- `accepts(word)` called on object `i`: builds and caches the automaton on the first call -/
def accepts (code : String → Nat) (fuel : Nat) (H : Heap) (i : Nat) (w : List String) :
    Option (Bool × Heap) :=
  match H[i]? with
  | none => none
  | some o =>
    match o.acc with
    | some A => some (A.acceptsE (w.map fun s => some (code s)), H)
    | none =>
      match toENFA code fuel H i with
      | none => none
      | some (A, H1) => some (A.acceptsE (w.map fun s => some (code s)), setAcc H1 i A)

/-- `Regex(text)`: the reader builds one object per node of the tree, sons first -/
def alloc : Rx → Heap → Heap × Nat
  | .empty, H => (H ++ [⟨.empty, [], 0, none⟩], H.length)
  | .eps, H => (H ++ [⟨.eps, [], 0, none⟩], H.length)
  | .sym s, H => (H ++ [⟨.sym s, [], 0, none⟩], H.length)
  | .cat a b, H =>
    let (H1, ia) := alloc a H
    let (H2, ib) := alloc b H1
    (H2 ++ [⟨.cat, [ia, ib], 0, none⟩], H2.length)
  | .alt a b, H =>
    let (H1, ia) := alloc a H
    let (H2, ib) := alloc b H1
    (H2 ++ [⟨.alt, [ia, ib], 0, none⟩], H2.length)
  | .star a, H =>
    let (H1, ia) := alloc a H
    (H1 ++ [⟨.star, [ia], 0, none⟩], H1.length)

/-- the public calls of a history -/
inductive Op where
  | new (t : Rx)                 -- `Regex(text)` (the text read as `t`)
  | union (i j : Nat)            -- `objs[i].union(objs[j])`, `i = j` allowed
  | concat (i j : Nat)
  | star (i : Nat)
  | toENFA (i : Nat)
  | accepts (i : Nat) (w : List String)
deriving Repr

inductive Out where
  | addr (i : Nat)
  | fa (A : ENFA Nat)
  | bool (b : Bool)
deriving Repr

/-- one public call; `none`: dangling address or out of fuel -/
def step (code : String → Nat) (fuel : Nat) (H : Heap) : Op → Option (Out × Heap)
  | .new t => let (H', i) := alloc t H; some (.addr i, H')
  | .union i j =>
    if i < H.length ∧ j < H.length then some (.addr H.length, H ++ [⟨.alt, [i, j], 0, none⟩]) else none
  | .concat i j =>
    if i < H.length ∧ j < H.length then some (.addr H.length, H ++ [⟨.cat, [i, j], 0, none⟩]) else none
  | .star i =>
    if i < H.length then some (.addr H.length, H ++ [⟨.star, [i], 0, none⟩]) else none
  | .toENFA i => (toENFA code fuel H i).map fun r => (.fa r.1, r.2)
  | .accepts i w => (accepts code fuel H i w).map fun r => (.bool r.1, r.2)

/-- a history of calls from the empty heap; outputs in order -/
def run (code : String → Nat) (fuel : Nat) : Heap → List Op → Option (List Out × Heap)
  | H, [] => some ([], H)
  | H, op :: ops =>
    match step code fuel H op with
    | none => none
    | some (o, H1) =>
      match run code fuel H1 ops with
      | none => none
      | some (os, H2) => some (o :: os, H2)

/-- the tree an address stands for -/
def treeOf : Nat → Heap → Nat → Option Rx
  | 0, _, _ => none
  | fuel + 1, H, i =>
    match H[i]? with
    | none => none
    | some o =>
      match o.head, o.sons with
      | .empty, [] => some .empty
      | .eps, [] => some .eps
      | .sym s, [] => some (.sym s)
      | .cat, [a, b] =>
        match treeOf fuel H a, treeOf fuel H b with
        | some ta, some tb => some (.cat ta tb)
        | _, _ => none
      | .alt, [a, b] =>
        match treeOf fuel H a, treeOf fuel H b with
        | some ta, some tb => some (.alt ta tb)
        | _, _ => none
      | .star, [a] => (treeOf fuel H a).map .star
      | _, _ => none

/-- well-formed heaps: sons are older objects and fit the head -/
def WFObj (i : Nat) (o : Obj) : Bool :=
  o.sons.all (· < i) &&
  (match o.head, o.sons with
   | .empty, [] | .eps, [] | .sym _, [] | .cat, [_, _] | .alt, [_, _] | .star, [_] => true
   | _, _ => false)

def WF (H : Heap) : Bool := (List.range H.length).all fun i =>
  match H[i]? with
  | none => false
  | some o => WFObj i o

end RxObj
end Pfl
