/-
Model of CFG.intersection(other) after `other` has been made a deterministic automaton:
Bar-Hillel triples `[p A r]` over the Chomsky normal form.  Core Lean only.
-/
import Pfl.Model.CFG
import Pfl.Model.FA
import Pfl.Model.PDA
namespace Pfl
namespace CFG
variable {τ : Type} [DecidableEq τ]

/-- the deterministic automaton's successor of `p` on the terminal `a` (looked up by value) -/
def dfaNext (D : ENFA τ) (symOf : String → Option Nat) (p : τ) (a : String) : Option τ :=
  match symOf a with
  | none => none
  | some k => (D.succs p (some k)).head?

/-- `intersection`: `none` = the normal form ran out of fuel -/
def interD (G : CFG) (D : ENFA τ) (symOf : String → Option Nat) (nm : τ → String) (fuel : Nat) :
    Option CFG :=
  if D.isEmpty then some (mk' [] [] none []) else
  match G.toNormalForm fuel with
  | none => none
  | some N =>
    let tn := fun (p : τ) (a : String) (r : τ) => PDA.tripleName nm id p a r
    let genEmpty := G.generateEpsilon && D.acceptsE []
    let bin : List Prod := N.prods.flatMap fun pr => match pr.2 with
      | [.var b, .var c] => D.states.flatMap fun p => D.states.flatMap fun r =>
          D.states.map fun q => (tn p pr.1 r, [Sym.var (tn p b q), Sym.var (tn q c r)])
      | [.ter a] => D.states.filterMap fun p => (dfaNext D symOf p a).map fun r => (tn p pr.1 r, [Sym.ter a])
      | _ => []
    let starts : List Prod := match D.starts.head?, N.start with
      | some s0, some st => D.finals.map fun f => ("Start", [Sym.var (tn s0 st f)])
      | _, _ => []
    some (mk' [] [] (some "Start") (bin ++ starts ++ (if genEmpty then [("Start", [])] else [])))

end CFG
end Pfl
