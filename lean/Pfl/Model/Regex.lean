/-
Model of pyformlang.regular_expression: regex trees, the derivative matcher (oracle), the
Thompson construction with the library's state counter, printing, and the reader
(`_pre_process_regex`, `_get_regex_componants`, `RegexReader.__init__`) at character level.
Core Lean only.
-/
import Pfl.Model.FA
namespace Pfl

/-- a regular expression tree (`head` + `sons`); symbols carry their text -/
inductive Rx where
  | empty                 -- `Empty`: no word
  | eps                   -- `Epsilon`: the empty word
  | sym (s : String)
  | cat (a b : Rx)
  | alt (a b : Rx)
  | star (a : Rx)
deriving DecidableEq, Repr, Inhabited

namespace Rx

/-! ### derivative matcher -/

def nullable : Rx → Bool
  | empty => false
  | eps => true
  | sym _ => false
  | cat a b => a.nullable && b.nullable
  | alt a b => a.nullable || b.nullable
  | star _ => true

def deriv (c : String) : Rx → Rx
  | empty => empty
  | eps => empty
  | sym s => if s = c then eps else empty
  | cat a b => if a.nullable then alt (cat (deriv c a) b) (deriv c b) else cat (deriv c a) b
  | alt a b => alt (deriv c a) (deriv c b)
  | star a => cat (deriv c a) (star a)

/-- `matches r w`: `w` is in the language of `r` -/
def «matches» (r : Rx) : List String → Bool
  | [] => r.nullable
  | c :: w => «matches» (deriv c r) w

/-! ### Thompson construction with the library's counter -/

/-- `_process_to_enfa(s_from, s_to)`; returns the edges and the next free counter value;
`code` turns a symbol text into the automaton's symbol code -/
def thompsonAux (code : String → Nat) : Rx → Nat → Nat → Nat → List (Nat × Option Nat × Nat) × Nat
  | empty, _, _, c => ([], c)
  | eps, f, t, c => ([(f, none, t)], c)
  | sym s, f, t, c => ([(f, some (code s), t)], c)
  | cat a b, f, t, c =>
    let s0 := c
    let s1 := c + 1
    let (ea, c1) := thompsonAux code a f s0 (c + 2)
    let (eb, c2) := thompsonAux code b s1 t c1
    ((s0, none, s1) :: ea ++ eb, c2)
  | alt a b, f, t, c =>
    let s0 := c
    let s2 := c + 1
    let (ea, c1) := thompsonAux code a s0 s2 (c + 2)
    let s0' := c1
    let s2' := c1 + 1
    let (eb, c2) := thompsonAux code b s0' s2' (c1 + 2)
    ((f, none, s0) :: (s2, none, t) :: ea ++ (f, none, s0') :: (s2', none, t) :: eb, c2)
  | star a, f, t, c =>
    let s1 := c
    let s2 := c + 1
    let (ea, c1) := thompsonAux code a s1 s2 (c + 2)
    ((s2, none, s1) :: (f, none, t) :: (f, none, s1) :: (s2, none, t) :: ea, c1)

/-- `to_epsilon_nfa()` when the counter stands at `c` -/
def thompson (code : String → Nat) (r : Rx) (c : Nat) : ENFA Nat × Nat :=
  let (es, c') := thompsonAux code r c (c + 1) (c + 2)
  (ENFA.ofParts [c] [c + 1] es, c')

/-! ### printing (`__repr__` / `get_str_repr`) -/

def repr' : Rx → String
  | empty => ""
  | eps => "$"
  | sym s => if s ∈ [".", "|", "+", "*", "epsilon", "$", "(", ")"] then "\\" ++ s else s
  | cat a b => "(" ++ repr' a ++ "." ++ repr' b ++ ")"
  | alt a b => "(" ++ repr' a ++ "|" ++ repr' b ++ ")"
  | star a => "(" ++ repr' a ++ ")*"

end Rx

/-! ### the reader -/
namespace RegexReader

inductive Err where
  | misformed   -- MisformedRegexError
  | index       -- IndexError (a defect: the property demands MisformedRegexError)
  | fuel
deriving DecidableEq, Repr

def isSpecialChar (c : Char) : Bool := c ∈ ['.', '|', '+', '*', '$', '(', ')']

def stripSpaces (l : List Char) : List Char :=
  ((l.dropWhile (· = ' ')).reverse.dropWhile (· = ' ')).reverse

def endsWith (l suf : List Char) : Bool := suf.isSuffixOf l

/-- `re.sub(r" +", " ", s)` -/
def squeezeAux : Bool → List Char → List Char
  | _, [] => []
  | prevBlank, c :: rest =>
    if c = ' ' then (if prevBlank then squeezeAux true rest else ' ' :: squeezeAux true rest)
    else c :: squeezeAux false rest

def squeeze (l : List Char) : List Char := squeezeAux false l

/-- `re.sub(r"\\ ", "\\  ", s)`: a backslash followed by a blank gets a second blank -/
def dupEscapedBlank : List Char → List Char
  | '\\' :: ' ' :: rest => '\\' :: ' ' :: ' ' :: dupEscapedBlank rest
  | c :: rest => c :: dupEscapedBlank rest
  | [] => []

/-- the character loop of `_pre_process_regex` -/
def spaceOut : List Char → Bool → Bool → List Char → List Char
  | [], _, _, acc => acc.reverse
  | c :: rest, first, prevEsc, acc =>
    let special := !prevEsc && isSpecialChar c
    let acc1 := if special && !first && acc.head? != some ' ' then ' ' :: acc else acc
    let acc2 := c :: acc1
    let acc3 := if special && !rest.isEmpty && rest.head? != some ' ' then ' ' :: acc2 else acc2
    spaceOut rest false (c = '\\' && !prevEsc) acc3

/-- `_pre_process_regex` -/
def preProcess (s : List Char) : List Char :=
  let s := stripSpaces s
  let s := if endsWith s ['\\'] && !endsWith s ['\\', '\\'] then s ++ [' '] else s
  let s := squeeze s
  let s := dupEscapedBlank s
  let s := if endsWith s [' ', ' '] then s.dropLast else s
  spaceOut s true false []

def splitBlank (l : List Char) : List (List Char) :=
  let rec go : List Char → List Char → List (List Char)
    | [], cur => [cur.reverse]
    | ' ' :: rest, cur => cur.reverse :: go rest []
    | c :: rest, cur => go rest (c :: cur)
  go l []

/-- `_get_regex_componants` -/
def components (s : List Char) : List (List Char) :=
  let temp := (splitBlank s).map fun sub =>
    if endsWith sub ['\\'] && !endsWith sub ['\\', '\\'] then sub ++ [' '] else sub
  let temp := if temp.length > 1 && (temp.getLast?.map (·.isEmpty)).getD false then temp.dropLast else temp
  let temp := temp.filter (!·.isEmpty)
  if temp.isEmpty then [[]] else temp

inductive Node where
  | nEmpty | nConcat | nUnion | nStar | nEps | nSym (s : List Char)
deriving DecidableEq, Repr

/-- `to_node` -/
def toNode (v : List Char) : Node :=
  if v.isEmpty then .nEmpty
  else if v = ['.'] then .nConcat
  else if v = ['|'] ∨ v = ['+'] then .nUnion
  else if v = ['*'] then .nStar
  else if v = "epsilon".toList ∨ v = ['$'] then .nEps
  else if v.head? = some '\\' then .nSym v.tail
  else .nSym v

def parVal (c : List Char) : Int := if c = ['('] then 1 else if c = [')'] then -1 else 0

def depths (cs : List (List Char)) : List Int :=
  (cs.foldl (fun (acc : List Int × Int) c => let d := acc.2 + parVal c; (acc.1 ++ [d], d)) ([], 0)).1

/-- `_find_first_complete_closing_if_possible(depths, index_from)`: `-2` when absent -/
def firstClosing (ds : List Int) (from_ : Nat) : Int :=
  match ((ds.zip (List.range ds.length)).drop from_).find? (fun e => e.1 = 0) with
  | some e => e.2
  | none => -2

def isSurrounded (cs : List (List Char)) : Bool :=
  firstClosing (depths cs) 0 = (cs.length : Int) - 1

/-- `_remove_useless_extreme_parenthesis_from_components` -/
def stripParens : Nat → List (List Char) → Except Err (List (List Char))
  | 0, _ => .error .fuel
  | fuel+1, cs =>
    match cs with
    | [] => .error .misformed                 -- nothing left between the parentheses
    | c :: _ =>
      if c = ['('] then
        if isSurrounded cs then stripParens fuel (cs.drop 1).dropLast else .ok cs
      else .ok cs

/-- `_set_end_first_group_in_components(idx_from)` -/
def endFirstGroup (cs : List (List Char)) (idx : Nat) : Except Err Nat :=
  if idx ≥ cs.length then .ok idx
  else match cs[idx]? with
    | none => .ok idx
    | some c =>
      if c = [')'] then .error .misformed
      else if c = ['('] then
        let fc := firstClosing (depths cs) idx
        if fc > 0 then .ok (fc.toNat + 1) else .error .misformed
      else .ok (idx + 1)

def isOperatorNotStar (n : Node) : Bool := n = .nConcat || n = .nUnion

def insertParens (cs : List (List Char)) (open_ close : Nat) : List (List Char) :=
  let cs1 := cs.take open_ ++ [['(']] ++ cs.drop open_
  cs1.take (close + 1) ++ [[')']] ++ cs1.drop (close + 1)

/-- the `while self._found_no_union(...)` loop of `_compute_precedent_when_not_kleene_nor_union` -/
def scanToUnion (cs : List (List Char)) : Nat → Nat → Node → Except Err (Nat × Node)
  | 0, _, _ => .error .fuel
  | fuel+1, endG, node =>
    if endG < cs.length ∧ node ≠ .nUnion then do
      let endG1 := if isOperatorNotStar node then endG + 1 else endG
      let endG2 ← endFirstGroup cs endG1
      let node' := if endG2 < cs.length then toNode (cs[endG2]?.getD []) else node
      scanToUnion cs fuel endG2 node'
    else .ok (endG, node)

/-- `_compute_precedence` -/
def computePrecedence : Nat → List (List Char) → Except Err (List (List Char))
  | 0, _ => .error .fuel
  | fuel+1, cs =>
    if cs.length ≤ 1 then .ok cs else do
      let endG ← endFirstGroup cs 0
      if endG = cs.length then .ok cs else
      let node := toNode (cs[endG]?.getD [])
      if node = .nStar then computePrecedence fuel (insertParens cs 0 (endG + 1))
      else if node = .nUnion then .ok cs
      else do
        let (endG', node') ← scanToUnion cs (cs.length + 2) endG node
        if node' = .nUnion then .ok (insertParens cs 0 endG') else .ok cs

def joinBlank (cs : List (List Char)) : List Char := [' '].intercalate cs

/-- `RegexReader.__init__` followed by the tree extraction `head` / `sons` -/
def parse : Nat → List Char → Except Err Rx
  | 0, _ => .error .fuel
  | fuel+1, s => do
    let cs := components (preProcess s)
    let cs ← stripParens (cs.length + 2) cs
    let cs ← computePrecedence (cs.length + 2) cs
    let cs ← stripParens (cs.length + 2) cs
    match cs with
    | [] => .ok .empty                                  -- `_setup_empty_regex`
    | [c] =>
      match toNode c with
      | .nSym v => .ok (.sym (String.ofList v))
      | .nEps => .ok .eps
      | .nEmpty => .ok .empty
      | _ => .error .misformed                          -- `_check_is_valid_single_first_symbol`
    | _ => do
      let endG ← endFirstGroup cs 0
      match cs[endG]? with
      | none => .error .misformed                       -- the first group is the whole expression
      | some c =>
        let next := toNode c
        if next = .nStar then do
          let son ← parse fuel (joinBlank (cs.take endG))
          .ok (.star son)
        else
          let isSym := match next with
            | .nSym _ => true | .nEps => true | .nEmpty => true | _ => false
          let begin2 := if isSym then endG else endG + 1
          let a ← parse fuel (joinBlank (cs.take endG))
          let b ← parse fuel (joinBlank (cs.drop begin2))
          if isSym then .ok (.cat a b)
          else if next = .nUnion then .ok (.alt a b) else .ok (.cat a b)

end RegexReader
end Pfl
