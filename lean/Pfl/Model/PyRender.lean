/-
The concrete syntax of the Python-regex subset: `render` writes an AST of `Pfl/Model/PyRegex.lean`
as pattern text exactly as the harness's generator does (`render_ast` in harness/props/c07.py;
the two are compared on every generated case).  Core Lean only.
-/
import Pfl.Model.PyRegex
namespace Pfl
namespace PyRx

def metaChars : List Char := ".^$*+?{}[]\\|()".toList

/-- a character inside a set: `[`, `]`, `\`, `-` are escaped, `^` only in first position -/
def escItem (c : Char) (first : Bool) : List Char :=
  if c ∈ ['[', ']', '\\'] ∨ (c = '^' ∧ first) ∨ c = '-' then ['\\', c] else [c]

def renderItem (it : Item) (first : Bool) : List Char :=
  match it with
  | .ch c => escItem c first
  | .range lo hi => escItem lo first ++ ['-'] ++ escItem hi false
  | .short k => ['\\', k]

def renderItems : List Item → Bool → List Char
  | [], _ => []
  | it :: rest, first => renderItem it first ++ renderItems rest false

inductive Ctx where
  | top | cat | q
deriving DecidableEq

def isQuantified : P → Bool
  | .star _ => true
  | .plus _ => true
  | .opt _ => true
  | .rep _ _ _ => true
  | _ => false

def paren (s : List Char) : List Char := ['('] ++ s ++ [')']

def natText (n : Nat) : List Char := (toString n).toList

def render : P → Ctx → List Char
  | .lit c, _ => if c ∈ metaChars then ['\\', c] else [c]
  | .dot, _ => ['.']
  | .short k, _ => ['\\', k]
  | .set neg items, _ => ['['] ++ (if neg then ['^'] else []) ++ renderItems items true ++ [']']
  | .cat a b, ctx =>
    let s := render a .cat ++ render b .cat
    if ctx = .q then paren s else s
  | .alt a b, ctx =>
    let s := render a .top ++ ['|'] ++ render b .top
    if ctx ≠ .top then paren s else s
  | .star a, _ => (if isQuantified a then paren (render a .q) else render a .q) ++ ['*']
  | .plus a, _ => (if isQuantified a then paren (render a .q) else render a .q) ++ ['+']
  | .opt a, _ => (if isQuantified a then paren (render a .q) else render a .q) ++ ['?']
  | .rep a m n, _ =>
    (if isQuantified a then paren (render a .q) else render a .q) ++
      (if m = n then ['{'] ++ natText m ++ ['}'] else ['{'] ++ natText m ++ [','] ++ natText n ++ ['}'])

end PyRx
end Pfl
