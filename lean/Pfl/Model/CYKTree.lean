/-
Model of the tree side of `CYKTable` (`pyformlang/cfg/cyk_table.py`): every cell holds `CYKNode`s, a node
is equal to any node with the same head, so a cell (a Python set) keeps for each head the first node
added; `get_parse_tree` returns the node of the start symbol in the top cell.  Lists model the sets in
iteration order, so the tree chosen depends on the list orders - the theorems hold for every order.
Core Lean only.
-/
import Pfl.Model.CFG
import Pfl.Oracle.Trees
namespace Pfl
namespace CFG

/-- the head of a node -/
def rootVar : PTree → String
  | .node (.var v) _ => v
  | .node (.ter t) _ => t

/-- `set.add` of nodes compared by head: the first node of a head stays -/
def addNode (cell : List PTree) (t : PTree) : List PTree :=
  if cell.any (fun u => rootVar u = rootVar t) then cell else cell ++ [t]

/-- `_initialize_cyk_table`: `{CYKNode(x, CYKNode(terminal)) for x in productions_d[(terminal,)]}` -/
def cykRow1T (N : CFG) (w : List String) (i : Nat) : List PTree :=
  match w[i]? with
  | none => []
  | some t => (N.prods.filterMap fun p =>
      if p.2 = [.ter t] then some (PTree.node (.var p.1) [PTree.node (.ter t) []]) else none).foldl addNode []

/-- `_propagate_in_cyk_table` for one window: for every split point, every pair of nodes of the two
sub-cells, every head of a production with that body: add `CYKNode(head, left, right)` -/
def cykCellT (N : CFG) (tbl : Nat → Nat → List PTree) (i len : Nat) : List PTree :=
  ((List.range (len - 1)).flatMap fun k =>
    let l := k + 1
    (tbl i l).flatMap fun tb => (tbl (i + l) (len - l)).flatMap fun tc =>
      N.prods.filterMap fun p => match p.2 with
        | [.var b, .var c] =>
          if b = rootVar tb ∧ c = rootVar tc then some (PTree.node (.var p.1) [tb, tc]) else none
        | _ => none).foldl addNode []

/-- the table of trees, rows `1..n`, as an association list `(len, i) ↦ nodes` -/
def cykTableT (N : CFG) (w : List String) : List ((Nat × Nat) × List PTree) :=
  (List.range w.length).foldl (fun tbl k =>
    let len := k + 1
    let look := fun i l => ((tbl.find? fun e => e.1 = (l, i)).map (·.2)).getD []
    tbl ++ (List.range (w.length - len + 1)).map fun i =>
      ((len, i), if len = 1 then cykRow1T N w i else cykCellT N look i len)) []

/-- `CYKTable.get_parse_tree` on a non-empty word of the normal form `N`; `none` = DerivationDoesNotExist -/
def cykTree (N : CFG) (w : List String) : Option PTree :=
  if !(w.all fun t => N.prods.any fun p => p.2 = [.ter t]) then none else
  match N.start with
  | none => none
  | some s => (((cykTableT N w).find? fun e => e.1 = (w.length, 0)).map (·.2)).getD [] |>.find? fun t => rootVar t = s

/-- `get_cnf_parse_tree` of a grammar on a non-empty word -/
def cnfParseTree (G : CFG) (w : List String) (fuel : Nat) : Option (Option PTree) :=
  (G.toNormalForm fuel).map fun N => cykTree N w

end CFG
end Pfl
