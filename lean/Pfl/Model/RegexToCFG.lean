/-
Model of `Regex.to_cfg` (`_get_production` + `get_cfg_rules`): one variable per tree node, named
"A<k>" by a running counter, the root named by the caller.  Core Lean only.
-/
import Pfl.Model.Regex
import Pfl.Model.CFG
namespace Pfl
namespace Rx

def nodeName (k : Nat) : String := "A" ++ toString k

/-- `_get_production(current_symbol, count)` -/
def toCfgAux : Rx → String → Nat → List Prod × Nat
  | .empty, _, c => ([], c)
  | .eps, cur, c => ([(cur, [])], c)
  | .sym s, cur, c => ([(cur, [.ter s])], c)
  | .cat a b, cur, c =>
    let n0 := nodeName c
    let (pa, c1) := toCfgAux a n0 (c + 1)
    let n1 := nodeName c1
    let (pb, c2) := toCfgAux b n1 (c1 + 1)
    (pa ++ pb ++ [(cur, [.var n0, .var n1])], c2)
  | .alt a b, cur, c =>
    let n0 := nodeName c
    let (pa, c1) := toCfgAux a n0 (c + 1)
    let n1 := nodeName c1
    let (pb, c2) := toCfgAux b n1 (c1 + 1)
    (pa ++ pb ++ [(cur, [.var n0]), (cur, [.var n1])], c2)
  | .star a, cur, c =>
    let n0 := nodeName c
    let (pa, c1) := toCfgAux a n0 (c + 1)
    (pa ++ [(cur, []), (cur, [.var cur, .var cur]), (cur, [.var n0])], c1)

/-- `to_cfg(starting_symbol)` -/
def toCFG (r : Rx) (start : String) : CFG :=
  CFG.mk' [] [] (some start) (toCfgAux r start 0).1

end Rx
end Pfl
