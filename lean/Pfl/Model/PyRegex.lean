/-
A formal semantics for the documented subset of Python regular expressions (what property C07
quantifies over) and the reference desugaring into plain regular expressions that
`PythonRegex` is meant to implement: character sets and negated sets with ranges and shortcuts,
`.`, `+`, `?`, `{m}`, `{m,n}`, `\d \s \w`.  Words are lists of characters; `U` is the universe of
characters considered (Python's `string.printable`).  Core Lean only.
-/
import Pfl.Model.Regex
namespace Pfl
namespace PyRx

inductive Item where
  | ch (c : Char)
  | range (lo hi : Char)
  | short (k : Char)
deriving DecidableEq, Repr

inductive P where
  | lit (c : Char)
  | dot
  | short (k : Char)
  | set (neg : Bool) (items : List Item)
  | cat (a b : P)
  | alt (a b : P)
  | star (a : P)
  | plus (a : P)
  | opt (a : P)
  | rep (a : P) (m n : Nat)      -- `{m,n}`; `{m}` is `rep a m m`
deriving Repr

def digits : List Char := "0123456789".toList
def lowers : List Char := "abcdefghijklmnopqrstuvwxyz".toList
def uppers : List Char := "ABCDEFGHIJKLMNOPQRSTUVWXYZ".toList

/-- `\d`, `\s`, `\w` -/
def shortChars : Char → List Char
  | 'd' => digits
  | 's' => [' ', '\t', '\n', '\r', Char.ofNat 12, Char.ofNat 11]
  | 'w' => lowers ++ uppers ++ digits ++ ['_']
  | _ => []

def itemChars : Item → List Char
  | .ch c => [c]
  | .range lo hi => (List.range (hi.toNat + 1 - lo.toNat)).map fun i => Char.ofNat (lo.toNat + i)
  | .short k => shortChars k

def members (items : List Item) : List Char := items.flatMap itemChars

/-- the characters a set stands for -/
def setChars (U : List Char) (neg : Bool) (items : List Item) : List Char :=
  if neg then U.filter (· ∉ members items) else (members items).eraseDups

def sym (c : Char) : Rx := .sym (String.singleton c)

/-- the union of single characters (`Empty` for no character) -/
def anyOf : List Char → Rx
  | [] => .empty
  | c :: cs => cs.foldl (fun r d => .alt r (sym d)) (sym c)

def copies (r : Rx) : Nat → Rx
  | 0 => .eps
  | n+1 => .cat r (copies r n)

def optCopies (r : Rx) : Nat → Rx
  | 0 => .eps
  | n+1 => .cat (.alt r .eps) (optCopies r n)

/-- the reference translation -/
def desugar (U : List Char) : P → Rx
  | .lit c => sym c
  | .dot => anyOf (U.filter (· ≠ '\n'))
  | .short k => anyOf (shortChars k)
  | .set neg items => anyOf (setChars U neg items)
  | .cat a b => .cat (desugar U a) (desugar U b)
  | .alt a b => .alt (desugar U a) (desugar U b)
  | .star a => .star (desugar U a)
  | .plus a => .cat (desugar U a) (.star (desugar U a))
  | .opt a => .alt (desugar U a) .eps
  | .rep a m n => .cat (copies (desugar U a) m) (optCopies (desugar U a) (n - m))

/-- the meaning of a pattern: `re.fullmatch(p, w)` succeeds (for words over `U`) -/
inductive Matches (U : List Char) : P → List Char → Prop
  | lit (c : Char) : Matches U (.lit c) [c]
  | dot {c : Char} : c ∈ U → c ≠ '\n' → Matches U .dot [c]
  | short {k c : Char} : c ∈ shortChars k → Matches U (.short k) [c]
  | setPos {items : List Item} {c : Char} : c ∈ members items → Matches U (.set false items) [c]
  | setNeg {items : List Item} {c : Char} : c ∈ U → c ∉ members items → Matches U (.set true items) [c]
  | cat {a b : P} {u v : List Char} : Matches U a u → Matches U b v → Matches U (.cat a b) (u ++ v)
  | altL {a b : P} {w : List Char} : Matches U a w → Matches U (.alt a b) w
  | altR {a b : P} {w : List Char} : Matches U b w → Matches U (.alt a b) w
  | starNil {a : P} : Matches U (.star a) []
  | starCons {a : P} {u v : List Char} : Matches U a u → Matches U (.star a) v → Matches U (.star a) (u ++ v)
  | plus {a : P} {u v : List Char} : Matches U a u → Matches U (.star a) v → Matches U (.plus a) (u ++ v)
  | optNone {a : P} : Matches U (.opt a) []
  | optSome {a : P} {w : List Char} : Matches U a w → Matches U (.opt a) w
  /-- `{m,n}`: between `m` and `n` copies -/
  | repNil {a : P} {n : Nat} : Matches U (.rep a 0 n) []
  | repCons {a : P} {m n : Nat} {u v : List Char} :
      Matches U a u → Matches U (.rep a (m - 1) n) v → Matches U (.rep a m (n + 1)) (u ++ v)

end PyRx
end Pfl
