/-
The naming layer: how pyformlang manufactures state names for constructions.
Names are modelled as `List Char` (the driver converts from/to `String`).
-/
import Pfl.Model.FA
namespace Pfl
namespace Names
variable {σ τ : Type}

/-- Python `sorted` on `str`: lexicographic by code point -/
def sortNames (l : List (List Char)) : List (List Char) := l.mergeSort (fun a b => decide (a ≤ b))

/-- `to_single_state`: `";".join(sorted(str(v) for v in states))` -/
def mergeName (names : σ → List Char) (S : List σ) : List Char :=
  [';'].intercalate (sortNames (S.map names))

/-- `combine_state_pair`: `str(a) + "; " + str(b)` -/
def pairName (na : σ → List Char) (nb : τ → List Char) (p : σ × τ) : List Char :=
  na p.1 ++ [';', ' '] ++ nb p.2

end Names
end Pfl
