/-
Verified oracle: the set of outputs of a transducer on a word, by exhaustive exploration of
configurations `(state, position, output)`; finite whenever ε-cycles write nothing.
-/
import Pfl.Model.FST
namespace Pfl
namespace FST
variable {σ : Type} [DecidableEq σ]

abbrev OCfg (σ : Type) := σ × Nat × List String

def ocNext (T : FST σ) (w : List String) (c : OCfg σ) : List (OCfg σ) :=
  T.delta.filterMap fun t =>
    if t.1 = c.1 then
      match t.2.1 with
      | none => some (t.2.2.1, c.2.1, c.2.2 ++ t.2.2.2)
      | some a => if w[c.2.1]? = some a then some (t.2.2.1, c.2.1 + 1, c.2.2 ++ t.2.2.2) else none
    else none

/-- all outputs `o` with `Rel T w o` (duplicate-free); `none` = out of fuel -/
def relOutputs (T : FST σ) (w : List String) (fuel : Nat) : Option (List (List String)) :=
  (bfs (ocNext T w) fuel (T.starts.map fun s => (s, 0, []))).map fun seen =>
    ((seen.filter fun c => c.1 ∈ T.finals ∧ c.2.1 = w.length).map (·.2.2)).eraseDups

end FST
end Pfl
