/-
Oracle for feature structures WITH sharing: a structure over a fixed finite set of typed paths is a
list of leaves (atom, shared variable, unspecified); its meaning is the set of total assignments of
atomic values to the paths that satisfy it.  Unification must denote the intersection.
-/
namespace Pfl
namespace FsGround

inductive Leaf where
  | atom (v : String)
  | var (x : String)
  | free
deriving DecidableEq, Repr

abbrev SFS := List (List String × Leaf)
abbrev Asg := List (List String × String)

def valOf (a : Asg) (p : List String) : Option String := (a.find? fun e => e.1 = p).map (·.2)

/-- the assignment satisfies the structure: atoms agree, occurrences of one variable agree -/
def sat (s : SFS) (a : Asg) : Bool :=
  s.all fun e => match e.2 with
    | .atom v => valOf a e.1 = some v
    | .free => true
    | .var x => s.all fun e' => match e'.2 with
      | .var y => if x = y then valOf a e.1 = valOf a e'.1 else true
      | _ => true

/-- all total assignments of `vals` to `paths` -/
def allAsg (vals : List String) : List (List String) → List Asg
  | [] => [[]]
  | p :: ps => (allAsg vals ps).flatMap fun a => vals.map fun v => (p, v) :: a

def grounds (paths : List (List String)) (vals : List String) (s : SFS) : List Asg :=
  (allAsg vals paths).filter (sat s)

/-- indices (in `allAsg` order) of the satisfying assignments: a canonical form of the meaning -/
def meaning (paths : List (List String)) (vals : List String) (s : SFS) : List Nat :=
  ((allAsg vals paths).zip (List.range (allAsg vals paths).length)).filterMap fun e =>
    if sat s e.1 then some e.2 else none

end FsGround
end Pfl
