/-
Reference constructions for the Boolean and rational operations, used as oracles:
the implementation's result is compared (exact language equivalence, `langDiff`) with the
reference automaton built here, whose language is characterised by a theorem
(Pfl/Props/C03_Ref.lean).
-/
import Pfl.Oracle.LangEquiv
namespace Pfl
namespace ENFA
variable {σ τ : Type} [DecidableEq σ] [DecidableEq τ]

def inlT (t : σ × Option Nat × σ) : (σ ⊕ τ) × Option Nat × (σ ⊕ τ) := (.inl t.1, t.2.1, .inl t.2.2)
def inrT (t : τ × Option Nat × τ) : (σ ⊕ τ) × Option Nat × (σ ⊕ τ) := (.inr t.1, t.2.1, .inr t.2.2)

/-- disjoint union -/
def unionA (A : ENFA σ) (B : ENFA τ) : ENFA (σ ⊕ τ) :=
  { states := A.states.map .inl ++ B.states.map .inr
    syms := (A.syms ++ B.syms).eraseDups
    starts := A.starts.map .inl ++ B.starts.map .inr
    finals := A.finals.map .inl ++ B.finals.map .inr
    delta := A.delta.map inlT ++ B.delta.map inrT }

/-- concatenation: ε-bridges from the finals of `A` to the starts of `B` -/
def concatA (A : ENFA σ) (B : ENFA τ) : ENFA (σ ⊕ τ) :=
  { states := A.states.map .inl ++ B.states.map .inr
    syms := (A.syms ++ B.syms).eraseDups
    starts := A.starts.map .inl
    finals := B.finals.map .inr
    delta := A.delta.map inlT ++ B.delta.map inrT ++
      A.finals.flatMap fun f => B.starts.map fun s => (.inl f, none, .inr s) }

/-- Kleene star: a new state `none` that is start and final -/
def starA (A : ENFA σ) : ENFA (Option σ) :=
  { states := none :: A.states.map some
    syms := A.syms
    starts := [none]
    finals := [none]
    delta := A.delta.map (fun t => (some t.1, t.2.1, some t.2.2)) ++
      A.starts.map (fun s => (none, none, some s)) ++ A.finals.map (fun f => (some f, none, none)) }

/-- complement relative to `A.syms`: determinise (canonical subsets), complete, flip -/
def complementRef (A : ENFA σ) (trash : List σ) (fuel : Nat) : Option (ENFA (List σ)) :=
  (A.toDet A.canonS true fuel).map fun D =>
    let D' := D.addSyms A.syms
    D'.complementRaw D'.copyE trash

end ENFA
end Pfl
