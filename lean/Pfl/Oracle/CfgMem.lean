/-
Verified oracle: membership of a word in an arbitrary context-free grammar, by saturation of
the span facts `(X, i, j)` = "X derives w[i..j)".  Independent of the normal-form pipeline.
-/
import Pfl.Model.CFG
namespace Pfl
namespace CFG

abbrev Span := String × Nat × Nat

/-- all end positions `j` such that `body` matches `w[i..j)` given the spans known so far -/
def matchBody (S : List Span) (w : List String) : List Sym → Nat → List Nat
  | [], i => [i]
  | .ter t :: rest, i => if w[i]? = some t then matchBody S w rest (i + 1) else []
  | .var u :: rest, i =>
      (S.filterMap fun s => if s.1 = u ∧ s.2.1 = i then some s.2.2 else none).flatMap
        (matchBody S w rest)

/-- one saturation round -/
def spanStep (G : CFG) (w : List String) (S : List Span) : List Span :=
  G.prods.foldl (fun S p =>
    (List.range (w.length + 1)).foldl (fun S i =>
      (matchBody S w p.2 i).foldl (fun S j => if (p.1, i, j) ∈ S then S else S ++ [(p.1, i, j)]) S) S) S

/-- iterate until a round adds nothing; `none` = out of fuel -/
def saturate (G : CFG) (w : List String) : Nat → List Span → Option (List Span)
  | 0, _ => none
  | fuel+1, S =>
    let S' := spanStep G w S
    if S'.length = S.length then some S else saturate G w fuel S'

/-- `some true` iff the start symbol derives `w` -/
def cfgMem (G : CFG) (w : List String) (fuel : Nat) : Option Bool :=
  (saturate G w fuel []).map fun S =>
    match G.start with
    | none => false
    | some s => (s, 0, w.length) ∈ S

/-- all words over `ters` of length exactly `n` -/
def wordsOfLenS (ters : List String) : Nat → List (List String)
  | 0 => [[]]
  | n+1 => (wordsOfLenS ters n).flatMap fun w => ters.map fun a => w ++ [a]

/-- the generated words of length `≤ n` (oracle for bounded language comparison) -/
def langUpTo (G : CFG) (n : Nat) (fuel : Nat) : Option (List (List String)) :=
  ((List.range (n + 1)).flatMap fun k => wordsOfLenS G.ters.eraseDups k).foldlM
    (fun acc w => (G.cfgMem w fuel).map fun b => if b then acc ++ [w] else acc) []

end CFG
end Pfl
