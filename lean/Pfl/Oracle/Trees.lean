/-
Oracles for C14 / C15: textbook FIRST / FOLLOW / predict sets and the LL(1) condition by
plain saturation; validity of parse trees and of leftmost / rightmost derivation listings.
-/
import Pfl.Model.CFG
namespace Pfl

/-- a parse tree as handed out by the library: a symbol and its sons -/
inductive PTree where
  | node (s : Sym) (sons : List PTree)
deriving Repr, Inhabited

namespace PTree
def sym : PTree → Sym
  | node s _ => s
def sons : PTree → List PTree
  | node _ l => l
end PTree

namespace CFG

mutual
/-- leaves read left to right (a variable without sons is an ε-subtree) -/
def yieldT : PTree → List String
  | .node (.ter t) [] => [t]
  | .node (.ter _) (_ :: _) => []
  | .node (.var _) sons => yieldL sons
def yieldL : List PTree → List String
  | [] => []
  | t :: ts => yieldT t ++ yieldL ts
end

mutual
/-- every inner node with its sons is a production of `G`; terminals are leaves -/
def wellFormedT (G : CFG) : PTree → Bool
  | .node (.ter _) sons => sons.isEmpty
  | .node (.var v) sons => decide ((v, sons.map PTree.sym) ∈ G.prods) && wellFormedL G sons
def wellFormedL (G : CFG) : List PTree → Bool
  | [] => true
  | t :: ts => wellFormedT G t && wellFormedL G ts
end

/-- the tree is a parse tree of `w` in `G` -/
def treeValid (G : CFG) (t : PTree) (w : List String) : Bool :=
  (match G.start with
    | some s => decide (t.sym = .var s)
    | none => false) && wellFormedT G t && decide (yieldT t = w)

/-- `u ⇒ v` rewriting the leftmost variable of `u` by one production -/
def leftStep (G : CFG) (u v : List Sym) : Bool :=
  match u.span (fun s => !Sym.isVar s) with
  | (pre, .var h :: post) => G.prods.any fun p => p.1 = h ∧ v = pre ++ p.2 ++ post
  | _ => false

/-- `u ⇒ v` rewriting the rightmost variable -/
def rightStep (G : CFG) (u v : List Sym) : Bool :=
  leftStep { G with prods := G.prods.map fun p => (p.1, p.2.reverse) } u.reverse v.reverse

def chainValid (step : List Sym → List Sym → Bool) : List (List Sym) → Bool
  | [] => true
  | [_] => true
  | u :: v :: rest => step u v && chainValid step (v :: rest)

/-- a derivation listing: starts at `[root]`, each line follows by one leftmost (rightmost)
step, ends in the terminal word `w` -/
def derivationValid (G : CFG) (left : Bool) (root : Sym) (lines : List (List Sym)) (w : List String) : Bool :=
  lines.head? = some [root] && lines.getLast? = some (w.map Sym.ter) &&
    chainValid (if left then leftStep G else rightStep G) lines

/-! ### FIRST / FOLLOW / LL(1) -/

/-- FIRST sets of all variables: pairs `(variable, terminal)`; one saturation round -/
def firstStep (G : CFG) (nul : List Sym) (F : List (String × String)) : List (String × String) :=
  G.prods.foldl (fun F p =>
    let rec go (F : List (String × String)) : List Sym → List (String × String)
      | [] => F
      | .ter t :: _ => if (p.1, t) ∈ F then F else F ++ [(p.1, t)]
      | .var v :: rest =>
        let F' := (F.filter (·.1 = v)).foldl (fun F e => if (p.1, e.2) ∈ F then F else F ++ [(p.1, e.2)]) F
        if Sym.var v ∈ nul then go F' rest else F'
    go F p.2) F

def firstSets (G : CFG) : List (String × String) :=
  iter (firstStep G G.nullable) (G.prods.length * (G.ters.length + 1) + 1) []

/-- FIRST of a symbol string (terminals only) and whether the string is nullable -/
def firstOfString (G : CFG) (F : List (String × String)) (nul : List Sym) : List Sym → List String × Bool
  | [] => ([], true)
  | .ter t :: _ => ([t], false)
  | .var v :: rest =>
    let fv := (F.filter (·.1 = v)).map (·.2)
    if Sym.var v ∈ nul then
      let (fr, nr) := firstOfString G F nul rest
      ((fv ++ fr).eraseDups, nr)
    else (fv.eraseDups, false)

/-- FOLLOW sets: pairs `(variable, terminal | "$" as none)` -/
def followStep (G : CFG) (F : List (String × String)) (nul : List Sym)
    (Fo : List (String × Option String)) : List (String × Option String) :=
  G.prods.foldl (fun Fo p =>
    let rec go (Fo : List (String × Option String)) : List Sym → List (String × Option String)
      | [] => Fo
      | .ter _ :: rest => go Fo rest
      | .var v :: rest =>
        let (fr, nr) := firstOfString G F nul rest
        let Fo1 := fr.foldl (fun Fo t => if (v, some t) ∈ Fo then Fo else Fo ++ [(v, some t)]) Fo
        let Fo2 := if nr then
            (Fo1.filter (·.1 = p.1)).foldl (fun Fo e => if (v, e.2) ∈ Fo then Fo else Fo ++ [(v, e.2)]) Fo1
          else Fo1
        go Fo2 rest
    go Fo p.2) Fo

def followSets (G : CFG) : List (String × Option String) :=
  let init := match G.start with
    | some s => [(s, none)]
    | none => []
  iter (followStep G G.firstSets G.nullable) (G.vars.length * (G.ters.length + 2) + 1) init

/-- predict set of a production -/
def predict (G : CFG) (p : Prod) : List (Option String) :=
  let (fr, nr) := firstOfString G G.firstSets G.nullable p.2
  (fr.map some ++ (if nr then (G.followSets.filter (·.1 = p.1)).map (·.2) else [])).eraseDups

/-- LL(1): two different productions of one variable have disjoint predict sets -/
def isLL1 (G : CFG) : Bool :=
  let ps := G.prods.eraseDups
  ps.all fun p => ps.all fun q =>
    p = q || p.1 ≠ q.1 || (G.predict p).all fun x => x ∉ G.predict q

/-- table-driven LL(1) parse (reference): `none` = not parsable -/
def llParseAux (G : CFG) : Nat → List Sym → List String → Option (List PTree × List String)
  | 0, _, _ => none
  | _, [], w => some ([], w)
  | fuel+1, .ter t :: rest, w =>
    match w with
    | a :: w' => if a = t then
        (llParseAux G fuel rest w').map fun r => (PTree.node (.ter t) [] :: r.1, r.2)
      else none
    | [] => none
  | fuel+1, .var v :: rest, w =>
    let look : Option String := w.head?
    match (G.prods.eraseDups.filter fun p => p.1 = v ∧ look ∈ G.predict p) with
    | [p] =>
      match llParseAux G fuel p.2 w with
      | none => none
      | some (sons, w') =>
        (llParseAux G fuel rest w').map fun r => (PTree.node (.var v) sons :: r.1, r.2)
    | _ => none

def llParse (G : CFG) (w : List String) (fuel : Nat) : Option PTree :=
  match G.start with
  | none => none
  | some s =>
    match llParseAux G fuel [.var s] w with
    | some ([t], []) => some t
    | _ => none

end CFG
end Pfl

namespace Pfl
namespace CFG

/-! ### model of `ParseTree.get_leftmost_derivation` / `get_rightmost_derivation` (after the repair) -/

mutual
def leftmostD : PTree → List (List Sym)
  | .node (.var v) [] => [[.var v], []]
  | .node (.ter t) [] => [[.ter t]]
  | .node s (son :: rest) => [s] :: leftSons (son :: rest) [] true
/-- the `for i, son in enumerate(self.sons)` loop; `first` is `i == 0` -/
def leftSons : List PTree → List Sym → Bool → List (List Sym)
  | [], _, _ => []
  | son :: rest, start, first =>
    let endd := rest.map PTree.sym
    let ds := leftmostD son
    let ds := if first then ds else ds.tail
    ds.map (fun d => start ++ d ++ endd) ++
      leftSons rest (match ds.getLast? with
        | some l => start ++ l
        | none => start ++ [son.sym]) false
end

mutual
/-- mirror image of a tree -/
def mirrorT : PTree → PTree
  | .node s sons => .node s (mirrorL sons)
def mirrorL : List PTree → List PTree
  | [] => []
  | t :: ts => mirrorL ts ++ [mirrorT t]
end

/-- `get_rightmost_derivation` is the mirror image of `get_leftmost_derivation`: same loop over the
sons taken last to first, with `start` and `end` exchanged -/
def rightmostD (t : PTree) : List (List Sym) := (leftmostD (mirrorT t)).map List.reverse

end CFG
end Pfl
