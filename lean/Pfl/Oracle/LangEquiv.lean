/-
Verified oracle: exact language (in)equivalence of two ε-NFAs by the on-the-fly product of
their subset automata.  Returns a distinguishing word when there is one.
-/
import Pfl.Model.FA
namespace Pfl
namespace ENFA
variable {σ τ : Type} [DecidableEq σ] [DecidableEq τ]

/-- canonical representative of a set of states (relative to the fixed list `A.states`) -/
def canonS (A : ENFA σ) (S : List σ) : List σ := A.states.filter (· ∈ S)

def subsetStart (A : ENFA σ) : List σ := A.canonS (A.ecloseL A.starts)
def subsetStep (A : ENFA σ) (S : List σ) (a : Nat) : List σ :=
  A.canonS (A.ecloseL (A.nextL S (some a)))
def hasFinal (A : ENFA σ) (S : List σ) : Bool := S.any (· ∈ A.finals)

def allSyms (A : ENFA σ) (B : ENFA τ) : List Nat :=
  (A.syms ++ B.syms ++ A.delta.filterMap (·.2.1) ++ B.delta.filterMap (·.2.1)).eraseDups

def diffNext (A : ENFA σ) (B : ENFA τ) (n : (List σ × List τ) × List Nat) :
    List ((List σ × List τ) × List Nat) :=
  (allSyms A B).map fun a => ((A.subsetStep n.1.1 a, B.subsetStep n.1.2 a), n.2 ++ [a])

/-- `none`: out of fuel; `some none`: same language; `some (some w)`: `w` is in exactly one -/
def langDiff (A : ENFA σ) (B : ENFA τ) (fuel : Nat) : Option (Option (List Nat)) :=
  let s0 : (List σ × List τ) × List Nat := ((A.subsetStart, B.subsetStart), [])
  (bfsK (·.1) (diffNext A B) fuel [s0] [s0]).map fun seen =>
    (seen.find? fun n => A.hasFinal n.1.1 != B.hasFinal n.1.2).map (·.2)

/-- reference membership: the set-based evaluation (this is what `acceptsE` computes) -/
def member (A : ENFA σ) (w : List Nat) : Bool := A.acceptsE (w.map some)

end ENFA
end Pfl

namespace Pfl
namespace ENFA
variable {σ : Type} [DecidableEq σ]

/-- all words over `syms` of length exactly `n` -/
def wordsOfLen (syms : List Nat) : Nat → List (List Nat)
  | 0 => [[]]
  | n+1 => (wordsOfLen syms n).flatMap fun w => syms.map fun a => w ++ [a]

/-- the accepted words of length `≤ n`, each once (for duplicate-free `A.syms`) -/
def langUpTo (A : ENFA σ) (n : Nat) : List (List Nat) :=
  (List.range (n+1)).flatMap fun k => (wordsOfLen A.syms.eraseDups k).filter A.member

/-- some state reachable from a start state lies on a cycle (of symbol- or ε-edges) -/
def reachableCycle (A : ENFA σ) : Bool :=
  A.reachable.any fun q => (A.outs q).any fun r =>
    q ∈ (bfs A.outs (A.delta.length + 2) [r]).getD []

end ENFA
end Pfl
