/-
Verified oracle: does a PDA accept a word (by empty stack / by final state)?  Saturation of
the pop relation  R(q, X, i, q', j)  = "from state q with X on top at input position i the
automaton can reach state q' at position j with exactly X removed", exact even when ε-moves
grow the stack without bound.
-/
import Pfl.Model.PDA
namespace Pfl
namespace PDA
variable {σ γ : Type} [DecidableEq σ] [DecidableEq γ]

abbrev Pop (σ γ : Type) := σ × γ × Nat × σ × Nat

/-- all `(state, position)` reachable from `(q, i)` by popping the symbols of `push` one after
the other, using the known pops -/
def popChain (R : List (Pop σ γ)) : List γ → σ → Nat → List (σ × Nat)
  | [], q, i => [(q, i)]
  | x :: rest, q, i =>
      (R.filterMap fun r => if r.1 = q ∧ r.2.1 = x ∧ r.2.2.1 = i then some (r.2.2.2.1, r.2.2.2.2) else none).flatMap
        fun qi => popChain R rest qi.1 qi.2

/-- positions after taking transition `t` at position `i` -/
def afterRead (w : List String) (a : Option String) (i : Nat) : List Nat :=
  match a with
  | none => [i]
  | some c => if w[i]? = some c then [i + 1] else []

def popStep (P : PDA σ γ) (w : List String) (R : List (Pop σ γ)) : List (Pop σ γ) :=
  P.delta.foldl (fun R t =>
    (List.range (w.length + 1)).foldl (fun R i =>
      (afterRead w t.2.1 i).foldl (fun R i' =>
        (popChain R t.2.2.2.2 t.2.2.2.1 i').foldl (fun R qj =>
          let r : Pop σ γ := (t.1, t.2.2.1, i, qj.1, qj.2)
          if r ∈ R then R else R ++ [r]) R) R) R) R

def popSaturate (P : PDA σ γ) (w : List String) : Nat → List (Pop σ γ) → Option (List (Pop σ γ))
  | 0, _ => none
  | fuel+1, R =>
    let R' := popStep P w R
    if R'.length = R.length then some R else popSaturate P w fuel R'

/-- facts `(q, X, i)`: from `(q, X on top, position i)` a final state can be reached with the
whole input consumed (whatever is left on the stack) -/
abbrev Fin (σ γ : Type) := σ × γ × Nat

def finStep (P : PDA σ γ) (w : List String) (R : List (Pop σ γ)) (F : List (Fin σ γ)) : List (Fin σ γ) :=
  P.delta.foldl (fun F t =>
    (List.range (w.length + 1)).foldl (fun F i =>
      (afterRead w t.2.1 i).foldl (fun F i' =>
        let push := t.2.2.2.2
        -- after the move we are in state t.2.2.2.1 at i' with `push` on top
        let hit : Bool :=
          (t.2.2.2.1 ∈ P.finals ∧ i' = w.length) ||
          (List.range push.length).any fun m =>
            (popChain R (push.take m) t.2.2.2.1 i').any fun qj =>
              match push[m]? with
              | some x => (qj.1, x, qj.2) ∈ F || (qj.1 ∈ P.finals ∧ qj.2 = w.length)
              | none => false
        let hit := hit || (popChain R push t.2.2.2.1 i').any fun qj => qj.1 ∈ P.finals ∧ qj.2 = w.length
        let f : Fin σ γ := (t.1, t.2.2.1, i)
        if hit ∧ f ∉ F then F ++ [f] else F) F) F) F

def finSaturate (P : PDA σ γ) (w : List String) (R : List (Pop σ γ)) :
    Nat → List (Fin σ γ) → Option (List (Fin σ γ))
  | 0, _ => none
  | fuel+1, F =>
    let F' := finStep P w R F
    if F'.length = F.length then some F else finSaturate P w R fuel F'

/-- acceptance by empty stack -/
def accEmpty (P : PDA σ γ) (w : List String) (fuel : Nat) : Option Bool :=
  match P.start, P.startStack with
  | some s, some z => (popSaturate P w fuel []).map fun R =>
      R.any fun r => r.1 = s ∧ r.2.1 = z ∧ r.2.2.1 = 0 ∧ r.2.2.2.2 = w.length
  | _, _ => some false

/-- acceptance by final state -/
def accFinal (P : PDA σ γ) (w : List String) (fuel : Nat) : Option Bool :=
  match P.start, P.startStack with
  | some s, some z =>
    match popSaturate P w fuel [] with
    | none => none
    | some R => (finSaturate P w R fuel []).map fun F =>
        (s ∈ P.finals ∧ w.length = 0) || (s, z, 0) ∈ F ||
        R.any fun r => r.1 = s ∧ r.2.1 = z ∧ r.2.2.1 = 0 ∧ r.2.2.2.1 ∈ P.finals ∧ r.2.2.2.2 = w.length
  | _, _ => some false

end PDA
end Pfl
