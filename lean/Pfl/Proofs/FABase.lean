/-
Base lemmas about runs, ε-closure and set-based evaluation, shared by all FA proofs.
-/
import Pfl.Spec.FA
namespace Pfl
namespace ENFA
variable {σ : Type} [DecidableEq σ]

theorem mem_succs (A : ENFA σ) (q r : σ) (a : Option Nat) :
    r ∈ A.succs q a ↔ (q, a, r) ∈ A.delta := by
  sorry

/-- the fuel used by `eclose` is always enough -/
theorem eclose_isSome (A : ENFA σ) (q : σ) :
    (bfs (fun x => A.succs x none) (A.delta.length + 1) [q]).isSome := by
  sorry

theorem Run.append {A : ENFA σ} {q r s : σ} {u v : List Nat}
    (h₁ : A.Run q u r) (h₂ : A.Run r v s) : A.Run q (u ++ v) s := by
  sorry

theorem mem_eclose_iff (A : ENFA σ) (q r : σ) : r ∈ A.eclose q ↔ A.EpsReach q r := by
  sorry

theorem mem_ecloseL_iff (A : ENFA σ) (S : List σ) (r : σ) :
    r ∈ A.ecloseL S ↔ ∃ q ∈ S, A.EpsReach q r := by
  sorry

theorem mem_nextL_iff (A : ENFA σ) (S : List σ) (a : Option Nat) (r : σ) :
    r ∈ A.nextL S a ↔ ∃ q ∈ S, (q, a, r) ∈ A.delta := by
  sorry

/-- a run on `a :: w` = ε-moves, one `a`-edge, then a run on `w` -/
theorem run_cons_iff (A : ENFA σ) (q s : σ) (a : Nat) (w : List Nat) :
    A.Run q (a :: w) s ↔ ∃ p r, A.EpsReach q p ∧ (p, some a, r) ∈ A.delta ∧ A.Run r w s := by
  sorry

/-- set-based evaluation of a word (what `accepts` iterates) -/
def evalE (A : ENFA σ) (S : List σ) (w : List Nat) : List σ :=
  w.foldl (fun cur a => A.ecloseL (A.nextL cur (some a))) S

theorem mem_evalE_iff (A : ENFA σ) (S0 : List σ) (w : List Nat) (r : σ) :
    r ∈ A.evalE (A.ecloseL S0) w ↔ ∃ q ∈ S0, A.Run q w r := by
  sorry

theorem lang_iff_evalE (A : ENFA σ) (w : List Nat) :
    A.Lang w ↔ ∃ f ∈ A.finals, f ∈ A.evalE (A.ecloseL A.starts) w := by
  sorry

end ENFA
end Pfl
