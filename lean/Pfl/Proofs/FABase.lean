/-
Base lemmas about runs, ε-closure and set-based evaluation, shared by all FA proofs.
-/
import Pfl.Spec.FA
namespace Pfl
namespace ENFA
variable {σ : Type} [DecidableEq σ]

theorem mem_succs (A : ENFA σ) (q r : σ) (a : Option Nat) :
    r ∈ A.succs q a ↔ (q, a, r) ∈ A.delta := by
  unfold succs
  simp only [List.mem_filterMap]
  constructor
  · rintro ⟨⟨x, b, y⟩, ht, h⟩
    split at h
    · rename_i hc
      simp only at hc
      obtain ⟨rfl, rfl⟩ := hc
      simp only [Option.some.injEq] at h
      subst h
      exact ht
    · cases h
  · intro h
    exact ⟨(q, a, r), h, by simp⟩

/-- the fuel used by `eclose` is always enough -/
theorem eclose_isSome (A : ENFA σ) (q : σ) :
    (bfs (fun x => A.succs x none) (A.delta.length + 1) [q]).isSome := by
  unfold bfs
  have hq : ([q] : List σ).eraseDups = [q] := by
    simp [List.eraseDups_cons]
  rw [hq]
  apply bfsK_isSome id (fun x => A.succs x none) (q :: A.delta.map (·.2.2))
  · intro x y hy
    have := (mem_succs A x y none).mp hy
    exact List.mem_cons_of_mem _ (List.mem_map.mpr ⟨_, this, rfl⟩)
  · simp
  · intro z hz
    simp only [List.mem_singleton] at hz
    subst hz
    exact List.mem_cons_self
  · simp only [List.length_cons, List.length_map, List.length_nil]; omega

set_option linter.unusedSectionVars false in
theorem Run.append {A : ENFA σ} {q r s : σ} {u v : List Nat}
    (h₁ : A.Run q u r) (h₂ : A.Run r v s) : A.Run q (u ++ v) s := by
  induction h₁ with
  | nil => exact h₂
  | eps he _ ih => exact Run.eps he (ih h₂)
  | step he _ ih => exact Run.step he (ih h₂)

/-- `Reach` over ε-successors is the same thing as an ε-run -/
theorem reach_eps_iff (A : ENFA σ) (q r : σ) :
    Reach (fun x => A.succs x none) q r ↔ A.Run q [] r := by
  constructor
  · intro h
    induction h with
    | refl => exact Run.nil q
    | tail _ hz ih =>
      have := Run.append ih (Run.eps ((mem_succs A _ _ none).mp hz) (Run.nil _))
      simpa using this
  · intro h
    generalize hw : ([] : List Nat) = w at h
    induction h with
    | nil => exact Reach.refl _
    | eps he _ ih => exact Reach.head ((mem_succs A _ _ none).mpr he) (ih hw)
    | step _ _ _ => cases hw

theorem mem_eclose_iff (A : ENFA σ) (q r : σ) : r ∈ A.eclose q ↔ A.EpsReach q r := by
  unfold eclose EpsReach
  have hs := eclose_isSome A q
  obtain ⟨res, hres⟩ := Option.isSome_iff_exists.mp hs
  rw [hres, Option.getD_some, mem_bfs_iff _ _ _ _ hres, ← reach_eps_iff]
  simp

theorem mem_ecloseL_iff (A : ENFA σ) (S : List σ) (r : σ) :
    r ∈ A.ecloseL S ↔ ∃ q ∈ S, A.EpsReach q r := by
  unfold ecloseL
  simp only [List.mem_eraseDups, List.mem_flatMap, mem_eclose_iff]

theorem mem_nextL_iff (A : ENFA σ) (S : List σ) (a : Option Nat) (r : σ) :
    r ∈ A.nextL S a ↔ ∃ q ∈ S, (q, a, r) ∈ A.delta := by
  unfold nextL
  simp only [List.mem_eraseDups, List.mem_flatMap, mem_succs]

set_option linter.unusedSectionVars false in
/-- a run on `a :: w` = ε-moves, one `a`-edge, then a run on `w` -/
theorem run_cons_iff (A : ENFA σ) (q s : σ) (a : Nat) (w : List Nat) :
    A.Run q (a :: w) s ↔ ∃ p r, A.EpsReach q p ∧ (p, some a, r) ∈ A.delta ∧ A.Run r w s := by
  constructor
  · intro h
    generalize hv : a :: w = v at h
    induction h with
    | nil => cases hv
    | eps he _ ih =>
      obtain ⟨p, r, h1, h2, h3⟩ := ih hv
      exact ⟨p, r, Run.eps he h1, h2, h3⟩
    | step he hr _ =>
      cases hv
      exact ⟨_, _, Run.nil _, he, hr⟩
  · rintro ⟨p, r, h1, h2, h3⟩
    have := Run.append h1 (Run.step h2 h3)
    simpa using this

/-- set-based evaluation of a word (what `accepts` iterates) -/
def evalE (A : ENFA σ) (S : List σ) (w : List Nat) : List σ :=
  w.foldl (fun cur a => A.ecloseL (A.nextL cur (some a))) S

theorem evalE_nil (A : ENFA σ) (S : List σ) : A.evalE S [] = S := rfl

theorem evalE_cons (A : ENFA σ) (S : List σ) (a : Nat) (w : List Nat) :
    A.evalE S (a :: w) = A.evalE (A.ecloseL (A.nextL S (some a))) w := rfl

theorem evalE_append (A : ENFA σ) (S : List σ) (u v : List Nat) :
    A.evalE S (u ++ v) = A.evalE (A.evalE S u) v := by
  unfold evalE; rw [List.foldl_append]

theorem mem_evalE_iff (A : ENFA σ) (S0 : List σ) (w : List Nat) (r : σ) :
    r ∈ A.evalE (A.ecloseL S0) w ↔ ∃ q ∈ S0, A.Run q w r := by
  induction w generalizing S0 with
  | nil => rw [evalE_nil, mem_ecloseL_iff]; rfl
  | cons a w ih =>
    rw [evalE_cons, ih]
    constructor
    · rintro ⟨q', hq', hrun⟩
      obtain ⟨p, hp, he⟩ := (mem_nextL_iff A _ _ _).mp hq'
      obtain ⟨q, hq, hqp⟩ := (mem_ecloseL_iff A _ _).mp hp
      exact ⟨q, hq, (run_cons_iff A q r a w).mpr ⟨p, q', hqp, he, hrun⟩⟩
    · rintro ⟨q, hq, hrun⟩
      obtain ⟨p, q', hqp, he, hr⟩ := (run_cons_iff A q r a w).mp hrun
      exact ⟨q', (mem_nextL_iff A _ _ _).mpr ⟨p, (mem_ecloseL_iff A _ _).mpr ⟨q, hq, hqp⟩, he⟩, hr⟩

theorem lang_iff_evalE (A : ENFA σ) (w : List Nat) :
    A.Lang w ↔ ∃ f ∈ A.finals, f ∈ A.evalE (A.ecloseL A.starts) w := by
  unfold Lang
  constructor
  · rintro ⟨s, hs, f, hf, hr⟩
    exact ⟨f, hf, (mem_evalE_iff A _ _ _).mpr ⟨s, hs, hr⟩⟩
  · rintro ⟨f, hf, hm⟩
    obtain ⟨s, hs, hr⟩ := (mem_evalE_iff A _ _ _).mp hm
    exact ⟨s, hs, f, hf, hr⟩

/-- the fold of `acceptsE` is `evalE` on the word with its ε symbols dropped -/
theorem acceptsE_foldl (A : ENFA σ) (S : List σ) (w : List (Option Nat)) :
    w.foldl (fun cur a => match a with
      | none => cur
      | some _ => A.ecloseL (A.nextL cur a)) S = A.evalE S (w.filterMap id) := by
  induction w generalizing S with
  | nil => rfl
  | cons a w ih =>
    cases a with
    | none => simpa using ih S
    | some a =>
      rw [List.foldl_cons, ih]
      simp [evalE_cons]

/-- `acceptsE` decides the run-based language (ε symbols inside the word are skipped) -/
theorem acceptsE_iff_lang (A : ENFA σ) (w : List (Option Nat)) :
    A.acceptsE w = true ↔ A.Lang (w.filterMap id) := by
  have h : A.acceptsE w = (A.evalE (A.ecloseL A.starts) (w.filterMap id)).any (· ∈ A.finals) := by
    unfold acceptsE
    exact congrArg (fun l => l.any (· ∈ A.finals)) (acceptsE_foldl A _ w)
  rw [h]
  simp only [List.any_eq_true, decide_eq_true_eq, lang_iff_evalE]
  constructor
  · rintro ⟨f, h1, h2⟩; exact ⟨f, h2, h1⟩
  · rintro ⟨f, h1, h2⟩; exact ⟨f, h2, h1⟩

omit [DecidableEq σ] in
/-- in an ε-free automaton an ε-run does not move -/
theorem EpsFree.run_nil_iff {A : ENFA σ} (h : A.EpsFree) (q r : σ) : A.Run q [] r ↔ q = r := by
  constructor
  · intro hr
    cases hr with
    | nil => rfl
    | eps he _ => exact absurd rfl (h _ he)
  · rintro rfl; exact Run.nil _

omit [DecidableEq σ] in
/-- in an ε-free automaton a run on `a :: w` starts with an `a`-edge -/
theorem EpsFree.run_cons_iff {A : ENFA σ} (h : A.EpsFree) (q s : σ) (a : Nat) (w : List Nat) :
    A.Run q (a :: w) s ↔ ∃ r, (q, some a, r) ∈ A.delta ∧ A.Run r w s := by
  constructor
  · intro hr
    cases hr with
    | eps he _ => exact absurd rfl (h _ he)
    | step he hr => exact ⟨_, he, hr⟩
  · rintro ⟨r, he, hr⟩; exact Run.step he hr

end ENFA
end Pfl
