/-
Specification of `buildGrammar` (the harness's `build_fcfg`) for the Earley model (C18).
-/
import Pfl.Proofs.EarleyLemmasDefs
namespace Pfl
namespace Earley
namespace Lem
open FsDag FsDag.Lem
namespace Bld
open FsDag.Lem.Build

/-! ### restatement of the construction as step functions -/

abbrev BAcc := Store × List (String × Nat) × List Nat

def bodyStep (a : BAcc) (item : Sym × Feat) : BAcc :=
  match item.1 with
  | .ter _ => (a.1 ++ [emptyNode], a.2.1, a.2.2 ++ [a.1.length])
  | .var _ => ((fsFor a.1 a.2.1 item.2).1, (fsFor a.1 a.2.1 item.2).2.1,
      a.2.2 ++ [(fsFor a.1 a.2.1 item.2).2.2])

def prodContent (hfs : Nat) (bfs : List Nat) : List (String × Nat) :=
  ("head", hfs) :: (bfs.zip (List.range bfs.length)).map fun e => (toString e.2, e.1)

abbrev Spec1 := (String × Feat) × List (Sym × Feat)

def prodStep (acc : Store × List FProd) (pr : Spec1) : Store × List FProd :=
  let r1 := fsFor acc.1 [] pr.1.2
  let r2 := pr.2.foldl bodyStep (r1.1, r1.2.1, [])
  (r2.1 ++ [{ value := none, content := prodContent r1.2.2 r2.2.2, pointer := none }],
    acc.2 ++ [{ head := pr.1.1, body := pr.2.map (·.1), feats := r2.1.length }])

def gammaStep (st : Store) : Store :=
  st ++ [emptyNode] ++ [emptyNode] ++
    [{ value := none, content := [("head", st.length), ("0", st.length + 1)], pointer := none }]

theorem buildGrammar_eq (spec : List Spec1) (start : String) :
    buildGrammar spec start =
      (gammaStep (spec.foldl prodStep ([], [])).1,
        { prods := (spec.foldl prodStep ([], [])).2, start := start,
          gammaFeats := (spec.foldl prodStep ([], [])).1.length + 2,
          gammaName := freshGamma (grammarVars (spec.foldl prodStep ([], [])).2 start) }) := by
  have h : buildGrammar spec start =
      ((spec.foldl prodStep ([], [])).1 ++ [emptyNode] ++ [emptyNode] ++
        [{ value := none, content := [("head", (spec.foldl prodStep ([], [])).1.length),
            ("0", ((spec.foldl prodStep ([], [])).1 ++ [emptyNode]).length)], pointer := none }],
        { prods := (spec.foldl prodStep ([], [])).2, start := start,
          gammaFeats := ((spec.foldl prodStep ([], [])).1 ++ [emptyNode] ++ [emptyNode]).length,
          gammaName := freshGamma (grammarVars (spec.foldl prodStep ([], [])).2 start) }) := rfl
  rw [h]
  simp only [gammaStep, List.length_append, List.length_cons, List.length_nil]


/-! ### equations of `fsFor` -/

def setN (st : Store) (fs x : Nat) : Store := st.set fs { get st fs with content := [("n", x)] }

theorem fsFor_none (st : Store) (vars : List (String × Nat)) :
    fsFor st vars none = (st ++ [emptyNode], vars, st.length) := rfl

theorem fsFor_const (st : Store) (vars : List (String × Nat)) {v : String}
    (h : ¬ v.startsWith "?" = true) :
    fsFor st vars (some v) =
      (setN (st ++ [emptyNode] ++ [{ value := some v, content := [], pointer := none }])
        st.length (st.length + 1), vars, st.length) := by
  simp only [fsFor, alloc, if_neg h, setN, emptyNode, List.length_append, List.length_cons,
    List.length_nil]

theorem fsFor_var_old (st : Store) {vars : List (String × Nat)} {v : String} {vn : Nat}
    (h : v.startsWith "?" = true) (hl : lookupC v vars = some vn) :
    fsFor st vars (some v) =
      (setN (st ++ [emptyNode] ++ [{ value := none, content := [], pointer := some vn }])
        st.length (st.length + 1), vars, st.length) := by
  simp only [fsFor, alloc, if_pos h, hl, setN, emptyNode, List.length_append, List.length_cons,
    List.length_nil]

theorem fsFor_var_new (st : Store) {vars : List (String × Nat)} {v : String}
    (h : v.startsWith "?" = true) (hl : lookupC v vars = none) :
    fsFor st vars (some v) =
      (setN (st ++ [emptyNode] ++ [emptyNode] ++
          [{ value := none, content := [], pointer := some (st.length + 1) }])
        st.length (st.length + 2), vars ++ [(v, st.length + 1)], st.length) := by
  simp only [fsFor, alloc, if_pos h, hl, setN, emptyNode, List.length_append, List.length_cons,
    List.length_nil]

/-! ### `setN` -/

theorem length_setN (st : Store) (fs x : Nat) : (setN st fs x).length = st.length := by
  simp [setN]

theorem ptr_setN (st : Store) (fs x i : Nat) : ptr (setN st fs x) i = ptr st i := by
  simp only [ptr, setN, get_set]; split
  · rename_i h; rw [h.1]
  · rfl

theorem val_setN (st : Store) (fs x i : Nat) : val (setN st fs x) i = val st i := by
  simp only [val, setN, get_set]; split
  · rename_i h; rw [h.1]
  · rfl

theorem cont_setN {st : Store} {fs : Nat} (h : fs < st.length) (x i : Nat) :
    cont (setN st fs x) i = if i = fs then [("n", x)] else cont st i := by
  simp only [cont, setN, get_set]
  by_cases hi : i = fs
  · subst hi; simp [h]
  · have : ¬ fs = i := fun h => hi h.symm
    simp [hi, this]

theorem get_setN_ne (st : Store) {fs : Nat} (x : Nat) {i : Nat} (h : i ≠ fs) :
    get (setN st fs x) i = get st i := by
  unfold setN; exact get_set_ne _ (fun e => h e.symm)

/-! ### the store invariant -/

structure SInv (st : Store) (rk : Nat → Nat) : Prop where
  rng : Rng st
  pl : ∀ i j, ptr st i = some j → j < i ∧ rk i = rk j ∧ cont st i = []
  rkc : ∀ i g x, (g, x) ∈ cont st i → rk x = rk i - 1 ∧ 0 < rk i
  rkv : ∀ i v, val st i = some v → rk i = 0

theorem SInv.acyc {st : Store} {rk : Nat → Nat} (h : SInv st rk) : Acyc st :=
  ⟨id, fun i j hp => (h.pl i j hp).1⟩

theorem SInv.wfs {st : Store} {rk : Nat → Nat} (h : SInv st rk) : WFS st rk := by
  refine ⟨h.rng, ⟨h.acyc, fun i j hp => (h.pl i j hp).2.1, ?_, h.rkv⟩, ?_⟩
  · intro i g x hx
    exact ⟨by unfold crE; exact (h.rkc i g x hx).1, (h.rkc i g x hx).2⟩
  · intro i
    cases hp : ptr st i with
    | none => exact CCat_of_rep hp
    | some j =>
      intro g x hx
      rw [(h.pl i j hp).2.2] at hx
      simp [lookupC] at hx

theorem SInv_nil : SInv [] (fun _ => 0) := by
  refine ⟨⟨?_, ?_⟩, ?_, ?_, ?_⟩
  · intro i j h; simp [ptr, get_ge, emptyNode] at h
  · intro i g x h; simp [cont, get_ge, emptyNode] at h
  · intro i j h; simp [ptr, get_ge, emptyNode] at h
  · intro i g x h; simp [cont, get_ge, emptyNode] at h
  · intro i v h; simp [val, get_ge, emptyNode] at h

theorem SInv_snoc {st : Store} {rk : Nat → Nat} (h : SInv st rk) (nd : Node) (r : Nat)
    (hc : ∀ g x, (g, x) ∈ nd.content → x < st.length ∧ rk x = r - 1 ∧ 0 < r)
    (hp : ∀ j, nd.pointer = some j → j < st.length ∧ rk j = r ∧ nd.content = [])
    (hv : ∀ v, nd.value = some v → r = 0) :
    SInv (st ++ [nd]) (Function.update rk st.length r) := by
  have hup : ∀ i, i < st.length → Function.update rk st.length r i = rk i := by
    intro i hi; rw [Function.update_of_ne (by omega)]
  refine ⟨⟨?_, ?_⟩, ?_, ?_, ?_⟩
  · intro i j hij
    rw [ptr_snoc] at hij
    rw [length_snoc]
    split at hij
    · have := (hp j hij).1; omega
    · have := h.rng.p i j hij; omega
  · intro i g x hx
    rw [cont_snoc] at hx
    rw [length_snoc]
    split at hx
    · have := (hc g x hx).1; omega
    · have := h.rng.c i g x hx; omega
  · intro i j hij
    rw [ptr_snoc] at hij
    rw [cont_snoc]
    split at hij
    · rename_i hi
      obtain ⟨h1, h2, h3⟩ := hp j hij
      subst hi
      rw [if_pos rfl, Function.update_self, hup j h1]
      exact ⟨h1, h2.symm, h3⟩
    · rename_i hi
      obtain ⟨h1, h2, h3⟩ := h.pl i j hij
      have hil := ptr_lt hij
      rw [if_neg hi, hup i hil, hup j (by omega)]
      exact ⟨h1, h2, h3⟩
  · intro i g x hx
    rw [cont_snoc] at hx
    split at hx
    · rename_i hi
      obtain ⟨h1, h2, h3⟩ := hc g x hx
      subst hi
      rw [Function.update_self, hup x h1]
      exact ⟨h2, h3⟩
    · have hil := cont_lt hx
      rw [hup i hil, hup x (h.rng.c i g x hx)]
      exact h.rkc i g x hx
  · intro i v hiv
    rw [val_snoc] at hiv
    split at hiv
    · rename_i hi
      subst hi
      rw [Function.update_self]; exact hv v hiv
    · rw [hup i (val_lt hiv)]; exact h.rkv i v hiv

theorem SInv_setN {st : Store} {rk : Nat → Nat} (h : SInv st rk) {fs x : Nat}
    (hfs : fs < st.length) (hp : ptr st fs = none) (hr : rk fs = 1)
    (hx : x < st.length) (hrx : rk x = 0) : SInv (setN st fs x) rk := by
  refine ⟨⟨?_, ?_⟩, ?_, ?_, ?_⟩
  · intro i j hij
    rw [ptr_setN] at hij
    rw [length_setN]; exact h.rng.p i j hij
  · intro i g y hy
    rw [cont_setN hfs] at hy
    rw [length_setN]
    split at hy
    · simp only [List.mem_singleton, Prod.mk.injEq] at hy
      rw [hy.2]; exact hx
    · exact h.rng.c i g y hy
  · intro i j hij
    rw [ptr_setN] at hij
    obtain ⟨h1, h2, h3⟩ := h.pl i j hij
    refine ⟨h1, h2, ?_⟩
    rw [cont_setN hfs]
    split
    · rename_i hi; subst hi; rw [hp] at hij; simp at hij
    · exact h3
  · intro i g y hy
    rw [cont_setN hfs] at hy
    split at hy
    · rename_i hi
      simp only [List.mem_singleton, Prod.mk.injEq] at hy
      rw [hy.2, hi, hr, hrx]; simp
    · exact h.rkc i g y hy
  · intro i v hiv
    rw [val_setN] at hiv
    exact h.rkv i v hiv

/-! ### extension steps -/

structure Step (st : Store) (rk : Nat → Nat) (st' : Store) (rk' : Nat → Nat) : Prop where
  inv : SInv st' rk'
  len : st.length ≤ st'.length
  old : ∀ i, i < st.length → get st' i = get st i
  rko : ∀ i, i < st.length → rk' i = rk i

theorem Step.refl {st : Store} {rk : Nat → Nat} (h : SInv st rk) : Step st rk st rk :=
  ⟨h, Nat.le_refl _, fun _ _ => rfl, fun _ _ => rfl⟩

theorem Step.trans {st st1 st2 : Store} {rk rk1 rk2 : Nat → Nat} (h1 : Step st rk st1 rk1)
    (h2 : Step st1 rk1 st2 rk2) : Step st rk st2 rk2 := by
  have := h1.len
  refine ⟨h2.inv, Nat.le_trans h1.len h2.len, ?_, ?_⟩
  · intro i hi; rw [h2.old i (by omega), h1.old i hi]
  · intro i hi; rw [h2.rko i (by omega), h1.rko i hi]

theorem Step_snoc {st0 st : Store} {rk0 rk : Nat → Nat} (h : Step st0 rk0 st rk) (nd : Node) (r : Nat)
    (hc : ∀ g x, (g, x) ∈ nd.content → x < st.length ∧ rk x = r - 1 ∧ 0 < r)
    (hp : ∀ j, nd.pointer = some j → j < st.length ∧ rk j = r ∧ nd.content = [])
    (hv : ∀ v, nd.value = some v → r = 0) :
    Step st0 rk0 (st ++ [nd]) (Function.update rk st.length r) := by
  have := h.len
  refine ⟨SInv_snoc h.inv nd r hc hp hv, by rw [length_snoc]; omega, ?_, ?_⟩
  · intro i hi
    rw [get_snoc, if_neg (by omega)]; exact h.old i hi
  · intro i hi
    rw [Function.update_of_ne (by omega)]; exact h.rko i hi

theorem Step_setN {st0 st : Store} {rk0 rk : Nat → Nat} (h : Step st0 rk0 st rk) {fs x : Nat}
    (hfs0 : st0.length ≤ fs) (hfs : fs < st.length) (hp : ptr st fs = none) (hr : rk fs = 1)
    (hx : x < st.length) (hrx : rk x = 0) : Step st0 rk0 (setN st fs x) rk := by
  refine ⟨SInv_setN h.inv hfs hp hr hx hrx, by rw [length_setN]; exact h.len, ?_, h.rko⟩
  intro i hi
  rw [get_setN_ne _ _ (by omega)]; exact h.old i hi


theorem get_app_add (st l : Store) (k : Nat) : get (st ++ l) (st.length + k) = get l k := by
  simp [FsDag.get, List.getD_eq_getElem?_getD, List.getElem?_append_right]

theorem get_app_len (st l : Store) : get (st ++ l) st.length = get l 0 := get_app_add st l 0

theorem get_cons_zero (a : Node) (l : Store) : get (a :: l) 0 = a := rfl

theorem get_cons_succ (a : Node) (l : Store) (k : Nat) : get (a :: l) (k + 1) = get l k := rfl

/-! ### specification of `fsFor` -/

def VT (st : Store) (rk : Nat → Nat) (vars : List (String × Nat)) : Prop :=
  ∀ v n, lookupC v vars = some n → n < st.length ∧ rk n = 0

theorem VT.step {st st' : Store} {rk rk' : Nat → Nat} {vars : List (String × Nat)}
    (h : VT st rk vars) (hs : Step st rk st' rk') : VT st' rk' vars :=
  fun v n hl => ⟨Nat.lt_of_lt_of_le (h v n hl).1 hs.len, by
    rw [hs.rko n (h v n hl).1]; exact (h v n hl).2⟩

def Sub (vars vars' : List (String × Nat)) : Prop :=
  ∀ v n, lookupC v vars = some n → lookupC v vars' = some n

theorem Sub.refl (vars : List (String × Nat)) : Sub vars vars := fun _ _ h => h

theorem Sub.trans {a b c : List (String × Nat)} (h1 : Sub a b) (h2 : Sub b c) : Sub a c :=
  fun v n h => h2 v n (h1 v n h)

def SymOK (st : Store) (vars : List (String × Nat)) (s : Nat) (f : Feat) : Prop :=
  s < st.length ∧ ptr st s = none ∧ ∀ v, f = some v → ∃ n, n < st.length ∧
    lookupC "n" (cont st s) = some n ∧
    if v.startsWith "?" = true then ∃ vn, lookupC v vars = some vn ∧ ptr st n = some vn
    else ptr st n = none ∧ val st n = some v

theorem SymOK.mono {st st' : Store} {vars vars' : List (String × Nat)} {s : Nat} {f : Feat}
    (h : SymOK st vars s f) (hlen : st.length ≤ st'.length)
    (hold : ∀ i, i < st.length → get st' i = get st i) (hsub : Sub vars vars') :
    SymOK st' vars' s f := by
  obtain ⟨h1, h2, h3⟩ := h
  refine ⟨by omega, by rw [ptr, hold s h1]; exact h2, ?_⟩
  intro v hv
  obtain ⟨n, hn, hl, hif⟩ := h3 v hv
  refine ⟨n, by omega, by rw [cont, hold s h1]; exact hl, ?_⟩
  split
  · rename_i hq
    rw [if_pos hq] at hif
    obtain ⟨vn, hvn, hp⟩ := hif
    exact ⟨vn, hsub v vn hvn, by rw [ptr, hold n hn]; exact hp⟩
  · rename_i hq
    rw [if_neg hq] at hif
    rw [ptr, val, hold n hn]; exact hif

def FsPost (st : Store) (rk : Nat → Nat) (vars : List (String × Nat)) (f : Feat)
    (r : Store × List (String × Nat) × Nat) : Prop :=
  ∃ rk', Step st rk r.1 rk' ∧ VT r.1 rk' r.2.1 ∧ Sub vars r.2.1 ∧ rk' r.2.2 = 1 ∧
    SymOK r.1 r.2.1 r.2.2 f

theorem fsFor_spec {st : Store} {rk : Nat → Nat} (hS : SInv st rk) {vars : List (String × Nat)}
    (hV : VT st rk vars) (f : Feat) : FsPost st rk vars f (fsFor st vars f) := by
  have s1 := Step_snoc (Step.refl hS) emptyNode 1 (by simp [emptyNode]) (by simp [emptyNode])
    (by simp [emptyNode])
  cases f with
  | none =>
    rw [fsFor_none]
    refine ⟨_, s1, hV.step s1, Sub.refl _, Function.update_self .., ?_⟩
    refine ⟨by simp, by simp [ptr_snoc, emptyNode], by simp⟩
  | some v =>
    by_cases hq : v.startsWith "?" = true
    · cases hl : lookupC v vars with
      | some vn =>
        rw [fsFor_var_old st hq hl]
        obtain ⟨hvn, hrvn⟩ := hV v vn hl
        have s2 := Step_snoc s1 { value := none, content := [], pointer := some vn } 0
          (by simp) (by
            intro j hj
            simp only [Option.some.injEq] at hj; subst hj
            refine ⟨by simp; omega, ?_, rfl⟩
            rw [Function.update_of_ne (by omega)]; exact hrvn) (by simp)
        have s3 := Step_setN s2 (fs := st.length) (x := st.length + 1) (by omega) (by simp)
          (by simp [ptr, get_app_len, get_cons_zero, emptyNode]) (by simp [Function.update])
          (by simp) (by simp [Function.update])
        refine ⟨_, s3, hV.step s3, Sub.refl _, by simp [Function.update], ?_⟩
        refine ⟨by simp [length_setN],
          by simp [ptr_setN, ptr, get_app_len, get_cons_zero, emptyNode], ?_⟩
        intro v' hv'
        simp only [Option.some.injEq] at hv'; subst hv'
        refine ⟨st.length + 1, by simp [length_setN], ?_, ?_⟩
        · rw [cont_setN (by simp)]; simp [lookupC]
        · rw [if_pos hq]
          exact ⟨vn, hl, by simp [ptr_setN, ptr, get_app_add, get_cons_zero, get_cons_succ]⟩
      | none =>
        rw [fsFor_var_new st hq hl]
        have s2 := Step_snoc s1 emptyNode 0 (by simp [emptyNode]) (by simp [emptyNode])
          (by simp [emptyNode])
        have s3 := Step_snoc s2 { value := none, content := [], pointer := some (st.length + 1) } 0
          (by simp) (by
            intro j hj
            simp only [Option.some.injEq] at hj; subst hj
            refine ⟨by simp, ?_, rfl⟩
            simp [Function.update]) (by simp)
        have s4 := Step_setN s3 (fs := st.length) (x := st.length + 2) (by omega) (by simp)
          (by simp [ptr, get_app_len, get_cons_zero, emptyNode]) (by simp [Function.update])
          (by simp) (by simp [Function.update])
        refine ⟨_, s4, ?_, fun v' n h => lookupC_append_some _ h, by simp [Function.update], ?_⟩
        · intro v' n hl'
          rw [lookupC_append] at hl'
          cases hl2 : lookupC v' vars with
          | some m =>
            rw [hl2] at hl'
            simp only [Option.some.injEq] at hl'; subst hl'
            exact (hV.step s4) v' m hl2
          | none =>
            rw [hl2] at hl'
            simp only [lookupC] at hl'
            split at hl'
            · simp only [Option.some.injEq] at hl'; subst hl'
              exact ⟨by simp [length_setN], by simp [Function.update]⟩
            · simp at hl'
        refine ⟨by simp [length_setN],
          by simp [ptr_setN, ptr, get_app_len, get_cons_zero, emptyNode], ?_⟩
        intro v' hv'
        simp only [Option.some.injEq] at hv'; subst hv'
        refine ⟨st.length + 2, by simp [length_setN], ?_, ?_⟩
        · rw [cont_setN (by simp)]; simp [lookupC]
        · rw [if_pos hq]
          exact ⟨st.length + 1, lookupC_append_single_self _ hl,
            by simp [ptr_setN, ptr, get_app_add, get_cons_zero, get_cons_succ]⟩
    · rw [fsFor_const st vars hq]
      have s2 := Step_snoc s1 { value := some v, content := [], pointer := none } 0
        (by simp) (by simp) (by simp)
      have s3 := Step_setN s2 (fs := st.length) (x := st.length + 1) (by omega) (by simp)
        (by simp [ptr, get_app_len, get_cons_zero, emptyNode]) (by simp [Function.update]) (by simp)
        (by simp [Function.update])
      refine ⟨_, s3, hV.step s3, Sub.refl _, by simp [Function.update], ?_⟩
      refine ⟨by simp [length_setN], by simp [ptr_setN, ptr, get_app_len, get_cons_zero, emptyNode], ?_⟩
      intro v' hv'
      simp only [Option.some.injEq] at hv'; subst hv'
      refine ⟨st.length + 1, by simp [length_setN], ?_, ?_⟩
      · rw [cont_setN (by simp)]; simp [lookupC]
      · rw [if_neg hq]
        simp [ptr_setN, val_setN, ptr, val, get_app_add, get_cons_zero, get_cons_succ]


/-! ### the fold over the body -/

structure BI (st0 : Store) (rk0 : Nat → Nat) (vars0 : List (String × Nat)) (a : BAcc)
    (pre : List (Sym × Feat)) (rk : Nat → Nat) : Prop where
  step : Step st0 rk0 a.1 rk
  vt : VT a.1 rk a.2.1
  sub : Sub vars0 a.2.1
  len : a.2.2.length = pre.length
  items : ∀ (j : Nat) (item : Sym × Feat), pre[j]? = some item → ∃ s, a.2.2[j]? = some s ∧ s < a.1.length ∧ rk s = 1 ∧
    ∀ X, item.1 = Sym.var X → SymOK a.1 a.2.1 s item.2

theorem BI.extend {st0 : Store} {rk0 : Nat → Nat} {vars0 : List (String × Nat)} {a : BAcc}
    {pre : List (Sym × Feat)} {rk : Nat → Nat} (h : BI st0 rk0 vars0 a pre rk)
    {st' : Store} {vars' : List (String × Nat)} {rk' : Nat → Nat} {s : Nat} {item : Sym × Feat}
    (hs : Step a.1 rk st' rk') (hv : VT st' rk' vars') (hsub : Sub a.2.1 vars')
    (hs1 : s < st'.length) (hr : rk' s = 1)
    (hsym : ∀ X, item.1 = Sym.var X → SymOK st' vars' s item.2) :
    BI st0 rk0 vars0 (st', vars', a.2.2 ++ [s]) (pre ++ [item]) rk' := by
  refine ⟨h.step.trans hs, hv, h.sub.trans hsub, by simp [h.len], ?_⟩
  intro j it hj
  by_cases hjl : j < pre.length
  · rw [List.getElem?_append_left hjl] at hj
    obtain ⟨s0, h1, h2, h3, h4⟩ := h.items j it hj
    refine ⟨s0, ?_, ?_, ?_, ?_⟩
    · show (a.2.2 ++ [s])[j]? = some s0
      rw [List.getElem?_append_left (by rw [h.len]; exact hjl)]; exact h1
    · exact Nat.lt_of_lt_of_le h2 hs.len
    · rw [hs.rko s0 h2]; exact h3
    · intro X hX
      exact (h4 X hX).mono hs.len hs.old hsub
  · have hj2 : j < (pre ++ [item]).length := by
      by_contra hc
      rw [List.getElem?_eq_none (by omega)] at hj; simp at hj
    have hje : j = pre.length := by simp at hj2; omega
    subst hje
    rw [List.getElem?_concat_length] at hj
    simp only [Option.some.injEq] at hj; subst hj
    refine ⟨s, ?_, hs1, hr, hsym⟩
    show (a.2.2 ++ [s])[pre.length]? = some s
    rw [← h.len, List.getElem?_concat_length]

def BInv (st0 : Store) (rk0 : Nat → Nat) (vars0 : List (String × Nat)) (a : BAcc)
    (pre : List (Sym × Feat)) : Prop := ∃ rk, BI st0 rk0 vars0 a pre rk

theorem bodyStep_BInv {st0 : Store} {rk0 : Nat → Nat} {vars0 : List (String × Nat)} {a : BAcc}
    {pre : List (Sym × Feat)} (h : BInv st0 rk0 vars0 a pre) (item : Sym × Feat) :
    BInv st0 rk0 vars0 (bodyStep a item) (pre ++ [item]) := by
  obtain ⟨rk, h⟩ := h
  obtain ⟨sym, f⟩ := item
  cases sym with
  | ter t =>
    have s1 := Step_snoc (Step.refl h.step.inv) emptyNode 1 (by simp [emptyNode])
      (by simp [emptyNode]) (by simp [emptyNode])
    exact ⟨_, h.extend s1 (h.vt.step s1) (Sub.refl _) (by simp) (Function.update_self ..)
      (by intro X hX; simp at hX)⟩
  | var X =>
    obtain ⟨rk', h1, h2, h3, h4, h5⟩ := fsFor_spec h.step.inv h.vt f
    exact ⟨_, h.extend h1 h2 h3 h5.1 h4 (fun _ _ => h5)⟩

theorem body_fold {st0 : Store} {rk0 : Nat → Nat} {vars0 : List (String × Nat)}
    (items : List (Sym × Feat)) : ∀ (a : BAcc) (pre : List (Sym × Feat)),
    BInv st0 rk0 vars0 a pre → BInv st0 rk0 vars0 (items.foldl bodyStep a) (pre ++ items) := by
  induction items with
  | nil => intro a pre h; simpa using h
  | cons it rest ih =>
    intro a pre h
    have := ih (bodyStep a it) (pre ++ [it]) (bodyStep_BInv h it)
    simpa using this


/-! ### the content of the production record -/

theorem toString_nat_inj {j k : Nat} (h : toString j = toString k) : j = k :=
  Nat.repr_injective h

theorem head_ne_toString (j : Nat) : "head" ≠ toString j := by
  intro h
  have h1 : 'h' ∈ (Nat.repr j).toList := by
    rw [show Nat.repr j = "head" from h.symm]; decide
  rw [Nat.toList_repr] at h1
  have := Nat.isDigit_of_mem_toDigits (by decide) (by decide) h1
  revert this; decide

theorem lookupC_prodContent_head (hfs : Nat) (bfs : List Nat) :
    lookupC "head" (prodContent hfs bfs) = some hfs := by
  simp [prodContent, lookupC]

theorem lookupC_zip : ∀ (bfs : List Nat) (k j s : Nat), bfs[j]? = some s →
    lookupC (toString (k + j))
      ((bfs.zip (List.range' k bfs.length)).map fun e => (toString e.2, e.1)) = some s := by
  intro bfs
  induction bfs with
  | nil => intro k j s h; simp at h
  | cons b bs ih =>
    intro k j s h
    cases j with
    | zero =>
      simp only [List.getElem?_cons_zero, Option.some.injEq] at h; subst h
      simp [List.range'_succ, lookupC]
    | succ j =>
      simp only [List.getElem?_cons_succ] at h
      have hne : ¬ toString k = toString (k + (j + 1)) := fun e => by
        have := toString_nat_inj e; omega
      have := ih (k + 1) j s h
      simp only [List.length_cons, List.range'_succ, List.zip_cons_cons, List.map_cons, lookupC,
        if_neg hne]
      rw [show k + (j + 1) = k + 1 + j by omega]
      exact this

theorem lookupC_prodContent_idx (hfs : Nat) {bfs : List Nat} {j s : Nat} (h : bfs[j]? = some s) :
    lookupC (toString j) (prodContent hfs bfs) = some s := by
  have := lookupC_zip bfs 0 j s h
  simp only [prodContent, lookupC, if_neg (head_ne_toString j)]
  rw [List.range_eq_range']
  simpa using this

theorem mem_prodContent {hfs : Nat} {bfs : List Nat} {g : String} {x : Nat}
    (h : (g, x) ∈ prodContent hfs bfs) : x = hfs ∨ x ∈ bfs := by
  simp only [prodContent, List.mem_cons, Prod.mk.injEq, List.mem_map] at h
  rcases h with h | ⟨e, he, h⟩
  · exact Or.inl h.2
  · right
    have := (List.of_mem_zip (show (e.1, e.2) ∈ _ from he)).1
    rw [h.2] at this; exact this


/-! ### raw (frame-stable) form of `ProdOK` -/

def RawLeaf (st : Store) (F : Nat) (name v : String) (vn : String → Nat) : Prop :=
  ∃ s n, lookupC name (cont st F) = some s ∧ s < st.length ∧ ptr st s = none ∧ n < st.length ∧
    lookupC "n" (cont st s) = some n ∧
    if v.startsWith "?" = true then ptr st n = some (vn v) else ptr st n = none ∧ val st n = some v

def RawProd (st : Store) (pr : Spec1) (F : Nat) : Prop :=
  F < st.length ∧ ptr st F = none ∧ ∃ vn : String → Nat,
    (∀ v, pr.1.2 = some v → RawLeaf st F "head" v vn) ∧
    (∀ (j : Nat) (X v : String), pr.2[j]? = some (Sym.var X, some v) →
      RawLeaf st F (toString j) v vn)

theorem RawLeaf.mono {st st' : Store} {F : Nat} {name v : String} {vn : String → Nat}
    (h : RawLeaf st F name v vn) (hF : F < st.length) (hlen : st.length ≤ st'.length)
    (hold : ∀ i, i < st.length → get st' i = get st i) : RawLeaf st' F name v vn := by
  obtain ⟨s, n, h1, h2, h3, h4, h5, h6⟩ := h
  refine ⟨s, n, by rw [cont, hold F hF]; exact h1, by omega, by rw [ptr, hold s h2]; exact h3,
    by omega, by rw [cont, hold s h2]; exact h5, ?_⟩
  rw [ptr, val, hold n h4]; exact h6

theorem RawProd.mono {st st' : Store} {pr : Spec1} {F : Nat} (h : RawProd st pr F)
    (hlen : st.length ≤ st'.length) (hold : ∀ i, i < st.length → get st' i = get st i) :
    RawProd st' pr F := by
  obtain ⟨h1, h2, vn, h3, h4⟩ := h
  refine ⟨by omega, by rw [ptr, hold F h1]; exact h2, vn, ?_, ?_⟩
  · intro v hv; exact (h3 v hv).mono h1 hlen hold
  · intro j X v hj; exact (h4 j X v hj).mono h1 hlen hold

theorem RawLeaf.leafAt {st : Store} {F : Nat} {name v : String} {vn : String → Nat}
    (h : RawLeaf st F name v vn) (hF : ptr st F = none) (ha : Acyc st) :
    LeafAt st F name v vn := by
  obtain ⟨s, n, h1, h2, h3, h4, h5, h6⟩ := h
  refine ⟨n, ?_, ?_⟩
  · rw [byPath_cons_of _ (by rw [deref_of_none hF]; exact h1),
      byPath_cons_of _ (by rw [deref_of_none h3]; exact h5), byPath_nil]
  · split
    · rename_i hq
      rw [if_pos hq] at h6
      exact deref_step ha h6
    · rename_i hq
      rw [if_neg hq] at h6
      rw [deref_of_none h6.1]; exact h6.2

theorem RawProd.prodOK {st : Store} {pr : Spec1} {F : Nat} (h : RawProd st pr F) (ha : Acyc st) :
    ProdOK st pr F := by
  obtain ⟨_, h2, vn, h3, h4⟩ := h
  exact ⟨vn, fun v hv => (h3 v hv).leafAt h2 ha, fun j X v hj => (h4 j X v hj).leafAt h2 ha⟩

theorem SymOK.rawLeaf {st : Store} {vars : List (String × Nat)} {s : Nat} {v : String}
    (h : SymOK st vars s (some v)) {F : Nat} {name : String}
    (hl : lookupC name (cont st F) = some s) :
    RawLeaf st F name v (fun v => (lookupC v vars).getD 0) := by
  obtain ⟨h1, h2, h3⟩ := h
  obtain ⟨n, hn, hl2, hif⟩ := h3 v rfl
  refine ⟨s, n, hl, h1, h2, hn, hl2, ?_⟩
  split
  · rename_i hq
    rw [if_pos hq] at hif
    obtain ⟨vn, hvn, hp⟩ := hif
    show ptr st n = some ((lookupC v vars).getD 0)
    rw [hvn]; exact hp
  · rename_i hq
    rw [if_neg hq] at hif; exact hif

/-! ### the fold over the productions -/

structure PI (acc : Store × List FProd) (pre : List Spec1) (rk : Nat → Nat) : Prop where
  inv : SInv acc.1 rk
  len : acc.2.length = pre.length
  prods : ∀ (k : Nat) (pr : Spec1), pre[k]? = some pr → ∃ p, acc.2[k]? = some p ∧
    p.head = pr.1.1 ∧ p.body = pr.2.map (·.1) ∧ p.feats < acc.1.length ∧ rk p.feats = 2 ∧
    RawProd acc.1 pr p.feats

theorem PI.extend {acc : Store × List FProd} {pre : List Spec1} {rk : Nat → Nat}
    (h : PI acc pre rk) {st' : Store} {rk' : Nat → Nat} {p : FProd} {pr : Spec1}
    (hs : Step acc.1 rk st' rk') (hh : p.head = pr.1.1) (hb : p.body = pr.2.map (·.1))
    (hf : p.feats < st'.length) (hr : rk' p.feats = 2) (hp : RawProd st' pr p.feats) :
    PI (st', acc.2 ++ [p]) (pre ++ [pr]) rk' := by
  refine ⟨hs.inv, by simp [h.len], ?_⟩
  intro k pr' hk
  by_cases hkl : k < pre.length
  · rw [List.getElem?_append_left hkl] at hk
    obtain ⟨p0, h1, h2, h3, h4, h5, h6⟩ := h.prods k pr' hk
    refine ⟨p0, ?_, h2, h3, Nat.lt_of_lt_of_le h4 hs.len, by rw [hs.rko _ h4]; exact h5,
      h6.mono hs.len hs.old⟩
    show (acc.2 ++ [p])[k]? = some p0
    rw [List.getElem?_append_left (by rw [h.len]; exact hkl)]; exact h1
  · have hk2 : k < (pre ++ [pr]).length := by
      by_contra hc
      rw [List.getElem?_eq_none (by omega)] at hk; simp at hk
    have hke : k = pre.length := by simp at hk2; omega
    subst hke
    rw [List.getElem?_concat_length] at hk
    simp only [Option.some.injEq] at hk; subst hk
    refine ⟨p, ?_, hh, hb, hf, hr, hp⟩
    show (acc.2 ++ [p])[pre.length]? = some p
    rw [← h.len, List.getElem?_concat_length]

theorem VT_nil (st : Store) (rk : Nat → Nat) : VT st rk [] := by
  intro v n h; simp [lookupC] at h

theorem prodStep_PI {acc : Store × List FProd} {pre : List Spec1} {rk : Nat → Nat}
    (h : PI acc pre rk) (pr : Spec1) : ∃ rk', PI (prodStep acc pr) (pre ++ [pr]) rk' := by
  obtain ⟨rk1, h1, h2, _, h4, h5⟩ := fsFor_spec h.inv (VT_nil acc.1 rk) pr.1.2
  have hinit : BI (fsFor acc.1 [] pr.1.2).1 rk1 (fsFor acc.1 [] pr.1.2).2.1
      ((fsFor acc.1 [] pr.1.2).1, (fsFor acc.1 [] pr.1.2).2.1, []) [] rk1 :=
    ⟨Step.refl h1.inv, h2, Sub.refl _, rfl, by simp⟩
  have hfold := body_fold pr.2 _ [] ⟨rk1, hinit⟩
  rw [List.nil_append] at hfold
  obtain ⟨rk2, hb⟩ := hfold
  have e : prodStep acc pr =
      ((List.foldl bodyStep ((fsFor acc.1 [] pr.1.2).1, (fsFor acc.1 [] pr.1.2).2.1, []) pr.2).1 ++
        [{ value := none, content := prodContent (fsFor acc.1 [] pr.1.2).2.2
            (List.foldl bodyStep ((fsFor acc.1 [] pr.1.2).1, (fsFor acc.1 [] pr.1.2).2.1, []) pr.2).2.2,
           pointer := none }],
       acc.2 ++ [(FProd.mk pr.1.1 (pr.2.map (·.1))
          (List.foldl bodyStep ((fsFor acc.1 [] pr.1.2).1, (fsFor acc.1 [] pr.1.2).2.1, [])
            pr.2).1.length)]) := rfl
  rw [e]
  clear e
  generalize hr1 : fsFor acc.1 [] pr.1.2 = r1 at *
  generalize hr2 : List.foldl bodyStep (r1.1, r1.2.1, []) pr.2 = r2 at *
  have hlen12 := hb.step.len
  have hhfs : r1.2.2 < r1.1.length := h5.1
  have s3 := Step_snoc hb.step
    { value := none, content := prodContent r1.2.2 r2.2.2, pointer := none } 2
    (by
      intro g x hx
      refine ⟨?_, ?_, by omega⟩
      · rcases mem_prodContent hx with rfl | hx
        · omega
        · obtain ⟨j, hj⟩ := List.mem_iff_getElem?.1 hx
          have hjl : j < pr.2.length := by
            rw [← hb.len]
            by_contra hc
            rw [List.getElem?_eq_none (by omega)] at hj; simp at hj
          obtain ⟨s, hs1, hs2, _, _⟩ := hb.items j pr.2[j] (List.getElem?_eq_getElem hjl)
          rw [hj] at hs1
          simp only [Option.some.injEq] at hs1; subst hs1; exact hs2
      · rcases mem_prodContent hx with rfl | hx
        · rw [hb.step.rko _ hhfs]; exact h4
        · obtain ⟨j, hj⟩ := List.mem_iff_getElem?.1 hx
          have hjl : j < pr.2.length := by
            rw [← hb.len]
            by_contra hc
            rw [List.getElem?_eq_none (by omega)] at hj; simp at hj
          obtain ⟨s, hs1, _, hs3, _⟩ := hb.items j pr.2[j] (List.getElem?_eq_getElem hjl)
          rw [hj] at hs1
          simp only [Option.some.injEq] at hs1; subst hs1; exact hs3)
    (by simp) (by simp)
  have hold3 : ∀ i, i < r2.1.length → get (r2.1 ++
      [{ value := none, content := prodContent r1.2.2 r2.2.2, pointer := none }]) i = get r2.1 i :=
    fun i hi => get_append_lt _ hi
  have hcont : cont (r2.1 ++
      [{ value := none, content := prodContent r1.2.2 r2.2.2, pointer := none }]) r2.1.length =
      prodContent r1.2.2 r2.2.2 := by
    rw [cont_snoc, if_pos rfl]
  refine ⟨_, h.extend (p := { head := pr.1.1, body := pr.2.map (·.1), feats := r2.1.length })
    (h1.trans s3) rfl rfl (by simp) (Function.update_self ..) ?_⟩
  refine ⟨by simp, by rw [ptr_snoc, if_pos rfl], fun v => (lookupC v r2.2.1).getD 0, ?_, ?_⟩
  · intro v hv
    have hsym := h5.mono s3.len s3.old hb.sub
    rw [hv] at hsym
    exact hsym.rawLeaf (by rw [hcont]; exact lookupC_prodContent_head _ _)
  · intro j X v hj
    obtain ⟨s, hs1, _, _, hs4⟩ := hb.items j _ hj
    have hsym := (hs4 X rfl).mono (by simp) hold3 (Sub.refl _)
    exact hsym.rawLeaf (by rw [hcont]; exact lookupC_prodContent_idx _ hs1)

theorem outer_fold (spec : List Spec1) : ∀ (acc : Store × List FProd) (pre : List Spec1),
    (∃ rk, PI acc pre rk) → ∃ rk, PI (spec.foldl prodStep acc) (pre ++ spec) rk := by
  induction spec with
  | nil => intro acc pre h; simpa using h
  | cons pr rest ih =>
    intro acc pre h
    obtain ⟨rk, h⟩ := h
    have := ih (prodStep acc pr) (pre ++ [pr]) (prodStep_PI h pr)
    simpa using this

theorem PI_nil : PI ([], []) [] (fun _ => 0) :=
  ⟨SInv_nil, rfl, by simp⟩

theorem gamma_step {st : Store} {rk : Nat → Nat} (h : SInv st rk) :
    ∃ rk', Step st rk (gammaStep st) rk' ∧ rk' (st.length + 2) = 2 := by
  have g1 := Step_snoc (Step.refl h) emptyNode 1 (by simp [emptyNode]) (by simp [emptyNode])
    (by simp [emptyNode])
  have g2 := Step_snoc g1 emptyNode 1 (by simp [emptyNode]) (by simp [emptyNode])
    (by simp [emptyNode])
  have g3 := Step_snoc g2
    { value := none, content := [("head", st.length), ("0", st.length + 1)], pointer := none } 2
    (by
      intro g x hx
      simp only [List.mem_cons, Prod.mk.injEq, List.not_mem_nil, or_false] at hx
      rcases hx with ⟨_, rfl⟩ | ⟨_, rfl⟩
      · exact ⟨by simp, by simp [Function.update], by omega⟩
      · exact ⟨by simp, by simp [Function.update], by omega⟩)
    (by simp) (by simp)
  exact ⟨_, g3, by simp [Function.update]⟩

end Bld

open Bld in
theorem build_spec (spec : List ((String × Feat) × List (Sym × Feat))) (start : String) :
    (buildGrammar spec start).2.start = start ∧
    (buildGrammar spec start).2.prods.length = spec.length ∧
    (∀ (k : Nat) (hk : k < spec.length), ∃ p, (buildGrammar spec start).2.prods[k]? = some p ∧
        p.head = spec[k].1.1 ∧ p.body = spec[k].2.map (·.1) ∧
        p.feats < (buildGrammar spec start).1.length ∧
        ProdOK (buildGrammar spec start).1 spec[k] p.feats) ∧
    (buildGrammar spec start).2.gammaFeats < (buildGrammar spec start).1.length ∧
    (buildGrammar spec start).2.gammaName =
      freshGamma (grammarVars (buildGrammar spec start).2.prods start) ∧
    ∃ rk : Nat → Nat, WFS (buildGrammar spec start).1 rk ∧
      rk (buildGrammar spec start).2.gammaFeats = 2 ∧
      ∀ p ∈ (buildGrammar spec start).2.prods, rk p.feats = 2 := by
  rw [buildGrammar_eq]
  obtain ⟨rk, hP⟩ := outer_fold spec ([], []) [] ⟨_, PI_nil⟩
  rw [List.nil_append] at hP
  generalize List.foldl prodStep ([], []) spec = R at *
  dsimp only
  obtain ⟨rk3, g3, hg⟩ := gamma_step hP.inv
  refine ⟨rfl, hP.len, ?_, by simp [gammaStep], rfl, rk3, g3.inv.wfs, hg, ?_⟩
  · intro k hk
    obtain ⟨p, h1, h2, h3, h4, _, h6⟩ := hP.prods k spec[k] (List.getElem?_eq_getElem hk)
    exact ⟨p, h1, h2, h3, Nat.lt_of_lt_of_le h4 g3.len,
      (h6.mono g3.len g3.old).prodOK g3.inv.acyc⟩
  · intro p hp
    obtain ⟨k, hk⟩ := List.mem_iff_getElem?.1 hp
    have hkl : k < spec.length := by
      rw [← hP.len]
      by_contra hc
      rw [List.getElem?_eq_none (by omega)] at hk; simp at hk
    obtain ⟨p', h1, _, _, h4, h5, _⟩ := hP.prods k spec[k] (List.getElem?_eq_getElem hkl)
    have : p' = p := by
      have := h1.symm.trans hk
      simpa using this
    subst this
    rw [g3.rko _ h4]; exact h5

end Lem
end Earley
end Pfl
