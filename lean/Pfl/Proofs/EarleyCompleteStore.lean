/-
Store-level lemmas for the completeness proof of the Earley model (C18): frames, the extra store
invariants (functional feature lists, values of classes, shape of the symbol records), a generic
invariant of `unify`, the canonical interpretation of a valuation, and the completeness direction
of `unify` and `copy` for valuations.
-/
import Pfl.Proofs.EarleyLemmasLoop
namespace Pfl
namespace Earley
namespace Cmp
open FsDag FsDag.Lem Lem

/-! ### frames: the later store keeps the old objects -/

structure Fr (st st' : Store) : Prop where
  len : st.length ≤ st'.length
  old : ∀ i, i < st.length → get st' i = get st i

theorem Fr.refl (st : Store) : Fr st st := ⟨Nat.le_refl _, fun _ _ => rfl⟩

theorem Fr.trans {st st1 st2 : Store} (h1 : Fr st st1) (h2 : Fr st1 st2) : Fr st st2 :=
  ⟨Nat.le_trans h1.len h2.len, fun i hi => by
    rw [h2.old i (Nat.lt_of_lt_of_le hi h1.len), h1.old i hi]⟩

theorem Fr.append (st e : Store) : Fr st (st ++ e) :=
  ⟨by simp, fun _ hi => get_append_lt e hi⟩

theorem Fr.deref_eq {st st' : Store} (h : Fr st st') (ha : Acyc st) (hr : Rng st) {i : Nat}
    (hi : i < st.length) : deref st' i = deref st i :=
  deref_frame ha h.len (· < st.length) (fun j hj => by rw [ptr, h.old j hj])
    (fun j j2 _ hp => hr.p j j2 hp) i hi

theorem Fr.byPath_eq {st st' : Store} (h : Fr st st') (ha : Acyc st) (hr : Rng st) (p : List String)
    {i : Nat} (hi : i < st.length) : byPath st' i p = byPath st i p :=
  byPath_frame ha hr h.len h.old p i hi

theorem Fr.rdv_eq {st st' : Store} (h : Fr st st') (ha : Acyc st) (hr : Rng st) (σ : Nat → String)
    {F : Nat} (hF : F < st.length) (p : List String) : rdv st' σ F p = rdv st σ F p := by
  unfold rdv
  rw [h.byPath_eq ha hr p hF]
  cases hb : byPath st F p with
  | none => rfl
  | some n =>
    simp only [Option.map_some]
    rw [h.deref_eq ha hr (byPath_lt hr p F n hF hb)]

theorem Fr.resp_back {P : String → Prop} {st st' : Store} (h : Fr st st') {σ : Nat → String}
    (hσ : Resp P st' σ) : Resp P st σ := by
  refine ⟨hσ.1, fun c v hp hv hP => ?_⟩
  have hc : c < st.length := val_lt hv
  exact hσ.2 c v (by rw [ptr, h.old c hc]; exact hp) (by rw [val, h.old c hc]; exact hv) hP

open Classical in
/-- a valuation of the old store extended by the default valuation on the new classes -/
noncomputable def extVal (P : String → Prop) (st st' : Store) (d : String) (σ : Nat → String) :
    Nat → String :=
  fun c => if c < st.length then σ c else dfltVal P st' d c

theorem Fr.resp_fwd {P : String → Prop} {st st' : Store} (h : Fr st st') {σ : Nat → String}
    (hσ : Resp P st σ) {d : String} (hd : P d) : Resp P st' (extVal P st st' d σ) := by
  refine ⟨fun c => ?_, fun c v hp hv hP => ?_⟩
  · unfold extVal; split
    · exact hσ.1 c
    · exact (resp_default P st' hd).1 c
  · unfold extVal; split
    · rename_i hc
      exact hσ.2 c v (by rw [ptr, ← h.old c hc]; exact hp) (by rw [val, ← h.old c hc]; exact hv) hP
    · exact (resp_default P st' hd).2 c v hp hv hP

theorem Fr.rdv_ext {P : String → Prop} {st st' : Store} (h : Fr st st') (ha : Acyc st) (hr : Rng st)
    (σ : Nat → String) (d : String) {F : Nat} (hF : F < st.length) (p : List String) :
    rdv st' (extVal P st st' d σ) F p = rdv st σ F p := by
  rw [h.rdv_eq ha hr _ hF]
  unfold rdv
  cases hb : byPath st F p with
  | none => rfl
  | some n =>
    simp only [Option.map_some, Option.some.injEq]
    have := deref_lt hr (byPath_lt hr p F n hF hb)
    unfold extVal; rw [if_pos this]

/-! ### the extra invariants of the store -/

/-- the feature lists are functional -/
def KF (st : Store) : Prop := ∀ i g x, (g, x) ∈ cont st i → lookupC g (cont st i) = some x

/-- an object that carries an atom belongs to a class whose representative carries it -/
def VR (st : Store) : Prop := ∀ i v, val st i = some v → val st (deref st i) = some v

/-- the symbol records (rank 1) only have the feature `n` -/
def AllN (st : Store) (rk : Nat → Nat) : Prop :=
  ∀ i g x, rk i = 1 → (g, x) ∈ cont st i → g = "n"

/-- all atoms are admissible values -/
def AP (P : String → Prop) (st : Store) : Prop := ∀ i v, val st i = some v → P v

/-! ### a generic invariant of `unify` -/

/-- `S` is a set of objects closed under pointers and features that contains every future object;
the features of its members satisfy `Kp` -/
structure UI (S : Nat → Prop) (Kp : String → Prop) (st : Store) : Prop where
  rng : Rng st
  big : ∀ i, st.length ≤ i → S i
  cp : ∀ i j, S i → ptr st i = some j → S j
  cc : ∀ i g x, S i → (g, x) ∈ cont st i → S x
  kf : KF st
  kp : ∀ i g x, S i → (g, x) ∈ cont st i → Kp g

structure UPost (S : Nat → Prop) (Kp : String → Prop) (st st' : Store) : Prop where
  ui : UI S Kp st'
  len : st.length ≤ st'.length
  frame : ∀ i, ¬ S i → get st' i = get st i
  vals : ∀ i, val st' i = val st i

theorem UPost.refl {S : Nat → Prop} {Kp : String → Prop} {st : Store} (h : UI S Kp st) :
    UPost S Kp st st := ⟨h, Nat.le_refl _, fun _ _ => rfl, fun _ => rfl⟩

theorem UPost.trans {S : Nat → Prop} {Kp : String → Prop} {st st1 st2 : Store}
    (h1 : UPost S Kp st st1) (h2 : UPost S Kp st1 st2) : UPost S Kp st st2 :=
  ⟨h2.ui, Nat.le_trans h1.len h2.len, fun i hi => by rw [h2.frame i hi, h1.frame i hi],
    fun i => by rw [h2.vals i, h1.vals i]⟩

theorem ui_setPointer {S : Nat → Prop} {Kp : String → Prop} {st : Store} (h : UI S Kp st)
    {c d : Nat} (hc : S c) (hd : S d) (hdl : d < st.length) :
    UPost S Kp st (setPointer st c d) := by
  refine ⟨⟨rng_setPointer h.rng c hdl, ?_, ?_, ?_, ?_, ?_⟩, by rw [length_setPointer]; exact Nat.le_refl _, ?_, ?_⟩
  · intro i hi; rw [length_setPointer] at hi; exact h.big i hi
  · intro i j hi hp
    rw [ptr_setPointer] at hp
    split at hp
    · simp only [Option.some.injEq] at hp; subst hp; exact hd
    · exact h.cp i j hi hp
  · intro i g x hi hx
    rw [cont_setPointer] at hx; exact h.cc i g x hi hx
  · intro i g x hx
    rw [cont_setPointer] at hx ⊢; exact h.kf i g x hx
  · intro i g x hi hx
    rw [cont_setPointer] at hx; exact h.kp i g x hi hx
  · intro i hi
    exact get_setPointer_ne d (fun e => hi (by rw [← e]; exact hc))
  · intro i; exact val_setPointer st c d i

theorem ui_addFresh {S : Nat → Prop} {Kp : String → Prop} {st : Store} (h : UI S Kp st)
    {ca : Nat} {g : String} (hc : S ca) (hcl : ca < st.length) (hl : lookupC g (cont st ca) = none)
    (hg : Kp g) : UPost S Kp st (addFresh st ca g) := by
  have hnew : S st.length := h.big _ (Nat.le_refl _)
  refine ⟨⟨rng_addFresh h.rng g hcl, ?_, ?_, ?_, ?_, ?_⟩, by rw [length_addFresh]; omega, ?_, ?_⟩
  · intro i hi; rw [length_addFresh] at hi; exact h.big i (by omega)
  · intro i j hi hp
    rw [ptr_addFresh g hcl] at hp; exact h.cp i j hi hp
  · intro i g' x hi hx
    rw [cont_addFresh g hcl] at hx
    split at hx
    · rename_i e; subst e
      rcases List.mem_append.1 hx with hx | hx
      · exact h.cc _ g' x hi hx
      · simp only [List.mem_singleton, Prod.mk.injEq] at hx
        rw [hx.2]; exact hnew
    · exact h.cc i g' x hi hx
  · intro i g' x hx
    rw [cont_addFresh g hcl] at hx ⊢
    split at hx
    · rename_i e; subst e
      rw [if_pos rfl]
      rcases List.mem_append.1 hx with hx | hx
      · exact lookupC_append_some _ (h.kf _ g' x hx)
      · simp only [List.mem_singleton, Prod.mk.injEq] at hx
        obtain ⟨rfl, rfl⟩ := hx
        exact lookupC_append_single_self _ hl
    · rename_i e; rw [if_neg e]; exact h.kf i g' x hx
  · intro i g' x hi hx
    rw [cont_addFresh g hcl] at hx
    split at hx
    · rename_i e; subst e
      rcases List.mem_append.1 hx with hx | hx
      · exact h.kp _ g' x hi hx
      · simp only [List.mem_singleton, Prod.mk.injEq] at hx
        rw [hx.1]; exact hg
    · exact h.kp i g' x hi hx
  · intro i hi
    rw [get_addFresh g hcl]
    rw [if_neg (fun e => hi (by rw [e]; exact hc))]
  · intro i; exact val_addFresh g hcl i

theorem ui_fieldOf {S : Nat → Prop} {Kp : String → Prop} {st : Store} (h : UI S Kp st)
    {ca : Nat} (g : String) (hc : S ca) (hcl : ca < st.length) (hg : Kp g) :
    UPost S Kp st (fieldOf st ca g).1 ∧ S (fieldOf st ca g).2 ∧
      (fieldOf st ca g).2 < (fieldOf st ca g).1.length := by
  unfold fieldOf
  cases hl : lookupC g (cont st ca) with
  | some x =>
    exact ⟨UPost.refl h, h.cc ca g x hc (lookupC_mem hl), h.rng.c ca g x (lookupC_mem hl)⟩
  | none =>
    exact ⟨ui_addFresh h hc hcl hl hg, h.big _ (Nat.le_refl _), by simp [length_addFresh]⟩

theorem go_ui {S : Nat → Prop} {Kp : String → Prop} (f : Nat)
    (IH : ∀ st a b, UI S Kp st → S a → S b → a < st.length → b < st.length →
      ∀ st', unify f st a b = .ok st' → UPost S Kp st st')
    (ca : Nat) (hca : S ca) : ∀ (rest : List (String × Nat)) (st : Store), UI S Kp st →
      ca < st.length → (∀ e ∈ rest, S e.2 ∧ e.2 < st.length ∧ Kp e.1) →
      ∀ st', unify.go f ca st rest = .ok st' → UPost S Kp st st' := by
  intro rest
  induction rest with
  | nil =>
    intro st h _ _ st' hu
    rw [go_nil] at hu
    simp only [Res.ok.injEq] at hu; subst hu
    exact UPost.refl h
  | cons e rest ih =>
    obtain ⟨g, y⟩ := e
    intro st h hcl hrest st' hu
    rw [go_cons] at hu
    obtain ⟨hy1, hy2, hy3⟩ := hrest (g, y) (List.mem_cons_self ..)
    obtain ⟨p1, hx1, hx2⟩ := ui_fieldOf h g hca hcl hy3
    cases hres : unify f (fieldOf st ca g).1 (fieldOf st ca g).2 y with
    | fuel => rw [hres] at hu; simp at hu
    | conflict => rw [hres] at hu; simp at hu
    | ok st2 =>
      rw [hres] at hu
      simp only at hu
      have hlen1 := p1.len
      have p2 := IH _ _ _ p1.ui hx1 hy1 hx2 (by omega) st2 hres
      have hlen2 := p2.len
      have p3 := ih st2 p2.ui (by omega) (fun e he => by
        obtain ⟨h1, h2, h3⟩ := hrest e (List.mem_cons_of_mem _ he)
        exact ⟨h1, by omega, h3⟩) st' hu
      exact (p1.trans p2).trans p3

theorem unify_ui {S : Nat → Prop} {Kp : String → Prop} : ∀ (f : Nat) (st : Store) (a b : Nat),
    UI S Kp st → S a → S b → a < st.length → b < st.length →
    ∀ st', unify f st a b = .ok st' → UPost S Kp st st' := by
  intro f
  induction f with
  | zero => intro st a b _ _ _ _ _ st' hu; rw [unify_zero] at hu; simp at hu
  | succ f IH =>
    intro st a b h ha hb hal hbl st' hu
    have hSa : S (deref st a) := deref_mem_closed S (fun j j2 hj hp => h.cp j j2 hj hp) a ha
    have hSb : S (deref st b) := deref_mem_closed S (fun j j2 hj hp => h.cp j j2 hj hp) b hb
    have hca := deref_lt h.rng hal
    have hcb := deref_lt h.rng hbl
    rw [unify_succ] at hu
    split at hu
    · simp only [Res.ok.injEq] at hu; subst hu; exact UPost.refl h
    · split at hu
      · split at hu
        · simp only [Res.ok.injEq] at hu; subst hu; exact ui_setPointer h hSa hSb hcb
        · split at hu
          · simp only [Res.ok.injEq] at hu; subst hu; exact ui_setPointer h hSa hSb hcb
          · split at hu
            · simp only [Res.ok.injEq] at hu; subst hu; exact ui_setPointer h hSb hSa hca
            · simp at hu
      · have p0 := ui_setPointer h hSb hSa hca
        have p1 := go_ui f IH (deref st a) hSa (cont st (deref st b))
          (setPointer st (deref st b) (deref st a)) p0.ui
          (by rw [length_setPointer]; exact hca)
          (fun e he => ⟨h.cc _ e.1 e.2 hSb he, by
            rw [length_setPointer]; exact h.rng.c _ e.1 e.2 he, h.kp _ e.1 e.2 hSb he⟩) st' hu
        exact p0.trans p1

/-! ### the canonical interpretation of a valuation -/

/-- the interpretation that reads a path and evaluates the leaf it reaches; `d` elsewhere -/
def canon (st : Store) (rk : Nat → Nat) (σ : Nat → String) (d : String) : Interp :=
  fun i q => match byPath st i q with
    | some n => if rk n = 0 then σ (deref st n) else d
    | none => d

theorem canon_model {st : Store} {rk : Nat → Nat} {σ : Nat → String} {d : String}
    (hw : WFS st rk) (hkf : KF st) (hvr : VR st)
    (hσ : ∀ c v, ptr st c = none → val st c = some v → σ c = v) :
    Model st (canon st rk σ d) := by
  have hac := hw.inv.acyc
  refine ⟨?_, ?_, ?_⟩
  · intro i j hp
    funext q
    unfold canon
    have hd : deref st i = deref st j := deref_step hac hp
    cases q with
    | nil =>
      simp only [byPath_nil]
      rw [hw.inv.rkp i j hp, hd]
    | cons g q => rw [byPath_congr hd g q]
  · intro i v hv
    unfold canon
    simp only [byPath_nil]
    rw [if_pos (hw.inv.rkv i v hv)]
    exact hσ _ v (deref_ptr_none hac i) (hvr i v hv)
  · intro i g x hx q
    have hl := hkf i g x hx
    obtain ⟨x', hx', hd⟩ := hw.cc i g x hl
    unfold canon
    rw [byPath_cons_of q hx']
    cases q with
    | nil =>
      simp only [byPath_nil]
      have hrk : rk x' = rk x := by
        rw [← rkR_deref hw.inv x', ← rkR_deref hw.inv x, hd]
      rw [hrk, hd]
    | cons g2 q => rw [byPath_congr hd g2 q]

/-- completeness of `unify`: when the canonical interpretation of a valuation gives both operands
the same denotation, the unification succeeds and the interpretation extends to the result -/
theorem unify_complete {st : Store} {rk : Nat → Nat} {a b : Nat} {σ : Nat → String} {d : String}
    (hw : WFS st rk) (hkf : KF st) (hvr : VR st)
    (hσ : ∀ c v, ptr st c = none → val st c = some v → σ c = v)
    (ha : a < st.length) (hb : b < st.length) (hk : rk a = rk b) (hk1 : rk a < st.length + 2)
    (H : canon st rk σ d a = canon st rk σ d b) :
    ∃ st', unify (st.length + 2) st a b = .ok st' ∧
      ∃ ρ' : Interp, (∀ i, i < st.length → ρ' i = canon st rk σ d i) ∧ Model st' ρ' := by
  have hm : Model st (canon st rk σ d) := canon_model hw hkf hvr hσ
  have hS := unify_sem (st.length + 2) st a b hw.rng ha hb
  have hR := unify_R (st.length + 2) st rk (rk a) a b hw.rng hw.inv (fun i _ => hw.cc i) ha hb rfl
    hk.symm
  cases hu : unify (st.length + 2) st a b with
  | ok st' =>
    rw [hu] at hS
    exact ⟨st', rfl, (hS.1 st' rfl).2.2 _ hm H⟩
  | conflict =>
    rw [hu] at hS
    exact absurd H (hS.2 rfl _ hm)
  | fuel =>
    rw [hu] at hR
    have : st.length + 2 ≤ rk a := hR
    omega

open Classical in
/-- the valuation of the classes read off an interpretation -/
noncomputable def ofInterp (P : String → Prop) (d0 : String) (ρ : Interp) : Nat → String :=
  fun c => if P (ρ c []) then ρ c [] else d0

theorem ofInterp_resp {P : String → Prop} {d0 : String} (hd : P d0) {st : Store} {ρ : Interp}
    (hm : Model st ρ) : Resp P st (ofInterp P d0 ρ) := by
  refine ⟨fun c => ?_, fun c v _ hv hP => ?_⟩
  · unfold ofInterp; split
    · assumption
    · exact hd
  · unfold ofInterp
    rw [hm.v c v hv, if_pos hP]

theorem ofInterp_rdv {P : String → Prop} {d0 : String} {st : Store} {ρ : Interp} (hm : Model st ρ)
    {F n : Nat} {p : List String} (hb : byPath st F p = some n) (hP : P (ρ F p)) :
    rdv st (ofInterp P d0 ρ) F p = some (ρ F p) := by
  unfold rdv
  rw [hb]
  simp only [Option.map_some, Option.some.injEq]
  have h1 := model_byPath hm p F n hb []
  rw [List.append_nil] at h1
  have h2 : ρ (deref st n) [] = ρ F p := by rw [model_deref hm n, h1]
  unfold ofInterp
  rw [h2, if_pos hP]

/-! ### the unification step with everything the completeness proof needs -/

theorem unify_step' {st : Store} {rk : Nat → Nat} {a b f : Nat} {st' : Store}
    (hw : WFS st rk) (ha : a < st.length) (hb : b < st.length) (hk : rk a = rk b)
    (hu : unify f st a b = .ok st') :
    ∃ rk', WFS st' rk' ∧ ExtR st rk st' rk' (rk a) ∧ deref st' a = deref st' b ∧
      (∀ p i n, i < st.length → byPath st i p = some n →
        n < st.length ∧ ∃ n', byPath st' i p = some n' ∧ deref st' n' = deref st' n) := by
  have hU := unify_R f st rk (rk a) a b hw.rng hw.inv (fun i _ => hw.cc i) ha hb rfl hk.symm
  rw [hu] at hU
  obtain ⟨rk', he, hI', hc', hab⟩ := hU
  have hr' : Rng st' := ((unify_sem f st a b hw.rng ha hb).1 st' hu).1
  have hcc : ∀ i, CCat st' i := by
    intro i
    by_cases h1 : rk' i ≤ rk a
    · exact hc' i h1
    · by_cases h2 : i < st.length
      · exact ccatR_frame he hw.rng hw.inv h2 (by rw [← he.rkold i h2]; omega) (hw.cc i)
      · by_cases h3 : i < st'.length
        · have := he.rknew i (by omega) h3; omega
        · exact ccat_out (by omega)
  exact ⟨rk', ⟨hr', hI', hcc⟩, he, hab, pathR_pres he hw.rng hw.inv hcc⟩

/-- the extra invariants after a unification of two objects of rank at most 1 -/
theorem unify_sx {P : String → Prop} {st : Store} {rk rk' : Nat → Nat} {a b f : Nat} {st' : Store}
    (hw : WFS st rk) (hkf : KF st) (hvr : VR st) (hn : AllN st rk) (hap : AP P st)
    (ha : a < st.length) (hb : b < st.length) (hka : rk a ≤ 1) (hkb : rk b ≤ 1)
    (he : ExtR st rk st' rk' (rk a)) (hu : unify f st a b = .ok st') :
    KF st' ∧ VR st' ∧ AllN st' rk' ∧ AP P st' ∧ (∀ i, val st' i = val st i) := by
  have hui : UI (fun i => rk i ≤ 1 ∨ st.length ≤ i) (· = "n") st := by
    refine ⟨hw.rng, fun i hi => Or.inr hi, ?_, ?_, hkf, ?_⟩
    · intro i j hi hp
      rcases hi with hi | hi
      · left; rw [← hw.inv.rkp i j hp]; exact hi
      · have := ptr_lt hp; omega
    · intro i g x hi hx
      rcases hi with hi | hi
      · left
        have := (hw.inv.rkc i g x hx).1
        unfold crE at this; omega
      · have := cont_lt hx; omega
    · intro i g x hi hx
      rcases hi with hi | hi
      · by_cases h1 : rk i = 1
        · exact hn i g x h1 hx
        · have h0 : rk i = 0 := by omega
          rw [cont_nil_of_rkR_zero hw.inv h0] at hx; simp at hx
      · have := cont_lt hx; omega
  have hp := unify_ui f st a b hui (Or.inl hka) (Or.inl hkb) ha hb st' hu
  refine ⟨hp.ui.kf, ?_, ?_, ?_, hp.vals⟩
  · intro i v hv
    rw [hp.vals i] at hv
    exact he.e2 i v (val_lt hv) (hvr i v hv)
  · intro i g x hi hx
    by_cases hS : rk i ≤ 1 ∨ st.length ≤ i
    · exact hp.ui.kp i g x hS hx
    · have h1 : i < st.length := by omega
      rw [he.rkold i h1] at hi
      omega
  · intro i v hv
    rw [hp.vals i] at hv; exact hap i v hv

/-- the objects below `n0` are untouched by a unification inside a part of the store that is
closed above `n0` -/
theorem unify_frame {st : Store} {n0 a b f : Nat} {st' : Store} (hr : Rng st) (hkf : KF st)
    (hn0 : n0 ≤ st.length)
    (hcp : ∀ i j, n0 ≤ i → ptr st i = some j → n0 ≤ j)
    (hcc : ∀ i g x, n0 ≤ i → (g, x) ∈ cont st i → n0 ≤ x)
    (ha : a < st.length) (hb : b < st.length) (ha0 : n0 ≤ a) (hb0 : n0 ≤ b)
    (hu : unify f st a b = .ok st') : ∀ i, i < n0 → get st' i = get st i := by
  have hui : UI (fun i => n0 ≤ i) (fun _ => True) st :=
    ⟨hr, fun i hi => Nat.le_trans hn0 hi, hcp, hcc, hkf, fun _ _ _ _ _ => trivial⟩
  have hp := unify_ui f st a b hui ha0 hb0 ha hb st' hu
  intro i hi
  exact hp.frame i (by simp only [Nat.not_le]; exact hi)

/-! ### the copy step -/

def NoVal (st : Store) : Prop := ∀ i, val st i = none

/-- above `n0` the store only refers to objects above `n0` -/
def ClosedAbove (st : Store) (n0 : Nat) : Prop :=
  (∀ i j, n0 ≤ i → ptr st i = some j → n0 ≤ j) ∧ (∀ i g x, n0 ≤ i → (g, x) ∈ cont st i → n0 ≤ x)

theorem closedAbove_length (st : Store) : ClosedAbove st st.length :=
  ⟨fun i j hi hp => by have := ptr_lt hp; omega, fun i g x hi hx => by have := cont_lt hx; omega⟩

theorem wfs_copy' {st : Store} {rk : Nat → Nat} {F : Nat} (hw : WFS st rk) (hF : F < st.length) :
    ∃ κ dom π, CopySpec st F (copy st F).1 (copy st F).2 κ dom π ∧
      WFS (copy st F).1 (fun n => rk (proj st π n)) := by
  obtain ⟨h, hh⟩ := id hw.inv.acyc
  obtain ⟨κ, dom, π, hc⟩ := copy_spec (F := F) hw.rng hw.inv.acyc hF
    (fun a b => rk a < rk b ∨ (rk a = rk b ∧ h a < h b))
    (fun a ha => by rcases ha with ha | ⟨_, ha⟩ <;> omega)
    (fun a b c h1 h2 => by
      rcases h1 with h1 | ⟨h1, h1'⟩ <;> rcases h2 with h2 | ⟨h2, h2'⟩
      · left; omega
      · left; omega
      · left; omega
      · right; exact ⟨by omega, by omega⟩)
    (fun i j hp => Or.inr ⟨(hw.inv.rkp i j hp).symm, hh i j hp⟩)
    (fun i g x hx => by
      obtain ⟨h1, h2⟩ := hw.inv.rkc i g x hx
      unfold crE at h1
      left; omega)
  exact ⟨κ, dom, π, hc, hc.rng1 hw.rng, hc.invR1 hw.rng hw.inv, hc.ccat1 hw.rng hw.inv.acyc hw.cc⟩

section CopyFacts
variable {st : Store} {rk : Nat → Nat} {F : Nat} {st1 : Store} {F' : Nat} {κ : Nat → Nat}
  {dom : Nat → Prop} {π : Nat → Nat}

theorem copy_fr (hc : CopySpec st F st1 F' κ dom π) : Fr st st1 := by
  obtain ⟨e, he⟩ := hc.ext
  rw [he]; exact Fr.append st e

theorem copy_kf (hc : CopySpec st F st1 F' κ dom π) (hkf : KF st) : KF st1 := by
  intro n g x hx
  rcases hc.cases n with ⟨h1, h2⟩ | ⟨h1, h2, h3, h4⟩ | ⟨h1, _⟩
  · rw [cont, h2] at hx ⊢; exact hkf n g x hx
  · have hnode := hc.node _ h3
    rw [h4] at hnode
    rw [cont, hnode] at hx ⊢
    simp only [List.mem_map, Prod.mk.injEq] at hx
    obtain ⟨e, he, rfl, rfl⟩ := hx
    show lookupC e.1 ((cont st (π n)).map fun e => (e.1, κ e.2)) = _
    rw [lookupC_map, hkf _ e.1 e.2 he]; rfl
  · rw [cont, get_ge h1] at hx; simp [emptyNode] at hx

theorem copy_vr (hc : CopySpec st F st1 F' κ dom π) (hr : Rng st) (ha : Acyc st) (hvr : VR st) :
    VR st1 := by
  intro n v hv
  rcases hc.cases n with ⟨h1, h2⟩ | ⟨h1, h2, h3, h4⟩ | ⟨h1, _⟩
  · rw [val, h2] at hv
    rw [hc.deref_old hr ha h1, val, hc.old (deref_lt hr h1)]
    exact hvr n v hv
  · have hnode := hc.node _ h3
    rw [h4] at hnode
    rw [val, hnode] at hv
    obtain ⟨hd, hdd⟩ := hc.deref_κ hr ha _ h3
    rw [h4] at hd
    rw [hd, val, hc.node _ hdd]
    show val st (deref st (deref st (π n))) = some v
    rw [deref_idem ha]; exact hv
  · rw [val, get_ge h1] at hv; simp [emptyNode] at hv

theorem copy_alln (hc : CopySpec st F st1 F' κ dom π) (hn : AllN st rk) :
    AllN st1 (fun n => rk (proj st π n)) := by
  intro n g x hrk hx
  rcases hc.cases n with ⟨h1, h2⟩ | ⟨h1, h2, h3, h4⟩ | ⟨h1, _⟩
  · rw [cont, h2] at hx
    simp only [proj_old h1] at hrk
    exact hn n g x hrk hx
  · have hnode := hc.node _ h3
    rw [h4] at hnode
    rw [cont, hnode] at hx
    simp only [List.mem_map, Prod.mk.injEq] at hx
    obtain ⟨e, he, rfl, rfl⟩ := hx
    have : proj st π n = π n := by unfold proj; rw [if_neg (by omega)]
    simp only [this] at hrk
    exact hn (π n) e.1 e.2 hrk he
  · rw [cont, get_ge h1] at hx; simp [emptyNode] at hx

theorem copy_val (hc : CopySpec st F st1 F' κ dom π) (n : Nat) {v : String}
    (hv : val st1 n = some v) : ∃ m, val st m = some v := by
  rcases hc.cases n with ⟨h1, h2⟩ | ⟨h1, h2, h3, h4⟩ | ⟨h1, _⟩
  · rw [val, h2] at hv; exact ⟨n, hv⟩
  · have hnode := hc.node _ h3
    rw [h4] at hnode
    rw [val, hnode] at hv
    exact ⟨_, hv⟩
  · rw [val, get_ge h1] at hv; simp [emptyNode] at hv

theorem copy_ap {P : String → Prop} (hc : CopySpec st F st1 F' κ dom π) (hap : AP P st) :
    AP P st1 := by
  intro n v hv
  obtain ⟨m, hm⟩ := copy_val hc n hv
  exact hap m v hm

theorem copy_noval (hc : CopySpec st F st1 F' κ dom π) (hnv : NoVal st) : NoVal st1 := by
  intro n
  cases hv : val st1 n with
  | none => rfl
  | some v =>
    obtain ⟨m, hm⟩ := copy_val hc n hv
    rw [hnv m] at hm; simp at hm

theorem copy_closed (hc : CopySpec st F st1 F' κ dom π) {n0 : Nat} (hn0 : n0 ≤ st.length)
    (hcl : ClosedAbove st n0) : ClosedAbove st1 n0 := by
  constructor
  · intro n j hn hp
    rcases hc.cases n with ⟨h1, h2⟩ | ⟨h1, h2, h3, h4⟩ | ⟨h1, _⟩
    · rw [ptr, h2] at hp; exact hcl.1 n j hn hp
    · have hnode := hc.node _ h3
      rw [h4] at hnode
      rw [ptr, hnode] at hp
      simp only [Option.map_eq_some_iff] at hp
      obtain ⟨p, hp1, rfl⟩ := hp
      have := (hc.rng p (hc.dom_ptr _ p h3 hp1)).1
      omega
    · rw [ptr, get_ge h1] at hp; simp [emptyNode] at hp
  · intro n g x hn hx
    rcases hc.cases n with ⟨h1, h2⟩ | ⟨h1, h2, h3, h4⟩ | ⟨h1, _⟩
    · rw [cont, h2] at hx; exact hcl.2 n g x hn hx
    · have hnode := hc.node _ h3
      rw [h4] at hnode
      rw [cont, hnode] at hx
      simp only [List.mem_map, Prod.mk.injEq] at hx
      obtain ⟨e, he, rfl, rfl⟩ := hx
      have := (hc.rng e.2 (hc.dom_cont _ e.1 e.2 h3 he)).1
      omega
    · rw [cont, get_ge h1] at hx; simp [emptyNode] at hx

/-- the valuation of the extended store: `σ` on the old classes, `τ` (of the original) on the copies -/
def mixVal (st : Store) (π : Nat → Nat) (σ τ : Nat → String) : Nat → String :=
  fun n => if n < st.length then σ n else τ (π n)

theorem copy_fwd {P : String → Prop} (hc : CopySpec st F st1 F' κ dom π) (hr : Rng st) (ha : Acyc st)
    {σ τ : Nat → String} (hσ : Resp P st σ) (hτ : Resp P st τ) :
    Resp P st1 (mixVal st π σ τ) ∧
    (∀ G p, G < st.length → rdv st1 (mixVal st π σ τ) G p = rdv st σ G p) ∧
    (∀ p a, rdv st τ F p = some a → rdv st1 (mixVal st π σ τ) F' p = some a) := by
  refine ⟨⟨?_, ?_⟩, ?_, ?_⟩
  · intro c; unfold mixVal; split
    · exact hσ.1 c
    · exact hτ.1 _
  · intro c v hp hv hP
    unfold mixVal
    rcases hc.cases c with ⟨h1, h2⟩ | ⟨h1, h2, h3, h4⟩ | ⟨h1, _⟩
    · rw [if_pos h1]
      exact hσ.2 c v (by rw [ptr, ← h2]; exact hp) (by rw [val, ← h2]; exact hv) hP
    · rw [if_neg (by omega)]
      have hnode := hc.node _ h3
      rw [h4] at hnode
      rw [ptr, hnode] at hp
      rw [val, hnode] at hv
      simp only [Option.map_eq_none_iff] at hp
      have hv' : val st (deref st (π c)) = some v := hv
      rw [deref_of_none hp] at hv'
      exact hτ.2 _ v hp hv' hP
    · rw [val, get_ge h1] at hv; simp [emptyNode] at hv
  · intro G p hG
    rw [(copy_fr hc).rdv_eq ha hr _ hG]
    unfold rdv
    cases hb : byPath st G p with
    | none => rfl
    | some n =>
      simp only [Option.map_some, Option.some.injEq]
      have := deref_lt hr (byPath_lt hr p G n hG hb)
      unfold mixVal; rw [if_pos this]
  · intro p a h
    unfold rdv at h ⊢
    cases hb : byPath st F p with
    | none => rw [hb] at h; simp at h
    | some n =>
      rw [hb] at h
      obtain ⟨hdn, hbn⟩ := hc.byPath_κ hr ha p F n hc.domF hb
      rw [hc.κF] at hbn
      rw [hbn]
      obtain ⟨h1, h2⟩ := hc.deref_κ hr ha n hdn
      simp only [Option.map_some, Option.some.injEq] at h ⊢
      rw [h1, ← h]
      have hge := (hc.rng _ h2).1
      unfold mixVal
      rw [if_neg (by omega)]
      have := hc.proj_κ h2
      unfold proj at this
      rw [if_neg (by omega)] at this
      rw [this]

end CopyFacts

end Cmp
end Earley
end Pfl
