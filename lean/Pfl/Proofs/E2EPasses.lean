/-
The seven passes of `PythonRegex` on texts without any character the passes react to: identity up to
the blanks inserted by `_separate` (generalisation of `transform_plain`).
-/
import Pfl.Props.C07_Passes
import Pfl.Model.Regex
namespace Pfl.PyRx.E2E
open Pfl.PyPass

/-- characters none of the passes reacts to -/
def Inert (c : Char) : Prop :=
  c ≠ ' ' ∧ c ≠ '\\' ∧ c ≠ '[' ∧ c ≠ '+' ∧ c ≠ '{' ∧ c ≠ '?' ∧ c ≠ '.' ∧ c ≠ '\x08' ∧ c.toNat < 128

theorem preprocessBrackets_inert (s : Tok) (hs : ∀ c ∈ s, c ≠ '\\' ∧ c ≠ '[') :
    preprocessBrackets s = .ok s := by
  have := preprocessBrackets_fold s hs [] rfl
  simp only [List.append_nil] at this
  simp only [preprocessBrackets, this]
  show Except.ok (joinR (sing s).reverse) = _
  rw [joinR_sing]

theorem escapeInBrackets_inert (s : Tok) (hs : ∀ c ∈ s, c ≠ '\\' ∧ c ≠ '[') :
    escapeInBrackets s = s := by
  simp [escapeInBrackets, escapeInBrackets_fold s hs [] rfl, joinR_sing]

theorem preprocessOptional_inert (s : Tok) (hs : ∀ c ∈ s, c ≠ '\\' ∧ c ≠ '?') :
    preprocessOptional s = .ok s := by
  have h1 := foldlM_pushSym optionalStep s (fun c hc => (hs c hc).1)
    (fun rt c hc => by simp [optionalStep, (hs c hc).2]) [] rfl
  simp only [List.append_nil] at h1
  simp only [preprocessOptional, h1]
  show Except.ok (joinR (sing s).reverse) = _
  rw [joinR_sing]

theorem separate_inert (s : Tok) (hs : ∀ c ∈ s, c ≠ '\\' ∧ c ≠ '.') :
    separate s = .ok (join [' '] (sing s)) := by
  have h1 := (foldl_pushSym s (fun c hc => (hs c hc).1) [] rfl).1
  simp only [List.append_nil] at h1
  have h2 : (sing s).map (fun t => if t == ['.'] then dotReplacement else t) = sing s := by
    simp only [sing, List.map_map]
    apply List.map_congr_left
    intro c hc
    simp [(hs c hc).2]
  simp only [separate, h1, List.reverse_reverse, recombine_sing]
  show Except.ok (join [' '] ((sing s).map _)) = _
  rw [h2]

theorem lstrip_inert (s : Tok) (hs : ∀ c ∈ s, c ≠ '\x08') :
    lstripBackspace (join [' '] (sing s)) = join [' '] (sing s) := by
  cases s with
  | nil => rfl
  | cons c r =>
    obtain ⟨t, ht⟩ := join_head c r
    have := hs c (by simp)
    simp [ht, lstripBackspace, this]

theorem positiveClosure_inert (s : Tok) (hs : ∀ c ∈ s, c ≠ '\\' ∧ c ≠ '+' ∧ c ≠ '{') :
    preprocessPositiveClosure s = .ok s := by
  have h1 := foldlM_pushSym positiveClosureStep s (fun c hc => (hs c hc).1)
    (fun rt c hc => by simp [positiveClosureStep, (hs c hc).2.1]) [] rfl
  simp only [List.append_nil] at h1
  have h2 : addRepetition (sing s) = .ok (sing s) := by
    simp only [addRepetition, addRepetitionGo_id s (fun c hc => (hs c hc).2.2) []]
    show Except.ok ((sing s).reverse ++ []).reverse = _
    simp
  simp only [preprocessPositiveClosure, h1]
  show (do let l ← addRepetition (sing s).reverse.reverse; pure l.flatten) = _
  rw [List.reverse_reverse, h2]
  show Except.ok (sing s).flatten = _
  rw [sing_flatten]

theorem ascii_ok (s : Tok) (hs : ∀ c ∈ s, c.toNat < 128) :
    s.any (fun c => decide (c.toNat ≥ 128)) = false := by
  simp only [List.any_eq_false]
  intro c hc
  have := hs c hc
  simp; omega

/-- the pipeline, given the results of the passes -/
theorem transform_eq (s s3 s4 s5 s6 : Tok) (h0 : ∀ c ∈ s, c.toNat < 128)
    (h3 : preprocessBrackets (escapeInBrackets (replaceShortcuts s)) = .ok s3)
    (h4 : preprocessPositiveClosure s3 = .ok s4) (h5 : preprocessOptional s4 = .ok s5)
    (h6 : separate s5 = .ok s6) : transform s = .ok (lstripBackspace s6) := by
  simp only [transform, ascii_ok s h0, Bool.false_eq_true, if_false]
  show (preprocessBrackets (escapeInBrackets (replaceShortcuts s)) >>= fun s3 =>
    preprocessPositiveClosure s3 >>= fun s4 => preprocessOptional s4 >>= fun s5 =>
    separate s5 >>= fun s6 => pure (lstripBackspace s6)) = _
  rw [h3]
  show (preprocessPositiveClosure s3 >>= fun s4 => preprocessOptional s4 >>= fun s5 =>
    separate s5 >>= fun s6 => pure (lstripBackspace s6)) = _
  rw [h4]
  show (preprocessOptional s4 >>= fun s5 => separate s5 >>= fun s6 => pure (lstripBackspace s6)) = _
  rw [h5]
  show (separate s5 >>= fun s6 => pure (lstripBackspace s6)) = _
  rw [h6]
  rfl

theorem transform_inert (s : List Char) (h : ∀ c ∈ s, Inert c) :
    transform s = .ok (join [' '] (sing s)) := by
  have e1 : replaceShortcuts s = s :=
    replaceShortcuts_id s (fun hm => (h _ hm).1 rfl) (fun hm => (h _ hm).2.1 rfl)
  have e2 := escapeInBrackets_inert s (fun c hc => ⟨(h c hc).2.1, (h c hc).2.2.1⟩)
  have e3 := preprocessBrackets_inert s (fun c hc => ⟨(h c hc).2.1, (h c hc).2.2.1⟩)
  have := transform_eq s s s s (join [' '] (sing s)) (fun c hc => (h c hc).2.2.2.2.2.2.2.2)
    (by rw [e1, e2, e3])
    (positiveClosure_inert s (fun c hc => ⟨(h c hc).2.1, (h c hc).2.2.2.1, (h c hc).2.2.2.2.1⟩))
    (preprocessOptional_inert s (fun c hc => ⟨(h c hc).2.1, (h c hc).2.2.2.2.2.1⟩))
    (separate_inert s (fun c hc => ⟨(h c hc).2.1, (h c hc).2.2.2.2.2.2.1⟩))
  rw [this, lstrip_inert s (fun c hc => (h c hc).2.2.2.2.2.2.2.1)]

theorem join_eq_joinBlank (l : List Tok) : join [' '] l = Pfl.RegexReader.joinBlank l := by
  unfold Pfl.RegexReader.joinBlank List.intercalate
  induction l with
  | nil => rfl
  | cons a l ih =>
    cases l with
    | nil => simp [join]
    | cons b l =>
      simp only [List.intersperse_cons_cons, List.flatten_cons] at ih ⊢
      rw [join, ih]
      · simp
      · simp

end Pfl.PyRx.E2E
