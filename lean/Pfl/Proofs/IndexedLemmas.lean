/-
Helper lemmas for C17 — indexed grammars: the marking fixpoint (`markSaturate`) is sound and complete
for emptiness, the bounded search is sound, `removeUseless` keeps the verdict.
-/
import Pfl.Spec.Indexed

namespace Pfl.IG.Lem
open Pfl Pfl.IG

/-! ### generic facts on folds of extending functions -/

theorem foldl_extends {α β : Type} (f : List α → β → List α)
    (hf : ∀ S b, ∃ T, f S b = S ++ T) (l : List β) (S : List α) :
    ∃ T, l.foldl f S = S ++ T := by
  induction l generalizing S with
  | nil => exact ⟨[], by simp⟩
  | cons b l ih =>
    obtain ⟨T₁, h₁⟩ := hf S b
    obtain ⟨T₂, h₂⟩ := ih (f S b)
    exact ⟨T₁ ++ T₂, by rw [List.foldl_cons, h₂, h₁, List.append_assoc]⟩

theorem foldl_fix {α β : Type} (f : List α → β → List α)
    (hf : ∀ S b, ∃ T, f S b = S ++ T) (l : List β) (S : List α)
    (h : (l.foldl f S).length = S.length) : ∀ b ∈ l, f S b = S := by
  induction l generalizing S with
  | nil => intro b hb; cases hb
  | cons b l ih =>
    obtain ⟨T₁, h₁⟩ := hf S b
    obtain ⟨T₂, h₂⟩ := foldl_extends f hf l (f S b)
    rw [List.foldl_cons] at h
    have hT : T₁ = [] := by
      apply List.length_eq_zero_iff.mp
      rw [h₂, h₁] at h
      simp only [List.length_append] at h; omega
    have hS : f S b = S := by rw [h₁, hT]; simp
    intro c hc
    rcases List.mem_cons.mp hc with rfl | hc
    · exact hS
    · rw [hS] at h
      exact ih S h c hc

theorem foldl_inv {α β : Type} (Q : α → Prop) (f : α → β → α) (l : List β)
    (hf : ∀ S b, b ∈ l → Q S → Q (f S b)) (S : α) (h : Q S) : Q (l.foldl f S) := by
  induction l generalizing S with
  | nil => exact h
  | cons b l ih =>
    rw [List.foldl_cons]
    exact ih (fun S c hc => hf S c (List.mem_cons_of_mem _ hc)) _ (hf S b (by simp) h)

/-! ### canonical lists as sets -/

theorem mem_insertS {x y : String} {l : List String} : x ∈ insertS y l ↔ x = y ∨ x ∈ l := by
  induction l with
  | nil => simp [insertS]
  | cons z zs ih =>
    unfold insertS
    split
    · subst_vars; simp
    · split
      · simp
      · simp only [List.mem_cons, ih]; grind

theorem mem_normS {x : String} {l : List String} : x ∈ normS l ↔ x ∈ l := by
  induction l with
  | nil => simp [normS]
  | cons y ys ih =>
    show x ∈ insertS y (normS ys) ↔ _
    rw [mem_insertS, ih]; simp

theorem mem_unionS {x : String} {a b : List String} : x ∈ unionS a b ↔ x ∈ a ∨ x ∈ b := by
  unfold unionS; rw [mem_normS]; simp

/-! ### `addMarks` -/

theorem addMarks_extends (M new : List Mark) : ∃ T, addMarks M new = M ++ T := by
  unfold addMarks
  apply foldl_extends
  intro S b
  by_cases h : b ∈ S
  · exact ⟨[], by simp [h]⟩
  · exact ⟨[b], by simp [h]⟩

theorem mem_addMarks {M new : List Mark} {m : Mark} : m ∈ addMarks M new ↔ m ∈ M ∨ m ∈ new := by
  unfold addMarks
  induction new generalizing M with
  | nil => simp
  | cons n ns ih =>
    rw [List.foldl_cons, ih]
    by_cases h : n ∈ M
    · simp only [h, if_true, List.mem_cons]
      constructor
      · rintro (h' | h')
        · exact Or.inl h'
        · exact Or.inr (Or.inr h')
      · rintro (h' | h' | h')
        · exact Or.inl h'
        · subst h'; exact Or.inl h
        · exact Or.inr h'
    · simp only [h, if_false, List.mem_append, List.mem_cons, List.not_mem_nil,
        or_false]
      grind

theorem addMarks_fix {M new : List Mark} (h : addMarks M new = M) : ∀ m ∈ new, m ∈ M := by
  intro m hm
  rw [← h]; exact mem_addMarks.mpr (Or.inr hm)

/-! ### candidates of one rule -/

def dupCands (M : List Mark) (a b c : String) : List Mark :=
  (M.filter (·.1 = b)).flatMap fun e0 => (M.filter (·.1 = c)).map fun e1 => (a, unionS e0.2 e1.2)

def prodCands (G : IG) (M : List Mark) (a b f : String) : List Mark :=
  (M.filter (·.1 = b)).flatMap fun e =>
    if e.2.isEmpty then [(a, [])] else
    match combos G M f e.2 with
    | none => []
    | some cs => cs.map fun c => (a, c)

def stepF (G : IG) (M : List Mark) (r : IRule) : List Mark :=
  match r with
  | .dup a b c => addMarks M (dupCands M a b c)
  | .prod a b f => addMarks M (prodCands G M a b f)
  | _ => M

theorem markStep_eq (G : IG) (M : List Mark) : G.markStep M = G.rules.foldl (stepF G) M := by
  rfl

theorem mem_dupCands {M : List Mark} {a b c : String} {m : Mark} :
    m ∈ dupCands M a b c ↔ ∃ E0 E1, (b, E0) ∈ M ∧ (c, E1) ∈ M ∧ m = (a, unionS E0 E1) := by
  unfold dupCands
  simp only [List.mem_flatMap, List.mem_filter, List.mem_map, decide_eq_true_eq]
  constructor
  · rintro ⟨⟨b', E0⟩, ⟨h0, rfl⟩, ⟨c', E1⟩, ⟨h1, rfl⟩, rfl⟩
    exact ⟨E0, E1, h0, h1, rfl⟩
  · rintro ⟨E0, E1, h0, h1, rfl⟩
    exact ⟨(b, E0), ⟨h0, rfl⟩, (c, E1), ⟨h1, rfl⟩, rfl⟩

theorem mem_prodCands {G : IG} {M : List Mark} {a b f : String} {m : Mark} :
    m ∈ prodCands G M a b f ↔
      ∃ E cs c, (b, E) ∈ M ∧ combos G M f E = some cs ∧ c ∈ cs ∧ m = (a, c) := by
  unfold prodCands
  simp only [List.mem_flatMap, List.mem_filter, decide_eq_true_eq]
  constructor
  · rintro ⟨⟨b', E⟩, ⟨h0, rfl⟩, hm⟩
    cases E with
    | nil =>
      simp at hm
      exact ⟨[], [[]], [], h0, rfl, by simp, hm⟩
    | cons e E =>
      simp only [List.isEmpty_cons, Bool.false_eq_true, if_false] at hm
      split at hm
      · cases hm
      · rename_i cs hcs
        obtain ⟨c, hc, rfl⟩ := List.mem_map.mp hm
        exact ⟨_, cs, c, h0, hcs, hc, rfl⟩
  · rintro ⟨E, cs, c, h0, hcs, hc, rfl⟩
    refine ⟨(b, E), ⟨h0, rfl⟩, ?_⟩
    cases E with
    | nil =>
      simp only [combos, Option.some.injEq] at hcs
      subst hcs
      simp at hc
      simp [hc]
    | cons e E =>
      simp only [List.isEmpty_cons, Bool.false_eq_true, if_false]
      rw [hcs]
      exact List.mem_map.mpr ⟨c, hc, rfl⟩

theorem stepF_extends (G : IG) (M : List Mark) (r : IRule) : ∃ T, stepF G M r = M ++ T := by
  cases r with
  | dup a b c => exact addMarks_extends _ _
  | prod a b f => exact addMarks_extends _ _
  | end_ a t => exact ⟨[], by simp [stepF]⟩
  | cons f a b => exact ⟨[], by simp [stepF]⟩

theorem markStep_extends (G : IG) (M : List Mark) : ∃ T, G.markStep M = M ++ T := by
  rw [markStep_eq]; exact foldl_extends _ (stepF_extends G) _ _

/-! ### `combos` -/

theorem combos_sound {G : IG} {M : List Mark} {f : String} :
    ∀ {E : List String} {cs : List (List String)} {c : List String},
      combos G M f E = some cs → c ∈ cs →
      ∀ C ∈ E, ∃ D ED, IRule.cons f C D ∈ G.rules ∧ (D, ED) ∈ M ∧ ∀ x ∈ ED, x ∈ c := by
  intro E
  induction E with
  | nil => intro cs c _ _ C hC; cases hC
  | cons e E ih =>
    intro cs c h hc C hC
    simp only [combos] at h
    split at h
    · cases h
    · split at h
      · cases h
      · rename_i cs' hcs'
        simp only [Option.some.injEq] at h
        subst h
        simp only [List.mem_flatMap, List.mem_eraseDups, List.mem_map] at hc
        obtain ⟨o, ⟨r, hr, ho⟩, c', hc', rfl⟩ := hc
        rcases List.mem_cons.mp hC with rfl | hC
        · cases r with
          | cons f' a d =>
            simp only at ho
            split at ho
            · rename_i hfa
              obtain ⟨hf, ha⟩ := hfa
              subst hf; subst ha
              obtain ⟨⟨d', o'⟩, hm, rfl⟩ := List.mem_map.mp ho
              simp only [List.mem_filter, decide_eq_true_eq] at hm
              obtain ⟨hm, rfl⟩ := hm
              exact ⟨d', o', hr, hm, fun x hx => mem_unionS.mpr (Or.inl hx)⟩
            · cases ho
          | end_ _ _ => cases ho
          | prod _ _ _ => cases ho
          | dup _ _ _ => cases ho
        · obtain ⟨D, ED, h1, h2, h3⟩ := ih hcs' hc' C hC
          exact ⟨D, ED, h1, h2, fun x hx => mem_unionS.mpr (Or.inr (h3 x hx))⟩

theorem combos_complete {G : IG} {M : List Mark} {f : String} (Q : String → Prop) :
    ∀ {E : List String},
      (∀ C ∈ E, ∃ D ED, IRule.cons f C D ∈ G.rules ∧ (D, ED) ∈ M ∧ ∀ x ∈ ED, Q x) →
      ∃ cs, combos G M f E = some cs ∧ ∃ c ∈ cs, ∀ x ∈ c, Q x := by
  intro E
  induction E with
  | nil => intro _; exact ⟨[[]], rfl, [], by simp, by simp⟩
  | cons e E ih =>
    intro h
    obtain ⟨cs', hcs', c', hc', hQ'⟩ := ih (fun C hC => h C (List.mem_cons_of_mem _ hC))
    obtain ⟨D, ED, hr, hm, hQ⟩ := h e List.mem_cons_self
    simp only [combos, hcs']
    split
    · rename_i hno
      exfalso
      simp only [Bool.not_eq_true', List.any_eq_false] at hno
      exact hno _ hr (by simp)
    refine ⟨_, rfl, unionS ED c', ?_, ?_⟩
    · simp only [List.mem_flatMap, List.mem_eraseDups, List.mem_map]
      refine ⟨ED, ⟨_, hr, ?_⟩, c', hc', rfl⟩
      simp only [and_self, if_true]
      exact List.mem_map.mpr ⟨(D, ED), by simp [hm], rfl⟩
    · intro x hx
      rcases mem_unionS.mp hx with hx | hx
      · exact hQ x hx
      · exact hQ' x hx

/-! ### invariants of `markStep` / `markSaturate` -/

theorem markStep_forall (G : IG) (P : Mark → Prop)
    (hdup : ∀ a b c, IRule.dup a b c ∈ G.rules → ∀ E0 E1, P (b, E0) → P (c, E1) →
      P (a, unionS E0 E1))
    (hprod : ∀ M : List Mark, (∀ m ∈ M, P m) → ∀ a b f, IRule.prod a b f ∈ G.rules →
      ∀ E cs c, (b, E) ∈ M → combos G M f E = some cs → c ∈ cs → P (a, c))
    (M : List Mark) (hM : ∀ m ∈ M, P m) : ∀ m ∈ G.markStep M, P m := by
  rw [markStep_eq]
  refine foldl_inv (fun M => ∀ m ∈ M, P m) _ _ ?_ M hM
  intro S r hr hS m hm
  cases r with
  | end_ a t => exact hS m hm
  | cons f a b => exact hS m hm
  | dup a b c =>
    rcases mem_addMarks.mp hm with hm | hm
    · exact hS m hm
    · obtain ⟨E0, E1, h0, h1, rfl⟩ := mem_dupCands.mp hm
      exact hdup a b c hr E0 E1 (hS _ h0) (hS _ h1)
  | prod a b f =>
    rcases mem_addMarks.mp hm with hm | hm
    · exact hS m hm
    · obtain ⟨E, cs, c, h0, h1, h2, rfl⟩ := mem_prodCands.mp hm
      exact hprod S hS a b f hr E cs c h0 h1 h2

theorem markSaturate_inv (G : IG) (Q : List Mark → Prop) (hQ : ∀ M, Q M → Q (G.markStep M)) :
    ∀ fuel M M', G.markSaturate fuel M = some M' → Q M → Q M' := by
  intro fuel
  induction fuel with
  | zero => intro M M' h; simp [markSaturate] at h
  | succ n ih =>
    intro M M' h hM
    simp only [markSaturate] at h
    split at h
    · simp only [Option.some.injEq] at h; subst h; exact hM
    · exact ih _ _ h (hQ M hM)

theorem markSaturate_fix (G : IG) :
    ∀ fuel M M', G.markSaturate fuel M = some M' → (G.markStep M').length = M'.length := by
  intro fuel
  induction fuel with
  | zero => intro M M' h; simp [markSaturate] at h
  | succ n ih =>
    intro M M' h
    simp only [markSaturate] at h
    split at h
    · rename_i hl; simp only [Option.some.injEq] at h; subst h; exact hl
    · exact ih _ _ h

theorem markSaturate_forall (G : IG) (P : Mark → Prop)
    (hdup : ∀ a b c, IRule.dup a b c ∈ G.rules → ∀ E0 E1, P (b, E0) → P (c, E1) →
      P (a, unionS E0 E1))
    (hprod : ∀ M : List Mark, (∀ m ∈ M, P m) → ∀ a b f, IRule.prod a b f ∈ G.rules →
      ∀ E cs c, (b, E) ∈ M → combos G M f E = some cs → c ∈ cs → P (a, c))
    (fuel : Nat) (M M' : List Mark) (h : G.markSaturate fuel M = some M')
    (hM : ∀ m ∈ M, P m) : ∀ m ∈ M', P m :=
  markSaturate_inv G (fun M => ∀ m ∈ M, P m) (fun M hM => markStep_forall G P hdup hprod M hM)
    fuel M M' h hM

theorem markSaturate_subset (G : IG) (fuel : Nat) (M M' : List Mark)
    (h : G.markSaturate fuel M = some M') : ∀ m ∈ M, m ∈ M' := by
  refine markSaturate_inv G (fun M' => ∀ m ∈ M, m ∈ M') ?_ fuel M M' h (fun _ h => h)
  intro M1 h1 m hm
  obtain ⟨T, hT⟩ := markStep_extends G M1
  rw [hT]; exact List.mem_append_left _ (h1 m hm)

/-! ### soundness of the marks -/

def Good (G : IG) (m : Mark) : Prop :=
  ∀ σ, (∀ b ∈ m.2, G.Derivable b σ) → G.Derivable m.1 σ

theorem mem_initMarks {G : IG} {m : Mark} :
    m ∈ G.initMarks ↔ (m.1 ∈ G.nonTerminals ∧ m.2 = [m.1]) ∨
      (m.1 ∈ G.nonTerminals ∧ m.2 = [] ∧ ∃ t, IRule.end_ m.1 t ∈ G.rules) := by
  obtain ⟨a, E⟩ := m
  unfold initMarks
  simp only [List.mem_append, List.mem_map, List.mem_filter, List.any_eq_true, Prod.mk.injEq]
  constructor
  · rintro (⟨a', h, rfl, rfl⟩ | ⟨a', ⟨h, r, hr, hm⟩, rfl, rfl⟩)
    · exact Or.inl ⟨h, rfl⟩
    · refine Or.inr ⟨h, rfl, ?_⟩
      cases r with
      | end_ a'' t => simp at hm; subst hm; exact ⟨t, hr⟩
      | prod _ _ _ => simp at hm
      | cons _ _ _ => simp at hm
      | dup _ _ _ => simp at hm
  · rintro (⟨h, rfl⟩ | ⟨h, rfl, t, ht⟩)
    · exact Or.inl ⟨a, h, rfl, rfl⟩
    · exact Or.inr ⟨a, ⟨h, _, ht, by simp⟩, rfl, rfl⟩

theorem initMarks_good (G : IG) : ∀ m ∈ G.initMarks, Good G m := by
  intro m hm σ hσ
  rcases mem_initMarks.mp hm with ⟨_, h⟩ | ⟨_, _, t, ht⟩
  · exact hσ _ (by rw [h]; simp)
  · exact .end_ ht

theorem marks_good (G : IG) (fuel : Nat) (M : List Mark)
    (h : G.markSaturate fuel G.initMarks = some M) : ∀ m ∈ M, Good G m := by
  refine markSaturate_forall G (Good G) ?_ ?_ fuel _ M h (initMarks_good G)
  · intro a b c hr E0 E1 h0 h1 σ hσ
    exact .dup hr (h0 σ fun x hx => hσ x (mem_unionS.mpr (Or.inl hx)))
      (h1 σ fun x hx => hσ x (mem_unionS.mpr (Or.inr hx)))
  · intro M hM a b f hr E cs c h0 h1 h2 σ hσ
    refine .prod hr (hM _ h0 (f :: σ) ?_)
    intro C hC
    obtain ⟨D, ED, hr', hm', hsub⟩ := combos_sound h1 h2 C hC
    exact .cons hr' (hM _ hm' σ fun x hx => hσ x (hsub x hx))

/-! ### closure of the fixpoint -/

structure Closed (G : IG) (M : List Mark) : Prop where
  init : ∀ m ∈ G.initMarks, m ∈ M
  dup : ∀ a b c, IRule.dup a b c ∈ G.rules → ∀ E0 E1, (b, E0) ∈ M → (c, E1) ∈ M →
    (a, unionS E0 E1) ∈ M
  prod : ∀ a b f, IRule.prod a b f ∈ G.rules → ∀ E cs c, (b, E) ∈ M →
    combos G M f E = some cs → c ∈ cs → (a, c) ∈ M

theorem marks_closed (G : IG) (fuel : Nat) (M : List Mark)
    (h : G.markSaturate fuel G.initMarks = some M) : Closed G M := by
  have hfix := markSaturate_fix G fuel _ M h
  rw [markStep_eq] at hfix
  have hall := foldl_fix _ (stepF_extends G) _ M hfix
  refine ⟨markSaturate_subset G fuel _ M h, ?_, ?_⟩
  · intro a b c hr E0 E1 h0 h1
    exact addMarks_fix (hall _ hr) _ (mem_dupCands.mpr ⟨E0, E1, h0, h1, rfl⟩)
  · intro a b f hr E cs c h0 h1 h2
    exact addMarks_fix (hall _ hr) _ (mem_prodCands.mpr ⟨E, cs, c, h0, h1, h2, rfl⟩)

/-! ### completeness: size-indexed derivations -/

inductive DerN (G : IG) : Nat → String → List String → Prop
  | end_ {a t : String} {σ : List String} : IRule.end_ a t ∈ G.rules → DerN G 0 a σ
  | prod {n : Nat} {a b f : String} {σ : List String} :
      IRule.prod a b f ∈ G.rules → DerN G n b (f :: σ) → DerN G (n + 1) a σ
  | cons {n : Nat} {f a b : String} {σ : List String} :
      IRule.cons f a b ∈ G.rules → DerN G n b σ → DerN G (n + 1) a (f :: σ)
  | dup {n₁ n₂ : Nat} {a b c : String} {σ : List String} :
      IRule.dup a b c ∈ G.rules → DerN G n₁ b σ → DerN G n₂ c σ → DerN G (n₁ + n₂ + 1) a σ

theorem derN_of_derivable {G : IG} {a : String} {σ : List String} (h : G.Derivable a σ) :
    ∃ n, DerN G n a σ := by
  induction h with
  | end_ hr => exact ⟨0, .end_ hr⟩
  | prod hr _ ih => obtain ⟨n, hn⟩ := ih; exact ⟨_, .prod hr hn⟩
  | cons hr _ ih => obtain ⟨n, hn⟩ := ih; exact ⟨_, .cons hr hn⟩
  | dup hr _ _ ih1 ih2 =>
    obtain ⟨n1, h1⟩ := ih1; obtain ⟨n2, h2⟩ := ih2; exact ⟨_, .dup hr h1 h2⟩

theorem mem_nonTerminals_of_rule {G : IG} {r : IRule} (hr : r ∈ G.rules) {x : String}
    (hx : x ∈ (match r with
      | .end_ a _ => [a]
      | .prod a b _ => [a, b]
      | .cons _ a b => [a, b]
      | .dup a b c => [a, b, c])) : x ∈ G.nonTerminals := by
  unfold nonTerminals
  rw [List.mem_eraseDups]
  exact List.mem_cons_of_mem _ (List.mem_flatMap.mpr ⟨r, hr, hx⟩)

theorem start_mem_nonTerminals (G : IG) : G.start ∈ G.nonTerminals := by
  unfold nonTerminals
  rw [List.mem_eraseDups]; exact List.mem_cons_self

/-- the exit data of a non-terminal `c` of a mark at stack `σ` with size bound `n` -/
def Exit (G : IG) (n : Nat) (σ : List String) (c : String) : Prop :=
  ∃ g σ' d m, σ = g :: σ' ∧ IRule.cons g c d ∈ G.rules ∧ m < n ∧ DerN G m d σ'

theorem Exit.mono {G : IG} {n n' : Nat} {σ : List String} {c : String} (h : Exit G n σ c)
    (hn : n ≤ n') : Exit G n' σ c := by
  obtain ⟨g, σ', d, m, h1, h2, h3, h4⟩ := h
  exact ⟨g, σ', d, m, h1, h2, by omega, h4⟩

theorem complete_aux {G : IG} {M : List Mark} (hM : Closed G M) :
    ∀ n a σ, DerN G n a σ → a ∈ G.nonTerminals →
      ∃ E, (a, E) ∈ M ∧ ∀ c ∈ E, Exit G n σ c := by
  intro n
  induction n using Nat.strongRecOn with
  | _ n ih =>
    intro a σ h ha
    cases h with
    | end_ hr =>
      exact ⟨[], hM.init _ (mem_initMarks.mpr (Or.inr ⟨ha, rfl, _, hr⟩)), by simp⟩
    | @cons n' f _ b σ' hr hb =>
      refine ⟨[a], hM.init _ (mem_initMarks.mpr (Or.inl ⟨ha, rfl⟩)), ?_⟩
      intro c hc
      simp only [List.mem_singleton] at hc
      subst hc
      exact ⟨f, σ', b, n', rfl, hr, by omega, hb⟩
    | @dup n₁ n₂ _ b c _ hr hb hc =>
      obtain ⟨E0, h0, e0⟩ := ih n₁ (by omega) b σ hb
        (mem_nonTerminals_of_rule hr (by simp))
      obtain ⟨E1, h1, e1⟩ := ih n₂ (by omega) c σ hc
        (mem_nonTerminals_of_rule hr (by simp))
      refine ⟨unionS E0 E1, hM.dup _ _ _ hr _ _ h0 h1, ?_⟩
      intro x hx
      rcases mem_unionS.mp hx with hx | hx
      · exact (e0 x hx).mono (by omega)
      · exact (e1 x hx).mono (by omega)
    | @prod n' _ b f _ hr hb =>
      obtain ⟨E, h0, e0⟩ := ih n' (by omega) b (f :: σ) hb
        (mem_nonTerminals_of_rule hr (by simp))
      have hres : ∀ C ∈ E, ∃ D ED, IRule.cons f C D ∈ G.rules ∧ (D, ED) ∈ M ∧
          ∀ x ∈ ED, Exit G (n' + 1) σ x := by
        intro C hC
        obtain ⟨g, σ', d, m, h1, h2, h3, h4⟩ := e0 C hC
        simp only [List.cons.injEq] at h1
        obtain ⟨rfl, rfl⟩ := h1
        obtain ⟨ED, hd, ed⟩ := ih m (by omega) d σ h4 (mem_nonTerminals_of_rule h2 (by simp))
        exact ⟨d, ED, h2, hd, fun x hx => (ed x hx).mono (by omega)⟩
      obtain ⟨cs, hcs, c, hc, hex⟩ := combos_complete (Exit G (n' + 1) σ) hres
      exact ⟨c, hM.prod _ _ _ hr E cs c h0 hcs hc, hex⟩

theorem marks_complete' (G : IG) (fuel : Nat) (M : List Mark)
    (h : G.markSaturate fuel G.initMarks = some M) (a : String) (ha : a ∈ G.nonTerminals)
    (hd : G.Derivable a []) : (a, []) ∈ M := by
  obtain ⟨n, hn⟩ := derN_of_derivable hd
  obtain ⟨E, hE, hex⟩ := complete_aux (marks_closed G fuel M h) n a [] hn ha
  have : E = [] := by
    apply List.eq_nil_iff_forall_not_mem.mpr
    intro c hc
    obtain ⟨g, σ', d, m, h1, _⟩ := hex c hc
    cases h1
  rw [this] at hE; exact hE

/-! ### monotonicity of `Derivable` in the rules -/

theorem derivable_mono {G G' : IG} (hsub : ∀ r ∈ G.rules, r ∈ G'.rules) {a : String}
    {σ : List String} (h : G.Derivable a σ) : G'.Derivable a σ := by
  induction h with
  | end_ hr => exact .end_ (hsub _ hr)
  | prod hr _ ih => exact .prod (hsub _ hr) ih
  | cons hr _ ih => exact .cons (hsub _ hr) ih
  | dup hr _ _ ih1 ih2 => exact .dup (hsub _ hr) ih1 ih2

/-! ### reachable non-terminals -/

def nextNT (G : IG) (x : String) : List String :=
  G.rules.flatMap fun r => match r with
    | .dup a b c => if a = x then [b, c] else []
    | .prod a b _ => if a = x then [b] else []
    | .cons _ a b => if a = x then [b] else []
    | .end_ _ _ => []

def ntsOf (r : IRule) : List String :=
  match r with
  | .end_ a _ => [a]
  | .prod a b _ => [a, b]
  | .cons _ a b => [a, b]
  | .dup a b c => [a, b, c]

theorem reachableNT_eq (G : IG) :
    G.reachableNT = (bfs (nextNT G) (3 * G.rules.length + 2) [G.start]).getD [] := rfl

theorem flatMap_ntsOf_length (l : List IRule) : (l.flatMap ntsOf).length ≤ 3 * l.length := by
  induction l with
  | nil => simp
  | cons r l ih =>
    simp only [List.flatMap_cons, List.length_append, List.length_cons]
    have : (ntsOf r).length ≤ 3 := by cases r <;> simp [ntsOf]
    omega

theorem nextNT_sub (G : IG) (x y : String) (h : y ∈ nextNT G x) :
    y ∈ G.start :: G.rules.flatMap ntsOf := by
  unfold nextNT at h
  obtain ⟨r, hr, hy⟩ := List.mem_flatMap.mp h
  refine List.mem_cons_of_mem _ (List.mem_flatMap.mpr ⟨r, hr, ?_⟩)
  cases r with
  | end_ a t => cases hy
  | prod a b f =>
    simp only at hy; split at hy
    · simp at hy; simp [ntsOf, hy]
    · cases hy
  | cons f a b =>
    simp only at hy; split at hy
    · simp at hy; simp [ntsOf, hy]
    · cases hy
  | dup a b c =>
    simp only at hy; split at hy
    · simp at hy; rcases hy with rfl | rfl <;> simp [ntsOf]
    · cases hy

theorem reach_isSome (G : IG) : (bfs (nextNT G) (3 * G.rules.length + 2) [G.start]).isSome := by
  unfold bfs
  have hed : [G.start].eraseDups = [G.start] := by simp [List.eraseDups_cons]
  rw [hed]
  refine bfsK_isSome id (nextNT G) (G.start :: G.rules.flatMap ntsOf) (nextNT_sub G) _ _ _
    (by simp) (by simp) ?_
  have := flatMap_ntsOf_length G.rules
  simp only [List.length_cons, List.length_nil]
  omega

theorem mem_reachableNT (G : IG) (x : String) :
    x ∈ G.reachableNT ↔ Reach (nextNT G) G.start x := by
  rw [reachableNT_eq]
  have h := reach_isSome G
  obtain ⟨res, hres⟩ := Option.isSome_iff_exists.mp h
  rw [hres, Option.getD_some, mem_bfs_iff _ _ _ _ hres]
  simp

/-! ### generating non-terminals -/

def headOf (r : IRule) : String :=
  match r with
  | .end_ a _ => a
  | .prod a _ _ => a
  | .cons _ a _ => a
  | .dup a _ _ => a

def bodyOf (r : IRule) : List String :=
  match r with
  | .end_ _ _ => []
  | .prod _ b _ => [b]
  | .cons _ _ b => [b]
  | .dup _ b c => [b, c]

def gstep (S : List String) (r : IRule) : List String :=
  match r with
  | .end_ a _ => if a ∈ S then S else S ++ [a]
  | .prod a b _ => if b ∈ S ∧ a ∉ S then S ++ [a] else S
  | .cons _ a b => if b ∈ S ∧ a ∉ S then S ++ [a] else S
  | .dup a b c => if b ∈ S ∧ c ∈ S ∧ a ∉ S then S ++ [a] else S

theorem genStep_eq (G : IG) (S : List String) : G.genStep S = G.rules.foldl gstep S := rfl

theorem gstep_cases (S : List String) (r : IRule) :
    (gstep S r = S ∧ ((∀ x ∈ bodyOf r, x ∈ S) → headOf r ∈ S)) ∨
    (gstep S r = S ++ [headOf r] ∧ headOf r ∉ S ∧ ∀ x ∈ bodyOf r, x ∈ S) := by
  cases r with
  | end_ a t =>
    simp only [gstep, headOf, bodyOf]
    by_cases h : a ∈ S <;> simp [h]
  | prod a b f =>
    simp only [gstep, headOf, bodyOf]
    by_cases h : b ∈ S ∧ a ∉ S
    · right; simp [h]
    · left; rw [if_neg h]; refine ⟨rfl, ?_⟩; intro hb; simp at hb; grind
  | cons f a b =>
    simp only [gstep, headOf, bodyOf]
    by_cases h : b ∈ S ∧ a ∉ S
    · right; simp [h]
    · left; rw [if_neg h]; refine ⟨rfl, ?_⟩; intro hb; simp at hb; grind
  | dup a b c =>
    simp only [gstep, headOf, bodyOf]
    by_cases h : b ∈ S ∧ c ∈ S ∧ a ∉ S
    · right; simp [h]
    · left; rw [if_neg h]; refine ⟨rfl, ?_⟩; intro hb; simp at hb; grind

theorem gstep_prefix (S : List String) (r : IRule) : S <+: gstep S r := by
  rcases gstep_cases S r with h | h
  · rw [h.1]; exact List.prefix_refl _
  · rw [h.1]; exact List.prefix_append _ _

theorem gfold_prefix (rs : List IRule) : ∀ S : List String, S <+: rs.foldl gstep S := by
  induction rs with
  | nil => intro S; exact List.prefix_refl _
  | cons r rs ih =>
    intro S; rw [List.foldl_cons]
    exact List.IsPrefix.trans (gstep_prefix S r) (ih _)

theorem gfold_closed (rs : List IRule) :
    ∀ S : List String, (rs.foldl gstep S).length = S.length →
      ∀ r ∈ rs, (∀ x ∈ bodyOf r, x ∈ S) → headOf r ∈ S := by
  induction rs with
  | nil => intro S _ r hr; cases hr
  | cons r rs ih =>
    intro S hlen q hq
    rw [List.foldl_cons] at hlen
    have hpre := (gfold_prefix rs (gstep S r)).length_le
    rcases gstep_cases S r with h | h
    · rw [h.1] at hlen
      rcases List.mem_cons.mp hq with hq | hq
      · subst hq; exact h.2
      · exact ih S hlen q hq
    · rw [h.1] at hlen hpre
      simp at hpre; omega

theorem gfold_new (rs : List IRule) :
    ∀ S : List String, (rs.foldl gstep S).length ≠ S.length →
      ∃ r ∈ rs, headOf r ∉ S ∧ headOf r ∈ rs.foldl gstep S := by
  induction rs with
  | nil => intro S h; exact absurd rfl h
  | cons r rs ih =>
    intro S hlen
    rw [List.foldl_cons] at hlen ⊢
    rcases gstep_cases S r with h | h
    · rw [h.1] at hlen ⊢
      obtain ⟨q, hq, h1, h2⟩ := ih S hlen
      exact ⟨q, List.mem_cons_of_mem _ hq, h1, h2⟩
    · refine ⟨r, List.mem_cons_self, h.2.1, ?_⟩
      apply (gfold_prefix rs (gstep S r)).subset
      rw [h.1]; simp

theorem genStep_prefix (G : IG) (S : List String) : S <+: G.genStep S := gfold_prefix _ _

theorem iterN_fix {α : Type} (f : α → α) (x : α) (h : f x = x) : ∀ n, iterN f n x = x := by
  intro n; induction n with
  | zero => rfl
  | succ n ih => show iterN f n (f x) = x; rw [h]; exact ih

def GClosed (G : IG) (S : List String) : Prop :=
  ∀ r ∈ G.rules, (∀ x ∈ bodyOf r, x ∈ S) → headOf r ∈ S

theorem gclosed_of_genStep_eq (G : IG) (S : List String) (h : G.genStep S = S) : GClosed G S :=
  gfold_closed G.rules S (by rw [← genStep_eq, h])

theorem countP_lt_of {α : Type} (l : List α) (p q : α → Bool) (hqp : ∀ x ∈ l, q x → p x)
    (a : α) (ha : a ∈ l) (hpa : p a) (hqa : ¬ q a) : l.countP q < l.countP p := by
  induction l with
  | nil => cases ha
  | cons b l ih =>
    have hmono : l.countP q ≤ l.countP p :=
      List.countP_mono_left (fun x hx => hqp x (List.mem_cons_of_mem _ hx))
    rcases List.mem_cons.mp ha with hab | hal
    · subst hab
      rw [List.countP_cons, List.countP_cons]
      simp only [hpa, if_true]
      have : q a = false := by simpa using hqa
      simp only [this]
      simp; omega
    · have := ih (fun x hx => hqp x (List.mem_cons_of_mem _ hx)) hal
      rw [List.countP_cons, List.countP_cons]
      by_cases hqb : q b
      · have hpb := hqp b List.mem_cons_self hqb
        simp only [hqb, hpb, if_true]; omega
      · have : q b = false := by simpa using hqb
        simp only [this]
        by_cases hpb : p b
        · simp only [hpb, if_true]; simp; omega
        · have : p b = false := by simpa using hpb
          simp only [this]; simp; omega

/-- number of rules whose head is still missing -/
def missing (G : IG) (S : List String) : Nat :=
  G.rules.countP (fun r => decide (headOf r ∉ S))

theorem missing_le (G : IG) (S : List String) : missing G S ≤ G.rules.length :=
  List.countP_le_length

theorem missing_lt (G : IG) (S : List String) (h : (G.genStep S).length ≠ S.length) :
    missing G (G.genStep S) < missing G S := by
  obtain ⟨r, hr, h1, h2⟩ := gfold_new G.rules S h
  rw [← genStep_eq] at h2
  unfold missing
  apply countP_lt_of _ _ _ _ r hr
  · simpa using h1
  · simpa using h2
  · intro x _ hx
    simp only [decide_eq_true_eq] at hx ⊢
    exact fun hm => hx ((genStep_prefix G S).subset hm)

theorem iterN_fixpoint (G : IG) : ∀ n S, missing G S < n →
    G.genStep (iterN G.genStep n S) = iterN G.genStep n S := by
  intro n; induction n with
  | zero => intro S h; omega
  | succ n ih =>
    intro S h
    show G.genStep (iterN G.genStep n (G.genStep S)) = iterN G.genStep n (G.genStep S)
    by_cases hlen : (G.genStep S).length = S.length
    · have heq : G.genStep S = S := ((genStep_prefix G S).eq_of_length hlen.symm).symm
      rw [heq, iterN_fix _ _ heq n, heq]
    · have := missing_lt G S hlen
      exact ih _ (by omega)

theorem generatingNT_closed (G : IG) : GClosed G G.generatingNT :=
  gclosed_of_genStep_eq G _ (iterN_fixpoint G _ [] (by have := missing_le G []; omega))

theorem generating_of_derivable {G : IG} {a : String} {σ : List String} (h : G.Derivable a σ) :
    a ∈ G.generatingNT := by
  have hc := generatingNT_closed G
  induction h with
  | end_ hr => exact hc _ hr (by simp [bodyOf])
  | prod hr _ ih => exact hc _ hr (by simpa [bodyOf] using ih)
  | cons hr _ ih => exact hc _ hr (by simpa [bodyOf] using ih)
  | dup hr _ _ ih1 ih2 => exact hc _ hr (by simpa [bodyOf] using ⟨ih1, ih2⟩)

/-! ### `removeUseless` -/

theorem mem_removeUseless_rules {G : IG} {r : IRule} (hr : r ∈ G.rules)
    (h : ∀ x ∈ ntsOf r, x ∈ G.generatingNT ∧ x ∈ G.reachableNT) :
    r ∈ G.removeUseless.rules := by
  unfold removeUseless
  simp only [List.mem_filter]
  refine ⟨hr, ?_⟩
  cases r with
  | end_ a t => simpa [ntsOf] using h
  | prod a b f => simpa [ntsOf] using h
  | cons f a b => simpa [ntsOf] using h
  | dup a b c => simpa [ntsOf, and_assoc] using h

theorem removeUseless_rules_sub (G : IG) : ∀ r ∈ G.removeUseless.rules, r ∈ G.rules := by
  intro r hr
  unfold removeUseless at hr
  exact (List.mem_filter.mp hr).1

theorem removeUseless_derivable {G : IG} {a : String} {σ : List String} (h : G.Derivable a σ) :
    Reach (nextNT G) G.start a → G.removeUseless.Derivable a σ := by
  induction h with
  | @end_ a t σ hr =>
    intro hreach
    have hg := generating_of_derivable (Derivable.end_ (σ := σ) hr)
    refine .end_ (mem_removeUseless_rules hr ?_)
    intro x hx
    simp only [ntsOf, List.mem_singleton] at hx
    subst hx
    exact ⟨hg, (mem_reachableNT G _).mpr hreach⟩
  | @prod a b f σ hr hb ih =>
    intro hreach
    have hga := generating_of_derivable (Derivable.prod hr hb)
    have hgb := generating_of_derivable hb
    have hrb : Reach (nextNT G) G.start b :=
      Reach.tail hreach (List.mem_flatMap.mpr ⟨_, hr, by simp⟩)
    refine .prod (mem_removeUseless_rules hr ?_) (ih hrb)
    intro x hx
    simp only [ntsOf, List.mem_cons, List.not_mem_nil, or_false] at hx
    rcases hx with rfl | rfl
    · exact ⟨hga, (mem_reachableNT G _).mpr hreach⟩
    · exact ⟨hgb, (mem_reachableNT G _).mpr hrb⟩
  | @cons f a b σ hr hb ih =>
    intro hreach
    have hga := generating_of_derivable (Derivable.cons hr hb)
    have hgb := generating_of_derivable hb
    have hrb : Reach (nextNT G) G.start b :=
      Reach.tail hreach (List.mem_flatMap.mpr ⟨_, hr, by simp⟩)
    refine .cons (mem_removeUseless_rules hr ?_) (ih hrb)
    intro x hx
    simp only [ntsOf, List.mem_cons, List.not_mem_nil, or_false] at hx
    rcases hx with rfl | rfl
    · exact ⟨hga, (mem_reachableNT G _).mpr hreach⟩
    · exact ⟨hgb, (mem_reachableNT G _).mpr hrb⟩
  | @dup a b c σ hr hb hc ih1 ih2 =>
    intro hreach
    have hga := generating_of_derivable (Derivable.dup hr hb hc)
    have hgb := generating_of_derivable hb
    have hgc := generating_of_derivable hc
    have hrb : Reach (nextNT G) G.start b :=
      Reach.tail hreach (List.mem_flatMap.mpr ⟨_, hr, by simp⟩)
    have hrc : Reach (nextNT G) G.start c :=
      Reach.tail hreach (List.mem_flatMap.mpr ⟨_, hr, by simp⟩)
    refine .dup (mem_removeUseless_rules hr ?_) (ih1 hrb) (ih2 hrc)
    intro x hx
    simp only [ntsOf, List.mem_cons, List.not_mem_nil, or_false] at hx
    rcases hx with rfl | rfl | rfl
    · exact ⟨hga, (mem_reachableNT G _).mpr hreach⟩
    · exact ⟨hgb, (mem_reachableNT G _).mpr hrb⟩
    · exact ⟨hgc, (mem_reachableNT G _).mpr hrc⟩

end Pfl.IG.Lem
