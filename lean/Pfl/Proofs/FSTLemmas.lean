/-
Helper lemmas for C16_FST: paths (append / snoc), the relational oracle, the exploration loop of
`translate`, the library's renaming, and embedded copies for union / concatenation / star.
-/
import Pfl.Spec.FST
import Pfl.Oracle.FstRel
import Mathlib.Data.List.Nodup
import Mathlib.Data.List.Perm.Subperm
namespace Pfl
namespace FST

/-- what `add_*` guarantees -/
structure WF {σ : Type} (T : FST σ) : Prop where
  starts_sub : ∀ q ∈ T.starts, q ∈ T.states
  finals_sub : ∀ q ∈ T.finals, q ∈ T.states
  src : ∀ t ∈ T.delta, t.1 ∈ T.states
  dst : ∀ t ∈ T.delta, t.2.2.1 ∈ T.states

namespace Lem
set_option linter.unusedSectionVars false
variable {σ : Type}

/-! ### paths -/

theorem path_append {T : FST σ} {q r s : σ} {i i' o o' : List String}
    (h₁ : T.Path q i o r) (h₂ : T.Path r i' o' s) : T.Path q (i ++ i') (o ++ o') s := by
  induction h₁ with
  | nil q => simpa using h₂
  | eps he _ ih => rw [List.append_assoc]; exact Path.eps he (ih h₂)
  | read he _ ih => rw [List.append_assoc]; exact Path.read he (ih h₂)

theorem path_eps_one {T : FST σ} {q r : σ} {o : List String} (he : (q, none, r, o) ∈ T.delta) :
    T.Path q [] o r := by
  have := Path.eps he (Path.nil r)
  simpa using this

theorem path_read_one {T : FST σ} {q r : σ} {a : String} {o : List String}
    (he : (q, some a, r, o) ∈ T.delta) : T.Path q [a] o r := by
  have := Path.read he (Path.nil r)
  simpa using this

theorem path_snoc_eps {T : FST σ} {q r s : σ} {i o o' : List String}
    (h : T.Path q i o r) (he : (r, none, s, o') ∈ T.delta) : T.Path q i (o ++ o') s := by
  have := path_append h (path_eps_one he)
  simpa using this

theorem path_snoc_read {T : FST σ} {q r s : σ} {a : String} {i o o' : List String}
    (h : T.Path q i o r) (he : (r, some a, s, o') ∈ T.delta) :
    T.Path q (i ++ [a]) (o ++ o') s :=
  path_append h (path_read_one he)

/-! ### the relational oracle -/

section oracle
variable [DecidableEq σ]

theorem mem_ocNext (T : FST σ) (w : List String) (c c' : OCfg σ) :
    c' ∈ ocNext T w c ↔
      (∃ r o, (c.1, none, r, o) ∈ T.delta ∧ c' = (r, c.2.1, c.2.2 ++ o)) ∨
      (∃ a r o, (c.1, some a, r, o) ∈ T.delta ∧ w[c.2.1]? = some a ∧
        c' = (r, c.2.1 + 1, c.2.2 ++ o)) := by
  unfold ocNext
  simp only [List.mem_filterMap]
  constructor
  · rintro ⟨⟨q, a, r, o⟩, ht, h⟩
    dsimp only at h
    split at h
    · rename_i hq
      subst hq
      cases a with
      | none =>
        simp only [Option.some.injEq] at h
        exact Or.inl ⟨r, o, ht, h.symm⟩
      | some a =>
        dsimp only at h
        split at h
        · rename_i hw
          simp only [Option.some.injEq] at h
          exact Or.inr ⟨a, r, o, ht, hw, h.symm⟩
        · cases h
    · cases h
  · rintro (⟨r, o, ht, rfl⟩ | ⟨a, r, o, ht, hw, rfl⟩)
    · exact ⟨_, ht, by simp⟩
    · exact ⟨_, ht, by simp [hw]⟩

theorem reach_path (T : FST σ) (w : List String) (q : σ) (i : Nat) (o₀ : List String)
    (hi : i ≤ w.length) {c : OCfg σ} (h : Reach (ocNext T w) (q, i, o₀) c) :
    c.2.1 ≤ w.length ∧ ∃ mid o', w.drop i = mid ++ w.drop c.2.1 ∧ c.2.2 = o₀ ++ o' ∧
      T.Path q mid o' c.1 := by
  induction h with
  | refl => exact ⟨hi, [], [], by simp, by simp, Path.nil q⟩
  | tail _ hz ih =>
    obtain ⟨hle, mid, o', hmid, ho, hp⟩ := ih
    rcases (mem_ocNext T w _ _).mp hz with ⟨r, o, ht, rfl⟩ | ⟨a, r, o, ht, hw, rfl⟩
    · exact ⟨hle, mid, o' ++ o, hmid, by simp [ho], path_snoc_eps hp ht⟩
    · obtain ⟨hlt, hget⟩ := List.getElem?_eq_some_iff.mp hw
      refine ⟨hlt, mid ++ [a], o' ++ o, ?_, by simp [ho], path_snoc_read hp ht⟩
      rw [hmid, List.drop_eq_getElem_cons hlt, hget]
      simp

theorem path_reach (T : FST σ) (w : List String) {q q' : σ} {mid o' : List String}
    (h : T.Path q mid o' q') : ∀ (i : Nat) (o₀ rest : List String), w.drop i = mid ++ rest →
      Reach (ocNext T w) (q, i, o₀) (q', i + mid.length, o₀ ++ o') := by
  induction h with
  | nil q => intro i o₀ rest _; simpa using Reach.refl _
  | @eps q r s i' o o' he _ ih =>
    intro i o₀ rest hd
    have := ih i (o₀ ++ o) rest hd
    rw [← List.append_assoc]
    exact Reach.head ((mem_ocNext T w _ _).mpr (Or.inl ⟨_, _, he, rfl⟩)) this
  | @read q r s a i' o o' he _ ih =>
    intro i o₀ rest hd
    have hlt : i < w.length := by
      by_contra hcon
      rw [List.drop_eq_nil_of_le (by omega)] at hd
      cases hd
    rw [List.drop_eq_getElem_cons hlt] at hd
    simp only [List.cons_append, List.cons.injEq] at hd
    have := ih (i + 1) (o₀ ++ o) rest hd.2
    rw [← List.append_assoc]
    have hw : w[i]? = some a := by rw [List.getElem?_eq_getElem hlt, hd.1]
    have e : i + (a :: i').length = i + 1 + i'.length := by simp; omega
    rw [e]
    exact Reach.head ((mem_ocNext T w _ _).mpr (Or.inr ⟨a, _, _, he, hw, rfl⟩)) this

theorem relOutputs_iff (T : FST σ) (w : List String) (fuel : Nat) (outs : List (List String))
    (h : T.relOutputs w fuel = some outs) (o : List String) : o ∈ outs ↔ T.Rel w o := by
  unfold relOutputs at h
  obtain ⟨seen, hb, rfl⟩ := Option.map_eq_some_iff.mp h
  simp only [List.mem_eraseDups, List.mem_map, List.mem_filter, decide_eq_true_eq]
  constructor
  · rintro ⟨c, ⟨hc, hf, hpos⟩, rfl⟩
    obtain ⟨s0, hs0, hr⟩ := (mem_bfs_iff _ _ _ _ hb c).mp hc
    obtain ⟨s, hs, rfl⟩ := List.mem_map.mp hs0
    obtain ⟨_, mid, o', hmid, ho, hp⟩ := reach_path T w s 0 [] (Nat.zero_le _) hr
    rw [hpos] at hmid
    simp only [List.drop_zero, List.drop_length, List.append_nil] at hmid
    subst hmid
    simp only [List.nil_append] at ho
    rw [ho]
    exact ⟨s, hs, c.1, hf, hp⟩
  · rintro ⟨s, hs, f, hf, hp⟩
    have hr := path_reach T w hp 0 [] [] (by simp)
    simp only [Nat.zero_add, List.nil_append] at hr
    refine ⟨(f, w.length, o), ⟨?_, hf, rfl⟩, rfl⟩
    exact (mem_bfs_iff _ _ _ _ hb _).mpr ⟨_, List.mem_map.mpr ⟨s, hs, rfl⟩, hr⟩

end oracle

/-! ### the exploration loop of `translate` -/

section translate
variable [DecidableEq σ]

/-- successors of a configuration of `translate` (no length bound) -/
def tnext (T : FST σ) (c : Cfg σ) : List (Cfg σ) :=
  (match c.1 with
    | [] => []
    | a :: rest => (T.delta.filter fun t => t.1 = c.2.2 ∧ t.2.1 = some a).map
        fun t => (rest, c.2.1 ++ t.2.2.2, t.2.2.1)) ++
  (T.delta.filter fun t => t.1 = c.2.2 ∧ t.2.1 = none).map fun t => (c.1, c.2.1 ++ t.2.2.2, t.2.2.1)

theorem mem_tnext (T : FST σ) (c c' : Cfg σ) :
    c' ∈ tnext T c ↔
      (∃ a rest r o, c.1 = a :: rest ∧ (c.2.2, some a, r, o) ∈ T.delta ∧ c' = (rest, c.2.1 ++ o, r)) ∨
      (∃ r o, (c.2.2, none, r, o) ∈ T.delta ∧ c' = (c.1, c.2.1 ++ o, r)) := by
  obtain ⟨rem, gen, q⟩ := c
  unfold tnext
  simp only [List.mem_append]
  apply or_congr
  · cases rem with
    | nil => simp
    | cons a rest =>
      simp only [List.mem_map, List.mem_filter, decide_eq_true_eq, List.cons.injEq]
      constructor
      · rintro ⟨⟨q', a', r, o⟩, ⟨ht, hq, ha⟩, rfl⟩
        dsimp only at hq ha
        subst hq ha
        exact ⟨a, rest, r, o, ⟨rfl, rfl⟩, ht, rfl⟩
      · rintro ⟨a', rest', r, o, ⟨rfl, rfl⟩, ht, rfl⟩
        exact ⟨_, ⟨ht, rfl, rfl⟩, rfl⟩
  · simp only [List.mem_map, List.mem_filter, decide_eq_true_eq]
    constructor
    · rintro ⟨⟨q', a', r, o⟩, ⟨ht, hq, ha⟩, rfl⟩
      dsimp only at hq ha
      subst hq ha
      exact ⟨r, o, ht, rfl⟩
    · rintro ⟨r, o, ht, rfl⟩
      exact ⟨_, ⟨ht, rfl, rfl⟩, rfl⟩

theorem translateLoop_succ (T : FST σ) (fuel : Nat) (c : Cfg σ) (stack seen : List (Cfg σ))
    (out : List (List String)) :
    translateLoop T none (fuel + 1) (c :: stack) seen out =
      if c ∈ seen then translateLoop T none fuel stack seen out else
        translateLoop T none fuel ((tnext T c).reverse ++ stack) (c :: seen)
          (if c.1 = [] ∧ c.2.2 ∈ T.finals then c.2.1 :: out else out) := by
  obtain ⟨rem, gen, q⟩ := c
  cases rem <;> simp [translateLoop, tnext]

/-- `out` lists exactly the outputs of the accepting configurations seen so far -/
def OutInv (T : FST σ) (seen : List (Cfg σ)) (out : List (List String)) : Prop :=
  ∀ o, o ∈ out ↔ ∃ c ∈ seen, c.1 = [] ∧ c.2.2 ∈ T.finals ∧ c.2.1 = o

theorem translateLoop_inv (T : FST σ) (P : Cfg σ → Prop)
    (hP : ∀ c c', P c → c' ∈ tnext T c → P c') :
    ∀ (fuel : Nat) (stack seen : List (Cfg σ)) (out outs : List (List String)),
      translateLoop T none fuel stack seen out = some outs →
      OutInv T seen out →
      (∀ c ∈ seen, ∀ c' ∈ tnext T c, c' ∈ seen ∨ c' ∈ stack) →
      (∀ c ∈ seen, P c) → (∀ c ∈ stack, P c) →
      ∃ seen', (∀ c ∈ stack, c ∈ seen') ∧ (∀ c ∈ seen, c ∈ seen') ∧
        (∀ c ∈ seen', ∀ c' ∈ tnext T c, c' ∈ seen') ∧ (∀ c ∈ seen', P c) ∧ OutInv T seen' outs := by
  intro fuel
  induction fuel with
  | zero =>
    intro stack seen out outs h ho hc hps hpt
    cases stack with
    | nil =>
      simp only [translateLoop, Option.some.injEq] at h
      subst h
      refine ⟨seen, by simp, fun _ h => h, ?_, hps, ?_⟩
      · intro c hcs c' hc'
        simpa using hc c hcs c' hc'
      · intro o; rw [List.mem_reverse]; exact ho o
    | cons c stack => simp [translateLoop] at h
  | succ n ih =>
    intro stack seen out outs h ho hc hps hpt
    cases stack with
    | nil =>
      simp only [translateLoop, Option.some.injEq] at h
      subst h
      refine ⟨seen, by simp, fun _ h => h, ?_, hps, ?_⟩
      · intro c hcs c' hc'
        simpa using hc c hcs c' hc'
      · intro o; rw [List.mem_reverse]; exact ho o
    | cons c stack =>
      rw [translateLoop_succ] at h
      split at h
      · rename_i hcs
        obtain ⟨seen', h1, h2, h3, h4, h5⟩ := ih stack seen out outs h ho (by
          intro d hd d' hd'
          rcases hc d hd d' hd' with h' | h'
          · exact Or.inl h'
          · rcases List.mem_cons.mp h' with rfl | h'
            · exact Or.inl hcs
            · exact Or.inr h') hps (fun d hd => hpt d (List.mem_cons_of_mem _ hd))
        refine ⟨seen', ?_, h2, h3, h4, h5⟩
        intro d hd
        rcases List.mem_cons.mp hd with rfl | hd
        · exact h2 _ hcs
        · exact h1 d hd
      · rename_i hcs
        have hpc : P c := hpt c List.mem_cons_self
        obtain ⟨seen', h1, h2, h3, h4, h5⟩ := ih _ _ _ outs h (by
          intro o
          split
          · rename_i hfin
            simp only [List.mem_cons]
            rw [ho o]
            constructor
            · rintro (rfl | ⟨d, hd, hd'⟩)
              · exact ⟨c, Or.inl rfl, hfin.1, hfin.2, rfl⟩
              · exact ⟨d, Or.inr hd, hd'⟩
            · rintro ⟨d, rfl | hd, hd'⟩
              · exact Or.inl hd'.2.2.symm
              · exact Or.inr ⟨d, hd, hd'⟩
          · rename_i hfin
            rw [ho o]
            simp only [List.mem_cons]
            constructor
            · rintro ⟨d, hd, hd'⟩; exact ⟨d, Or.inr hd, hd'⟩
            · rintro ⟨d, rfl | hd, hd'⟩
              · exact absurd ⟨hd'.1, hd'.2.1⟩ hfin
              · exact ⟨d, hd, hd'⟩) (by
          intro d hd d' hd'
          simp only [List.mem_cons, List.mem_append, List.mem_reverse]
          rcases List.mem_cons.mp hd with rfl | hd
          · exact Or.inr (Or.inl hd')
          · rcases hc d hd d' hd' with h' | h'
            · exact Or.inl (Or.inr h')
            · rcases List.mem_cons.mp h' with rfl | h'
              · exact Or.inl (Or.inl rfl)
              · exact Or.inr (Or.inr h')) (by
          intro d hd
          rcases List.mem_cons.mp hd with rfl | hd
          · exact hpc
          · exact hps d hd) (by
          intro d hd
          simp only [List.mem_append, List.mem_reverse] at hd
          rcases hd with hd | hd
          · exact hP c d hpc hd
          · exact hpt d (List.mem_cons_of_mem _ hd))
        refine ⟨seen', ?_, fun d hd => h2 d (List.mem_cons_of_mem _ hd), h3, h4, h5⟩
        intro d hd
        rcases List.mem_cons.mp hd with rfl | hd
        · exact h2 _ List.mem_cons_self
        · exact h1 d (List.mem_append_right _ hd)

theorem closed_path (T : FST σ) (S : List (Cfg σ)) (hS : ∀ c ∈ S, ∀ c' ∈ tnext T c, c' ∈ S)
    {q r : σ} {i o : List String} (h : T.Path q i o r) :
    ∀ rem gen, (i ++ rem, gen, q) ∈ S → (rem, gen ++ o, r) ∈ S := by
  induction h with
  | nil q => intro rem gen h; simpa using h
  | @eps q r s i o o' he _ ih =>
    intro rem gen h
    rw [← List.append_assoc]
    exact ih rem _ (hS _ h _ ((mem_tnext T _ _).mpr (Or.inr ⟨r, o, he, rfl⟩)))
  | @read q r s a i o o' he _ ih =>
    intro rem gen h
    rw [← List.append_assoc]
    exact ih rem _ (hS _ h _ ((mem_tnext T _ _).mpr (Or.inl ⟨a, i ++ rem, r, o, rfl, he, rfl⟩)))

theorem translate_exact (T : FST σ) (w : List String) (fuel : Nat) (outs : List (List String))
    (h : T.translate w none fuel = some outs) (o : List String) : o ∈ outs ↔ T.Rel w o := by
  unfold translate at h
  obtain ⟨seen', h1, _, h3, h4, h5⟩ := translateLoop_inv T
    (fun c => ∃ s ∈ T.starts, ∃ pre, w = pre ++ c.1 ∧ T.Path s pre c.2.1 c.2.2) (by
      rintro ⟨rem, gen, q⟩ c' ⟨s, hs, pre, hw, hp⟩ hc'
      rcases (mem_tnext T _ _).mp hc' with ⟨a, rest, r, o, hrem, ht, rfl⟩ | ⟨r, o, ht, rfl⟩
      · dsimp only at hrem hw ht ⊢
        subst hrem
        exact ⟨s, hs, pre ++ [a], by simp [hw], path_snoc_read hp ht⟩
      · exact ⟨s, hs, pre, hw, path_snoc_eps hp ht⟩)
    fuel _ [] [] outs h (by intro o; simp) (by simp) (by simp) (by
      intro c hc
      simp only [List.mem_map, List.mem_reverse] at hc
      obtain ⟨s, hs, rfl⟩ := hc
      exact ⟨s, hs, [], rfl, Path.nil s⟩)
  rw [h5 o]
  constructor
  · rintro ⟨⟨rem, gen, q⟩, hc, hrem, hf, rfl⟩
    obtain ⟨s, hs, pre, hw, hp⟩ := h4 _ hc
    dsimp only at hrem hw hp hf ⊢
    subst hrem
    simp only [List.append_nil] at hw
    subst hw
    exact ⟨s, hs, q, hf, hp⟩
  · rintro ⟨s, hs, f, hf, hp⟩
    have := closed_path T seen' h3 hp [] [] (by
      apply h1
      simp only [List.mem_map, List.mem_reverse, List.append_nil]
      exact ⟨s, hs, rfl⟩)
    exact ⟨_, this, rfl, hf, by simp⟩

end translate

/-! ### the renaming -/

theorem natRepr_inj {a b : Nat} (h : a.repr = b.repr) : a = b := by
  have h2 : Nat.toDigits 10 a = Nat.toDigits 10 b := by
    rw [← Nat.toList_repr, ← Nat.toList_repr, h]
  have := congrArg (fun l => Nat.ofDigitChars 10 l 0) h2
  simpa using this

theorem pigeon (f : Nat → String) (hf : ∀ a b, f a = f b → a = b) (L : List String) :
    ∃ i, i ≤ L.length ∧ f i ∉ L := by
  by_contra hcon
  have hall : ∀ i, i ≤ L.length → f i ∈ L := by
    intro i hi
    by_contra h
    exact hcon ⟨i, hi, h⟩
  have hnd : ((List.range (L.length + 1)).map f).Nodup :=
    List.Nodup.map_on (fun a _ b _ h => hf a b h) List.nodup_range
  have hsub : (List.range (L.length + 1)).map f ⊆ L := by
    intro x hx
    simp only [List.mem_map, List.mem_range] at hx
    obtain ⟨i, hi, rfl⟩ := hx
    exact hall i (by omega)
  have := (hnd.subperm hsub).length_le
  simp only [List.length_map, List.length_range] at this
  omega

/-- the renaming state is consistent: `seen` lists the names given, pairwise distinct -/
def RenInv (st : List ((String × Nat) × String) × List String) : Prop :=
  st.2 = st.1.map (·.2) ∧ st.2.Nodup

theorem renameAdd_spec (st : List ((String × Nat) × String) × List String) (s : String) (idx : Nat) :
    ∃ nw, nw ∉ st.2 ∧ renameAdd st s idx = (st.1 ++ [((s, idx), nw)], st.2 ++ [nw]) := by
  obtain ⟨ren, seen⟩ := st
  unfold renameAdd
  dsimp only
  split
  · rename_i hmem
    obtain ⟨i, hi, hn⟩ := pigeon (fun i => s ++ toString i) (by
      intro a b h
      apply natRepr_inj
      simpa using h) seen
    cases hfind : ((List.range (seen.length + 1)).map fun c => s ++ toString c).find?
        (fun n => decide (n ∉ seen)) with
    | none =>
      exfalso
      rw [List.find?_eq_none] at hfind
      have := hfind (s ++ toString i) (by
        simp only [List.mem_map, List.mem_range]; exact ⟨i, by omega, rfl⟩)
      simp only [decide_not, Bool.not_eq_eq_eq_not, Bool.not_true, decide_eq_false_iff_not,
        not_not] at this
      exact hn this
    | some nw =>
      have := List.find?_some hfind
      simp only [decide_not, Bool.not_eq_eq_eq_not, Bool.not_true, decide_eq_false_iff_not] at this
      exact ⟨nw, this, by simp⟩
  · rename_i hmem
    exact ⟨s, hmem, rfl⟩

theorem renameAdd_inv (st : List ((String × Nat) × String) × List String) (s : String) (idx : Nat)
    (h : RenInv st) : RenInv (renameAdd st s idx) ∧
      (renameAdd st s idx).1.map (·.1) = st.1.map (·.1) ++ [(s, idx)] := by
  obtain ⟨nw, hnw, he⟩ := renameAdd_spec st s idx
  rw [he]
  refine ⟨⟨?_, ?_⟩, by simp⟩
  · simp [h.1]
  · dsimp only
    rw [List.nodup_append]
    refine ⟨h.2, by simp, ?_⟩
    intro a ha b hb
    simp only [List.mem_singleton] at hb
    subst hb
    intro hab; subst hab; exact hnw ha

theorem renameAll_inv (states : List String) (idx : Nat) :
    ∀ (st : List ((String × Nat) × String) × List String), RenInv st →
      RenInv (renameAll st states idx) ∧
      (renameAll st states idx).1.map (·.1) = st.1.map (·.1) ++ states.map fun s => (s, idx) := by
  induction states with
  | nil => intro st h; exact ⟨h, by simp [renameAll]⟩
  | cons s rest ih =>
    intro st h
    obtain ⟨h1, h2⟩ := renameAdd_inv st s idx h
    obtain ⟨h3, h4⟩ := ih _ h1
    have e : renameAll st (s :: rest) idx = renameAll (renameAdd st s idx) rest idx := rfl
    rw [e]
    refine ⟨h3, ?_⟩
    rw [h4, h2]
    simp

/-- `ren` gives pairwise distinct names and knows every key in `keys` -/
def GoodRen (ren : List ((String × Nat) × String)) (keys : List (String × Nat)) : Prop :=
  (ren.map (·.2)).Nodup ∧ ∀ k ∈ keys, k ∈ ren.map (·.1)

theorem getName_spec (ren : List ((String × Nat) × String)) (s : String) (idx : Nat)
    (h : (s, idx) ∈ ren.map (·.1)) : ∃ e ∈ ren, e.1 = (s, idx) ∧ getName ren s idx = e.2 := by
  unfold getName
  cases hf : ren.find? (fun e => decide (e.1 = (s, idx))) with
  | none =>
    exfalso
    rw [List.find?_eq_none] at hf
    obtain ⟨e, he, hk⟩ := List.mem_map.mp h
    have := hf e he
    simp only [decide_eq_true_eq] at this
    exact this hk
  | some e =>
    have h1 := List.find?_some hf
    simp only [decide_eq_true_eq] at h1
    exact ⟨e, List.mem_of_find?_eq_some hf, h1, rfl⟩

theorem getName_inj {ren : List ((String × Nat) × String)} {keys : List (String × Nat)}
    (h : GoodRen ren keys) {s s' : String} {i i' : Nat} (hk : (s, i) ∈ keys) (hk' : (s', i') ∈ keys)
    (he : getName ren s i = getName ren s' i') : s = s' ∧ i = i' := by
  obtain ⟨e, hem, hek, hen⟩ := getName_spec ren s i (h.2 _ hk)
  obtain ⟨e', hem', hek', hen'⟩ := getName_spec ren s' i' (h.2 _ hk')
  have : e = e' := List.inj_on_of_nodup_map h.1 hem hem' (by rw [← hen, ← hen', he])
  subst this
  rw [hek] at hek'
  exact ⟨(Prod.mk.inj hek').1, (Prod.mk.inj hek').2⟩

theorem goodRen_two (sa sb : List String) :
    GoodRen (renameAll (renameAll ([], []) sa 0) sb 1).1
      ((sa.map fun s => (s, 0)) ++ sb.map fun s => (s, 1)) := by
  have h0 : RenInv (([], []) : List ((String × Nat) × String) × List String) := ⟨rfl, List.nodup_nil⟩
  obtain ⟨h1, h2⟩ := renameAll_inv sa 0 _ h0
  obtain ⟨h3, h4⟩ := renameAll_inv sb 1 _ h1
  refine ⟨?_, ?_⟩
  · rw [← h3.1]; exact h3.2
  · intro k hk
    rw [h4, h2]
    simpa using hk

theorem goodRen_star (sa : List String) :
    GoodRen (renameAdd (renameAll ([], []) sa 0) "star" 1).1
      ((sa.map fun s => (s, 0)) ++ [("star", 1)]) := by
  have h0 : RenInv (([], []) : List ((String × Nat) × String) × List String) := ⟨rfl, List.nodup_nil⟩
  obtain ⟨h1, h2⟩ := renameAll_inv sa 0 _ h0
  obtain ⟨h3, h4⟩ := renameAdd_inv _ "star" 1 h1
  refine ⟨?_, ?_⟩
  · rw [← h3.1]; exact h3.2
  · intro k hk
    rw [h4, h2]
    simpa using hk

theorem rename_injective (sa sb : List String) :
    let ren := (renameAll (renameAll ([], []) sa 0) sb 1).1
    ∀ p ∈ (sa.map fun s => (s, 0)) ++ sb.map fun s => (s, 1),
    ∀ q ∈ (sa.map fun s => (s, 0)) ++ sb.map fun s => (s, 1),
      getName ren p.1 p.2 = getName ren q.1 q.2 → p = q := by
  intro ren p hp q hq he
  obtain ⟨h1, h2⟩ := getName_inj (goodRen_two sa sb) (s := p.1) (i := p.2) (s' := q.1) (i' := q.2) hp hq he
  exact Prod.ext h1 h2

/-! ### embedded copies -/

section embed
variable {ρ τ : Type}

theorem path_embed {A : FST σ} {K : FST ρ} (f : σ → ρ)
    (h : ∀ q a r o, (q, a, r, o) ∈ A.delta → (f q, a, f r, o) ∈ K.delta)
    {q r : σ} {i o : List String} (hp : A.Path q i o r) : K.Path (f q) i o (f r) := by
  induction hp with
  | nil q => exact Path.nil _
  | eps he _ ih => exact Path.eps (h _ _ _ _ he) ih
  | read he _ ih => exact Path.read (h _ _ _ _ he) ih

/-- a closed copy: the edges of `K` out of `f q` (`q` in the state set `S`) are exactly the images
of the edges of `A` out of `q` -/
theorem path_unembed {A : FST σ} {K : FST ρ} (f : σ → ρ) (S : σ → Prop)
    (h : ∀ q, S q → ∀ a x o, (f q, a, x, o) ∈ K.delta → ∃ r, S r ∧ x = f r ∧ (q, a, r, o) ∈ A.delta)
    (q : σ) (hq : S q) {i o : List String} {x : ρ} (hp : K.Path (f q) i o x) :
    ∃ r, S r ∧ x = f r ∧ A.Path q i o r := by
  generalize hy : f q = y at hp
  induction hp generalizing q with
  | nil y => exact ⟨q, hq, hy.symm, Path.nil q⟩
  | eps he _ ih =>
    subst hy
    obtain ⟨r, hr, rfl, he'⟩ := h _ hq _ _ _ he
    obtain ⟨r', hr', hx, hp'⟩ := ih r hr rfl
    exact ⟨r', hr', hx, Path.eps he' hp'⟩
  | read he _ ih =>
    subst hy
    obtain ⟨r, hr, rfl, he'⟩ := h _ hq _ _ _ he
    obtain ⟨r', hr', hx, hp'⟩ := ih r hr rfl
    exact ⟨r', hr', hx, Path.read he' hp'⟩

/-- a path from the left copy to the right copy crosses exactly one bridge -/
theorem concat_split {A : FST σ} {B : FST τ} {K : FST ρ} (f : σ → ρ) (g : τ → ρ)
    (SA : σ → Prop) (SB : τ → Prop)
    (hA : ∀ q, SA q → ∀ a x o, (f q, a, x, o) ∈ K.delta →
      (∃ r, SA r ∧ x = f r ∧ (q, a, r, o) ∈ A.delta) ∨
      (∃ s, a = none ∧ o = [] ∧ q ∈ A.finals ∧ s ∈ B.starts ∧ x = g s))
    (hB : ∀ q, SB q → ∀ a x o, (g q, a, x, o) ∈ K.delta →
      ∃ r, SB r ∧ x = g r ∧ (q, a, r, o) ∈ B.delta)
    (hdis : ∀ q r, SA q → SB r → f q ≠ g r)
    (hginj : ∀ q r, SB q → SB r → g q = g r → q = r)
    (hst : ∀ s ∈ B.starts, SB s)
    {x y : ρ} {i o : List String} (hp : K.Path x i o y) :
    ∀ q r, SA q → SB r → x = f q → y = g r →
      ∃ i₁ i₂ o₁ o₂ fa sb, i = i₁ ++ i₂ ∧ o = o₁ ++ o₂ ∧ A.Path q i₁ o₁ fa ∧ fa ∈ A.finals ∧
        sb ∈ B.starts ∧ B.Path sb i₂ o₂ r := by
  induction hp with
  | nil x => intro q r hq hr h1 h2; rw [h1] at h2; exact absurd h2 (hdis q r hq hr)
  | @eps x x' y i o o' he hrest ih =>
    intro q r hq hr h1 h2
    subst h1
    rcases hA q hq _ _ _ he with ⟨q', hq', rfl, he'⟩ | ⟨s, _, rfl, hf, hs, rfl⟩
    · obtain ⟨i₁, i₂, o₁, o₂, fa, sb, hi, ho, hp1, hfa, hsb, hp2⟩ := ih q' r hq' hr rfl h2
      exact ⟨i₁, i₂, o ++ o₁, o₂, fa, sb, hi, by rw [ho, List.append_assoc], Path.eps he' hp1,
        hfa, hsb, hp2⟩
    · obtain ⟨r', hr', hx, hp'⟩ := path_unembed g SB hB s (hst s hs) hrest
      rw [h2] at hx
      have := hginj r r' hr hr' hx
      subst this
      exact ⟨[], i, [], o', q, s, rfl, rfl, Path.nil q, hf, hs, hp'⟩
  | @read x x' y a i o o' he hrest ih =>
    intro q r hq hr h1 h2
    subst h1
    rcases hA q hq _ _ _ he with ⟨q', hq', rfl, he'⟩ | ⟨s, h, _⟩
    · obtain ⟨i₁, i₂, o₁, o₂, fa, sb, hi, ho, hp1, hfa, hsb, hp2⟩ := ih q' r hq' hr rfl h2
      exact ⟨a :: i₁, i₂, o ++ o₁, o₂, fa, sb, by rw [hi]; rfl, by rw [ho, List.append_assoc],
        Path.read he' hp1, hfa, hsb, hp2⟩
    · cases h

/-- what a path of the star transducer ending in the hub spells -/
theorem star_decomp {A : FST σ} {K : FST ρ} (f : σ → ρ) (hub : ρ) (S : σ → Prop)
    (hA : ∀ q, S q → ∀ a x o, (f q, a, x, o) ∈ K.delta →
      (∃ r, S r ∧ x = f r ∧ (q, a, r, o) ∈ A.delta) ∨
      (a = none ∧ o = [] ∧ q ∈ A.finals ∧ x = hub))
    (hH : ∀ a x o, (hub, a, x, o) ∈ K.delta → ∃ s, a = none ∧ o = [] ∧ s ∈ A.starts ∧ x = f s)
    (hdis : ∀ q, S q → f q ≠ hub)
    (hst : ∀ s ∈ A.starts, S s)
    {x y : ρ} {i o : List String} (hp : K.Path x i o y) : y = hub →
      (∀ q, S q → x = f q → ∃ i₁ o₁ fa, ∃ ps : List (List String × List String),
        i = i₁ ++ (ps.map (·.1)).flatten ∧ o = o₁ ++ (ps.map (·.2)).flatten ∧
        A.Path q i₁ o₁ fa ∧ fa ∈ A.finals ∧ ∀ p ∈ ps, A.Rel p.1 p.2) ∧
      (x = hub → ∃ ps : List (List String × List String),
        i = (ps.map (·.1)).flatten ∧ o = (ps.map (·.2)).flatten ∧ ∀ p ∈ ps, A.Rel p.1 p.2) := by
  induction hp with
  | nil x =>
    intro hy
    subst hy
    refine ⟨fun q hq h => absurd h.symm (hdis q hq), fun _ => ⟨[], rfl, rfl, by simp⟩⟩
  | @eps x x' y i o o' he hrest ih =>
    intro hy
    obtain ⟨ih1, ih2⟩ := ih hy
    refine ⟨?_, ?_⟩
    · intro q hq hx
      subst hx
      rcases hA q hq _ _ _ he with ⟨q', hq', rfl, he'⟩ | ⟨_, rfl, hf, rfl⟩
      · obtain ⟨i₁, o₁, fa, ps, hi, ho, hp1, hfa, hps⟩ := ih1 q' hq' rfl
        exact ⟨i₁, o ++ o₁, fa, ps, hi, by rw [ho, List.append_assoc], Path.eps he' hp1, hfa, hps⟩
      · obtain ⟨ps, hi, ho, hps⟩ := ih2 rfl
        exact ⟨[], [], q, ps, by simpa using hi, by simpa using ho, Path.nil q, hf, hps⟩
    · intro hx
      subst hx
      obtain ⟨s, _, rfl, hs, rfl⟩ := hH _ _ _ he
      obtain ⟨i₁, o₁, fa, ps, hi, ho, hp1, hfa, hps⟩ := ih1 s (hst s hs) rfl
      refine ⟨(i₁, o₁) :: ps, by simpa using hi, by simpa using ho, ?_⟩
      intro p hp
      rcases List.mem_cons.mp hp with rfl | hp
      · exact ⟨s, hs, fa, hfa, hp1⟩
      · exact hps p hp
  | @read x x' y a i o o' he hrest ih =>
    intro hy
    obtain ⟨ih1, ih2⟩ := ih hy
    refine ⟨?_, ?_⟩
    · intro q hq hx
      subst hx
      rcases hA q hq _ _ _ he with ⟨q', hq', rfl, he'⟩ | ⟨h, _⟩
      · obtain ⟨i₁, o₁, fa, ps, hi, ho, hp1, hfa, hps⟩ := ih1 q' hq' rfl
        exact ⟨a :: i₁, o ++ o₁, fa, ps, by rw [hi]; rfl, by rw [ho, List.append_assoc],
          Path.read he' hp1, hfa, hps⟩
      · cases h
    · intro hx
      subst hx
      obtain ⟨s, h, _⟩ := hH _ _ _ he
      cases h

theorem star_of_pairs {A : FST σ} {K : FST ρ} (f : σ → ρ) (hub : ρ)
    (hA : ∀ q a r o, (q, a, r, o) ∈ A.delta → (f q, a, f r, o) ∈ K.delta)
    (hs : ∀ s ∈ A.starts, (hub, none, f s, []) ∈ K.delta)
    (hf : ∀ fa ∈ A.finals, (f fa, none, hub, []) ∈ K.delta)
    (ps : List (List String × List String)) (h : ∀ p ∈ ps, A.Rel p.1 p.2) :
    K.Path hub (ps.map (·.1)).flatten (ps.map (·.2)).flatten hub := by
  induction ps with
  | nil => exact Path.nil hub
  | cons p ps ih =>
    obtain ⟨s, hs', fa, hfa, hp⟩ := h p List.mem_cons_self
    have hrest := ih (fun x hx => h x (List.mem_cons_of_mem _ hx))
    have h1 : K.Path (f s) p.1 p.2 (f fa) := path_embed f hA hp
    have h2 : K.Path (f fa) (ps.map (·.1)).flatten ([] ++ (ps.map (·.2)).flatten) hub :=
      Path.eps (hf fa hfa) hrest
    have h3 := Path.eps (hs s hs') (path_append h1 h2)
    simpa using h3

end embed

/-! ### the concrete constructions -/

theorem mem_mapT (ren : List ((String × Nat) × String)) (idx : Nat) (T : FST String)
    (x : String) (a : Option String) (y : String) (o : List String) :
    (x, a, y, o) ∈ mapT ren idx T ↔
      ∃ q r, (q, a, r, o) ∈ T.delta ∧ x = getName ren q idx ∧ y = getName ren r idx := by
  unfold mapT
  simp only [List.mem_map, Prod.mk.injEq]
  constructor
  · rintro ⟨⟨q, a', r, o'⟩, ht, rfl, rfl, rfl, rfl⟩
    exact ⟨q, r, ht, rfl, rfl⟩
  · rintro ⟨q, r, ht, rfl, rfl⟩
    exact ⟨_, ht, rfl, rfl, rfl, rfl⟩

theorem mapT_copy {ren : List ((String × Nat) × String)} {keys : List (String × Nat)}
    (h : GoodRen ren keys) (T : FST String) (hT : T.WF) (idx : Nat)
    (hk : ∀ q ∈ T.states, (q, idx) ∈ keys) (q : String) (hq : q ∈ T.states)
    (a : Option String) (x : String) (o : List String)
    (hm : (getName ren q idx, a, x, o) ∈ mapT ren idx T) :
    ∃ r, r ∈ T.states ∧ x = getName ren r idx ∧ (q, a, r, o) ∈ T.delta := by
  obtain ⟨q', r, ht, hq', rfl⟩ := (mem_mapT ren idx T _ _ _ _).mp hm
  have hq's : q' ∈ T.states := hT.src _ ht
  obtain ⟨rfl, _⟩ := getName_inj h (hk q hq) (hk q' hq's) hq'
  exact ⟨r, hT.dst _ ht, rfl, ht⟩

theorem mapT_foreign {ren : List ((String × Nat) × String)} {keys : List (String × Nat)}
    (h : GoodRen ren keys) (T : FST String) (hT : T.WF) (idx : Nat)
    (hk : ∀ q ∈ T.states, (q, idx) ∈ keys) (s : String) (idx' : Nat) (hs : (s, idx') ∈ keys)
    (hne : idx' ≠ idx) (a : Option String) (x : String) (o : List String) :
    (getName ren s idx', a, x, o) ∉ mapT ren idx T := by
  intro hm
  obtain ⟨q', r, ht, hq', rfl⟩ := (mem_mapT ren idx T _ _ _ _).mp hm
  exact hne (getName_inj h hs (hk q' (hT.src _ ht)) hq').2

theorem mapT_embed (ren : List ((String × Nat) × String)) (idx : Nat) (T : FST String)
    (q : String) (a : Option String) (r : String) (o : List String) (h : (q, a, r, o) ∈ T.delta) :
    (getName ren q idx, a, getName ren r idx, o) ∈ mapT ren idx T :=
  (mem_mapT ren idx T _ _ _ _).mpr ⟨q, r, h, rfl, rfl⟩

/-- the renaming used by `union` and `concatenate` -/
def ren2 (A B : FST String) : List ((String × Nat) × String) :=
  (renameAll (renameAll ([], []) A.states 0) B.states 1).1

def keys2 (A B : FST String) : List (String × Nat) :=
  (A.states.map fun s => (s, 0)) ++ B.states.map fun s => (s, 1)

theorem good2 (A B : FST String) : GoodRen (ren2 A B) (keys2 A B) := goodRen_two _ _

theorem key2_left {A B : FST String} {q : String} (h : q ∈ A.states) : (q, 0) ∈ keys2 A B := by
  unfold keys2; simp [h]

theorem key2_right {A B : FST String} {q : String} (h : q ∈ B.states) : (q, 1) ∈ keys2 A B := by
  unfold keys2; simp [h]

theorem ren2_disj (A B : FST String) {q r : String} (hq : q ∈ A.states) (hr : r ∈ B.states) :
    getName (ren2 A B) q 0 ≠ getName (ren2 A B) r 1 := by
  intro h
  have := (getName_inj (good2 A B) (key2_left hq) (key2_right hr) h).2
  omega

theorem ren2_injA (A B : FST String) {q r : String} (hq : q ∈ A.states) (hr : r ∈ A.states)
    (h : getName (ren2 A B) q 0 = getName (ren2 A B) r 0) : q = r :=
  (getName_inj (good2 A B) (key2_left hq) (key2_left hr) h).1

theorem ren2_injB (A B : FST String) {q r : String} (hq : q ∈ B.states) (hr : r ∈ B.states)
    (h : getName (ren2 A B) q 1 = getName (ren2 A B) r 1) : q = r :=
  (getName_inj (good2 A B) (key2_right hq) (key2_right hr) h).1

/-! #### union -/

theorem union_delta (A B : FST String) :
    (A.union B).delta = mapT (ren2 A B) 0 A ++ mapT (ren2 A B) 1 B := rfl

theorem mem_union_starts (A B : FST String) (x : String) :
    x ∈ (A.union B).starts ↔ (∃ s ∈ A.starts, x = getName (ren2 A B) s 0) ∨
      (∃ s ∈ B.starts, x = getName (ren2 A B) s 1) := by
  show x ∈ List.eraseDups _ ↔ _
  simp only [List.mem_eraseDups, List.mem_append, List.mem_map, ren2, eq_comm]

theorem mem_union_finals (A B : FST String) (x : String) :
    x ∈ (A.union B).finals ↔ (∃ s ∈ A.finals, x = getName (ren2 A B) s 0) ∨
      (∃ s ∈ B.finals, x = getName (ren2 A B) s 1) := by
  show x ∈ List.eraseDups _ ↔ _
  simp only [List.mem_eraseDups, List.mem_append, List.mem_map, ren2, eq_comm]

theorem union_edgeA (A B : FST String) (hA : A.WF) (hB : B.WF) (q : String) (hq : q ∈ A.states)
    (a : Option String) (x : String) (o : List String)
    (h : (getName (ren2 A B) q 0, a, x, o) ∈ (A.union B).delta) :
    ∃ r, r ∈ A.states ∧ x = getName (ren2 A B) r 0 ∧ (q, a, r, o) ∈ A.delta := by
  rw [union_delta, List.mem_append] at h
  rcases h with h | h
  · exact mapT_copy (good2 A B) A hA 0 (fun _ h => key2_left h) q hq a x o h
  · exact absurd h (mapT_foreign (good2 A B) B hB 1 (fun _ h => key2_right h) q 0 (key2_left hq)
      (by omega) a x o)

theorem union_edgeB (A B : FST String) (hA : A.WF) (hB : B.WF) (q : String) (hq : q ∈ B.states)
    (a : Option String) (x : String) (o : List String)
    (h : (getName (ren2 A B) q 1, a, x, o) ∈ (A.union B).delta) :
    ∃ r, r ∈ B.states ∧ x = getName (ren2 A B) r 1 ∧ (q, a, r, o) ∈ B.delta := by
  rw [union_delta, List.mem_append] at h
  rcases h with h | h
  · exact absurd h (mapT_foreign (good2 A B) A hA 0 (fun _ h => key2_left h) q 1 (key2_right hq)
      (by omega) a x o)
  · exact mapT_copy (good2 A B) B hB 1 (fun _ h => key2_right h) q hq a x o h

theorem union_rel (A B : FST String) (hA : A.WF) (hB : B.WF) (i o : List String) :
    (A.union B).Rel i o ↔ A.Rel i o ∨ B.Rel i o := by
  constructor
  · rintro ⟨s, hs, fin, hfin, hp⟩
    rcases (mem_union_starts A B s).mp hs with ⟨sa, hsa, rfl⟩ | ⟨sb, hsb, rfl⟩
    · obtain ⟨r, hr, rfl, hp'⟩ := path_unembed (A := A) (fun q => getName (ren2 A B) q 0)
        (· ∈ A.states) (union_edgeA A B hA hB) sa (hA.starts_sub _ hsa) hp
      rcases (mem_union_finals A B _).mp hfin with ⟨fa, hfa, he⟩ | ⟨fb, hfb, he⟩
      · have := ren2_injA A B hr (hA.finals_sub _ hfa) he
        subst this
        exact Or.inl ⟨sa, hsa, r, hfa, hp'⟩
      · exact absurd he (ren2_disj A B hr (hB.finals_sub _ hfb))
    · obtain ⟨r, hr, rfl, hp'⟩ := path_unembed (A := B) (fun q => getName (ren2 A B) q 1)
        (· ∈ B.states) (union_edgeB A B hA hB) sb (hB.starts_sub _ hsb) hp
      rcases (mem_union_finals A B _).mp hfin with ⟨fa, hfa, he⟩ | ⟨fb, hfb, he⟩
      · exact absurd he.symm (ren2_disj A B (hA.finals_sub _ hfa) hr)
      · have := ren2_injB A B hr (hB.finals_sub _ hfb) he
        subst this
        exact Or.inr ⟨sb, hsb, r, hfb, hp'⟩
  · rintro (⟨s, hs, fin, hfin, hp⟩ | ⟨s, hs, fin, hfin, hp⟩)
    · refine ⟨_, (mem_union_starts A B _).mpr (Or.inl ⟨s, hs, rfl⟩), _,
        (mem_union_finals A B _).mpr (Or.inl ⟨fin, hfin, rfl⟩),
        path_embed (fun q => getName (ren2 A B) q 0) ?_ hp⟩
      intro q a r o he
      rw [union_delta]
      exact List.mem_append_left _ (mapT_embed _ 0 A q a r o he)
    · refine ⟨_, (mem_union_starts A B _).mpr (Or.inr ⟨s, hs, rfl⟩), _,
        (mem_union_finals A B _).mpr (Or.inr ⟨fin, hfin, rfl⟩),
        path_embed (fun q => getName (ren2 A B) q 1) ?_ hp⟩
      intro q a r o he
      rw [union_delta]
      exact List.mem_append_right _ (mapT_embed _ 1 B q a r o he)

/-! #### concatenation -/

theorem mem_concat_delta (A B : FST String) (x : String) (a : Option String) (y : String)
    (o : List String) :
    (x, a, y, o) ∈ (A.concatenate B).delta ↔
      (x, a, y, o) ∈ mapT (ren2 A B) 0 A ∨ (x, a, y, o) ∈ mapT (ren2 A B) 1 B ∨
      ∃ fa ∈ A.finals, ∃ sb ∈ B.starts, x = getName (ren2 A B) fa 0 ∧ a = none ∧
        y = getName (ren2 A B) sb 1 ∧ o = [] := by
  show (x, a, y, o) ∈ mapT (ren2 A B) 0 A ++ mapT (ren2 A B) 1 B ++ _ ↔ _
  simp only [List.mem_append, List.mem_flatMap, List.mem_map, Prod.mk.injEq, or_assoc, ren2]
  apply or_congr Iff.rfl
  apply or_congr Iff.rfl
  constructor
  · rintro ⟨fa, hfa, sb, hsb, rfl, rfl, rfl, rfl⟩
    exact ⟨fa, hfa, sb, hsb, rfl, rfl, rfl, rfl⟩
  · rintro ⟨fa, hfa, sb, hsb, rfl, rfl, rfl, rfl⟩
    exact ⟨fa, hfa, sb, hsb, rfl, rfl, rfl, rfl⟩

theorem mem_concat_starts (A B : FST String) (x : String) :
    x ∈ (A.concatenate B).starts ↔ ∃ s ∈ A.starts, x = getName (ren2 A B) s 0 := by
  show x ∈ List.eraseDups _ ↔ _
  simp only [List.mem_eraseDups, List.mem_map, ren2, eq_comm]

theorem mem_concat_finals (A B : FST String) (x : String) :
    x ∈ (A.concatenate B).finals ↔ ∃ s ∈ B.finals, x = getName (ren2 A B) s 1 := by
  show x ∈ List.eraseDups _ ↔ _
  simp only [List.mem_eraseDups, List.mem_map, ren2, eq_comm]

theorem concat_edgeA (A B : FST String) (hA : A.WF) (hB : B.WF) (q : String) (hq : q ∈ A.states)
    (a : Option String) (x : String) (o : List String)
    (h : (getName (ren2 A B) q 0, a, x, o) ∈ (A.concatenate B).delta) :
    (∃ r, r ∈ A.states ∧ x = getName (ren2 A B) r 0 ∧ (q, a, r, o) ∈ A.delta) ∨
    (∃ s, a = none ∧ o = [] ∧ q ∈ A.finals ∧ s ∈ B.starts ∧ x = getName (ren2 A B) s 1) := by
  rcases (mem_concat_delta A B _ _ _ _).mp h with h | h | ⟨fa, hfa, sb, hsb, he, rfl, rfl, rfl⟩
  · exact Or.inl (mapT_copy (good2 A B) A hA 0 (fun _ h => key2_left h) q hq a x o h)
  · exact absurd h (mapT_foreign (good2 A B) B hB 1 (fun _ h => key2_right h) q 0 (key2_left hq)
      (by omega) a x o)
  · have := ren2_injA A B hq (hA.finals_sub _ hfa) he
    subst this
    exact Or.inr ⟨sb, rfl, rfl, hfa, hsb, rfl⟩

theorem concat_edgeB (A B : FST String) (hA : A.WF) (hB : B.WF) (q : String) (hq : q ∈ B.states)
    (a : Option String) (x : String) (o : List String)
    (h : (getName (ren2 A B) q 1, a, x, o) ∈ (A.concatenate B).delta) :
    ∃ r, r ∈ B.states ∧ x = getName (ren2 A B) r 1 ∧ (q, a, r, o) ∈ B.delta := by
  rcases (mem_concat_delta A B _ _ _ _).mp h with h | h | ⟨fa, hfa, sb, hsb, he, rfl, rfl, rfl⟩
  · exact absurd h (mapT_foreign (good2 A B) A hA 0 (fun _ h => key2_left h) q 1 (key2_right hq)
      (by omega) a x o)
  · exact mapT_copy (good2 A B) B hB 1 (fun _ h => key2_right h) q hq a x o h
  · exact absurd he.symm (ren2_disj A B (hA.finals_sub _ hfa) hq)

theorem concatenate_rel (A B : FST String) (hA : A.WF) (hB : B.WF) (i o : List String) :
    (A.concatenate B).Rel i o ↔
      ∃ i₁ i₂ o₁ o₂, i = i₁ ++ i₂ ∧ o = o₁ ++ o₂ ∧ A.Rel i₁ o₁ ∧ B.Rel i₂ o₂ := by
  constructor
  · rintro ⟨s, hs, fin, hfin, hp⟩
    obtain ⟨sa, hsa, rfl⟩ := (mem_concat_starts A B s).mp hs
    obtain ⟨fb, hfb, rfl⟩ := (mem_concat_finals A B fin).mp hfin
    obtain ⟨i₁, i₂, o₁, o₂, fa, sb, hi, ho, hp1, hfa, hsb, hp2⟩ :=
      concat_split (A := A) (B := B) (fun q => getName (ren2 A B) q 0)
        (fun q => getName (ren2 A B) q 1) (· ∈ A.states) (· ∈ B.states)
        (concat_edgeA A B hA hB) (concat_edgeB A B hA hB)
        (fun q r hq hr => ren2_disj A B hq hr) (fun q r hq hr => ren2_injB A B hq hr)
        hB.starts_sub hp sa fb (hA.starts_sub _ hsa) (hB.finals_sub _ hfb) rfl rfl
    exact ⟨i₁, i₂, o₁, o₂, hi, ho, ⟨sa, hsa, fa, hfa, hp1⟩, ⟨sb, hsb, fb, hfb, hp2⟩⟩
  · rintro ⟨i₁, i₂, o₁, o₂, rfl, rfl, ⟨sa, hsa, fa, hfa, hp1⟩, ⟨sb, hsb, fb, hfb, hp2⟩⟩
    refine ⟨_, (mem_concat_starts A B _).mpr ⟨sa, hsa, rfl⟩, _,
      (mem_concat_finals A B _).mpr ⟨fb, hfb, rfl⟩, ?_⟩
    have h1 : (A.concatenate B).Path (getName (ren2 A B) sa 0) i₁ o₁ (getName (ren2 A B) fa 0) :=
      path_embed (fun q => getName (ren2 A B) q 0) (fun q a r o he =>
        (mem_concat_delta A B _ _ _ _).mpr (Or.inl (mapT_embed _ 0 A q a r o he))) hp1
    have h2 : (A.concatenate B).Path (getName (ren2 A B) sb 1) i₂ o₂ (getName (ren2 A B) fb 1) :=
      path_embed (fun q => getName (ren2 A B) q 1) (fun q a r o he =>
        (mem_concat_delta A B _ _ _ _).mpr (Or.inr (Or.inl (mapT_embed _ 1 B q a r o he)))) hp2
    have h3 : (A.concatenate B).Path (getName (ren2 A B) fa 0) i₂ ([] ++ o₂)
        (getName (ren2 A B) fb 1) :=
      Path.eps ((mem_concat_delta A B _ _ _ _).mpr
        (Or.inr (Or.inr ⟨fa, hfa, sb, hsb, rfl, rfl, rfl, rfl⟩))) h2
    exact path_append h1 h3

/-! #### Kleene star -/

def renS (A : FST String) : List ((String × Nat) × String) :=
  (renameAdd (renameAll ([], []) A.states 0) "star" 1).1

def keysS (A : FST String) : List (String × Nat) :=
  (A.states.map fun s => (s, 0)) ++ [("star", 1)]

def starName (A : FST String) : String := getName (renS A) "star" 1

theorem goodS (A : FST String) : GoodRen (renS A) (keysS A) := goodRen_star _

theorem keyS_left {A : FST String} {q : String} (h : q ∈ A.states) : (q, 0) ∈ keysS A := by
  unfold keysS; simp [h]

theorem keyS_star (A : FST String) : ("star", 1) ∈ keysS A := by
  unfold keysS; simp

theorem renS_disj (A : FST String) {q : String} (hq : q ∈ A.states) :
    getName (renS A) q 0 ≠ starName A := by
  intro h
  have := (getName_inj (goodS A) (keyS_left hq) (keyS_star A) h).2
  omega

theorem renS_inj (A : FST String) {q r : String} (hq : q ∈ A.states) (hr : r ∈ A.states)
    (h : getName (renS A) q 0 = getName (renS A) r 0) : q = r :=
  (getName_inj (goodS A) (keyS_left hq) (keyS_left hr) h).1

theorem mem_star_delta (A : FST String) (x : String) (a : Option String) (y : String)
    (o : List String) :
    (x, a, y, o) ∈ A.kleeneStar.delta ↔
      (x, a, y, o) ∈ mapT (renS A) 0 A ∨
      (∃ s ∈ A.starts, x = starName A ∧ a = none ∧ y = getName (renS A) s 0 ∧ o = []) ∨
      (∃ fa ∈ A.finals, x = getName (renS A) fa 0 ∧ a = none ∧ y = starName A ∧ o = []) := by
  show (x, a, y, o) ∈ mapT (renS A) 0 A ++ _ ++ _ ↔ _
  simp only [List.mem_append, List.mem_map, Prod.mk.injEq, or_assoc, renS, starName]
  apply or_congr Iff.rfl
  apply or_congr
  · constructor
    · rintro ⟨s, hs, rfl, rfl, rfl, rfl⟩
      exact ⟨s, hs, rfl, rfl, rfl, rfl⟩
    · rintro ⟨s, hs, rfl, rfl, rfl, rfl⟩
      exact ⟨s, hs, rfl, rfl, rfl, rfl⟩
  · constructor
    · rintro ⟨s, hs, rfl, rfl, rfl, rfl⟩
      exact ⟨s, hs, rfl, rfl, rfl, rfl⟩
    · rintro ⟨s, hs, rfl, rfl, rfl, rfl⟩
      exact ⟨s, hs, rfl, rfl, rfl, rfl⟩

theorem mem_star_starts (A : FST String) (x : String) :
    x ∈ A.kleeneStar.starts ↔ x = starName A := by
  show x ∈ List.eraseDups _ ↔ _
  simp only [List.mem_eraseDups, List.mem_singleton, renS, starName]

theorem mem_star_finals (A : FST String) (x : String) :
    x ∈ A.kleeneStar.finals ↔ x = starName A := by
  show x ∈ List.eraseDups _ ↔ _
  simp only [List.mem_eraseDups, List.mem_singleton, renS, starName]

theorem star_edgeA (A : FST String) (hA : A.WF) (q : String) (hq : q ∈ A.states)
    (a : Option String) (x : String) (o : List String)
    (h : (getName (renS A) q 0, a, x, o) ∈ A.kleeneStar.delta) :
    (∃ r, r ∈ A.states ∧ x = getName (renS A) r 0 ∧ (q, a, r, o) ∈ A.delta) ∨
    (a = none ∧ o = [] ∧ q ∈ A.finals ∧ x = starName A) := by
  rcases (mem_star_delta A _ _ _ _).mp h with h | ⟨s, hs, he, _⟩ | ⟨fa, hfa, he, rfl, rfl, rfl⟩
  · exact Or.inl (mapT_copy (goodS A) A hA 0 (fun _ h => keyS_left h) q hq a x o h)
  · exact absurd he (renS_disj A hq)
  · have := renS_inj A hq (hA.finals_sub _ hfa) he
    subst this
    exact Or.inr ⟨rfl, rfl, hfa, rfl⟩

theorem star_edgeH (A : FST String) (hA : A.WF)
    (a : Option String) (x : String) (o : List String)
    (h : (starName A, a, x, o) ∈ A.kleeneStar.delta) :
    ∃ s, a = none ∧ o = [] ∧ s ∈ A.starts ∧ x = getName (renS A) s 0 := by
  rcases (mem_star_delta A _ _ _ _).mp h with h | ⟨s, hs, _, rfl, rfl, rfl⟩ | ⟨fa, hfa, he, _⟩
  · exact absurd h (mapT_foreign (goodS A) A hA 0 (fun _ h => keyS_left h) "star" 1 (keyS_star A)
      (by omega) a x o)
  · exact ⟨s, rfl, rfl, hs, rfl⟩
  · exact absurd he.symm (renS_disj A (hA.finals_sub _ hfa))

theorem kleeneStar_rel (A : FST String) (hA : A.WF) (i o : List String) :
    A.kleeneStar.Rel i o ↔
      ∃ ps : List (List String × List String),
        i = (ps.map (·.1)).flatten ∧ o = (ps.map (·.2)).flatten ∧ ∀ p ∈ ps, A.Rel p.1 p.2 := by
  constructor
  · rintro ⟨s, hs, fin, hfin, hp⟩
    rw [mem_star_starts] at hs
    rw [mem_star_finals] at hfin
    subst hs
    exact (star_decomp (A := A) (fun q => getName (renS A) q 0) (starName A) (· ∈ A.states)
      (star_edgeA A hA) (star_edgeH A hA) (fun q hq => renS_disj A hq) hA.starts_sub hp hfin).2 rfl
  · rintro ⟨ps, rfl, rfl, hps⟩
    refine ⟨starName A, (mem_star_starts A _).mpr rfl, starName A, (mem_star_finals A _).mpr rfl,
      star_of_pairs (A := A) (fun q => getName (renS A) q 0) (starName A) ?_ ?_ ?_ ps hps⟩
    · intro q a r o he
      exact (mem_star_delta A _ _ _ _).mpr (Or.inl (mapT_embed _ 0 A q a r o he))
    · intro s hs
      exact (mem_star_delta A _ _ _ _).mpr (Or.inr (Or.inl ⟨s, hs, rfl, rfl, rfl, rfl⟩))
    · intro fa hfa
      exact (mem_star_delta A _ _ _ _).mpr (Or.inr (Or.inr ⟨fa, hfa, rfl, rfl, rfl, rfl⟩))

end Lem
end FST
end Pfl
