/-
Concrete syntax trees for pattern texts, their translation to reader expressions (`E`), and the
language of the tree the reader builds.
-/
import Pfl.Proofs.E2EReader
import Pfl.Proofs.E2EPasses
import Pfl.Proofs.RegexLemmas
import Pfl.Model.PyRender
namespace Pfl.PyRx.E2E
open Pfl.RegexReader Pfl.RegexReader.Lem Pfl.Rx Pfl.Rx.Lem

/-! ### letters and digits -/

theorem alnum_range (c : Char) (h : c.isAlphanum = true) :
    (65 ≤ c.toNat ∧ c.toNat ≤ 90) ∨ (97 ≤ c.toNat ∧ c.toNat ≤ 122) ∨ (48 ≤ c.toNat ∧ c.toNat ≤ 57) := by
  simp only [Char.isAlphanum, Char.isAlpha, Char.isUpper, Char.isLower, Char.isDigit,
    Bool.or_eq_true, Bool.and_eq_true, decide_eq_true_eq, UInt32.le_iff_toNat_le] at h
  have : c.val.toNat = c.toNat := rfl
  simp only [this] at h
  have e1 : 'A'.val.toNat = 65 := rfl
  have e2 : 'Z'.val.toNat = 90 := rfl
  have e3 : 'a'.val.toNat = 97 := rfl
  have e4 : 'z'.val.toNat = 122 := rfl
  have e5 : '0'.val.toNat = 48 := rfl
  have e6 : '9'.val.toNat = 57 := rfl
  rw [e1, e2, e3, e4, e5, e6] at h
  omega

theorem alnum_ne (c d : Char) (h : c.isAlphanum = true) (hd : d.isAlphanum = false) : c ≠ d := by
  rintro rfl; rw [h] at hd; exact absurd hd (by simp)

/-! ### language equivalence of trees -/

def Eqv (a b : Rx) : Prop := ∀ w, Denote a w ↔ Denote b w

theorem Eqv.rfl' {a : Rx} : Eqv a a := fun _ => Iff.rfl
theorem Eqv.symm {a b : Rx} (h : Eqv a b) : Eqv b a := fun w => (h w).symm
theorem Eqv.trans {a b c : Rx} (h : Eqv a b) (h' : Eqv b c) : Eqv a c := fun w => (h w).trans (h' w)

theorem Eqv.cat {a a' b b' : Rx} (h : Eqv a a') (h' : Eqv b b') : Eqv (.cat a b) (.cat a' b') := by
  intro w
  simp only [cat_denote]
  constructor <;> rintro ⟨u, v, rfl, h1, h2⟩
  · exact ⟨u, v, rfl, (h u).mp h1, (h' v).mp h2⟩
  · exact ⟨u, v, rfl, (h u).mpr h1, (h' v).mpr h2⟩

theorem Eqv.alt {a a' b b' : Rx} (h : Eqv a a') (h' : Eqv b b') : Eqv (.alt a b) (.alt a' b') := by
  intro w
  simp only [alt_denote, h w, h' w]

theorem Eqv.star {a a' : Rx} (h : Eqv a a') : Eqv (.star a) (.star a') := by
  intro w
  simp only [star_denote]
  constructor <;> rintro ⟨ws, rfl, hws⟩
  · exact ⟨ws, rfl, fun x hx => (h x).mp (hws x hx)⟩
  · exact ⟨ws, rfl, fun x hx => (h x).mpr (hws x hx)⟩

theorem Eqv.cat_assoc (a b c : Rx) : Eqv (.cat (.cat a b) c) (.cat a (.cat b c)) := by
  intro w
  simp only [cat_denote]
  constructor
  · rintro ⟨u, v, rfl, ⟨u1, u2, rfl, h1, h2⟩, h3⟩
    exact ⟨u1, u2 ++ v, by simp, h1, u2, v, rfl, h2, h3⟩
  · rintro ⟨u, v, rfl, h1, v1, v2, rfl, h2, h3⟩
    exact ⟨u ++ v1, v2, by simp, ⟨u, v1, rfl, h1, h2⟩, h3⟩

theorem Eqv.alt_assoc (a b c : Rx) : Eqv (.alt (.alt a b) c) (.alt a (.alt b c)) := by
  intro w
  simp only [alt_denote, or_assoc]

/-! ### concrete syntax -/

inductive C where
  | ch (c : Char)
  | grp (x : C)
  | seq (a b : C)
  | bar (a b : C)
  | star (a : C)
  | plus (a : C)
  | opt (a : C)
  | rep (a : C) (m n : Nat)

namespace C

def braces (m n : Nat) : List Char :=
  if m = n then ['{'] ++ natText m ++ ['}'] else ['{'] ++ natText m ++ [','] ++ natText n ++ ['}']

def text : C → List Char
  | ch c => [c]
  | grp x => '(' :: text x ++ [')']
  | seq a b => text a ++ text b
  | bar a b => text a ++ '|' :: text b
  | star a => text a ++ ['*']
  | plus a => text a ++ ['+']
  | opt a => text a ++ ['?']
  | rep a m n => text a ++ braces m n

def cl : C → Nat
  | seq _ _ => 1
  | bar _ _ => 2
  | _ => 0

/-- a character that is a symbol token of the reader: plain, or `$` -/
def LeafCh (c : Char) : Prop := (c ≠ ' ' ∧ c ≠ '\\' ∧ isSpecialChar c = false) ∨ c = '$'

/-- the core forms (what the passes leave) -/
def Core : C → Prop
  | ch c => LeafCh c
  | grp x => Core x
  | seq a b => Core a ∧ Core b ∧ cl a ≤ 1 ∧ cl b ≤ 1
  | bar a b => Core a ∧ Core b
  | star a => Core a ∧ cl a = 0
  | _ => False

/-- the meaning of a core form -/
def rx : C → Rx
  | ch c => if c = '$' then .eps else PyRx.sym c
  | grp x => rx x
  | seq a b => .cat (rx a) (rx b)
  | bar a b => .alt (rx a) (rx b)
  | star a => .star (rx a)
  | plus a => .cat (rx a) (.star (rx a))
  | opt a => .alt (rx a) .eps
  | rep a m n => .cat (copies (rx a) m) (optCopies (rx a) (n - m))

end C

open C E

def app : E → E → E
  | .cat x y, b => .cat x (app y b)
  | .tok x, b => .cat (.tok x) b
  | .par x, b => .cat (.par x) b
  | .star x, b => .cat (.star x) b
  | .alt x y, b => .cat (.alt x y) b

def uni : E → E → E
  | .alt x y, b => .alt x (uni y b)
  | .tok x, b => .alt (.tok x) b
  | .par x, b => .alt (.par x) b
  | .star x, b => .alt (.star x) b
  | .cat x y, b => .alt (.cat x y) b

def toE : C → E
  | .ch c => .tok [c]
  | .grp x => .par (toE x)
  | .seq a b => app (toE a) (toE b)
  | .bar a b => uni (toE a) (toE b)
  | .star a => .star (toE a)
  | _ => .tok []

def A1 (x : List Char) : Prop := IsSp x ∨ (IsPl x ∧ x ≠ "epsilon".toList)

theorem A1.atm {x : List Char} (h : A1 x) : Atm x := h.elim Or.inl (fun h => Or.inr h.1)

theorem toks_A1 : Toks A1 where
  re := fun l h hl => components_joinBlank l h (fun a ha => (hl a ha).atm)
  op := Or.inl ⟨_, rfl, by decide⟩
  cl := Or.inl ⟨_, rfl, by decide⟩
  st := Or.inl ⟨_, rfl, by decide⟩
  bar := Or.inl ⟨_, rfl, by decide⟩

theorem app_flat (a b : E) : flat (app a b) = flat a ++ flat b := by
  induction a with
  | cat x y _ ihy => simp [app, flat, ihy]
  | _ => simp [app, flat]

theorem uni_flat (a b : E) : flat (uni a b) = flat a ++ ['|'] :: flat b := by
  induction a with
  | alt x y _ ihy => simp [uni, flat, ihy]
  | _ => simp [uni, flat]

theorem app_lvl (a b : E) : lvl (app a b) = 1 := by cases a <;> rfl
theorem uni_lvl (a b : E) : lvl (uni a b) = 2 := by cases a <;> rfl

theorem app_wf {A : List Char → Prop} (a b : E) (ha : WF A a) (hb : WF A b) (la : lvl a ≤ 1)
    (lb : lvl b ≤ 1) : WF A (app a b) := by
  induction a with
  | cat x y _ ihy =>
    exact ⟨ha.1, ihy ha.2.1 ha.2.2.2, ha.2.2.1, by rw [app_lvl]; omega⟩
  | alt x y _ _ => simp [lvl] at la
  | tok x => exact ⟨ha, hb, rfl, lb⟩
  | par x _ => exact ⟨ha, hb, rfl, lb⟩
  | star x _ => exact ⟨ha, hb, rfl, lb⟩

theorem uni_wf {A : List Char → Prop} (a b : E) (ha : WF A a) (hb : WF A b) : WF A (uni a b) := by
  induction a with
  | alt x y _ ihy => exact ⟨ha.1, ihy ha.2.1, ha.2.2⟩
  | cat x y _ _ => exact ⟨ha, hb, by simp [lvl]⟩
  | tok x => exact ⟨ha, hb, by simp [lvl]⟩
  | par x _ => exact ⟨ha, hb, by simp [lvl]⟩
  | star x _ => exact ⟨ha, hb, by simp [lvl]⟩

theorem app_tree (a b : E) : Eqv (tree (app a b)) (.cat (tree a) (tree b)) := by
  induction a with
  | cat x y _ ihy =>
    exact (Eqv.cat Eqv.rfl' ihy).trans (Eqv.cat_assoc _ _ _).symm
  | _ => exact Eqv.rfl'

theorem uni_tree (a b : E) : Eqv (tree (uni a b)) (.alt (tree a) (tree b)) := by
  induction a with
  | alt x y _ ihy =>
    exact (Eqv.alt Eqv.rfl' ihy).trans (Eqv.alt_assoc _ _ _).symm
  | _ => exact Eqv.rfl'

theorem toE_lvl (x : C) (h : Core x) : lvl (toE x) = cl x := by
  cases x with
  | seq a b => exact app_lvl _ _
  | bar a b => exact uni_lvl _ _
  | _ => first | rfl | exact absurd h (by simp [Core])

theorem leafCh_tok (c : Char) (h : LeafCh c) : A1 [c] ∧ IsLeaf [c] ∧
    leaf [c] = (if c = '$' then .eps else PyRx.sym c) := by
  rcases h with ⟨h1, h2, h3⟩ | rfl
  · have hpl : IsPl [c] := ⟨by simp, by intro d hd; simp at hd; subst hd; exact ⟨h1, h2, h3⟩⟩
    have hne : [c] ≠ "epsilon".toList := by
      intro e; have := congrArg List.length e; simp at this
    have hn := toNode_pl hpl hne
    have hd : c ≠ '$' := by rintro rfl; simp [isSpecialChar] at h3
    refine ⟨Or.inr ⟨hpl, hne⟩, ⟨hpl.ne_sp (by decide), hpl.ne_sp (by decide), Or.inl ⟨_, hn⟩⟩, ?_⟩
    rw [leaf, hn, if_neg hd, PyRx.sym, String.singleton_eq_ofList]
  · exact ⟨Or.inl ⟨_, rfl, by decide⟩, ⟨by decide, by decide, Or.inr (by decide)⟩, by
      simp [leaf, toNode]⟩

theorem toE_wf : ∀ x, Core x → WF A1 (toE x)
  | .ch c, h => ⟨(leafCh_tok c h).1, (leafCh_tok c h).2.1⟩
  | .grp x, h => toE_wf x h
  | .seq a b, h => app_wf _ _ (toE_wf a h.1) (toE_wf b h.2.1) (by rw [toE_lvl a h.1]; exact h.2.2.1)
      (by rw [toE_lvl b h.2.1]; exact h.2.2.2)
  | .bar a b, h => uni_wf _ _ (toE_wf a h.1) (toE_wf b h.2)
  | .star a, h => ⟨toE_wf a h.1, by rw [toE_lvl a h.1]; exact h.2⟩

theorem toE_flat : ∀ x, Core x → flat (toE x) = PyPass.sing (text x)
  | .ch c, _ => rfl
  | .grp x, h => by simp [toE, flat, text, PyPass.sing, toE_flat x h]
  | .seq a b, h => by simp [toE, app_flat, text, PyPass.sing, toE_flat a h.1, toE_flat b h.2.1]
  | .bar a b, h => by simp [toE, uni_flat, text, PyPass.sing, toE_flat a h.1, toE_flat b h.2]
  | .star a, h => by simp [toE, flat, text, PyPass.sing, toE_flat a h.1]

theorem toE_tree : ∀ x, Core x → Eqv (tree (toE x)) (rx x)
  | .ch c, h => by
    intro w; simp only [toE, tree, (leafCh_tok c h).2.2, rx]
  | .grp x, h => toE_tree x h
  | .seq a b, h => (app_tree _ _).trans (Eqv.cat (toE_tree a h.1) (toE_tree b h.2.1))
  | .bar a b, h => (uni_tree _ _).trans (Eqv.alt (toE_tree a h.1) (toE_tree b h.2))
  | .star a, h => Eqv.star (toE_tree a h.1)

/-- reading the blank-separated text of a core form -/
theorem parse_core (x : C) (h : Core x) :
    ∃ fuel r, parse fuel (PyPass.join [' '] (PyPass.sing (text x))) = .ok r ∧ Eqv r (rx x) := by
  refine ⟨E.need (toE x), tree (toE x), ?_, toE_tree x h⟩
  rw [join_eq_joinBlank, ← toE_flat x h]
  exact parse_joinBlank toks_A1 (toE x) (toE_wf x h) _ (Nat.le_refl _)

end Pfl.PyRx.E2E
