/-
Termination of the Earley model (C18), part 8: the symbol records of a production record built by
`buildGrammar` are pairwise distinct objects without pointer.
-/
import Pfl.Proofs.EarleyCompleteBuild
import Pfl.Proofs.EarleyTerminationSubs
import Mathlib.Data.List.Nodup
namespace Pfl
namespace Earley
namespace Term
open FsDag FsDag.Lem Lem Cmp Lem.Bld

/-- the first object allocated by `fsFor` is the symbol record; it has no pointer -/
theorem fsFor_first (st : Store) (vars : List (String × Nat)) (f : Feat) :
    ∃ nd blk, (fsFor st vars f).1 = st ++ nd :: blk ∧ nd.pointer = none ∧
      (fsFor st vars f).2.2 = st.length := by
  cases f with
  | none => exact ⟨emptyNode, [], by rw [fsFor_none], rfl, rfl⟩
  | some v =>
    by_cases hq : v.startsWith "?" = true
    · cases hl : lookupC v vars with
      | some vn => rw [fsFor_var_old' st hq hl]; exact ⟨recN _, [_], rfl, rfl, rfl⟩
      | none => rw [fsFor_var_new' st hq hl]; exact ⟨recN _, [_, _], rfl, rfl, rfl⟩
    · rw [fsFor_const' st vars hq]; exact ⟨recN _, [_], rfl, rfl, rfl⟩

theorem bodyStep_first (a : BAcc) (item : Sym × Feat) :
    ∃ nd blk, (bodyStep a item).1 = a.1 ++ nd :: blk ∧ nd.pointer = none ∧
      (bodyStep a item).2.2 = a.2.2 ++ [a.1.length] := by
  obtain ⟨sym, f⟩ := item
  cases sym with
  | ter t => exact ⟨emptyNode, [], rfl, rfl, rfl⟩
  | var X =>
    obtain ⟨nd, blk, h1, h2, h3⟩ := fsFor_first a.1 a.2.1 f
    refine ⟨nd, blk, h1, h2, ?_⟩
    show a.2.2 ++ [(fsFor a.1 a.2.1 f).2.2] = _
    rw [h3]

/-- increasing list of objects without pointer, all at least `lo` -/
def SlotsOK (st : Store) (lo : Nat) (l : List Nat) : Prop :=
  l.Pairwise (· < ·) ∧ ∀ s ∈ l, lo ≤ s ∧ s < st.length ∧ ptr st s = none

theorem body_fold_slots : ∀ (items : List (Sym × Feat)) (a : BAcc) (lo : Nat),
    SlotsOK a.1 lo a.2.2 → lo ≤ a.1.length →
    (∃ ext, (items.foldl bodyStep a).1 = a.1 ++ ext) ∧
      SlotsOK (items.foldl bodyStep a).1 lo (items.foldl bodyStep a).2.2 := by
  intro items
  induction items with
  | nil => intro a lo h _; exact ⟨⟨[], by simp⟩, h⟩
  | cons it items ih =>
    intro a lo h hlo
    rw [List.foldl_cons]
    obtain ⟨nd, blk, h1, h2, h3⟩ := bodyStep_first a it
    have hlen : a.1.length < (bodyStep a it).1.length := by rw [h1]; simp
    have hok : SlotsOK (bodyStep a it).1 lo (bodyStep a it).2.2 := by
      rw [h3]
      refine ⟨?_, ?_⟩
      · rw [List.pairwise_append]
        refine ⟨h.1, by simp, ?_⟩
        intro s hs t ht
        simp only [List.mem_singleton] at ht
        subst ht
        exact (h.2 s hs).2.1
      · intro s hs
        rcases List.mem_append.1 hs with hs | hs
        · obtain ⟨g1, g2, g3⟩ := h.2 s hs
          refine ⟨g1, by omega, ?_⟩
          rw [h1, ptr, get_append_lt _ g2]; exact g3
        · simp only [List.mem_singleton] at hs
          subst hs
          refine ⟨hlo, hlen, ?_⟩
          rw [h1, ptr, get_app_len, get_cons_zero]; exact h2
    obtain ⟨⟨ext, he⟩, hfin⟩ := ih (bodyStep a it) lo hok (by omega)
    exact ⟨⟨nd :: blk ++ ext, by rw [he, h1, List.append_assoc]⟩, hfin⟩

/-- a production record with pairwise distinct symbol records without pointer -/
def RecOK (st : Store) (F : Nat) : Prop :=
  ∃ hfs bfs, F < st.length ∧ FsDag.get st F = rootN hfs bfs ∧ (hfs :: bfs).Pairwise (· < ·) ∧
    ∀ s ∈ hfs :: bfs, s < st.length ∧ ptr st s = none

theorem RecOK.mono {st st' : Store} {F : Nat} (h : RecOK st F) (hf : Fr st st') : RecOK st' F := by
  obtain ⟨hfs, bfs, h1, h2, h3, h4⟩ := h
  refine ⟨hfs, bfs, Nat.lt_of_lt_of_le h1 hf.len, by rw [hf.old F h1]; exact h2, h3, ?_⟩
  intro s hs
  obtain ⟨g1, g2⟩ := h4 s hs
  exact ⟨Nat.lt_of_lt_of_le g1 hf.len, by rw [ptr, hf.old s g1]; exact g2⟩

theorem prodStep_rec (acc : Store × List FProd) (pr : Spec1) :
    Fr acc.1 (prodStep acc pr).1 ∧
    ∃ p, (prodStep acc pr).2 = acc.2 ++ [p] ∧ RecOK (prodStep acc pr).1 p.feats := by
  obtain ⟨nd, blk, h1, h2, h3⟩ := fsFor_first acc.1 [] pr.1.2
  have hlen1 : acc.1.length < (fsFor acc.1 [] pr.1.2).1.length := by rw [h1]; simp
  have hs0 : SlotsOK (fsFor acc.1 [] pr.1.2).1 (fsFor acc.1 [] pr.1.2).1.length [] :=
    ⟨List.Pairwise.nil, fun s hs => by simp at hs⟩
  obtain ⟨⟨ext, he⟩, hok⟩ := body_fold_slots pr.2
    ((fsFor acc.1 [] pr.1.2).1, (fsFor acc.1 [] pr.1.2).2.1, []) _ hs0 (Nat.le_refl _)
  have e : prodStep acc pr =
      ((List.foldl bodyStep ((fsFor acc.1 [] pr.1.2).1, (fsFor acc.1 [] pr.1.2).2.1, []) pr.2).1 ++
        [rootN (fsFor acc.1 [] pr.1.2).2.2
            (List.foldl bodyStep ((fsFor acc.1 [] pr.1.2).1, (fsFor acc.1 [] pr.1.2).2.1, []) pr.2).2.2],
       acc.2 ++ [(FProd.mk pr.1.1 (pr.2.map (·.1))
          (List.foldl bodyStep ((fsFor acc.1 [] pr.1.2).1, (fsFor acc.1 [] pr.1.2).2.1, [])
            pr.2).1.length)]) := rfl
  rw [e]
  clear e
  generalize hr2def : List.foldl bodyStep ((fsFor acc.1 [] pr.1.2).1, (fsFor acc.1 [] pr.1.2).2.1, [])
    pr.2 = r2 at *
  simp only at he hok ⊢
  have hfr : Fr acc.1 (r2.1 ++ [rootN (fsFor acc.1 [] pr.1.2).2.2 r2.2.2]) := by
    rw [he, h1, List.append_assoc, List.append_assoc]; exact Fr.append _ _
  have hlen2 : (fsFor acc.1 [] pr.1.2).1.length ≤ r2.1.length := by rw [he]; simp
  refine ⟨hfr, _, rfl, ?_⟩
  simp only
  refine ⟨(fsFor acc.1 [] pr.1.2).2.2, r2.2.2, by simp, by rw [get_append_len], ?_, ?_⟩
  · rw [List.pairwise_cons]
    refine ⟨?_, hok.1⟩
    intro s hs
    rw [h3]
    have := (hok.2 s hs).1
    omega
  · intro s hs
    rcases List.mem_cons.1 hs with rfl | hs
    · rw [h3]
      refine ⟨by simp; omega, ?_⟩
      rw [ptr, get_append_lt _ (by omega), he, get_append_lt _ hlen1, h1, get_app_len, get_cons_zero]
      exact h2
    · obtain ⟨_, g2, g3⟩ := hok.2 s hs
      refine ⟨by simp; omega, ?_⟩
      rw [ptr, get_append_lt _ g2]; exact g3

theorem outer_fold_rec : ∀ (spec : List Spec1) (acc : Store × List FProd),
    (∀ p ∈ acc.2, RecOK acc.1 p.feats) →
    Fr acc.1 (spec.foldl prodStep acc).1 ∧
      ∀ p ∈ (spec.foldl prodStep acc).2, RecOK (spec.foldl prodStep acc).1 p.feats := by
  intro spec
  induction spec with
  | nil => intro acc h; exact ⟨Fr.refl _, h⟩
  | cons pr spec ih =>
    intro acc h
    rw [List.foldl_cons]
    obtain ⟨hfr, p, hp, hrec⟩ := prodStep_rec acc pr
    obtain ⟨hfr2, hall⟩ := ih (prodStep acc pr) (by
      intro q hq
      rw [hp] at hq
      rcases List.mem_append.1 hq with hq | hq
      · exact (h q hq).mono hfr
      · simp only [List.mem_singleton] at hq; subst hq; exact hrec)
    exact ⟨hfr.trans hfr2, hall⟩

/-- all the production records of the built store, the one of the dummy rule included -/
theorem build_rec (spec : List Spec1) (start : String) :
    (∀ p ∈ (buildGrammar spec start).2.prods, RecOK (buildGrammar spec start).1 p.feats) ∧
      RecOK (buildGrammar spec start).1 (buildGrammar spec start).2.gammaFeats := by
  rw [buildGrammar_eq]
  obtain ⟨_, hall⟩ := outer_fold_rec spec ([], []) (by simp)
  generalize List.foldl prodStep ([], []) spec = R at *
  simp only
  have hf : Fr R.1 (gammaStep R.1) := by
    unfold gammaStep
    rw [List.append_assoc, List.append_assoc]; exact Fr.append _ _
  have hgl : (gammaStep R.1).length = R.1.length + 3 := by simp [gammaStep]
  refine ⟨fun p hp => (hall p hp).mono hf, ?_⟩
  have hroot : FsDag.get (gammaStep R.1) (R.1.length + 2) = rootN R.1.length [R.1.length + 1] := by
    unfold gammaStep
    rw [List.append_assoc, List.append_assoc, get_app_add, rootN_single]
    rfl
  refine ⟨R.1.length, [R.1.length + 1], by rw [hgl]; omega, hroot, by simp, ?_⟩
  intro s hs
  simp only [List.mem_cons, List.not_mem_nil, or_false] at hs
  rcases hs with rfl | rfl
  · refine ⟨by rw [hgl]; omega, ?_⟩
    unfold gammaStep
    rw [ptr, List.append_assoc, List.append_assoc, get_app_len]; rfl
  · refine ⟨by rw [hgl]; omega, ?_⟩
    unfold gammaStep
    rw [ptr, List.append_assoc, List.append_assoc, get_app_add]; rfl

/-! ### the symbol records of such a record are distinct -/

theorem lookupC_prodContent_inv {hfs : Nat} {bfs : List Nat} {i c : Nat}
    (h : lookupC (lab i) (prodContent hfs bfs) = some c) : (hfs :: bfs)[i]? = some c := by
  cases i with
  | zero =>
    rw [show lab 0 = "head" from rfl, lookupC_prodContent_head] at h
    simpa using h
  | succ j =>
    have hm := lookupC_mem h
    simp only [lab, prodContent, List.mem_cons, Prod.mk.injEq, List.mem_map] at hm
    rcases hm with ⟨h1, _⟩ | ⟨e, he, h1, h2⟩
    · exact absurd h1.symm (head_ne_toString j)
    · have hj := toString_nat_inj h1
      have := mem_zip_range (show (e.1, e.2) ∈ _ from he)
      rw [hj, h2] at this
      simpa using this

theorem RecOK.slots {st : Store} {F : Nat} (h : RecOK st F) {i j c : Nat}
    (hi : slotOf st F i = some c) (hj : slotOf st F j = some c) : i = j := by
  obtain ⟨hfs, bfs, _, hroot, hpw, hall⟩ := h
  have hp : ptr st F = none := by rw [ptr, hroot]; rfl
  have hc : cont st (deref st F) = prodContent hfs bfs := by
    rw [deref_of_none hp, cont, hroot]; rfl
  have key : ∀ k u, slotOf st F k = some u → (hfs :: bfs)[k]? = some u := by
    intro k u hk
    obtain ⟨s, hs, hsu⟩ := slotOf_some hk
    rw [hc] at hs
    have h1 := lookupC_prodContent_inv hs
    have hmem : s ∈ hfs :: bfs := List.mem_of_getElem? h1
    rw [deref_of_none (hall s hmem).2] at hsu
    rw [← hsu]; exact h1
  have h1 := key i c hi
  have h2 := key j c hj
  have hnd : (hfs :: bfs).Nodup := hpw.imp (fun h => Nat.ne_of_lt h)
  have hil : i < (hfs :: bfs).length := (List.getElem?_eq_some_iff.1 h1).1
  exact (List.getElem?_inj hil hnd).1 (by rw [h1, h2])

end Term
end Earley
end Pfl
